/-
Model driver: one JSON request per line on stdin, one JSON answer per line on stdout.
Run with `lake env lean --run Driver.lean`.
-/
import JinnsDriver
open Lean

def dispatch (op : String) (j : Json) : Except String Json :=
  match op with
  | "c09" => Jinns.Driver.handleC09 j
  | _ => throw s!"unknown op {op}"

def answer (line : String) : String :=
  match Json.parse line with
  | .error e => (Json.mkObj [("ok", Json.bool false), ("error", Json.str s!"parse: {e}")]).compress
  | .ok j =>
    let id := (j.getObjVal? "id").toOption.getD Json.null
    match (j.getObjVal? "op" >>= (·.getStr?)) with
    | .error e => (Json.mkObj [("id", id), ("ok", Json.bool false), ("error", Json.str e)]).compress
    | .ok op =>
      match dispatch op j with
      | .ok r => (r.mergeObj (Json.mkObj [("id", id), ("ok", Json.bool true)])).compress
      | .error e => (Json.mkObj [("id", id), ("ok", Json.bool false), ("error", Json.str e)]).compress

partial def loop (h : IO.FS.Stream) (out : IO.FS.Stream) : IO Unit := do
  let line ← h.getLine
  if line.isEmpty then return ()
  let l := line.trimAscii.toString
  if !l.isEmpty then
    out.putStrLn (answer l)
  loop h out

def main : IO Unit := do
  let out ← IO.getStdout
  loop (← IO.getStdin) out
  out.flush
