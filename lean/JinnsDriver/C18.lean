import JinnsDriver.SolveProto
import JinnsModel.HoldsC18
open Lean Jinns.Proto Jinns.Driver.SolveProto

namespace Jinns.Driver

/-- request {prog, obs}: model run, reference trace (NaN propagates, the reference loop does not
    stop), `Holds.C18` on the observation; when the program has no fault `Holds.C07` applies.
    Compared with the model: what the property constrains (iterations, batches, returned
    parameters, histories). -/
def handleC18 (j : Json) : Except String Json := do
  let ld ← load j
  let ref := ld.ref ()
  let rej := ld.ob.error.isSome
  -- with a validation module (which, in the C18 cases, never requests a stop before the fault):
  -- the criterion history, the invocations and the best parameters up to and including the
  -- failing iteration must be those of the schedule (`Holds.C19`)
  let holds := match Jinns.Holds.holdsC18 ref rej ld.ob.obs with
    | some c => some c
    | none => match Jinns.Holds.holdsC07 ref rej ld.ob.obs with
      | some c => some c
      | none => holdsValidation ld ref
  let k := Jinns.Holds.SolveAux.firstFault ref
  let r := answer ld ["iters", "batches", "params", "loss_hist", "term_hist", "tracked", "crit_hist", "best", "calls"] holds
  pure (r.mergeObj (Json.mkObj [
    ("fault_at", match k with | none => Json.null | some k => Json.num (k : Nat)),
    ("initial_nan", Json.bool (Jinns.SolveTrace.hasNaN ld.pg.θ0))]))

/-- request {ref, obs}: the reference trace is SUPPLIED (a fault-free run of the same program, with the
    parameters after the failing update marked NaN) instead of computed from the exact program family: used
    for programs outside that family (a real `LossODE` / `LossPDEStatio` with a residual-adaptive data
    generator).  `Holds.C18` is evaluated on the observation; nothing is compared with a model. -/
def handleC18Ref (j : Json) : Except String Json := do
  let r ← j.getObjVal? "ref"
  let ref : Jinns.SolveTrace.RefTrace := {
    n := ← getNat r "n", batches := [], opts := [], gens := [],
    thetas := ← paramsList (← r.getObjVal? "thetas"),
    losses := ← valList (← r.getObjVal? "losses"),
    terms := ← valMat (← r.getObjVal? "terms"),
    tracked := ← paramsList (← r.getObjVal? "tracked"),
    zeroTracked := ← params (← r.getObjVal? "zero_tracked"),
    nTerms := ← getNat r "n_terms" }
  let ob ← observed (← j.getObjVal? "obs")
  let holds := Jinns.Holds.holdsC18 ref ob.error.isSome ob.obs
  pure (Json.mkObj [("holds", Json.bool holds.isNone), ("clause", match holds with | some c => Json.str c | none => Json.null),
    ("agree", Json.bool true), ("differs", Json.arr #[]), ("bits", Json.num (0 : Nat)),
    ("fault_at", match Jinns.Holds.SolveAux.firstFault ref with | none => Json.null | some k => Json.num (k : Nat))])

def opsC18 : List (String × (Json → Except String Json)) := [("c18", handleC18), ("c18ref", handleC18Ref)]

end Jinns.Driver
