import JinnsDriver.SolveProto
import JinnsModel.HoldsC18
open Lean Jinns.Proto Jinns.Driver.SolveProto

namespace Jinns.Driver

/-- request {prog, obs}: model run, reference trace (NaN propagates, the reference loop does not
    stop), `Holds.C18` on the observation; when the program has no fault `Holds.C07` applies.
    Compared with the model: what the property constrains (iterations, batches, returned
    parameters, histories). -/
def handleC18 (j : Json) : Except String Json := do
  let ld ← load j
  let ref := ld.ref ()
  let rej := ld.ob.error.isSome
  let holds := match Jinns.Holds.holdsC18 ref rej ld.ob.obs with
    | some c => some c
    | none => Jinns.Holds.holdsC07 ref rej ld.ob.obs
  let k := Jinns.Holds.SolveAux.firstFault ref
  let r := answer ld ["iters", "batches", "params", "loss_hist", "term_hist", "tracked"] holds
  pure (r.mergeObj (Json.mkObj [
    ("fault_at", match k with | none => Json.null | some k => Json.num (k : Nat)),
    ("initial_nan", Json.bool (Jinns.SolveTrace.hasNaN ld.pg.θ0))]))

def opsC18 : List (String × (Json → Except String Json)) := [("c18", handleC18)]

end Jinns.Driver
