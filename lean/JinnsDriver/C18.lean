import JinnsDriver.SolveProto
import JinnsModel.HoldsC18
open Lean Jinns.Proto Jinns.Driver.SolveProto

namespace Jinns.Driver

/-- request {prog, obs}: model run, reference trace (NaN propagates, the reference loop does not
    stop), `Holds.C18` on the observation; when the program has no fault `Holds.C07` applies.
    Compared with the model: what the property constrains (iterations, batches, returned
    parameters, histories). -/
def handleC18 (j : Json) : Except String Json := do
  let ld ← load j
  let ref := ld.ref ()
  let rej := ld.ob.error.isSome
  -- with a validation module (which, in the C18 cases, never requests a stop before the fault):
  -- the criterion history, the invocations and the best parameters up to and including the
  -- failing iteration must be those of the schedule (`Holds.C19`)
  let holds := match Jinns.Holds.holdsC18 ref rej ld.ob.obs with
    | some c => some c
    | none => match Jinns.Holds.holdsC07 ref rej ld.ob.obs with
      | some c => some c
      | none => holdsValidation ld ref
  let k := Jinns.Holds.SolveAux.firstFault ref
  let r := answer ld ["iters", "batches", "params", "loss_hist", "term_hist", "tracked", "crit_hist", "best", "calls"] holds
  pure (r.mergeObj (Json.mkObj [
    ("fault_at", match k with | none => Json.null | some k => Json.num (k : Nat)),
    ("initial_nan", Json.bool (Jinns.SolveTrace.hasNaN ld.pg.θ0))]))

def opsC18 : List (String × (Json → Except String Json)) := [("c18", handleC18)]

end Jinns.Driver
