import JinnsDriver.Proto
import JinnsDriver.C12
import JinnsModel.Frame
import JinnsModel.HoldsC20
open Lean Jinns.Proto

namespace Jinns.Driver
open Jinns.ParamBatch Jinns.SystemLoss Jinns.Holds Jinns.Frame Jinns.Driver.SysProto

/-- one callee + argument tuple of the history: the model's post-state of the caller's parameters and
    the model's value; `none` for generator calls (their batches depend on the PRNG; only purity is
    observed) -/
def modelCall (j : Json) : Except String (Option (Bool × Holds.Outcome)) := do
  let kind ← getStr j "kind"
  if kind == "gen" then pure none
  else
    let p ← parseKV (← j.getObjVal? "params")
    let readers ← parseKV (← j.getObjVal? "readers")
    if kind == "single" then
      let lk ← getStr j "loss_kind"
      let k : LossKind := if lk == "ode" then .ode else if lk == "statio" then .statio else .nonstatio
      let s ← parseSingle readers (← j.getObjVal? "single")
      let r := evaluateSingle k s p
      pure (some (r.1 == p, r.2))
    else
      let ns ← getBool j "nonstatio"
      let S ← parseSys readers (← j.getObjVal? "sys")
      let r := evaluateSys S ns p
      pure (some (r.1 == p, r.2))

/-- request: `{calls: [...], trace: [{call, mode, before, after, result_key, result}]}` -/
def handleC20 (j : Json) : Except String Json := do
  let calls ← (← getArr j "calls").mapM modelCall
  let tr ← (← getArr j "trace").mapM fun r => do
    let call ← getNat r "call"
    let mode ← getStr r "mode"
    let before ← (← getArr r "before").mapM (·.getStr?)
    let after ← (← getArr r "after").mapM (·.getStr?)
    let key ← getStr r "result_key"
    let res ← optM r "result" parseOutcome
    let rej ← getBool r "rejected"
    pure (({ call := call, mode := mode, before := before, after := after, result := key,
             rejected := rej } : Rec20), res)
  let holds := holdsC20 (tr.map (·.1))
  -- correspondence: every observed value of a loss call equals the model's exact value
  let bad := tr.filter fun rr =>
    match calls[rr.1.call]?, rr.2 with
    | some (some m), some o => !(sameOutcome m.2 o)
    | some (some _), none => true
    | _, _ => false
  let modelFrame := calls.all fun c => match c with
    | some m => m.1
    | none => true
  pure <| Json.mkObj [
    ("holds", Json.bool holds.isNone), ("clause", jOptStr holds),
    ("agree", Json.bool bad.isEmpty),
    ("disagreeing", Json.arr (bad.map fun rr => Json.mkObj [("call", Json.num (rr.1.call : Nat)),
        ("mode", Json.str rr.1.mode)]).toArray),
    ("model_frame", Json.bool modelFrame),
    ("model", Json.arr (calls.map fun c => match c with
        | some m => jOutcome m.2
        | none => Json.null).toArray)]

def opsC20 : List (String × (Json → Except String Json)) := [("c20", handleC20)]

end Jinns.Driver
