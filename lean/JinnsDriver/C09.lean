import JinnsDriver.Proto
import JinnsModel.Minibatch
import JinnsModel.HoldsC09
open Lean Jinns.Proto

namespace Jinns.Driver

/-- request: {store0:[nat], b:nat, nEff:nat, trace:[{reset,store,batch}]}.
    The model is run with the observed stores as PRNG oracles; its batches and reshuffle flags
    are returned together with `Holds.C09` evaluated on the observed trace. -/
def handleC09 (j : Json) : Except String Json := do
  let store0 ← getNatList j "store0"
  let b ← getNat j "b"
  let nEff ← getNat j "nEff"
  let tr ← getArr j "trace"
  let recs ← tr.mapM (fun r => do
    let reset ← getBool r "reset"
    let store ← getNatList r "store"
    let batch ← getNatList r "batch"
    pure ({ reset := reset, store := store, batch := batch } : Jinns.Holds.Rec09))
  let oracles := recs.map (·.store)
  let m0 := Jinns.Minibatch.init store0 b
  let (_, batches) := Jinns.Minibatch.run nEff m0 oracles
  let flags := Jinns.Minibatch.resetFlags nEff m0 oracles
  let oracleOk := oracles.all (fun o => o.isPerm store0)
  let agree := batches == recs.map (·.batch) && flags == recs.map (·.reset)
  -- optional "active": labels of the points with non-zero sampling probability (RAR generators);
  -- the PRNG contract then also requires the active points to stay in the first nEff slots
  let active ← (match j.getObjVal? "active" with
    | .ok a => natList a
    | .error _ => pure store0)
  let oracleOk := oracleOk && (recs.all (fun r => !r.reset || (r.store.take nEff).isPerm active))
  let holds := Jinns.Holds.holdsC09Active store0 active b recs
  pure <| Json.mkObj [
    ("model_batches", jNatMat batches), ("model_resets", jBools flags),
    ("oracle_contract", Json.bool oracleOk),
    ("agree", Json.bool agree), ("holds", Json.bool holds.isNone), ("clause", jOptStr holds)]

def opsC09 : List (String × (Json → Except String Json)) := [("c09", handleC09)]

end Jinns.Driver
