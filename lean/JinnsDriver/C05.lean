import JinnsDriver.C03
import JinnsModel.HoldsC05
open Lean Jinns.Proto Jinns.LossTerms

/-
Driver for C05: the model's initial-condition, normalisation and observation terms (computed from
whole-output tables, the model doing the slicing, the row alignment of observed parameters and the
aggregation) are returned together with `Holds.C05` evaluated on the observed values and on the
harness's own solution-level tables.
-/
namespace Jinns.Driver

def parseW05 (j : Json) : Except String Jinns.Holds.W05 := do
  match optField j "scalar" with
  | some s => pure { scalar := some (← rat s), vec := [] }
  | none => pure { scalar := none, vec := ← getRatList j "vec" }

def parseRowPairs (j : Json) : Except String (List (List Rat × List Rat)) := parseTab j

/-- request: {"case": loss case, "obs": {"tol", "ic_ode"?, "ic_pde"?, "norm_statio"?, "norm_nonstatio"?, "obs"?}} -/
def handleC05 (j : Json) : Except String Json := do
  let c ← parseLossCase (← j.getObjVal? "case")
  let oj ← j.getObjVal? "obs"
  let icOde ← (match optField oj "ic_ode" with
    | none => pure none
    | some e => do pure (some (← getRat e "value", ← getRat e "w", ← getRatList e "ut0", ← getRatList e "u0")))
  let icPde ← (match optField oj "ic_pde" with
    | none => pure none
    | some e => do
      pure (some (← getRat e "value", ← parseW05 (← e.getObjVal? "w"), ← parseRowPairs (← e.getObjVal? "rows"))))
  let normS ← (match optField oj "norm_statio" with
    | none => pure none
    | some e => do pure (some (← getRat e "value", ← getRat e "w", ← getRat e "L", ← getRatList e "us")))
  let normN ← (match optField oj "norm_nonstatio" with
    | none => pure none
    | some e => do pure (some (← getRat e "value", ← getRat e "w", ← getRat e "L", ← getRatMat e "tbl")))
  let obs ← (match optField oj "obs" with
    | none => pure none
    | some e => do
      pure (some (← getRat e "value", ← parseW05 (← e.getObjVal? "w"), ← parseRowPairs (← e.getObjVal? "rows"))))
  let o : Jinns.Holds.Obs05 :=
    { tol := ← getRat oj "tol", icOde := icOde, icPde := icPde, normStatio := normS,
      normNonStatio := normN, obs := obs }
  let holds := Jinns.Holds.holdsC05 o
  pure <| Json.mkObj ((← modelAnswer c) ++ [("holds", Json.bool holds.isNone), ("clause", jOptStr holds)])

def opsC05 : List (String × (Json → Except String Json)) := [("c05", handleC05)]

end Jinns.Driver
