import JinnsDriver.Proto
import JinnsModel.Loaders
import JinnsModel.HoldsC15
open Lean Jinns.Proto Jinns.Domain Jinns.Loaders Jinns.Minibatch

namespace Jinns.Driver

/-- non-finite floats cross the protocol as the strings "nan", "inf", "-inf": the innermost object key
    under which the first one occurs, if any (scanned before any exact-rational parsing) -/
private partial def nonFiniteKey (j : Json) (key : String) : Option String :=
  match j with
  | .str s => if s == "nan" || s == "inf" || s == "-inf" then some key else none
  | .arr a => a.toList.findSome? (nonFiniteKey · key)
  | .obj kvs => kvs.toList.findSome? fun kv => nonFiniteKey kv.2 kv.1
  | _ => none

private def optAt15 {β : Type} (j : Json) (k : String) (f : Json → Except String β) :
    Except String (Option β) := do
  match j.getObjVal? k with
  | .error _ => pure none
  | .ok v => if v.isNull then pure none else do let x ← f v; pure (some x)

/-- a user array: {"shape": [...], "data": nested lists of exact rationals} -/
private def parseTbl (j : Json) : Except String Tbl := do
  let shape ← getNatList j "shape"
  let d ← j.getObjVal? "data"
  match shape with
  | [_] => do let v ← ratList d; pure (.d1 v)
  | [_, c] => do let m ← ratMat d; pure (.d2 m c)
  | n :: _ => pure (.hi n shape.length)
  | [] => throw "0-dimensional table"

private def parseNamed {β : Type} (f : Json → Except String β) (j : Json) : Except String (List (String × β)) := do
  let a ← j.getArr?
  a.toList.mapM fun p => do
    let pr ← p.getArr?
    match pr.toList with
    | [k, v] => do let ks ← k.getStr?; let x ← f v; pure (ks, x)
    | _ => throw "expected [name, value]"

private def lifted (t : Tbl) : List (List Rat) := t.lift.getD []

private structure Acc15 where
  agree : Bool := true
  contract : Bool := true
  clause : Option String := none
  step : Option Nat := none

private def Acc15.note (a : Acc15) (k : Nat) (c : Option String) : Acc15 :=
  match a.clause, c with
  | none, some s => { a with clause := some s, step := some k }
  | _, _ => a

private def result15 (err : Option (String × String)) (extra : List (String × Json)) (a : Acc15) : Json :=
  Json.mkObj ([
    ("error", match err with | some (e, _) => Json.str e | none => Json.null),
    ("stage", match err with | some (_, s) => Json.str s | none => Json.null),
    ("agree", Json.bool a.agree), ("oracle_contract", Json.bool a.contract),
    ("holds", Json.bool a.clause.isNone), ("clause", jOptStr a.clause),
    ("step", match a.step with | some n => Json.num (n : Nat) | none => Json.null)] ++ extra)

private def readBatch (j : Json) : Except String ObsBatch := do
  let pin ← getRatMat j "pin"
  let val ← getRatMat j "val"
  let eq ← parseNamed ratMat (← j.getObjVal? "eq")
  pure { pin := pin, val := val, eq := eq }

private def toB15 (bt : ObsBatch) : Jinns.Holds.Batch15 := (bt.pin, bt.val, bt.eq)
private def liftEq (eq : List (String × Tbl)) : List (String × List (List Rat)) := eq.map fun kt => (kt.1, lifted kt.2)

/-- request `c15_obs`: {b, pin, val, eq:[[name, tbl]], built: bool,
    steps:[{indices, pin, val, eq:[[name, mat]]}]} -/
private def handleObs (j : Json) : Except String Json := do
  let b ← getNat j "b"
  let pin ← parseTbl (← j.getObjVal? "pin")
  let val ← parseTbl (← j.getObjVal? "val")
  let eq ← parseNamed parseTbl (← j.getObjVal? "eq")
  let steps ← getArr j "steps"
  match mkObs { b := b, pin := pin, val := val, eq := eq } with
  | .error e => pure (result15 (some (e.name, "init")) [] {})
  | .ok g0 =>
    match sliceGuard g0.n b with
    | .error e => pure (result15 (some (e.name, "batch")) [] {})
    | .ok _ =>
      let mut g := g0
      let mut acc : Acc15 := {}
      let mut seen : List Jinns.Holds.Batch15 := []
      for s in steps do
        let idx ← getNatList s "indices"
        let bt ← readBatch s
        let r := obsNext g idx
        g := r.1
        if !(idx.isPerm (List.range g0.n)) then acc := { acc with contract := false }
        if !(r.2 == bt) then acc := { acc with agree := false }
        seen := seen ++ [toB15 bt]
      acc := acc.note 0 (Jinns.Holds.holdsC15Obs b (lifted pin) (lifted val) (liftEq eq) seen)
      pure (result15 none [] acc)

/-- request `c15_param`: {n, b, method, keys:[{name, range:[lo,hi]|null, user:tbl|null}],
    stores:[[name, mat]]|null, steps:[[{name, perm, batch}]]} -/
private def handleParam (j : Json) : Except String Json := do
  let n ← getNat j "n"
  let b ← getNat j "b"
  let method ← getStr j "method"
  let keysJ ← getArr j "keys"
  let keys ← keysJ.mapM fun kj => do
    let name ← getStr kj "name"
    let range ← optAt15 kj "range" fun r => do
      let l ← ratList r
      match l with
      | [lo, hi] => pure (lo, hi)
      | _ => throw "range"
    let user ← optAt15 kj "user" parseTbl
    pure ({ name := name, range := range, user := user } : ParamKey)
  let stores ← optAt15 j "stores" (parseNamed ratMat)
  let steps ← getArr j "steps"
  let oracleOf (k : ParamKey) : List Rat :=
    match stores with
    | some ss => ((ss.lookup k.name).getD []).map fun r => r.headD 0
    | none => List.replicate n ((k.range.map (·.1)).getD 0)
  match mkParam n b method (keys.map fun k => (k, oracleOf k)) with
  | .error e =>
    -- a broken sampler contract shows in Holds on the observed stores
    let mut acc : Acc15 := {}
    if let some ss := stores then
      acc := acc.note 0 (Jinns.Holds.holdsC15Param n b (keys.map fun k =>
        (k.user.map lifted, k.range, (ss.lookup k.name).getD [], [])))
    pure (result15 (some (e.name, "init")) [] acc)
  | .ok mstores =>
    let ms := Json.arr (mstores.map fun kv => Json.arr #[Json.str kv.1, jRatMat kv.2]).toArray
    match stores, paramBatchGuard keys.length with
    | none, _ => pure (result15 none [("model_stores", ms)] {})
    | some _, .error e => pure (result15 (some (e.name, "batch")) [("model_stores", ms)] {})
    | some ss, .ok _ =>
      let mut acc : Acc15 := {}
      -- stores: user / uniform keys must equal the model's exactly (grid keys are compared by the harness)
      for k in keys do
        let s := (ss.lookup k.name).getD []
        if (k.user.isSome || method == "uniform") && !((mstores.lookup k.name) == some s) then
          acc := { acc with agree := false }
      if !(ss.map (·.1) == mstores.map (·.1)) then acc := { acc with agree := false }
      -- batches: one cursor per key, run from the implementation's store
      let mut curs : List (String × MB (List Rat)) := ss.map fun kv => (kv.1, Minibatch.init kv.2 b)
      let mut served : List (String × List (List (List Rat))) := ss.map fun kv => (kv.1, [])
      for sj in steps do
        let ents ← sj.getArr?
        for e in ents.toList do
          let name ← getStr e "name"
          let perm ← getNatList e "perm"
          let bt ← getRatMat e "batch"
          let store0 := (ss.lookup name).getD []
          match curs.lookup name with
          | none => acc := { acc with agree := false }
          | some m =>
            let o := perm.filterMap (store0[·]?)
            if !(perm.isPerm (List.range store0.length)) then acc := { acc with contract := false }
            let r := Minibatch.next n m o
            curs := curs.map fun kv => if kv.1 == name then (name, r.1) else kv
            served := served.map fun kv => if kv.1 == name then (name, kv.2 ++ [bt]) else kv
            if !(r.2 == bt) then acc := { acc with agree := false }
        if !(ents.toList.length == keys.length) then acc := { acc with agree := false }
      acc := acc.note 0 (Jinns.Holds.holdsC15Param n b (keys.map fun k =>
        (k.user.map lifted, k.range, (ss.lookup k.name).getD [], (served.lookup k.name).getD [])))
      pure (result15 none [("model_stores", ms)] acc)

/-- request `c15_multi`: {b, pin_given, val_given, pin_keys, val_keys, eq_keys|null,
    nets:[{name, pin:tbl|null, val:tbl|null, eq:[[k,tbl]]}],
    steps:[[{name, empty, indices|null, batch|null}]]} -/
private def handleMulti (j : Json) : Except String Json := do
  let b ← getNat j "b"
  let pg ← getBool j "pin_given"
  let vg ← getBool j "val_given"
  let strs (k : String) : Except String (List String) := do
    let a ← getArr j k
    a.mapM (·.getStr?)
  let pk ← strs "pin_keys"
  let vk ← strs "val_keys"
  let ek ← optAt15 j "eq_keys" fun v => do let a ← v.getArr?; a.toList.mapM (·.getStr?)
  let netsJ ← getArr j "nets"
  let nets ← netsJ.mapM fun nj => do
    let name ← getStr nj "name"
    let pin ← optAt15 nj "pin" parseTbl
    let val ← optAt15 nj "val" parseTbl
    let eq ← parseNamed parseTbl (← nj.getObjVal? "eq")
    pure ({ name := name, pin := pin, val := val, eq := eq } : NetArgs)
  let steps ← getArr j "steps"
  match mkMulti b pg vg pk vk ek nets with
  | .error e => pure (result15 (some (e.name, "init")) [] {})
  | .ok gs0 =>
    let guard := gs0.findSome? fun kg => match kg.2 with
      | some g => (match sliceGuard g.n b with | .error e => some e | .ok _ => none)
      | none => none
    match guard with
    | some e => pure (result15 (some (e.name, "batch")) [] {})
    | none =>
      let mut gs := gs0
      let mut acc : Acc15 := {}
      let mut k := 0
      let mut allSteps : List (List (String × Bool × Option Jinns.Holds.Batch15)) := []
      let netTables := nets.map fun a => (a.name, match a.pin, a.val with
        | some p, some v => some (lifted p, lifted v, liftEq a.eq)
        | _, _ => none)
      for sj in steps do
        let ents ← sj.getArr?
        let mut oracles : List (List Nat) := []
        let mut seen : List (String × Bool × Option ObsBatch) := []
        for kg in gs do
          match ents.toList.find? (fun e => (getStr e "name").toOption == some kg.1) with
          | none =>
            oracles := oracles ++ [[]]
            acc := { acc with agree := false }
          | some e =>
            let empty ← getBool e "empty"
            let idx ← optAt15 e "indices" natList
            let bt ← optAt15 e "batch" readBatch
            oracles := oracles ++ [idx.getD []]
            seen := seen ++ [(kg.1, empty, bt)]
            if let (some g, some ix) := (kg.2, idx) then
              if !(ix.isPerm (List.range g.n)) then acc := { acc with contract := false }
        if !(ents.toList.length == gs.length) then acc := { acc with agree := false }
        let r := multiNext gs oracles
        gs := r.1
        for (name, empty, bt) in seen do
          let model := (r.2.lookup name).getD none
          let implB : Option ObsBatch := if empty then none else bt
          if !(model == implB) then acc := { acc with agree := false }
        -- the observed step, in the order the implementation returned it
        let mut obsStep : List (String × Bool × Option Jinns.Holds.Batch15) := []
        for e in ents.toList do
          let name ← getStr e "name"
          let empty ← getBool e "empty"
          let bt ← optAt15 e "batch" readBatch
          obsStep := obsStep ++ [(name, empty, bt.map toB15)]
        allSteps := allSteps ++ [obsStep]
        k := k + 1
      acc := acc.note 0 (Jinns.Holds.holdsC15Multi b netTables allSteps)
      pure (result15 none [] acc)

/-- a non-finite entry anywhere in the observed arrays is a verdict of its own -/
private def finiteFirst (h : Json → Except String Json) (j : Json) : Except String Json :=
  match nonFiniteKey j "" with
  | some key =>
    let what := match key with
      | "pin" => "obs-batch-input" | "val" => "obs-batch-value" | "eq" => "obs-batch-eq-param"
      | "batch" => "param-batch" | "stores" => "param-store" | k => k
    let acc : Acc15 := { clause := Jinns.Holds.c15NotFinite what }
    pure ((result15 none [] acc).mergeObj (Json.mkObj [("nonfinite", Json.bool true)]))
  | none => h j

def opsC15 : List (String × (Json → Except String Json)) :=
  [("c15_obs", finiteFirst handleObs), ("c15_param", finiteFirst handleParam),
   ("c15_multi", finiteFirst handleMulti)]

end Jinns.Driver
