import JinnsDriver.Proto
import JinnsModel.Cartesian
import JinnsModel.HoldsC14
open Lean Jinns.Proto

namespace Jinns.Driver

/-- non-finite floats cross the protocol as the strings "nan", "inf", "-inf": the innermost object key
    under which the first one occurs, if any (scanned before any exact-rational parsing) -/
private partial def nonFiniteKey (j : Json) (key : String) : Option String :=
  match j with
  | .str s => if s == "nan" || s == "inf" || s == "-inf" then some key else none
  | .arr a => a.toList.findSome? (nonFiniteKey · key)
  | .obj kvs => kvs.toList.findSome? fun kv => nonFiniteKey kv.2 kv.1
  | _ => none

private def nonFiniteAnswer14 (j : Json) : Option Json :=
  (nonFiniteKey j "").map fun key =>
    let what := match key with
      | "tx" => "interior" | "tdx" => "border" | "out" => "product" | k => k
    Json.mkObj [("nonfinite", Json.bool true), ("agree", Json.bool true), ("factors_agree", Json.bool true),
      ("holds", Json.bool false), ("clause", jOptStr (Jinns.Holds.c14NotFinite what)), ("step", Json.null)]

private def ratCube (j : Json) : Except String (List (List (List Rat))) := do
  let a ← j.getArr?
  a.toList.mapM ratMat

private def jRatCube (l : List (List (List Rat))) : Json := .arr (l.map jRatMat).toArray

private def optCube (j : Json) (k : String) : Except String (Option (List (List (List Rat)))) := do
  let v ← j.getObjVal? k
  if v.isNull then pure none else do
    let c ← ratCube v
    pure (some c)

/-- request `c14_prod`: {rank: 2|3, b1, b2, out}: one call of `make_cartesian_product`. -/
def handleC14Prod (j : Json) : Except String Json := do
  if let some ans := nonFiniteAnswer14 j then return ans
  let rank ← getNat j "rank"
  if rank == 2 then do
    let b1 ← getRatMat j "b1"
    let b2 ← getRatMat j "b2"
    let out ← getRatMat j "out"
    let model := Jinns.Cartesian.cartesian b1 b2
    let holds := Jinns.Holds.holdsC14Product2 b1 b2 out
    pure <| Json.mkObj [("model", jRatMat model), ("agree", Json.bool (model == out)),
      ("holds", Json.bool holds.isNone), ("clause", jOptStr holds)]
  else do
    let b1 ← ratCube (← j.getObjVal? "b1")
    let b2 ← ratCube (← j.getObjVal? "b2")
    let out ← ratCube (← j.getObjVal? "out")
    let model := Jinns.Cartesian.cartesian b1 b2
    let holds := Jinns.Holds.holdsC14Product3 b1 b2 out
    pure <| Json.mkObj [("model", jRatCube model), ("agree", Json.bool (model == out)),
      ("holds", Json.bool holds.isNone), ("clause", jOptStr holds)]

/-- request `c14_batch`: {cart, dim, steps:[{times,tidx,bt, omega,oidx,b, border|null,bidx,bb,
    ts,xs,dx|null, tx,tdx|null}]}: the post-state of the generator after each `get_batch`
    (stores and cursors), the factors read off it by the harness, and the returned batch.
    The model slices the stores at the cursors (C09's `slice`), combines, and `Holds.C14` is
    evaluated on the observed factors and batch. -/
def handleC14Batch (j : Json) : Except String Json := do
  if let some ans := nonFiniteAnswer14 j then return ans
  let cart ← getBool j "cart"
  let dim ← getNat j "dim"
  let steps ← getArr j "steps"
  let mut agree := true
  let mut factorsOk := true
  let mut clause : Option String := none
  let mut badStep : Option Nat := none
  let mut k := 0
  for s in steps do
    let times ← getRatList s "times"
    let tidx ← getNat s "tidx"
    let bt ← getNat s "bt"
    let omega ← getRatMat s "omega"
    let oidx ← getNat s "oidx"
    let b ← getNat s "b"
    let border ← optCube s "border"
    let bidx ← getNat s "bidx"
    let bb ← getNat s "bb"
    let ts ← getRatList s "ts"
    let xs ← getRatMat s "xs"
    let dx ← optCube s "dx"
    let tx ← getRatMat s "tx"
    let tdx ← optCube s "tdx"
    -- model: factors = C09 slices of the stores at the cursors; 1-D border = the whole border
    let mts := Jinns.Minibatch.slice times tidx bt
    let mxs := Jinns.Minibatch.slice omega oidx b
    let mdx := border.map fun st =>
      if dim == 1 then st else Jinns.Minibatch.slice st bidx bb
    if !(mts == ts && mxs == xs && mdx == dx) then factorsOk := false
    let (mtx, mtdx) := Jinns.Cartesian.combine cart dim mxs mdx mts
    if !(mtx == tx && mtdx == tdx) then agree := false
    if clause.isNone then
      match Jinns.Holds.holdsC14 cart dim ts xs dx tx tdx with
      | some c => clause := some c; badStep := some k
      | none => pure ()
    k := k + 1
  pure <| Json.mkObj [("agree", Json.bool agree), ("factors_agree", Json.bool factorsOk),
    ("holds", Json.bool clause.isNone), ("clause", jOptStr clause),
    ("step", match badStep with | some n => Json.num (n : Nat) | none => Json.null)]

/-- request `c14_guard`: {cart, dim, bt, b, bb|null}: does the constructor reject (and how)? -/
def handleC14Guard (j : Json) : Except String Json := do
  let cart ← getBool j "cart"
  let dim ← getNat j "dim"
  let bt ← getNat j "bt"
  let b ← getNat j "b"
  let bbj ← j.getObjVal? "bb"
  let bb ← if bbj.isNull then pure none else do let n ← bbj.getNat?; pure (some n)
  let r := Jinns.Cartesian.pairingGuard cart dim bt b bb
  pure <| Json.mkObj [("error", match r with | .ok _ => Json.null | .error e => Json.str e)]

def opsC14 : List (String × (Json → Except String Json)) :=
  [("c14_prod", handleC14Prod), ("c14_batch", handleC14Batch), ("c14_guard", handleC14Guard)]

end Jinns.Driver
