import JinnsDriver.Proto
import JinnsModel.Wrappers
import JinnsModel.HoldsC10
open Lean Jinns.Proto Jinns.Wrappers Jinns.Holds

/-
C10 driver.  One request = one wrapper configuration with all its calls.  The request carries the
declared configuration (architecture, the integer weights that were written into the real network,
transform descriptions, slices, equation parameters) and what the implementation returned; the answer
carries the model's outputs, `agree` (implementation = model on every observable, error kinds included),
`Holds.C10` evaluated on the observations, and an exactness guard (every float64 operation of the
implementation is exact when `exact_ok`).
-/
namespace Jinns.Driver.C10

def pVal (j : Json) : Except String Val :=
  match j with
  | .arr a => do pure (.vec (← a.toList.mapM rat))
  | _ => do pure (.scalar (← rat j))

def pAct (s : String) : Except String Act :=
  match s with
  | "id" => pure .id
  | "relu" => pure .relu
  | "square" => pure .square
  | _ => throw s!"bad activation {s}"

def pLayer (j : Json) : Except String Layer :=
  match j.getObjVal? "act" with
  | .ok a => do pure (.act (← pAct (← a.getStr?)))
  | .error _ => do pure (.linear (← getRatMat j "W") (← getRatList j "b"))

def pSpec (j : Json) : Except String LayerSpec :=
  match j.getObjVal? "act" with
  | .ok a => do pure (.act (← pAct (← a.getStr?)))
  | .error _ => do
    match ← getNatList j "lin" with
    | [i, o] => pure (.lin i o)
    | _ => throw "bad lin spec"

def pCoef (j : Json) : Except String Coef :=
  match j.getObjVal? "const", j.getObjVal? "eq", j.getObjVal? "inp" with
  | .ok c, _, _ => do pure (.const (← rat c))
  | _, .ok k, _ => do pure (.eq (← k.getStr?))
  | _, _, .ok i => do pure (.inp (← i.getNat?))
  | _, _, _ => throw "bad coefficient"

def pT (j : Json) : Except String TDesc :=
  match j with
  | .str "id" => pure .id
  | _ => do pure (.affine (← pCoef (← j.getObjVal? "a")) (← pCoef (← j.getObjVal? "b")))

def pOptInt (j : Json) : Except String (Option Int) :=
  match j with
  | .null => pure none
  | v => do pure (some (← v.getInt?))

def pSlice (j : Json) : Except String (Option OutSlice) :=
  match j with
  | .null => pure none
  | _ =>
    match j.getObjVal? "index" with
    | .ok i => do pure (some (.index (← i.getInt?)))
    | .error _ => do
      match ← getArr j "range" with
      | [a, b] => pure (some (.range (← pOptInt a) (← pOptInt b)))
      | _ => throw "bad slice"

def pEqType (s : String) : EqType :=
  match s with
  | "ODE" => .ode
  | "statio_PDE" => .statio
  | "nonstatio_PDE" => .nonstatio
  | _ => .other

def pObs (j : Json) : Except String Obs :=
  match j.getObjVal? "error" with
  | .ok e => do pure (.error (← e.getStr?))
  | .error _ => do pure (.value (← getRatList j "out") (← getNatList j "shape"))

def pEq (j : Json) : Except String (List (String × Val)) := do
  let a ← j.getArr?
  a.toList.mapM (fun e => do
    match (← e.getArr?).toList with
    | [k, v] => pure (← k.getStr?, ← pVal v)
    | _ => throw "bad eq param")

def pOptStr (j : Json) (k : String) : Except String (Option String) := do
  match ← j.getObjVal? k with
  | .null => pure none
  | v => pure (some (← v.getStr?))

def pList (f : Json → Except String α) (j : Json) (k : String) : Except String (List α) := do
  (← getArr j k).mapM f

def pNatMat (j : Json) (k : String) : Except String (List (List Nat)) := do
  (← getArr j k).mapM natList

def jObs : Obs → Json
  | .value out shape => Json.mkObj [("out", jRats out), ("shape", jNats shape)]
  | .error k => Json.mkObj [("error", .str k)]

/-- an observation agrees with the model's prediction (errors: same kind; behaviour outside the model,
    `unmodelled`, is never generated and never compared) -/
def agrees (m o : Obs) : Bool :=
  match m with
  | .error k => if k == eUnmodelled then true else o == m
  | _ => o == m

/-! ### exactness guard -/

def absR (r : Rat) : Rat := if r < 0 then -r else r
def maxAbs (l : List Rat) : Rat := l.foldl (fun a r => max a (absR r)) 0
def maxDen (l : List Rat) : Nat := l.foldl (fun a r => max a r.den) 1

def layerBound : Layer → Vec → Rat
  | .linear W b, x =>
    maxAbs ((W.zip b).map (fun (row, bi) => (List.zipWith (fun w xi => absR w * absR xi) row x).sum + absR bi))
  | .act .square, x => maxAbs (x.map (fun v => v * v))
  | .act _, x => maxAbs x

def layerVals : Layer → List Rat
  | .linear W b => W.flatten ++ b
  | .act _ => []

/-- all values seen while evaluating the network on `x`, and a bound of every partial sum -/
def mlpTrace (ls : List Layer) (x : Vec) : List Rat × Rat :=
  let st := ls.foldl (fun (st : Vec × List Rat × Rat) l =>
    let y := l.apply st.1
    (y, st.2.1 ++ layerVals l ++ y, max st.2.2 (layerBound l st.1))) (x, x, maxAbs x)
  (st.2.1, st.2.2)

def exactOk (vals : List Rat) (bound : Rat) : Bool :=
  let d : Nat := maxDen vals
  decide (bound * ((d * d * d * d : Nat) : Rat) < (9007199254740992 : Rat))

def valsOfEq (eq : List (String × Val)) : List Rat := eq.flatMap (fun e => e.2.flat)
def coefConst : Coef → List Rat
  | .const c => [c]
  | _ => []
def tConsts : TDesc → List Rat
  | .id => []
  | .affine a b => coefConst a ++ coefConst b

/-- guard for one wrapper call: inputs → transform → network → transform -/
def guardCall (net : List Layer) (inT outT : TDesc) (eq : List (String × Val)) (inputs z : Vec) :
    List Rat × Rat :=
  let cs := valsOfEq eq ++ tConsts inT ++ tConsts outT ++ inputs
  let c := max 1 (maxAbs cs)
  let (vals, nb) := mlpTrace net z
  let y := mlpEval net z
  (cs ++ z ++ vals ++ y.map (fun v => v * c + c) , max (max (maxAbs inputs * c + c) nb) (maxAbs y * c + c))

/-! ### PINN -/

structure Common where
  eqT : EqType
  inT : TDesc
  outT : TDesc
  slices : List (Option OutSlice)
  shared : Bool
  eq : List (String × Val)

def pCommon (j : Json) : Except String Common := do
  let eqT := pEqType (← getStr j "eq_type")
  let inT ← pT (← j.getObjVal? "in_t")
  let outT ← pT (← j.getObjVal? "out_t")
  let eq ← pEq (← j.getObjVal? "eq_params")
  match ← j.getObjVal? "shared" with
  | .null => pure { eqT, inT, outT, slices := [none], shared := false, eq }
  | v => do
    let sl ← (← v.getArr?).toList.mapM pSlice
    pure { eqT, inT, outT, slices := sl, shared := true, eq }

def pCalls (j : Json) : Except String (List CallRec) := do
  (← getArr j "calls").mapM (fun c => do
    let args ← pList pVal c "args"
    let bare ← getBool c "bare"
    let outs ← pList pObs c "outs"
    let common ← match ← c.getObjVal? "common" with
      | .null => pure none
      | v => do pure (some (← pObs v))
    pure ({ args, bare, outs, common } : CallRec))

/-- the model's records (`Holds.modelRec`) for every call, and agreement with the observations -/
def runCalls (cm : Common) (calls : List CallRec)
    (model : List Val → Bool → Option OutSlice → Except String Vec) :
    List (List Obs) × List (Option Obs) × Bool :=
  let recs := calls.map (fun c => modelRec cm.slices cm.shared model c.args c.bare)
  let ok := (calls.zip recs).all (fun (c, m) =>
    c.outs.length == m.outs.length && (m.outs.zip c.outs).all (fun (m, o) => agrees m o) &&
    (match m.common, c.common with
     | some m, some o => agrees m o
     | none, none => true
     | _, _ => false))
  (recs.map (·.outs), recs.map (·.common), ok)

def answerCalls (outs : List (List Obs)) (commons : List (Option Obs))
    (agree : Bool) (holds : Option String) (exact : Bool) (extra : List (String × Json)) : Json :=
  Json.mkObj ([
    ("model_outs", .arr (outs.map (fun l => Json.arr (l.map jObs).toArray)).toArray),
    ("model_common", .arr (commons.map (fun o => match o with | some o => jObs o | none => Json.null)).toArray),
    ("agree", Json.bool agree), ("holds", Json.bool holds.isNone), ("clause", jOptStr holds),
    ("exact_ok", Json.bool exact)] ++ extra)

/-- observed `slice_solution` (`[start|null, stop|null]`, or `null` when it is not such a slice) -/
def pObsSS (j : Json) : Except String (Option (Option Int × Option Int)) :=
  match j with
  | .null => pure none
  | v => do
    match (← v.getArr?).toList with
    | [a, b] => pure (some (← pOptInt a, ← pOptInt b))
    | _ => throw "bad observed slice_solution"

def jOptInt : Option Int → Json
  | none => Json.null
  | some i => Json.num (JsonNumber.fromInt i)

def jSS : Option (Option Int × Option Int) → Json
  | none => Json.null
  | some (a, b) => .arr #[jOptInt a, jOptInt b]

def handlePinn (j : Json) : Except String Json := do
  let cm ← pCommon j
  let via ← getStr j "via"
  let dimX ← getNat j "dim_x"
  let net ← pList pLayer j "layers"
  let userSS ← pSlice (← j.getObjVal? "slice_solution")
  let obsCreate ← pOptStr j "create_error"
  let calls ← pCalls j
  -- construction
  let mCreate : Option String :=
    if via == "create" then
      match createCheck cm.eqT dimX with
      | .error e => some e
      | .ok _ => match declaredOut (net.map Layer.spec) with
        | .error e => some e
        | .ok _ => none
    else none
  let mSS : Option (Option Int × Option Int) :=
    if mCreate.isSome then none
    else if via == "create" then
      match declaredOut (net.map Layer.spec) with
      | .ok n => some (sliceSolution userSS n)
      | .error _ => none
    else match userSS with
      | some (.range a b) => some (a, b)
      | _ => none
  let oSS ← pObsSS (← j.getObjVal? "obs_slice_solution")
  let ssOk := mSS == oSS
  -- the stored slice_solution (as observed) selects the designated components
  let ssHolds : Option String :=
    match via == "create", declaredOut (net.map Layer.spec), oSS with
    | true, .ok n, some st => checkSliceSolution userSS n st
    | _, _, _ => none
  let wf := net.all Layer.wf
  let model := refPinn cm.eqT net cm.inT cm.outT cm.eq
  let (outs, commons, ok) := runCalls cm calls model
  let bareAllowed := !cm.inT.needsEq && !cm.outT.needsEq
  let holds := match checkCreate mCreate obsCreate with
    | some c => some c
    | none =>
      if mCreate.isSome then none
      else match ssHolds with
        | some c => some c
        | none => holdsWrapper cm.eqT bareAllowed cm.slices model calls
  let guards := calls.map (fun c =>
    match callInputs cm.eqT c.args with
    | .ok inputs =>
      match cm.inT.applyIn inputs (PArg.full net cm.eq) with
      | .ok z => guardCall net cm.inT cm.outT cm.eq inputs z
      | .error _ => ([], 0)
    | .error _ => ([], 0))
  let exact := guards.all (fun g => exactOk g.1 g.2)
  let agree := ok && ssOk && (mCreate == obsCreate) && wf
  pure (answerCalls outs commons agree holds exact [
    ("model_create_error", jOptStr mCreate),
    ("model_slice_solution", jSS mSS),
    ("diff", .str (if !wf then "ill-formed-network" else if mCreate != obsCreate then "create-error"
      else if !ssOk then "slice-solution" else if !ok then "call-output" else ""))])

/-! ### HYPERPINN -/

def handleHyper (j : Json) : Except String Json := do
  let cm ← pCommon j
  let via ← getStr j "via"
  let dimX ← getNat j "dim_x"
  let innerSpec ← pList pSpec j "inner_spec"
  let hyperSpecUser ← match ← j.getObjVal? "hyper_spec" with
    | .null => pure none
    | v => do pure (some (← (← v.getArr?).toList.mapM pSpec))
  let hyperNet ← pList pLayer j "hyper_layers"
  let hyperparams ← pList (fun s => s.getStr?) j "hyperparams"
  let hyperSize ← getNat j "hyper_size"
  let userSS ← pSlice (← j.getObjVal? "slice_solution")
  let obsCreate ← pOptStr j "create_error"
  let calls ← pCalls j
  let shapes := leafShapes innerSpec
  let (nParams, cums) := paramNb shapes
  -- construction (`create_HYPERPINN`): checks, then the rewritten hyper architecture
  let mArch : Except String (List LayerSpec) :=
    if via == "create" then do
      createCheck cm.eqT dimX
      let _ ← declaredOut innerSpec
      hyperArch (hyperSpecUser.getD innerSpec) hyperSize nParams
    else pure (hyperNet.map Layer.spec)
  let mCreate : Option String := match mArch with | .error e => some e | .ok _ => none
  let mut diff := ""
  if mCreate != obsCreate then diff := "create-error"
  let mut mSS : Option (Option Int × Option Int) := none
  let mut ssHolds : Option String := none
  if mCreate.isNone then
    if via == "create" then
      match declaredOut innerSpec with
      | .ok n => mSS := some (sliceSolution userSS n)
      | .error _ => pure ()
    else match userSS with
      | some (.range a b) => mSS := some (a, b)
      | _ => pure ()
    let oSS ← pObsSS (← j.getObjVal? "obs_slice_solution")
    if mSS != oSS then diff := "slice-solution"
    match via == "create", declaredOut innerSpec, oSS with
    | true, .ok n, some st => ssHolds := checkSliceSolution userSS n st
    | _, _, _ => pure ()
    -- leaf order rule, validated on the real pytrees
    if (← pNatMat j "obs_inner_shapes") != shapes then diff := "inner-leaf-shapes"
    if (← getNatList j "obs_cumsum") != cums then diff := "cumsum"
    if (← getNat j "obs_sum") != nParams then diff := "param-sum"
    match mArch with
    | .ok arch =>
      if (← pNatMat j "obs_hyper_shapes") != leafShapes arch then diff := "hyper-leaf-shapes"
      if hyperNet.map Layer.spec != arch then diff := "hyper-weights-do-not-fit-the-architecture"
    | .error _ => pure ()
    if !(hyperNet.all Layer.wf) then diff := "ill-formed-network"
  let model := refHyper cm.eqT hyperparams hyperNet innerSpec cm.inT cm.outT cm.eq
  let (outs, commons, ok) := runCalls cm calls
    (modelHyper cm.eqT hyperparams hyperNet innerSpec cm.inT cm.outT cm.eq)
  if !ok && diff == "" then diff := "call-output"
  let holds := match checkCreate mCreate obsCreate with
    | some c => some c
    | none =>
      if mCreate.isSome then none
      else match ssHolds with
        | some c => some c
        | none => holdsWrapper cm.eqT false cm.slices model calls
  -- exactness guard: hyper-network pass, then the inner network with the produced weights
  let guards := calls.map (fun c =>
    match callInputs cm.eqT c.args, hyperInput cm.eq hyperparams with
    | .ok inputs, .ok hin =>
      let (hv, hb) := mlpTrace hyperNet hin
      let inner := build innerSpec (splitInLeafOrder shapes (mlpEval hyperNet hin))
      match cm.inT.applyIn inputs (PArg.full hyperNet cm.eq) with
      | .ok z =>
        let (v, b) := guardCall inner cm.inT cm.outT cm.eq inputs z
        (hv ++ v, max hb b)
      | .error _ => (hv, hb)
    | _, _ => ([], 0))
  let exact := guards.all (fun g => exactOk g.1 g.2)
  pure (answerCalls outs commons (diff == "") holds exact [
    ("model_create_error", jOptStr mCreate),
    ("model_inner_shapes", .arr (shapes.map jNats).toArray),
    ("model_cumsum", jNats cums),
    ("diff", .str diff)])

/-! ### SPINN -/

def pSpinnCall (c : Json) : Except String SpinnCall := do
  let t ← match ← c.getObjVal? "t" with
    | .null => pure none
    | v => do pure (some (← ratMat v))
  let x ← getRatMat c "x"
  let bare ← getBool c "bare"
  let obs ← pObs (← c.getObjVal? "obs")
  pure { t, x, bare, obs }

def handleSpinn (j : Json) : Except String Json := do
  let eqT := pEqType (← getStr j "eq_type")
  let d ← getNat j "d"
  let r ← getNat j "r"
  let m ← getNat j "m"
  let spec ← pList pSpec j "spec"
  let obsCreate ← pOptStr j "create_error"
  let mCreate : Option String := match createSpinnCheck eqT spec d r m with
    | .error e => some e
    | .ok _ => none
  if mCreate.isSome || obsCreate.isSome then
    return Json.mkObj [("model_create_error", jOptStr mCreate), ("model_outs", .arr #[]),
      ("agree", Json.bool (mCreate == obsCreate)), ("holds", Json.bool (checkCreate mCreate obsCreate).isNone),
      ("clause", jOptStr (checkCreate mCreate obsCreate)),
      ("exact_ok", Json.bool true), ("diff", .str (if mCreate == obsCreate then "" else "create-error"))]
  let nets ← (← getArr j "nets").mapM (fun n => do (← n.getArr?).toList.mapM pLayer)
  let calls ← (← getArr j "calls").mapM pSpinnCall
  let wf := nets.length == d && nets.all (fun n => n.all Layer.wf && n.map Layer.spec == spec)
  let outs := calls.map (fun c => (modelSpinnRec eqT r m nets (c.t, c.x, c.bare)).obs)
  let ok := (outs.zip calls).all (fun (mo, c) => agrees mo c.obs)
  let holds := holdsSpinn eqT r m nets calls
  let guards := calls.map (fun c =>
    match spinnPoints eqT c.t c.x with
    | .ok pts =>
      let tr : List (List Rat × Rat) := (List.range nets.length).flatMap (fun k =>
        pts.map (fun (pt : Vec) => mlpTrace (nets.getD k []) [pt.getD k 0]))
      let feat := spinnFeatures nets pts
      let fmax : List Rat := feat.map (fun (fk : List Vec) => max 1 (maxAbs fk.flatten))
      ((tr.flatMap (fun (e : List Rat × Rat) => e.1), max (maxAbs (tr.map (fun (e : List Rat × Rat) => e.2)))
        ((r : Rat) * fmax.foldl (· * ·) 1)) : List Rat × Rat)
    | .error _ => ([], 0))
  let exact := guards.all (fun g => exactOk g.1 g.2)
  pure (Json.mkObj [
    ("model_create_error", Json.null),
    ("model_outs", .arr (outs.map jObs).toArray),
    ("agree", Json.bool (ok && wf)), ("holds", Json.bool holds.isNone), ("clause", jOptStr holds),
    ("exact_ok", Json.bool exact),
    ("diff", .str (if !wf then "ill-formed-network" else if !ok then "call-output" else ""))])

def handleC10 (j : Json) : Except String Json := do
  match ← getStr j "kind" with
  | "pinn" => handlePinn j
  | "hyper" => handleHyper j
  | "spinn" => handleSpinn j
  | k => throw s!"unknown kind {k}"

end Jinns.Driver.C10

namespace Jinns.Driver

def opsC10 : List (String × (Json → Except String Json)) := [("c10", Jinns.Driver.C10.handleC10)]

end Jinns.Driver
