/-
JSON helpers of the line protocol (harness ⇄ model).  Numbers that must be exact cross the
protocol as strings "p/q" (or "p"); integers as JSON numbers.
-/
import Lean.Data.Json
open Lean

namespace Jinns.Proto

def getNat (j : Json) (k : String) : Except String Nat := do
  let v ← j.getObjVal? k
  v.getNat?

def getInt (j : Json) (k : String) : Except String Int := do
  let v ← j.getObjVal? k
  v.getInt?

def getBool (j : Json) (k : String) : Except String Bool := do
  let v ← j.getObjVal? k
  v.getBool?

def getStr (j : Json) (k : String) : Except String String := do
  let v ← j.getObjVal? k
  v.getStr?

def getArr (j : Json) (k : String) : Except String (List Json) := do
  let v ← j.getObjVal? k
  let a ← v.getArr?
  pure a.toList

def natList (j : Json) : Except String (List Nat) := do
  let a ← j.getArr?
  a.toList.mapM (·.getNat?)

def intList (j : Json) : Except String (List Int) := do
  let a ← j.getArr?
  a.toList.mapM (·.getInt?)

def getNatList (j : Json) (k : String) : Except String (List Nat) := do
  natList (← j.getObjVal? k)

def getIntList (j : Json) (k : String) : Except String (List Int) := do
  intList (← j.getObjVal? k)

/-- parse "p/q", "p", "-p/q" -/
def parseRat (s : String) : Except String Rat :=
  match s.splitOn "/" with
  | [p] => match p.toInt? with
    | some n => pure (n : Rat)
    | none => throw s!"bad rational {s}"
  | [p, q] => match p.toInt?, q.toNat? with
    | some n, some d => if d == 0 then throw s!"zero denominator {s}" else pure (mkRat n d)
    | _, _ => throw s!"bad rational {s}"
  | _ => throw s!"bad rational {s}"

def rat (j : Json) : Except String Rat := do
  match j with
  | .str s => parseRat s
  | _ => do let n ← j.getInt?; pure (n : Rat)

def ratList (j : Json) : Except String (List Rat) := do
  let a ← j.getArr?
  a.toList.mapM rat

def ratMat (j : Json) : Except String (List (List Rat)) := do
  let a ← j.getArr?
  a.toList.mapM ratList

def getRat (j : Json) (k : String) : Except String Rat := do rat (← j.getObjVal? k)
def getRatList (j : Json) (k : String) : Except String (List Rat) := do ratList (← j.getObjVal? k)
def getRatMat (j : Json) (k : String) : Except String (List (List Rat)) := do ratMat (← j.getObjVal? k)

def showRat (r : Rat) : String :=
  if r.den == 1 then toString r.num else s!"{r.num}/{r.den}"

def jRat (r : Rat) : Json := .str (showRat r)
def jRats (l : List Rat) : Json := .arr (l.map jRat).toArray
def jRatMat (l : List (List Rat)) : Json := .arr (l.map jRats).toArray
def jNats (l : List Nat) : Json := .arr (l.map (fun n => Json.num (n : Nat))).toArray
def jNatMat (l : List (List Nat)) : Json := .arr (l.map jNats).toArray
def jInts (l : List Int) : Json := .arr (l.map (fun n => Json.num (JsonNumber.fromInt n))).toArray
def jBools (l : List Bool) : Json := .arr (l.map Json.bool).toArray
def jOptStr : Option String → Json
  | none => Json.null
  | some s => .str s

end Jinns.Proto
