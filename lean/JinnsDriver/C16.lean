import JinnsDriver.Proto
import JinnsModel.RarSchedule
import JinnsModel.HoldsC16
open Lean Jinns.Proto

namespace Jinns.Driver
open Jinns.Rar Jinns.Holds

def getKind (j : Json) (k : String) : Except String Kind := do
  match (← getStr j k) with
  | "ode" => pure .ode
  | "statio" => pure .statio
  | "nonstatio" => pure .nonstatio
  | s => throw s!"unknown generator kind {s}"

def getCfg (j : Json) : Except String Cfg := do
  pure { kind := ← getKind j "kind", start := ← getNat j "start", every := ← getNat j "every",
         nt := ← getNat j "nt", ntStart := ← getNat j "ntStart", selT := ← getNat j "selT",
         n := ← getNat j "n", nStart := ← getNat j "nStart", selX := ← getNat j "selX" }

def boolList (j : Json) : Except String (List Bool) := do
  let a ← j.getArr?
  a.toList.mapM (·.getBool?)

/-- optional field: absent or `null` = not observed -/
def getOpt {α : Type} (j : Json) (k : String) (f : Json → Except String α) : Except String (Option α) :=
  match j.getObjVal? k with
  | .error _ => pure none
  | .ok Json.null => pure none
  | .ok v => do pure (some (← f v))

structure Obs16 where
  stepped  : Bool
  iterNb   : Nat
  fromLast : Option Nat
  pT       : Option (List Bool)
  pX       : Option (List Bool)

def optEq {α : Type} [BEq α] (o : Option α) (v : α) : Bool :=
  match o with
  | none => true
  | some w => w == v

def jOptBools : Option (List Bool) → Json
  | none => Json.null
  | some l => jBools l

/-- request: {cfg:{kind,start,every,nt,ntStart,selT,n,nStart,selX},
              sizes:{sampT,sampX,bT,bX,dim,missingStart}, rejected?: error kind,
              trace:[{stepped, iterNb, fromLast?, pT?, pX?}]}   (iteration 0, 1, …)
    The model is run for as many iterations; `Holds.C16` is evaluated on the observed run. -/
def getLegal (j : Json) (c : Cfg) : Except String Bool := do
  let z ← j.getObjVal? "sizes"
  pure (legalCfg c (← getNat z "sampT") (← getNat z "sampX") (← getNat z "bT") (← getNat z "bX")
    (← getNat z "dim") (← getBool z "missingStart"))

def handleC16 (j : Json) : Except String Json := do
  let c ← getCfg (← j.getObjVal? "cfg")
  let legal ← getLegal j c
  -- a rejected configuration: the model rejects exactly the illegal ones
  if (← getOpt j "rejected" (·.getStr?)).isSome then
    let h := rejectedCheck legal
    return Json.mkObj [("holds", Json.bool h.isNone), ("clause", jOptStr h), ("legal", Json.bool legal),
      ("agree", Json.bool (!legal))]
  let tr ← getArr j "trace"
  let obs ← tr.mapM (fun r => do
    pure ({ stepped := ← getBool r "stepped", iterNb := ← getNat r "iterNb",
            fromLast := ← getOpt r "fromLast" (·.getNat?),
            pT := ← getOpt r "pT" boolList, pX := ← getOpt r "pX" boolList } : Obs16))
  let recs : List Rec16 := obs.map (fun o =>
    { stepped := o.stepped, iterNb := o.iterNb,
      cntT := if c.kind.hasT then o.pT.map active else none,
      cntX := if c.kind.hasX then o.pX.map active else none })
  let holds := holdsC16 c recs
  let model := Jinns.Rar.trace c obs.length
  let agreeAt : List Bool := (obs.zip model).map (fun (o, m) =>
    -- (`rar_iter_from_last_sampling` is internal: it is reported, not compared)
    o.stepped == m.stepped && o.iterNb == m.st.steps &&
    (!c.kind.hasT || optEq o.pT m.st.pT) && (!c.kind.hasX || optEq o.pX m.st.pX))
  let firstBad := (agreeAt.zipIdx.find? (fun (a, _) => !a)).map (·.2)
  let modelHolds := holdsC16 c (model.map (recOfObs c))
  pure <| Json.mkObj [
    ("holds", Json.bool holds.isNone), ("clause", jOptStr holds), ("legal", Json.bool legal),
    ("agree", Json.bool firstBad.isNone),
    ("first_disagreement", match firstBad with | none => Json.null | some i => Json.num (i : Nat)),
    ("model_holds", Json.bool modelHolds.isNone),
    ("model", Json.arr (model.map (fun m => Json.mkObj [
        ("stepped", Json.bool m.stepped), ("iterNb", Json.num (m.st.steps : Nat)),
        ("fromLast", Json.num (m.st.fromLast : Nat)),
        ("pT", jBools m.st.pT), ("pX", jBools m.st.pX)])).toArray),
    ("cap", Json.num (cap c : Nat))]

/-- request {cfg, J0, trace}: the continuation of a run after a second `init_rar` (iteration numbers
    restart): the counting clauses of the property, `Holds.C16Resumed` -/
def handleC16Resumed (j : Json) : Except String Json := do
  let c ← getCfg (← j.getObjVal? "cfg")
  let J0 ← getNat j "J0"
  let tr ← getArr j "trace"
  let recs ← tr.mapM (fun r => do
    let pT ← getOpt r "pT" boolList
    let pX ← getOpt r "pX" boolList
    pure ({ stepped := ← getBool r "stepped", iterNb := ← getNat r "iterNb",
            cntT := if c.kind.hasT then pT.map active else none,
            cntX := if c.kind.hasX then pX.map active else none } : Rec16))
  let holds := holdsC16Resumed c J0 recs
  pure <| Json.mkObj [("holds", Json.bool holds.isNone), ("clause", jOptStr holds)]

def opsC16 : List (String × (Json → Except String Json)) := [("c16", handleC16), ("c16resumed", handleC16Resumed)]

end Jinns.Driver
