import JinnsDriver.SolveProto
import JinnsModel.HoldsC07
open Lean Jinns.Proto Jinns.Driver.SolveProto

namespace Jinns.Driver

/-- request {prog, obs}: runs the model (`solve` on the exact program), builds the trace of the
    textbook loop and evaluates `Holds.C07` on the observation. -/
def handleC07 (j : Json) : Except String Json := do
  let ld ← load j
  let ref := ld.ref ()
  let holds := Jinns.Holds.holdsC07 ref ld.ob.error.isSome ld.ob.obs
  pure (answer ld [] holds)

def opsC07 : List (String × (Json → Except String Json)) := [("c07", handleC07)]

end Jinns.Driver
