import JinnsDriver.Proto
import JinnsDriver.PolyProto
import JinnsModel.OperatorsPoly
import JinnsModel.HoldsC01
open Lean Jinns.Proto

namespace Jinns.Driver

/-- one item: {which:"lap|div|veclap|adv|ns", d, m, time:bool, polys:[poly in (t,x_0,…)], pt:[t,x_0,…],
    nu, rho, value:[q], perturbed:[[q]], frozen:[q]|null}.
    Answer: the model's exact value (reverse-mode operator of `Operators.lean` on `polyOps`, with the
    signature `t is None` / `t` given) and `Holds.C01` on the observed values. -/
def itemC01 (j : Json) : Except String Json := do
  let which ← getStr j "which"
  let op ← match Jinns.OpName.ofString which with
    | some o => pure o
    | none => throw s!"unknown operator {which}"
  let d ← getNat j "d"
  let m ← getNat j "m"
  let time ← getBool j "time"
  let u ← getPolyList j "polys"
  let pt ← getRatList j "pt"
  let nu ← getRat j "nu"
  let rho ← getRat j "rho"
  let value ← getRatList j "value"
  let perturbed ← getRatMat j "perturbed"
  let frozen ← match j.getObjVal? "frozen" with
    | .ok Json.null => pure none
    | .ok v => do pure (some (← ratList v))
    | .error _ => pure none
  let sig := if time then Jinns.Operators.Sig.withTime else Jinns.Operators.Sig.noTime
  let model := Jinns.Operators.evalAll (Jinns.Operators.runRev op sig d m u nu rho) pt
  let holds := Jinns.Holds.holdsC01
    { op := op, d := d, m := m, u := u, pt := pt, nu := nu, rho := rho, value := value,
      perturbed := perturbed, frozen := frozen }
  pure <| Json.mkObj [("model", jRats model), ("agree", Json.bool (model == value)),
    ("holds", Json.bool holds.isNone), ("clause", jOptStr holds)]

def handleC01 (j : Json) : Except String Json := do
  let items ← getArr j "items"
  let rs ← items.mapM itemC01
  pure <| Json.mkObj [("results", Json.arr rs.toArray)]

def opsC01 : List (String × (Json → Except String Json)) := [("c01", handleC01)]

end Jinns.Driver
