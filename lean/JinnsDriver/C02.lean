import JinnsDriver.Proto
import JinnsDriver.PolyProto
import JinnsModel.Equations
import JinnsModel.HoldsC02
open Lean Jinns.Proto Jinns.Calc Jinns.Equations

namespace Jinns.Driver

private def pairs (j : Json) : Except String (List (String × Json)) := do
  let a ← j.getArr?
  a.toList.mapM (fun kv => do
    match (← kv.getArr?).toList with
    | [k, v] => pure ((← k.getStr?), v)
    | _ => throw "bad key/value pair")

private def pnode (j : Json) : Except String PNode := do
  match j.getObjVal? "leaf" with
  | .ok l => pure (.leaf (← ratList l))
  | .error _ =>
    let s ← j.getObjVal? "sub"
    let kvs ← pairs s
    pure (.sub (← kvs.mapM (fun kv => do pure (kv.1, (← ratList kv.2)))))

private def eqParams (j : Json) : Except String EqParams := do
  (← pairs j).mapM (fun kv => do pure (kv.1, (← pnode kv.2)))

private def nets (j : Json) : Except String (Nets Poly) := do
  match j.getObjVal? "single" with
  | .ok s => pure (.single (← polyList s))
  | .error _ =>
    let d ← j.getObjVal? "dict"
    pure (.dict (← (← pairs d).mapM (fun kv => do pure (kv.1, (← polyList kv.2)))))

private def optRat (j : Json) (k : String) : Except String (Option Rat) :=
  match j.getObjVal? k with
  | .ok Json.null => pure none
  | .ok v => do pure (some (← rat v))
  | .error _ => pure none

private def optRatList (j : Json) (k : String) : Except String (Option (List Rat)) :=
  match j.getObjVal? k with
  | .ok Json.null => pure none
  | .ok v => do pure (some (← ratList v))
  | .error _ => pure none

private def strList (j : Json) : Except String (List String) := do
  (← j.getArr?).toList.mapM (·.getStr?)

private def dictNet (n : Nets Poly) (k : String) : Except String (List Poly) :=
  match n with
  | .dict d => match d.lookup k with
    | some u => pure u
    | none => throw s!"spec: no network {k}"
  | .single _ => throw "spec: dictionary of networks expected"

private def head1 (l : List Poly) : Except String Poly :=
  match l with
  | [u] => pure u
  | _ => throw "spec: scalar network expected"

/-- request:
    {kind, Tmax, sem:{role: value}, keys:{…}, eq_params:[[key, {leaf:[…]}|{sub:[[k,[…]]]}]],
     nets:{single:[poly]}|{dict:[[name,[poly]]]}, t: q|null, x: [q]|null, observed:[q]|null, relTol: q}
    answer: the code-shaped model's `evaluate` on `polyOps` (value or error), the documented expression at
    the point, `Holds.C02` on the observation, whether the fields solve the equation identically. -/
def handleC02 (j : Json) : Except String Json := do
  let kind ← getStr j "kind"
  let Tmax ← getRat j "Tmax"
  let sem ← j.getObjVal? "sem"
  let keys ← j.getObjVal? "keys"
  let p ← eqParams (← j.getObjVal? "eq_params")
  let n ← nets (← j.getObjVal? "nets")
  let t ← optRat j "t"
  let x ← optRatList j "x"
  let relTol ← getRat j "relTol"
  let observed ← optRatList j "observed"
  let args ← match t, x with
    | some t, none => pure (EvalArgs.ode t)
    | none, some x => pure (EvalArgs.statio x)
    | some t, some x => pure (EvalArgs.nonStatio t x)
    | none, none => throw "no point"
  let single : Except String Poly := match n with
    | .single [u] => pure u
    | _ => throw "spec: single scalar network expected"
  let (b, spec) ← match kind with
    | "burgers" => do
      pure (Builtin.burgers, Jinns.Holds.Spec02.burgers Tmax (← getRat sem "nu") (← single))
    | "fisher" => do
      pure (Builtin.fisherKPP, Jinns.Holds.Spec02.fisherKPP (x.getD []).length Tmax (← getRat sem "D")
        (← getRat sem "r") (← getRat sem "g") (← single))
    | "ou" => do
      pure (Builtin.ouFPE, Jinns.Holds.Spec02.ouFPE Tmax (← getRatList sem "alpha") (← getRatList sem "mu")
        (← getRatList sem "sigma") (← single))
    | "fpe" => do
      let drift ← getPolyList j "drift"
      let diff ← (← getArr j "diff").mapM polyList
      -- the abstract class with user drift / diffusion is not one of the `Builtin`s of `evaluate`: the
      -- driver evaluates `fpe2D` directly (below); the `Builtin` returned here is not used
      pure (Builtin.ouFPE, Jinns.Holds.Spec02.fpe Tmax drift diff (← single))
    | "glv" => do
      let km ← getStr keys "main"
      let ko ← strList (← keys.getObjVal? "others")
      let um ← head1 (← dictNet n km)
      let uo ← ko.mapM (fun k => do head1 (← dictNet n k))
      pure (Builtin.glv km ko, Jinns.Holds.Spec02.glv Tmax (← getRat sem "carrying_capacity")
        (← getRat sem "growth_rate") (← getRatList sem "interactions") um uo)
    | "mass" => do
      let k ← getStr keys "nn_key"
      pure (Builtin.massConservation k, Jinns.Holds.Spec02.massConservation (← dictNet n k))
    | "ns" => do
      let uk ← getStr keys "u_key"
      let pk ← getStr keys "p_key"
      pure (Builtin.navierStokes uk pk, Jinns.Holds.Spec02.navierStokes (← getRat sem "nu") (← getRat sem "rho")
        (← dictNet n uk) (← head1 (← dictNet n pk)))
    | _ => throw s!"unknown kind {kind}"
  let pt := args.point
  let model : Except String (List Rat) := match spec with
    | .fpe Tmax drift diff u =>
      .ok [Poly.eval (fpe2D polyOps Tmax (Jinns.Holds.comp drift) (fun i j => Jinns.Holds.comp (diff.getD i []) j) u) pt]
    | _ => evaluate polyOps polyExt (fun pt f => Poly.eval f pt) Tmax b none args n p
  let doc := Jinns.Holds.documentedAt spec pt
  let rejected := (j.getObjVal? "rejected" >>= (·.getBool?)).toOption.getD false
  let holds := match observed with
    | some o => Jinns.Holds.holdsC02Obs spec pt (some o) relTol
    | none => if rejected then Jinns.Holds.holdsC02Obs spec pt none relTol else none
  let solves := Jinns.Holds.solvesEverywhere spec
  let (mv, me) := match model with
    | .ok v => (jRats v, Json.null)
    | .error e => (Json.null, Json.str e)
  pure <| Json.mkObj [
    ("model", mv), ("model_error", me),
    ("doc", match doc with | some (d, _) => jRats d | none => Json.null),
    ("scale", match doc with | some (_, s) => jRat s | none => Json.null),
    ("holds", Json.bool holds.isNone), ("clause", jOptStr holds),
    ("solves", Json.bool solves)]

def opsC02 : List (String × (Json → Except String Json)) := [("c02", handleC02)]

end Jinns.Driver
