import JinnsDriver.C03
import JinnsModel.HoldsC04
open Lean Jinns.Proto Jinns.LossTerms

/-
Driver for C04: the loss case must carry a boundary configuration.  The model's boundary term
(`JinnsModel/Boundary.lean`) is returned together with `Holds.C04` evaluated on the observed value
and on the same exact tables (the predicate re-states the property from the definition of the
outward normal; it does not call the model).
-/
namespace Jinns.Driver

def optRat (j : Json) (k : String) : Except String (Option Rat) :=
  match optField j k with
  | none => pure none
  | some v => do pure (some (← rat v))

/-- request: {"case": loss case, "obs": {"m", "value", "other_shape", "time_dup", "other_spec", "tol"}} -/
def handleC04 (j : Json) : Except String Json := do
  let c ← parseLossCase (← j.getObjVal? "case")
  let oj ← j.getObjVal? "obs"
  let b ← (match c.boundary with
    | some b => pure b
    | none => throw "c04: the case has no boundary configuration")
  let m ← getNat oj "m"
  let nF := Jinns.Boundary.nFacets b.border
  let toFacet (f : FacetCase) : Jinns.Holds.Facet04 :=
    let (lo, hi) := match f.dim with
      | none => (0, m)
      | some (a, e) => (a, min e m)
    { neumann := f.cond == .neumann, lo := lo, hi := hi, ftab := f.ftab }
  let facets : List (Option Jinns.Holds.Facet04) :=
    if b.global then List.replicate nF ((b.facets.headD none).map toFacet)
    else b.facets.map fun o => o.map toFacet
  let o : Jinns.Holds.Obs04 :=
    { hasTime := b.hasTime, timesCross := b.grid && b.hasTime, w := b.w, border := b.border, facets := facets, utab := b.utab,
      jtab := b.jtab, value := ← getRat oj "value", otherShape := ← optRat oj "other_shape",
      timeDup := ← optRat oj "time_dup", otherSpec := ← optRat oj "other_spec",
      tol := ← getRat oj "tol" }
  let rej := b.spec.rejected b.border
  if rej then
    return Json.mkObj [("model_rejected", Json.bool true), ("holds", Json.bool true), ("clause", Json.null)]
  b.check
  let holds := Jinns.Holds.holdsC04 o
  pure <| Json.mkObj ((← modelAnswer c) ++
    [("model_boundary", jRat b.value), ("expected", jRat (Jinns.Holds.c04Expected o)),
     ("holds", Json.bool holds.isNone), ("clause", jOptStr holds)])

def opsC04 : List (String × (Json → Except String Json)) := [("c04", handleC04)]

end Jinns.Driver
