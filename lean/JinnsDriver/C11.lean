import JinnsDriver.Proto
import JinnsDriver.PolyProto
import JinnsModel.SpinnPoly
import JinnsModel.HoldsC11
open Lean Jinns.Proto
open Jinns.Calc Jinns.Grid Jinns.Operators Jinns.Residuals Jinns.SpinnTerms Jinns.SpinnPoly

namespace Jinns.Driver

def getCoef (j : Json) (k : String) : Except String Coef := do
  let a ← getArr j k
  a.mapM ratMat

def getRatD (j : Json) (k : String) (d : Rat) : Except String Rat :=
  match j.getObjVal? k with
  | .ok Json.null => pure d
  | .ok v => rat v
  | .error _ => pure d

def getNatD (j : Json) (k : String) (d : Nat) : Nat :=
  match j.getObjVal? k >>= (·.getNat?) with
  | .ok v => v
  | .error _ => d

def getRatListD (j : Json) (k : String) : Except String (List Rat) :=
  match j.getObjVal? k with
  | .ok Json.null => pure []
  | .ok v => ratList v
  | .error _ => pure []

/-- `rev` records: [[point], [values]] -/
def getRev (j : Json) : Except String (List (List Rat × List Rat)) := do
  let a ← getArr j "rev"
  a.mapM (fun r => do
    let pr ← r.getArr?
    match pr.toList with
    | [p, v] => do pure ((← ratList p), (← ratList v))
    | _ => throw "bad rev record")

structure Net where
  coef : Coef
  R : Nat
  M : Nat
  off : Nat
  D : Nat

def Net.polys (n : Net) : List Poly := twinPolys n.coef n.off n.R n.M n.D

def sliceL (lo hi : Nat) (l : List Rat) : List Rat := (l.drop lo).take (hi - lo)

/-- the model of one grid-valued request: (forward grid, reverse pointwise function); `none` = the model
    rejects the configuration (as the code does) -/
def modelGrid (j : Json) (what : String) (net : Net) (X : List (List Rat)) :
    Except String (Option (List (List Rat) × (List Rat → List Rat))) := do
  let cols := columns X net.D
  let u := net.polys
  if what = "holds_only" then pure none    -- (no model for this request: `Holds.C11` on the observation only)
  else if what = "net" then
    let fwd := spinnOut net.R net.M (spinnRes (featVal net.coef (net.R * net.M)) X net.D) net.D
    pure (some (fwd, valuesAt net.off u))
  else if what = "op" then
    let which ← getStr j "which"
    let op ← match Jinns.OpName.ofString which with
      | some o => pure o
      | none => throw s!"unknown operator {which}"
    let d ← getNat j "d"
    let m ← getNat j "m"
    let nu ← getRatD j "nu" 0
    let rho ← getRatD j "rho" 1
    let time := net.off == 0
    let u' ← if which = "ns" then do
        let cp ← getCoef j "coef_p"
        let rp ← getNat j "R_p"
        pure (u ++ twinPolys cp net.off rp 1 net.D)
      else pure u
    if (which = "adv" || which = "ns") && d != 2 then pure none else
    let fw := runFwd op d m u' nu rho
    let rv := runRev op (if time then .withTime else .noTime) d m u' nu rho
    pure (some (gridOf (valuesAt net.off fw) cols, valuesAt net.off rv))
  else if what = "residual" then
    let name ← getStr j "name"
    let Tmax ← getRatD j "Tmax" 1
    let res ← if name = "burgers" then do pure (Residual.burgers Tmax (← getRatD j "nu" 0))
      else if name = "fisher" then do
        pure (Residual.fisher (← getNat j "d") Tmax (← getRatD j "Dc" 0) (← getRatD j "r" 0) (← getRatD j "g" 0))
      else if name = "ou" then do
        pure (Residual.ou Tmax (← getRatListD j "alpha") (← getRatListD j "mu") (← getRatListD j "sigma"))
      else throw s!"unknown residual {name}"
    let u0 := u.getD 0 []
    pure (some (gridOf (valuesAt net.off [residualFwd res u0]) cols, valuesAt net.off [residualRev res u0]))
  else if what = "dirichlet" then
    let f ← getPolyList j "f"
    let lo := getNatD j "dim_lo" 0
    let hi := getNatD j "dim_hi" net.M
    let U := fun p => sliceL lo hi (valuesAt net.off u p)
    let fF := valuesAt net.off f
    pure (some ((dirichletFwd U fF X net.D).map (fun v => [v]),
                fun p => (dirichletRev U fF [p])))
  else if what = "neumann" then
    let f ← getPoly j "f"
    let lo := getNatD j "dim_lo" 0
    let dx ← getNat j "dx"
    let facet ← getNat j "facet"
    let time := net.off == 0
    let uc := u.getD lo []
    match neumannFwd polyOps dx facet uc, neumannRev polyOps dx (if time then .withTime else .noTime) facet uc with
    | some vf, some vr =>
      let fF := fun p => Poly.eval f (evalPt net.off p)
      pure (some ((neumannTermFwd (fun p => Poly.eval vf (evalPt net.off p)) fF X net.D).map (fun v => [v]),
                  fun p => neumannTermRev (fun p => Poly.eval vr (evalPt net.off p)) fF [p]))
    | _, _ => pure none
  else throw s!"unknown grid model {what}"

def handleGrid (j : Json) : Except String Json := do
  let what ← getStr j "what"
  let time ← getBool j "time"
  let X ← getRatMat j "X"
  let D ← getNat j "D"
  let net : Net := { coef := (← getCoef j "coef"), R := (← getNat j "R"), M := (← getNat j "M"),
                     off := if time then 0 else 1, D := D }
  let fwd ← getRatMat j "fwd"
  let rev ← getRev j
  let cols := columns X D
  let holds := Jinns.Holds.holdsC11 { cols := cols, fwd := fwd, rev := rev }
  match ← modelGrid j what net X with
  | none =>
    pure <| Json.mkObj [("model_rejects", Json.bool true), ("agree", Json.bool false),
      ("holds", Json.bool holds.isNone), ("clause", jOptStr holds)]
  | some (mfwd, mrev) =>
    let agreeF := mfwd == fwd
    let agreeR := rev.all (fun r => mrev r.1 == r.2)
    pure <| Json.mkObj [("model_rejects", Json.bool false), ("model_fwd", jRatMat mfwd),
      ("agree_fwd", Json.bool agreeF), ("agree_rev", Json.bool agreeR), ("agree", Json.bool (agreeF && agreeR)),
      ("holds", Json.bool holds.isNone), ("clause", jOptStr holds)]

def handleScalar (j : Json) : Except String Json := do
  let what ← getStr j "what"
  let D ← getNat j "D"
  let time ← getBool j "time"
  let net : Net := { coef := (← getCoef j "coef"), R := (← getNat j "R"), M := (← getNat j "M"),
                     off := if time then 0 else 1, D := D }
  let fwd ← getRat j "fwd"
  let rev ← getRat j "rev"
  let u := net.polys
  let lo := getNatD j "dim_lo" 0
  let hi := getNatD j "dim_hi" net.M
  let U := fun p => sliceL lo hi (valuesAt net.off u p)
  let w ← getRatD j "w" 1
  let L ← getRatD j "L" 1
  let X ← getRatMat j "X"
  let (mf, mr) ← if what = "ic" then do
      let f ← getPolyList j "f"
      let n ← getNat j "n"
      let fF := fun x => valuesAt 0 f (0 :: x)
      pure (icFwd U fF w n X (D - 1), icRev U fF w (getGrid X (D - 1)))
    else if what = "norm_statio" then
      pure (normFwdStatio U X D L w, normRevStatio U (getGrid X D) L w)
    else if what = "norm_nonstatio" then do
      let T ← getRatList j "T"
      let rep ← getNat j "rep"
      pure (normFwdNonStatio U T rep X (D - 1) L w, normRevNonStatio U T (getGrid X (D - 1)) L w)
    else if what = "facet_mean" then do
      -- one facet of `boundary_condition_apply` (Dirichlet): `jnp.mean(loss_weight * mse)`
      let f ← getPolyList j "f"
      let fF := valuesAt net.off f
      pure (facetMean w (dirichletFwd U fF X D), facetMean w (dirichletRev U fF (getGrid X D)))
    else throw s!"unknown scalar model {what}"
  let holds := Jinns.Holds.holdsC11Scalar fwd rev
  pure <| Json.mkObj [("model_fwd", jRat mf), ("model_rev", jRat mr),
    ("agree", Json.bool (mf == fwd && mr == rev)), ("holds", Json.bool holds.isNone), ("clause", jOptStr holds)]

def handleC11 (j : Json) : Except String Json := do
  let kind ← getStr j "kind"
  if kind = "grid" then handleGrid j
  else if kind = "scalar" then handleScalar j
  else throw s!"unknown kind {kind}"

def opsC11 : List (String × (Json → Except String Json)) := [("c11", handleC11)]

end Jinns.Driver
