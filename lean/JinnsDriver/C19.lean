import JinnsDriver.SolveProto
open Lean Jinns.Proto Jinns.Driver.SolveProto Jinns.SolveFamily Jinns.SolveTrace

namespace Jinns.Driver

/-- request {prog (with a validation module), obs (all parameters tracked, calls recorded)}:
    model run and `Holds.C19` (scripted module: the outcomes are the script; built-in
    `ValidationLoss`: outcomes derived from the observed criteria by the property's wording, the
    expected criterion of each call being its loss on the replayed batch of its own generators).
    Programs with a NaN fault are included: the reference trace gives the iteration at which the
    NaN rule ends training. -/
def handleC19 (j : Json) : Except String Json := do
  let ld ← load j
  if ld.pg.val.isNone then throw "c19 needs a validation module"
  let ref := ld.ref ()
  let holds := holdsValidation ld ref
  let r := answer ld ["iters", "params", "loss_hist", "term_hist", "tracked", "crit_hist", "best", "calls"] holds
  pure (r.mergeObj (Json.mkObj [
    ("fault_at", match Jinns.Holds.SolveAux.firstFault ref with | none => Json.null | some k => Json.num (k : Nat))]))

def opsC19 : List (String × (Json → Except String Json)) := [("c19", handleC19)]

end Jinns.Driver
