import JinnsDriver.SolveProto
import JinnsModel.HoldsC19
open Lean Jinns.Proto Jinns.Driver.SolveProto Jinns.SolveFamily Jinns.SolveTrace

namespace Jinns.Driver

/-- request {prog (with a validation module), obs (all parameters tracked, calls recorded)}:
    model run and `Holds.C19` (scripted module: the outcomes are the script; built-in
    `ValidationLoss`: outcomes derived from the observed criteria by the property's wording, the
    expected criterion of each call being its loss on the replayed batch of its own generators). -/
def handleC19 (j : Json) : Except String Json := do
  let ld ← load j
  let rej := ld.ob.error.isSome
  let pg := ld.pg
  let calls := ld.ob.calls.map (·.params)
  let holds ← match pg.val with
    | none => throw "c19 needs a validation module"
    | some ⟨c, .scripted script⟩ =>
      let outcomes := (List.range (pg.n + 1)).map (fun jx =>
        script.getD (min jx (script.length - 1)) (some 0, false, false))
      pure (Jinns.Holds.holdsC19 c pg.n pg.θ0 outcomes calls rej ld.ob.obs)
    | some ⟨c, .vloss L bs pat early⟩ =>
      let expected := (List.range calls.length).map (fun jx =>
        lossTotal L (calls.getD jx []) (bs.getD jx ⟨[]⟩))
      let vobs := ld.ob.calls.map (fun cl => cl.batch.getD ⟨[]⟩)
      pure (Jinns.Holds.holdsC19VL c pg.n pg.θ0 pat early expected vobs bs calls rej ld.ob.obs)
  pure (answer ld ["iters", "params", "loss_hist", "term_hist", "tracked", "crit_hist", "best", "calls"] holds)

def opsC19 : List (String × (Json → Except String Json)) := [("c19", handleC19)]

end Jinns.Driver
