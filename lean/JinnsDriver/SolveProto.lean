/-
JSON protocol shared by the C07 / C18 / C19 handlers: parses an exact training program
(`SolveFamily.Program`) and an observation of `jinns.solve` (`SolveTrace.Obs`), runs the model,
builds the reference trace, reports the fields on which model and observation differ.
Values are strings "p/q" | "p" | "nan".  (No `ops…` table here: this file defines no handler.)
-/
import JinnsDriver.Proto
import JinnsModel.SolveFamily
import JinnsModel.HoldsC18
import JinnsModel.HoldsC19
open Lean Jinns.Proto Jinns.SolveTrace Jinns.SolveFamily Jinns.Solve

namespace Jinns.Driver.SolveProto

def val (j : Json) : Except String Val := do
  match j with
  | .str "nan" => pure none
  | _ => do let r ← rat j; pure (some r)

def arr (j : Json) : Except String (List Json) := do
  let a ← j.getArr?
  pure a.toList

def valList (j : Json) : Except String (List Val) := do (← arr j).mapM val
def params (j : Json) : Except String Params := do (← arr j).mapM valList
def paramsList (j : Json) : Except String (List Params) := do (← arr j).mapM params
def valMat (j : Json) : Except String (List (List Val)) := do (← arr j).mapM valList

def batch (j : Json) : Except String Batch := do
  let cols ← (← arr j).mapM ratList
  pure ⟨cols⟩
def batches (j : Json) : Except String (List Batch) := do (← arr j).mapM batch

def opt? (j : Json) (k : String) : Option Json :=
  match j.getObjVal? k with
  | .ok .null => none
  | .ok v => some v
  | .error _ => none

def optM {α : Type} (j : Json) (k : String) (f : Json → Except String α) : Except String (Option α) :=
  match opt? j k with
  | none => pure none
  | some v => do let x ← f v; pure (some x)

def strList (j : Json) : Except String (List String) := do (← arr j).mapM (·.getStr?)

def mono (j : Json) : Except String Mono := do
  match ← arr j with
  | [c, ps, z] => pure { c := ← rat c, ps := ← natList ps, z := ← z.getNat? }
  | _ => throw "bad monomial"

def lossDef (j : Json) : Except String LossDef := do
  let ts ← (← getArr j "terms").mapM (fun t => do
    match ← arr t with
    | [nm, ms] => do
      let monos ← (← arr ms).mapM mono
      pure ((← nm.getStr?), monos)
    | _ => throw "bad term")
  let mark ← optM j "mark" rat
  let gf ← getNatList j "grad_fault"
  pure { terms := ts, mark := mark, gradFault := gf }

def optConf (j : Json) : Except String OptConf := do
  let lr0 ← getRat j "lr0"
  let bounds ← (← getArr j "bounds").mapM (fun b => do
    match ← arr b with
    | [s, sc] => pure ((← s.getNat?), (← rat sc))
    | _ => throw "bad boundary")
  let momentum ← optM j "momentum" rat
  let nanAt ← optM j "nan_at" (fun v => do
    match ← arr v with
    | [k, ls] => pure ((← k.getNat?), (← natList ls))
    | _ => throw "bad nan_at")
  let hasCount ← getBool j "has_count"
  pure { lr0 := lr0, bounds := bounds, momentum := momentum, nanAt := nanAt, hasCount := hasCount }

def optObsJ (j : Json) : Except String OptObs := do
  let count ← optM j "count" (·.getNat?)
  let trace ← optM j "trace" params
  pure { count := count, trace := trace }

def spec (j : Json) : Except String (List (Option Bool)) := do
  (← arr j).mapM (fun x => match x with
    | .null => pure none
    | .bool b => pure (some b)
    | _ => throw "bad tracking spec")

def valConf (j : Json) : Except String ValConf := do
  let ce ← getNat j "call_every"
  let kind ← getStr j "kind"
  if kind == "scripted" then
    let script ← (← getArr j "script").mapM (fun o => do
      match ← arr o with
      | [c, i, s] => pure ((← val c), (← i.getBool?), (← s.getBool?))
      | _ => throw "bad outcome")
    pure { callEvery := ce, kind := .scripted script }
  else
    let L ← lossDef (← j.getObjVal? "loss")
    let bs ← batches (← j.getObjVal? "batches")
    pure { callEvery := ce, kind := .vloss L bs (← getNat j "patience") (← getBool j "early") }

def program (j : Json) : Except String Program := do
  let o0 ← j.getObjVal? "opt0"
  let θ0 ← params (← j.getObjVal? "theta0")
  let tr0 ← optM o0 "trace" params
  pure {
    n := ← getNat j "n",
    θ0 := θ0,
    opt0 := { count := (← optM o0 "count" (·.getNat?)).getD 0,
              trace := tr0.getD (θ0.map (fun leaf => leaf.map (fun _ => some 0))) },
    loss := ← lossDef (← j.getObjVal? "loss"),
    opt := ← optConf (← j.getObjVal? "opt"),
    spec := ← spec (← j.getObjVal? "spec"),
    batches := ← batches (← j.getObjVal? "batches"),
    val := ← optM j "val" valConf }

structure Call where
  params : Params
  batch  : Option Batch

structure Observed where
  error : Option String
  obs   : Obs
  calls : List Call

def observed (j : Json) : Except String Observed := do
  match opt? j "error" with
  | some e => pure { error := some (← e.getStr?), obs := default, calls := [] }
  | none =>
    let calls ← (← getArr j "calls").mapM (fun c => do
      pure ({ params := ← params (← c.getObjVal? "params"), batch := ← optM c "batch" batch } : Call))
    pure {
      error := none,
      calls := calls,
      obs := {
        iters := ← getNat j "iters",
        batches := ← batches (← j.getObjVal? "batches"),
        params := ← params (← j.getObjVal? "params"),
        lossH := ← valList (← j.getObjVal? "loss_hist"),
        termH := ← valMat (← j.getObjVal? "term_hist"),
        trackH := ← paramsList (← j.getObjVal? "tracked"),
        opt := ← optObsJ (← j.getObjVal? "opt"),
        gen := ← strList (← j.getObjVal? "gen"),
        critH := ← optM j "crit_hist" valList,
        best := ← optM j "best" params } }

/-! printing -/
def jVal : Val → Json
  | none => .str "nan"
  | some r => jRat r
def jVals (l : List Val) : Json := .arr (l.map jVal).toArray
def jParams (p : Params) : Json := .arr (p.map jVals).toArray
def jStrs (l : List String) : Json := .arr (l.map Json.str).toArray

/-- the fields of the final carry on which the model and the observation differ -/
def diff (pg : Program) (gens : List (List String))
    (s : St Params OptSt Nat Val (List Val) Params VState Val) (o : Obs) (calls : List Call) :
    List String :=
  let chk (b : Bool) (name : String) : List String := if b then [] else [name]
  chk (s.i == o.iters) "iters" ++
  chk ((List.range s.i).map (fun i => pg.batches.getD i ⟨[]⟩) == o.batches) "batches" ++
  chk (s.lastGood == o.params) "params" ++
  chk (s.lossH == o.lossH) "loss_hist" ++
  chk (s.termH == o.termH) "term_hist" ++
  chk (s.trackH == o.trackH) "tracked" ++
  chk (optObs pg.opt s.opt == o.opt) "opt" ++
  chk (some o.gen == gens[s.gens]?) "gen" ++
  chk ((if s.vs.isSome then some s.critH else none) == o.critH) "crit_hist" ++
  chk ((if s.vs.isSome then some s.best else none) == o.best) "best" ++
  chk (match pg.val with
       | none => true
       | some _ => s.calls.map (·.2) == calls.map (·.params)) "calls"

def jModel (pg : Program) (s : St Params OptSt Nat Val (List Val) Params VState Val) : Json :=
  Json.mkObj [
    ("iters", Json.num (s.i : Nat)), ("params", jParams s.lastGood), ("loss_hist", jVals s.lossH),
    ("term_hist", .arr (s.termH.map jVals).toArray),
    ("tracked", .arr (s.trackH.map jParams).toArray),
    ("opt_count", Json.num (s.opt.count : Nat)), ("opt_trace", jParams s.opt.trace),
    ("gen_pos", Json.num (s.gens : Nat)),
    ("crit_hist", if s.vs.isSome then jVals s.critH else Json.null),
    ("best", if s.vs.isSome then jParams s.best else Json.null),
    ("calls", .arr (s.calls.map (fun c => Json.mkObj [("iteration", Json.num (c.1 : Nat)),
        ("params", jParams c.2)])).toArray),
    ("has_count", Json.bool pg.opt.hasCount)]

structure Loaded where
  pg    : Program
  gens  : List (List String)
  ob    : Observed
  ref   : Unit → RefTrace     -- built on demand (C19 does not need it)
  model : Option (St Params OptSt Nat Val (List Val) Params VState Val)

def load (j : Json) : Except String Loaded := do
  let pj ← j.getObjVal? "prog"
  let pg ← program pj
  let gens ← (← getArr pj "gens").mapM strList
  let ob ← observed (← j.getObjVal? "obs")
  pure { pg := pg, gens := gens, ob := ob, ref := fun _ => pg.refTrace gens, model := pg.run }

/-- model-vs-observation agreement on the fields `keep` (all when `keep = []`) -/
def agreement (ld : Loaded) (keep : List String) : List String :=
  match ld.model, ld.ob.error with
  | none, some _ => []
  | none, none => ["model-rejects-implementation-accepts"]
  | some _, some _ => ["implementation-rejects-model-accepts"]
  | some s, none =>
    let d := diff ld.pg ld.gens s ld.ob.obs ld.ob.calls
    if keep.isEmpty then d else d.filter (fun f => keep.contains f)

/-- the number of iterations the NaN rule allows on the program (see `Holds.C19`) -/
def nanLimit (pg : Program) (ref : RefTrace) : Nat :=
  if hasNaN pg.θ0 then 0
  else match Jinns.Holds.SolveAux.firstFault ref with
    | some k => k + 1
    | none => pg.n

/-- `Holds.C19` / `Holds.C19VL` on the observation of a run with a validation module -/
def holdsValidation (ld : Loaded) (ref : RefTrace) : Option String :=
  let rej := ld.ob.error.isSome
  let pg := ld.pg
  let calls := ld.ob.calls.map (·.params)
  let limit := nanLimit pg ref
  match pg.val with
  | none => none
  | some ⟨c, .scripted script⟩ =>
    let outcomes := (List.range (pg.n + 1)).map (fun jx =>
      script.getD (min jx (script.length - 1)) (some 0, false, false))
    Jinns.Holds.holdsC19 c pg.n limit pg.θ0 outcomes calls rej ld.ob.obs
  | some ⟨c, .vloss L bs pat early⟩ =>
    let expected := (List.range calls.length).map (fun jx =>
      lossTotal L (calls.getD jx []) (bs.getD jx ⟨[]⟩))
    let vobs := ld.ob.calls.map (fun cl => cl.batch.getD ⟨[]⟩)
    Jinns.Holds.holdsC19VL c pg.n limit pg.θ0 pat early expected vobs bs calls rej ld.ob.obs

/-- significant bits of an exact value (bit length of the odd part of the numerator) -/
def bitsOf : Val → Nat
  | none => 0
  | some r =>
    let rec odd (fuel m : Nat) : Nat :=
      match fuel with
      | 0 => m
      | f + 1 => if m != 0 && m % 2 == 0 then odd f (m / 2) else m
    Nat.log2 (odd 4096 r.num.natAbs) + 1

def maxBits (s : St Params OptSt Nat Val (List Val) Params VState Val) : Nat :=
  let vals : List Val := s.lastGood.flatten ++ s.θ.flatten ++ s.lossH ++ s.termH.flatten ++
    s.trackH.flatten.flatten ++ s.opt.trace.flatten ++ s.critH
  vals.foldl (fun m v => max m (bitsOf v)) 0

/-- the model's final carry is printed only when something fails (it is large) -/
def answer (ld : Loaded) (keep : List String) (holds : Option String) : Json :=
  let d := agreement ld keep
  let failing := !d.isEmpty || holds.isSome
  Json.mkObj [
    ("model", match ld.model with
      | none => Json.str "rejected"
      | some s => if failing then jModel ld.pg s else Json.null),
    ("bits", match ld.model with | none => Json.num (0 : Nat) | some s => Json.num (maxBits s : Nat)),
    ("agree", Json.bool d.isEmpty), ("differs", jStrs d),
    ("holds", Json.bool holds.isNone), ("clause", jOptStr holds)]

end Jinns.Driver.SolveProto
