import JinnsDriver.Proto
import JinnsModel.ParamBatch
import JinnsModel.SystemLoss
import JinnsModel.HoldsC12
import JinnsModel.HoldsC13
open Lean Jinns.Proto

/-
Driver for C12 (and the parsing shared with C13 / C20).  User functions arrive as exact polynomial
descriptions built by the harness independently of jinns: a function `f : point → params → value`
is a list of polynomials (one per output component) in the variables `point ++ slots(params)`,
where `slots(params)` has one entry per key of the parameters, `Σ_j reader_k[j] · value_k[j]`
(the harness' networks and equations read every parameter through the same readers).
-/
namespace Jinns.Driver.SysProto
open Jinns.ParamBatch Jinns.SystemLoss Jinns.Holds

abbrev Poly := List (Rat × List Nat)

def powR (x : Rat) : Nat → Rat
  | 0 => 1
  | n + 1 => x * powR x n

def evalPoly (p : Poly) (v : List Rat) : Rat :=
  ParamBatch.sum (p.map fun ce => ce.1 * (List.zipWith powR v ce.2).foldr (· * ·) 1)

def parsePoly (j : Json) : Except String Poly := do
  let a ← j.getArr?
  a.toList.mapM fun m => do
    let c ← rat (← m.getArrVal? 0)
    let es ← natList (← m.getArrVal? 1)
    pure (c, es)

def parsePolyVec (j : Json) : Except String (List Poly) := do
  let a ← j.getArr?
  a.toList.mapM parsePoly

def opt (j : Json) (k : String) : Option Json :=
  match j.getObjVal? k with
  | .ok .null => none
  | .ok v => some v
  | .error _ => none

def optM {α : Type} (j : Json) (k : String) (f : Json → Except String α) : Except String (Option α) :=
  match opt j k with
  | none => pure none
  | some v => do pure (some (← f v))

def parseKV (j : Json) : Except String (List (String × List Rat)) := do
  let a ← j.getArr?
  a.toList.mapM fun m => do
    let k ← (← m.getArrVal? 0).getStr?
    let v ← ratList (← m.getArrVal? 1)
    pure (k, v)

def parseRows (j : Json) : Except String Rows := do
  let a ← j.getArr?
  a.toList.mapM fun m => do
    let k ← (← m.getArrVal? 0).getStr?
    let v ← ratMat (← m.getArrVal? 1)
    pure (k, v)

def dot (a b : List Rat) : Rat := ParamBatch.sum (List.zipWith (· * ·) a b)

def slots (readers : List (String × List Rat)) (p : Params) : List Rat :=
  p.map fun kv => dot ((get? kv.1 readers).getD []) kv.2

def polyFn (readers : List (String × List Rat)) (fs : List Poly) : List Rat → Params → Val :=
  fun pt p => fs.map fun f => evalPoly f (pt ++ slots readers p)

def parseFn (readers : List (String × List Rat)) (j : Json) : Except String (List Rat → Params → Val) := do
  pure (polyFn readers (← parsePolyVec j))

def parseMse (readers : List (String × List Rat)) (j : Json) : Except String MseIn := do
  let w ← getRat j "w"
  let xs ← getRatMat j "xs"
  let f ← parseFn readers (← j.getObjVal? "f")
  pure { w := w, f := f, xs := xs }

def parseHet (readers : List (String × List Rat)) (j : Json) : Except String Het := do
  let a ← j.getArr?
  a.toList.mapM fun m => do
    let k ← (← m.getArrVal? 0).getStr?
    let v ← m.getArrVal? 1
    match v with
    | .null => pure (k, none)
    | _ => do pure (k, some (← parseFn readers v))

def parseSingle (readers : List (String × List Rat)) (j : Json) : Except String Single := do
  let pr ← optM j "param_rows" parseRows
  let orows ← optM j "obs_rows" parseRows
  let het ← optM j "het" (parseHet readers)
  let dyn ← optM j "dyn" (parseMse readers)
  let icO ← optM j "ic_ode" fun v => do
    let w ← getRat v "w"
    let pt ← getRatList v "pt"
    let f ← parseFn readers (← v.getObjVal? "f")
    pure (w, f, pt)
  let icP ← optM j "ic_pde" (parseMse readers)
  let bd ← match opt j "boundary" with
    | none => pure []
    | some v => do (← v.getArr?).toList.mapM (parseMse readers)
  let nm ← optM j "norm" fun v => do
    let w ← getRat v "w"
    let L ← getRat v "L"
    let xs ← getRatMat v "xs"
    let f ← parseFn readers (← v.getObjVal? "f")
    pure (w, L, f, xs)
  let nmNS ← optM j "norm_ns" fun v => do
    let w ← getRat v "w"
    let L ← getRat v "L"
    let ts ← getRatMat v "ts"
    let xs ← getRatMat v "xs"
    let f ← parseFn readers (← v.getObjVal? "f")
    pure (w, L, f, ts, xs)
  let ob ← optM j "obs" (parseMse readers)
  pure { paramRows := pr, obsRows := orows, het := het, dyn := dyn, icODE := icO, icPDE := icP,
         boundary := bd, norm := nm, normNS := nmNS, obs := ob }

def termOr0 (j : Json) (k : String) : Except String Rat :=
  match opt j k with
  | none => pure 0
  | some v => rat v

def parseTerms (j : Json) : Except String Terms := do
  pure { dyn := ← termOr0 j "dyn_loss", ic := ← termOr0 j "initial_condition",
         boundary := ← termOr0 j "boundary_loss", norm := ← termOr0 j "norm_loss",
         obs := ← termOr0 j "observations" }

/-- `{"error": kind}` or `{"terms": {...}, "total": q}` -/
def parseOutcome (j : Json) : Except String Outcome := do
  match opt j "error" with
  | some e => pure (.error (← e.getStr?))
  | none =>
    let t ← parseTerms (← j.getObjVal? "terms")
    let tot ← getRat j "total"
    pure (.ok (t, tot))

def jTerms (t : Terms) : Json := Json.mkObj [
  ("dyn_loss", jRat t.dyn), ("initial_condition", jRat t.ic), ("boundary_loss", jRat t.boundary),
  ("norm_loss", jRat t.norm), ("observations", jRat t.obs)]

def jOutcome (o : Outcome) : Json :=
  match o with
  | .error e => Json.mkObj [("error", Json.str e)]
  | .ok (t, tot) => Json.mkObj [("terms", jTerms t), ("total", jRat tot)]

def sameOutcome (a b : Outcome) : Bool :=
  match a, b with
  | .ok x, .ok y => x.1 == y.1 && x.2 == y.2
  | .error x, .error y => x == y
  | _, _ => false

def parseWSpec (j : Json) : Except String WSpec := do
  match j with
  | .null => pure .none
  | .str "vector" => pure .vector
  | .str _ => do pure (.scalar (← rat j))
  | .num _ => do pure (.scalar (← rat j))
  | _ =>
    match opt j "dict_vector" with
    | some v => do
      let ks ← (← v.getArr?).toList.mapM (·.getStr?)
      pure (.dictVector ks)
    | none => do
      let d ← parseKV (← j.getObjVal? "dict")
      pure (.dict (d.map fun kv => (kv.1, kv.2.headD 0)))

def parseWSpecs (j : Json) : Except String WSpecs := do
  let g := fun k => match j.getObjVal? k with
    | .ok v => parseWSpec v
    | .error _ => pure WSpec.none
  pure { dyn := ← g "dyn_loss", ic := ← g "initial_condition", boundary := ← g "boundary_loss",
         norm := ← g "norm_loss", obs := ← g "observations" }

def parseSys (readers : List (String × List Rat)) (j : Json) : Except String Sys := do
  let pr ← optM j "param_rows" parseRows
  let pts ← getRatMat j "pts"
  let eqs ← (← getArr j "eqs").mapM fun e => do
    let k ← getStr e "key"
    let het ← optM e "het" (parseHet readers)
    let f ← parseFn readers (← e.getObjVal? "f")
    pure (k, ({ het := het, f := f } : Eqn))
  let us ← (← getArr j "unknowns").mapM fun u => do
    let k ← getStr u "key"
    let s ← parseSingle readers (← u.getObjVal? "single")
    pure (k, s)
  let w ← parseWSpecs (← j.getObjVal? "weights")
  pure { paramRows := pr, pts := pts, eqs := eqs, unknowns := us, weights := w }

end Jinns.Driver.SysProto

namespace Jinns.Driver
open Jinns.ParamBatch Jinns.SystemLoss Jinns.Holds Jinns.Driver.SysProto

/-- request: `{params, readers, single: {...}, observed, perturbed?}`; answers with the model's
    outcome, `Holds.C12` on the observation, and whether model and observation agree. -/
def handleC12 (j : Json) : Except String Json := do
  let p ← parseKV (← j.getObjVal? "params")
  let readers ← parseKV (← j.getObjVal? "readers")
  let s ← parseSingle readers (← j.getObjVal? "single")
  let o ← parseOutcome (← j.getObjVal? "observed")
  let pert ← optM j "perturbed" parseOutcome
  let model : Outcome := (evalSingle p s).map fun t => (t, t.total)
  let h1 := holdsC12 p s o
  let h2 := match pert with
    | none => none
    | some q => holdsC12Meta o q
  let holds := match h1 with
    | some c => some c
    | none => h2
  pure <| Json.mkObj [
    ("model", jOutcome model), ("well_formed", Json.bool (wellFormed p s)),
    ("agree", Json.bool (sameOutcome model o)),
    ("holds", Json.bool holds.isNone), ("clause", jOptStr holds)]

/-- same for the system losses: `{params, readers, sys: {...}, observed, perturbed?}` -/
def handleC12Sys (j : Json) : Except String Json := do
  let p ← parseKV (← j.getObjVal? "params")
  let readers ← parseKV (← j.getObjVal? "readers")
  let S ← parseSys readers (← j.getObjVal? "sys")
  let o ← parseOutcome (← j.getObjVal? "observed")
  let pert ← optM j "perturbed" parseOutcome
  let model : Outcome := sysEvaluate p S
  let h1 := holdsC12Sys p S o
  let h2 := match pert with
    | none => none
    | some q => holdsC12Meta o q
  let holds := match h1 with
    | some c => some c
    | none => h2
  pure <| Json.mkObj [
    ("model", jOutcome model), ("well_formed", Json.bool (wellFormedSys p S && weightsValid S)),
    ("agree", Json.bool (sameOutcome model o)),
    ("holds", Json.bool holds.isNone), ("clause", jOptStr holds)]

def parseBoolKV (j : Json) : Except String (List (String × Bool)) := do
  (← j.getArr?).toList.mapM fun m => do
    pure ((← (← m.getArrVal? 0).getStr?), (← (← m.getArrVal? 1).getBool?))

/-- derivative routing of the dynamic term: `{params, readers, param_rows, dyn: {w,xs,f}, mask: [[key,bool]],
    dfs: [[key, polyvec of ∂f_c/∂slot_key]], grads: {rows: [[key, rows]], caller: [[key, entries]]}}` -/
def handleC12Routing (j : Json) : Except String Json := do
  let p ← parseKV (← j.getObjVal? "params")
  let readers ← parseKV (← j.getObjVal? "readers")
  let rows ← parseRows (← j.getObjVal? "param_rows")
  let m ← parseMse readers (← j.getObjVal? "dyn")
  let maskL ← parseBoolKV (← j.getObjVal? "mask")
  let mask : String → Bool := fun k => (get? k maskL).getD false
  let dfs ← (← getArr j "dfs").mapM fun e => do
    let k ← (← e.getArrVal? 0).getStr?
    let pv ← parsePolyVec (← e.getArrVal? 1)
    pure (k, pv)
  -- ∂f/∂(entry j of key k) = ∂f/∂slot_k · reader_k[j]
  let df : Tangent := fun k jj pt q =>
    let c := ((get? k readers).getD []).getD jj 0
    ((get? k dfs).getD []).map fun dp => c * evalPoly dp (pt ++ slots readers q)
  let g ← j.getObjVal? "grads"
  let grads : Grads := { rows := ← parseRows (← g.getObjVal? "rows"), caller := ← parseKV (← g.getObjVal? "caller") }
  let holds := holdsC12Routing p rows m df mask grads
  -- the model's own gradients (code-shaped pipeline)
  let t := stackTree (ofParams p) rows
  let ax := inAxes t (some (keys rows))
  let mRows : List (String × List Val) := rows.map fun r =>
    (r.1, (List.range m.xs.length).map fun i =>
      (List.range (r.2.getD i []).length).map fun jj => dynGradRow m df t ax mask r.1 i jj)
  let mCaller : List (String × Val) := p.map fun kv =>
    (kv.1, (List.range kv.2.length).map fun jj => dynGradCaller m df t ax mask (keys rows) kv.1 jj)
  let agree := (mRows.all fun r => (get? r.1 grads.rows) == some r.2) &&
    (mCaller.all fun r => (get? r.1 grads.caller) == some r.2)
  pure <| Json.mkObj [
    ("model_rows", Json.arr (mRows.map fun r => Json.arr #[Json.str r.1, jRatMat r.2]).toArray),
    ("model_caller", Json.arr (mCaller.map fun r => Json.arr #[Json.str r.1, jRats r.2]).toArray),
    ("agree", Json.bool agree), ("holds", Json.bool holds.isNone), ("clause", jOptStr holds)]

def opsC12 : List (String × (Json → Except String Json)) :=
  [("c12", handleC12), ("c12sys", handleC12Sys), ("c12routing", handleC12Routing)]

end Jinns.Driver
