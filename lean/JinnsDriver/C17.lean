import JinnsDriver.Proto
import JinnsDriver.C16
import JinnsModel.RarSelect
import JinnsModel.HoldsC17
open Lean Jinns.Proto

namespace Jinns.Driver
open Jinns.Rar Jinns.Holds

/-- insertion sort of rationals (to compare multisets of residual values) -/
def insRat (a : Rat) : List Rat → List Rat
  | [] => [a]
  | b :: l => if a ≤ b then a :: b :: l else b :: insRat a l
def sortRat (l : List Rat) : List Rat := l.foldr insRat []

def getNatListD (j : Json) (k : String) : Except String (List Nat) :=
  match j.getObjVal? k with
  | .error _ => pure []
  | .ok Json.null => pure []
  | .ok v => natList v

def getBoolListD (j : Json) (k : String) : Except String (List Bool) :=
  match j.getObjVal? k with
  | .error _ => pure []
  | .ok Json.null => pure []
  | .ok v => boolList v

def getRatMatD (j : Json) (k : String) : Except String (List (List Rat)) :=
  match j.getObjVal? k with
  | .error _ => pure []
  | .ok Json.null => pure []
  | .ok v => ratMat v

/-- state of the replay: model generator, last observed stores / masks of the implementation,
    events for `Holds.C17`, first disagreement, oracle contract -/
structure Run17 where
  g      : Gen
  storeT : List Nat
  storeX : List Nat
  pT     : List Bool
  pX     : List Bool
  evs    : List Ev17
  bad    : Option String
  oracle : Bool
  log    : List Json
  addedT : List Nat := []
  addedX : List Nat := []

def note (r : Run17) (k : Nat) (what : String) : Run17 :=
  match r.bad with
  | some _ => r
  | none => { r with bad := some s!"event {k}: {what}" }

/-- the slots `[a, b)` of a store -/
def seg (l : List Nat) (a b : Nat) : List Nat := (l.drop a).take (b - a)

def stepEvent (r : Run17) (k : Nat) (e : Json) (tlo thi : List Rat) (xlo xhi : List Rat) :
    Except String Run17 := do
  let c := r.g.cfg
  let i ← getNat e "i"
  let stepped ← getBool e "stepped"
  -- `light`: a step of jinns.solve, the stores and probabilities are not observable at that moment
  let light := (← getOpt e "light" (·.getBool?)).getD false
  let storeT ← getNatListD e "storeT"
  let storeX ← getNatListD e "storeX"
  let pT ← getBoolListD e "pT"
  let pX ← getBoolListD e "pX"
  let candT ← getRatMatD e "candT"
  let candX ← getRatMatD e "candX"
  let candTLab ← getNatListD e "candTLab"
  let candXLab ← getNatListD e "candXLab"
  let idxT ← getNatListD e "idxT"
  let idxX ← getNatListD e "idxX"
  let ptsT := idxT.map (fun a => candTLab.getD a 0)
  let ptsX := idxX.map (fun a => candXLab.getD a 0)
  let nEffT := r.g.t.nEff
  let nEffX := r.g.x.nEff
  let (g', mStepped) := r.g.trigger i ptsT ptsX
  let mut r := r
  if mStepped != stepped then r := note r k s!"model stepped={mStepped}, implementation stepped={stepped}"
  if stepped then
    let inDom := (!c.kind.hasT || inBox candT tlo thi) && (!c.kind.hasX || inBox candX xlo xhi)
    match c.kind with
    | .nonstatio =>
      let rep ← getRatMat e "mse"
      let ex ← getRatMat e "exact"
      let nX := candXLab.length
      r := { r with evs := r.evs ++ [Ev17.choice2 inDom rep ex nX c.selT c.selX idxT idxX] }
      let (mT, mX) := topPairs rep nX c.selT c.selX
      let val (ti xi : List Nat) (q : Nat) : Rat := (rep.getD (ti.getD q 0) []).getD (xi.getD q 0) 0
      let common := List.range (min c.selT c.selX)
      if common.map (val mT mX) != common.map (val idxT idxX) then
        r := note r k s!"model choice (times {mT}, omega {mX}) has other residuals than the implementation's ({idxT}, {idxX})"
      r := { r with log := r.log ++ [Json.mkObj [("event", Json.num (k : Nat)), ("model_idxT", jNats mT), ("model_idxX", jNats mX)]] }
    | _ =>
      let rep ← getRatList e "mse"
      let ex ← getRatList e "exact"
      let sel := if c.kind.hasT then c.selT else c.selX
      let chosen := if c.kind.hasT then idxT else idxX
      r := { r with evs := r.evs ++ [Ev17.choice1 inDom rep ex sel chosen] }
      let m := selectTop sel rep
      if sortRat (m.map (fun a => rep.getD a 0)) != sortRat (chosen.map (fun a => rep.getD a 0)) then
        r := note r k s!"model choice {m} has other residuals than the implementation's {chosen}"
      r := { r with log := r.log ++ [Json.mkObj [("event", Json.num (k : Nat)), ("model_idx", jNats m)]] }
    r := { r with addedT := r.addedT ++ ptsT, addedX := r.addedX ++ ptsX }
  if light then
    return { r with g := g' }
  if stepped then
    let sideT : Side17 := { sel := c.selT, candLab := candTLab, chosen := idxT, storeB := r.storeT,
                            storeA := storeT, maskB := r.pT, maskA := pT }
    let sideX : Side17 := { sel := c.selX, candLab := candXLab, chosen := idxX, storeB := r.storeX,
                            storeA := storeX, maskB := r.pX, maskA := pX }
    r := { r with evs := r.evs ++ [Ev17.stores ((if c.kind.hasT then [("times", sideT)] else []) ++
                                                 (if c.kind.hasX then [("omega", sideX)] else []))] }
    -- stores: previously active slots in place, new slots hold the chosen points
    if c.kind.hasT then
      if seg g'.t.store 0 nEffT != seg storeT 0 nEffT then r := note r k "time store: an active slot differs from the model"
      if !(seg g'.t.store nEffT g'.t.nEff).isPerm (seg storeT nEffT g'.t.nEff) then
        r := note r k s!"time store: slots [{nEffT}, {g'.t.nEff}) differ from the model"
    if c.kind.hasX then
      if seg g'.x.store 0 nEffX != seg storeX 0 nEffX then r := note r k "space store: an active slot differs from the model"
      if !(seg g'.x.store nEffX g'.x.nEff).isPerm (seg storeX nEffX g'.x.nEff) then
        r := note r k s!"space store: slots [{nEffX}, {g'.x.nEff}) differ from the model"
  else
    if c.kind.hasT && storeT != r.storeT then r := note r k "time store changed without a step"
    if c.kind.hasX && storeX != r.storeX then r := note r k "space store changed without a step"
  let iterNb ← getNat e "iterNb"
  if g'.st.steps != iterNb then r := note r k s!"rar_iter_nb: model {g'.st.steps}, implementation {iterNb}"
  if c.kind.hasT && g'.st.pT != pT then r := note r k "p_times non-zero pattern differs from the model"
  if c.kind.hasX && g'.st.pX != pX then r := note r k "p_omega non-zero pattern differs from the model"
  -- continue from the implementation's stores (the chosen points were taken from it anyway)
  let g'' : Gen := { g' with t := { g'.t with store := if c.kind.hasT then storeT else g'.t.store },
                             x := { g'.x with store := if c.kind.hasX then storeX else g'.x.store } }
  pure { r with g := g'', storeT := storeT, storeX := storeX, pT := pT, pX := pX }

/-- end of a `jinns.solve` run: final stores / probabilities / counters -/
def finalEvent (r : Run17) (k : Nat) (e : Json) (storeT0 storeX0 : List Nat) (pT0 pX0 : List Bool) :
    Except String Run17 := do
  let c := r.g.cfg
  let storeT ← getNatListD e "storeT"
  let storeX ← getNatListD e "storeX"
  let pT ← getBoolListD e "pT"
  let pX ← getBoolListD e "pX"
  let iterNb ← getNat e "iterNb"
  let mut r := r
  r := { r with evs := r.evs ++
    (if c.kind.hasT then [Ev17.summary "times" (maskedPts storeT0 pT0) (maskedPts storeT pT) r.addedT] else []) ++
    (if c.kind.hasX then [Ev17.summary "omega" (maskedPts storeX0 pX0) (maskedPts storeX pX) r.addedX] else []) }
  if r.g.st.steps != iterNb then r := note r k s!"rar_iter_nb: model {r.g.st.steps}, implementation {iterNb}"
  if c.kind.hasT && r.g.st.pT != pT then r := note r k "p_times non-zero pattern differs from the model"
  if c.kind.hasX && r.g.st.pX != pX then r := note r k "p_omega non-zero pattern differs from the model"
  pure r

def drawEvent (r : Run17) (k : Nat) (e : Json) : Except String Run17 := do
  let c := r.g.cfg
  let storeT ← getNatListD e "storeT"
  let storeX ← getNatListD e "storeX"
  let batchT ← getNatListD e "batchT"
  let batchX ← getNatListD e "batchX"
  let resetT ← (getOpt e "resetT" (·.getBool?))
  let resetX ← (getOpt e "resetX" (·.getBool?))
  let mut r := r
  let sides : List Draw17 :=
    (if c.kind.hasT then [{ storeB := r.storeT, storeA := storeT, mask := r.pT }] else []) ++
    (if c.kind.hasX then [{ storeB := r.storeX, storeA := storeX, mask := r.pX }] else [])
  r := { r with evs := r.evs ++ [Ev17.draw sides] }
  let okT := !c.kind.hasT || r.g.t.oracleOk storeT
  let okX := !c.kind.hasX || r.g.x.oracleOk storeX
  if !(okT && okX) then r := { r with oracle := false }
  let mResetT := r.g.t.resets
  let mResetX := r.g.x.resets
  let (g', bT, bX) := r.g.getBatch storeT storeX
  if c.kind.hasT then
    if !optEq resetT mResetT then r := note r k s!"times: model reshuffle={mResetT}"
    if g'.t.store != storeT then r := note r k "times: store differs from the model"
    if bT != batchT then r := note r k s!"times: model batch {bT}, implementation {batchT}"
  if c.kind.hasX then
    if !optEq resetX mResetX then r := note r k s!"omega: model reshuffle={mResetX}"
    if g'.x.store != storeX then r := note r k "omega: store differs from the model"
    if bX != batchX then r := note r k s!"omega: model batch {bX}, implementation {batchX}"
  pure { r with g := g', storeT := storeT, storeX := storeX }

/-- request: {cfg, bT, bX, storeT0, storeX0, pT0, pX0, tlo, thi, xlo, xhi,
              events:[{ev:"draw", storeT, storeX, batchT, batchX, resetT?, resetX?} |
                      {ev:"trigger", i, stepped, light?, storeT, storeX, pT, pX, iterNb, fromLast,
                       candT, candX, candTLab, candXLab, mse, exact, idxT, idxX} |
                      {ev:"final", storeT, storeX, pT, pX, iterNb, fromLast}]}
    Labels: naturals identifying points.  The model replays the history with the observed
    reshuffles / candidates / chosen indices as oracles; `Holds.C17` is evaluated on the observed
    history. -/
def handleC17 (j : Json) : Except String Json := do
  let c ← getCfg (← j.getObjVal? "cfg")
  let legal ← getLegal j c
  if (← getOpt j "rejected" (·.getStr?)).isSome then
    let h := holdsC17 [Ev17.rejected legal]
    return Json.mkObj [("holds", Json.bool h.isNone), ("clause", jOptStr h), ("legal", Json.bool legal),
      ("agree", Json.bool (!legal)), ("oracle_contract", Json.bool true)]
  let bT ← getNat j "bT"
  let bX ← getNat j "bX"
  let storeT0 ← getNatListD j "storeT0"
  let storeX0 ← getNatListD j "storeX0"
  let pT0 ← getBoolListD j "pT0"
  let pX0 ← getBoolListD j "pX0"
  let tlo ← getRatList j "tlo"
  let thi ← getRatList j "thi"
  let xlo ← getRatList j "xlo"
  let xhi ← getRatList j "xhi"
  let evs ← getArr j "events"
  let g0 := Gen.init c storeT0 storeX0 bT bX
  let mut r : Run17 := { g := g0, storeT := storeT0, storeX := storeX0, pT := pT0, pX := pX0,
                         evs := [], bad := none, oracle := true, log := [] }
  if c.kind.hasT && g0.st.pT != pT0 then r := note r 0 "initial p_times pattern differs from the model"
  if c.kind.hasX && g0.st.pX != pX0 then r := note r 0 "initial p_omega pattern differs from the model"
  let mut k := 0
  for e in evs do
    match (← getStr e "ev") with
    | "draw" => r ← drawEvent r k e
    | "trigger" => r ← stepEvent r k e tlo thi xlo xhi
    | "final" => r ← finalEvent r k e storeT0 storeX0 pT0 pX0
    | s => throw s!"unknown event {s}"
    k := k + 1
  let holds := holdsC17 r.evs
  pure <| Json.mkObj [
    ("holds", Json.bool holds.isNone), ("clause", jOptStr holds), ("legal", Json.bool legal),
    ("agree", Json.bool r.bad.isNone), ("disagreement", jOptStr r.bad),
    ("oracle_contract", Json.bool r.oracle),
    ("model_steps", Json.num (r.g.st.steps : Nat)), ("model_log", Json.arr r.log.toArray)]

def opsC17 : List (String × (Json → Except String Json)) := [("c17", handleC17)]

end Jinns.Driver
