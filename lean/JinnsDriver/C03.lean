import JinnsDriver.Proto
import JinnsModel.LossTerms
import JinnsModel.Boundary
import JinnsModel.HoldsC03
open Lean Jinns.Proto Jinns.LossTerms

/-
Driver for C03, and the parser / model runner of a "loss case" shared with C04 and C05.

A loss case (JSON) carries the configuration of one real jinns loss, the batch it was evaluated on
and the exact value tables of the user's functions at the points of that batch (computed by the
harness with exact polynomials, independently of jinns).  The model decides which table is read at
which point, how the rows are aggregated and how the total is assembled.
-/
namespace Jinns.Driver

abbrev Tab := List (List Rat × List Rat)
abbrev JTab := List (List Rat × List (List Rat))

def optField (j : Json) (k : String) : Option Json :=
  match j.getObjVal? k with
  | .ok .null => none
  | .ok v => some v
  | .error _ => none

def parsePair (e : Json) : Except String (Json × Json) := do
  let kv ← e.getArr?
  if h : kv.size = 2 then pure (kv[0], kv[1]) else throw "expected a pair"

def parseTab (j : Json) : Except String Tab := do
  let a ← j.getArr?
  a.toList.mapM fun e => do
    let (k, v) ← parsePair e
    pure (← ratList k, ← ratList v)

def parseJTab (j : Json) : Except String JTab := do
  let a ← j.getArr?
  a.toList.mapM fun e => do
    let (k, v) ← parsePair e
    pure (← ratList k, ← ratMat v)

def getTab (j : Json) (k : String) : Except String Tab := do parseTab (← j.getObjVal? k)

def parseWeight (j : Json) : Except String Weight := do
  match optField j "scalar" with
  | some s => pure (.scalar (← rat s))
  | none => pure (.vec (← getRatList j "vec"))

def parseSlice (j : Option Json) : Except String Slice :=
  match j with
  | none => pure none
  | some v => do
    match ← natList v with
    | [a, b] => pure (some (a, b))
    | _ => throw "slice: expected [a, b]"

def tabFn (t : Tab) (k : List Rat) : List Rat := (t.lookup k).getD []
def jtabFn (t : JTab) (k : List Rat) : List (List Rat) := (t.lookup k).getD []

def showKey (k : List Rat) : String := toString (k.map showRat)

def requireKeys {β : Type} (what : String) (t : List (List Rat × β)) (keys : List (List Rat)) :
    Except String Unit :=
  match keys.find? (fun k => (t.lookup k).isNone) with
  | some k => throw s!"{what}: no table entry for {showKey k}"
  | none => pure ()

structure FacetCase where
  cond      : Jinns.Boundary.Cond
  dim       : Slice
  ftab      : Tab
  retScalar : Bool

structure BoundaryCase where
  w       : Rat
  global  : Bool
  facets  : List (Option FacetCase)
  border  : Jinns.Boundary.Border
  hasTime : Bool
  grid    : Bool
  utab    : Tab
  jtab    : JTab

abbrev ObsTab := List ((Nat × List (String × Rat)) × List Rat)

structure LossCase where
  spinn    : Bool
  d        : Nat
  kind     : String
  inside   : List (List Rat)
  sliceSol : Slice
  dyn      : Option (Weight × Tab)
  icOde    : Option (Rat × List (List Rat) × List Rat)
  icPde    : Option (Weight × Tab × Tab)
  norm     : Option (Rat × Rat × List (List Rat) × Tab)
  boundary : Option BoundaryCase
  obs      : Option (ObsCfg Nat String)

def parseRat3 (j : Json) : Except String (List (List (List Rat))) := do
  let a ← j.getArr?
  a.toList.mapM ratMat

def parseParams (j : Json) : Except String (List (String × Rat)) := do
  let a ← j.getArr?
  a.toList.mapM fun e => do
    let (k, v) ← parsePair e
    pure (← k.getStr?, ← rat v)

def parseBoundary (j : Json) (hasTime : Bool) : Except String BoundaryCase := do
  let w ← getRat j "w"
  let glob ← getBool j "global"
  let fs ← getArr j "facets"
  let facets ← fs.mapM fun (f : Json) => do
    match f with
    | .null => pure (none : Option FacetCase)
    | _ =>
      let c ← getStr f "cond"
      let cond ← (match c with
        | "dirichlet" => pure Jinns.Boundary.Cond.dirichlet
        | "neumann" => pure Jinns.Boundary.Cond.neumann
        | _ => throw s!"unknown condition {c}")
      let dim ← parseSlice (optField f "dim")
      let ftab ← getTab f "ftab"
      let fret ← getStr f "fret"
      pure (some { cond := cond, dim := dim, ftab := ftab, retScalar := fret == "scalar" })
  let border ← parseRat3 (← j.getObjVal? "border")
  let utab ← getTab j "utab"
  let jtab ← parseJTab (← j.getObjVal? "jtab")
  let grid := match j.getObjVal? "grid" with
    | .ok (.bool g) => g
    | _ => false
  pure { w := w, global := glob, facets := facets, border := border, hasTime := hasTime, grid := grid,
         utab := utab, jtab := jtab }

def parseObs (j : Json) (sliceSol : Slice) : Except String (ObsCfg Nat String) := do
  let w ← parseWeight (← j.getObjVal? "w")
  let obsSlice ← parseSlice (optField j "obs_slice")
  let caller ← parseParams (← j.getObjVal? "caller")
  let obsd ← getArr j "observed"
  let observed ← obsd.mapM fun e => do
    let (k, v) ← parsePair e
    pure (← k.getStr?, ← ratList v)
  let pbatch ← (match optField j "pbatch" with
    | none => pure []
    | some pb => do
      let l ← pb.getArr?
      l.toList.mapM fun e => do
        let (k, v) ← parsePair e
        pure (← k.getStr?, ← ratList v))
  let n ← getNat j "n"
  let vals ← getRatMat j "vals"
  let ut ← getArr j "utab"
  let utab : ObsTab ← ut.mapM fun e => do
    let a ← e.getArr?
    if h : a.size = 3 then
      pure ((← a[0].getNat?, ← parseParams a[1]), ← ratList a[2])
    else throw "obs utab entry: expected [i, params, value]"
  -- every (row, row parameters) the model will ask for must be in the table
  for i in List.range n do
    let p := obsRowParams caller pbatch observed i
    if (utab.lookup (i, p)).isNone then
      throw s!"obs: no table entry for row {i} with parameters {p.map fun kv => (kv.1, showRat kv.2)}"
  pure { w := w, u := fun i p => (utab.lookup (i, p)).getD [], sliceSol := sliceSol,
         obsSlice := obsSlice, caller := caller, pbatch := pbatch, observed := observed,
         ins := fun i => i, vals := fun i => vals.getD i [], n := n }

def parseLossCase (j : Json) : Except String LossCase := do
  let kind ← getStr j "kind"
  let spinn := match j.getObjVal? "spinn" with
    | .ok (.bool g) => g
    | _ => false
  let d := match j.getObjVal? "d" with
    | .ok v => (v.getNat?.toOption).getD 0
    | _ => 0
  let inside ← getRatMat j "inside"
  let dNat := d
  let sliceSol ← parseSlice (optField j "slice_solution")
  let dyn ← (match optField j "dyn" with
    | none => pure none
    | some d => do
      let tab ← getTab d "tab"
      requireKeys "dyn" tab (if spinn then gridPts (if kind == "nonstatio" then dNat + 1 else dNat) inside else inside)
      pure (some (← parseWeight (← d.getObjVal? "w"), tab)))
  let mut icOde := none
  let mut icPde := none
  match optField j "ic" with
  | none => pure ()
  | some c =>
    if kind == "ode" then
      icOde := some (← getRat c "w", ← getRatMat c "rows", ← getRatList c "u0")
    else
      let u0 ← getTab c "u0"
      let uAt0 ← getTab c "u_at_0"
      let xs := if spinn then gridPts d (inside.map (·.drop 1)) else inside.map (·.drop 1)
      requireKeys "ic u0" u0 xs
      requireKeys "ic u_at_0" uAt0 xs
      icPde := some (← parseWeight (← c.getObjVal? "w"), u0, uAt0)
  let norm ← (match optField j "norm" with
    | none => pure none
    | some c => do
      let samples ← getRatMat c "samples"
      let tab ← getTab c "tab"
      let spts := if spinn then gridPts d samples else samples
      if kind == "statio" then requireKeys "norm" tab spts
      else requireKeys "norm" tab ((inside.map (·.take 1)).flatMap fun t => spts.map (t ++ ·))
      pure (some (← getRat c "w", ← getRat c "L", samples, tab)))
  let boundary ← (match optField j "boundary" with
    | none => pure none
    | some c => do pure (some (← parseBoundary c (kind == "nonstatio"))))
  let obs ← (match optField j "obs" with
    | none => pure none
    | some c => do pure (some (← parseObs c sliceSol)))
  pure { spinn := spinn, d := d, kind := kind, inside := inside, sliceSol := sliceSol, dyn := dyn, icOde := icOde,
         icPde := icPde, norm := norm, boundary := boundary, obs := obs }

def BoundaryCase.spec (b : BoundaryCase) : Jinns.Boundary.Spec :=
  let mk (f : FacetCase) : Jinns.Boundary.FacetSpec :=
    { cond := f.cond, dim := f.dim,
      f := fun p => if f.retScalar then .scalar ((tabFn f.ftab p).headD 0) else .vec (tabFn f.ftab p) }
  if b.global then
    match b.facets with
    | some f :: _ => .global (mk f)
    | _ => .perFacet []
  else .perFacet (b.facets.map fun o => o.map mk)

/-- every border point of every configured facet must be in the tables -/
def BoundaryCase.check (b : BoundaryCase) : Except String Unit := do
  let nF := Jinns.Boundary.nFacets b.border
  for k in List.range nF do
    let fc := if b.global then b.facets.headD none else b.facets.getD k none
    match fc with
    | none => pure ()
    | some f =>
      let rows := Jinns.Boundary.facetPts b.border k
      let pts := if b.grid then gridPts (Jinns.Boundary.nCoords b.border) rows else rows
      requireKeys s!"boundary f (facet {k})" f.ftab pts
      requireKeys "boundary u" b.utab pts
      requireKeys "boundary jac" b.jtab pts

def BoundaryCase.value (b : BoundaryCase) : Rat :=
  if b.grid then Jinns.Boundary.boundarySpinn b.w b.spec b.hasTime (tabFn b.utab) (jtabFn b.jtab) b.border
  else Jinns.Boundary.boundary b.w b.spec b.hasTime (tabFn b.utab) (jtabFn b.jtab) b.border

def odeTermsJ (t : OdeTerms) : List (String × Rat) :=
  [("dyn_loss", t.dyn), ("initial_condition", t.ic), ("observations", t.obs)]

def pdeTermsJ (t : PdeTerms) : List (String × Rat) :=
  [("dyn_loss", t.dyn), ("norm_loss", t.norm), ("boundary_loss", t.boundary),
   ("observations", t.obs), ("initial_condition", t.ic)]

/-- runs the model of `loss.evaluate`: `(rejected, total, terms)` -/
def LossCase.run (c : LossCase) : Except String (Bool × Rat × List (String × Rat)) := do
  let mut rejected := false
  let mut bval : Option Rat := none
  match c.boundary with
  | none => pure ()
  | some b =>
    if b.spec.rejected b.border then rejected := true
    else
      b.check
      bval := some b.value
  if rejected then return (true, 0, [])
  if c.spinn then
    match c.kind with
    | "statio" =>
      let (tot, t) := lossStatioSpinnDyn c.d (c.dyn.map fun (w, tab) => (w, tabFn tab))
        (c.norm.map fun (w, L, samples, tab) => (w, L, tabFn tab, samples)) bval c.inside
      return (false, tot, pdeTermsJ t)
    | "nonstatio" =>
      match c.norm with
      | some (_, _, samples, _) =>
        if normSpinnRejected c.inside.length samples.length then return (true, 0, [])
      | none => pure ()
      let rows : List (Rat × List Rat) := c.inside.map fun r => (r.headD 0, r.drop 1)
      let (tot, t) := lossNonStatioSpinnDyn c.d (c.dyn.map fun (w, tab) => (w, tabFn tab))
        (c.norm.map fun (w, L, samples, tab) =>
          (w, L, (fun (t : Rat) (s : List Rat) => tabFn tab (t :: s)), samples))
        bval (c.icPde.map fun (w, u0, uAt0) => (w, tabFn u0, tabFn uAt0)) rows
      return (false, tot, pdeTermsJ t)
    | k => throw s!"spinn: unknown kind {k}"
  match c.kind with
  | "ode" =>
    let (tot, t) := lossODE (c.dyn.map fun (w, tab) => (w, tabFn tab)) c.icOde c.obs c.inside
    pure (false, tot, odeTermsJ t)
  | "statio" =>
    let (tot, t) := lossStatio (c.dyn.map fun (w, tab) => (w, tabFn tab))
      (c.norm.map fun (w, L, samples, tab) => (w, L, c.sliceSol, tabFn tab, samples))
      bval c.obs c.inside
    pure (false, tot, pdeTermsJ t)
  | "nonstatio" =>
    let rows : List (Rat × List Rat) := c.inside.map fun r => (r.headD 0, r.drop 1)
    let (tot, t) := lossNonStatio
      (c.dyn.map fun (w, tab) => (w, fun (tx : Rat × List Rat) => tabFn tab (tx.1 :: tx.2)))
      (c.norm.map fun (w, L, samples, tab) =>
        (w, L, c.sliceSol, (fun (t : Rat) (s : List Rat) => tabFn tab (t :: s)), samples))
      bval c.obs
      (c.icPde.map fun (w, u0, uAt0) => (w, tabFn u0, tabFn uAt0))
      rows
    pure (false, tot, pdeTermsJ t)
  | k => throw s!"unknown kind {k}"

def jTerms (l : List (String × Rat)) : Json := Json.mkObj (l.map fun kv => (kv.1, jRat kv.2))

def modelAnswer (c : LossCase) : Except String (List (String × Json)) := do
  let (rej, tot, terms) ← c.run
  pure [("model_rejected", Json.bool rej), ("model_total", jRat tot), ("model_terms", jTerms terms)]

/-! ### C03 -/

def parseW03 (j : Json) : Except String Jinns.Holds.W03 := do
  match optField j "scalar" with
  | some s => pure { scalar := some (← rat s), vec := [] }
  | none => pure { scalar := none, vec := ← getRatList j "vec" }

def parseTermList (j : Json) : Except String (List (String × Rat)) := parseParams j

def strList (j : Json) : Except String (List String) := do
  let a ← j.getArr?
  a.toList.mapM (·.getStr?)

def parseObs03 (j : Json) : Except String Jinns.Holds.Obs03 := do
  let keys ← strList (← j.getObjVal? "keys")
  let total ← getRat j "total"
  let terms ← parseTermList (← j.getObjVal? "terms")
  let configured ← strList (← j.getObjVal? "configured")
  let tol ← getRat j "tol"
  let dyn ← (match optField j "dyn_obs" with
    | none => pure none
    | some d => do
      let halves ← (match optField d "halves" with
        | none => pure none
        | some h => do
          match ← ratList h with
          | [a, b] => pure (some (a, b))
          | _ => throw "halves: expected two values")
      pure (some ({ w := ← parseW03 (← d.getObjVal? "w"), residuals := ← getRatMat d "residuals",
                    scale := ← getRat d "scale", scaled := ← getRat d "scaled",
                    w2 := ← parseW03 (← d.getObjVal? "w2"), withW2 := ← getRat d "with_w2",
                    withSum := ← getRat d "with_sum", permuted := ← getRat d "permuted",
                    halves := halves } : Jinns.Holds.Dyn03)))
  pure { keys := keys, total := total, terms := terms, configured := configured, dyn := dyn, tol := tol }

/-- request: a loss case under "case", the observation of the implementation under "obs". -/
def handleC03 (j : Json) : Except String Json := do
  let c ← parseLossCase (← j.getObjVal? "case")
  let o ← parseObs03 (← j.getObjVal? "obs")
  let holds := Jinns.Holds.holdsC03 o
  pure <| Json.mkObj ((← modelAnswer c) ++ [("holds", Json.bool holds.isNone), ("clause", jOptStr holds)])

def opsC03 : List (String × (Json → Except String Json)) := [("c03", handleC03)]

end Jinns.Driver
