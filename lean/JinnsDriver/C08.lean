import JinnsDriver.Proto
import JinnsModel.Domain
import JinnsModel.HoldsC08
open Lean Jinns.Proto Jinns.Domain Jinns.Minibatch

namespace Jinns.Driver

/-- non-finite floats cross the protocol as the strings "nan", "inf", "-inf": the innermost object key
    under which the first one occurs, if any (scanned before any exact-rational parsing) -/
private partial def nonFiniteKey (j : Json) (key : String) : Option String :=
  match j with
  | .str s => if s == "nan" || s == "inf" || s == "-inf" then some key else none
  | .arr a => a.toList.findSome? (nonFiniteKey · key)
  | .obj kvs => kvs.toList.findSome? fun kv => nonFiniteKey kv.2 kv.1
  | _ => none

private def cube (j : Json) : Except String (List (List (List Rat))) := do
  let a ← j.getArr?
  a.toList.mapM ratMat

private def jCube (l : List (List (List Rat))) : Json := .arr (l.map jRatMat).toArray

private def optAt {β : Type} (j : Json) (k : String) (f : Json → Except String β) :
    Except String (Option β) := do
  match j.getObjVal? k with
  | .error _ => pure none
  | .ok v => if v.isNull then pure none else do let x ← f v; pure (some x)

private def optNat (j : Json) (k : String) : Except String (Option Nat) := optAt j k (·.getNat?)

/-- the reshuffled store named by a permutation of the rows of the initial store, and whether the
    PRNG contract (`choice(replace=False)` permutes) holds for it -/
private def applyPerm {β : Type} (store0 : List β) (perm : List Nat) : List β × Bool :=
  (perm.filterMap (store0[·]?), perm.isPerm (List.range store0.length))

private structure Acc where
  agree : Bool := true
  contract : Bool := true
  clause : Option String := none
  step : Option Nat := none

private def Acc.note (a : Acc) (k : Nat) (c : Option String) : Acc :=
  match a.clause, c with
  | none, some s => { a with clause := some s, step := some k }
  | _, _ => a

private def firstOf (l : List (Option String)) : Option String := Jinns.Holds.c08First l

private def result (err : Option (Err × String)) (modelStore : Json) (a : Acc) : Json :=
  Json.mkObj [
    ("error", match err with | some (e, _) => Json.str e.name | none => Json.null),
    ("stage", match err with | some (_, s) => Json.str s | none => Json.null),
    ("model_store", modelStore),
    ("agree", Json.bool a.agree), ("oracle_contract", Json.bool a.contract),
    ("holds", Json.bool a.clause.isNone), ("clause", jOptStr a.clause),
    ("step", match a.step with | some n => Json.num (n : Nat) | none => Json.null)]

/-- ODE generator.  request: {kind:"ode", method, nt, bt, tmin, tmax, stores:{times}|null,
    steps:[{times_perm, t}]} -/
private def handleOde (j : Json) : Except String Json := do
  let method ← getStr j "method"
  let nt ← getNat j "nt"
  let bt ← getNat j "bt"
  let tmin ← getRat j "tmin"
  let tmax ← getRat j "tmax"
  let implTimes ← optAt j "stores" (fun s => getRatList s "times")
  let steps ← getArr j "steps"
  let oracle := implTimes.getD (List.replicate nt tmin)
  let rar := (← optAt j "rar" (·.getBool?)).getD false
  let ntStart ← optNat j "nt_start"
  match mkTimesRar method tmin tmax nt rar ntStart oracle with
  | .error e =>
    -- a broken sampler contract is reported by Holds on the observed store, below
    let acc : Acc := {}
    let acc := match implTimes with
      | some ts => acc.note 0 (Jinns.Holds.holdsC08Ode tmin tmax nt bt ts [])
      | none => acc
    pure (result (some (e, "init")) Json.null acc)
  | .ok (mtimes, ntEff) =>
    let ms := Json.mkObj [("times", jRats mtimes)]
    match implTimes with
    | none => pure (result (match sliceGuard nt bt with | .error e => some (e, "batch") | .ok _ => none) ms {})
    | some times =>
      let mut acc : Acc := {}
      match sliceGuard nt bt with
      | .error e =>
        pure (result (some (e, "batch")) ms (acc.note 0 (Jinns.Holds.holdsC08Ode tmin tmax nt bt times [])))
      | .ok _ =>
        let mut m := Minibatch.init times bt
        let mut seen : List (List Rat) := []
        for s in steps do
          let perm ← getNatList s "times_perm"
          let t ← getRatList s "t"
          let (o, ok) := applyPerm times perm
          let r := Minibatch.next ntEff m o
          m := r.1
          if !ok then acc := { acc with contract := false }
          if !(r.2 == t) then acc := { acc with agree := false }
          seen := seen ++ [t]
        acc := acc.note 0 (Jinns.Holds.holdsC08Ode tmin tmax nt bt times seen)
        pure (result none ms acc)

private def freeColumn (rows : List (List (List Rat))) (c f : Nat) : List Rat :=
  rows.map fun row => (row.getD c []).getD f 0

private def readArgs (j : Json) : Except String StatioArgs := do
  let n ← getNat j "n"
  let nb ← optNat j "nb"
  let b ← getNat j "b"
  let bb ← optNat j "bb"
  let dim ← getNat j "dim"
  let mins ← getRatList j "mins"
  let maxs ← getRatList j "maxs"
  let method ← getStr j "method"
  pure { n := n, nb := nb, b := b, bb := bb, dim := dim, mins := mins, maxs := maxs, method := method }

private structure Stores where
  omega : List (List Rat)
  border2 : Option (List (List (List Rat)))
  border1 : Option (List Rat)
  times : Option (List Rat)

private def readStores (j : Json) : Except String (Option Stores) :=
  optAt j "stores" fun s => do
    let omega ← getRatMat s "omega"
    let b2 ← optAt s "border2" cube
    let b1 ← optAt s "border1" ratList
    let times ← optAt s "times" ratList
    pure { omega := omega, border2 := b2, border1 := b1, times := times }

/-- the sampler oracle: read off the implementation's stores when there are any, else a synthetic
    one that honours the contract (rejections do not depend on the sampled values) -/
private def oracleOf (a : StatioArgs) (st : Option Stores) : StatioOracle :=
  match st with
  | some s =>
    let u := match s.border2 with
      | some rows => [freeColumn rows 1 0, freeColumn rows 1 1, freeColumn rows 0 2, freeColumn rows 0 3]
      | none => []
    { omega := s.omega, border := u }
  | none =>
    let fn := (a.nb.getD 0) / 4
    { omega := List.replicate a.n a.mins,
      border := [List.replicate fn (a.mins.getD 1 0), List.replicate fn (a.mins.getD 1 0),
                 List.replicate fn (a.mins.getD 0 0), List.replicate fn (a.mins.getD 0 0)] }

private def jBorder : BorderStore → Json
  | .absent => Json.null
  | .ends x0 x1 => Json.mkObj [("border1", jRats [x0, x1])]
  | .facets rows => Json.mkObj [("border2", jCube rows)]

/-- does the observed border store equal the model's? -/
private def borderAgrees (m : BorderStore) (s : Stores) : Bool :=
  match m with
  | .absent => s.border2.isNone && s.border1.isNone
  | .ends x0 x1 => s.border1 == some [x0, x1] && s.border2.isNone
  | .facets rows => s.border2 == some rows && s.border1.isNone

/-- `Holds.C08` on the stores of a stationary generator -/
private def holdsStatioStores (a : StatioArgs) (s : Stores) : Option String :=
  Jinns.Holds.holdsC08StatioStores a.mins a.maxs a.n a.nb a.bb s.omega s.border2 s.border1

/-- the model state of the border cursor -/
private inductive BCur where
  | absent
  | fixed (x0 x1 : Rat)
  | cur (store0 : List (List (List Rat))) (m : MB (List (List Rat)))

/-- stationary generator.  request: {kind:"statio", method, n, nb, b, bb, dim, mins, maxs,
    stores:{omega, border2|null, border1|null}|null,
    steps:[{omega_perm, border_perm|null, x, dx|null}]} -/
private def handleStatio (j : Json) : Except String Json := do
  let a ← readArgs j
  let st ← readStores j
  let steps ← getArr j "steps"
  let rar := (← optAt j "rar" (·.getBool?)).getD false
  let nStart ← optNat j "n_start"
  match mkStatioRar a rar nStart (oracleOf a st) with
  | .error e =>
    let acc : Acc := {}
    let acc := match st with
      | some s => acc.note 0 (holdsStatioStores a s)
      | none => acc
    pure (result (some (e, "init")) Json.null acc)
  | .ok (g, nEff) =>
    let ms := Json.mkObj [("omega", jRatMat g.omega), ("border", jBorder g.border)]
    let guard := sliceGuard a.n a.b
    match st with
    | none => pure (result (match guard with | .error e => some (e, "batch") | .ok _ => none) ms {})
    | some s =>
      let mut acc : Acc := {}
      if !(borderAgrees g.border s) then acc := { acc with agree := false }
      if a.method == "uniform" && !(g.omega == s.omega) then acc := { acc with agree := false }
      match guard with
      | .error e => pure (result (some (e, "batch")) ms (acc.note 0 (holdsStatioStores a s)))
      | .ok _ =>
        let mut seen : List (List (List Rat) × Option (List (List (List Rat)))) := []
        let mut m := Minibatch.init s.omega a.b
        let mut bc : BCur := match g.border, s.border2 with
          | .facets _, some rows => .cur rows (Minibatch.init rows (g.bb.getD 0))
          | .ends x0 x1, _ => .fixed x0 x1
          | _, _ => .absent
        let fn := (g.nb.getD 0) / (2 * a.dim)
        let mut k := 0
        for sj in steps do
          let perm ← getNatList sj "omega_perm"
          let x ← getRatMat sj "x"
          let dx ← optAt sj "dx" cube
          let (o, ok) := applyPerm s.omega perm
          let r := Minibatch.next nEff m o
          m := r.1
          if !ok then acc := { acc with contract := false }
          if !(r.2 == x) then acc := { acc with agree := false }
          seen := seen ++ [(x, dx)]
          match bc with
          | .absent => if dx.isSome then acc := { acc with agree := false }
          | .fixed x0 x1 => if !(dx == some (borderBatch1d x0 x1)) then acc := { acc with agree := false }
          | .cur rows0 bm =>
            let bperm ← getNatList sj "border_perm"
            let (bo, bok) := applyPerm rows0 bperm
            let br := Minibatch.next fn bm bo
            bc := .cur rows0 br.1
            if !bok then acc := { acc with contract := false }
            if !(some br.2 == dx) then acc := { acc with agree := false }
          k := k + 1
        acc := acc.note 0 (Jinns.Holds.holdsC08Statio a.mins a.maxs a.n a.nb a.b a.bb s.omega s.border2
          s.border1 seen)
        pure (result none ms acc)

/-- non-stationary generator.  request: statio fields + {cart, nt, bt, tmin, tmax,
    stores:{omega, border2|null, border1|null, times},
    steps:[{omega_perm, border_perm|null, times_perm, tx, tdx|null}]} -/
private def handleNonStatio (j : Json) : Except String Json := do
  let a ← readArgs j
  let cart ← getBool j "cart"
  let nt ← getNat j "nt"
  let bt ← getNat j "bt"
  let tmin ← getRat j "tmin"
  let tmax ← getRat j "tmax"
  let st ← readStores j
  let steps ← getArr j "steps"
  let otimes := match st with
    | some s => s.times.getD []
    | none => List.replicate nt tmin
  let holdsStores (s : Stores) : Option String :=
    Jinns.Holds.holdsC08NonStatio a.mins a.maxs tmin tmax a.n a.nb nt a.b a.bb bt cart
      s.omega s.border2 s.border1 (s.times.getD []) []
  let rar := (← optAt j "rar" (·.getBool?)).getD false
  let nStart ← optNat j "n_start"
  let ntStart ← optNat j "nt_start"
  match mkNonStatioRar a cart bt nt tmin tmax rar nStart ntStart (oracleOf a st) otimes with
  | .error e =>
    let acc : Acc := {}
    let acc := match st with
      | some s => acc.note 0 (holdsStores s)
      | none => acc
    pure (result (some (e, "init")) Json.null acc)
  | .ok (g, nEff, ntEff) =>
    let ms := Json.mkObj [("omega", jRatMat g.statio.omega), ("border", jBorder g.statio.border),
      ("times", jRats g.times)]
    let guard : Except Err Unit := do sliceGuard a.n a.b; sliceGuard nt bt
    match st with
    | none => pure (result (match guard with | .error e => some (e, "batch") | .ok _ => none) ms {})
    | some s =>
      let times := s.times.getD []
      let mut acc : Acc := {}
      if !(borderAgrees g.statio.border s) then acc := { acc with agree := false }
      if a.method == "uniform" && !(g.statio.omega == s.omega && g.times == times) then
        acc := { acc with agree := false }
      match guard with
      | .error e => pure (result (some (e, "batch")) ms (acc.note 0 (holdsStores s)))
      | .ok _ =>
        let mut seen : List (List (List Rat) × Option (List (List (List Rat)))) := []
        let border0 : Jinns.Cartesian.Border Rat := match g.statio.border, s.border2 with
          | .facets _, some rows => .facets (Minibatch.init rows (g.statio.bb.getD 0))
          | .ends x0 x1, _ => .fixed1d [x0, x1]
          | _, _ => .absent
        let rows0 := s.border2.getD []
        let mut ns : Jinns.Cartesian.NS Rat :=
          { omega := Minibatch.init s.omega a.b, border := border0, times := Minibatch.init times bt,
            cart := cart, dim := a.dim }
        let fn := (g.statio.nb.getD 0) / (2 * a.dim)
        let mut k := 0
        for sj in steps do
          let operm ← getNatList sj "omega_perm"
          let tperm ← getNatList sj "times_perm"
          let bperm ← optAt sj "border_perm" natList
          let tx ← getRatMat sj "tx"
          let tdx ← optAt sj "tdx" cube
          let (oo, ok1) := applyPerm s.omega operm
          let (ot, ok2) := applyPerm times tperm
          let (ob, ok3) := match bperm with
            | some p => applyPerm rows0 p
            | none => ([], true)
          let r := Jinns.Cartesian.getBatch nEff fn ntEff ns (oo, ob, ot)
          ns := r.1
          if !(ok1 && ok2 && ok3) then acc := { acc with contract := false }
          if !(r.2.1 == tx && r.2.2 == tdx) then acc := { acc with agree := false }
          seen := seen ++ [(tx, tdx)]
          k := k + 1
        acc := acc.note 0 (Jinns.Holds.holdsC08NonStatio a.mins a.maxs tmin tmax a.n a.nb nt a.b a.bb bt cart
          s.omega s.border2 s.border1 times seen)
        pure (result none ms acc)

private def arrayName08 (key : String) : String :=
  match key with
  | "times" => "time-store" | "omega" => "omega-store" | "border1" => "border-store"
  | "border2" => "border-store" | "t" => "time-batch" | "x" => "inside-batch" | "dx" => "border-batch"
  | "tx" => "interior-batch" | "tdx" => "border-batch" | k => k

def handleC08 (j : Json) : Except String Json := do
  let kind ← getStr j "kind"
  if let some key := nonFiniteKey j "" then
    let acc : Acc := { clause := Jinns.Holds.c08NotFinite (arrayName08 key) }
    return (result none Json.null acc).mergeObj (Json.mkObj [("nonfinite", Json.bool true)])
  if kind == "ode" then handleOde j
  else if kind == "statio" then handleStatio j
  else if kind == "nonstatio" then handleNonStatio j
  else throw s!"unknown kind {kind}"

def opsC08 : List (String × (Json → Except String Json)) := [("c08", handleC08)]

end Jinns.Driver
