/- JSON ⇄ `Poly` : a polynomial is `[[coef "p/q", [e_t, e_x0, e_x1, …]], …]` (as `harness/polynet.py: P.to_json`,
   whose variable order the harness chooses to be (t, x_0, …) — or (x_0, …) shifted by the harness for
   stationary problems: the driver never guesses, requests say which variable is which). -/
import JinnsDriver.Proto
import JinnsModel.Poly
open Lean Jinns.Proto

namespace Jinns.Proto

def poly (j : Json) : Except String Jinns.Calc.Poly := do
  let a ← j.getArr?
  a.toList.mapM (fun m => do
    let pr ← m.getArr?
    match pr.toList with
    | [c, e] => do
      let c ← rat c
      let e ← natList e
      pure (c, e)
    | _ => throw "bad monomial")

def polyList (j : Json) : Except String (List Jinns.Calc.Poly) := do
  let a ← j.getArr?
  a.toList.mapM poly

def getPoly (j : Json) (k : String) : Except String Jinns.Calc.Poly := do poly (← j.getObjVal? k)
def getPolyList (j : Json) (k : String) : Except String (List Jinns.Calc.Poly) := do polyList (← j.getObjVal? k)

def jPoly (p : Jinns.Calc.Poly) : Json :=
  .arr ((Jinns.Calc.Poly.normalize p).map (fun m => Json.arr #[jRat m.1, jNats m.2])).toArray

end Jinns.Proto
