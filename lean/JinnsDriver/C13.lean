import JinnsDriver.Proto
import JinnsDriver.C12
import JinnsModel.SystemLoss
import JinnsModel.HoldsC13
open Lean Jinns.Proto

namespace Jinns.Driver
open Jinns.ParamBatch Jinns.SystemLoss Jinns.Holds Jinns.Driver.SysProto

def outcomeTerms (o : Outcome) : Option Terms :=
  match o with
  | .ok (t, _) => some t
  | .error _ => none

/-- request: `{params, readers, sys, observed, singles: [outcome per unknown], plain: outcome | null,
    plain_single: single-object | null}`.
    Answers with the model's outcome for the system, the model's outcome for every unknown's internal
    single loss and for the plain loss, `Holds.C13` evaluated on the observations, and the agreement
    flags model = implementation. -/
def handleC13 (j : Json) : Except String Json := do
  let p ← parseKV (← j.getObjVal? "params")
  let readers ← parseKV (← j.getObjVal? "readers")
  let S ← parseSys readers (← j.getObjVal? "sys")
  let o ← parseOutcome (← j.getObjVal? "observed")
  let singles ← (← getArr j "singles").mapM parseOutcome
  let plain ← optM j "plain" parseOutcome
  let plainSingle ← optM j "plain_single" (parseSingle readers)
  let model : Outcome := sysEvaluate p S
  -- the unknowns' single losses: model vs real single losses
  let modelSingles : List Outcome := S.unknowns.map fun ku =>
    (evalSingle p (unitSingle S.paramRows ku.2)).map fun t => (t, t.total)
  let singlesAgree := modelSingles.length == singles.length &&
    (modelSingles.zip singles).all fun ab => sameOutcome ab.1 ab.2
  let modelPlain : Option Outcome := plainSingle.map fun s => (evalSingle p s).map fun t => (t, t.total)
  let plainAgree := match modelPlain, plain with
    | some a, some b => sameOutcome a b
    | none, none => true
    | _, _ => false
  let singleTerms := singles.filterMap outcomeTerms
  let holds :=
    if weightsValid S && wellFormedSys p S && singleTerms.length != singles.length then
      some "single-loss-rejected-on-valid-data"
    else holdsC13 p S { sys := o, singles := singleTerms, plain := plain }
  pure <| Json.mkObj [
    ("model", jOutcome model), ("weights_valid", Json.bool (weightsValid S)),
    ("well_formed", Json.bool (wellFormedSys p S)),
    ("model_singles", Json.arr (modelSingles.map jOutcome).toArray),
    ("model_plain", match modelPlain with | some m => jOutcome m | none => Json.null),
    ("agree", Json.bool (sameOutcome model o)), ("singles_agree", Json.bool singlesAgree),
    ("plain_agree", Json.bool plainAgree),
    ("holds", Json.bool holds.isNone), ("clause", jOptStr holds)]

def opsC13 : List (String × (Json → Except String Json)) := [("c13", handleC13)]

end Jinns.Driver
