import JinnsDriver.Proto
import JinnsModel.DerivKeys
import JinnsModel.HoldsC06
open Lean Jinns.Proto

namespace Jinns.Driver
open Jinns.DerivKeys

def optNatList (j : Json) : Except String (List (Option Nat)) := do
  let l ← intList j
  pure (l.map (fun i => if i < 0 then none else some i.toNat))

def boolList (j : Json) : Except String (List Bool) := do
  let a ← j.getArr?
  a.toList.mapM (·.getBool?)

def ratCube (j : Json) : Except String (List (List (List Rat))) := do
  let a ← j.getArr?
  a.toList.mapM ratMat

/-- `{"k":"d"} | {"k":"s","s":"both"} | {"k":"t","m":[bool]}` -/
def parseSpec (j : Json) : Except String Jinns.Holds.Spec06 := do
  let k ← getStr j "k"
  if k == "d" then pure .dflt
  else if k == "s" then pure (.str (← getStr j "s"))
  else if k == "t" then pure (.tree (← boolList (← j.getObjVal? "m")))
  else throw s!"bad spec kind {k}"

def toModelSpec : Jinns.Holds.Spec06 → Spec
  | .dflt => .dflt
  | .str s => .str s
  | .tree m => .tree m

def parseObs (j : Json) : Except String Jinns.Holds.Obs06 := do
  let specs ← (← getArr j "specs").mapM parseSpec
  let error := match j.getObjVal? "error" with
    | .ok (.str s) => some s
    | _ => none
  if error.isSome then
    pure { specs := specs, error := error, masks := [], termVals := [], totalVal := 0,
           termGrads := [], totalGrad := [] }
  else
    let masks ← (← getArr j "masks").mapM boolList
    let termVals ← getRatList j "term_vals"
    let totalVal ← getRat j "total_val"
    let termGrads ← ratCube (← j.getObjVal? "term_grads")
    let totalGrad ← getRatMat j "total_grad"
    pure { specs := specs, error := none, masks := masks, termVals := termVals, totalVal := totalVal,
           termGrads := termGrads, totalGrad := totalGrad }

def jBoolMat (l : List (List Bool)) : Json := .arr (l.map jBools).toArray
def jRatCube (l : List (List (List Rat))) : Json := .arr (l.map jRatMat).toArray

/-- request: {gmaps, n_view, dims, base_vals, base_total, base_grads, returned, ref_grads?, obs:[…]}.
    Answers `Holds.C06` on the observations, and whether the model's prediction (masks, values,
    gradients, rejection) equals every observation; the prediction for the first differing one. -/
def handleC06 (j : Json) : Except String Json := do
  let gmaps ← (← getArr j "gmaps").mapM optNatList
  let nView ← getNatList j "n_view"
  let dims ← getNatList j "dims"
  let baseVals ← getRatList j "base_vals"
  let baseTotal ← getRat j "base_total"
  let baseGrads ← ratCube (← j.getObjVal? "base_grads")
  let returned ← (← getArr j "returned").mapM natList
  let refGrads ← match j.getObjVal? "ref_grads" with
    | .ok Json.null => pure none
    | .ok v => do pure (some (← ratCube v))
    | .error _ => pure none
  let s : Jinns.Holds.Setup06 :=
    { gmaps := gmaps, nView := nView, dims := dims, baseVals := baseVals,
      baseTotal := baseTotal, baseGrads := baseGrads, returned := returned, refGrads := refGrads }
  if gmaps.length != baseVals.length || nView.length != baseVals.length
      || baseGrads.length != baseVals.length || gmaps.any (·.length != dims.length) then
    throw "ill-formed set-up (lengths)"
  let obs ← (← getArr j "obs").mapM parseObs
  if obs.any (fun o => o.specs.length != baseVals.length) then
    throw "ill-formed observation (one specification per term expected)"
  -- the property on the implementation's observations
  let setupClause := Jinns.Holds.holdsSetup s
  let scan := Jinns.Holds.holdsScan s 0 obs
  let holds := Jinns.Holds.holdsC06 s obs
  let badIdx : Json := match setupClause, scan with
    | some _, _ => Json.null
    | none, some (i, _) => Json.num (i : Nat)
    | none, none => Json.null
  -- the model (`DerivKeys.predict`) against the observations
  let lay : Layout := { gmaps := gmaps, nView := nView, dims := dims, baseVals := baseVals,
                        baseGrads := baseGrads, returned := returned }
  let rec go (i : Nat) (os : List Jinns.Holds.Obs06) : Option (Nat × Json) :=
    match os with
    | [] => none
    | o :: rest =>
      let p := predict lay (o.specs.map toModelSpec)
      let same : Bool := match p, o.error with
        | none, some e => e == "value_error"
        | none, none => false
        | some _, some _ => false
        | some p, none =>
          p.masks == o.masks && p.termVals == o.termVals && p.totalVal == o.totalVal
            && p.termGrads == o.termGrads && p.totalGrad == o.totalGrad
      if same then go (i + 1) rest
      else
        let pj : Json := match p with
          | none => Json.mkObj [("rejected", Json.bool true)]
          | some p =>
            Json.mkObj [("rejected", Json.bool false), ("masks", jBoolMat p.masks),
              ("term_vals", jRats p.termVals), ("total_val", jRat p.totalVal),
              ("term_grads", jRatCube p.termGrads), ("total_grad", jRatMat p.totalGrad)]
        some (i, pj)
  let dis := go 0 obs
  pure <| Json.mkObj [
    ("holds", Json.bool holds.isNone), ("clause", jOptStr holds), ("bad_obs", badIdx),
    ("agree", Json.bool dis.isNone),
    ("disagree_obs", match dis with | some (i, _) => Json.num (i : Nat) | none => Json.null),
    ("model", match dis with | some (_, p) => p | none => Json.null),
    ("n_obs", Json.num (obs.length : Nat))]

def opsC06 : List (String × (Json → Except String Json)) := [("c06", handleC06)]

end Jinns.Driver
