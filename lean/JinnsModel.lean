import JinnsModel.Minibatch
import JinnsModel.HoldsC09
