import JinnsModel.HoldsC09
import JinnsModel.Minibatch
