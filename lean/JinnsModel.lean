import JinnsModel.FieldOps
import JinnsModel.HoldsC09
import JinnsModel.Minibatch
import JinnsModel.Poly
