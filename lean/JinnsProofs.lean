import JinnsProofs.C02
import JinnsProofs.C06
import JinnsProofs.C07
import JinnsProofs.C09
import JinnsProofs.C09Holds
import JinnsProofs.C14
import JinnsProofs.SolveLemmas
