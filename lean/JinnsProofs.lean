import JinnsProofs.C09
