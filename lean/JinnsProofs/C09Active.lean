/-
C09, generators configured for residual-adaptive refinement (`n_eff < n`).

The store has `n` pre-allocated slots of which only the first `nEff` (of the *initial* store) are
active (non-zero sampling probability).  The cursor of `JinnsModel/Minibatch.lean` is then run with
epoch size `nEff` (`Minibatch.next nEff …`) while the `dynamic_slice` still clamps against the whole
store.  The PRNG (`jax.random.choice(replace=False, p)`) is an oracle whose contract is: a
permutation of the store that keeps the active points in the first `nEff` positions
(`oracleOkA`, decidable; the driver evaluates the same two `isPerm` tests on the observed stores).

Main theorem: `holdsC09Active_model` — the active-set variant of the trace predicate
(`Holds.holdsC09Active`, the one the correspondence check evaluates on the implementation's traces of
RAR-configured generators) is satisfied by every trace of the model, for every store of distinct
points, every `0 < b ≤ nEff ≤ n`, every oracle sequence honouring the contract, every history length.
Corollaries on the structure of one epoch (`epoch_structureA`, `active_served_exactly_once_of_dvd`,
`active_covered`) and on whole histories (`inactive_never_served_of_dvd`).
-/
import JinnsProofs.C09Holds

namespace Jinns.Minibatch
open Jinns.Holds

/-! ### the PRNG contract of a RAR-configured store -/

/-- Contract of one reshuffle oracle `o` for the store `store0` with `nEff` active points:
    `o` is a permutation of the store, and its first `nEff` slots are a permutation of the active
    points (equivalently: the zero-probability slots come last). -/
def oracleOkA (store0 : List Nat) (nEff : Nat) (o : List Nat) : Bool :=
  o.isPerm store0 && (o.take nEff).isPerm (store0.take nEff)

theorem oracleOkA_iff (store0 : List Nat) (nEff : Nat) (o : List Nat) :
    oracleOkA store0 nEff o = true ↔
      o.Perm store0 ∧ (o.take nEff).Perm (store0.take nEff) := by
  simp [oracleOkA, List.isPerm_iff]

/-- The contract along a history, required **only of the oracles that are used**, i.e. those of the
    requests that reshuffle (the oracle of any other request is ignored by `next`). -/
def oraclesOkA (store0 : List Nat) (nEff : Nat) : MB Nat → List (List Nat) → Bool
  | _, [] => true
  | m, o :: os =>
    (!resets nEff m || oracleOkA store0 nEff o) && oraclesOkA store0 nEff (next nEff m o).1 os

theorem oraclesOkA_of_all (store0 : List Nat) (nEff : Nat) (os : List (List Nat))
    (hos : ∀ o ∈ os, oracleOkA store0 nEff o = true) (m : MB Nat) :
    oraclesOkA store0 nEff m os = true := by
  induction os generalizing m with
  | nil => rfl
  | cons o os ih =>
    simp only [oraclesOkA, Bool.and_eq_true, Bool.or_eq_true]
    exact ⟨Or.inr (hos o List.mem_cons_self),
      ih (fun o' ho' => hos o' (List.mem_cons_of_mem _ ho')) _⟩

/-! ### helper lemmas -/

theorem resetsA_iff_last {nEff b : Nat} (hb : 0 < b) {m : MB Nat} {k : Nat}
    (hmb : m.b = b) (hk : m.idx = k * b) :
    resets nEff m = true ↔ ¬ (k + 1 < epochLen nEff b) := by
  simp only [resets, decide_eq_true_eq, hmb, hk, succ_lt_epochLen hb]
  have : (k + 1) * b = k * b + b := by rw [Nat.add_mul]; omega
  omega

/-- The first request reshuffles whatever the epoch size (int32-sized store). -/
theorem first_request_resetsA (store0 : List Nat) (nEff b : Nat)
    (hsz : nEff + 2 ≤ 2147483648) : resets nEff (init store0 b) = true := by
  unfold resets init initIdx
  simp only [decide_eq_true_eq]
  omega

/-- Position `p` of the store is served by the (clamped) slice starting at `i` as soon as it lies in
    the window `[start, start + b)` with `start = min i (len - b)`. -/
theorem getElem_mem_slice (s : List Nat) (i b p : Nat) (hp : p < s.length)
    (h1 : min i (s.length - b) ≤ p) (h2 : p < min i (s.length - b) + b) :
    s[p] ∈ slice s i b := by
  unfold slice
  rw [List.mem_iff_getElem]
  refine ⟨p - min i (s.length - b), ?_, ?_⟩
  · simp only [List.length_take, List.length_drop]; omega
  · simp only [List.getElem_take, List.getElem_drop]; congr 1; omega

theorem mem_take_mono {s : List Nat} {a c : Nat} (h : a ≤ c) {x : Nat} (hx : x ∈ s.take a) :
    x ∈ s.take c := by
  have e : s.take a = (s.take c).take a := by
    rw [List.take_take, Nat.min_eq_left h]
  rw [e] at hx
  exact (List.take_sublist _ _).subset hx

theorem exists_getElem_of_mem_take {s : List Nat} {c x : Nat} (hx : x ∈ s.take c) :
    ∃ p, ∃ hp : p < s.length, p < c ∧ s[p] = x := by
  obtain ⟨p, hp, rfl⟩ := List.getElem_of_mem hx
  have hp' : p < c ∧ p < s.length := by simp only [List.length_take] at hp; omega
  exact ⟨p, hp'.2, hp'.1, by simp⟩

theorem getElem_mem_take {s : List Nat} {c p : Nat} (hp : p < s.length) (hc : p < c) :
    s[p] ∈ s.take c := by
  rw [List.mem_iff_getElem]
  exact ⟨p, by simp only [List.length_take]; omega, by simp⟩

/-! ### the invariant relating the model state and the state of the `holdsC09Active` scan -/

/-- Generalisation of `ScanInv` (C09Holds.lean) from epoch size `store0.length` to `nEff`: the store
    is a permutation of the initial one **and** its first `nEff` slots hold the active points; the
    cursor is `k·b` with `k < ⌈nEff/b⌉`; the scan has recorded the first `(k+1)·b` slots as served,
    or (last batch of the epoch) a set that contains every active point. -/
def ScanInvA (store0 : List Nat) (nEff b : Nat) (m : MB Nat) (st : List Nat × Bool) : Prop :=
  (st.2 = true ∧ m = init store0 b) ∨
  (st.2 = false ∧ m.b = b ∧ m.store.Perm store0 ∧
    (m.store.take nEff).Perm (store0.take nEff) ∧
    ∃ k, k < epochLen nEff b ∧ m.idx = k * b ∧
      (k + 1 < epochLen nEff b → st.1 = m.store.take ((k + 1) * b)) ∧
      (¬ (k + 1 < epochLen nEff b) → ∀ x ∈ store0.take nEff, x ∈ st.1))

/-- the scan state right after a reshuffle onto `o` -/
theorem scanInvA_after_reset {store0 : List Nat} {nEff b : Nat} (hb : 0 < b) (hbn : b ≤ nEff)
    (hnn : nEff ≤ store0.length) (m : MB Nat) (hmb : m.b = b) (o : List Nat)
    (ho : o.Perm store0) (hoa : (o.take nEff).Perm (store0.take nEff)) :
    ScanInvA store0 nEff b { m with store := o, idx := 0 } (slice o 0 b, false) := by
  have hol : o.length = store0.length := ho.length_eq
  have hsl : slice o 0 b = o.take b := by
    rw [slice_eq_of_le o 0 b (by omega)]; simp
  refine Or.inr ⟨rfl, hmb, ho, hoa, 0, epochLen_pos hb hbn, by simp, ?_, ?_⟩
  · intro _
    simp only [Nat.zero_add, Nat.one_mul]
    exact hsl
  · intro hlast x hx
    -- a single batch per epoch: nEff = b, the batch is the whole active prefix
    have hge : nEff ≤ b := by
      have h1 : ¬ ((0 + 1) * b < nEff) := fun h => hlast ((succ_lt_epochLen hb).2 h)
      omega
    simp only
    rw [hsl]
    exact mem_take_mono hge ((hoa.mem_iff).2 hx)

/-- One request of the model is accepted by one step of the `holdsC09Active` scan, and the invariant
    is re-established.  The oracle contract is needed only if the request reshuffles. -/
theorem step_okA {store0 : List Nat} {nEff b : Nat} (hnd : store0.Nodup) (hb : 0 < b)
    (hbn : b ≤ nEff) (hnn : nEff ≤ store0.length) (hsz : store0.length + 2 ≤ 2147483648)
    (m : MB Nat) (st : List Nat × Bool) (hinv : ScanInvA store0 nEff b m st)
    (o : List Nat) (ho : resets nEff m = true → oracleOkA store0 nEff o = true) :
    ∃ st', c09StepA store0 (store0.take nEff) b st
        { reset := resets nEff m, store := (next nEff m o).1.store,
          batch := (next nEff m o).2 } = .ok st' ∧ st'.2 = false ∧
      ScanInvA store0 nEff b (next nEff m o).1 st' := by
  have hal : (store0.take nEff).length = nEff := by simp only [List.length_take]; omega
  rcases hinv with ⟨hfirst, rfl⟩ | ⟨hfirst, hmb, hperm, haperm, k, hk, hidx, hpre, hall⟩
  · -- first request: always a reshuffle
    have hr := first_request_resetsA store0 nEff b (by omega)
    obtain ⟨hop, hoa⟩ := (oracleOkA_iff _ _ _).1 (ho hr)
    have hol : o.length = store0.length := hop.length_eq
    rw [next_of_resets _ _ _ hr]
    obtain ⟨served, first⟩ := st
    simp only at hfirst
    subst hfirst
    refine ⟨(slice o 0 b, false), ?_, rfl, scanInvA_after_reset hb hbn hnn _ rfl o hop hoa⟩
    have h1 : o.isPerm store0 = true := List.isPerm_iff.2 hop
    have h2 : (slice o 0 b).length = b := slice_length _ _ _ (by omega)
    have h3 : subset (slice o 0 b) o = true :=
      (subset_iff _ _).2 (fun x hx => (slice_sublist o 0 b).subset hx)
    simp [c09StepA, init, h1, h2, h3]
  · subst hmb
    have hmb : m.b = m.b := rfl
    have hml : m.store.length = store0.length := hperm.length_eq
    have hmnd : m.store.Nodup := (hperm.nodup_iff).2 hnd
    obtain ⟨served, first⟩ := st
    simp only at hfirst hpre hall
    subst hfirst
    by_cases hr : resets nEff m = true
    · -- reshuffle: all active points must have been served
      have hlast : ¬ (k + 1 < epochLen nEff m.b) := (resetsA_iff_last hb hmb hidx).1 hr
      obtain ⟨hop, hoa⟩ := (oracleOkA_iff _ _ _).1 (ho hr)
      have hol : o.length = store0.length := hop.length_eq
      rw [next_of_resets _ _ _ hr]
      refine ⟨(slice o 0 m.b, false), ?_, rfl, scanInvA_after_reset hb hbn hnn m rfl o hop hoa⟩
      have h1 : o.isPerm store0 = true := List.isPerm_iff.2 hop
      have h2 : (slice o 0 m.b).length = m.b := slice_length _ _ _ (by omega)
      have h3 : subset (slice o 0 m.b) o = true :=
        (subset_iff _ _).2 (fun x hx => (slice_sublist o 0 m.b).subset hx)
      have h4 : subset (store0.take nEff) served = true := (subset_iff _ _).2 (hall hlast)
      simp [c09StepA, hr, h1, h2, h3, h4]
    · have hr' : resets nEff m = false := by simpa using hr
      have hlt : k + 1 < epochLen nEff m.b := by
        by_cases hc : k + 1 < epochLen nEff m.b
        · exact hc
        · exact absurd ((resetsA_iff_last hb hmb hidx).2 hc) hr
      have hlt' : (k + 1) * m.b < nEff := (succ_lt_epochLen hb).1 hlt
      have hserved : served = m.store.take ((k + 1) * m.b) := hpre hlt
      rw [next_of_not_resets _ _ _ hr']
      have hidx' : m.idx + m.b = (k + 1) * m.b := by rw [hidx, Nat.add_mul, Nat.one_mul]
      have h1 : m.store.isPerm store0 = true := List.isPerm_iff.2 hperm
      have h2 : (slice m.store (m.idx + m.b) m.b).length = m.b := slice_length _ _ _ (by omega)
      have h3 : subset (slice m.store (m.idx + m.b) m.b) m.store = true :=
        (subset_iff _ _).2 (fun x hx => (slice_sublist _ _ _).subset hx)
      -- not all active points served yet: the one at position (k+1)·b < nEff is missing
      have h4 : subset (store0.take nEff) served = false := by
        apply subset_false_of (store0.take nEff) served (m.store[(k + 1) * m.b]'(by omega))
        · exact (haperm.mem_iff).1 (getElem_mem_take (by omega) hlt')
        · rw [hserved]; exact getElem_not_mem_take hmnd _ (by omega)
      -- when b ∣ nEff the new batch is disjoint from what has been served
      have h5 : nEff % m.b = 0 → disjoint (slice m.store (m.idx + m.b) m.b) served = true := by
        intro hdv
        have hd : m.b ∣ nEff := Nat.dvd_of_mod_eq_zero hdv
        obtain ⟨c, hc⟩ := hd
        have hfit : (k + 1) * m.b + m.b ≤ nEff := by
          rw [hc] at hlt' ⊢
          have hkc : k + 1 < c := by
            rw [Nat.mul_comm m.b c] at hlt'
            exact Nat.lt_of_mul_lt_mul_right hlt'
          have : (k + 2) * m.b ≤ c * m.b := Nat.mul_le_mul_right m.b (by omega)
          rw [Nat.mul_comm m.b c]
          have e : (k + 2) * m.b = (k + 1) * m.b + m.b := by
            rw [show k + 2 = (k + 1) + 1 from rfl, Nat.add_mul, Nat.one_mul]
          omega
        rw [disjoint_iff, hserved, hidx', slice_eq_of_le _ _ _ (by omega)]
        intro x hx
        exact drop_disjoint_take hmnd _ x ((List.take_sublist _ _).subset hx)
      have hmin : min nEff store0.length = nEff := by omega
      refine ⟨(served ++ slice m.store (m.idx + m.b) m.b, false), ?_, rfl, ?_⟩
      · simp only [c09StepA]
        simp [hr', h1, h2, h3, h4, hmin]
        exact h5
      · refine Or.inr ⟨rfl, hmb, hperm, haperm, k + 1, hlt, hidx', ?_, ?_⟩
        · intro hlt2
          have hlt2' : (k + 1 + 1) * m.b < nEff := (succ_lt_epochLen hb).1 hlt2
          have e : (k + 1 + 1) * m.b = (k + 1) * m.b + m.b := by
            rw [Nat.add_mul (k + 1) 1 m.b, Nat.one_mul]
          simp only
          rw [hserved, hidx', slice_eq_of_le _ _ _ (by omega), e, List.take_add]
        · intro hlast2 x hx
          simp only
          have hxs : x ∈ m.store.take nEff := (haperm.mem_iff).2 hx
          obtain ⟨p, hp, hpn, rfl⟩ := exists_getElem_of_mem_take hxs
          by_cases hpp : p < (k + 1) * m.b
          · apply List.mem_append_left
            rw [hserved]
            exact getElem_mem_take hp hpp
          · apply List.mem_append_right
            have hge : nEff ≤ (k + 1) * m.b + m.b := by
              have h1 : ¬ ((k + 1 + 1) * m.b < nEff) :=
                fun h => hlast2 ((succ_lt_epochLen hb).2 h)
              have e : (k + 1 + 1) * m.b = (k + 1) * m.b + m.b := by
                rw [Nat.add_mul (k + 1) 1 m.b, Nat.one_mul]
              omega
            rw [hidx']
            exact getElem_mem_slice _ _ _ _ hp (by omega) (by omega)

/-! ### the main theorem -/

/-- `holdsC09Active` on the model trace, from any state related to the scan state by the invariant. -/
theorem scanA_model {store0 : List Nat} {nEff b : Nat} (hnd : store0.Nodup) (hb : 0 < b)
    (hbn : b ≤ nEff) (hnn : nEff ≤ store0.length) (hsz : store0.length + 2 ≤ 2147483648) :
    ∀ (os : List (List Nat)) (m : MB Nat) (st : List Nat × Bool),
      ScanInvA store0 nEff b m st → oraclesOkA store0 nEff m os = true →
      c09ScanA store0 (store0.take nEff) b st (modelTrace nEff m os) = none := by
  intro os
  induction os with
  | nil => intro m st _ _; simp [modelTrace, c09ScanA]
  | cons o os ih =>
    intro m st hinv hos
    simp only [oraclesOkA, Bool.and_eq_true, Bool.or_eq_true, Bool.not_eq_true'] at hos
    have ho : resets nEff m = true → oracleOkA store0 nEff o = true := by
      intro hr
      rcases hos.1 with h | h
      · rw [hr] at h; exact absurd h (by simp)
      · exact h
    obtain ⟨st', hstep, _, hinv'⟩ := step_okA hnd hb hbn hnn hsz m st hinv o ho
    simp only [modelTrace, c09ScanA, hstep]
    exact ih _ _ hinv' hos.2

/-- **`Holds.holdsC09Active` is satisfied by every model trace of a RAR-configured store**, the PRNG
    contract being required only of the oracles that are actually used (reshuffling requests). -/
theorem holdsC09Active_model_of_used {store0 : List Nat} {nEff b : Nat} (hnd : store0.Nodup)
    (hb : 0 < b) (hbn : b ≤ nEff) (hnn : nEff ≤ store0.length)
    (hsz : store0.length + 2 ≤ 2147483648)
    (os : List (List Nat)) (hos : oraclesOkA store0 nEff (init store0 b) os = true) :
    holdsC09Active store0 (store0.take nEff) b (modelTrace nEff (init store0 b) os) = none :=
  scanA_model hnd hb hbn hnn hsz os (init store0 b) ([], true) (Or.inl ⟨rfl, rfl⟩) hos

/-- **`Holds.holdsC09Active` is satisfied by every model trace of a RAR-configured store**: all stores
    of distinct points, all active prefix sizes `0 < b ≤ nEff ≤ n`, all oracle sequences honouring
    the PRNG contract `oracleOkA` (permutation of the store keeping the `nEff` active points in the
    first `nEff` positions), all history lengths; the model runs with epoch size `nEff`, the active
    set is the first `nEff` points of the initial store. -/
theorem holdsC09Active_model {store0 : List Nat} {nEff b : Nat} (hnd : store0.Nodup)
    (hb : 0 < b) (hbn : b ≤ nEff) (hnn : nEff ≤ store0.length)
    (hsz : store0.length + 2 ≤ 2147483648)
    (os : List (List Nat)) (hos : ∀ o ∈ os, oracleOkA store0 nEff o = true) :
    holdsC09Active store0 (store0.take nEff) b (modelTrace nEff (init store0 b) os) = none :=
  holdsC09Active_model_of_used hnd hb hbn hnn hsz os (oraclesOkA_of_all store0 nEff os hos _)

/-! ### the structure of one epoch of a RAR-configured store -/

/-- The batches of one epoch over the (fixed) store `s` with `nEff` active slots: `⌈nEff/b⌉` slices,
    clamped against the whole store. -/
def epochBatchesA (s : List Nat) (nEff b : Nat) : List (List Nat) :=
  (List.range (epochLen nEff b)).map (fun j => slice s (j * b) b)

/-- From a state whose cursor is `k·b`, the following `r` requests with `k + r < ⌈nEff/b⌉` do not
    reshuffle, leave the store untouched and serve the slices `k+1, …, k+r`. -/
theorem run_within_epochA {nEff b : Nat} (hb : 0 < b) (s : List Nat) :
    ∀ (os : List (List Nat)) (k : Nat) (m : MB Nat), m.b = b → m.idx = k * b → m.store = s →
      k + os.length < epochLen nEff b →
      (run nEff m os).2 = (List.range os.length).map (fun j => slice s ((k + 1 + j) * b) b) ∧
      (run nEff m os).1.store = s ∧ (run nEff m os).1.idx = (k + os.length) * b ∧
      (run nEff m os).1.b = b ∧
      resetFlags nEff m os = List.replicate os.length false := by
  intro os
  induction os with
  | nil => intro k m hmb hidx hst _; simp [run, resetFlags, hidx, hst, hmb]
  | cons o os ih =>
    intro k m hmb hidx hst hlt
    have hlt1 : k + 1 < epochLen nEff b := by simp only [List.length_cons] at hlt; omega
    have hr : resets nEff m = false := by
      cases h : resets nEff m with
      | false => rfl
      | true => exact absurd hlt1 ((resetsA_iff_last hb hmb hidx).1 h)
    have hstep := next_of_not_resets nEff m o hr
    have hidx' : ({ m with idx := m.idx + m.b } : MB Nat).idx = (k + 1) * b := by
      simp only [hidx, hmb, Nat.add_mul, Nat.one_mul]
    have hrec := ih (k + 1) { m with idx := m.idx + m.b } hmb hidx' hst
      (by simp only [List.length_cons] at hlt; omega)
    simp only [run, resetFlags, hstep, List.length_cons]
    refine ⟨?_, hrec.2.1, ?_, hrec.2.2.2.1, ?_⟩
    · rw [hrec.1, List.range_succ_eq_map, List.map_cons, List.map_map]
      congr 1
      · have e : k * b + b = (k + 1 + 0) * b := by rw [Nat.add_zero, Nat.add_mul, Nat.one_mul]
        rw [hst, hidx, hmb, e]
      · apply List.map_congr_left; intro j _; simp only [Function.comp]; congr 1; congr 1; omega
    · rw [hrec.2.2.1]; congr 1; omega
    · rw [hr, hrec.2.2.2.2, List.replicate_succ]

/-- **An epoch of a RAR-configured store is exactly `⌈nEff/b⌉` requests.**  Right after a reshuffle
    onto store `s`, the reshuffling request and the next `⌈nEff/b⌉ − 1` requests serve
    `epochBatchesA s nEff b` (whatever the oracles are), none of the latter reshuffles, and the
    request after them does. -/
theorem epoch_structureA {nEff b : Nat} (hb : 0 < b) (s : List Nat)
    (m : MB Nat) (hmb : m.b = b) (hm : resets nEff m = true)
    (os : List (List Nat)) (hos : os.length + 1 = epochLen nEff b) :
    let st := (next nEff m s).1
    (next nEff m s).2 :: (run nEff st os).2 = epochBatchesA s nEff b ∧
    resetFlags nEff st os = List.replicate os.length false ∧
    resets nEff (run nEff st os).1 = true ∧
    (run nEff st os).1.store = s := by
  intro st
  have hst : st = { m with store := s, idx := 0 } := by
    simp only [st, next_of_resets nEff m s hm]
  have h := run_within_epochA (nEff := nEff) hb s os 0 st (by rw [hst]; exact hmb)
    (by rw [hst]; simp) (by rw [hst]) (by omega)
  refine ⟨?_, h.2.2.2.2, ?_, h.2.1⟩
  · rw [h.1, next_of_resets nEff m s hm, epochBatchesA, ← hos, List.range_succ_eq_map,
      List.map_cons, List.map_map, hmb]
    congr 1
    · simp
    · apply List.map_congr_left; intro j _; simp only [Function.comp]; congr 1; congr 1; omega
  · exact (resetsA_iff_last (m := (run nEff st os).1) (k := os.length) hb h.2.2.2.1
      (by rw [h.2.2.1]; simp)).2 (by omega)

/-- `b ∣ nEff`: the batches of an epoch, concatenated in order, are exactly the active prefix of the
    store. -/
theorem epochA_exact_of_dvd (s : List Nat) (nEff b : Nat) (hb : 0 < b) (hd : b ∣ nEff)
    (hnn : nEff ≤ s.length) : (epochBatchesA s nEff b).flatten = s.take nEff := by
  unfold epochBatchesA
  rw [flatten_slices_prefix s b _ (by rw [epochLen_of_dvd hb hd]; exact hnn),
    epochLen_of_dvd hb hd]

/-- **`b ∣ nEff`: between two reshuffles the batches, concatenated, are a permutation of the active
    points** — every active point is served, and no inactive point is. -/
theorem active_served_exactly_once_of_dvd {store0 s : List Nat} {nEff b : Nat} (hb : 0 < b)
    (hd : b ∣ nEff) (hnn : nEff ≤ store0.length) (hs : oracleOkA store0 nEff s = true) :
    ((epochBatchesA s nEff b).flatten).Perm (store0.take nEff) := by
  obtain ⟨hsp, hsa⟩ := (oracleOkA_iff _ _ _).1 hs
  rw [epochA_exact_of_dvd s nEff b hb hd (by rw [hsp.length_eq]; exact hnn)]
  exact hsa

/-- **`b ∣ nEff`, distinct points: between two reshuffles no point is served twice.** -/
theorem active_not_served_twice_of_dvd {store0 s : List Nat} {nEff b : Nat} (hnd : store0.Nodup)
    (hb : 0 < b) (hd : b ∣ nEff) (hnn : nEff ≤ store0.length)
    (hs : oracleOkA store0 nEff s = true) :
    ((epochBatchesA s nEff b).flatten).Nodup :=
  ((active_served_exactly_once_of_dvd hb hd hnn hs).nodup_iff).2
    (hnd.sublist (List.take_sublist _ _))

/-- **General case: every active point is served at least once between two reshuffles.** -/
theorem active_covered {store0 s : List Nat} {nEff b : Nat} (hb : 0 < b)
    (hs : oracleOkA store0 nEff s = true) :
    ∀ x ∈ store0.take nEff, ∃ bt ∈ epochBatchesA s nEff b, x ∈ bt := by
  obtain ⟨hsp, hsa⟩ := (oracleOkA_iff _ _ _).1 hs
  have hsl : s.length = store0.length := hsp.length_eq
  intro x hx
  obtain ⟨p, hp, hpn, rfl⟩ := exists_getElem_of_mem_take ((hsa.mem_iff).2 hx)
  have h1 := Nat.div_add_mod p b
  have h2 := Nat.mod_lt p hb
  have h3 : b * (p / b) = p / b * b := Nat.mul_comm _ _
  have hq : p / b < epochLen nEff b := by
    rw [Nat.div_lt_iff_lt_mul hb]
    have := epochLen_mul_ge (n := nEff) hb
    omega
  refine ⟨slice s (p / b * b) b, ?_, ?_⟩
  · exact List.mem_map.2 ⟨p / b, List.mem_range.2 hq, rfl⟩
  · exact getElem_mem_slice s _ b p hp (by omega) (by omega)

/-! ### whole histories: inactive points are never served when `b ∣ nEff` -/

/-- In a reachable state (after at least one request) with `b ∣ nEff`, the current slice lies inside
    the active prefix of the store. -/
theorem batch_active_of_dvd {store0 : List Nat} {nEff b : Nat} (hb : 0 < b) (hd : b ∣ nEff)
    (hnn : nEff ≤ store0.length) (m : MB Nat) (st : List Nat × Bool) (hst : st.2 = false)
    (hinv : ScanInvA store0 nEff b m st) :
    ∀ x ∈ slice m.store m.idx m.b, x ∈ store0.take nEff := by
  rcases hinv with ⟨hfirst, _⟩ | ⟨_, hmb, hperm, haperm, k, hk, hidx, _, _⟩
  · rw [hst] at hfirst; exact absurd hfirst (by simp)
  · have hml : m.store.length = store0.length := hperm.length_eq
    have hfit : k * b + b ≤ nEff := by
      have h := epochLen_of_dvd hb hd
      have h' : (k + 1) * b ≤ epochLen nEff b * b := Nat.mul_le_mul_right b (by omega)
      rw [Nat.add_mul, Nat.one_mul] at h'
      omega
    intro x hx
    rw [hmb, hidx, slice_eq_of_le _ _ _ (by omega)] at hx
    apply (haperm.mem_iff).1
    apply mem_take_mono hfit
    rw [List.take_add]
    exact List.mem_append_right _ hx

theorem run_batches_active_of_dvd {store0 : List Nat} {nEff b : Nat} (hnd : store0.Nodup)
    (hb : 0 < b) (hbn : b ≤ nEff) (hd : b ∣ nEff) (hnn : nEff ≤ store0.length)
    (hsz : store0.length + 2 ≤ 2147483648) :
    ∀ (os : List (List Nat)) (m : MB Nat) (st : List Nat × Bool),
      ScanInvA store0 nEff b m st → oraclesOkA store0 nEff m os = true →
      ∀ bt ∈ (run nEff m os).2, ∀ x ∈ bt, x ∈ store0.take nEff := by
  intro os
  induction os with
  | nil => intro m st _ _ bt hbt; simp [run] at hbt
  | cons o os ih =>
    intro m st hinv hos bt hbt x hx
    simp only [oraclesOkA, Bool.and_eq_true, Bool.or_eq_true, Bool.not_eq_true'] at hos
    have ho : resets nEff m = true → oracleOkA store0 nEff o = true := by
      intro hr
      rcases hos.1 with h | h
      · rw [hr] at h; exact absurd h (by simp)
      · exact h
    obtain ⟨st', _, hst', hinv'⟩ := step_okA hnd hb hbn hnn hsz m st hinv o ho
    simp only [run, List.mem_cons] at hbt
    rcases hbt with rfl | hbt
    · exact batch_active_of_dvd hb hd hnn _ st' hst' hinv' x hx
    · exact ih _ _ hinv' hos.2 bt hbt x hx

/-- **`b ∣ nEff`: along any history, no inactive (pre-allocated, zero-probability) point is ever
    served.**  (When `b ∤ nEff` the last slice of an epoch may reach inactive slots — see the
    `example` below — and neither the property nor `holdsC09Active` forbids it.) -/
theorem inactive_never_served_of_dvd {store0 : List Nat} {nEff b : Nat} (hnd : store0.Nodup)
    (hb : 0 < b) (hbn : b ≤ nEff) (hd : b ∣ nEff) (hnn : nEff ≤ store0.length)
    (hsz : store0.length + 2 ≤ 2147483648)
    (os : List (List Nat)) (hos : ∀ o ∈ os, oracleOkA store0 nEff o = true) :
    ∀ bt ∈ (run nEff (init store0 b) os).2, ∀ x ∈ bt, x ∈ store0.take nEff :=
  run_batches_active_of_dvd hnd hb hbn hd hnn hsz os (init store0 b) ([], true)
    (Or.inl ⟨rfl, rfl⟩)
    (oraclesOkA_of_all store0 nEff os hos _)

/-! ### non-vacuity -/

-- a concrete oracle satisfying the contract: the active prefix {0,1,2,3} permuted, the inactive
-- slots {4,5} (permuted) last; and two that do not (an inactive point in the prefix; not a
-- permutation of the store)
example : oracleOkA [0, 1, 2, 3, 4, 5] 4 [2, 0, 3, 1, 5, 4] = true := by decide
example : oracleOkA [0, 1, 2, 3, 4, 5] 4 [2, 0, 4, 1, 5, 3] = false := by decide
example : oracleOkA [0, 1, 2, 3, 4, 5] 4 [2, 0, 3, 1, 5, 5] = false := by decide

-- hypotheses of `holdsC09Active_model`: 6 points, 4 active, b = 2, three requests (reshuffle,
-- advance, reshuffle), every oracle honours the contract
example : [0, 1, 2, 3, 4, 5].Nodup ∧ 0 < 2 ∧ 2 ≤ 4 ∧ 4 ≤ [0, 1, 2, 3, 4, 5].length ∧
    [0, 1, 2, 3, 4, 5].length + 2 ≤ 2147483648 ∧
    (∀ o ∈ [[2, 0, 3, 1, 5, 4], [0, 1, 2, 3, 4, 5], [1, 0, 3, 2, 4, 5]],
      oracleOkA [0, 1, 2, 3, 4, 5] 4 o = true) := by decide

-- … and of `holdsC09Active_model_of_used`: the oracle of the non-reshuffling request is junk
example : oraclesOkA [0, 1, 2, 3, 4, 5] 4 (init [0, 1, 2, 3, 4, 5] 2)
    [[2, 0, 3, 1, 5, 4], [], [1, 0, 3, 2, 4, 5]] = true := by decide

-- the trace itself: the second reshuffle permutes the active prefix
example : (run 4 (init [0, 1, 2, 3, 4, 5] 2) [[2, 0, 3, 1, 5, 4], [], [1, 0, 3, 2, 4, 5]]).2
    = [[2, 0], [3, 1], [1, 0]] := by decide
example : resetFlags 4 (init [0, 1, 2, 3, 4, 5] 2) [[2, 0, 3, 1, 5, 4], [], [1, 0, 3, 2, 4, 5]]
    = [true, false, true] := by decide
example : holdsC09Active [0, 1, 2, 3, 4, 5] [0, 1, 2, 3] 2
    (modelTrace 4 (init [0, 1, 2, 3, 4, 5] 2) [[2, 0, 3, 1, 5, 4], [], [1, 0, 3, 2, 4, 5]])
    = none := by decide

-- the predicate is not trivially true: reshuffling after one batch, or running on to the inactive
-- slots instead of reshuffling, is rejected
example : holdsC09Active [0, 1, 2, 3, 4, 5] [0, 1, 2, 3] 2
    [⟨true, [2, 0, 3, 1, 5, 4], [2, 0]⟩, ⟨true, [1, 0, 3, 2, 4, 5], [1, 0]⟩]
    = some "reshuffle-before-all-points-served" := by decide
example : holdsC09Active [0, 1, 2, 3, 4, 5] [0, 1, 2, 3] 2
    [⟨true, [2, 0, 3, 1, 5, 4], [2, 0]⟩, ⟨false, [2, 0, 3, 1, 5, 4], [3, 1]⟩,
     ⟨false, [2, 0, 3, 1, 5, 4], [5, 4]⟩]
    = some "no-reshuffle-although-all-points-served" := by decide

-- epochs: b ∣ nEff serves exactly the active prefix; b ∤ nEff reaches the inactive slot `3`
example : epochBatchesA [2, 0, 3, 1, 5, 4] 4 2 = [[2, 0], [3, 1]] := by decide
example : epochBatchesA [2, 0, 1, 3, 5, 4] 3 2 = [[2, 0], [1, 3]] := by decide
example : oracleOkA [0, 1, 2, 3, 4, 5] 3 [2, 0, 1, 3, 5, 4] = true := by decide
-- `epoch_structureA`: a reshuffling state and `⌈4/2⌉ − 1 = 1` further request
example : resets 4 (init [0, 1, 2, 3, 4, 5] 2) = true ∧
    ([[]] : List (List Nat)).length + 1 = epochLen 4 2 := by decide
-- the divisibility hypothesis of the `…_of_dvd` theorems on the same instance
example : 2 ∣ 4 := by decide

end Jinns.Minibatch
