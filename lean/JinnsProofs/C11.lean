/-
C11 — forward-mode (separable) and reverse-mode (pointwise) computations agree.

Property theorems about `JinnsModel/Operators.lean` (forward versions), `JinnsModel/Residuals.lean` (both
branches of the built-in dynamic losses), `JinnsModel/Grid.lean` (`_get_grid`, the tensor grid a separable
network returns) and `JinnsModel/SpinnTerms.lean` (boundary / initial-condition / normalisation terms):

A. under `LawfulOps`: `jvpX (oneHot i) f = ∂i f` for every `i < d`, every `d`; hence
   `lapFwd = lapRev`, `divFwd = divRev`, `vecLapFwd = vecLapRev`, `advFwd = advRev` and forward = reverse for
   Burgers, Fisher-KPP, mass conservation, Navier-Stokes AS FIELDS; for the Fokker-Planck residual (whose two
   branches add the four second-order terms in different orders) under every additive evaluation;
B. grids: the row-major entry of multi-index `(i_0, …, i_{D-1})` of `_get_grid` is
   `(X[i_0][0], …, X[i_{D-1}][D-1])` (axis `k` ↔ column `k`, time first); the separable network's output at
   that index is its pointwise twin `Σ_{r<R} Π_{k<D} feat k (·) (m·R + r)` at that point;
C. combining: the forward-mode grid value at an index is the reverse-mode value at the corresponding point
   (operators, built-in residuals; Fokker-Planck under evaluations that are additive at every point);
D. the SPINN branches of the Dirichlet / Neumann boundary terms, of the initial-condition term and of the two
   normalisation terms equal the PINN branches evaluated on the list of grid points `_get_grid(batch)`;
E. transfer to the executable instance (`polyOps_lawful`, `Poly.eval` is additive and homogeneous);
F. the model's own trace satisfies `Holds.C11`; `example`s of non-vacuity.

Everything is for all dimensions, numbers of axes, embedding sizes, outputs, batches and parameters.
Core Lean only (ring goals over `Rat` are closed by `grind`).
-/
import JinnsModel.Operators
import JinnsModel.Residuals
import JinnsModel.Grid
import JinnsModel.SpinnTerms
import JinnsModel.HoldsC11
import JinnsModel.OperatorsPoly
import JinnsModel.Poly

namespace Jinns.Operators
open Jinns.Calc

variable {F : Type}

/-! ## A. forward = reverse as fields -/

/-- a sum whose terms all carry a zero coefficient leaves the accumulator unchanged -/
theorem foldr_smul_zero (ops : FieldOps F) (hl : LawfulOps ops) (v : Nat → Rat) (a : Nat → F) (z : F) :
    ∀ l : List Nat, (∀ j ∈ l, v j = 0) →
      (l.map (fun j => ops.smul (v j) (a j))).foldr ops.add z = z := by
  intro l
  induction l with
  | nil => intro _; rfl
  | cons j l ih =>
    intro h
    simp only [List.map_cons, List.foldr_cons]
    rw [ih (fun k hk => h k (List.mem_cons_of_mem _ hk)), h j (List.mem_cons_self), hl.zero_smul, hl.zero_add]

/-- `Σ_{j<d} δ_ij • a_j = a_i` for `i < d`, and `= 0` for `i ≥ d` — every `d` -/
theorem sum_oneHot (ops : FieldOps F) (hl : LawfulOps ops) (i : Nat) (a : Nat → F) :
    ∀ d, ops.sum d (fun j => ops.smul (oneHot i j) (a j)) = if i < d then a i else ops.zero := by
  intro d
  induction d with
  | zero => simp [FieldOps.sum]
  | succ d ih =>
    unfold FieldOps.sum at ih ⊢
    rw [List.range_succ, List.map_append, List.foldr_append]
    simp only [List.map_cons, List.map_nil, List.foldr_cons, List.foldr_nil]
    by_cases hid : i = d
    · subst hid
      have h1 : oneHot i i = 1 := by simp [oneHot]
      rw [h1, hl.one_smul, hl.add_zero]
      rw [foldr_smul_zero ops hl (oneHot i) a (a i) (List.range i)]
      · simp
      · intro j hj
        have := List.mem_range.mp hj
        simp only [oneHot]
        rw [if_neg (by omega)]
    · have h0 : oneHot i d = 0 := by simp [oneHot, hid]
      rw [h0, hl.zero_smul, hl.add_zero, ih]
      by_cases hlt : i < d
      · rw [if_pos hlt, if_pos (by omega)]
      · rw [if_neg hlt, if_neg (by omega)]

/-- **forward-mode derivative along the one-hot tangent `e_i` is the partial derivative `∂i`**, for every
    dimension `d` and every coordinate `i < d` -/
theorem jvp_oneHot (ops : FieldOps F) (hl : LawfulOps ops) (d i : Nat) (hi : i < d) (f : F) :
    jvpX ops d (oneHot i) f = ops.dX i f := by
  unfold jvpX
  rw [sum_oneHot ops hl i (fun j => ops.dX j f) d, if_pos hi]

theorem sum_congr' (ops : FieldOps F) (d : Nat) (g h : Nat → F) (e : ∀ i, i < d → g i = h i) :
    ops.sum d g = ops.sum d h := by
  unfold FieldOps.sum
  congr 1
  apply List.map_congr_left
  intro i hi
  exact e i (List.mem_range.mp hi)

theorem getD_map_range' {α : Type} (d i : Nat) (g : Nat → α) (dflt : α) (h : i < d) :
    ((List.range d).map g).getD i dflt = g i := by
  simp [List.getD, h]

theorem nth_gradX' (ops : FieldOps F) (d i : Nat) (f : F) (h : i < d) :
    nth ops (gradX ops d f) i = ops.dX i f := by
  unfold nth gradX
  exact getD_map_range' d i _ _ h

theorem trace_hessX' (ops : FieldOps F) (d : Nat) (f : F) :
    trace ops d (hessX ops d f) = ops.sum d (fun i => ops.dX i (ops.dX i f)) := by
  unfold trace
  apply sum_congr'
  intro i hi
  unfold hessX
  rw [getD_map_range' d i _ _ hi, getD_map_range' d i _ _ hi]

theorem lapRev_eq' (ops : FieldOps F) (d : Nat) (sig : Sig) (u : Nat → F) :
    lapRev ops d sig u = ops.sum d (fun i => ops.dX i (ops.dX i (u 0))) := by
  cases sig <;> exact trace_hessX' ops d (u 0)

theorem divRev_eq' (ops : FieldOps F) (d : Nat) (sig : Sig) (u : Nat → F) :
    divRev ops d sig u = ops.sum d (fun i => ops.dX i (u i)) := by
  cases sig <;>
  · unfold divRev
    apply sum_congr'
    intro i hi
    exact nth_gradX' ops d i (u i) hi

/-- **`_laplacian_fwd` and `_laplacian_rev` are the same field**, every dimension, both signatures -/
theorem lapFwd_eq_lapRev (ops : FieldOps F) (hl : LawfulOps ops) (d : Nat) (sig : Sig) (u : Nat → F) :
    lapFwd ops d u = lapRev ops d sig u := by
  rw [lapRev_eq']
  unfold lapFwd
  apply sum_congr'
  intro i hi
  rw [jvp_oneHot ops hl d i hi, jvp_oneHot ops hl d i hi]

/-- **`_div_fwd` and `_div_rev` are the same field** -/
theorem divFwd_eq_divRev (ops : FieldOps F) (hl : LawfulOps ops) (d : Nat) (sig : Sig) (u : Nat → F) :
    divFwd ops d u = divRev ops d sig u := by
  rw [divRev_eq']
  unfold divFwd
  apply sum_congr'
  intro i hi
  rw [jvp_oneHot ops hl d i hi]

/-- **both branches of `_vectorial_laplacian` are the same vector of fields** -/
theorem vecLapFwd_eq_vecLapRev (ops : FieldOps F) (hl : LawfulOps ops) (d : Nat) (sig : Sig) (m : Nat)
    (u : Nat → F) : vecLapFwd ops d m u = vecLapRev ops d sig m u := by
  unfold vecLapFwd vecLapRev
  apply List.map_congr_left
  intro j _
  exact lapFwd_eq_lapRev ops hl d sig _

theorem tangent0_eq : tangent0 = oneHot 0 := by
  funext j
  match j with
  | 0 => rfl
  | 1 => rfl
  | (j + 2) => simp [tangent0, oneHot]

theorem tangent1_eq : tangent1 = oneHot 1 := by
  funext j
  match j with
  | 0 => rfl
  | 1 => rfl
  | (j + 2) => simp [tangent1, oneHot]

theorem jvp_tangent0 (ops : FieldOps F) (hl : LawfulOps ops) (f : F) :
    jvpX ops 2 tangent0 f = ops.dX 0 f := by
  rw [tangent0_eq]; exact jvp_oneHot ops hl 2 0 (by omega) f

theorem jvp_tangent1 (ops : FieldOps F) (hl : LawfulOps ops) (f : F) :
    jvpX ops 2 tangent1 f = ops.dX 1 f := by
  rw [tangent1_eq]; exact jvp_oneHot ops hl 2 1 (by omega) f

/-- **`_u_dot_nabla_times_u_fwd` and `_u_dot_nabla_times_u_rev` are the same pair of fields** -/
theorem advFwd_eq_advRev (ops : FieldOps F) (hl : LawfulOps ops) (sig : Sig) (u : Nat → F) :
    advFwd ops u = advRev ops sig u := by
  have h0 : ∀ f, nth ops (gradX ops 2 f) 0 = ops.dX 0 f := fun f => nth_gradX' ops 2 0 f (by omega)
  have h1 : ∀ f, nth ops (gradX ops 2 f) 1 = ops.dX 1 f := fun f => nth_gradX' ops 2 1 f (by omega)
  cases sig <;>
    simp only [advFwd, advRev, gradArg, h0, h1, jvp_tangent0 ops hl, jvp_tangent1 ops hl]

end Jinns.Operators

namespace Jinns.Grid

/-! ## B. grids -/

variable {α : Type}

theorem cartProd_length : ∀ ls : List (List α), (cartProd ls).length = size (ls.map List.length)
  | [] => rfl
  | c :: cs => by
    have ih := cartProd_length cs
    simp only [cartProd, List.map_cons, size]
    induction c with
    | nil => simp
    | cons a c ihc =>
      simp only [List.flatMap_cons, List.length_append, List.length_map, List.length_cons, ih, ihc]
      rw [Nat.succ_mul, Nat.add_comm]

/-- position `i·S + j` of a concatenation of blocks of equal length `S` is position `j` of block `i` -/
theorem flatMap_getElem_uniform {β : Type} (f : α → List β) (S : Nat) :
    ∀ (c : List α) (i j : Nat), (∀ x ∈ c, (f x).length = S) → (hi : i < c.length) → j < S →
      (c.flatMap f)[i * S + j]? = (f c[i])[j]? := by
  intro c
  induction c with
  | nil => intro i j _ hi _; simp at hi
  | cons a c ih =>
    intro i j hS hi hj
    have ha : (f a).length = S := hS a (List.mem_cons_self)
    cases i with
    | zero =>
      simp only [List.flatMap_cons, Nat.zero_mul, Nat.zero_add, List.getElem_cons_zero]
      rw [List.getElem?_append_left (by omega)]
    | succ i =>
      simp only [List.flatMap_cons, List.getElem_cons_succ]
      have e : (i + 1) * S + j = (f a).length + (i * S + j) := by rw [Nat.succ_mul, ha]; omega
      rw [e, List.getElem?_append_right (by omega), Nat.add_sub_cancel_left]
      exact ih i j (fun x hx => hS x (List.mem_cons_of_mem _ hx)) (by simpa using hi) hj

theorem flatIndex_lt : ∀ (ls : List (List α)) (idx : List Nat), ValidIdx ls idx →
    flatIndex (ls.map List.length) idx < size (ls.map List.length)
  | [], [], _ => by simp [flatIndex, size]
  | [], _ :: _, h => by simp [ValidIdx] at h
  | _ :: _, [], h => by simp [ValidIdx] at h
  | l :: ls, i :: is, h => by
    obtain ⟨hi, hv⟩ := h
    have ih := flatIndex_lt ls is hv
    simp only [List.map_cons, flatIndex, size]
    calc i * size (ls.map List.length) + flatIndex (ls.map List.length) is
        < i * size (ls.map List.length) + size (ls.map List.length) := by omega
      _ = (i + 1) * size (ls.map List.length) := by rw [Nat.succ_mul]
      _ ≤ l.length * size (ls.map List.length) := Nat.mul_le_mul_right _ hi

/-- **row-major indexing of the tensor product**: the entry at `flatIndex` of a valid multi-index is the
    tuple of the selected coordinates, axis by axis, in the order of the lists -/
theorem cartProd_getElem (dflt : α) : ∀ (ls : List (List α)) (idx : List Nat), ValidIdx ls idx →
    (cartProd ls)[flatIndex (ls.map List.length) idx]? = some (pick dflt ls idx)
  | [], [], _ => by simp [cartProd, flatIndex, pick]
  | [], _ :: _, h => by simp [ValidIdx] at h
  | _ :: _, [], h => by simp [ValidIdx] at h
  | l :: ls, i :: is, h => by
    obtain ⟨hi, hv⟩ := h
    have ih := cartProd_getElem dflt ls is hv
    have hlt := flatIndex_lt ls is hv
    simp only [cartProd, List.map_cons, flatIndex, pick]
    rw [flatMap_getElem_uniform (fun x => (cartProd ls).map (fun tl => x :: tl)) (size (ls.map List.length))
      l i _ (by intro x _; simp [cartProd_length]) hi hlt]
    rw [List.getElem?_map, ih]
    simp [List.getD, hi]

/-- a pointwise function on the grid: the entry of multi-index `idx` is the function at the selected point -/
theorem gridOf_index {β : Type} (g : List Rat → β) (cols : List (List Rat)) (idx : List Nat)
    (h : ValidIdx cols idx) :
    (gridOf g cols)[flatIndex (cols.map List.length) idx]? = some (g (pick 0 cols idx)) := by
  unfold gridOf
  rw [List.getElem?_map, cartProd_getElem 0 cols idx h]
  rfl

/-! ### `_get_grid`: index formula -/

/-- a multi-index into a `B × … × B` (`D` axes) grid -/
def IdxIn (B D : Nat) (idx : List Nat) : Prop := idx.length = D ∧ ∀ i ∈ idx, i < B

theorem validIdx_of_lengths : ∀ (ls : List (List α)) (idx : List Nat) (B : Nat),
    idx.length = ls.length → (∀ l ∈ ls, l.length = B) → (∀ i ∈ idx, i < B) → ValidIdx ls idx
  | [], [], _, _, _, _ => trivial
  | [], _ :: _, _, h, _, _ => by simp at h
  | _ :: _, [], _, h, _, _ => by simp at h
  | l :: ls, i :: is, B, h, hl, hi => by
    refine ⟨?_, validIdx_of_lengths ls is B (by simpa using h) (fun l' hl' => hl l' (List.mem_cons_of_mem _ hl'))
      (fun i' hi' => hi i' (List.mem_cons_of_mem _ hi'))⟩
    rw [hl l (List.mem_cons_self)]
    exact hi i (List.mem_cons_self)

theorem map_length_of_all (ls : List (List α)) (B : Nat) (hl : ∀ l ∈ ls, l.length = B) :
    ls.map List.length = List.replicate ls.length B := by
  induction ls with
  | nil => rfl
  | cons l ls ih =>
    simp only [List.map_cons, List.length_cons, List.replicate_succ]
    rw [hl l (List.mem_cons_self), ih (fun l' hl' => hl l' (List.mem_cons_of_mem _ hl'))]

/-- `pick` through a family of lists indexed by the axis number -/
theorem pick_map_range (dflt : α) (c : Nat → List α) :
    ∀ (D : Nat) (idx : List Nat) (o : Nat), idx.length = D →
      pick dflt ((List.range' o D).map c) idx
        = (List.range' o D).map (fun k => (c k).getD (idx.getD (k - o) 0) dflt)
  | 0, [], _, _ => by simp [pick]
  | 0, _ :: _, _, h => by simp at h
  | _ + 1, [], _, h => by simp at h
  | D + 1, i :: is, o, h => by
    have ih := pick_map_range dflt c D is (o + 1) (by simpa using h)
    simp only [List.range'_succ, List.map_cons, pick, ih, Nat.sub_self, List.getD_cons_zero]
    congr 1
    apply List.map_congr_left
    intro k hk
    have hk' := (List.mem_range'_1.mp hk).1
    have e : k - o = (k - (o + 1)) + 1 := by omega
    rw [e, List.getD_cons_succ]

/-- **`_get_grid` index formula** (`meshgrid(indexing="ij")`, stacked on the last axis): for a batch `X` of
    `B` rows and `D` columns, the grid point of multi-index `(i_0, …, i_{D-1})` — at row-major position
    `flatIndex [B, …, B] idx` — is `(X[i_0][0], X[i_1][1], …, X[i_{D-1}][D-1])`: axis `k` of the grid runs over
    column `k` of the batch (column 0 = time for non-stationary problems). -/
theorem getGrid_index (X : List (List Rat)) (D : Nat) (idx : List Nat) (h : IdxIn X.length D idx) :
    (getGrid X D)[flatIndex (List.replicate D X.length) idx]?
      = some ((List.range D).map (fun k => (X.getD (idx.getD k 0) []).getD k 0)) := by
  obtain ⟨hlen, hlt⟩ := h
  have hcl : ∀ l ∈ columns X D, l.length = X.length := by
    intro l hl
    simp only [columns, List.mem_map] at hl
    obtain ⟨k, _, rfl⟩ := hl
    simp [column]
  have hv : ValidIdx (columns X D) idx :=
    validIdx_of_lengths _ idx X.length (by simp [columns, hlen]) hcl hlt
  have hsh : (columns X D).map List.length = List.replicate D X.length := by
    rw [map_length_of_all _ _ hcl]; simp [columns]
  unfold getGrid
  rw [← hsh, cartProd_getElem 0 _ idx hv]
  congr 1
  unfold columns
  rw [List.range_eq_range', pick_map_range 0 (column X) D idx 0 hlen]
  apply List.map_congr_left
  intro k hk
  have hkD : k < D := by have := (List.mem_range'_1.mp hk).2; omega
  have hik : idx.getD k 0 < X.length := by
    have : k < idx.length := by omega
    rw [List.getD_eq_getElem?_getD, List.getElem?_eq_getElem this]
    exact hlt _ (List.getElem_mem this)
  simp only [Nat.sub_zero, column]
  rw [List.getD_eq_getElem?_getD, List.getElem?_map, List.getD_eq_getElem?_getD (l := X),
    List.getElem?_eq_getElem hik]
  rfl

/-! ### the separable network on a batch -/

theorem pick_replicate_range (B : Nat) : ∀ (D : Nat) (idx : List Nat), idx.length = D → (∀ i ∈ idx, i < B) →
    pick 0 (List.replicate D (List.range B)) idx = idx
  | 0, [], _, _ => rfl
  | 0, _ :: _, h, _ => by simp at h
  | _ + 1, [], h, _ => by simp at h
  | D + 1, i :: is, h, hlt => by
    have ih := pick_replicate_range B D is (by simpa using h) (fun j hj => hlt j (List.mem_cons_of_mem _ hj))
    have hi : i < B := hlt i (List.mem_cons_self)
    simp only [List.replicate_succ, pick, ih]
    congr 1
    simp [List.getD, hi]

theorem getD_map_of_lt {β γ : Type} (l : List β) (f : β → γ) (i : Nat) (hi : i < l.length) (d1 : γ) (d2 : β) :
    (l.map f).getD i d1 = f (l.getD i d2) := by
  simp [List.getD, hi]

theorem getD_take_drop (l : List Rat) (a R z : Nat) (hz : z < R) :
    ((l.drop a).take R).getD z 0 = l.getD (a + z) 0 := by
  simp [List.getD_eq_getElem?_getD, hz]

/-- **the separable network's output at a grid index is the tensor-product formula**: for every number of
    axes `D`, embedding size `R`, number of outputs `M`, batch `X` and valid multi-index, entry
    `(i_0, …, i_{D-1})` of output `m` is `Σ_{r<R} Π_{k<D} feat k (X[i_k][k]) (m·R + r)` — i.e. the pointwise
    twin evaluated at the grid point `(X[i_0][0], …, X[i_{D-1}][D-1])`, output `m` reading exactly the
    `m`-th block of `R` features. -/
theorem spinnOut_index (feat : Nat → Rat → List Rat) (R M : Nat) (X : List (List Rat)) (D : Nat)
    (idx : List Nat) (h : IdxIn X.length D idx) :
    (spinnOut R M (spinnRes feat X D) D)[flatIndex (List.replicate D X.length) idx]?
      = some (twin feat R M D ((List.range D).map (fun k => (X.getD (idx.getD k 0) []).getD k 0))) := by
  obtain ⟨hlen, hlt⟩ := h
  have hB : (spinnRes feat X D).length = X.length := by simp [spinnRes]
  have hcl : ∀ l ∈ List.replicate D (List.range X.length), l.length = X.length := by
    intro l hl
    rw [(List.mem_replicate.mp hl).2]; simp
  have hv : ValidIdx (List.replicate D (List.range X.length)) idx :=
    validIdx_of_lengths _ idx X.length (by simp [hlen]) hcl hlt
  have hsh : (List.replicate D (List.range X.length)).map List.length = List.replicate D X.length := by
    rw [map_length_of_all _ _ hcl]; simp
  unfold spinnOut
  rw [hB, List.getElem?_map, ← hsh, cartProd_getElem 0 _ idx hv, pick_replicate_range X.length D idx hlen hlt]
  simp only [Option.map_some, twin]
  congr 1
  apply List.map_congr_left
  intro m _
  congr 1
  apply List.map_congr_left
  intro z hz
  have hzR : z < R := List.mem_range.mp hz
  congr 1
  apply List.map_congr_left
  intro k hk
  have hkD : k < D := List.mem_range.mp hk
  have hik : idx.getD k 0 < X.length := by
    have : k < idx.length := by omega
    rw [List.getD_eq_getElem?_getD, List.getElem?_eq_getElem this]
    exact hlt _ (List.getElem_mem this)
  unfold resSlice
  rw [getD_take_drop _ _ _ _ hzR]
  have e1 : ((spinnRes feat X D).getD (idx.getD k 0) []).getD k []
      = feat k ((X.getD (idx.getD k 0) []).getD k 0) := by
    unfold spinnRes
    rw [getD_map_of_lt X _ _ hik [] [], getD_map_of_lt (List.range D) _ k (by simpa using hkD) [] 0]
    simp [List.getD, hkD]
  rw [e1]
  congr 2
  simp [List.getD, hkD]

/-- **the separable network at a grid index is its pointwise twin at the corresponding grid point**
    (`spinnOut_index` and `getGrid_index` read together) -/
theorem spinnOut_eq_twin_on_grid (feat : Nat → Rat → List Rat) (R M : Nat) (X : List (List Rat)) (D : Nat)
    (idx : List Nat) (h : IdxIn X.length D idx) :
    (spinnOut R M (spinnRes feat X D) D)[flatIndex (List.replicate D X.length) idx]?
      = ((getGrid X D)[flatIndex (List.replicate D X.length) idx]?).map (twin feat R M D) := by
  rw [spinnOut_index feat R M X D idx h, getGrid_index X D idx h]
  rfl

end Jinns.Grid

namespace Jinns.Residuals
open Jinns.Calc Jinns.Operators

variable {F : Type}

/-! ## A'. both branches of the built-in dynamic losses -/

theorem jvpT_one (ops : FieldOps F) (hl : LawfulOps ops) (f : F) : jvpT ops 1 f = ops.dT f := by
  unfold jvpT; exact hl.one_smul _

/-- `jvp(·, (x,), (ones_like(x),))` for `x` of shape `(B, 1)` is `∂0` -/
theorem jvp_ones1 (ops : FieldOps F) (hl : LawfulOps ops) (f : F) : jvpX ops 1 ones f = ops.dX 0 f := by
  unfold jvpX ones FieldOps.sum
  simp [hl.one_smul, hl.add_zero]

/-- **Burgers**: the SPINN branch and the PINN branch are the same field -/
theorem burgersFwd_eq_burgersRev (ops : FieldOps F) (hl : LawfulOps ops) (Tmax nu : Rat) (u : F) :
    burgersFwd ops Tmax nu u = burgersRev ops Tmax nu u := by
  have h0 : ∀ f, nth ops (gradX ops 1 f) 0 = ops.dX 0 f := fun f => nth_gradX' ops 1 0 f (by omega)
  simp only [burgersFwd, burgersRev, gradArg, jvpT_one ops hl, jvp_ones1 ops hl, h0]
  rfl

/-- **Fisher-KPP**, every space dimension -/
theorem fisherFwd_eq_fisherRev (ops : FieldOps F) (hl : LawfulOps ops) (ext : Ext F) (d : Nat)
    (Tmax D r g : Rat) (u : F) :
    fisherFwd ops ext d Tmax D r g u = fisherRev ops ext d Tmax D r g u := by
  simp only [fisherFwd, fisherRev, gradArg, jvpT_one ops hl, lapFwd_eq_lapRev ops hl d .withTime]
  rfl

/-- **mass conservation** -/
theorem massFwd_eq_massRev (ops : FieldOps F) (hl : LawfulOps ops) (d : Nat) (u : Nat → F) :
    massFwd ops d u = massRev ops d u := divFwd_eq_divRev ops hl d .noTime u

/-- **stationary Navier-Stokes**: both components -/
theorem nsFwd_eq_nsRev (ops : FieldOps F) (hl : LawfulOps ops) (nu rho : Rat) (u : Nat → F) (p : F) :
    nsFwd ops nu rho u p = nsRev ops nu rho u p := by
  have h0 : ∀ f, nth ops (gradX ops 2 f) 0 = ops.dX 0 f := fun f => nth_gradX' ops 2 0 f (by omega)
  have h1 : ∀ f, nth ops (gradX ops 2 f) 1 = ops.dX 1 f := fun f => nth_gradX' ops 2 1 f (by omega)
  simp only [nsFwd, nsRev, advFwd_eq_advRev ops hl .noTime, vecLapFwd_eq_vecLapRev ops hl 2 .noTime,
    jvp_tangent0 ops hl, jvp_tangent1 ops hl, gradArg, h0, h1]

/-- an evaluation of fields (e.g. at a point) that respects sums and scalar multiples -/
structure EvalHom (ops : FieldOps F) (ev : F → Rat) : Prop where
  add : ∀ a b, ev (ops.add a b) = ev a + ev b
  smul : ∀ c a, ev (ops.smul c a) = c * ev a

/-- **Fokker-Planck** (any drift field and diffusion matrix, in particular Ornstein-Uhlenbeck): the two
    branches add the four second-order terms in different orders, so they agree under every additive
    evaluation (at every point) -/
theorem fpeFwd_eq_fpeRev (ops : FieldOps F) (hl : LawfulOps ops) (ev : F → Rat) (he : EvalHom ops ev)
    (drift : Nat → F) (D : Nat → Nat → Rat) (Tmax : Rat) (u : F) :
    ev (fpeFwd ops drift D Tmax u) = ev (fpeRev ops drift D Tmax u) := by
  have h0 : ∀ f, nth ops (gradX ops 2 f) 0 = ops.dX 0 f := fun f => nth_gradX' ops 2 0 f (by omega)
  have h1 : ∀ f, nth ops (gradX ops 2 f) 1 = ops.dX 1 f := fun f => nth_gradX' ops 2 1 f (by omega)
  have hn : ∀ f : F, nth ops [f] 0 = f := fun f => rfl
  simp only [fpeFwd, fpeRev, gradArg, jvpT_one ops hl, jvp_tangent0 ops hl, jvp_tangent1 ops hl, h0, h1, hn,
    he.add, he.smul]
  grind

theorem ouFwd_eq_ouRev (ops : FieldOps F) (hl : LawfulOps ops) (ev : F → Rat) (he : EvalHom ops ev)
    (ext : Ext F) (alpha mu sigma : Nat → Rat) (Tmax : Rat) (u : F) :
    ev (ouFwd ops ext alpha mu sigma Tmax u) = ev (ouRev ops ext alpha mu sigma Tmax u) :=
  fpeFwd_eq_fpeRev ops hl ev he _ _ Tmax u

end Jinns.Residuals

namespace Jinns.SpinnTerms
open Jinns.Calc Jinns.Operators Jinns.Grid

variable {F : Type}

/-! ## D. boundary, initial-condition and normalisation terms -/

theorem zipWith_map_same {α β γ δ : Type} (g : β → γ → δ) (a : α → β) (b : α → γ) (l : List α) :
    List.zipWith g (l.map a) (l.map b) = l.map (fun x => g (a x) (b x)) := by
  induction l with
  | nil => rfl
  | cons x l ih => simp [ih]

/-- **Dirichlet**: the SPINN branch returns, as a flat grid, exactly what the PINN branch returns on the list
    of grid points `_get_grid(border_batch)` (non-stationary: of `(t, x)` points, time first) -/
theorem dirichletFwd_eq_dirichletRev (U f : List Rat → List Rat) (X : List (List Rat)) (D : Nat) :
    dirichletFwd U f X D = dirichletRev U f (getGrid X D) := by
  unfold dirichletFwd dirichletRev gridOf getGrid
  exact zipWith_map_same sqDist U f _

/-- … hence at every grid index the forward value is the pointwise value at
    `(X[i_0][0], …, X[i_{D-1}][D-1])` -/
theorem dirichletFwd_index (U f : List Rat → List Rat) (X : List (List Rat)) (D : Nat) (idx : List Nat)
    (h : IdxIn X.length D idx) :
    (dirichletFwd U f X D)[flatIndex (List.replicate D X.length) idx]?
      = some (let p := (List.range D).map (fun k => (X.getD (idx.getD k 0) []).getD k 0)
              sqDist (U p) (f p)) := by
  rw [dirichletFwd_eq_dirichletRev]
  unfold dirichletRev
  rw [List.getElem?_map, getGrid_index X D idx h]
  rfl

/-- **Neumann**: the normal derivative computed by the SPINN branch (one or two explicit forward-mode
    derivatives) and by the PINN branch (`dot(grad, n)`) are the same field; the supported space dimensions
    coincide (1 and 2; both reject the others) -/
theorem neumannFwd_eq_neumannRev (ops : FieldOps F) (hl : LawfulOps ops) (dx : Nat) (sig : Sig) (facet : Nat)
    (u : F) : neumannFwd ops dx facet u = neumannRev ops dx sig facet u := by
  have g1 : ∀ f, nth ops (gradX ops 1 f) 0 = ops.dX 0 f := fun f => nth_gradX' ops 1 0 f (by omega)
  have h0 : ∀ f, nth ops (gradX ops 2 f) 0 = ops.dX 0 f := fun f => nth_gradX' ops 2 0 f (by omega)
  have h1 : ∀ f, nth ops (gradX ops 2 f) 1 = ops.dX 1 f := fun f => nth_gradX' ops 2 1 f (by omega)
  have j1 : jvpX ops 1 (fun _ => 1) u = ops.dX 0 u := Jinns.Residuals.jvp_ones1 ops hl u
  unfold neumannFwd neumannRev
  by_cases e1 : dx = 1
  · simp only [e1, if_true]
    cases sig <;> simp only [xArg, gradArg, g1, j1]
  · by_cases e2 : dx = 2
    · simp only [e2, if_true]
      cases sig <;>
        simp [xArg, gradArg, h0, h1, jvp_tangent0 ops hl, jvp_tangent1 ops hl, FieldOps.sum, List.range_succ,
          hl.add_zero]
    · simp [e1, e2]

theorem neumannTermFwd_eq_neumannTermRev (V f : List Rat → Rat) (X : List (List Rat)) (D : Nat) :
    neumannTermFwd V f X D = neumannTermRev V f (getGrid X D) :=
  dirichletFwd_eq_dirichletRev _ _ X D

/-- one facet of `boundary_condition_apply`: equal weighted means -/
theorem facetMean_fwd_eq_rev (w : Rat) (U f : List Rat → List Rat) (X : List (List Rat)) (D : Nat) :
    facetMean w (dirichletFwd U f X D) = facetMean w (dirichletRev U f (getGrid X D)) := by
  rw [dirichletFwd_eq_dirichletRev]

/-- the flat grid over `(c :: cs)` is the concatenation, over the first axis, of the grids over `cs` -/
theorem gridOf_cons {β : Type} (g : List Rat → β) (c : List Rat) (cs : List (List Rat)) :
    gridOf g (c :: cs) = c.flatMap (fun t => gridOf (fun x => g (t :: x)) cs) := by
  unfold gridOf
  simp only [cartProd, List.map_flatMap, List.map_map]
  rfl

/-- **initial condition**: the SPINN branch (first time index of the grid over `n ≥ 1` zero times and the
    spatial axes, against `f(_get_grid(omega_batch))`) equals the PINN branch on the list of spatial grid
    points -/
theorem icFwd_eq_icRev (U f : List Rat → List Rat) (w : Rat) (n : Nat) (hn : 0 < n) (Xo : List (List Rat))
    (Dx : Nat) : icFwd U f w n Xo Dx = icRev U f w (getGrid Xo Dx) := by
  unfold icFwd icRev
  obtain ⟨k, rfl⟩ : ∃ k, n = k + 1 := ⟨n - 1, by omega⟩
  have hlen : (gridOf (fun x => U (0 :: x)) (columns Xo Dx)).length = size ((columns Xo Dx).map List.length) := by
    simp [gridOf, cartProd_length]
  simp only [List.replicate_succ, gridOf_cons, List.flatMap_cons]
  rw [← hlen, List.take_left']
  · unfold gridOf getGrid
    rw [zipWith_map_same]
  · rfl

/-! ### normalisation -/

theorem sumQ_append (a b : List Rat) : sumQ (a ++ b) = sumQ a + sumQ b := by
  unfold sumQ
  induction a with
  | nil => simp only [List.nil_append, List.foldr_nil]; grind
  | cons x a ih => simp only [List.cons_append, List.foldr_cons, ih]; grind

theorem sumQ_flatten : ∀ ls : List (List Rat), sumQ ls.flatten = sumQ (ls.map sumQ)
  | [] => rfl
  | l :: ls => by
    rw [List.flatten_cons, sumQ_append, sumQ_flatten ls]
    rfl

theorem sumQ_map_div (c : Rat) : ∀ l : List Rat, sumQ (l.map (fun x => x / c)) = sumQ l / c
  | [] => by simp only [List.map_nil, sumQ, List.foldr_nil]; grind
  | x :: l => by
    have ih := sumQ_map_div c l
    simp only [sumQ, List.map_cons, List.foldr_cons] at ih ⊢
    rw [ih]; grind

theorem length_flatten_uniform (M : Nat) : ∀ ls : List (List Rat), (∀ l ∈ ls, l.length = M) →
    ls.flatten.length = ls.length * M
  | [], _ => by simp
  | l :: ls, h => by
    rw [List.flatten_cons, List.length_append, h l (List.mem_cons_self),
      length_flatten_uniform M ls (fun l' hl' => h l' (List.mem_cons_of_mem _ hl')), List.length_cons,
      Nat.succ_mul, Nat.add_comm]

/-- the mean of the per-entry means of equally long component lists is the joint mean -/
theorem mean_map_mean (M : Nat) (ls : List (List Rat)) (hM : ∀ l ∈ ls, l.length = M) :
    mean (ls.map mean) = mean ls.flatten := by
  have e1 : ls.map mean = (ls.map sumQ).map (fun x => x / (M : Rat)) := by
    rw [List.map_map]
    apply List.map_congr_left
    intro l hl
    simp [mean, hM l hl]
  have e2 : mean (ls.map mean) = sumQ (ls.map mean) / (ls.length : Rat) := by simp [mean]
  have e3 : mean ls.flatten = sumQ ls.flatten / ((ls.length * M : Nat) : Rat) := by
    simp [mean, length_flatten_uniform M ls hM]
  rw [e2, e3, sumQ_flatten, e1, sumQ_map_div, Rat.natCast_mul]
  grind

theorem sumQ_flatMap_replicate (g : Rat → Rat) (rep : Nat) : ∀ T : List Rat,
    sumQ ((T.flatMap (fun t => List.replicate rep t)).map g) = (rep : Rat) * sumQ (T.map g)
  | [] => by simp [sumQ]
  | t :: T => by
    have ih := sumQ_flatMap_replicate g rep T
    have hr : ∀ k : Nat, sumQ ((List.replicate k t).map g) = (k : Rat) * g t := by
      intro k
      induction k with
      | zero => simp [sumQ]
      | succ k ihk =>
        simp only [List.replicate_succ, List.map_cons, sumQ, List.foldr_cons] at ihk ⊢
        rw [ihk]; simp; grind
    rw [List.flatMap_cons, List.map_append, sumQ_append, ih, hr rep]
    simp only [List.map_cons, sumQ, List.foldr_cons]
    grind

/-- repeating every time `rep > 0` times does not change a mean over the times -/
theorem mean_flatMap_replicate (g : Rat → Rat) (rep : Nat) (hrep : rep ≠ 0) (T : List Rat) :
    mean ((T.flatMap (fun t => List.replicate rep t)).map g) = mean (T.map g) := by
  have hl : (T.flatMap (fun t => List.replicate rep t)).length = rep * T.length := by
    induction T with
    | nil => simp
    | cons t T ih => simp only [List.flatMap_cons, List.length_append, List.length_replicate, ih, List.length_cons]; grind
  have hr : (rep : Rat) ≠ 0 := by simpa using hrep
  unfold mean
  rw [sumQ_flatMap_replicate, List.length_map, List.length_map, hl, Rat.natCast_mul]
  grind

/-- **stationary normalisation term**: the SPINN branch on a batch equals the PINN branch on the list of grid
    points (every sample carries the same number `M` of solution components) -/
theorem normFwdStatio_eq_normRevStatio (U : List Rat → List Rat) (M : Nat) (hU : ∀ p, (U p).length = M)
    (X : List (List Rat)) (D : Nat) (L w : Rat) :
    normFwdStatio U X D L w = normRevStatio U (getGrid X D) L w := by
  unfold normFwdStatio normRevStatio gridOf getGrid
  show w * absSq (mean (List.map mean (List.map U (cartProd (columns X D)))) * L - 1) = _
  rw [mean_map_mean M _ (by intro l hl; obtain ⟨p, _, rfl⟩ := List.mem_map.mp hl; exact hU p)]

/-- **non-stationary normalisation term**: the SPINN branch (times repeated `rep > 0` times to the size of the
    sample batch, grid over `(t, x)`) equals the PINN branch on the times and the list of spatial grid points -/
theorem normFwdNonStatio_eq_normRevNonStatio (U : List Rat → List Rat) (M : Nat) (hU : ∀ p, (U p).length = M)
    (T : List Rat) (rep : Nat) (hrep : rep ≠ 0) (Xs : List (List Rat)) (Dx : Nat) (L w : Rat) :
    normFwdNonStatio U T rep Xs Dx L w = normRevNonStatio U T (getGrid Xs Dx) L w := by
  unfold normFwdNonStatio normRevNonStatio
  simp only [List.map_map]
  have e : ∀ t : Rat, mean (gridOf (fun x => mean (U (t :: x))) (columns Xs Dx))
      = mean ((getGrid Xs Dx).map (fun x => U (t :: x))).flatten := by
    intro t
    rw [← mean_map_mean M _ (by intro l hl; obtain ⟨p, _, rfl⟩ := List.mem_map.mp hl; exact hU _), List.map_map]
    rfl
  have e2 : ((fun r => absSq (mean r * L - 1)) ∘ fun t => gridOf (fun x => mean (U (t :: x))) (columns Xs Dx))
      = fun t => absSq (mean ((getGrid Xs Dx).map (fun x => U (t :: x))).flatten * L - 1) := by
    funext t; simp only [Function.comp, e t]
  rw [e2, mean_flatMap_replicate _ rep hrep T]

end Jinns.SpinnTerms

namespace Jinns.Grid
open Jinns.Calc Jinns.Operators

variable {F : Type}

/-! ## C. the forward-mode grid value at an index is the reverse-mode value at the corresponding point -/

/-- evaluation of a vector of fields at a point -/
def evalList (ev : F → List Rat → Rat) (fs : List F) (p : List Rat) : List Rat := fs.map (fun f => ev f p)

/-- on a batch `X` (`B` rows, `D` columns) the grid entry of multi-index `idx` of a pointwise function is the
    function at `(X[i_0][0], …, X[i_{D-1}][D-1])` -/
theorem gridOf_batch_index {β : Type} (g : List Rat → β) (X : List (List Rat)) (D : Nat) (idx : List Nat)
    (h : IdxIn X.length D idx) :
    (gridOf g (columns X D))[flatIndex (List.replicate D X.length) idx]?
      = some (g ((List.range D).map (fun k => (X.getD (idx.getD k 0) []).getD k 0))) := by
  have : gridOf g (columns X D) = (getGrid X D).map g := rfl
  rw [this, List.getElem?_map, getGrid_index X D idx h]
  rfl

/-- generic combination: two vectors of fields that are equal give, at every grid index, the same number as
    the second one at the selected point -/
theorem fwd_grid_eq_rev_point (ev : F → List Rat → Rat) (ff fr : List F) (e : ff = fr)
    (cols : List (List Rat)) (idx : List Nat) (hv : ValidIdx cols idx) :
    (gridOf (evalList ev ff) cols)[flatIndex (cols.map List.length) idx]?
      = some (evalList ev fr (pick 0 cols idx)) := by
  rw [e]; exact gridOf_index _ cols idx hv

/-- **Laplacian**: forward-mode grid entry = reverse-mode value at the grid point; every evaluation `ev`
    (the fields are equal), every dimension, both signatures, every grid -/
theorem lapFwd_grid_eq_lapRev_point (ops : FieldOps F) (hl : LawfulOps ops) (ev : F → List Rat → Rat)
    (d : Nat) (sig : Sig) (u : Nat → F) (cols : List (List Rat)) (idx : List Nat) (hv : ValidIdx cols idx) :
    (gridOf (evalList ev [lapFwd ops d u]) cols)[flatIndex (cols.map List.length) idx]?
      = some (evalList ev [lapRev ops d sig u] (pick 0 cols idx)) :=
  fwd_grid_eq_rev_point ev _ _ (by rw [lapFwd_eq_lapRev ops hl d sig u]) cols idx hv

theorem divFwd_grid_eq_divRev_point (ops : FieldOps F) (hl : LawfulOps ops) (ev : F → List Rat → Rat)
    (d : Nat) (sig : Sig) (u : Nat → F) (cols : List (List Rat)) (idx : List Nat) (hv : ValidIdx cols idx) :
    (gridOf (evalList ev [divFwd ops d u]) cols)[flatIndex (cols.map List.length) idx]?
      = some (evalList ev [divRev ops d sig u] (pick 0 cols idx)) :=
  fwd_grid_eq_rev_point ev _ _ (by rw [divFwd_eq_divRev ops hl d sig u]) cols idx hv

theorem vecLapFwd_grid_eq_vecLapRev_point (ops : FieldOps F) (hl : LawfulOps ops) (ev : F → List Rat → Rat)
    (d : Nat) (sig : Sig) (m : Nat) (u : Nat → F) (cols : List (List Rat)) (idx : List Nat)
    (hv : ValidIdx cols idx) :
    (gridOf (evalList ev (vecLapFwd ops d m u)) cols)[flatIndex (cols.map List.length) idx]?
      = some (evalList ev (vecLapRev ops d sig m u) (pick 0 cols idx)) :=
  fwd_grid_eq_rev_point ev _ _ (vecLapFwd_eq_vecLapRev ops hl d sig m u) cols idx hv

theorem advFwd_grid_eq_advRev_point (ops : FieldOps F) (hl : LawfulOps ops) (ev : F → List Rat → Rat)
    (sig : Sig) (u : Nat → F) (cols : List (List Rat)) (idx : List Nat) (hv : ValidIdx cols idx) :
    (gridOf (evalList ev (advFwd ops u)) cols)[flatIndex (cols.map List.length) idx]?
      = some (evalList ev (advRev ops sig u) (pick 0 cols idx)) :=
  fwd_grid_eq_rev_point ev _ _ (advFwd_eq_advRev ops hl sig u) cols idx hv

open Jinns.Residuals in
/-- **built-in residuals** (Burgers, Fisher-KPP, mass conservation, Navier-Stokes): same statement -/
theorem residualsFwd_grid_eq_rev_point (ops : FieldOps F) (hl : LawfulOps ops) (ev : F → List Rat → Rat)
    (ext : Ext F) (d : Nat) (Tmax nu D r g rho : Rat) (u : Nat → F) (p : F)
    (cols : List (List Rat)) (idx : List Nat) (hv : ValidIdx cols idx) :
    (gridOf (evalList ev [burgersFwd ops Tmax nu (u 0)]) cols)[flatIndex (cols.map List.length) idx]?
        = some (evalList ev [burgersRev ops Tmax nu (u 0)] (pick 0 cols idx))
    ∧ (gridOf (evalList ev [fisherFwd ops ext d Tmax D r g (u 0)]) cols)[flatIndex (cols.map List.length) idx]?
        = some (evalList ev [fisherRev ops ext d Tmax D r g (u 0)] (pick 0 cols idx))
    ∧ (gridOf (evalList ev [massFwd ops d u]) cols)[flatIndex (cols.map List.length) idx]?
        = some (evalList ev [massRev ops d u] (pick 0 cols idx))
    ∧ (gridOf (evalList ev (nsFwd ops nu rho u p)) cols)[flatIndex (cols.map List.length) idx]?
        = some (evalList ev (nsRev ops nu rho u p) (pick 0 cols idx)) :=
  ⟨fwd_grid_eq_rev_point ev _ _ (by rw [burgersFwd_eq_burgersRev ops hl]) cols idx hv,
   fwd_grid_eq_rev_point ev _ _ (by rw [fisherFwd_eq_fisherRev ops hl]) cols idx hv,
   fwd_grid_eq_rev_point ev _ _ (by rw [massFwd_eq_massRev ops hl]) cols idx hv,
   fwd_grid_eq_rev_point ev _ _ (nsFwd_eq_nsRev ops hl nu rho u p) cols idx hv⟩

open Jinns.Residuals in
/-- **Fokker-Planck residual**: for every evaluation that is additive at every point -/
theorem fpeFwd_grid_eq_fpeRev_point (ops : FieldOps F) (hl : LawfulOps ops) (ev : F → List Rat → Rat)
    (he : ∀ p, EvalHom ops (fun f => ev f p)) (drift : Nat → F) (D : Nat → Nat → Rat) (Tmax : Rat) (u : F)
    (cols : List (List Rat)) (idx : List Nat) (hv : ValidIdx cols idx) :
    (gridOf (ev (fpeFwd ops drift D Tmax u)) cols)[flatIndex (cols.map List.length) idx]?
      = some (ev (fpeRev ops drift D Tmax u) (pick 0 cols idx)) := by
  rw [gridOf_index _ cols idx hv]
  congr 1
  exact fpeFwd_eq_fpeRev ops hl _ (he _) drift D Tmax u

/-! ## E. transfer to the executable instance -/

theorem foldr_add_append (a b : List Rat) :
    (a ++ b).foldr (· + ·) 0 = a.foldr (· + ·) 0 + b.foldr (· + ·) 0 := by
  induction a with
  | nil => simp only [List.nil_append, List.foldr_nil]; grind
  | cons x a ih => simp only [List.cons_append, List.foldr_cons, ih]; grind

theorem polyEval_append (p q : Poly) (pt : List Rat) : Poly.eval (p ++ q) pt = Poly.eval p pt + Poly.eval q pt := by
  unfold Poly.eval
  rw [List.map_append, foldr_add_append]

theorem polyEval_scale (c : Rat) (p : Poly) (pt : List Rat) : Poly.eval (Poly.scale c p) pt = c * Poly.eval p pt := by
  unfold Poly.eval Poly.scale
  induction p with
  | nil => simp
  | cons m p ih =>
    simp only [List.map_cons, List.foldr_cons, List.map_map] at ih ⊢
    rw [ih]
    simp only [Poly.monoEval]
    grind

/-- evaluation of exact polynomials at a point respects sums and scalar multiples -/
theorem polyEvalHom (pt : List Rat) : Jinns.Residuals.EvalHom polyOps (fun p => Poly.eval p pt) where
  add := fun a b => polyEval_append a b pt
  smul := by
    intro c a
    show Poly.eval (Poly.smul c a) pt = c * Poly.eval a pt
    unfold Poly.smul
    by_cases h0 : c = 0
    · simp [h0, Poly.eval]
    · by_cases h1 : c = 1
      · simp [h1]
      · simp only [h0, h1, if_false]; exact polyEval_scale c a pt

/-- on exact polynomials the forward-mode and the reverse-mode operator are the same polynomials: what the
    driver of C11 evaluates on the grid is what the driver of C01 evaluates at the points -/
theorem runFwd_eq_runRev (op : OpName) (sig : Sig) (d m : Nat) (u : List Poly) (nu rho : Rat) :
    runFwd op d m u nu rho = runRev op sig d m u nu rho := by
  cases op
  · simp only [runFwd, runRev, lapFwd_eq_lapRev polyOps polyOps_lawful d sig]
  · simp only [runFwd, runRev, divFwd_eq_divRev polyOps polyOps_lawful d sig]
  · simp only [runFwd, runRev, vecLapFwd_eq_vecLapRev polyOps polyOps_lawful d sig]
  · simp only [runFwd, runRev, advFwd_eq_advRev polyOps polyOps_lawful sig]
  · simp only [runFwd, runRev, Jinns.Residuals.nsFwd_eq_nsRev polyOps polyOps_lawful]

end Jinns.Grid

namespace Jinns.Holds
open Jinns.Grid Jinns.Calc Jinns.Operators

/-! ## F. the model's trace satisfies `Holds.C11` -/

theorem validIdx_of_mem_allIdx {α : Type} : ∀ (ls : List (List α)) (idx : List Nat),
    idx ∈ allIdx (ls.map List.length) → ValidIdx ls idx
  | [], idx, h => by
    simp [allIdx, cartProd] at h
    subst h; trivial
  | l :: ls, idx, h => by
    simp only [allIdx, List.map_cons, cartProd, List.mem_flatMap, List.mem_map, List.mem_range] at h
    obtain ⟨i, hi, tl, htl, rfl⟩ := h
    exact ⟨hi, validIdx_of_mem_allIdx ls tl htl⟩

theorem lookupRev_map (h : List Rat → List Rat) : ∀ (l : List (List Rat)) (pt : List Rat), pt ∈ l →
    lookupRev (l.map (fun p => (p, h p))) pt = some (h pt)
  | [], _, hm => by simp at hm
  | x :: l, pt, hm => by
    unfold lookupRev
    simp only [List.map_cons, List.find?_cons]
    by_cases hx : x = pt
    · subst hx; simp
    · have hne : (x == pt) = false := by simpa using hx
      simp only [hne]
      have hm' : pt ∈ l := by
        rcases List.mem_cons.mp hm with r | r
        · exact absurd r.symm hx
        · exact r
      exact lookupRev_map h l pt hm'

/-- **the model's trace satisfies `Holds.C11`**: whenever the forward-mode function `g` and the reverse-mode
    function `h` agree pointwise (Part A for every operator and residual), the observation made of the
    forward grid over ANY per-axis coordinate lists and of the reverse values at all grid points is accepted -/
theorem model_holdsC11 (g h : List Rat → List Rat) (e : ∀ p, g p = h p) (cols : List (List Rat)) :
    holdsC11 { cols := cols, fwd := gridOf g cols, rev := (cartProd cols).map (fun p => (p, h p)) } = none := by
  unfold holdsC11
  have hlen : (gridOf g cols).length = size (cols.map List.length) := by simp [gridOf, cartProd_length]
  simp only [hlen, bne_self_eq_false, Bool.false_eq_true, if_false]
  rw [List.findSome?_eq_none_iff]
  intro idx hidx
  have hv : ValidIdx cols idx := validIdx_of_mem_allIdx cols idx hidx
  have hmem : pick 0 cols idx ∈ cartProd cols := List.mem_of_getElem? (cartProd_getElem 0 cols idx hv)
  unfold checkIdx
  simp only [lookupRev_map h _ _ hmem, gridOf_index g cols idx hv, e]
  simp

/-- instance: the operators (and the Navier-Stokes residual) of the model on exact polynomials -/
theorem model_holdsC11_ops (op : OpName) (sig : Sig) (d m : Nat) (u : List Poly) (nu rho : Rat)
    (cols : List (List Rat)) :
    holdsC11 { cols := cols, fwd := gridOf (evalAll (runFwd op d m u nu rho)) cols,
               rev := (cartProd cols).map (fun p => (p, evalAll (runRev op sig d m u nu rho) p)) } = none :=
  model_holdsC11 _ _ (fun p => by rw [runFwd_eq_runRev op sig]) cols

end Jinns.Holds

/-! ## non-vacuity: the hypotheses are met by concrete, non-trivial instances -/

namespace Jinns.Grid
open Jinns.Calc Jinns.Operators Jinns.Holds

/-- `LawfulOps` is inhabited by the executable instance -/
example : LawfulOps polyOps := polyOps_lawful

/-- `EvalHom` is inhabited at every point -/
example : Jinns.Residuals.EvalHom polyOps (fun p => Poly.eval p [1, 2, 3]) := polyEvalHom _

/-- the tensor product of two axes, first axis slowest -/
example : cartProd [[10, 20], [1, 2, 3]] = [[10, 1], [10, 2], [10, 3], [20, 1], [20, 2], [20, 3]] := by decide

example : flatIndex [2, 3] [1, 2] = 5 := by decide

example : ValidIdx [[10, 20], [1, 2, 3]] [1, 2] := ⟨by decide, by decide, trivial⟩

example : (cartProd [[10, 20], [1, 2, 3]])[flatIndex [2, 3] [1, 2]]? = some (pick 0 [[10, 20], [1, 2, 3]] [1, 2]) :=
  cartProd_getElem 0 _ _ ⟨by decide, by decide, trivial⟩

example : IdxIn 3 2 [2, 0] := ⟨rfl, by decide⟩

/-- `jvp_oneHot` on a concrete field, `d = 3`, `i = 1`: `∂/∂x_1 (t·x_0·x_1²·x_2)` (exponent lists) -/
example : (jvpX polyOps 3 (oneHot 1) [(1, [1, 1, 2, 1])]).map (·.2) = [[1, 1, 1, 1]] := by
  rw [jvp_oneHot polyOps polyOps_lawful 3 1 (by omega)]; decide

/-- forward and reverse Laplacian of `x_0²·x_1²` in `d = 2`: the same two monomials -/
example : (lapFwd polyOps 2 (fun _ => [(1, [0, 2, 2])])).map (·.2) = [[0, 0, 2], [0, 2, 0]] := by
  rw [lapFwd_eq_lapRev polyOps polyOps_lawful 2 .noTime]; decide

/-- every output list of the twin of a separable network has `M` components: the hypothesis `hU` of the
    normalisation theorems holds for the networks C11 is about -/
theorem twin_length (feat : Nat → Rat → List Rat) (R M D : Nat) (p : List Rat) :
    (twin feat R M D p).length = M := by simp [twin]

example (feat : Nat → Rat → List Rat) (X : List (List Rat)) (L w : Rat) :
    Jinns.SpinnTerms.normFwdStatio (twin feat 2 3 2) X 2 L w
      = Jinns.SpinnTerms.normRevStatio (twin feat 2 3 2) (getGrid X 2) L w :=
  Jinns.SpinnTerms.normFwdStatio_eq_normRevStatio _ 3 (twin_length feat 2 3 2) X 2 L w

end Jinns.Grid

