/-
C04 — Boundary term: Dirichlet / outward-normal Neumann conditions per facet.
Property theorems about `JinnsModel/Boundary.lean`, for every network (value and derivative
oracles), boundary function, weight, border batch (any number of rows) and specification.
-/
import JinnsModel.Boundary
import JinnsModel.HoldsC04
import JinnsProofs.C03
import Mathlib.Tactic.Ring
import Mathlib.Tactic.FieldSimp
import Mathlib.Tactic.Linarith
import Mathlib.Tactic.NormNum
import Mathlib.Tactic.IntervalCases
import Mathlib.Algebra.BigOperators.Group.List.Basic
import Mathlib.Algebra.BigOperators.Ring.List
import Mathlib.Algebra.Order.Field.Rat

namespace Jinns.Boundary
open Jinns.LossTerms

/-! ### the normal tables are the outward unit normals -/

/-- outward unit normal of facet `k` of a `d`-dimensional box whose facets are ordered
    xmin, xmax, ymin, ymax, …: `−e_{k/2}` on a "min" facet, `+e_{k/2}` on a "max" facet -/
def outward (d k : Nat) : List ℚ :=
  (List.range d).map fun j => if j = k / 2 then (if k % 2 = 0 then -1 else 1) else 0

/-- `Holds.C04` is stated with the same definition of the outward normal -/
theorem outward_eq_holds : outward = Jinns.Holds.c04Outward := rfl

/-- **the code's normal tables are the outward normals**, in 1-D (`xmin, xmax`) and 2-D
    (`xmin, xmax, ymin, ymax`). -/
theorem normal_eq_outward (d k : Nat) (hd : d = 1 ∨ d = 2) (hk : k < 2 * d) :
    normal d k = outward d k := by
  rcases hd with rfl | rfl
  · interval_cases k <;> simp [normal, normal1, outward, List.range_succ]
  · interval_cases k <;> simp [normal, normal2, outward, List.range_succ]

/-! ### the sum over facets -/

/-- squared mismatch at one border point, weighted -/
def pointVal (w : ℚ) (s : FacetSpec) (n : List ℚ) (uval : List ℚ → List ℚ)
    (jac : List ℚ → List (List ℚ)) (p : List ℚ) : ℚ :=
  w * ((mismatch s n uval jac p).map sqr).sum

theorem sumFacets_append (g : FacetSpec → Nat → ℚ) (l₁ l₂ : List (Option FacetSpec)) (i : Nat) :
    sumFacets g (l₁ ++ l₂) i = sumFacets g l₁ i + sumFacets g l₂ (i + l₁.length) := by
  induction l₁ generalizing i with
  | nil => simp [sumFacets]
  | cons o l ih =>
    cases o with
    | none =>
      simp only [List.cons_append, sumFacets, List.length_cons, ih]
      congr 2; omega
    | some s =>
      simp only [List.cons_append, sumFacets, List.length_cons, ih, add_assoc]
      congr 3; omega

/-- contribution of facet `k` of a list of per-facet configurations -/
def contribution (g : FacetSpec → Nat → ℚ) (l : List (Option FacetSpec)) (k : Nat) : ℚ :=
  match l[k]? with
  | some (some s) => g s k
  | _ => 0

theorem sumFacets_eq_sum_range (g : FacetSpec → Nat → ℚ) (l : List (Option FacetSpec)) (i : Nat) :
    sumFacets g l i =
      ((List.range l.length).map fun k => contribution (fun s j => g s (i + j)) l k).sum := by
  induction l generalizing i with
  | nil => simp [sumFacets]
  | cons o l ih =>
    have hshift : ∀ k, contribution (fun s j => g s (i + j)) (o :: l) (k + 1)
        = contribution (fun s j => g s (i + 1 + j)) l k := by
      intro k
      simp only [contribution, List.getElem?_cons_succ]
      have : i + (k + 1) = i + 1 + k := by omega
      rw [this]
    have hmap : (List.map (fun k => contribution (fun s j => g s (i + 1 + j)) l k) (List.range l.length))
        = List.map (fun k => contribution (fun s j => g s (i + j)) (o :: l) (k + 1))
            (List.range l.length) := by
      apply List.map_congr_left
      intro k _
      exact (hshift k).symm
    cases o with
    | none =>
      simp only [sumFacets, List.length_cons, List.range_succ_eq_map, List.map_cons, List.sum_cons,
        List.map_map, ih (i + 1), hmap]
      simp [contribution, Function.comp_def]
    | some s =>
      simp only [sumFacets, List.length_cons, List.range_succ_eq_map, List.map_cons, List.sum_cons,
        List.map_map, ih (i + 1), hmap]
      simp [contribution, Function.comp_def]

/-- **the boundary term is the sum over the facets that carry a condition of that facet's own
    term** (`facetLoss … k` reads `border[..., k]` only, see `facetLoss_eq`); a facet without
    condition, or beyond the specification, contributes `0`. -/
theorem boundary_eq_sum_facets (w : ℚ) (spec : Spec) (hasTime : Bool) (uval : List ℚ → List ℚ)
    (jac : List ℚ → List (List ℚ)) (b : Border) :
    boundary w spec hasTime uval jac b =
      ((List.range (spec.facets b).length).map fun k =>
        contribution (fun s j => facetLoss w s hasTime uval jac b j) (spec.facets b) k).sum := by
  unfold boundary
  rw [sumFacets_eq_sum_range]
  simp

/-- **one facet's term is `w` times the mean, over exactly that facet's own points, of the squared
    mismatch computed with that facet's own outward normal** (dimensions 1 and 2). -/
theorem facetLoss_eq (w : ℚ) (s : FacetSpec) (hasTime : Bool) (uval : List ℚ → List ℚ)
    (jac : List ℚ → List (List ℚ)) (b : Border) (k : Nat)
    (hd : spaceDim hasTime b = 1 ∨ spaceDim hasTime b = 2) (hk : k < 2 * spaceDim hasTime b) :
    facetLoss w s hasTime uval jac b k =
      w * mean ((facetPts b k).map fun p =>
        ((mismatch s (outward (spaceDim hasTime b) k) uval jac p).map sqr).sum) := by
  unfold facetLoss
  rw [normal_eq_outward _ _ hd hk]
  exact mean_map_mul_left w _ _

/-- **a facet set to `None` contributes nothing**: the other facets keep their own index (hence
    their own points and normal) and no function is evaluated for the skipped one (a `none` entry
    carries none). -/
theorem none_facet_contributes_zero (g : FacetSpec → Nat → ℚ) (l₁ l₂ : List (Option FacetSpec))
    (i : Nat) :
    sumFacets g (l₁ ++ none :: l₂) i = sumFacets g l₁ i + sumFacets g l₂ (i + l₁.length + 1) := by
  rw [sumFacets_append]
  simp [sumFacets]

/-- **a per-facet dictionary with the same condition on every facet is the global form** -/
theorem perFacet_same_eq_global (w : ℚ) (s : FacetSpec) (hasTime : Bool) (uval : List ℚ → List ℚ)
    (jac : List ℚ → List (List ℚ)) (b : Border) :
    boundary w (.perFacet (List.replicate (nFacets b) (some s))) hasTime uval jac b =
      boundary w (.global s) hasTime uval jac b := rfl

/-! ### independence of the shape `f` returns -/

/-- the same boundary function, returning a length-one array wherever it returned a 0-d scalar -/
def FacetSpec.reshape (s : FacetSpec) : FacetSpec :=
  { s with f := fun p => match s.f p with
      | .scalar a => .vec [a]
      | v => v }

def Spec.reshape : Spec → Spec
  | .global s => .global s.reshape
  | .perFacet l => .perFacet (l.map fun o => o.map FacetSpec.reshape)

theorem bcast_scalar_eq_vec1 (a : ℚ) (k : Nat) : (FRet.scalar a).bcast k = (FRet.vec [a]).bcast k := by
  simp [FRet.bcast]

/-- per point, the mismatch does not depend on whether `f` returns a scalar or a length-one array -/
theorem mismatch_fshape_indep (s : FacetSpec) (n : List ℚ) (uval : List ℚ → List ℚ)
    (jac : List ℚ → List (List ℚ)) (p : List ℚ) :
    mismatch s.reshape n uval jac p = mismatch s n uval jac p := by
  have h : ∀ k, ((s.reshape).f p).bcast k = (s.f p).bcast k := by
    intro k
    simp only [FacetSpec.reshape]
    cases hf : s.f p with
    | scalar a => simp [FRet.bcast]
    | vec l => rfl
  unfold mismatch
  cases hc : s.cond <;> simp [FacetSpec.reshape, hc] <;> simpa [FacetSpec.reshape] using congrArg _ (h _)

theorem facetLoss_reshape (w : ℚ) (s : FacetSpec) (hasTime : Bool) (uval : List ℚ → List ℚ)
    (jac : List ℚ → List (List ℚ)) (b : Border) (k : Nat) :
    facetLoss w s.reshape hasTime uval jac b k = facetLoss w s hasTime uval jac b k := by
  simp only [facetLoss, mismatch_fshape_indep]

/-- **the boundary term does not depend on whether `f` returns a scalar or a length-one array** -/
theorem boundary_fshape_indep (w : ℚ) (spec : Spec) (hasTime : Bool) (uval : List ℚ → List ℚ)
    (jac : List ℚ → List (List ℚ)) (b : Border) :
    boundary w spec.reshape hasTime uval jac b = boundary w spec hasTime uval jac b := by
  unfold boundary
  cases spec with
  | global s =>
    simp only [Spec.reshape, Spec.facets]
    generalize nFacets b = n
    generalize (0 : Nat) = i
    induction n generalizing i with
    | zero => simp [sumFacets]
    | succ n ih => simp [List.replicate_succ, sumFacets, facetLoss_reshape, ih]
  | perFacet l =>
    simp only [Spec.reshape, Spec.facets]
    generalize (0 : Nat) = i
    induction l generalizing i with
    | nil => simp [sumFacets]
    | cons o l ih =>
      cases o with
      | none => simp [sumFacets, ih]
      | some s => simp [sumFacets, facetLoss_reshape, ih]

/-! ### an exactly matched condition gives 0 -/

theorem sum_map_sq_zero (l : List ℚ) (h : ∀ x ∈ l, x = 0) : (l.map sqr).sum = 0 := by
  induction l with
  | nil => simp
  | cons a l ih =>
    have ha : a = 0 := h a (by simp)
    have hl : ∀ x ∈ l, x = 0 := fun x hx => h x (by simp [hx])
    simp [ih hl, ha, LossTerms.sqr]

/-- if `f` equals the selected components of `u` (Dirichlet) or its derivative along the facet's
    normal (Neumann) at every point of the facet, the facet's term is exactly `0` -/
theorem facetLoss_zero_of_match (w : ℚ) (s : FacetSpec) (hasTime : Bool) (uval : List ℚ → List ℚ)
    (jac : List ℚ → List (List ℚ)) (b : Border) (k : Nat)
    (h : ∀ p ∈ facetPts b k, ∀ x ∈ mismatch s (normal (spaceDim hasTime b) k) uval jac p, x = 0) :
    facetLoss w s hasTime uval jac b k = 0 := by
  unfold facetLoss
  have : ∀ pts : List (List ℚ), (∀ p ∈ pts, p ∈ facetPts b k) →
      (pts.map fun p => w * ((mismatch s (normal (spaceDim hasTime b) k) uval jac p).map sqr).sum)
        = pts.map fun _ => (0 : ℚ) := by
    intro pts hp
    apply List.map_congr_left
    intro p hpm
    rw [sum_map_sq_zero _ (h p (hp p hpm)), mul_zero]
  rw [this _ (fun p hp => hp)]
  simp [mean]

/-! ### time points -/

theorem getD_replicate (n : Nat) (t : ℚ) (k : Nat) (hk : k < n) :
    (List.replicate n t)[k]?.getD 0 = t := by
  simp [hk]

/-- facet `k` of a times × border product batch: every time paired with every point of facet `k`
    of the border batch, times varying slowest -/
theorem facetPts_productRows (ts : List ℚ) (dx : Border) (k : Nat) (hk : k < nFacets dx) :
    facetPts (productRows ts dx) k = ts.flatMap fun t => (facetPts dx k).map fun p => t :: p := by
  induction ts with
  | nil => simp [productRows, facetPts]
  | cons t ts ih =>
    have ih' : List.map (fun row => List.map (fun c => c.getD k 0) row) (productRows ts dx)
        = ts.flatMap fun t => (facetPts dx k).map fun p => t :: p := ih
    simp only [productRows, facetPts, List.flatMap_cons, List.map_append, List.map_map] at ih' ⊢
    rw [ih']
    congr 1
    apply List.map_congr_left
    intro row _
    simp [getD_replicate _ _ _ hk]

/-- **on a times × border product batch the facet's term is the mean over the times of the
    single-time terms**: the mean over the `nt × nb` product rows. -/
theorem facetLoss_product_eq_mean_over_times (val : List ℚ → ℚ) (ts : List ℚ) (dx : Border)
    (k : Nat) (hk : k < nFacets dx) :
    mean ((facetPts (productRows ts dx) k).map val) =
      mean (ts.map fun t => mean ((facetPts (productRows [t] dx) k).map val)) := by
  rw [facetPts_productRows ts dx k hk]
  have h1 : ∀ t, facetPts (productRows [t] dx) k = (facetPts dx k).map fun p => t :: p := by
    intro t
    rw [facetPts_productRows [t] dx k hk]
    simp
  simp only [h1, List.map_flatMap]
  exact mean_flatMap_const ts _ (facetPts dx k).length (by intro t; simp)

/-- **independence of the number of time points**: when the mismatch at `(t, p)` does not depend on
    `t`, the term on `ts × border` is the term on the border alone, for any non-empty `ts`. -/
theorem facetLoss_time_indep (val : List ℚ → ℚ) (val0 : List ℚ → ℚ) (ts : List ℚ) (dx : Border)
    (k : Nat) (hk : k < nFacets dx) (hts : ts ≠ [])
    (h : ∀ t p, val (t :: p) = val0 p) :
    mean ((facetPts (productRows ts dx) k).map val) = mean ((facetPts dx k).map val0) := by
  rw [facetLoss_product_eq_mean_over_times val ts dx k hk]
  have h1 : ∀ t, mean ((facetPts (productRows [t] dx) k).map val) = mean ((facetPts dx k).map val0) := by
    intro t
    rw [facetPts_productRows [t] dx k hk]
    simp [List.map_map, Function.comp_def, h]
  simp only [h1]
  unfold mean
  have hl : (ts.length : ℚ) ≠ 0 := by
    have : ts.length ≠ 0 := by simpa using hts
    exact_mod_cast this
  simp only [List.map_const', List.sum_replicate, List.length_replicate, nsmul_eq_mul, List.length_map]
  field_simp

theorem mean_append_self (l : List ℚ) : mean (l ++ l) = mean l := by
  simp only [mean, List.sum_append, List.length_append, Nat.cast_add]
  have e : ((l.length : ℚ) + (l.length : ℚ)) = 2 * (l.length : ℚ) := by ring
  rw [e, div_eq_mul_inv, div_eq_mul_inv, mul_inv]
  ring

/-- **repeating the rows of the batch (twice as many time points, same time set) leaves the
    facet's term unchanged** -/
theorem facetLoss_dup_rows (w : ℚ) (s : FacetSpec) (hasTime : Bool) (uval : List ℚ → List ℚ)
    (jac : List ℚ → List (List ℚ)) (b : Border) (k : Nat) :
    facetLoss w s hasTime uval jac (b ++ b) k = facetLoss w s hasTime uval jac b k := by
  have hd : spaceDim hasTime (b ++ b) = spaceDim hasTime b := by
    cases b <;> simp [spaceDim, nCoords]
  unfold facetLoss
  rw [hd]
  simp only [facetPts, List.map_append]
  exact mean_append_self _

/-! ### separable networks: the mean over the tensor grid is the mean over the facet's points -/

/-- **a constant coordinate column only contributes multiplicity**: replacing a column all of whose
    entries equal `p` by the single entry `p` leaves the mean over the tensor grid unchanged. -/
theorem cart_mean_const_col (val : List ℚ → ℚ) (pre : List (List ℚ)) (c : List ℚ) (p : ℚ)
    (post : List (List ℚ)) (hc : ∀ a ∈ c, a = p) (hne : c ≠ []) :
    mean ((cart (pre ++ c :: post)).map val) = mean ((cart (pre ++ [p] :: post)).map val) := by
  induction pre generalizing val with
  | nil =>
    simp only [List.nil_append, cart, List.map_flatMap, List.flatMap_cons, List.flatMap_nil,
      List.append_nil]
    rw [mean_flatMap_const c _ (cart post).length (by intro t; simp)]
    have : (c.map fun t => mean (List.map val (List.map (fun q => t :: q) (cart post)))) =
        c.map fun _ => mean (List.map val (List.map (fun q => p :: q) (cart post))) := by
      apply List.map_congr_left
      intro a ha
      rw [hc a ha]
    rw [this, mean_map_const c _ hne]
  | cons col pre ih =>
    simp only [List.cons_append, cart, List.map_flatMap, List.map_map]
    rw [mean_flatMap_const col _ (cart (pre ++ c :: post)).length (by intro t; simp),
      mean_flatMap_const col _ (cart (pre ++ [p] :: post)).length (by intro t; simp)]
    congr 1
    apply List.map_congr_left
    intro a _
    exact ih (val ∘ fun q => a :: q)

theorem flatMap_single {α β : Type} (f : α → β) (l : List α) : (l.flatMap fun a => [f a]) = l.map f := by
  induction l with
  | nil => rfl
  | cons a l ih => simp [List.flatMap_cons, ih]

theorem cart_pin_first (c : ℚ) (ys : List ℚ) : cart [[c], ys] = ys.map fun y => [c, y] := by
  simp [cart, flatMap_single]

theorem cart_pin_second (xs : List ℚ) (c : ℚ) : cart [xs, [c]] = xs.map fun x => [x, c] := by
  induction xs with
  | nil => simp [cart]
  | cons x xs ih =>
    simp only [cart, List.flatMap_cons, List.flatMap_nil, List.append_nil, List.map_cons, List.map_nil] at ih ⊢
    rw [ih]
    simp

theorem gridPts_two (pts : List (List ℚ)) :
    gridPts 2 pts = cart [pts.map fun q => q.getD 0 0, pts.map fun q => q.getD 1 0] := rfl

theorem gridPts_three (pts : List (List ℚ)) :
    gridPts 3 pts =
      cart [pts.map fun q => q.getD 0 0, pts.map fun q => q.getD 1 0, pts.map fun q => q.getD 2 0] := rfl

/-- **2-D facet with its first coordinate pinned (xmin, xmax)**: the mean over the SPINN grid is the
    mean over the facet's own points. -/
theorem grid_mean_eq_rows_first_pinned (val : List ℚ → ℚ) (pts : List (List ℚ)) (c : ℚ)
    (h : ∀ q ∈ pts, ∃ y, q = [c, y]) (hne : pts ≠ []) :
    mean ((gridPts 2 pts).map val) = mean (pts.map val) := by
  have hcol : ∀ a ∈ pts.map (fun q => q.getD 0 0), a = c := by
    intro a ha
    obtain ⟨q, hq, rfl⟩ := List.mem_map.1 ha
    obtain ⟨y, rfl⟩ := h q hq
    simp
  have hg := cart_mean_const_col val [] (pts.map fun q => q.getD 0 0) c [pts.map fun q => q.getD 1 0]
    hcol (by simpa using hne)
  rw [gridPts_two]
  simp only [List.nil_append] at hg
  rw [hg, cart_pin_first]
  congr 1
  rw [List.map_map, List.map_map]
  apply List.map_congr_left
  intro q hq
  obtain ⟨y, rfl⟩ := h q hq
  simp

/-- **facet with its second coordinate pinned (2-D ymin, ymax; 1-D non-stationary rows `(t, x_facet)`)**:
    the mean over the SPINN grid is the mean over the rows. -/
theorem grid_mean_eq_rows_second_pinned (val : List ℚ → ℚ) (pts : List (List ℚ)) (c : ℚ)
    (h : ∀ q ∈ pts, ∃ x, q = [x, c]) (hne : pts ≠ []) :
    mean ((gridPts 2 pts).map val) = mean (pts.map val) := by
  have hcol : ∀ a ∈ pts.map (fun q => q.getD 1 0), a = c := by
    intro a ha
    obtain ⟨q, hq, rfl⟩ := List.mem_map.1 ha
    obtain ⟨y, rfl⟩ := h q hq
    simp
  have hg := cart_mean_const_col val [pts.map fun q => q.getD 0 0] (pts.map fun q => q.getD 1 0) c []
    hcol (by simpa using hne)
  rw [gridPts_two]
  simp only [List.cons_append, List.nil_append] at hg
  rw [hg, cart_pin_second]
  congr 1
  rw [List.map_map, List.map_map]
  apply List.map_congr_left
  intro q hq
  obtain ⟨y, rfl⟩ := h q hq
  simp

/-- **non-stationary 2-D facet**: the SPINN grid of rows `(t, x, y)` with one space coordinate pinned
    is (times of the batch) × (the pinned value) × (free coordinates of the rows): the points at
    which `Holds.C04` states the condition for a separable network. -/
theorem grid_mean_times_cross (val : List ℚ → ℚ) (pts : List (List ℚ)) (c : ℚ) (hne : pts ≠ []) :
    ((∀ q ∈ pts, q.getD 1 0 = c) →
      mean ((gridPts 3 pts).map val) =
        mean ((cart [pts.map fun q => q.getD 0 0, [c], pts.map fun q => q.getD 2 0]).map val)) ∧
    ((∀ q ∈ pts, q.getD 2 0 = c) →
      mean ((gridPts 3 pts).map val) =
        mean ((cart [pts.map fun q => q.getD 0 0, pts.map fun q => q.getD 1 0, [c]]).map val)) := by
  constructor
  · intro h
    have hcol : ∀ a ∈ pts.map (fun q => q.getD 1 0), a = c := by
      intro a ha
      obtain ⟨q, hq, rfl⟩ := List.mem_map.1 ha
      exact h q hq
    have hg := cart_mean_const_col val [pts.map fun q => q.getD 0 0] (pts.map fun q => q.getD 1 0) c
      [pts.map fun q => q.getD 2 0] hcol (by simpa using hne)
    rw [gridPts_three]
    simpa using hg
  · intro h
    have hcol : ∀ a ∈ pts.map (fun q => q.getD 2 0), a = c := by
      intro a ha
      obtain ⟨q, hq, rfl⟩ := List.mem_map.1 ha
      exact h q hq
    have hg := cart_mean_const_col val [pts.map fun q => q.getD 0 0, pts.map fun q => q.getD 1 0]
      (pts.map fun q => q.getD 2 0) c [] hcol (by simpa using hne)
    rw [gridPts_three]
    simpa using hg

/-- the SPINN boundary term is again the sum over the facets that carry a condition -/
theorem boundarySpinn_eq_sum_facets (w : ℚ) (spec : Spec) (hasTime : Bool) (uval : List ℚ → List ℚ)
    (jac : List ℚ → List (List ℚ)) (b : Border) :
    boundarySpinn w spec hasTime uval jac b =
      ((List.range (spec.facets b).length).map fun k =>
        contribution (fun s j => facetLossSpinn w s hasTime uval jac b j) (spec.facets b) k).sum := by
  unfold boundarySpinn
  rw [sumFacets_eq_sum_range]
  simp

/-- **stationary 2-D SPINN = pointwise form**: on a facet whose pinned coordinate is constant, the
    SPINN facet term equals the row-by-row facet term (the property's mean over the facet's points). -/
theorem facetLossSpinn_eq_facetLoss_2d (w : ℚ) (s : FacetSpec) (uval : List ℚ → List ℚ)
    (jac : List ℚ → List (List ℚ)) (b : Border) (k : Nat) (c : ℚ) (hb : nCoords b = 2)
    (hne : b ≠ [])
    (h : (∀ q ∈ facetPts b k, ∃ y, q = [c, y]) ∨ (∀ q ∈ facetPts b k, ∃ x, q = [x, c])) :
    facetLossSpinn w s false uval jac b k = facetLoss w s false uval jac b k := by
  unfold facetLossSpinn facetLoss
  rw [hb]
  have hne' : facetPts b k ≠ [] := by simpa [facetPts] using hne
  rcases h with h | h
  · exact grid_mean_eq_rows_first_pinned _ _ c h hne'
  · exact grid_mean_eq_rows_second_pinned _ _ c h hne'

/-! ### non-vacuity -/

/-- the 2-D table on the four facets -/
example : normal 2 0 = [-1, 0] ∧ normal 2 1 = [1, 0] ∧ normal 2 2 = [0, -1] ∧ normal 2 3 = [0, 1] := by
  simp [normal, normal2]
example : normal 1 0 = [-1] ∧ normal 1 1 = [1] := by simp [normal, normal1]

/-- a 1-D Neumann condition with `f` = the outward normal derivative: `u = x²` on `[-1, 2]`,
    `u'(-1)·(-1) = 2`, `u'(2)·(+1) = 4`; each facet given its own `f`, the term is exactly `0`;
    with the inward sign it is not. -/
example :
    boundary 3 (.perFacet [some ⟨.neumann, none, fun _ => .scalar 2⟩, some ⟨.neumann, none, fun _ => .vec [4]⟩])
      false (fun p => [p.headD 0 * p.headD 0]) (fun p => [[2 * p.headD 0]]) [[[-1, 2]]] = 0 := by
  norm_num [boundary, Spec.facets, sumFacets, facetLoss, facetPts, mismatch, normal, normal1, spaceDim,
    nCoords, Slice.apply, dot, FRet.bcast, LossTerms.sub, mean, LossTerms.sqr]

example :
    boundary 3 (.perFacet [some ⟨.neumann, none, fun _ => .scalar (-2)⟩, none])
      false (fun p => [p.headD 0 * p.headD 0]) (fun p => [[2 * p.headD 0]]) [[[-1, 2]]] = 48 := by
  norm_num [boundary, Spec.facets, sumFacets, facetLoss, facetPts, mismatch, normal, normal1, spaceDim,
    nCoords, Slice.apply, dot, FRet.bcast, LossTerms.sub, mean, LossTerms.sqr]

/-- hypotheses of the product theorems are met: a 2-D border batch with 4 facets, two times -/
example : nFacets [[[-1, 2, 0, 1], [0, 1, -1, 2]]] = 4 := rfl
example : productRows [5, 7] [[[-1, 2], [3, 4]]] =
    [[[5, 5], [-1, 2], [3, 4]], [[7, 7], [-1, 2], [3, 4]]] := by
  simp [productRows, nFacets]

/-- the grid of a 2-point xmin facet: each of the facet's points twice -/
example : gridPts 2 [[-1, 5], [-1, 7]] = [[-1, 5], [-1, 7], [-1, 5], [-1, 7]] := by
  rw [gridPts_two]; simp [cart]

end Jinns.Boundary
