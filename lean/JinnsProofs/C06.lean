/-
C06 - Derivative keys route each loss term's gradient to exactly the selected parameter groups.
Property theorems about `JinnsModel/DerivKeys.lean`, for every family of loss terms (any values, any
differential tables = any linear differentials), every mask assignment, every group `g`, every
tangent direction `v`, every number of equation parameters.
-/
import JinnsModel.DerivKeys
import JinnsModel.HoldsC06
import Mathlib.Tactic.Ring
import Mathlib.Algebra.Order.Field.Rat

namespace Jinns.DerivKeys

/-! ### helper lemmas on `dot` and `jvpD` -/

theorem dot_nil_right (r : Vec) : dot r [] = 0 := by cases r <;> simp [dot]

theorem jvpD_nil_right (d : List Vec) : jvpD d [] = 0 := by cases d <;> simp [jvpD]

theorem dot_zeroVec_left (r v : Vec) : dot (zeroVec r) v = 0 := by
  induction r generalizing v with
  | nil => simp [zeroVec, dot]
  | cons a as ih =>
    cases v with
    | nil => simp [zeroVec, dot]
    | cons b bs =>
      have := ih bs
      simp only [zeroVec, List.map_cons, dot] at this ⊢
      rw [this]; ring

theorem dot_zeroVec_right (r v : Vec) : dot r (zeroVec v) = 0 := by
  induction r generalizing v with
  | nil => simp [dot]
  | cons a as ih =>
    cases v with
    | nil => simp [zeroVec, dot]
    | cons b bs =>
      have := ih bs
      simp only [zeroVec, List.map_cons, dot] at this ⊢
      rw [this]; ring

/-- a vector all of whose entries are zero is killed by every row -/
theorem dot_of_all_zero (r v : Vec) (h : ∀ x ∈ v, x = 0) : dot r v = 0 := by
  induction r generalizing v with
  | nil => simp [dot]
  | cons a as ih =>
    cases v with
    | nil => simp [dot]
    | cons b bs =>
      have hb : b = 0 := h b (by simp)
      have := ih bs (fun x hx => h x (by simp [hx]))
      simp only [dot, this, hb]; ring

/-! ### linearity of the differential (the AD contract holds by construction) -/

def vsmul (c : Rat) (v : Vec) : Vec := v.map (c * ·)
def tsmul (c : Rat) (w : Tangent) : Tangent := w.map (vsmul c)
def vaddT (a b : Vec) : Vec := List.zipWith (· + ·) a b
def taddT (a b : Tangent) : Tangent := List.zipWith vaddT a b

theorem dot_smul (c : Rat) (r v : Vec) : dot r (vsmul c v) = c * dot r v := by
  induction r generalizing v with
  | nil => simp [dot]
  | cons a as ih =>
    cases v with
    | nil => simp [vsmul, dot]
    | cons b bs =>
      have := ih bs
      simp only [vsmul, List.map_cons, dot] at this ⊢
      rw [this]; ring

theorem dot_add (r a b : Vec) (h : a.length = b.length) :
    dot r (vaddT a b) = dot r a + dot r b := by
  induction r generalizing a b with
  | nil => simp [dot]
  | cons x xs ih =>
    cases a with
    | nil =>
      cases b with
      | nil => simp [vaddT, dot]
      | cons _ _ => simp at h
    | cons a0 as =>
      cases b with
      | nil => simp at h
      | cons b0 bs =>
        have := ih as bs (by simpa using h)
        simp only [vaddT, List.zipWith_cons_cons, dot] at this ⊢
        rw [this]; ring

/-- **the differential is homogeneous** -/
theorem jvp_smul (t : LossTerm) (c : Rat) (w : Tangent) : t.jvp (tsmul c w) = c * t.jvp w := by
  unfold LossTerm.jvp
  generalize t.diff = d
  induction d generalizing w with
  | nil => simp [jvpD]
  | cons r rs ih =>
    cases w with
    | nil => simp [tsmul, jvpD]
    | cons v vs =>
      have := ih vs
      simp only [tsmul, List.map_cons, jvpD] at this ⊢
      rw [this, dot_smul]; ring

/-- **the differential is additive** (tangents of the same shape) -/
theorem jvp_add (t : LossTerm) (w₁ w₂ : Tangent)
    (h : List.Forall₂ (fun a b : Vec => a.length = b.length) w₁ w₂) :
    t.jvp (taddT w₁ w₂) = t.jvp w₁ + t.jvp w₂ := by
  unfold LossTerm.jvp
  generalize t.diff = d
  induction d generalizing w₁ w₂ with
  | nil => simp [jvpD]
  | cons r rs ih =>
    cases h with
    | nil => simp [taddT, jvpD]
    | cons hab htl =>
      have := ih _ _ htl
      simp only [taddT, List.zipWith_cons_cons, jvpD] at this ⊢
      rw [this, dot_add _ _ _ hab]; ring

/-! ### values never depend on the derivative specification -/

/-- `stop_gradient` is the identity on values. -/
theorem stopGrad_val (g : Nat) (t : LossTerm) : (stopGrad g t).val = t.val := rfl

theorem setDerivatives_val (m : Mask) (t : LossTerm) : (setDerivatives m t).val = t.val := rfl

/-- **C06 (values): every term's value, hence the total, is the same under every mask
    assignment.** -/
theorem evalTerms_vals (fam : Family) :
    (evalTerms fam).map (·.val) = fam.map (fun mt => mt.2.val) := by
  simp [evalTerms, setDerivatives_val, Function.comp_def]

theorem totalVal_mask_independent (fam : Family) :
    totalVal (evalTerms fam) = totalVal (fam.map (·.2)) := by
  unfold totalVal
  rw [evalTerms_vals]
  simp [Function.comp_def]

/-- two assignments over the same terms give the same values -/
theorem totalVal_same_terms (fam₁ fam₂ : Family) (h : fam₁.map (·.2) = fam₂.map (·.2)) :
    totalVal (evalTerms fam₁) = totalVal (evalTerms fam₂) ∧
    (evalTerms fam₁).map (·.val) = (evalTerms fam₂).map (·.val) := by
  refine ⟨by rw [totalVal_mask_independent, totalVal_mask_independent, h], ?_⟩
  rw [evalTerms_vals, evalTerms_vals]
  have := congrArg (List.map (·.val)) h
  simpa [Function.comp_def] using this

/-! ### routing: one term -/

/-- a tangent living in group `g` only sees row `g` of the table -/
theorem jvpD_supported (d : List Vec) (g : Nat) (w : Tangent) (h : SupportedOn g w) :
    jvpD d w = dot (d.getD g []) (w.getD g []) := by
  induction d generalizing g w with
  | nil => simp [jvpD, dot]
  | cons r rs ih =>
    cases w with
    | nil => simp [jvpD, dot_nil_right]
    | cons v vs =>
      cases g with
      | zero =>
        have hz : jvpD rs vs = 0 := by
          have h' : SupportedOn (vs.length + 1) vs := by
            intro i _ x hx
            exact h (i + 1) (by omega) x (by simpa using hx)
          rw [ih _ _ h']
          have : vs.getD (vs.length + 1) [] = [] := by simp
          rw [this, dot_nil_right]
        simp [jvpD, hz]
      | succ g =>
        have hv : dot r v = 0 := dot_of_all_zero r v (fun x hx => h 0 (by omega) x (by simpa using hx))
        have h' : SupportedOn g vs := by
          intro i hi x hx
          exact h (i + 1) (by omega) x (by simpa using hx)
        simp [jvpD, hv, ih g vs h']

theorem supportedOn_basis (g : Nat) (v : Vec) : SupportedOn g (basis g v) := by
  intro i hi x hx
  unfold basis at hx
  by_cases hlt : i < g
  · rw [List.getD_eq_getElem?_getD, List.getElem?_append_left (by simpa using hlt)] at hx
    simp [hlt] at hx
  · have : g < i := by omega
    rw [List.getD_eq_getElem?_getD, List.getElem?_eq_none (by simp; omega)] at hx
    simp at hx

theorem basis_getD (g : Nat) (v : Vec) : (basis g v).getD g [] = v := by
  unfold basis
  rw [List.getD_eq_getElem?_getD, List.getElem?_append_right (by simp)]
  simp

/-- `∂ term (e_g ⊗ v) = row_g · v` -/
theorem jvp_basis (t : LossTerm) (g : Nat) (v : Vec) : t.jvp (basis g v) = dot (t.diff.getD g []) v := by
  unfold LossTerm.jvp
  rw [jvpD_supported _ g _ (supportedOn_basis g v), basis_getD]

/-- row `g` after `_set_derivatives`, as seen by any direction -/
theorem setDerivD_row (m : Mask) (d : List Vec) (g : Nat) (v : Vec) :
    dot ((setDerivD m d).getD g []) v = if m.getD g false then dot (d.getD g []) v else 0 := by
  induction m generalizing d g with
  | nil => cases d <;> simp [setDerivD, dot]
  | cons b bs ih =>
    cases d with
    | nil => simp [setDerivD, dot]
    | cons r rs =>
      cases g with
      | zero => cases b <;> simp [setDerivD, dot_zeroVec_left]
      | succ g => simpa [setDerivD] using ih rs g

/-- **C06 (routing, one term, any tangent living in group `g`)**: after `_set_derivatives` with
    mask `m` the term's differential in group `g` is the term's own differential if `m` selects
    `g`, and exactly `0` otherwise. -/
theorem jvp_setDerivatives_supported (m : Mask) (t : LossTerm) (g : Nat) (w : Tangent)
    (h : SupportedOn g w) :
    (setDerivatives m t).jvp w = if m.getD g false then t.jvp w else 0 := by
  unfold LossTerm.jvp setDerivatives
  simp only
  rw [jvpD_supported _ g _ h, jvpD_supported _ g _ h, setDerivD_row]

theorem jvp_setDerivatives_basis (m : Mask) (t : LossTerm) (g : Nat) (v : Vec) :
    (setDerivatives m t).jvp (basis g v) = if m.getD g false then t.jvp (basis g v) else 0 :=
  jvp_setDerivatives_supported m t g _ (supportedOn_basis g v)

/-- **every unselected (term, group) pair contributes exactly zero** -/
theorem unselected_pair_zero (m : Mask) (t : LossTerm) (g : Nat) (v : Vec) (h : m.getD g false = false) :
    (setDerivatives m t).jvp (basis g v) = 0 := by
  rw [jvp_setDerivatives_basis, h]; simp

/-- **every selected pair contributes the term's own differential** -/
theorem selected_pair_full (m : Mask) (t : LossTerm) (g : Nat) (v : Vec) (h : m.getD g false = true) :
    (setDerivatives m t).jvp (basis g v) = t.jvp (basis g v) := by
  rw [jvp_setDerivatives_basis, h]; simp

/-- the adjoint view: stopping gradients on the parameters = zeroing the tangent components -/
theorem jvp_setDerivatives_eq_masked_tangent (m : Mask) (t : LossTerm) (w : Tangent) :
    (setDerivatives m t).jvp w = t.jvp (maskTangent m w) := by
  unfold LossTerm.jvp setDerivatives
  simp only
  generalize t.diff = d
  induction m generalizing d w with
  | nil => cases d <;> simp [setDerivD, maskTangent, jvpD, jvpD_nil_right]
  | cons b bs ih =>
    cases d with
    | nil => simp [setDerivD, jvpD]
    | cons r rs =>
      cases w with
      | nil => simp [setDerivD, maskTangent, jvpD]
      | cons v vs =>
        cases b <;> simp [setDerivD, maskTangent, jvpD, ih, dot_zeroVec_left, dot_zeroVec_right]

/-! ### routing: the total -/

/-- the terms of a family that select group `g` -/
def selecting (fam : Family) (g : Nat) : List LossTerm :=
  (fam.filter (fun mt => mt.1.getD g false)).map (·.2)

/-- **C06 (main theorem)**: for every family of terms, every mask assignment, every group `g`
    and every direction `v`,
    `jvp_total (e_g ⊗ v) = Σ_{k : mask_k g} jvp_k (e_g ⊗ v)`:
    the differential of the total loss in group `g` is the sum of the differentials of exactly
    the terms whose mask selects `g`. -/
theorem totalJvp_routes (fam : Family) (g : Nat) (v : Vec) :
    totalJvp (evalTerms fam) (basis g v) = totalJvp (selecting fam g) (basis g v) := by
  unfold totalJvp evalTerms selecting
  induction fam with
  | nil => simp
  | cons mt rest ih =>
    simp only [List.map_cons, sumQ, jvp_setDerivatives_basis, List.filter_cons]
    rw [ih]
    cases h : mt.1.getD g false <;> simp [sumQ]

/-- the same for any tangent supported on `g` -/
theorem totalJvp_routes_supported (fam : Family) (g : Nat) (w : Tangent) (h : SupportedOn g w) :
    totalJvp (evalTerms fam) w = totalJvp (selecting fam g) w := by
  unfold totalJvp evalTerms selecting
  induction fam with
  | nil => simp
  | cons mt rest ih =>
    simp only [List.map_cons, sumQ, jvp_setDerivatives_supported _ _ g w h, List.filter_cons]
    rw [ih]
    cases h : mt.1.getD g false <;> simp [sumQ]

/-- no term selects `g` ⇒ the total does not move in group `g` -/
theorem totalJvp_zero_of_none_selects (fam : Family) (g : Nat) (v : Vec)
    (h : ∀ mt ∈ fam, mt.1.getD g false = false) :
    totalJvp (evalTerms fam) (basis g v) = 0 := by
  rw [totalJvp_routes]
  have : selecting fam g = [] := by
    unfold selecting
    rw [List.filter_eq_nil_iff.2 (fun mt hmt => by simpa using h mt hmt)]
    rfl
  rw [this]; rfl

/-- every term selects `g` ⇒ the total's differential is the plain sum -/
theorem totalJvp_all_select (fam : Family) (g : Nat) (v : Vec)
    (h : ∀ mt ∈ fam, mt.1.getD g false = true) :
    totalJvp (evalTerms fam) (basis g v) = totalJvp (fam.map (·.2)) (basis g v) := by
  rw [totalJvp_routes]
  have : selecting fam g = fam.map (·.2) := by
    unfold selecting
    rw [List.filter_eq_self.2 (fun mt hmt => h mt hmt)]
  rw [this]

/-! ### gradients (the differential on the unit tangents) -/

theorem dot_replicate_zero (r : Vec) (n : Nat) : dot r (List.replicate n 0) = 0 :=
  dot_of_all_zero r _ (fun _ hx => (List.mem_replicate.1 hx).2)

theorem dot_unitVec (r : Vec) (n j : Nat) (hj : j < n) : dot r (unitVec n j) = r.getD j 0 := by
  induction r generalizing n j with
  | nil => simp [dot]
  | cons a as ih =>
    cases n with
    | zero => omega
    | succ n =>
      cases j with
      | zero => simp [unitVec, dot, dot_replicate_zero]
      | succ j => simp [unitVec, dot, ih n j (by omega)]

/-- entry `j` of the gradient of a term with respect to group `g` is entry `j` of row `g` -/
theorem gradient_entry (t : LossTerm) (g n j : Nat) (hj : j < n) :
    (gradient t.jvp g n).getD j 0 = (t.diff.getD g []).getD j 0 := by
  unfold gradient
  rw [List.getD_eq_getElem?_getD, List.getElem?_map, List.getElem?_range hj]
  simp [jvp_basis, dot_unitVec _ _ _ hj]

/-- **C06 (gradient form, one term)**: the gradient of a masked term with respect to group `g` is
    the gradient of the term if the mask selects `g`, and the zero vector otherwise. -/
theorem gradient_setDerivatives (m : Mask) (t : LossTerm) (g n : Nat) :
    gradient (setDerivatives m t).jvp g n =
      if m.getD g false then gradient t.jvp g n else List.replicate n 0 := by
  unfold gradient
  cases h : m.getD g false
  · simp only [jvp_setDerivatives_basis, h]
    simp [List.map_const']
  · simp only [jvp_setDerivatives_basis, h]
    simp

/-- **C06 (gradient form, total)**: every entry of the gradient of the total loss with respect to
    group `g` is the sum of that entry over exactly the selecting terms. -/
theorem gradient_total_entry (fam : Family) (g n j : Nat) (hj : j < n) :
    (gradient (totalJvp (evalTerms fam)) g n).getD j 0 =
      sumQ ((selecting fam g).map (fun t => (gradient t.jvp g n).getD j 0)) := by
  have e : (gradient (totalJvp (evalTerms fam)) g n).getD j 0
      = totalJvp (evalTerms fam) (basis g (unitVec n j)) := by
    unfold gradient
    rw [List.getD_eq_getElem?_getD, List.getElem?_map, List.getElem?_range hj]
    simp
  rw [e, totalJvp_routes]
  unfold totalJvp
  congr 1
  apply List.map_congr_left
  intro t _
  unfold gradient
  rw [List.getD_eq_getElem?_getD, List.getElem?_map, List.getElem?_range hj]
  simp

/-! ### the gradient of the total as a vector: the formula `Holds.C06` checks -/

theorem getD_of_lt (l : Vec) (j : Nat) (h : j < l.length) : l.getD j 0 = l[j] := by
  rw [List.getD_eq_getElem?_getD, List.getElem?_eq_getElem h]; rfl

theorem vadd_length (a b : Vec) (h : a.length = b.length) : (Jinns.Holds.vadd a b).length = a.length := by
  simp [Jinns.Holds.vadd, h]

theorem vadd_getD (a b : Vec) (h : a.length = b.length) (j : Nat) (hj : j < a.length) :
    (Jinns.Holds.vadd a b).getD j 0 = a.getD j 0 + b.getD j 0 := by
  have hb : j < b.length := h ▸ hj
  have hz : j < (Jinns.Holds.vadd a b).length := by rw [vadd_length a b h]; exact hj
  rw [getD_of_lt _ _ hz, getD_of_lt _ _ hj, getD_of_lt _ _ hb]
  simp [Jinns.Holds.vadd]

theorem foldl_vadd (rows : List Vec) (acc : Vec) (n : Nat) (hacc : acc.length = n)
    (hrows : ∀ r ∈ rows, r.length = n) :
    (rows.foldl Jinns.Holds.vadd acc).length = n ∧
    ∀ j, j < n → (rows.foldl Jinns.Holds.vadd acc).getD j 0
      = acc.getD j 0 + sumQ (rows.map (fun r => r.getD j 0)) := by
  induction rows generalizing acc with
  | nil => exact ⟨hacc, fun j _ => by simp [sumQ]⟩
  | cons r rs ih =>
    have hr : r.length = n := hrows r (by simp)
    have hlen : (Jinns.Holds.vadd acc r).length = n := by rw [vadd_length acc r (by omega)]; exact hacc
    have := ih (Jinns.Holds.vadd acc r) hlen (fun x hx => hrows x (by simp [hx]))
    refine ⟨this.1, fun j hj => ?_⟩
    simp only [List.foldl_cons, List.map_cons, sumQ]
    rw [this.2 j hj, vadd_getD acc r (by omega) j (by omega)]
    ring

theorem gradient_length (f : Tangent → Rat) (g n : Nat) : (gradient f g n).length = n := by
  simp [gradient]

/-- **C06 (vector form, the formula checked on the implementation)**: when every term's row for
    group `g` has the group's dimension `n`, the gradient of the total loss with respect to `g` is
    the vector sum, over exactly the selecting terms, of their rows (`Holds.expectedGrad`). -/
theorem gradient_total_eq_vector_sum (fam : Family) (g n : Nat)
    (hshape : ∀ mt ∈ fam, (mt.2.diff.getD g []).length = n) :
    gradient (totalJvp (evalTerms fam)) g n =
      (selecting fam g).foldl (fun acc t => Jinns.Holds.vadd acc (t.diff.getD g []))
        (Jinns.Holds.vzero n) := by
  have hfold : (selecting fam g).foldl (fun acc t => Jinns.Holds.vadd acc (t.diff.getD g []))
      (Jinns.Holds.vzero n)
      = ((selecting fam g).map (fun t => t.diff.getD g [])).foldl Jinns.Holds.vadd
          (Jinns.Holds.vzero n) := by
    rw [List.foldl_map]
  have hrows : ∀ r ∈ (selecting fam g).map (fun t => t.diff.getD g []), r.length = n := by
    intro r hr
    obtain ⟨t, ht, rfl⟩ := List.mem_map.1 hr
    unfold selecting at ht
    obtain ⟨mt, hmt, rfl⟩ := List.mem_map.1 ht
    exact hshape mt (List.mem_filter.1 hmt).1
  have hz : (Jinns.Holds.vzero n).length = n := by simp [Jinns.Holds.vzero]
  have hf := foldl_vadd _ (Jinns.Holds.vzero n) n hz hrows
  rw [hfold]
  apply List.ext_getElem
  · rw [gradient_length, hf.1]
  · intro j h1 h2
    have hj : j < n := by rw [gradient_length] at h1; exact h1
    rw [← getD_of_lt _ _ h1, ← getD_of_lt _ _ h2, gradient_total_entry _ _ _ _ hj,
      hf.2 j hj, List.map_map]
    have hzero : (Jinns.Holds.vzero n).getD j 0 = 0 := by
      simp [Jinns.Holds.vzero, List.getD_eq_getElem?_getD, hj]
    rw [hzero]
    have : (selecting fam g).map (fun t => (gradient t.jvp g n).getD j 0)
        = (selecting fam g).map ((fun r : Vec => r.getD j 0) ∘ fun t => t.diff.getD g []) := by
      apply List.map_congr_left
      intro t _
      exact gradient_entry t g n j hj
    rw [this]; ring

/-! ### `stop_gradient`: idempotent, commuting, and what `_set_derivatives` is made of -/

theorem zeroVec_idem (r : Vec) : zeroVec (zeroVec r) = zeroVec r := by simp [zeroVec]

theorem stopGradD_idem (g : Nat) (d : List Vec) : stopGradD g (stopGradD g d) = stopGradD g d := by
  induction d generalizing g with
  | nil => cases g <;> simp [stopGradD]
  | cons r rs ih => cases g <;> simp [stopGradD, zeroVec_idem, ih]

theorem stopGradD_comm (g h : Nat) (d : List Vec) :
    stopGradD g (stopGradD h d) = stopGradD h (stopGradD g d) := by
  induction d generalizing g h with
  | nil => cases g <;> cases h <;> simp [stopGradD]
  | cons r rs ih => cases g <;> cases h <;> simp [stopGradD, ih]

/-- **`stop_gradient` twice = once** -/
theorem stopGrad_idem (g : Nat) (t : LossTerm) : stopGrad g (stopGrad g t) = stopGrad g t := by
  simp [stopGrad, stopGradD_idem]

/-- **`stop_gradient`s on two groups commute** -/
theorem stopGrad_comm (g h : Nat) (t : LossTerm) :
    stopGrad g (stopGrad h t) = stopGrad h (stopGrad g t) := by
  simp only [stopGrad]
  rw [stopGradD_comm]

theorem stopGradD_append (pre : List Vec) (r : Vec) (rs : List Vec) :
    stopGradD pre.length (pre ++ r :: rs) = pre ++ zeroVec r :: rs := by
  induction pre with
  | nil => simp [stopGradD]
  | cons p ps ih => simp [stopGradD, ih]

theorem stopAllD_append (m : Mask) (pre suf : List Vec) (h : m.length = suf.length) :
    stopAllD pre.length m (pre ++ suf) = pre ++ setDerivD m suf := by
  induction m generalizing pre suf with
  | nil =>
    cases suf with
    | nil => simp [stopAllD, setDerivD]
    | cons _ _ => simp at h
  | cons b bs ih =>
    cases suf with
    | nil => simp at h
    | cons r rs =>
      have hl : bs.length = rs.length := by simpa using h
      cases b with
      | true =>
        have := ih (pre ++ [r]) rs hl
        simp only [List.length_append, List.length_cons, List.length_nil, List.append_assoc,
          List.cons_append, List.nil_append] at this
        simp [stopAllD, setDerivD, this]
      | false =>
        have := ih (pre ++ [zeroVec r]) rs hl
        simp only [List.length_append, List.length_cons, List.length_nil, List.append_assoc,
          List.cons_append, List.nil_append] at this
        simp [stopAllD, setDerivD, stopGradD_append, this]

/-- **`_set_derivatives mask` = `stop_gradient` on every group whose mask is false** (and nothing
    else), for a mask with one boolean per group. -/
theorem setDerivatives_eq_stopAll (m : Mask) (d : List Vec) (h : m.length = d.length) :
    setDerivD m d = stopAllD 0 m d := by
  have := stopAllD_append m [] d h
  simpa using this.symm

/-- the all-true mask changes nothing -/
theorem setDerivD_allTrue (d : List Vec) : setDerivD (List.replicate d.length true) d = d := by
  induction d with
  | nil => simp [setDerivD]
  | cons r rs ih => simp [List.replicate_succ, setDerivD, ih]

/-! ### strings, defaults, mixed specifications -/

/-- **`"both"`**: everything selected. -/
theorem maskOfString_both (n : Nat) : maskOfString n "both" = some (true :: List.replicate n true) := by
  simp [maskOfString, allTrue]

/-- **`"eq_params"`**: every equation parameter, not the network. -/
theorem maskOfString_eq_params (n : Nat) :
    maskOfString n "eq_params" = some (false :: List.replicate n true) := by
  simp [maskOfString, allTrue, setNN]

/-- **`"nn_params"`**: the network, no equation parameter. -/
theorem maskOfString_nn_params (n : Nat) :
    maskOfString n "nn_params" = some (true :: List.replicate n false) := by
  simp [maskOfString, allTrue, setEq]

/-- **an unknown string is rejected** (and only unknown strings are). -/
theorem maskOfString_unknown (n : Nat) (s : String)
    (h1 : s ≠ "both") (h2 : s ≠ "eq_params") (h3 : s ≠ "nn_params") : maskOfString n s = none := by
  simp [maskOfString, h1, h2, h3]

theorem maskOfString_isSome_iff (n : Nat) (s : String) :
    (maskOfString n s).isSome ↔ (s = "both" ∨ s = "eq_params" ∨ s = "nn_params") := by
  constructor
  · intro h
    by_cases h1 : s = "both"
    · exact Or.inl h1
    · by_cases h2 : s = "eq_params"
      · exact Or.inr (Or.inl h2)
      · by_cases h3 : s = "nn_params"
        · exact Or.inr (Or.inr h3)
        · rw [maskOfString_unknown n s h1 h2 h3] at h; simp at h
  · rintro (rfl | rfl | rfl)
    · rw [maskOfString_both]; rfl
    · rw [maskOfString_eq_params]; rfl
    · rw [maskOfString_nn_params]; rfl

/-- **the default equals `"nn_params"`**, for every term and every number of equation parameters. -/
theorem resolve_default (n : Nat) :
    resolve n .dflt = resolve n (.str "nn_params") ∧
    resolve n .dflt = some (true :: List.replicate n false) :=
  ⟨rfl, maskOfString_nn_params n⟩

/-- the model's specification in the vocabulary of `Holds.C06` -/
def toHolds : Spec → Jinns.Holds.Spec06
  | .dflt => .dflt
  | .str s => .str s
  | .tree t => .tree t

/-- the meaning of a specification, position by position, is `Holds.specSelects`: the mask the
    code builds selects position `i` exactly when the property statement says so -/
theorem resolve_selects (n : Nat) (sp : Spec) (m : Mask) (h : resolve n sp = some m) (i : Nat)
    (hi : i ≤ n) :
    m.getD i false = Jinns.Holds.specSelects (toHolds sp) i := by
  cases sp with
  | tree t => simp only [resolve, Option.some.injEq] at h; subst h; rfl
  | dflt =>
    rw [(resolve_default n).2] at h
    simp only [Option.some.injEq] at h; subst h
    cases i with
    | zero => simp [Jinns.Holds.specSelects, toHolds]
    | succ i =>
      have : i < n := by omega
      simp [Jinns.Holds.specSelects, toHolds, List.getD_eq_getElem?_getD, this]
  | str s =>
    simp only [resolve] at h
    by_cases h1 : s = "both"
    · subst h1
      rw [maskOfString_both] at h
      simp only [Option.some.injEq] at h; subst h
      cases i with
      | zero => simp [Jinns.Holds.specSelects, toHolds]
      | succ i =>
        have : i < n := by omega
        simp [Jinns.Holds.specSelects, toHolds, List.getD_eq_getElem?_getD, this]
    · by_cases h2 : s = "eq_params"
      · subst h2
        rw [maskOfString_eq_params] at h
        simp only [Option.some.injEq] at h; subst h
        cases i with
        | zero => simp [Jinns.Holds.specSelects, toHolds]
        | succ i =>
          have : i < n := by omega
          simp [Jinns.Holds.specSelects, toHolds, List.getD_eq_getElem?_getD, this]
      · by_cases h3 : s = "nn_params"
        · subst h3
          rw [maskOfString_nn_params] at h
          simp only [Option.some.injEq] at h; subst h
          cases i with
          | zero => simp [Jinns.Holds.specSelects, toHolds]
          | succ i =>
            have : i < n := by omega
            simp [Jinns.Holds.specSelects, toHolds, List.getD_eq_getElem?_getD, this]
        · rw [maskOfString_unknown n s h1 h2 h3] at h; simp at h

theorem allSome_map_some (l : List α) : allSome (l.map some) = some l := by
  induction l with
  | nil => rfl
  | cons a r ih => simp [allSome, ih]

/-- **string form = boolean-tree form**: whatever mixture of defaults, strings and trees specifies
    a `DerivativeKeys*` object, handing the resulting booleans back as trees gives the same object. -/
theorem resolveAll_tree_roundtrip (n : Nat) (specs : List Spec) (ms : List Mask)
    (_h : resolveAll n specs = some ms) : resolveAll n (ms.map Spec.tree) = some ms := by
  unfold resolveAll
  rw [List.map_map]
  have : (resolve n ∘ Spec.tree) = some := by funext m; rfl
  rw [this, allSome_map_some]

/-- the explicit boolean tree a valid specification stands for -/
def explicitMask (n : Nat) : Spec → Mask
  | .dflt => true :: List.replicate n false
  | .str s =>
    if s = "both" then true :: List.replicate n true
    else if s = "eq_params" then false :: List.replicate n true
    else true :: List.replicate n false
  | .tree m => m

def Spec.Valid : Spec → Prop
  | .str s => s = "both" ∨ s = "eq_params" ∨ s = "nn_params"
  | _ => True

theorem resolve_explicit (n : Nat) (sp : Spec) (h : sp.Valid) : resolve n sp = some (explicitMask n sp) := by
  cases sp with
  | dflt => exact (resolve_default n).2
  | tree m => rfl
  | str s =>
    rcases h with rfl | rfl | rfl
    · simp [resolve, maskOfString_both, explicitMask]
    · simp [resolve, maskOfString_eq_params, explicitMask]
    · simp [resolve, maskOfString_nn_params, explicitMask]

/-- **mixed specifications**: each field is resolved on its own - strings to their explicit mask,
    trees untouched, omitted fields to network-only. -/
theorem resolveAll_mixed (n : Nat) (specs : List Spec) (h : ∀ sp ∈ specs, sp.Valid) :
    resolveAll n specs = some (specs.map (explicitMask n)) := by
  unfold resolveAll
  induction specs with
  | nil => rfl
  | cons sp rest ih =>
    have h1 := resolve_explicit n sp (h sp (by simp))
    have h2 := ih (fun s hs => h s (by simp [hs]))
    simp [allSome, h1, h2]

/-- one unknown string anywhere rejects the whole object -/
theorem resolveAll_rejects (n : Nat) (specs : List Spec) (s : String) (hs : Spec.str s ∈ specs)
    (h1 : s ≠ "both") (h2 : s ≠ "eq_params") (h3 : s ≠ "nn_params") : resolveAll n specs = none := by
  unfold resolveAll
  induction specs with
  | nil => simp at hs
  | cons sp rest ih =>
    rcases List.mem_cons.1 hs with rfl | hr
    · simp [resolve, maskOfString_unknown n s h1 h2 h3, allSome]
    · have := ih hr
      cases hsp : resolve n sp with
      | none => simp [allSome, hsp]
      | some m => simp [allSome, hsp, this]

/-- all fields omitted (`derivative_keys=None`) = `from_str` with `"nn_params"` everywhere -/
theorem resolveAll_default (n k : Nat) :
    resolveAll n (List.replicate k .dflt) = resolveAll n (List.replicate k (.str "nn_params")) ∧
    resolveAll n (List.replicate k .dflt) = some (List.replicate k (true :: List.replicate n false)) := by
  have hd := resolveAll_mixed n (List.replicate k Spec.dflt)
    (fun sp h => by rw [(List.mem_replicate.1 h).2]; trivial)
  have hs := resolveAll_mixed n (List.replicate k (Spec.str "nn_params"))
    (fun sp h => by rw [(List.mem_replicate.1 h).2]; exact Or.inr (Or.inr rfl))
  constructor
  · rw [hd, hs]; simp [explicitMask]
  · rw [hd]; simp [explicitMask]

/-! ### from the term's view to the gradient groups -/

theorem liftMask_getD (gmap : List (Option Nat)) (m : Mask) (g : Nat) :
    (liftMask gmap m).getD g false =
      match gmap.getD g none with
      | none => false
      | some i => m.getD i false := by
  unfold liftMask
  rw [List.getD_eq_getElem?_getD, List.getElem?_map, List.getD_eq_getElem?_getD]
  cases h : gmap[g]? with
  | none => simp
  | some o => cases o <;> simp

/-- **system losses**: with `U` networks the `ParamsDict` mask `b :: eq` of the dynamic term selects
    network `u`'s parameters iff `b`, for every `u < U` (one boolean for all the networks). -/
theorem liftMask_dict_nn (U : Nat) (rest : List (Option Nat)) (m : Mask) (u : Nat) (hu : u < U) :
    (liftMask (List.replicate U (some 0) ++ rest) m).getD u false = m.getD 0 false := by
  rw [liftMask_getD, List.getD_eq_getElem?_getD, List.getElem?_append_left (by simpa using hu)]
  simp [hu]

/-- the lifted mask of a term selects gradient group `g` exactly when `Holds.selects` says so -/
theorem lifted_selects (n : Nat) (sp : Spec) (m : Mask) (gmap : List (Option Nat))
    (h : resolve n sp = some m) (g : Nat) (hg : ∀ i, gmap.getD g none = some i → i ≤ n) :
    (liftMask gmap m).getD g false = Jinns.Holds.selects gmap (toHolds sp) g := by
  rw [liftMask_getD]
  unfold Jinns.Holds.selects
  cases hgm : gmap.getD g none with
  | none => rfl
  | some i => exact resolve_selects n sp m h i (hg i hgm)

/-- a loss term as a user specifies it: the specification of its derivative keys, the number of
    equation parameters of its parameter view, the view's place among the gradient groups, and
    the term itself; `mask` is what the constructors made of the specification -/
structure SpecTerm where
  spec : Spec
  nEq  : Nat
  gmap : List (Option Nat)
  term : LossTerm
  mask : Mask

def SpecTerm.WF (x : SpecTerm) : Prop :=
  resolve x.nEq x.spec = some x.mask ∧ ∀ g i, x.gmap.getD g none = some i → i ≤ x.nEq

/-- the loss the code evaluates for these terms -/
def famOfSpecs (L : List SpecTerm) : Family := L.map (fun x => (liftMask x.gmap x.mask, x.term))

/-- **C06 in the vocabulary of the property statement**: whatever way every term's derivative keys
    are specified (default, string, boolean tree; single loss or system), the differential of the
    total loss in gradient group `g` is the sum of the differentials of exactly the terms whose
    *specification* selects `g` (`Holds.selects`). -/
theorem totalJvp_routes_by_specification (L : List SpecTerm) (hL : ∀ x ∈ L, x.WF) (g : Nat) (v : Vec) :
    totalJvp (evalTerms (famOfSpecs L)) (basis g v) =
      totalJvp ((L.filter (fun x => Jinns.Holds.selects x.gmap (toHolds x.spec) g)).map (·.term))
        (basis g v) := by
  rw [totalJvp_routes]
  congr 1
  unfold selecting famOfSpecs
  rw [List.filter_map, List.map_map]
  have : L.filter ((fun mt : Mask × LossTerm => mt.1.getD g false) ∘
        fun x : SpecTerm => (liftMask x.gmap x.mask, x.term))
      = L.filter (fun x => Jinns.Holds.selects x.gmap (toHolds x.spec) g) := by
    apply List.filter_congr
    intro x hx
    have hw := hL x hx
    simp only [Function.comp]
    exact lifted_selects x.nEq x.spec x.mask x.gmap hw.1 g (fun i hi => hw.2 g i hi)
  rw [this]
  rfl

/-! ### `Holds.C06` is true of every trace of the model -/

open Jinns.Holds (Setup06 Obs06 holdsObs holdsScan holdsC06 holdsSetup firstSome specValid specSelects
  checkMask checkReturned checkTotal expectedGrad baseGrad vadd vzero sumR)

def setupOf (L : Layout) (baseTotal : Rat) (ref : Option (List (List (List Rat)))) : Setup06 :=
  { gmaps := L.gmaps, nView := L.nView, dims := L.dims, baseVals := L.baseVals, baseTotal := baseTotal,
    baseGrads := L.baseGrads, returned := L.returned, refGrads := ref }

def obsOf (specs : List Spec) : Option Prediction → Obs06
  | none => { specs := specs.map toHolds, error := some "value_error", masks := [], termVals := [],
              totalVal := 0, termGrads := [], totalGrad := [] }
  | some p => { specs := specs.map toHolds, error := none, masks := p.masks, termVals := p.termVals,
                totalVal := p.totalVal, termGrads := p.termGrads, totalGrad := p.totalGrad }

structure Layout.WF (L : Layout) (specs : List Spec) : Prop where
  nspecs : specs.length = L.nTerms
  view   : ∀ k, k < L.nTerms → 1 ≤ L.nView.getD k 0
  tree   : ∀ k, k < L.nTerms → ∀ m, specs.getD k .dflt = .tree m → m.length = L.nView.getD k 0
  gm     : ∀ k g i, (L.gmaps.getD k []).getD g none = some i → i + 1 ≤ L.nView.getD k 0
  shapes : ∀ k, k < L.nTerms → ∀ g, g < L.dims.length →
             ((L.baseGrads.getD k []).getD g []).length = L.dims.getD g 0
  mem    : ∀ ms ∈ L.returned, ∀ k ∈ ms, k < L.nTerms

theorem firstSome_none (l : List (Option String)) (h : ∀ x ∈ l, x = none) : firstSome l = none := by
  induction l with
  | nil => rfl
  | cons x xs ih =>
    have hx : x = none := h x (by simp)
    subst hx
    simpa [firstSome] using ih (fun y hy => h y (by simp [hy]))

theorem allSome_eq_some {α : Type} (l : List (Option α)) (ms : List α) (h : allSome l = some ms) :
    l = ms.map some := by
  induction l generalizing ms with
  | nil => simp [allSome] at h; subst h; rfl
  | cons x xs ih =>
    cases x with
    | none => simp [allSome] at h
    | some a =>
      simp only [allSome, Option.map_eq_some_iff] at h
      obtain ⟨r, hr, rfl⟩ := h
      rw [ih r hr]; rfl

theorem allSome_eq_none {α : Type} (l : List (Option α)) (h : allSome l = none) : ∃ k, k < l.length ∧ l[k]? = some none := by
  induction l with
  | nil => simp [allSome] at h
  | cons x xs ih =>
    cases x with
    | none => exact ⟨0, by simp, by simp⟩
    | some a =>
      simp only [allSome, Option.map_eq_none_iff] at h
      obtain ⟨k, hk, hk2⟩ := ih h
      exact ⟨k + 1, by simp; omega, by simpa using hk2⟩

theorem sumQ_eq_sumR (l : List Rat) : sumQ l = sumR l := by
  induction l with
  | nil => rfl
  | cons x xs ih => simp [sumQ, sumR, ih]

theorem resolve_none_invalid (n : Nat) (sp : Spec) (h : resolve n sp = none) : specValid (toHolds sp) = false := by
  cases sp with
  | dflt => rw [(resolve_default n).2] at h; simp at h
  | tree m => simp [resolve] at h
  | str s =>
    simp only [resolve] at h
    have : ¬ (maskOfString n s).isSome := by rw [h]; simp
    rw [maskOfString_isSome_iff] at this
    simp only [not_or] at this
    simp [toHolds, specValid, this.1, this.2.1, this.2.2]

theorem resolve_some_valid (n : Nat) (sp : Spec) (m : Mask) (h : resolve n sp = some m) :
    specValid (toHolds sp) = true := by
  cases sp with
  | dflt => rfl
  | tree m => rfl
  | str s =>
    simp only [resolve] at h
    have : (maskOfString n s).isSome := by rw [h]; rfl
    rw [maskOfString_isSome_iff] at this
    rcases this with rfl | rfl | rfl <;> simp [toHolds, specValid]

/-- length of a resolved mask -/
theorem resolve_length (n : Nat) (sp : Spec) (m : Mask) (h : resolve n sp = some m)
    (ht : ∀ t, sp = .tree t → t.length = n + 1) : m.length = n + 1 := by
  cases sp with
  | tree t => simp only [resolve, Option.some.injEq] at h; subst h; exact ht _ rfl
  | dflt => rw [(resolve_default n).2] at h; simp only [Option.some.injEq] at h; subst h; simp
  | str s =>
    have hv : (Spec.str s).Valid := by
      have : (maskOfString n s).isSome := by simp only [resolve] at h; rw [h]; rfl
      exact (maskOfString_isSome_iff n s).1 this
    rw [resolve_explicit n _ hv] at h
    simp only [Option.some.injEq] at h; subst h
    simp only [explicitMask]
    split <;> [skip; split] <;> simp

theorem resolve_eq_selects (n : Nat) (sp : Spec) (m : Mask) (h : resolve n sp = some m)
    (ht : ∀ t, sp = .tree t → t.length = n + 1) :
    m = (List.range (n + 1)).map (specSelects (toHolds sp)) := by
  have hl := resolve_length n sp m h ht
  apply List.ext_getElem
  · simp [hl]
  · intro i h1 h2
    have hi : i ≤ n := by omega
    have := resolve_selects n sp m h i hi
    rw [List.getD_eq_getElem?_getD, List.getElem?_eq_getElem h1] at this
    simp only [Option.getD_some] at this
    simp [this]



theorem getD_map_toHolds (specs : List Spec) (k : Nat) :
    (specs.map toHolds).getD k .dflt = toHolds (specs.getD k .dflt) := by
  rw [List.getD_eq_getElem?_getD, List.getD_eq_getElem?_getD, List.getElem?_map]
  cases specs[k]? <;> rfl

theorem masksOf_some (L : Layout) (specs : List Spec) (masks : List Mask)
    (h : masksOf L specs = some masks) :
    masks.length = L.nTerms ∧ ∀ k, k < L.nTerms → maskAt L specs k = some (masks.getD k []) := by
  have e := allSome_eq_some _ _ h
  have hl : masks.length = L.nTerms := by
    have := congrArg List.length e
    simpa using this.symm
  refine ⟨hl, fun k hk => ?_⟩
  have := congrArg (fun l => l[k]?) e
  simp only [List.getElem?_map, List.getElem?_range hk, Option.map_some] at this
  have hk' : k < masks.length := by omega
  rw [List.getElem?_eq_getElem hk', Option.map_some] at this
  rw [List.getD_eq_getElem?_getD, List.getElem?_eq_getElem hk']
  simpa using this

section
variable (L : Layout) (specs : List Spec) (masks : List Mask) (bt : Rat)
  (ref : Option (List (List (List Rat))))

theorem model_selecting (hwf : L.WF specs) (hm : masksOf L specs = some masks) (o : Obs06)
    (ho : o.specs = specs.map toHolds) (ms : List Nat) (hms : ∀ k ∈ ms, k < L.nTerms) (g : Nat) :
    selecting (famOf L masks ms) g
      = (Jinns.Holds.selecting (setupOf L bt ref) o ms g).map (termAt L) := by
  unfold selecting famOf Jinns.Holds.selecting
  rw [List.filter_map, List.map_map]
  have : ms.filter ((fun mt : Mask × LossTerm => mt.1.getD g false) ∘
        fun k => (liftMask (L.gmaps.getD k []) (masks.getD k []), termAt L k))
      = ms.filter (fun k => Jinns.Holds.selects ((setupOf L bt ref).gmaps.getD k []) (o.specs.getD k .dflt) g) := by
    apply List.filter_congr
    intro k hk
    have hkT := hms k hk
    have hmk := (masksOf_some L specs masks hm).2 k hkT
    simp only [Function.comp, setupOf, ho, getD_map_toHolds]
    exact lifted_selects (L.nView.getD k 0 - 1) (specs.getD k .dflt) (masks.getD k []) (L.gmaps.getD k [])
      hmk g (fun i hi => by have := hwf.gm k g i hi; omega)
  rw [this]
  rfl

theorem model_grad_eq_expected (hwf : L.WF specs) (hm : masksOf L specs = some masks) (o : Obs06)
    (ho : o.specs = specs.map toHolds) (ms : List Nat) (hms : ∀ k ∈ ms, k < L.nTerms) (g : Nat)
    (hg : g < L.dims.length) :
    gradient (totalJvp (evalTerms (famOf L masks ms))) g (L.dims.getD g 0)
      = expectedGrad (setupOf L bt ref) o ms g := by
  rw [gradient_total_eq_vector_sum]
  · rw [model_selecting L specs masks bt ref hwf hm o ho ms hms g]
    unfold expectedGrad
    rw [List.foldl_map]
    rfl
  · intro mt hmt
    unfold famOf at hmt
    obtain ⟨k, hk, rfl⟩ := List.mem_map.1 hmt
    exact hwf.shapes k (hms k hk) g hg

theorem model_val (ms : List Nat) :
    totalVal (evalTerms (famOf L masks ms)) = sumR (ms.map (fun k => L.baseVals.getD k 0)) := by
  rw [totalVal_mask_independent, ← sumQ_eq_sumR]
  unfold totalVal famOf
  simp [List.map_map, Function.comp_def, termAt]

end


theorem getD_map_of_lt {α β : Type} (f : α → β) (l : List α) (r : Nat) (h : r < l.length) (d : β) (d' : α) :
    (l.map f).getD r d = f (l.getD r d') := by
  rw [List.getD_eq_getElem?_getD, List.getD_eq_getElem?_getD, List.getElem?_map,
    List.getElem?_eq_getElem h]
  rfl

theorem gradsOf_getD (L : Layout) (ts : List LossTerm) (g : Nat) (hg : g < L.dims.length) :
    (gradsOf L ts).getD g [] = gradient (totalJvp ts) g (L.dims.getD g 0) := by
  unfold gradsOf
  rw [getD_map_of_lt _ _ g (by simpa using hg) [] 0]
  have : (List.range L.dims.length).getD g 0 = g := by
    rw [List.getD_eq_getElem?_getD, List.getElem?_range hg]; rfl
  rw [this]

section
variable (L : Layout) (specs : List Spec) (masks : List Mask) (bt : Rat)
  (ref : Option (List (List (List Rat))))

/-- the observation the model produces when the specification is accepted -/
def okObs (L : Layout) (specs : List Spec) (masks : List Mask) : Obs06 :=
  let ev := fun members => evalTerms (famOf L masks members)
  { specs := specs.map toHolds, error := none, masks := masks,
    termVals := L.returned.map (fun ms => totalVal (ev ms)),
    totalVal := totalVal (ev (List.range L.nTerms)),
    termGrads := L.returned.map (fun ms => gradsOf L (ev ms)),
    totalGrad := gradsOf L (ev (List.range L.nTerms)) }

theorem checkMask_model (hwf : L.WF specs) (hm : masksOf L specs = some masks) (k : Nat)
    (hk : k < L.nTerms) : checkMask (setupOf L bt ref) (okObs L specs masks) k = none := by
  have hmk := (masksOf_some L specs masks hm).2 k hk
  have hv := hwf.view k hk
  have hn : L.nView.getD k 0 - 1 + 1 = L.nView.getD k 0 := by omega
  have hseen := resolve_eq_selects (L.nView.getD k 0 - 1) (specs.getD k .dflt) (masks.getD k []) hmk
    (fun t ht => by rw [hwf.tree k hk t ht]; omega)
  rw [hn] at hseen
  unfold checkMask
  simp only [okObs, setupOf, getD_map_toHolds]
  rw [← hseen]
  simp

theorem checkReturned_model (hwf : L.WF specs) (hm : masksOf L specs = some masks) (r : Nat)
    (hr : r < L.returned.length) :
    checkReturned (setupOf L bt ref) (okObs L specs masks) r = none := by
  have hms : ∀ k ∈ L.returned.getD r [], k < L.nTerms := by
    intro k hk
    refine hwf.mem _ ?_ k hk
    rw [List.getD_eq_getElem?_getD, List.getElem?_eq_getElem hr]
    exact List.getElem_mem hr
  unfold checkReturned
  have hval : (okObs L specs masks).termVals.getD r 0
      = sumR ((L.returned.getD r []).map (fun k => L.baseVals.getD k 0)) := by
    simp only [okObs]
    rw [getD_map_of_lt _ _ r hr 0 [], model_val]
  have hgr : ∀ g, g < L.dims.length →
      ((okObs L specs masks).termGrads.getD r []).getD g []
        = expectedGrad (setupOf L bt ref) (okObs L specs masks) (L.returned.getD r []) g := by
    intro g hg
    simp only [okObs]
    rw [getD_map_of_lt _ _ r hr [] [], gradsOf_getD L _ g hg]
    exact model_grad_eq_expected L specs masks bt ref hwf hm _ rfl _ hms g hg
  simp only [setupOf] at hval hgr ⊢
  simp only [hval, beq_self_eq_true, Bool.not_true, Bool.false_eq_true, ↓reduceIte]
  apply firstSome_none
  intro x hx
  obtain ⟨g, hg, rfl⟩ := List.mem_map.1 hx
  have hg' : g < L.dims.length := List.mem_range.1 hg
  rw [hgr g hg']
  simp

theorem checkTotal_model (hwf : L.WF specs) (hm : masksOf L specs = some masks)
    (hbt : bt = sumQ L.baseVals) :
    checkTotal (setupOf L bt ref) (okObs L specs masks) = none := by
  have hms : ∀ k ∈ List.range L.nTerms, k < L.nTerms := fun k hk => List.mem_range.1 hk
  unfold checkTotal
  have hval : (okObs L specs masks).totalVal = bt := by
    simp only [okObs]
    rw [model_val, hbt, ← sumQ_eq_sumR]
    congr 1
    apply List.ext_getElem
    · simp [Layout.nTerms]
    · intro i h1 h2
      simp only [List.getElem_map, List.getElem_range]
      rw [List.getD_eq_getElem?_getD, List.getElem?_eq_getElem h2]; rfl
  have hgr : ∀ g, g < L.dims.length →
      (okObs L specs masks).totalGrad.getD g []
        = expectedGrad (setupOf L bt ref) (okObs L specs masks) (List.range L.nTerms) g := by
    intro g hg
    simp only [okObs]
    rw [gradsOf_getD L _ g hg]
    exact model_grad_eq_expected L specs masks bt ref hwf hm _ rfl _ hms g hg
  simp only [setupOf, Layout.nTerms] at hval hgr ⊢
  simp only [hval, bne_self_eq_false, Bool.false_eq_true, ↓reduceIte]
  apply firstSome_none
  intro x hx
  obtain ⟨g, hg, rfl⟩ := List.mem_map.1 hx
  have hg' : g < L.dims.length := List.mem_range.1 hg
  rw [hgr g hg']
  simp

end


theorem getD_eq_of_lt {α : Type} (l : List α) (k : Nat) (h : k < l.length) (d : α) : l.getD k d = l[k] := by
  rw [List.getD_eq_getElem?_getD, List.getElem?_eq_getElem h]; rfl

theorem obsOf_predict_some (L : Layout) (specs : List Spec) (masks : List Mask)
    (hm : masksOf L specs = some masks) : obsOf specs (predict L specs) = okObs L specs masks := by
  unfold predict
  rw [hm]
  rfl

/-- **`Holds.C06` holds of every observation the model produces**: for every layout, all-true
    measurements, and specification (accepted or rejected), provided the set-up is well formed
    (shapes as `holdsSetup` checks them, members in range, trees of the size of their view) and the
    total is the sum of the terms. -/
theorem holdsObs_of_model (L : Layout) (specs : List Spec) (bt : Rat)
    (ref : Option (List (List (List Rat)))) (hwf : L.WF specs) (hbt : bt = sumQ L.baseVals) :
    holdsObs (setupOf L bt ref) (obsOf specs (predict L specs)) = none := by
  cases hm : masksOf L specs with
  | none =>
    -- some specification is an unknown string: the model rejects, as the property demands
    obtain ⟨k, hk, hk2⟩ := allSome_eq_none _ hm
    have hkT : k < L.nTerms := by simpa using hk
    rw [List.getElem?_map, List.getElem?_range hkT] at hk2
    have hnone : maskAt L specs k = none := by simpa using hk2
    have hinv := resolve_none_invalid _ _ hnone
    have hks : k < specs.length := by rw [hwf.nspecs]; exact hkT
    have hany : (specs.map toHolds).any (fun sp => !specValid sp) = true := by
      rw [List.any_eq_true]
      refine ⟨toHolds (specs.getD k .dflt), ?_, by rw [hinv]; rfl⟩
      rw [getD_eq_of_lt specs k hks]
      exact List.mem_map.2 ⟨specs[k], List.getElem_mem hks, rfl⟩
    have hp : predict L specs = none := by unfold predict; rw [hm]
    rw [hp]
    unfold holdsObs
    simp only [obsOf, hany]
    simp
  | some masks =>
    rw [obsOf_predict_some L specs masks hm]
    have hvalid : (okObs L specs masks).specs.any (fun sp => !specValid sp) = false := by
      rw [List.any_eq_false]
      intro x hx
      simp only [okObs] at hx
      obtain ⟨sp, hsp, rfl⟩ := List.mem_map.1 hx
      obtain ⟨k, hk, rfl⟩ := List.getElem_of_mem hsp
      have hkT : k < L.nTerms := by rw [← hwf.nspecs]; exact hk
      have hmk := (masksOf_some L specs masks hm).2 k hkT
      unfold maskAt at hmk
      rw [getD_eq_of_lt specs k hk] at hmk
      rw [resolve_some_valid _ _ _ hmk]; simp
    unfold holdsObs
    rw [hvalid]
    have herr : (okObs L specs masks).error.isSome = false := rfl
    simp only [Bool.false_eq_true, ↓reduceIte, herr]
    apply firstSome_none
    intro x hx
    rcases List.mem_append.1 hx with hx | hx
    · rcases List.mem_append.1 hx with hx | hx
      · obtain ⟨k, hk, rfl⟩ := List.mem_map.1 hx
        exact checkMask_model L specs masks bt ref hwf hm k (by simpa [setupOf, Layout.nTerms] using hk)
      · obtain ⟨r, hr, rfl⟩ := List.mem_map.1 hx
        exact checkReturned_model L specs masks bt ref hwf hm r (by simpa [setupOf] using hr)
    · simp only [List.mem_singleton] at hx
      rw [hx]
      exact checkTotal_model L specs masks bt ref hwf hm hbt



theorem holdsScan_of_model (L : Layout) (bt : Rat) (ref : Option (List (List (List Rat))))
    (hbt : bt = sumQ L.baseVals) (specsList : List (List Spec)) (hwf : ∀ specs ∈ specsList, L.WF specs)
    (i : Nat) :
    holdsScan (setupOf L bt ref) i (specsList.map (fun sp => obsOf sp (predict L sp))) = none := by
  induction specsList generalizing i with
  | nil => rfl
  | cons sp rest ih =>
    simp only [List.map_cons, holdsScan]
    rw [holdsObs_of_model L sp bt ref (hwf sp (by simp)) hbt]
    exact ih (fun s hs => hwf s (by simp [hs])) (i + 1)

/-- **`Holds.C06` is true of every trace of the model**: whenever the set-up clauses hold (shapes;
    all-true gradients = reference gradients), every list of specifications - accepted or rejected,
    default / string / tree, single loss or system layout - yields model observations that satisfy
    the property predicate. -/
theorem holdsC06_of_model (L : Layout) (bt : Rat) (ref : Option (List (List (List Rat))))
    (hsetup : holdsSetup (setupOf L bt ref) = none) (hbt : bt = sumQ L.baseVals)
    (specsList : List (List Spec)) (hwf : ∀ specs ∈ specsList, L.WF specs) :
    holdsC06 (setupOf L bt ref) (specsList.map (fun sp => obsOf sp (predict L sp))) = none := by
  unfold holdsC06
  rw [hsetup, holdsScan_of_model L bt ref hbt specsList hwf 0]
  rfl

/-! ### non-vacuity -/

/-- a two-group, three-term family with every (term, group) differential non-zero -/
def exFam : Family :=
  [([true, false], { val := 1, diff := [[1, 2], [3]] }),
   ([false, true], { val := 2, diff := [[5, 7], [11]] }),
   ([true, true], { val := 4, diff := [[13, 17], [19]] })]

example : totalJvp (evalTerms exFam) (basis 0 [1, 0]) = 14 := by
  simp [exFam, evalTerms, totalJvp, setDerivatives, setDerivD, LossTerm.jvp, basis, jvpD, dot, sumQ,
    zeroVec]
  norm_num
example : totalJvp (evalTerms exFam) (basis 1 [1]) = 30 := by
  simp [exFam, evalTerms, totalJvp, setDerivatives, setDerivD, LossTerm.jvp, basis, jvpD, dot, sumQ,
    zeroVec]
  norm_num
example : (selecting exFam 0).length = 2 ∧ (selecting exFam 1).length = 2 := by decide
example : totalVal (evalTerms exFam) = 7 := by
  simp [exFam, evalTerms, totalVal, setDerivatives, sumQ]; norm_num
example : SupportedOn 1 [[0, 0], [5], []] := by
  intro i hi x hx
  match i with
  | 0 => simp at hx; exact hx
  | 1 => omega
  | 2 => simp at hx
  | (k + 3) => simp at hx
example : ∀ mt ∈ exFam, (mt.2.diff.getD 0 []).length = 2 := by decide
example : ∀ mt ∈ exFam, (mt.2.diff.getD 1 []).length = 1 := by decide
example : ([true, false] : Mask).getD 1 false = false ∧ ([true, false] : Mask).getD 0 false = true := by decide
example : ∀ mt ∈ ([([true, false], ⟨1, [[1], [2]]⟩), ([false, false], ⟨3, [[4], [5]]⟩)] : Family),
    mt.1.getD 1 false = false := by decide
example : ∀ mt ∈ exFam.take 1 ++ exFam.drop 2, mt.1.getD 0 false = true := by decide
example : ([true, false] : Mask).length = ([[1, 2], [3]] : List Vec).length := rfl
example : "nn_param" ≠ "both" ∧ "nn_param" ≠ "eq_params" ∧ "nn_param" ≠ "nn_params" := by decide
example : resolve 2 (.str "eq_params") = some [false, true, true] := by decide
example : maskOfString 2 "nn_params" = some [true, false, false] := by decide
example : maskOfString 2 "eq_params" = some [false, true, true] := by decide
example : maskOfString 2 "both" = some [true, true, true] := by decide
example : maskOfString 2 "nn_param" = none := by decide
example : resolveAll 2 [.dflt, .str "both", .tree [false, true, false]]
    = some [[true, false, false], [true, true, true], [false, true, false]] := by decide
example : resolveAll 2 [.dflt, .str "Both"] = none := by decide
example : (Spec.str "eq_params").Valid := Or.inr (Or.inl rfl)
example : List.Forall₂ (fun a b : Vec => a.length = b.length) [[1, 2], [3]] [[0, 1], [5]] :=
  .cons rfl (.cons rfl .nil)
example : setDerivD [true, false] [[1, 2], [3]] = [[1, 2], [0]] := by
  simp [setDerivD, zeroVec]
example : liftMask [some 0, some 0, some 1] [false, true] = [false, false, true] := by decide
example : liftMask [none, some 0, some 1] [true, true] = [false, true, true] := by decide
example : (SpecTerm.mk (.str "eq_params") 2 [some 0, none, some 1, some 2] { val := 1, diff := [[1], [2], [3], [4]] }
    [false, true, true]).WF := by
  refine ⟨by decide, ?_⟩
  intro g i h
  show i ≤ 2
  match g with
  | 0 => simp at h; omega
  | 1 => simp at h
  | 2 => simp at h; omega
  | 3 => simp at h; omega
  | (k + 4) => simp at h

def exLayout : Layout :=
  { gmaps := [[some 0, some 1], [some 0, some 1]], nView := [2, 2], dims := [1, 1],
    baseVals := [1, 2], baseGrads := [[[1], [2]], [[3], [4]]], returned := [[0], [1]] }

example : exLayout.WF [.str "both", .tree [true, false]] where
  nspecs := rfl
  view := by decide
  tree := by
    intro k hk m h
    rcases k with _ | _ | k
    · simp at h
    · simp at h; subst h; rfl
    · exact absurd hk (by simp [exLayout, Layout.nTerms])
  gm := by
    intro k g i h
    rcases k with _ | _ | k <;> rcases g with _ | _ | g <;> simp [exLayout] at h ⊢ <;> omega
  shapes := by decide
  mem := by decide

end Jinns.DerivKeys
