/-
C09 — the decidable trace predicate `Holds.C09` (which the correspondence check evaluates on the
*implementation's* traces) is satisfied by every trace of the *model*, for every store of distinct
points, every `0 < b ≤ n`, every oracle sequence honouring the PRNG contract and every history length.
This ties the predicate used at run time to the theorems of `JinnsProofs/C09.lean`.
-/
import JinnsProofs.C09
import JinnsModel.HoldsC09

namespace Jinns.Minibatch
open Jinns.Holds

theorem subset_iff (a b : List Nat) : subset a b = true ↔ ∀ x ∈ a, x ∈ b := by
  simp [subset, List.all_eq_true]

theorem subset_false_of (a b : List Nat) (x : Nat) (hx : x ∈ a) (hnx : x ∉ b) : subset a b = false := by
  cases h : subset a b with
  | false => rfl
  | true => exact absurd ((subset_iff a b).1 h x hx) hnx

theorem disjoint_iff (a b : List Nat) : disjoint a b = true ↔ ∀ x ∈ a, x ∉ b := by
  simp [disjoint, List.all_eq_true]

/-- In a duplicate-free list, what comes after position `p` is disjoint from the first `p` elements. -/
theorem drop_disjoint_take {s : List Nat} (hnd : s.Nodup) (p : Nat) :
    ∀ x ∈ s.drop p, x ∉ s.take p := by
  intro x hx hx'
  have h := hnd
  rw [← List.take_append_drop p s] at h
  exact (List.nodup_append.1 h).2.2 x hx' x hx rfl

/-- In a duplicate-free list the element at position `p` is not among the first `p` ones. -/
theorem getElem_not_mem_take {s : List Nat} (hnd : s.Nodup) (p : Nat) (hp : p < s.length) :
    s[p] ∉ s.take p := by
  apply drop_disjoint_take hnd p
  rw [List.mem_iff_getElem]
  exact ⟨0, by simp only [List.length_drop]; omega, by simp⟩

/-- Relation between the model state and the state of the `Holds.C09` scan. -/
def ScanInv (store0 : List Nat) (b : Nat) (m : MB Nat) (st : List Nat × Bool) : Prop :=
  (st.2 = true ∧ m = init store0 b) ∨
  (st.2 = false ∧ m.b = b ∧ m.store.Perm store0 ∧
    ∃ k, k < epochLen store0.length b ∧ m.idx = k * b ∧
      (k + 1 < epochLen store0.length b → st.1 = m.store.take ((k + 1) * b)) ∧
      (¬ (k + 1 < epochLen store0.length b) → ∀ x ∈ store0, x ∈ st.1))

/-- what the scan state is right after a reshuffle onto `o` -/
theorem scanInv_after_reset {store0 : List Nat} {b : Nat} (hb : 0 < b) (hn : b ≤ store0.length)
    (m : MB Nat) (hmb : m.b = b) (o : List Nat) (ho : o.Perm store0) :
    ScanInv store0 b { m with store := o, idx := 0 } (slice o 0 b, false) := by
  have hol : o.length = store0.length := ho.length_eq
  refine Or.inr ⟨rfl, hmb, ho, 0, epochLen_pos hb hn, by simp, ?_, ?_⟩
  · intro _
    simp only [Nat.zero_add, Nat.one_mul]
    rw [slice_eq_of_le o 0 b (by omega)]
    simp
  · intro hlast x hx
    -- a single batch per epoch: b covers the store
    have hge : store0.length ≤ 0 + b := by
      have h1 : ¬ ((0 + 1) * b < store0.length) := fun h => hlast ((succ_lt_epochLen hb).2 h)
      omega
    have : slice o 0 b = o := by
      unfold slice
      have : min 0 (o.length - b) = 0 := by omega
      rw [this, List.drop_zero, List.take_of_length_le (by omega)]
    rw [this]
    exact (ho.mem_iff).2 hx

theorem step_ok {store0 : List Nat} {b : Nat} (hnd : store0.Nodup) (hb : 0 < b)
    (hn : b ≤ store0.length) (hsz : store0.length + 2 ≤ 2147483648) (hb2 : b + 1 ≤ 2147483647)
    (m : MB Nat) (st : List Nat × Bool) (hinv : ScanInv store0 b m st)
    (o : List Nat) (ho : o.Perm store0) :
    ∃ st', c09Step store0 b st
        { reset := resets store0.length m, store := (next store0.length m o).1.store,
          batch := (next store0.length m o).2 } = .ok st' ∧
      ScanInv store0 b (next store0.length m o).1 st' := by
  have hol : o.length = store0.length := ho.length_eq
  rcases hinv with ⟨hfirst, rfl⟩ | ⟨hfirst, hmb, hperm, k, hk, hidx, hpre, hall⟩
  · -- first request: always a reshuffle
    have hr := first_request_resets store0 b hsz hb2
    rw [next_of_resets _ _ _ hr]
    obtain ⟨served, first⟩ := st
    simp only at hfirst
    subst hfirst
    refine ⟨(slice o 0 b, false), ?_, scanInv_after_reset hb hn _ rfl o ho⟩
    have h1 : o.isPerm store0 = true := List.isPerm_iff.2 ho
    have h2 : (slice o 0 b).length = b := slice_length _ _ _ (by omega)
    have h3 : subset (slice o 0 b) o = true :=
      (subset_iff _ _).2 (fun x hx => (slice_sublist o 0 b).subset hx)
    simp [c09Step, init, h1, h2, h3]
  · subst hmb
    have hmb : m.b = m.b := rfl
    have hml : m.store.length = store0.length := hperm.length_eq
    have hmnd : m.store.Nodup := (hperm.nodup_iff).2 hnd
    obtain ⟨served, first⟩ := st
    simp only at hfirst hpre hall
    subst hfirst
    by_cases hr : resets store0.length m = true
    · -- reshuffle: all points must have been served
      have hlast : ¬ (k + 1 < epochLen store0.length m.b) := (resets_iff_last hb hmb hidx).1 hr
      rw [next_of_resets _ _ _ hr]
      refine ⟨(slice o 0 m.b, false), ?_, scanInv_after_reset hb hn m rfl o ho⟩
      have h1 : o.isPerm store0 = true := List.isPerm_iff.2 ho
      have h2 : (slice o 0 m.b).length = m.b := slice_length _ _ _ (by omega)
      have h3 : subset (slice o 0 m.b) o = true :=
        (subset_iff _ _).2 (fun x hx => (slice_sublist o 0 m.b).subset hx)
      have h4 : subset store0 served = true := (subset_iff _ _).2 (hall hlast)
      simp [c09Step, hr, h1, h2, h3, h4]
    · have hr' : resets store0.length m = false := by simpa using hr
      have hlt : k + 1 < epochLen store0.length m.b := by
        by_cases hc : k + 1 < epochLen store0.length m.b
        · exact hc
        · exact absurd ((resets_iff_last hb hmb hidx).2 hc) hr
      have hlt' : (k + 1) * m.b < store0.length := (succ_lt_epochLen hb).1 hlt
      have hserved : served = m.store.take ((k + 1) * m.b) := hpre hlt
      rw [next_of_not_resets _ _ _ hr']
      have hidx' : m.idx + m.b = (k + 1) * m.b := by rw [hidx, Nat.add_mul, Nat.one_mul]
      have h1 : m.store.isPerm store0 = true := List.isPerm_iff.2 hperm
      have h2 : (slice m.store (m.idx + m.b) m.b).length = m.b := slice_length _ _ _ (by omega)
      have h3 : subset (slice m.store (m.idx + m.b) m.b) m.store = true :=
        (subset_iff _ _).2 (fun x hx => (slice_sublist _ _ _).subset hx)
      -- not all points served yet: the point at position (k+1)·b is missing
      have h4 : subset store0 served = false := by
        apply subset_false_of store0 served (m.store[(k + 1) * m.b]'(by omega))
        · exact (hperm.mem_iff).1 (List.getElem_mem _)
        · rw [hserved]; exact getElem_not_mem_take hmnd _ (by omega)
      -- when b ∣ n the new batch is disjoint from what has been served
      have h5 : (store0.length % m.b == 0 && !(disjoint (slice m.store (m.idx + m.b) m.b) served)) = false := by
        cases hdv : (store0.length % m.b == 0) with
        | false => rfl
        | true =>
          have hd : m.b ∣ store0.length := Nat.dvd_of_mod_eq_zero (by simpa using hdv)
          obtain ⟨c, hc⟩ := hd
          have hfit : (k + 1) * m.b + m.b ≤ store0.length := by
            rw [hc] at hlt' ⊢
            have hkc : k + 1 < c := by
              rw [Nat.mul_comm m.b c] at hlt'
              exact Nat.lt_of_mul_lt_mul_right hlt'
            have : (k + 2) * m.b ≤ c * m.b := Nat.mul_le_mul_right m.b (by omega)
            rw [Nat.mul_comm m.b c]
            have e : (k + 2) * m.b = (k + 1) * m.b + m.b := by
              rw [show k + 2 = (k + 1) + 1 from rfl, Nat.add_mul, Nat.one_mul]
            omega
          have hdis : disjoint (slice m.store (m.idx + m.b) m.b) served = true := by
            rw [disjoint_iff, hserved, hidx', slice_eq_of_le _ _ _ (by omega)]
            intro x hx
            exact drop_disjoint_take hmnd _ x ((List.take_sublist _ _).subset hx)
          simp [hdis]
      refine ⟨(served ++ slice m.store (m.idx + m.b) m.b, false), ?_, ?_⟩
      · simp only [c09Step]
        simp [hr', h1, h2, h3, h4, h5]
      · refine Or.inr ⟨rfl, hmb, hperm, k + 1, hlt, hidx', ?_, ?_⟩
        · intro hlt2
          have hlt2' : (k + 1 + 1) * m.b < store0.length := (succ_lt_epochLen hb).1 hlt2
          have e : (k + 1 + 1) * m.b = (k + 1) * m.b + m.b := by rw [Nat.add_mul (k + 1) 1 m.b, Nat.one_mul]
          simp only
          rw [hserved, hidx', slice_eq_of_le _ _ _ (by omega), e, List.take_add]
        · intro hlast2 x hx
          simp only
          have hxs : x ∈ m.store := (hperm.mem_iff).2 hx
          obtain ⟨p, hp, rfl⟩ := List.getElem_of_mem hxs
          by_cases hpp : p < (k + 1) * m.b
          · apply List.mem_append_left
            rw [hserved, List.mem_iff_getElem]
            exact ⟨p, by simp only [List.length_take]; omega, by simp⟩
          · apply List.mem_append_right
            have hge : store0.length ≤ (k + 1) * m.b + m.b := by
              have h1 : ¬ ((k + 1 + 1) * m.b < store0.length) := fun h => hlast2 ((succ_lt_epochLen hb).2 h)
              have e : (k + 1 + 1) * m.b = (k + 1) * m.b + m.b := by rw [Nat.add_mul (k + 1) 1 m.b, Nat.one_mul]
              omega
            rw [hidx', slice_eq_of_ge _ _ _ (by omega), List.mem_iff_getElem]
            refine ⟨p - (m.store.length - m.b), ?_, ?_⟩
            · simp only [List.length_take, List.length_drop]; omega
            · simp only [List.getElem_take, List.getElem_drop]; congr 1; omega

/-- **`Holds.C09` is satisfied by every model trace** (all stores of distinct points, all `0 < b ≤ n`,
    all oracle sequences honouring the PRNG contract, all history lengths). -/
theorem holdsC09_model {store0 : List Nat} {b : Nat} (hnd : store0.Nodup) (hb : 0 < b)
    (hn : b ≤ store0.length) (hsz : store0.length + 2 ≤ 2147483648) (hb2 : b + 1 ≤ 2147483647)
    (os : List (List Nat)) (hos : ∀ o ∈ os, o.Perm store0) :
    holdsC09 store0 b (modelTrace store0.length (init store0 b) os) = none := by
  suffices h : ∀ (os : List (List Nat)) (m : MB Nat) (st : List Nat × Bool),
      ScanInv store0 b m st → (∀ o ∈ os, o.Perm store0) →
      c09Scan store0 b st (modelTrace store0.length m os) = none by
    exact h os _ _ (Or.inl ⟨rfl, rfl⟩) hos
  intro os
  induction os with
  | nil => intro m st _ _; simp [modelTrace, c09Scan]
  | cons o os ih =>
    intro m st hinv hos
    obtain ⟨st', hstep, hinv'⟩ := step_ok hnd hb hn hsz hb2 m st hinv o (hos o List.mem_cons_self)
    simp only [modelTrace, c09Scan, hstep]
    exact ih _ _ hinv' (fun o' ho' => hos o' (List.mem_cons_of_mem _ ho'))

/-- The active-set variant of the predicate (used for generators with RAR) is the same predicate when
    every point is active. -/
theorem c09StepA_self (store0 : List Nat) (b : Nat) (st : List Nat × Bool) (r : Rec09) :
    c09StepA store0 store0 b st r = c09Step store0 b st r := rfl

theorem holdsC09Active_self (store0 : List Nat) (b : Nat) (tr : List Rec09) :
    holdsC09Active store0 store0 b tr = holdsC09 store0 b tr := by
  unfold holdsC09Active holdsC09
  generalize (([] : List Nat), true) = st
  induction tr generalizing st with
  | nil => rfl
  | cons r rs ih =>
    simp only [c09ScanA, c09Scan, c09StepA_self]
    cases c09Step store0 b st r with
    | error e => rfl
    | ok st' => exact ih st'

/-- non-vacuity: a concrete store and history meet the hypotheses, and the predicate does reject a
    trace that serves a point twice within an epoch. -/
example : holdsC09 [0, 1, 2, 3] 2
    (modelTrace 4 (init [0, 1, 2, 3] 2) [[2, 0, 3, 1], [], [1, 0, 3, 2]]) = none := by decide
example : holdsC09 [0, 1, 2, 3] 2
    [⟨true, [2, 0, 3, 1], [2, 0]⟩, ⟨false, [2, 0, 3, 1], [3, 1]⟩, ⟨false, [2, 0, 3, 1], [3, 1]⟩]
    = some "no-reshuffle-although-all-points-served" := by decide

end Jinns.Minibatch
