/-
C15 — the decidable trace predicates `Holds.holdsC15Param` and `Holds.holdsC15Multi` (which the
correspondence check evaluates on the *implementation's* traces) are satisfied by every trace of the
*model* of the parameter loader and of the multi-network observation loader
(`JinnsModel/Loaders.lean`): every accepted configuration, every batch size `b ≤ n`, every history
of `get_batch` of any length, every oracle (PRNG) sequence honouring its contract.
(`obs_history_holds` in `JinnsProofs/C15.lean` is the same statement for the observation loader.)
The records are built exactly as `JinnsDriver/C15.lean` builds the arguments of the two predicates:
`(user table lifted, range, store, batches served)` per key; `(name, tables if data)` per network and
`(name, entry empty, batch)` per network and request.
-/
import JinnsProofs.C15
import Mathlib.Tactic.Linarith

namespace Jinns.Loaders
open Jinns.Minibatch Jinns.Domain Jinns.Holds

/-! ### what the driver computes from the request (its private `lifted` / `liftEq`) -/

/-- the user's table as a 2-D table (`lifted` of the driver) -/
def lifted15 (t : Tbl) : List (List Rat) := t.lift.getD []

/-- the observed-parameter tables, by name (`liftEq` of the driver) -/
def liftEq15 (eq : List (String × Tbl)) : List (String × List (List Rat)) :=
  eq.map fun kt => (kt.1, lifted15 kt.2)

/-- A 2-D array really has `cols` entries in every row (true of every array: the model's `Tbl.d2`
    carries the declared column count next to the rows). -/
def Tbl.WF : Tbl → Prop
  | .d2 rows c => ∀ r ∈ rows, r.length = c
  | _ => True

/-! ### parameter loader: one key -/

/-- An accepted key has a store of shape `(n, 1)`. -/
theorem paramStore_shape (n : Nat) (m : String) (k : ParamKey) (o : List Rat) (s : List (List Rat))
    (hwf : ∀ t, k.user = some t → t.WF) (h : paramStore n m k o = .ok s) :
    s.length = n ∧ ∀ r ∈ s, r.length = 1 := by
  unfold paramStore at h
  split at h
  · rename_i rows cols hu
    split at h
    · rename_i hc
      injection h with h; subst h
      refine ⟨hc.1, fun r hr => ?_⟩
      have := hwf _ hu r hr
      omega
    · cases h
  · rename_i v hu
    split at h
    · rename_i hc
      injection h with h; subst h
      refine ⟨by simp [hc], fun r hr => ?_⟩
      obtain ⟨x, -, rfl⟩ := List.mem_map.1 hr
      rfl
    · cases h
  · cases h
  · split at h
    · cases h
    · rename_i lo hi hr
      split at h
      · injection h with h; subst h
        refine ⟨by simp [gridStore_length], fun r hr => ?_⟩
        obtain ⟨x, -, rfl⟩ := List.mem_map.1 hr
        rfl
      · split at h
        · split at h
          · rename_i hc
            injection h with h; subst h
            refine ⟨by simp [hc.1], fun r hr => ?_⟩
            obtain ⟨x, -, rfl⟩ := List.mem_map.1 hr
            rfl
          · cases h
        · cases h

/-- **The user's table is the store** (priority over the range, whatever the method / PRNG). -/
theorem paramStore_user (n : Nat) (m : String) (k : ParamKey) (o : List Rat) (s : List (List Rat))
    (t : Tbl) (hu : k.user = some t) (h : paramStore n m k o = .ok s) : s = lifted15 t := by
  unfold paramStore at h
  rw [hu] at h
  cases t with
  | d1 v =>
    simp only at h
    split at h
    · injection h with h; subst h; rfl
    · cases h
  | d2 rows c =>
    simp only at h
    split at h
    · injection h with h; subst h; rfl
    · cases h
  | hi a d => cases h

/-- the per-key clause of `Holds.C15` from its four ingredients -/
theorem c15ParamKey_none (n b : Nat) (user : Option (List (List Rat))) (range : Option (Rat × Rat))
    (store : List (List Rat)) (batches : List (List (List Rat)))
    (hlen : store.length = n) (hcol : ∀ r ∈ store, r.length = 1)
    (hsrc : (∃ t, user = some t ∧ store = t) ∨
      (user = none ∧ ∃ lo hi, range = some (lo, hi) ∧ ∀ r ∈ store, ∀ v ∈ r, lo ≤ v ∧ v ≤ hi))
    (hbt : ∀ bt ∈ batches, bt.length = b ∧ ∀ r ∈ bt, r ∈ store) :
    c15ParamKey n b user range store batches = none := by
  have h1 : (store.length != n || !(store.all fun r => r.length == 1)) = false := by
    simp only [Bool.or_eq_false_iff, bne_eq_false_iff_eq, Bool.not_eq_false', List.all_eq_true,
      beq_iff_eq]
    exact ⟨hlen, hcol⟩
  have hB : (c15First <| batches.map fun bt =>
        if bt.length != b || !(bt.all fun r => r.length == 1) then some "param-batch-shape-is-not-(b,1)"
        else if bt.all fun r => store.contains r then none
        else some "param-batch-row-not-from-this-key's-store") = none := by
    apply c15First_eq_none
    intro x hx
    obtain ⟨bt, hbt', rfl⟩ := List.mem_map.1 hx
    obtain ⟨hl, hm⟩ := hbt bt hbt'
    have h2 : (bt.length != b || !(bt.all fun r => r.length == 1)) = false := by
      simp only [Bool.or_eq_false_iff, bne_eq_false_iff_eq, Bool.not_eq_false', List.all_eq_true,
        beq_iff_eq]
      exact ⟨hl, fun r hr => hcol r (hm r hr)⟩
    have h3 : (bt.all fun r => store.contains r) = true := by
      simp only [List.all_eq_true, List.contains_iff_mem]
      exact hm
    simp only [h2, h3, Bool.false_eq_true, ↓reduceIte]
  unfold c15ParamKey
  simp only [h1, Bool.false_eq_true, ↓reduceIte]
  rcases hsrc with ⟨t, rfl, rfl⟩ | ⟨rfl, lo, hi, rfl, hr⟩
  · simp only [beq_self_eq_true, ↓reduceIte]
    exact hB
  · have h4 : (store.all fun r => r.all fun v => decide (lo ≤ v) && decide (v ≤ hi)) = true := by
      simp only [List.all_eq_true, Bool.and_eq_true, decide_eq_true_eq]
      exact hr
    simp only [h4, ↓reduceIte]
    exact hB

/-- what a user observes of one key (the driver's record): the user's table lifted / the range, the
    store after construction, and the batches the key's own cursor serves along a history -/
def keyTrace (n b : Nat) (k : ParamKey) (store : List (List Rat)) (os : List (List (List Rat))) : Key15 :=
  (k.user.map lifted15, k.range, store, (Minibatch.run n (Minibatch.init store b) os).2)

/-- **One key, all histories**: the per-key clause of `Holds.C15` is true of the model. -/
theorem keyTrace_holds (n b : Nat) (m : String) (k : ParamKey) (o : List Rat) (s : List (List Rat))
    (hwf : ∀ t, k.user = some t → t.WF)
    (hle : ∀ lo hi, k.user = none → k.range = some (lo, hi) → lo ≤ hi)
    (h : paramStore n m k o = .ok s) (hb : b ≤ n)
    (os : List (List (List Rat))) (hos : ∀ o ∈ os, o.Perm s) :
    c15ParamKey n b (keyTrace n b k s os).1 (keyTrace n b k s os).2.1 (keyTrace n b k s os).2.2.1
      (keyTrace n b k s os).2.2.2 = none := by
  obtain ⟨hlen, hcol⟩ := paramStore_shape n m k o s hwf h
  have hbt : ∀ bt ∈ (Minibatch.run n (Minibatch.init s b) os).2, bt.length = b ∧ ∀ r ∈ bt, r ∈ s := by
    have := param_history s b (by rw [hlen]; exact hb) os hos
    rw [hlen] at this
    exact this
  simp only [keyTrace]
  apply c15ParamKey_none n b _ _ s _ hlen hcol _ hbt
  cases hu : k.user with
  | some t => exact Or.inl ⟨lifted15 t, rfl, paramStore_user n m k o s t hu h⟩
  | none =>
    right
    refine ⟨rfl, ?_⟩
    cases hr : k.range with
    | none => simp [paramStore, hu, hr] at h
    | some lh =>
      obtain ⟨lo, hi⟩ := lh
      refine ⟨lo, hi, rfl, ?_⟩
      have hs := (paramStore_range n m k lo hi o s hu hr (hle lo hi hu hr) h).2
      intro r hr v hv
      obtain ⟨w, rfl, hw⟩ := hs r hr
      simp only [List.mem_singleton] at hv
      subst hv
      simpa [inIcc] using hw

/-! ### parameter loader: all keys, all histories -/

/-- The record of a whole parameter loader, key by key in the order of the keys: `oss` gives every
    key its own history of reshuffle oracles (a key without one is never asked for a batch). -/
def paramTrace (n b : Nat) : List (ParamKey × List Rat) → List (String × List (List Rat)) →
    List (List (List (List Rat))) → List Key15
  | ko :: ks, s :: ss, oss => keyTrace n b ko.1 s.2 (oss.headD []) :: paramTrace n b ks ss oss.tail
  | _, _, _ => []

theorem paramTrace_length (n b : Nat) (keys : List (ParamKey × List Rat))
    (ss : List (String × List (List Rat))) (oss : List (List (List (List Rat))))
    (h : ss.length = keys.length) : (paramTrace n b keys ss oss).length = keys.length := by
  induction keys generalizing ss oss with
  | nil => simp [paramTrace]
  | cons ko ks ih =>
    cases ss with
    | nil => simp at h
    | cons s ss => simp [paramTrace, ih ss oss.tail (by simpa using h)]

theorem getD_zero_headD {α : Type} (l : List α) (d : α) : l.getD 0 d = l.headD d := by
  cases l <;> rfl

theorem getD_succ_tail {α : Type} (l : List α) (j : Nat) (d : α) : l.getD (j + 1) d = l.tail.getD j d := by
  cases l <;> simp

theorem paramTrace_clauses (n b : Nat) (m : String) (hb : b ≤ n) :
    ∀ (keys : List (ParamKey × List Rat)) (ss : List (String × List (List Rat)))
      (oss : List (List (List (List Rat)))),
      paramStores n m keys = .ok ss →
      (∀ ko ∈ keys, ∀ t, ko.1.user = some t → t.WF) →
      (∀ ko ∈ keys, ∀ lo hi, ko.1.user = none → ko.1.range = some (lo, hi) → lo ≤ hi) →
      (∀ j (hj : j < ss.length), ∀ o ∈ oss.getD j [], o.Perm ss[j].2) →
      ∀ x ∈ paramTrace n b keys ss oss, c15ParamKey n b x.1 x.2.1 x.2.2.1 x.2.2.2 = none := by
  intro keys
  induction keys with
  | nil => intro ss oss _ _ _ _ x hx; cases ss <;> simp [paramTrace] at hx
  | cons ko r ih =>
    intro ss oss h hwf hle hos x hx
    obtain ⟨k, o⟩ := ko
    simp only [paramStores] at h
    cases hk : paramStore n m k o with
    | error e => cases hr : paramStores n m r <;> simp [hk, hr] at h
    | ok s =>
      cases hr : paramStores n m r with
      | error e => simp [hk, hr] at h
      | ok sr =>
        simp [hk, hr] at h
        subst h
        simp only [paramTrace, List.mem_cons] at hx
        rcases hx with rfl | hx
        · apply keyTrace_holds n b m k o s (hwf (k, o) List.mem_cons_self)
            (hle (k, o) List.mem_cons_self) hk hb
          intro o' ho'
          have := hos 0 (by simp) o' (by rw [getD_zero_headD]; exact ho')
          simpa using this
        · apply ih sr oss.tail hr (fun ko hko => hwf ko (List.mem_cons_of_mem _ hko))
            (fun ko hko => hle ko (List.mem_cons_of_mem _ hko)) _ x hx
          intro j hj o' ho'
          have := hos (j + 1) (by simpa using hj) o' (by rw [getD_succ_tail]; exact ho')
          simpa using this

/-- **`Holds.C15` is true of the whole trace of the parameter-loader model** — for every set of keys
    the constructor accepts (each with a user table of shape `(n,)` or `(n, 1)` and/or a range, grid
    or uniform sampling, any sampler oracle meeting its contract), every batch size (`b ≤ n` is part
    of acceptance), and every per-key history of `get_batch` requests of any length whose reshuffle
    oracles are permutations of that key's store: each key's store is the user's table when there is
    one, else lies in the key's own range; every batch has shape `(b, 1)` and only rows of that key's
    own store.  Hypotheses: arrays are rectangular (`Tbl.WF`) and ranges are `lo ≤ hi`. -/
theorem param_history_holds_perkey {n b : Nat} {m : String} {keys : List (ParamKey × List Rat)}
    {ss : List (String × List (List Rat))} (h : mkParam n b m keys = .ok ss)
    (hwf : ∀ ko ∈ keys, ∀ t, ko.1.user = some t → t.WF)
    (hle : ∀ ko ∈ keys, ∀ lo hi, ko.1.user = none → ko.1.range = some (lo, hi) → lo ≤ hi)
    (oss : List (List (List (List Rat))))
    (hos : ∀ j (hj : j < ss.length), ∀ o ∈ oss.getD j [], o.Perm ss[j].2) :
    holdsC15Param n b (paramTrace n b keys ss oss) = none := by
  unfold mkParam at h
  split at h
  · cases h
  · rename_i hnb
    unfold holdsC15Param
    apply c15First_eq_none
    intro y hy
    obtain ⟨x, hx, rfl⟩ := List.mem_map.1 hy
    exact paramTrace_clauses n b m (by omega) keys ss oss h hwf hle hos x hx

/-! #### synchronous histories: every `get_batch` advances the cursor of every key -/

/-- one `param_batch()`: every key's cursor serves one batch, with that key's own oracle
    (the loop of the driver over the entries of a step) -/
def paramNext (n : Nat) : List (MB (List Rat)) → List (List (List Rat)) →
    List (MB (List Rat)) × List (List (List Rat))
  | [], _ => ([], [])
  | mb :: ms, os =>
    let r := Minibatch.next n mb (os.headD [])
    let rs := paramNext n ms os.tail
    (r.1 :: rs.1, r.2 :: rs.2)

/-- a history of `get_batch` calls: per call, per key (in key order) the batch served -/
def paramRun (n : Nat) : List (MB (List Rat)) → List (List (List (List Rat))) →
    List (List (List (List Rat)))
  | _, [] => []
  | ms, st :: sts => (paramNext n ms st).2 :: paramRun n (paramNext n ms st).1 sts

/-- the record the driver builds: per key `(user table lifted, range, store, batches served)` -/
def paramRecord : List (ParamKey × List Rat) → List (String × List (List Rat)) →
    List (List (List (List Rat))) → List Key15
  | ko :: ks, s :: ss, served =>
    (ko.1.user.map lifted15, ko.1.range, s.2, served.map (·.headD [])) ::
      paramRecord ks ss (served.map List.tail)
  | _, _, _ => []

/-- the first key of a synchronous history sees its own C09 cursor; the others do not see it -/
theorem paramRun_cons (n : Nat) (mb : MB (List Rat)) (ms : List (MB (List Rat)))
    (steps : List (List (List (List Rat)))) :
    (paramRun n (mb :: ms) steps).map (·.headD []) = (Minibatch.run n mb (steps.map (·.headD []))).2 ∧
    (paramRun n (mb :: ms) steps).map List.tail = paramRun n ms (steps.map List.tail) := by
  induction steps generalizing mb ms with
  | nil => simp [paramRun, Minibatch.run]
  | cons st sts ih =>
    have := ih (Minibatch.next n mb (st.headD [])).1 (paramNext n ms st.tail).1
    simp only [paramRun, paramNext, List.map_cons, Minibatch.run, List.headD_cons, List.tail_cons]
    exact ⟨by rw [this.1], by rw [this.2]⟩

theorem paramRecord_clauses (n b : Nat) (m : String) (hb : b ≤ n) :
    ∀ (keys : List (ParamKey × List Rat)) (ss : List (String × List (List Rat)))
      (steps : List (List (List (List Rat)))),
      paramStores n m keys = .ok ss →
      (∀ ko ∈ keys, ∀ t, ko.1.user = some t → t.WF) →
      (∀ ko ∈ keys, ∀ lo hi, ko.1.user = none → ko.1.range = some (lo, hi) → lo ≤ hi) →
      (∀ st ∈ steps, ∀ j (hj : j < ss.length), (st.getD j []).Perm ss[j].2) →
      ∀ x ∈ paramRecord keys ss (paramRun n (ss.map fun s => Minibatch.init s.2 b) steps),
        c15ParamKey n b x.1 x.2.1 x.2.2.1 x.2.2.2 = none := by
  intro keys
  induction keys with
  | nil => intro ss steps _ _ _ _ x hx; cases ss <;> simp [paramRecord] at hx
  | cons ko r ih =>
    intro ss steps h hwf hle hos x hx
    obtain ⟨k, o⟩ := ko
    simp only [paramStores] at h
    cases hk : paramStore n m k o with
    | error e => cases hr : paramStores n m r <;> simp [hk, hr] at h
    | ok s =>
      cases hr : paramStores n m r with
      | error e => simp [hk, hr] at h
      | ok sr =>
        simp [hk, hr] at h
        subst h
        have hc := paramRun_cons n (Minibatch.init s b) (sr.map fun s => Minibatch.init s.2 b) steps
        simp only [paramRecord, List.map_cons, hc.1, hc.2, List.mem_cons] at hx
        rcases hx with rfl | hx
        · apply keyTrace_holds n b m k o s (hwf (k, o) List.mem_cons_self)
            (hle (k, o) List.mem_cons_self) hk hb (steps.map (·.headD []))
          intro o' ho'
          obtain ⟨st, hst, rfl⟩ := List.mem_map.1 ho'
          have := hos st hst 0 (by simp)
          rw [getD_zero_headD] at this
          simpa using this
        · apply ih sr (steps.map List.tail) hr (fun ko hko => hwf ko (List.mem_cons_of_mem _ hko))
            (fun ko hko => hle ko (List.mem_cons_of_mem _ hko)) _ x hx
          intro st' hst' j hj
          obtain ⟨st, hst, rfl⟩ := List.mem_map.1 hst'
          have := hos st hst (j + 1) (by simpa using hj)
          rw [getD_succ_tail] at this
          simpa using this

/-- **`Holds.C15` is true of the whole trace of the parameter-loader model, every history of
    `get_batch`** (the form the driver evaluates: every call advances the cursor of every key; `steps`
    gives, per call and per key, the reshuffle oracle).  For every set of keys the constructor accepts
    (user table of shape `(n,)` or `(n, 1)` and/or range; grid or uniform sampling with any sampler
    oracle meeting its contract), every `b ≤ n` (part of acceptance), any number of calls, arbitrary
    permutation oracles per key and call: `holdsC15Param … = none`. -/
theorem param_history_holds {n b : Nat} {m : String} {keys : List (ParamKey × List Rat)}
    {ss : List (String × List (List Rat))} (h : mkParam n b m keys = .ok ss)
    (hwf : ∀ ko ∈ keys, ∀ t, ko.1.user = some t → t.WF)
    (hle : ∀ ko ∈ keys, ∀ lo hi, ko.1.user = none → ko.1.range = some (lo, hi) → lo ≤ hi)
    (steps : List (List (List (List Rat))))
    (hos : ∀ st ∈ steps, ∀ j (hj : j < ss.length), (st.getD j []).Perm ss[j].2) :
    holdsC15Param n b
      (paramRecord keys ss (paramRun n (ss.map fun s => Minibatch.init s.2 b) steps)) = none := by
  unfold mkParam at h
  split at h
  · cases h
  · rename_i hnb
    unfold holdsC15Param
    apply c15First_eq_none
    intro y hy
    obtain ⟨x, hx, rfl⟩ := List.mem_map.1 hy
    exact paramRecord_clauses n b m (by omega) keys ss steps h hwf hle hos x hx

/-- the record has one entry per key (nothing is dropped by the zipping) -/
theorem paramRecord_length (keys : List (ParamKey × List Rat)) (ss : List (String × List (List Rat)))
    (served : List (List (List (List Rat)))) (h : ss.length = keys.length) :
    (paramRecord keys ss served).length = keys.length := by
  induction keys generalizing ss served with
  | nil => simp [paramRecord]
  | cons ko ks ih =>
    cases ss with
    | nil => simp at h
    | cons s ss => simp [paramRecord, ih ss (served.map List.tail) (by simpa using h)]

/-- **Per-key epochs obey C09**: the cursor of a key is C09's machine on that key's own store (of
    `n` rows), so every C09 theorem applies to it verbatim; here: drawing batches only ever permutes
    the key's store, and right after a reshuffle onto `s'` the reshuffling request and the next
    `⌈n/b⌉ − 1` ones serve exactly the consecutive slices of `s'`, whatever the oracles. -/
theorem param_key_epochs (n b : Nat) (m : String) (k : ParamKey) (o : List Rat) (s : List (List Rat))
    (hwf : ∀ t, k.user = some t → t.WF) (h : paramStore n m k o = .ok s)
    (hb : 0 < b) (hbn : b ≤ n) (hsz : n + 2 ≤ 2147483648) :
    (∀ os : List (List (List Rat)), (∀ o ∈ os, o.Perm s) →
      (Minibatch.run n (Minibatch.init s b) os).1.store.Perm s) ∧
    (∀ (s' : List (List Rat)) (mb : MB (List Rat)) (os : List (List (List Rat))),
      s'.length = n → mb.b = b → resets n mb = true → os.length + 1 = epochLen n b →
      (Minibatch.next n mb s').2 :: (Minibatch.run n (Minibatch.next n mb s').1 os).2 = epochBatches s' b ∧
      resets n (Minibatch.run n (Minibatch.next n mb s').1 os).1 = true) := by
  obtain ⟨hlen, -⟩ := paramStore_shape n m k o s hwf h
  constructor
  · intro os hos
    have := store_perm_after_any_history (store0 := s) (b := b) hb (by omega) (by omega) (by omega) os hos
    rw [hlen] at this
    exact this
  · intro s' mb os hs' hmb hr hos
    have := epoch_structure hb hbn s' hs' mb hmb hr os hos
    exact ⟨this.1, this.2.2.1⟩

/-! ### multi-network loader -/

/-- the user's tables of one network, as the driver hands them to `Holds.C15` -/
abbrev Tables15 := List (List Rat) × List (List Rat) × List (String × List (List Rat))

/-- `netTables` of the driver: per network, its (lifted) tables if it has observations -/
def netTables15 (nets : List NetArgs) : List (String × Option Tables15) :=
  nets.map fun a => (a.name, match a.pin, a.val with
    | some p, some v => some (lifted15 p, lifted15 v, liftEq15 a.eq)
    | _, _ => none)

/-- a history of `get_batch` calls of the multi-network loader: per call, per network its entry -/
def multiRun : List (String × Option Obs) → List (List (List Nat)) →
    List (List (String × Option ObsBatch))
  | _, [] => []
  | gs, os :: oss => (multiNext gs os).2 :: multiRun (multiNext gs os).1 oss

/-- one returned dictionary as observed: `(name, entry is empty, the entry's batch)` -/
def stepTrace (ents : List (String × Option ObsBatch)) : List (String × Bool × Option Batch15) :=
  ents.map fun e => (e.1, e.2.isNone, e.2.map fun bt => (bt.pin, bt.val, bt.eq))

theorem liftAll_liftEq {l : List (String × Tbl)} {xs : List (String × List (List Rat))}
    (h : liftAll l = some xs) : liftEq15 l = xs := by
  induction l generalizing xs with
  | nil => simp [liftAll] at h; subst h; rfl
  | cons kt r ih =>
    obtain ⟨k, t⟩ := kt
    simp only [liftAll] at h
    cases ht : t.lift with
    | none => simp [ht] at h
    | some x =>
      cases hr : liftAll r with
      | none => simp [ht, hr] at h
      | some xr =>
        simp [ht, hr] at h
        subst h
        have := ih hr
        simp only [liftEq15, lifted15] at this ⊢
        simp [ht, this]

/-- the reachable states of one network's loader, as far as C15 needs them -/
structure ObsOk (b : Nat) (g : Obs) : Prop where
  pin : g.pin.length = g.n
  val : g.val.length = g.n
  eq : ∀ kx ∈ g.eq, kx.2.length = g.n
  hb : b ≤ g.n
  cb : g.cur.b = b
  clen : g.cur.store.length = g.n
  cidx : ∀ i ∈ g.cur.store, i < g.n

theorem mkObs_obsOk {a : ObsArgs} {g : Obs} (h : mkObs a = .ok g) (hb : a.b ≤ g.n) : ObsOk a.b g := by
  obtain ⟨-, -, -, -, hp, hv, he, hc⟩ := mkObs_ok h
  refine ⟨hp, hv, he, hb, by rw [hc]; rfl, by rw [hc]; simp [Minibatch.init], ?_⟩
  rw [hc]
  intro i hi
  simpa [Minibatch.init] using hi

/-- one request: the state stays reachable and the batch is gathered with `b` valid row numbers -/
theorem obsNext_obsOk {b : Nat} {g : Obs} (hg : ObsOk b g) (o : List Nat)
    (ho : o.Perm (List.range g.n)) :
    ObsOk b (obsNext g o).1 ∧
    ∃ idx : List Nat, (obsNext g o).2 = batchOf g idx ∧ idx.length = b ∧ ∀ i ∈ idx, i < g.n := by
  have holen : o.length = g.n := by simpa using ho.length_eq
  have hoidx : ∀ i ∈ o, i < g.n := fun i hi => List.mem_range.1 (ho.subset hi)
  have hst : (Minibatch.next g.n g.cur o).1.b = b ∧ (Minibatch.next g.n g.cur o).1.store.length = g.n ∧
      ∀ i ∈ (Minibatch.next g.n g.cur o).1.store, i < g.n := by
    by_cases hr : resets g.n g.cur = true
    · rw [next_of_resets _ _ _ hr]; exact ⟨hg.cb, holen, hoidx⟩
    · have hr' : resets g.n g.cur = false := by simpa using hr
      rw [next_of_not_resets _ _ _ hr']; exact ⟨hg.cb, hg.clen, hg.cidx⟩
  have hbt : (Minibatch.next g.n g.cur o).2 =
      slice (Minibatch.next g.n g.cur o).1.store (Minibatch.next g.n g.cur o).1.idx
        (Minibatch.next g.n g.cur o).1.b := by
    simp only [Minibatch.next]
  refine ⟨⟨hg.pin, hg.val, hg.eq, hg.hb, hst.1, hst.2.1, hst.2.2⟩,
    (Minibatch.next g.n g.cur o).2, rfl, ?_, ?_⟩
  · rw [hbt, slice_length _ _ _ (by rw [hst.1, hst.2.1]; exact hg.hb), hst.1]
  · intro i hi
    rw [hbt] at hi
    exact hst.2.2 i ((slice_sublist _ _ _).subset hi)

/-- a batch gathered with `b` valid row numbers satisfies the observation clause of `Holds.C15` -/
theorem holdsC15Obs_single {b : Nat} {g : Obs} (hg : ObsOk b g) (idx : List Nat)
    (hl : idx.length = b) (hi : ∀ i ∈ idx, i < g.n) :
    holdsC15Obs b g.pin g.val g.eq
      [((batchOf g idx).pin, (batchOf g idx).val, (batchOf g idx).eq)] = none := by
  unfold holdsC15Obs
  apply c15First_eq_none
  intro x hx
  simp only [List.map_cons, List.map_nil, List.mem_singleton] at hx
  subst hx
  rw [← hl]
  exact c15ObsBatch_batchOf g idx hi hg.pin hg.val hg.eq

/-- network entry: tables of the user ↔ state of the model -/
def EntryOk (b : Nat) (t : Option Tables15) (g : Option Obs) : Prop :=
  match t, g with
  | none, none => True
  | some tb, some ob => tb = (ob.pin, ob.val, ob.eq) ∧ ObsOk b ob
  | _, _ => False

/-- the invariant of the multi-network loader along a history -/
def StateOk (b : Nat) : List (String × Option Tables15) → List (String × Option Obs) → Prop
  | [], [] => True
  | t :: ts, g :: gs => (g.1 = t.1 ∧ EntryOk b t.2 g.2) ∧ StateOk b ts gs
  | _, _ => False

/-- the PRNG contract of one call: a permutation of `0..n-1` for every network with data -/
def OraclesOk : List (String × Option Tables15) → List (List Nat) → Prop
  | [], _ => True
  | t :: ts, os =>
    (∀ tb, t.2 = some tb → (os.headD []).Perm (List.range tb.1.length)) ∧ OraclesOk ts os.tail

/-- the clause of `Holds.holdsC15Multi` for one network and its entry -/
def entryClause (b : Nat) (ne : (String × Option Tables15) × (String × Bool × Option Batch15)) :
    Option String :=
  c15MultiEntry ne.1.2.isSome ne.2.2.1
    (match ne.1.2, ne.2.2.2 with
      | some t, some bt => holdsC15Obs b t.1 t.2.1 t.2.2 [bt]
      | _, _ => none)

theorem holdsC15Multi_eq (b : Nat) (nets : List (String × Option Tables15))
    (steps : List (List (String × Bool × Option Batch15))) :
    holdsC15Multi b nets steps = c15First (steps.map fun ents =>
      if ents.map (·.1) != nets.map (·.1) then some "multi-batch-keys-differ-from-the-networks"
      else c15First ((List.zip nets ents).map (entryClause b))) := rfl

/-- **One call**: the invariant is kept, the returned dictionary has the networks' names in order,
    and every entry satisfies its clause (aligned batch if data, empty otherwise). -/
theorem multiNext_step (b : Nat) :
    ∀ (ts : List (String × Option Tables15)) (gs : List (String × Option Obs)) (os : List (List Nat)),
      StateOk b ts gs → OraclesOk ts os →
      StateOk b ts (multiNext gs os).1 ∧
      (stepTrace (multiNext gs os).2).map (·.1) = ts.map (·.1) ∧
      ∀ ne ∈ List.zip ts (stepTrace (multiNext gs os).2), entryClause b ne = none := by
  intro ts
  induction ts with
  | nil =>
    intro gs os hs _
    cases gs with
    | nil => simp [multiNext, StateOk, stepTrace]
    | cons g gs => simp [StateOk] at hs
  | cons t ts ih =>
    intro gs os hs ho
    cases gs with
    | nil => simp [StateOk] at hs
    | cons kg gs =>
      obtain ⟨k, g⟩ := kg
      obtain ⟨tn, tt⟩ := t
      simp only [StateOk] at hs
      obtain ⟨⟨hname, hent⟩, hrest⟩ := hs
      have hname' : k = tn := hname
      have hent' : EntryOk b tt g := hent
      clear hname hent
      subst hname'
      rename' hent' => hent
      simp only [OraclesOk] at ho
      obtain ⟨ho1, ho2⟩ := ho
      have hrec := ih gs os.tail hrest ho2
      cases g with
      | none =>
        cases tt with
        | some tb => simp [EntryOk] at hent
        | none =>
          simp only [multiNext, stepTrace, List.map_cons, List.zip_cons_cons, List.mem_cons, StateOk]
          refine ⟨⟨⟨trivial, hent⟩, hrec.1⟩, ?_, ?_⟩
          · have := hrec.2.1; simp only [stepTrace] at this; rw [this]
          · intro ne hne
            rcases hne with rfl | hne
            · simp [entryClause, c15MultiEntry]
            · exact hrec.2.2 ne hne
      | some ob =>
        cases tt with
        | none => simp [EntryOk] at hent
        | some tb =>
          simp only [EntryOk] at hent
          obtain ⟨rfl, hob⟩ := hent
          have hperm : (os.headD []).Perm (List.range ob.n) := by
            have := ho1 _ rfl
            simpa [hob.pin] using this
          obtain ⟨hob', idx, hbt, hl, hi⟩ := obsNext_obsOk hob (os.headD []) hperm
          simp only [multiNext, stepTrace, List.map_cons, List.zip_cons_cons, List.mem_cons, StateOk]
          refine ⟨⟨⟨trivial, ?_⟩, hrec.1⟩, ?_, ?_⟩
          · exact ⟨rfl, hob'⟩
          · have := hrec.2.1; simp only [stepTrace] at this; rw [this]
          · intro ne hne
            rcases hne with rfl | hne
            · simp only [entryClause, Option.isSome_some, Option.isNone_some, Option.map_some, hbt]
              rw [holdsC15Obs_single hob idx hl hi]
              simp [c15MultiEntry]
            · exact hrec.2.2 ne hne

/-- **Every history**, from any state satisfying the invariant. -/
theorem multiRun_holds (b : Nat) (ts : List (String × Option Tables15)) :
    ∀ (oss : List (List (List Nat))) (gs : List (String × Option Obs)),
      StateOk b ts gs → (∀ os ∈ oss, OraclesOk ts os) →
      holdsC15Multi b ts ((multiRun gs oss).map stepTrace) = none := by
  intro oss
  induction oss with
  | nil => intro gs _ _; rfl
  | cons os oss ih =>
    intro gs hs ho
    obtain ⟨hs', hnames, hents⟩ := multiNext_step b ts gs os hs (ho os List.mem_cons_self)
    have hrec := ih (multiNext gs os).1 hs' (fun os' h' => ho os' (List.mem_cons_of_mem _ h'))
    rw [holdsC15Multi_eq] at hrec ⊢
    have hstep : c15First ((List.zip ts (stepTrace (multiNext gs os).2)).map (entryClause b)) = none := by
      apply c15First_eq_none
      intro x hx
      obtain ⟨ne, hne, rfl⟩ := List.mem_map.1 hx
      exact hents ne hne
    have h1 : ((stepTrace (multiNext gs os).2).map (·.1) != ts.map (·.1)) = false := by
      rw [hnames]; simp
    simp only [multiRun, List.map_cons]
    rw [h1]
    simp only [Bool.false_eq_true, ↓reduceIte]
    rw [hstep]
    exact hrec

/-- what the constructor built satisfies the invariant, against the driver's `netTables` -/
theorem netsBuilt_stateOk (b : Nat) :
    ∀ (nets : List NetArgs) (gs : List (String × Option Obs)), NetsBuilt b nets gs →
      (∀ kg ∈ gs, ∀ g, kg.2 = some g → b ≤ g.n) → StateOk b (netTables15 nets) gs := by
  intro nets
  induction nets with
  | nil =>
    intro gs h _
    cases gs with
    | nil => trivial
    | cons g gs => simp [NetsBuilt] at h
  | cons a as ih =>
    intro gs h hb
    cases gs with
    | nil => simp [NetsBuilt] at h
    | cons kg gs =>
      obtain ⟨k, g⟩ := kg
      rw [NetsBuilt] at h
      obtain ⟨⟨hname, hnone, hsome⟩, hrest⟩ := h
      have hname' : k = a.name := hname
      have hnone' : g = none ↔ a.pin = none := hnone
      have hsome' : ∀ ob, g = some ob → ∃ pin val, a.pin = some pin ∧ a.val = some val ∧
          mkObs { b := b, pin := pin, val := val, eq := a.eq } = .ok ob := hsome
      have hrec := ih gs hrest (fun kg hkg => hb kg (List.mem_cons_of_mem _ hkg))
      show StateOk b ((a.name, _) :: netTables15 as) ((k, g) :: gs)
      simp only [StateOk]
      refine ⟨⟨hname', ?_⟩, hrec⟩
      cases g with
      | none =>
        have hp : a.pin = none := hnone'.1 rfl
        simp [hp, EntryOk]
      | some ob =>
        obtain ⟨pin, val, hp, hv, hmk⟩ := hsome' ob rfl
        obtain ⟨hpl, hvl, hel, -⟩ := mkObs_ok hmk
        have hbn : b ≤ ob.n := hb (k, some ob) List.mem_cons_self ob rfl
        have hok : ObsOk b ob := mkObs_obsOk hmk hbn
        have e1 : lifted15 pin = ob.pin := by simp only [lifted15]; rw [hpl]; rfl
        have e2 : lifted15 val = ob.val := by simp only [lifted15]; rw [hvl]; rfl
        have e3 : liftEq15 a.eq = ob.eq := liftAll_liftEq hel
        simp only [hp, hv, EntryOk, e1, e2, e3]
        exact ⟨trivial, hok⟩

/-- the PRNG contract stated against the loaders (a permutation of `0..n-1` for every network with
    data, `n` its number of observations) is the contract `OraclesOk` against the tables -/
theorem oraclesOk_of (b : Nat) :
    ∀ (ts : List (String × Option Tables15)) (gs : List (String × Option Obs)) (os : List (List Nat)),
      StateOk b ts gs →
      (∀ j (hj : j < gs.length) g, gs[j].2 = some g → (os.getD j []).Perm (List.range g.n)) →
      OraclesOk ts os := by
  intro ts
  induction ts with
  | nil => intro gs os _ _; trivial
  | cons t ts ih =>
    intro gs os hs ho
    cases gs with
    | nil => simp [StateOk] at hs
    | cons kg gs =>
      simp only [StateOk] at hs
      obtain ⟨⟨-, hent⟩, hrest⟩ := hs
      simp only [OraclesOk]
      constructor
      · intro tb htb
        cases hg : kg.2 with
        | none => rw [htb, hg] at hent; simp [EntryOk] at hent
        | some ob =>
          rw [htb, hg] at hent
          simp only [EntryOk] at hent
          obtain ⟨rfl, hob⟩ := hent
          have := ho 0 (by simp) ob (by simpa using hg)
          rw [getD_zero_headD] at this
          simpa [hob.pin] using this
      · apply ih gs os.tail hrest
        intro j hj g hg
        have := ho (j + 1) (by simpa using hj) g (by simpa using hg)
        rw [getD_succ_tail] at this
        exact this

/-- **`Holds.C15` is true of the whole trace of the multi-network-loader model** — for every set of
    dictionaries the constructor accepts (any number of networks, any of them without data, 1-D or
    2-D tables, observed parameters), every batch size not larger than any network's number of
    observations (otherwise `get_batch` is rejected: `sliceGuard`), every history of `get_batch`
    calls of any length and every oracle sequence honouring the PRNG contract (per call, one oracle
    per network in order; only those of networks with data matter): every returned dictionary has
    the networks' keys, one aligned batch for each network with data, an empty entry exactly for the
    others. -/
theorem multi_history_holds {b : Nat} {pg vg : Bool} {pk vk : List String} {ek : Option (List String)}
    {nets : List NetArgs} {gs : List (String × Option Obs)}
    (h : mkMulti b pg vg pk vk ek nets = .ok gs)
    (hb : ∀ kg ∈ gs, ∀ g, kg.2 = some g → b ≤ g.n)
    (oss : List (List (List Nat)))
    (hos : ∀ os ∈ oss, ∀ j (hj : j < gs.length) g, gs[j].2 = some g →
      (os.getD j []).Perm (List.range g.n)) :
    holdsC15Multi b (netTables15 nets) ((multiRun gs oss).map stepTrace) = none := by
  have hmk : mkNets b nets = .ok gs := by
    unfold mkMulti at h
    split at h
    · cases h
    · split at h
      · cases h
      · split at h
        · split at h
          · cases h
          · exact h
        · exact h
  have hs := netsBuilt_stateOk b nets gs (mkNets_ok b nets gs hmk) hb
  exact multiRun_holds b _ oss gs hs (fun os hos' => oraclesOk_of b _ gs os hs (hos os hos'))

/-- the record has one dictionary per call and one entry per network -/
theorem multiRun_shape (gs : List (String × Option Obs)) (oss : List (List (List Nat))) :
    (multiRun gs oss).length = oss.length ∧ ∀ ents ∈ multiRun gs oss, ents.length = gs.length := by
  have hl : ∀ (gs : List (String × Option Obs)) (os : List (List Nat)),
      (multiNext gs os).1.length = gs.length ∧ (multiNext gs os).2.length = gs.length := by
    intro gs
    induction gs with
    | nil => intro os; simp [multiNext]
    | cons kg r ih =>
      intro os
      obtain ⟨k, g⟩ := kg
      cases g <;> simp [multiNext, ih os.tail]
  induction oss generalizing gs with
  | nil => simp [multiRun]
  | cons os oss ih =>
    have := ih (multiNext gs os).1
    simp only [multiRun, List.length_cons, List.mem_cons]
    refine ⟨by rw [this.1], ?_⟩
    intro ents hents
    rcases hents with rfl | hents
    · exact (hl gs os).2
    · rw [this.2 ents hents, (hl gs os).1]

/-! ### non-vacuity -/

section NonVacuity

/-- two keys — `nu` with a user table of shape `(4, 1)`, `D` with the range `[0, 1]` — `n = 4` -/
private def exKeys : List (ParamKey × List Rat) :=
  [({ name := "nu", range := none, user := some (.d2 [[1], [2], [3], [4]] 1) }, []),
   ({ name := "D", range := some (0, 1), user := none }, [])]

private def exStores : List (String × List (List Rat)) :=
  [("nu", [[1], [2], [3], [4]]), ("D", (gridStore 0 1 4).map fun x => [x])]

private theorem exParam_ok : mkParam 4 2 "grid" exKeys = .ok exStores := by
  simp [mkParam, paramStores, paramStore, exKeys, exStores]

/-- three `get_batch` calls (the first and the third reshuffle), different oracles per key -/
private def exSteps : List (List (List (List Rat))) :=
  [[[[3], [4], [1], [2]], ((gridStore 0 1 4).map fun x => [x]).reverse],
   [[[1], [2], [3], [4]], (gridStore 0 1 4).map fun x => [x]],
   [[[4], [3], [2], [1]], ((gridStore 0 1 4).map fun x => [x]).reverse]]

example : holdsC15Param 4 2
    (paramRecord exKeys exStores
      (paramRun 4 (exStores.map fun s => Minibatch.init s.2 2) exSteps)) = none := by
  apply param_history_holds exParam_ok
  · intro ko hko t ht
    simp only [exKeys, List.mem_cons, List.mem_nil_iff, or_false] at hko
    rcases hko with rfl | rfl
    · simp only [Option.some.injEq] at ht
      subst ht
      intro r hr
      simp only [List.mem_cons, List.mem_nil_iff, or_false] at hr
      rcases hr with rfl | rfl | rfl | rfl <;> rfl
    · simp at ht
  · intro ko hko lo hi hu hr
    simp only [exKeys, List.mem_cons, List.mem_nil_iff, or_false] at hko
    rcases hko with rfl | rfl
    · simp at hu
    · simp only [Option.some.injEq, Prod.mk.injEq] at hr
      obtain ⟨rfl, rfl⟩ := hr
      norm_num
  · intro st hst j hj
    have hj' : j = 0 ∨ j = 1 := by simp [exStores] at hj; omega
    simp only [exSteps, List.mem_cons, List.mem_nil_iff, or_false] at hst
    rcases hst with rfl | rfl | rfl <;> rcases hj' with rfl | rfl
    · exact (List.perm_append_comm : ([[3], [4]] ++ [[1], [2]] : List (List Rat)).Perm ([[1], [2]] ++ [[3], [4]]))
    · exact List.reverse_perm _
    · exact List.Perm.refl _
    · exact List.Perm.refl _
    · exact (List.reverse_perm [[1], [2], [3], [4]] : ([[1], [2], [3], [4]] : List (List Rat)).reverse.Perm _)
    · exact List.reverse_perm _

/-- the record of that example has an entry for each of the two keys, with three batches each -/
example : (paramRecord exKeys exStores
      (paramRun 4 (exStores.map fun s => Minibatch.init s.2 2) exSteps)).map (·.2.2.2.length) = [3, 3] := by
  rfl

/-- the per-key form on the same loader: `nu` is asked three times, `D` twice -/
example : holdsC15Param 4 2 (paramTrace 4 2 exKeys exStores
    [[[[3], [4], [1], [2]], [[1], [2], [3], [4]], [[4], [3], [2], [1]]],
     [((gridStore 0 1 4).map fun x => [x]).reverse, (gridStore 0 1 4).map fun x => [x]]]) = none := by
  apply param_history_holds_perkey exParam_ok
  · intro ko hko t ht
    simp only [exKeys, List.mem_cons, List.mem_nil_iff, or_false] at hko
    rcases hko with rfl | rfl
    · simp only [Option.some.injEq] at ht
      subst ht
      intro r hr
      simp only [List.mem_cons, List.mem_nil_iff, or_false] at hr
      rcases hr with rfl | rfl | rfl | rfl <;> rfl
    · simp at ht
  · intro ko hko lo hi hu hr
    simp only [exKeys, List.mem_cons, List.mem_nil_iff, or_false] at hko
    rcases hko with rfl | rfl
    · simp at hu
    · simp only [Option.some.injEq, Prod.mk.injEq] at hr
      obtain ⟨rfl, rfl⟩ := hr
      norm_num
  · intro j hj o ho
    have hj' : j = 0 ∨ j = 1 := by simp [exStores] at hj; omega
    rcases hj' with rfl | rfl
    · simp only [List.getD_cons_zero, List.mem_cons, List.mem_nil_iff, or_false] at ho
      rcases ho with rfl | rfl | rfl
      · exact (List.perm_append_comm : ([[3], [4]] ++ [[1], [2]] : List (List Rat)).Perm ([[1], [2]] ++ [[3], [4]]))
      · exact List.Perm.refl _
      · exact (List.reverse_perm [[1], [2], [3], [4]] : ([[1], [2], [3], [4]] : List (List Rat)).reverse.Perm _)
    · simp only [List.getD_cons_succ, List.getD_cons_zero, List.mem_cons, List.mem_nil_iff, or_false] at ho
      rcases ho with rfl | rfl
      · exact List.reverse_perm _
      · exact List.Perm.refl _

/-- the hypotheses of `param_key_epochs` on the key `nu` of that loader (`n = 4`, `b = 2`) -/
example : (∀ t, (exKeys[0]).1.user = some t → t.WF) ∧
    paramStore 4 "grid" (exKeys[0]).1 (exKeys[0]).2 = .ok [[1], [2], [3], [4]] := by
  refine ⟨?_, by simp [paramStore, exKeys]⟩
  intro t ht
  simp only [exKeys, List.getElem_cons_zero, Option.some.injEq] at ht
  subst ht
  intro r hr
  simp only [List.mem_cons, List.mem_nil_iff, or_false] at hr
  rcases hr with rfl | rfl | rfl | rfl <;> rfl

/-- two networks, `v` without data; `u` has three observations, `b = 2` -/
private def exNets : List NetArgs :=
  [{ name := "u", pin := some (.d1 [1, 2, 3]), val := some (.d2 [[10], [20], [30]] 1),
     eq := [("nu", .d1 [7, 8, 9])] },
   { name := "v", pin := none, val := none, eq := [] }]

example : ∃ gs, mkMulti 2 true true ["u", "v"] ["v", "u"] (some ["u", "v"]) exNets = .ok gs ∧
    gs.map (fun kg => (kg.1, kg.2.isSome)) = [("u", true), ("v", false)] ∧
    holdsC15Multi 2 (netTables15 exNets)
      ((multiRun gs [[[2, 0, 1], []], [[0, 1, 2], []], [[1, 2, 0], [5]]]).map stepTrace) = none := by
  have hmk : mkMulti 2 true true ["u", "v"] ["v", "u"] (some ["u", "v"]) exNets
      = .ok [("u", some { b := 2, n := 3, pin := [[1], [2], [3]], val := [[10], [20], [30]],
                          eq := [("nu", [[7], [8], [9]])],
                          cur := Minibatch.init (List.range 3) 2 }), ("v", none)] := by
    rfl
  refine ⟨_, hmk, rfl, ?_⟩
  apply multi_history_holds hmk
  · intro kg hkg g hg
    simp only [List.mem_cons, List.mem_nil_iff, or_false] at hkg
    rcases hkg with rfl | rfl
    · simp only [Option.some.injEq] at hg; subst hg; decide
    · simp at hg
  · intro os hos j hj g hg
    have hj' : j = 0 ∨ j = 1 := by simp at hj; omega
    rcases hj' with rfl | rfl
    · simp only [List.getElem_cons_zero, Option.some.injEq] at hg
      subst hg
      simp only [List.mem_cons, List.mem_nil_iff, or_false] at hos
      rcases hos with rfl | rfl | rfl <;> decide
    · simp at hg

/-- that history: three dictionaries, `u` served (rows 2, 0 of its tables first), `v` empty -/
example : ((multiRun
      [("u", some { b := 2, n := 3, pin := [[1], [2], [3]], val := [[10], [20], [30]],
                    eq := [("nu", [[7], [8], [9]])], cur := Minibatch.init (List.range 3) 2 }),
       ("v", none)]
      [[[2, 0, 1], []], [[0, 1, 2], []], [[1, 2, 0], [5]]]).map stepTrace).map
        (fun st => st.map fun e => (e.1, e.2.1, e.2.2.map (·.1)))
    = [[("u", false, some [[3], [1]]), ("v", true, none)],
       [("u", false, some [[1], [2]]), ("v", true, none)],
       [("u", false, some [[2], [3]]), ("v", true, none)]] := by
  rfl

end NonVacuity

-- #print axioms Jinns.Loaders.param_history_holds  -- [propext, Classical.choice, Quot.sound]
-- #print axioms Jinns.Loaders.multi_history_holds  -- [propext, Classical.choice, Quot.sound]

end Jinns.Loaders
