/-
Lemmas shared by the property theorems on the training loop (C07, C18, C19):
what `k` iterations of `_one_iteration` compute, field by field, and the while-loop lemma
`solve = iter k` for the first `k` at which `break_fun` is false.
All statements are for arbitrary parameter functions (`Prog`) and arbitrary `n`, `k`.
-/
import JinnsModel.SolveLoop

namespace Jinns.Solve
open Jinns.Validation

variable {Θ O G B V T P VS C : Type}

/-! ### list facts -/

theorem set_append_replicate {α : Type} (l : List α) (m : Nat) (v0 v : α) :
    (l ++ List.replicate (m + 1) v0).set l.length v = (l ++ [v]) ++ List.replicate m v0 := by
  rw [List.set_append]
  simp [List.replicate_succ]

theorem set_length_append_replicate {α : Type} (l : List α) (k n : Nat) (v0 v : α)
    (hl : l.length = k) (hk : k < n) :
    (l ++ List.replicate (n - k) v0).set k v = (l ++ [v]) ++ List.replicate (n - (k + 1)) v0 := by
  have e : n - k = (n - (k + 1)) + 1 := by omega
  rw [e, ← hl]
  have := set_append_replicate l (n - (l.length + 1)) v0 v
  simpa using this

/-! ### projections of one iteration -/

section
variable (pr : Prog Θ O G B V T P VS C)

@[simp] theorem oneIteration_i (s : St Θ O G V T P VS C) : (oneIteration pr s).i = s.i + 1 := rfl
@[simp] theorem oneIteration_θ (s : St Θ O G V T P VS C) :
    (oneIteration pr s).θ = (pr.update s.θ s.opt (pr.nextBatch s.gens).2).θ := rfl
@[simp] theorem oneIteration_opt (s : St Θ O G V T P VS C) :
    (oneIteration pr s).opt = (pr.update s.θ s.opt (pr.nextBatch s.gens).2).opt := rfl
@[simp] theorem oneIteration_gens (s : St Θ O G V T P VS C) :
    (oneIteration pr s).gens = (pr.nextBatch s.gens).1 := rfl
@[simp] theorem oneIteration_lossH (s : St Θ O G V T P VS C) :
    (oneIteration pr s).lossH = s.lossH.set s.i (pr.update s.θ s.opt (pr.nextBatch s.gens).2).val := rfl
@[simp] theorem oneIteration_termH (s : St Θ O G V T P VS C) :
    (oneIteration pr s).termH = s.termH.set s.i (pr.update s.θ s.opt (pr.nextBatch s.gens).2).terms := rfl
@[simp] theorem oneIteration_trackH (s : St Θ O G V T P VS C) :
    (oneIteration pr s).trackH =
      s.trackH.set s.i (pr.track (pr.update s.θ s.opt (pr.nextBatch s.gens).2).θ) := rfl
@[simp] theorem oneIteration_lastGood (s : St Θ O G V T P VS C) :
    (oneIteration pr s).lastGood =
      if pr.isNaN (oneIteration pr s).θ then s.lastGood else (oneIteration pr s).θ := rfl
theorem oneIteration_vs (s : St Θ O G V T P VS C) :
    (oneIteration pr s).vs = (valPart pr s (oneIteration pr s).θ).vs := rfl
theorem oneIteration_stop (s : St Θ O G V T P VS C) :
    (oneIteration pr s).stop = (valPart pr s (oneIteration pr s).θ).stop := rfl
theorem oneIteration_critH (s : St Θ O G V T P VS C) :
    (oneIteration pr s).critH = (valPart pr s (oneIteration pr s).θ).critH := rfl
theorem oneIteration_best (s : St Θ O G V T P VS C) :
    (oneIteration pr s).best = (valPart pr s (oneIteration pr s).θ).best := rfl
theorem oneIteration_calls (s : St Θ O G V T P VS C) :
    (oneIteration pr s).calls = (valPart pr s (oneIteration pr s).θ).calls := rfl

theorem valPart_none (s : St Θ O G V T P VS C) (θ' : Θ) (h : s.vs = none) :
    valPart pr s θ' = { vs := none, stop := false, critH := s.critH, best := θ', calls := s.calls } := by
  unfold valPart; rw [h]

theorem valPart_call (s : St Θ O G V T P VS C) (θ' : Θ) (v : VS) (h : s.vs = some v)
    (hc : s.i % pr.callEvery = 0) :
    valPart pr s θ' =
      { vs := some (pr.validate v θ').vs, stop := (pr.validate v θ').stop,
        critH := s.critH.set s.i (pr.validate v θ').crit,
        best := if (pr.validate v θ').improved then θ' else s.best,
        calls := s.calls ++ [(s.i, θ')] } := by
  unfold valPart; rw [h]; simp [hc]

theorem valPart_skip (s : St Θ O G V T P VS C) (θ' : Θ) (v : VS) (h : s.vs = some v)
    (hc : s.i % pr.callEvery ≠ 0) :
    valPart pr s θ' =
      { vs := some v, stop := false,
        critH := s.critH.set s.i (s.critH.getD (s.i - 1) pr.c0),
        best := s.best, calls := s.calls } := by
  unfold valPart; rw [h]; simp [hc]

/-! ### the while loop -/

theorem iter_succ' (k : Nat) (s : St Θ O G V T P VS C) :
    iter pr (k + 1) s = iter pr k (oneIteration pr s) := by
  induction k with
  | zero => rfl
  | succ k ih => show oneIteration pr (iter pr (k + 1) s) = _; rw [ih]; rfl

/-- **While-loop lemma.**  If `break_fun` holds at the first `k` carries and fails at the
    `k`-th one, the loop returns the carry after exactly `k` iterations. -/
theorem whileLoop_eq_iter (n : Nat) :
    ∀ (fuel k : Nat) (s : St Θ O G V T P VS C), k ≤ fuel →
      (∀ j, j < k → cont pr n (iter pr j s) = true) → cont pr n (iter pr k s) = false →
      whileLoop pr n fuel s = iter pr k s := by
  intro fuel
  induction fuel with
  | zero =>
    intro k s hk _ _
    have : k = 0 := by omega
    subst this; rfl
  | succ fuel ih =>
    intro k s hk hlt hk0
    cases k with
    | zero =>
      have h0 : cont pr n s = false := hk0
      simp [whileLoop, h0, iter]
    | succ k =>
      have h0 : cont pr n s = true := hlt 0 (by omega)
      have := ih k (oneIteration pr s) (by omega)
        (fun j hj => by rw [← iter_succ']; exact hlt (j + 1) (by omega))
        (by rw [← iter_succ']; exact hk0)
      simp [whileLoop, h0, this, iter_succ']

/-! ### the reference loop -/

theorem refLoop_add (n m : Nat) (r : Ref Θ O G V T P) :
    refLoop pr (n + m) r = refLoop pr m (refLoop pr n r) := by
  induction m with
  | zero => rfl
  | succ m ih => show refStep pr (refLoop pr (n + m) r) = refStep pr (refLoop pr m (refLoop pr n r)); rw [ih]

theorem refLoop_lengths (k : Nat) (r : Ref Θ O G V T P) :
    (refLoop pr k r).lossH.length = r.lossH.length + k ∧
    (refLoop pr k r).termH.length = r.termH.length + k ∧
    (refLoop pr k r).trackH.length = r.trackH.length + k := by
  induction k with
  | zero => simp [refLoop]
  | succ k ih =>
    obtain ⟨h1, h2, h3⟩ := ih
    simp only [refLoop, refStep, List.length_append, List.length_cons, List.length_nil, h1, h2, h3]
    omega

theorem refLoop_init_lengths (k : Nat) (θ0 : Θ) (opt0 : O) (g0 : G) :
    (refLoop pr k (refInit θ0 opt0 g0 : Ref Θ O G V T P)).lossH.length = k ∧
    (refLoop pr k (refInit θ0 opt0 g0 : Ref Θ O G V T P)).termH.length = k ∧
    (refLoop pr k (refInit θ0 opt0 g0 : Ref Θ O G V T P)).trackH.length = k := by
  have := refLoop_lengths pr k (refInit θ0 opt0 g0 : Ref Θ O G V T P)
  simpa [refInit] using this

/-- The parameters / optimizer state / generators of the reference loop do not depend on the
    histories accumulated so far, and the histories only grow at the end. -/
theorem refLoop_prefix (k : Nat) (r : Ref Θ O G V T P) :
    let q := refLoop pr k (refInit r.θ r.opt r.gens)
    refLoop pr k r =
      { θ := q.θ, opt := q.opt, gens := q.gens, lossH := r.lossH ++ q.lossH,
        termH := r.termH ++ q.termH, trackH := r.trackH ++ q.trackH } := by
  induction k with
  | zero => simp [refLoop, refInit]
  | succ k ih =>
    simp only [refLoop] at ih ⊢
    rw [ih]
    simp [refStep, List.append_assoc]

/-- The histories of a shorter reference run are prefixes of those of a longer one. -/
theorem refLoop_take (k n : Nat) (hk : k ≤ n) (θ0 : Θ) (opt0 : O) (g0 : G) :
    let a := refLoop pr k (refInit θ0 opt0 g0 : Ref Θ O G V T P)
    let f := refLoop pr n (refInit θ0 opt0 g0 : Ref Θ O G V T P)
    f.lossH.take k = a.lossH ∧ f.termH.take k = a.termH ∧ f.trackH.take k = a.trackH := by
  intro a f
  obtain ⟨l1, l2, l3⟩ := refLoop_init_lengths pr k θ0 opt0 g0 (V := V) (T := T) (P := P)
  have e : f = refLoop pr (n - k) a := by
    show refLoop pr n _ = _
    have : n = k + (n - k) := by omega
    rw [this, refLoop_add]; congr 1; omega
  have p := refLoop_prefix pr (n - k) a
  rw [e, p]
  refine ⟨?_, ?_, ?_⟩
  · show (a.lossH ++ _).take k = _; rw [List.take_left' l1]
  · show (a.termH ++ _).take k = _; rw [List.take_left' l2]
  · show (a.trackH ++ _).take k = _; rw [List.take_left' l3]

/-- the parameters at the start of iteration `j` of the reference loop -/
def θseq (θ0 : Θ) (opt0 : O) (g0 : G) (j : Nat) : Θ :=
  (refLoop pr j (refInit θ0 opt0 g0 : Ref Θ O G V T P)).θ

/-! ### `k` iterations: the training part -/

theorem iter_core (k : Nat) (s : St Θ O G V T P VS C) :
    let r := refLoop pr k (refInit s.θ s.opt s.gens : Ref Θ O G V T P)
    (iter pr k s).i = s.i + k ∧ (iter pr k s).θ = r.θ ∧ (iter pr k s).opt = r.opt ∧
      (iter pr k s).gens = r.gens := by
  induction k with
  | zero => simp [iter, refLoop, refInit]
  | succ k ih =>
    obtain ⟨h1, h2, h3, h4⟩ := ih
    simp only [iter, refLoop, refStep, oneIteration_i, oneIteration_θ, oneIteration_opt,
      oneIteration_gens, h1, h2, h3, h4]
    exact ⟨by omega, trivial, trivial, trivial⟩

variable (n : Nat) (θ0 : Θ) (opt0 : O) (g0 : G) (vs0 : Option VS)

theorem iter_init_i (k : Nat) : (iter pr k (init pr n θ0 opt0 g0 vs0)).i = k := by
  have := (iter_core pr k (init pr n θ0 opt0 g0 vs0)).1
  simpa [init] using this

theorem iter_init_θ (k : Nat) :
    (iter pr k (init pr n θ0 opt0 g0 vs0)).θ = θseq pr θ0 opt0 g0 k :=
  (iter_core pr k (init pr n θ0 opt0 g0 vs0)).2.1

theorem iter_init_opt (k : Nat) :
    (iter pr k (init pr n θ0 opt0 g0 vs0)).opt =
      (refLoop pr k (refInit θ0 opt0 g0 : Ref Θ O G V T P)).opt :=
  (iter_core pr k (init pr n θ0 opt0 g0 vs0)).2.2.1

theorem iter_init_gens (k : Nat) :
    (iter pr k (init pr n θ0 opt0 g0 vs0)).gens =
      (refLoop pr k (refInit θ0 opt0 g0 : Ref Θ O G V T P)).gens :=
  (iter_core pr k (init pr n θ0 opt0 g0 vs0)).2.2.2

/-- After `k ≤ n` iterations the history arrays hold the reference histories in their first `k`
    slots and their initial content in the others. -/
theorem iter_init_hist (k : Nat) (hk : k ≤ n) :
    let s := iter pr k (init pr n θ0 opt0 g0 vs0)
    let r := refLoop pr k (refInit θ0 opt0 g0 : Ref Θ O G V T P)
    s.lossH = r.lossH ++ List.replicate (n - k) pr.v0 ∧
    s.termH = r.termH ++ List.replicate (n - k) pr.t0 ∧
    s.trackH = r.trackH ++ List.replicate (n - k) pr.p0 := by
  induction k with
  | zero => simp [iter, init, refLoop, refInit]
  | succ k ih =>
    obtain ⟨h1, h2, h3⟩ := ih (by omega)
    have hi := iter_init_i pr n θ0 opt0 g0 vs0 k
    have hθ := iter_init_θ pr n θ0 opt0 g0 vs0 k
    have ho := iter_init_opt pr n θ0 opt0 g0 vs0 k
    have hg := iter_init_gens pr n θ0 opt0 g0 vs0 k
    unfold θseq at hθ
    obtain ⟨l1, l2, l3⟩ := refLoop_lengths pr k (refInit θ0 opt0 g0 : Ref Θ O G V T P)
    replace l1 : (refLoop pr k (refInit θ0 opt0 g0 : Ref Θ O G V T P)).lossH.length = k := by
      simpa [refInit] using l1
    replace l2 : (refLoop pr k (refInit θ0 opt0 g0 : Ref Θ O G V T P)).termH.length = k := by
      simpa [refInit] using l2
    replace l3 : (refLoop pr k (refInit θ0 opt0 g0 : Ref Θ O G V T P)).trackH.length = k := by
      simpa [refInit] using l3
    simp only [iter, oneIteration_lossH, oneIteration_termH, oneIteration_trackH, hi, h1, h2, h3,
      hθ, ho, hg]
    refine ⟨?_, ?_, ?_⟩
    · rw [set_length_append_replicate _ k n _ _ l1 (by omega)]; rfl
    · rw [set_length_append_replicate _ k n _ _ l2 (by omega)]; rfl
    · rw [set_length_append_replicate _ k n _ _ l3 (by omega)]; rfl

/-! ### last finite parameters -/

/-- the last NaN-free parameters among `θ_0 … θ_k` as the code tracks them -/
def lastGoodRef : Nat → Θ
  | 0 => θ0
  | k + 1 => if pr.isNaN (θseq pr θ0 opt0 g0 (k + 1)) then lastGoodRef k else θseq pr θ0 opt0 g0 (k + 1)

theorem iter_init_lastGood (k : Nat) :
    (iter pr k (init pr n θ0 opt0 g0 vs0)).lastGood = lastGoodRef pr θ0 opt0 g0 k := by
  induction k with
  | zero => rfl
  | succ k ih =>
    have hθ := iter_init_θ pr n θ0 opt0 g0 vs0 (k + 1)
    simp only [iter] at hθ ⊢
    rw [oneIteration_lastGood, hθ, ih]; rfl

theorem lastGoodRef_of_finite (k : Nat)
    (h : ∀ j, 1 ≤ j → j ≤ k → pr.isNaN (θseq pr θ0 opt0 g0 j) = false) :
    lastGoodRef pr θ0 opt0 g0 k = θseq pr θ0 opt0 g0 k := by
  cases k with
  | zero => rfl
  | succ k => simp [lastGoodRef, h (k + 1) (by omega) (by omega)]

/-! ### the validation part -/

/-- the validation module before iteration `j`, when training runs unconditionally -/
def valState (v0 : VS) : Nat → VS
  | 0 => v0
  | j + 1 =>
    if j % pr.callEvery = 0 then (pr.validate (valState v0 j) (θseq pr θ0 opt0 g0 (j + 1))).vs
    else valState v0 j

/-- the outcome of the invocation made at iteration `j` (meaningful when `call_every ∣ j`):
    the module as it is then, called with the parameters **after** the update of iteration `j` -/
def outAt (v0 : VS) (j : Nat) : VOut VS C :=
  pr.validate (valState pr θ0 opt0 g0 v0 j) (θseq pr θ0 opt0 g0 (j + 1))

/-- does iteration `j` end with a stop request? -/
def stopReq (j : Nat) : Bool :=
  match vs0 with
  | none => false
  | some v0 => decide (j % pr.callEvery = 0) && (outAt pr θ0 opt0 g0 v0 j).stop

theorem iter_init_vs (k : Nat) :
    (iter pr k (init pr n θ0 opt0 g0 vs0)).vs = vs0.map (fun v0 => valState pr θ0 opt0 g0 v0 k) := by
  induction k with
  | zero => cases vs0 <;> rfl
  | succ k ih =>
    have hi := iter_init_i pr n θ0 opt0 g0 vs0 k
    have hθ := iter_init_θ pr n θ0 opt0 g0 vs0 (k + 1)
    simp only [iter] at hθ ⊢
    rw [oneIteration_vs, hθ]
    cases vs0 with
    | none => rw [valPart_none _ _ _ (by simpa using ih)]; rfl
    | some v0 =>
      have ih' : (iter pr k (init pr n θ0 opt0 g0 (some v0))).vs = some (valState pr θ0 opt0 g0 v0 k) := by
        simpa using ih
      by_cases hc : k % pr.callEvery = 0
      · rw [valPart_call _ _ _ _ ih' (by rw [hi]; exact hc)]
        simp [valState, hc]
      · rw [valPart_skip _ _ _ _ ih' (by rw [hi]; exact hc)]
        simp [valState, hc]

/-- the stop flag after iteration `j` is the stop request of the invocation of iteration `j` -/
theorem iter_init_stop (j : Nat) :
    (iter pr (j + 1) (init pr n θ0 opt0 g0 vs0)).stop = stopReq pr θ0 opt0 g0 vs0 j := by
  have hi := iter_init_i pr n θ0 opt0 g0 vs0 j
  have hθ := iter_init_θ pr n θ0 opt0 g0 vs0 (j + 1)
  have hv := iter_init_vs pr n θ0 opt0 g0 vs0 j
  simp only [iter] at hθ ⊢
  rw [oneIteration_stop, hθ]
  cases vs0 with
  | none => rw [valPart_none _ _ _ (by simpa using hv)]; rfl
  | some v0 =>
    have hv' : (iter pr j (init pr n θ0 opt0 g0 (some v0))).vs = some (valState pr θ0 opt0 g0 v0 j) := by
      simpa using hv
    by_cases hc : j % pr.callEvery = 0
    · rw [valPart_call _ _ _ _ hv' (by rw [hi]; exact hc)]
      simp [stopReq, outAt, hc]
    · rw [valPart_skip _ _ _ _ hv' (by rw [hi]; exact hc)]
      simp [stopReq, hc]

theorem iter_init_stop_zero : (iter pr 0 (init pr n θ0 opt0 g0 vs0)).stop = false := rfl

theorem stopReq_none (j : Nat) : stopReq pr θ0 opt0 g0 (none : Option VS) j = false := rfl

/-! ### solve = the first carry at which `break_fun` fails -/

/-- `break_fun` on the carry after `j` iterations, in terms of the reference quantities -/
theorem cont_iter (j : Nat) :
    cont pr n (iter pr j (init pr n θ0 opt0 g0 vs0)) =
      (decide (j < n) && !pr.isNaN (θseq pr θ0 opt0 g0 j) &&
        !(match j with | 0 => false | j' + 1 => stopReq pr θ0 opt0 g0 vs0 j')) := by
  unfold cont
  rw [iter_init_i, iter_init_θ]
  cases j with
  | zero => rfl
  | succ j => rw [iter_init_stop]

/-- If the parameters at the start of iterations `0 … k-1` are NaN-free and none of the
    iterations `0 … k-2` ends with a stop request, and the loop condition fails after `k ≤ n`
    iterations, `solve` returns the carry after exactly `k` iterations. -/
theorem solve_eq_iter (k : Nat) (hk : k ≤ n)
    (hnan : ∀ j, j < k → pr.isNaN (θseq pr θ0 opt0 g0 j) = false)
    (hstop : ∀ j, j + 1 < k → stopReq pr θ0 opt0 g0 vs0 j = false)
    (hend : k = n ∨ pr.isNaN (θseq pr θ0 opt0 g0 k) = true ∨
      (∃ j, k = j + 1 ∧ stopReq pr θ0 opt0 g0 vs0 j = true)) :
    solve pr n θ0 opt0 g0 vs0 = iter pr k (init pr n θ0 opt0 g0 vs0) := by
  unfold solve
  apply whileLoop_eq_iter pr n n k _ hk
  · intro j hj
    rw [cont_iter]
    have h1 : decide (j < n) = true := by simp; omega
    rw [h1, hnan j hj]
    cases j with
    | zero => rfl
    | succ j => simp [hstop j (by omega)]
  · rw [cont_iter]
    rcases hend with h | h | ⟨j, rfl, h⟩
    · subst h; simp
    · simp [h]
    · simp [h]

/-- `solve` always returns the carry after some number `k ≤ n` of iterations: the first `k` at which
    `break_fun` is false -/
theorem solve_is_iter : ∃ k, k ≤ n ∧
    (∀ j, j < k → cont pr n (iter pr j (init pr n θ0 opt0 g0 vs0)) = true) ∧
    cont pr n (iter pr k (init pr n θ0 opt0 g0 vs0)) = false ∧
    solve pr n θ0 opt0 g0 vs0 = iter pr k (init pr n θ0 opt0 g0 vs0) := by
  -- the first index at which the condition fails exists and is ≤ n
  have key : ∀ m, m ≤ n →
      (∀ j, j < m → cont pr n (iter pr j (init pr n θ0 opt0 g0 vs0)) = true) →
      ∃ k, k ≤ n ∧ (∀ j, j < k → cont pr n (iter pr j (init pr n θ0 opt0 g0 vs0)) = true) ∧
        cont pr n (iter pr k (init pr n θ0 opt0 g0 vs0)) = false := by
    intro m
    induction h : n - m generalizing m with
    | zero =>
      intro hm hall
      have : m = n := by omega
      subst this
      refine ⟨m, Nat.le_refl _, hall, ?_⟩
      unfold cont; rw [iter_init_i]; simp
    | succ d ih =>
      intro hm hall
      by_cases hc : cont pr n (iter pr m (init pr n θ0 opt0 g0 vs0)) = true
      · exact ih (m + 1) (by omega) (by omega) (fun j hj => by
          by_cases hjm : j = m
          · subst hjm; exact hc
          · exact hall j (by omega))
      · exact ⟨m, hm, hall, by simpa using hc⟩
  obtain ⟨k, hk, hall, hend⟩ := key 0 (Nat.zero_le _) (fun j hj => absurd hj (Nat.not_lt_zero _))
  exact ⟨k, hk, hall, hend, whileLoop_eq_iter pr n n k _ hk hall hend⟩

/-- the loop really exits because `break_fun` is false (the fuel is never what stops it) -/
theorem solve_exits : cont pr n (solve pr n θ0 opt0 g0 vs0) = false := by
  obtain ⟨k, _, _, hend, hs⟩ := solve_is_iter pr n θ0 opt0 g0 vs0
  rw [hs]; exact hend

/-- at most `n` iterations run -/
theorem solve_i_le : (solve pr n θ0 opt0 g0 vs0).i ≤ n := by
  obtain ⟨k, hk, _, _, hs⟩ := solve_is_iter pr n θ0 opt0 g0 vs0
  rw [hs, iter_init_i]; exact hk

end

end Jinns.Solve
