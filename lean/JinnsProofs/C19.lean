/-
C19 — validation is called on schedule; early stopping and best parameters follow it.

Part 1 (the loop, `JinnsModel/SolveLoop.lean`), for **every** validation module (an arbitrary
function `validate : state → params → (state, stop, criterion, improved)`, hence every sequence of
outcomes), every period, every `n`, every training program:

* `validation_calls`, `mem_calls_iff` : after `k` iterations the module has been invoked exactly at
  the iterations `j < k` with `call_every ∣ j`, in order, each time with the parameters *after*
  the update of iteration `j`;
* `crit_history`      : slot `i < k` of the criterion history is the criterion returned by the latest
  invocation `≤ i` (the one of iteration `i − i mod call_every`), later slots are untouched;
* `best_params`, `bestRef_last_improving`, `bestRef_none` : the best parameters are those passed to
  the last invocation that flagged an improvement (the initial ones if none did);
* `stops_after_first_request` : training stops right after the first invocation that requests it:
  `j + 1` iterations, and no invocation after that of iteration `j`;
* `solve_validation_schedule` : when nothing stops training, all of the above at `k = n`.

Part 2 (the built-in `ValidationLoss`, `JinnsModel/Validation.lean`), for every sequence of loss
values, every patience:

* `vl_best_is_min`, `vl_improved_iff_strict_min` : the stored best value is the minimum of the
  earlier values; an invocation flags an improvement iff its value is a strict new minimum;
* `vl_counter_is_trailing_run` (+ `lead_ge_iff`) : the counter is the number of consecutive
  non-improving invocations immediately before;
* `vl_stop_iff`, `vl_first_stop`, `vl_never_stops_when_disabled` : a stop is requested exactly when
  early stopping is on and that run has length `patience`; this happens at the first invocation
  preceded by `patience` consecutive non-improving ones and at none before; never when disabled;
* `VL_call_spec` : `ValidationLoss.__call__` draws one batch from its own generators and is the
  above on the loss of that batch.
-/
import Mathlib.Algebra.Order.Field.Rat
import JinnsProofs.SolveLemmas

namespace Jinns.Solve
open Jinns.Validation

variable {Θ O G B V T P VS C : Type}
variable (pr : Prog Θ O G B V T P VS C)
variable (n : Nat) (θ0 : Θ) (opt0 : O) (g0 : G) (v0 : VS)

/-! ## Part 1 — the loop -/

/-- the invocations made during iterations `0 … k-1` when the schedule is followed -/
def callsRef (k : Nat) : List (Nat × Θ) :=
  ((List.range k).filter (fun j => j % pr.callEvery = 0)).map
    (fun j => (j, θseq pr θ0 opt0 g0 (j + 1)))

/-- **Invoked exactly at the iterations divisible by the period, with the post-update
    parameters.** -/
theorem validation_calls (k : Nat) :
    (iter pr k (init pr n θ0 opt0 g0 (some v0))).calls = callsRef pr θ0 opt0 g0 k := by
  induction k with
  | zero => rfl
  | succ k ih =>
    have hi := iter_init_i pr n θ0 opt0 g0 (some v0) k
    have hθ := iter_init_θ pr n θ0 opt0 g0 (some v0) (k + 1)
    have hv : (iter pr k (init pr n θ0 opt0 g0 (some v0))).vs = some (valState pr θ0 opt0 g0 v0 k) := by
      simpa using iter_init_vs pr n θ0 opt0 g0 (some v0) k
    simp only [iter] at hθ ⊢
    rw [oneIteration_calls, hθ]
    unfold callsRef
    rw [List.range_succ, List.filter_append, List.map_append]
    by_cases hc : k % pr.callEvery = 0
    · rw [valPart_call _ _ _ _ hv (by rw [hi]; exact hc)]
      simp only [ih, hi, callsRef]
      simp [hc]
    · rw [valPart_skip _ _ _ _ hv (by rw [hi]; exact hc)]
      simp only [ih, callsRef]
      simp [hc]

/-- the same, as a membership statement: the module was invoked at iteration `i` with parameters
    `θ` iff `i < k`, `call_every ∣ i` and `θ` are the parameters after the update of iteration `i` -/
theorem mem_calls_iff (k i : Nat) (θ : Θ) :
    (i, θ) ∈ (iter pr k (init pr n θ0 opt0 g0 (some v0))).calls ↔
      i < k ∧ i % pr.callEvery = 0 ∧ θ = θseq pr θ0 opt0 g0 (i + 1) := by
  rw [validation_calls, callsRef]
  simp only [List.mem_map, List.mem_filter, List.mem_range, decide_eq_true_eq, Prod.mk.injEq]
  constructor
  · rintro ⟨j, ⟨hj, hc⟩, rfl, rfl⟩; exact ⟨hj, hc, rfl⟩
  · rintro ⟨hi, hc, rfl⟩; exact ⟨i, ⟨hi, hc⟩, rfl, rfl⟩

theorem mod_pred_of_mod_ne_zero (k c : Nat) (h : k % c ≠ 0) : (k - 1) - (k - 1) % c = k - k % c := by
  rcases Nat.eq_zero_or_pos c with hc | hc
  · subst hc; simp
  · have hk : k = c * (k / c) + k % c := (Nat.div_add_mod k c).symm
    have hlt : k % c < c := Nat.mod_lt k hc
    have e : (k - 1) % c = k % c - 1 := by
      have : k - 1 = (k % c - 1) + c * (k / c) := by omega
      rw [this, Nat.add_mul_mod_self_left]
      exact Nat.mod_eq_of_lt (by omega)
    rw [e]; omega

/-- **The criterion is recorded at the invocations and carried forward in between**: slot `i < k`
    holds the criterion returned by the invocation of iteration `i − i mod call_every` (the latest
    one `≤ i`); slots `≥ k` keep their initial content. -/
theorem crit_history (k : Nat) (hk : k ≤ n) :
    (iter pr k (init pr n θ0 opt0 g0 (some v0))).critH =
      (List.range k).map (fun i => (outAt pr θ0 opt0 g0 v0 (i - i % pr.callEvery)).crit) ++
        List.replicate (n - k) pr.c0 := by
  induction k with
  | zero => simp [iter, init]
  | succ k ih =>
    have ih := ih (by omega)
    have hi := iter_init_i pr n θ0 opt0 g0 (some v0) k
    have hθ := iter_init_θ pr n θ0 opt0 g0 (some v0) (k + 1)
    have hv : (iter pr k (init pr n θ0 opt0 g0 (some v0))).vs = some (valState pr θ0 opt0 g0 v0 k) := by
      simpa using iter_init_vs pr n θ0 opt0 g0 (some v0) k
    simp only [iter] at hθ ⊢
    rw [oneIteration_critH, hθ]
    have hlen : ((List.range k).map
        (fun i => (outAt pr θ0 opt0 g0 v0 (i - i % pr.callEvery)).crit)).length = k := by simp
    by_cases hc : k % pr.callEvery = 0
    · rw [valPart_call _ _ _ _ hv (by rw [hi]; exact hc)]
      simp only [hi, ih]
      rw [set_length_append_replicate _ k n _ _ hlen (by omega), List.range_succ, List.map_append]
      simp [outAt, hc]
    · rw [valPart_skip _ _ _ _ hv (by rw [hi]; exact hc)]
      simp only [hi, ih]
      rw [set_length_append_replicate _ k n _ _ hlen (by omega), List.range_succ, List.map_append]
      have hk0 : k ≠ 0 := by intro h; apply hc; rw [h]; exact Nat.zero_mod _
      have hget : (List.map (fun i => (outAt pr θ0 opt0 g0 v0 (i - i % pr.callEvery)).crit)
            (List.range k) ++ List.replicate (n - k) pr.c0).getD (k - 1) pr.c0 =
          (outAt pr θ0 opt0 g0 v0 (k - k % pr.callEvery)).crit := by
        rw [List.getD_eq_getElem?_getD, List.getElem?_append_left (by rw [hlen]; omega)]
        simp only [List.getElem?_map, List.getElem?_range (by omega : k - 1 < k), Option.map_some,
          Option.getD_some]
        rw [mod_pred_of_mod_ne_zero k _ hc]
      rw [hget]
      simp

/-- the best parameters when the schedule is followed for `k` iterations -/
def bestRef : Nat → Θ
  | 0 => θ0
  | j + 1 =>
    if j % pr.callEvery = 0 ∧ (outAt pr θ0 opt0 g0 v0 j).improved = true
    then θseq pr θ0 opt0 g0 (j + 1) else bestRef j

theorem best_params (k : Nat) :
    (iter pr k (init pr n θ0 opt0 g0 (some v0))).best = bestRef pr θ0 opt0 g0 v0 k := by
  induction k with
  | zero => rfl
  | succ k ih =>
    have hi := iter_init_i pr n θ0 opt0 g0 (some v0) k
    have hθ := iter_init_θ pr n θ0 opt0 g0 (some v0) (k + 1)
    have hv : (iter pr k (init pr n θ0 opt0 g0 (some v0))).vs = some (valState pr θ0 opt0 g0 v0 k) := by
      simpa using iter_init_vs pr n θ0 opt0 g0 (some v0) k
    simp only [iter] at hθ ⊢
    rw [oneIteration_best, hθ]
    by_cases hc : k % pr.callEvery = 0
    · rw [valPart_call _ _ _ _ hv (by rw [hi]; exact hc)]
      simp only [ih, bestRef, outAt, hc, true_and]
    · rw [valPart_skip _ _ _ _ hv (by rw [hi]; exact hc)]
      simp only [ih, bestRef, hc, false_and, if_false]

/-- **Best parameters = those of the last invocation that flagged an improvement.** -/
theorem bestRef_last_improving (k j : Nat) (hj : j < k) (hc : j % pr.callEvery = 0)
    (himp : (outAt pr θ0 opt0 g0 v0 j).improved = true)
    (hlast : ∀ j', j < j' → j' < k → j' % pr.callEvery = 0 →
      (outAt pr θ0 opt0 g0 v0 j').improved = false) :
    bestRef pr θ0 opt0 g0 v0 k = θseq pr θ0 opt0 g0 (j + 1) := by
  induction k with
  | zero => omega
  | succ k ih =>
    by_cases hjk : j = k
    · subst hjk; simp [bestRef, hc, himp]
    · have hno : ¬ (k % pr.callEvery = 0 ∧ (outAt pr θ0 opt0 g0 v0 k).improved = true) := by
        rintro ⟨h1, h2⟩
        have := hlast k (by omega) (by omega) h1
        rw [this] at h2; exact Bool.noConfusion h2
      simp only [bestRef, hno, if_false]
      exact ih (by omega) (fun j' h1 h2 h3 => hlast j' h1 (by omega) h3)

/-- … and the initial parameters when no invocation flagged an improvement. -/
theorem bestRef_none (k : Nat)
    (h : ∀ j, j < k → j % pr.callEvery = 0 → (outAt pr θ0 opt0 g0 v0 j).improved = false) :
    bestRef pr θ0 opt0 g0 v0 k = θ0 := by
  induction k with
  | zero => rfl
  | succ k ih =>
    have hno : ¬ (k % pr.callEvery = 0 ∧ (outAt pr θ0 opt0 g0 v0 k).improved = true) := by
      rintro ⟨h1, h2⟩
      have := h k (by omega) h1
      rw [this] at h2; exact Bool.noConfusion h2
    simp only [bestRef, hno, if_false]
    exact ih (fun j hj => h j (by omega))

/-- **Training stops right after the first invocation that requests it, and no later invocation
    happens.**  If the invocation of iteration `j < n` is the first to request a stop (and the
    parameters were NaN-free so far), then exactly `j + 1` iterations run, every invocation made
    was at an iteration `≤ j`, the last one being that of iteration `j`, and the criterion history
    and best parameters are those of the schedule followed for `j + 1` iterations. -/
theorem stops_after_first_request (j : Nat) (hj : j < n) (hc : j % pr.callEvery = 0)
    (hstop : (outAt pr θ0 opt0 g0 v0 j).stop = true)
    (hfirst : ∀ j', j' < j → j' % pr.callEvery = 0 → (outAt pr θ0 opt0 g0 v0 j').stop = false)
    (hnan : ∀ j', j' ≤ j → pr.isNaN (θseq pr θ0 opt0 g0 j') = false) :
    let s := solve pr n θ0 opt0 g0 (some v0)
    s.i = j + 1 ∧ s.calls = callsRef pr θ0 opt0 g0 (j + 1) ∧
    (∀ i θ, (i, θ) ∈ s.calls → i ≤ j) ∧ (j, θseq pr θ0 opt0 g0 (j + 1)) ∈ s.calls ∧
    s.critH = (List.range (j + 1)).map (fun i => (outAt pr θ0 opt0 g0 v0 (i - i % pr.callEvery)).crit)
        ++ List.replicate (n - (j + 1)) pr.c0 ∧
    s.best = bestRef pr θ0 opt0 g0 v0 (j + 1) := by
  intro s
  have hs : s = iter pr (j + 1) (init pr n θ0 opt0 g0 (some v0)) := by
    apply solve_eq_iter pr n θ0 opt0 g0 (some v0) (j + 1) (by omega)
    · intro j' hj'; exact hnan j' (by omega)
    · intro j' hj'
      simp only [stopReq]
      by_cases h : j' % pr.callEvery = 0
      · simp [h, hfirst j' (by omega) h]
      · simp [h]
    · right; right
      exact ⟨j, rfl, by simp [stopReq, hc, hstop]⟩
  refine ⟨by rw [hs, iter_init_i], by rw [hs, validation_calls], ?_, ?_,
    by rw [hs]; exact crit_history pr n θ0 opt0 g0 v0 (j + 1) (by omega),
    by rw [hs, best_params]⟩
  · intro i θ hmem
    rw [hs] at hmem
    have := (mem_calls_iff pr n θ0 opt0 g0 v0 (j + 1) i θ).1 hmem
    omega
  · rw [hs]
    exact (mem_calls_iff pr n θ0 opt0 g0 v0 (j + 1) j _).2 ⟨by omega, hc, rfl⟩

/-- **When nothing stops training** (no NaN, no stop request), the schedule is followed for all
    `n` iterations. -/
theorem solve_validation_schedule
    (hnan : ∀ j, j < n → pr.isNaN (θseq pr θ0 opt0 g0 j) = false)
    (hstop : ∀ j, j + 1 < n → j % pr.callEvery = 0 → (outAt pr θ0 opt0 g0 v0 j).stop = false) :
    let s := solve pr n θ0 opt0 g0 (some v0)
    s.i = n ∧ s.calls = callsRef pr θ0 opt0 g0 n ∧
    s.critH = (List.range n).map (fun i => (outAt pr θ0 opt0 g0 v0 (i - i % pr.callEvery)).crit) ∧
    s.best = bestRef pr θ0 opt0 g0 v0 n := by
  intro s
  have hs : s = iter pr n (init pr n θ0 opt0 g0 (some v0)) := by
    apply solve_eq_iter pr n θ0 opt0 g0 (some v0) n (Nat.le_refl _) hnan
    · intro j' hj'
      simp only [stopReq]
      by_cases h : j' % pr.callEvery = 0
      · simp [h, hstop j' hj' h]
      · simp [h]
    · left; rfl
  refine ⟨by rw [hs, iter_init_i], by rw [hs, validation_calls], ?_, by rw [hs, best_params]⟩
  rw [hs, crit_history pr n θ0 opt0 g0 v0 n (Nat.le_refl _)]
  simp

end Jinns.Solve

/-! ## Part 2 — the built-in `ValidationLoss` -/

namespace Jinns.Validation

/-- `best` is the minimum of the values `vs` seen so far (`none` = +∞ when there is none) -/
def IsMinOf (best : Option Rat) (vs : List Rat) : Prop :=
  match best with
  | none => vs = []
  | some b => b ∈ vs ∧ ∀ x ∈ vs, b ≤ x

theorem ltBest_some (v b : Rat) : ltBest v (some b) = true ↔ v < b := by simp [ltBest]

theorem isMinOf_next (s : VLCore) (pre : List Rat) (v : Rat) (h : IsMinOf s.best pre) :
    IsMinOf (vlNext s v).best (pre ++ [v]) := by
  unfold vlNext vlImproved
  cases hb : s.best with
  | none =>
    rw [hb] at h
    have : pre = [] := h
    subst this
    simp [ltBest, IsMinOf]
  | some b =>
    rw [hb] at h
    obtain ⟨hmem, hmin⟩ := h
    by_cases hlt : v < b
    · have : ltBest v (some b) = true := (ltBest_some v b).2 hlt
      simp only [this, if_true, IsMinOf]
      refine ⟨by simp, ?_⟩
      intro x hx
      rcases List.mem_append.1 hx with hx | hx
      · exact le_of_lt (lt_of_lt_of_le hlt (hmin x hx))
      · simp at hx; rw [hx]
    · have : ltBest v (some b) = false := by
        cases h' : ltBest v (some b) with
        | false => rfl
        | true => exact absurd ((ltBest_some v b).1 h') hlt
      simp only [this, IsMinOf]
      refine ⟨by simp [hmem], ?_⟩
      intro x hx
      rcases List.mem_append.1 hx with hx | hx
      · exact hmin x hx
      · simp at hx; rw [hx]; exact not_lt.1 hlt

theorem isMinOf_after (s : VLCore) (pre vs : List Rat) (h : IsMinOf s.best pre) :
    IsMinOf (vlAfter s vs).best (pre ++ vs) := by
  induction vs generalizing s pre with
  | nil => simpa [vlAfter] using h
  | cons v vs ih =>
    have := ih (vlNext s v) (pre ++ [v]) (isMinOf_next s pre v h)
    simpa [vlAfter, List.append_assoc] using this

/-- **The stored best value is the minimum of the values of the earlier invocations.** -/
theorem vl_best_is_min (vs : List Rat) : IsMinOf (vlAfter vlInit vs).best vs := by
  have := isMinOf_after vlInit [] vs (by simp [vlInit, IsMinOf])
  simpa using this

/-- **Improvement iff strict new minimum**: after the invocations with values `vs`, the invocation
    with value `v` flags an improvement iff `v` is strictly below every earlier value. -/
theorem vl_improved_iff_strict_min (vs : List Rat) (v : Rat) :
    vlImproved (vlAfter vlInit vs) v = true ↔ ∀ x ∈ vs, v < x := by
  have h := vl_best_is_min vs
  unfold vlImproved
  cases hb : (vlAfter vlInit vs).best with
  | none =>
    rw [hb] at h
    have : vs = [] := h
    subst this
    simp [ltBest]
  | some b =>
    rw [hb] at h
    obtain ⟨hmem, hmin⟩ := h
    rw [ltBest_some]
    constructor
    · intro hlt x hx; exact lt_of_lt_of_le hlt (hmin x hx)
    · intro hall; exact hall b hmem

/-- number of leading `false` of a list (history of improvement flags, most recent first) -/
def lead : List Bool → Nat
  | [] => 0
  | true :: _ => 0
  | false :: r => lead r + 1

/-- `lead h ≥ p` iff the `p` most recent invocations exist and none of them improved -/
theorem lead_ge_iff (h : List Bool) (p : Nat) :
    p ≤ lead h ↔ p ≤ h.length ∧ ∀ x ∈ h.take p, x = false := by
  induction h generalizing p with
  | nil => cases p <;> simp [lead]
  | cons a r ih =>
    cases p with
    | zero => simp
    | succ p =>
      cases a with
      | true => simp [lead]
      | false =>
        simp only [lead, Nat.add_le_add_iff_right, List.length_cons, List.take_succ_cons,
          List.mem_cons, forall_eq_or_imp, true_and]
        exact ih p

/-- the improvement flags of a run, most recent first, pushed on `h` -/
def vlHist : VLCore → List Bool → List Rat → List Bool
  | _, h, [] => h
  | s, h, v :: vs => vlHist (vlNext s v) (vlImproved s v :: h) vs

theorem vlHist_eq_run (p : Nat) (e : Bool) (s : VLCore) (h : List Bool) (vs : List Rat) :
    vlHist s h vs = ((vlRun p e s vs).map (·.1)).reverse ++ h := by
  induction vs generalizing s h with
  | nil => simp [vlHist, vlRun]
  | cons v vs ih => simp [vlHist, vlRun, ih]

theorem counter_after (s : VLCore) (h : List Bool) (vs : List Rat) (hs : s.counter = lead h) :
    (vlAfter s vs).counter = lead (vlHist s h vs) := by
  induction vs generalizing s h with
  | nil => simpa [vlAfter, vlHist] using hs
  | cons v vs ih =>
    apply ih
    unfold vlNext
    cases hv : vlImproved s v with
    | true => simp [lead]
    | false => simp [lead, hs]

/-- **The counter is the number of consecutive non-improving invocations immediately before.** -/
theorem vl_counter_is_trailing_run (vs : List Rat) :
    (vlAfter vlInit vs).counter = lead (vlHist vlInit [] vs) :=
  counter_after vlInit [] vs rfl

/-- **A stop is requested exactly when early stopping is on and the invocation is preceded by a
    run of exactly `patience` consecutive non-improving invocations** (whatever the value of the
    present invocation). -/
theorem vl_stop_iff (patience : Nat) (early : Bool) (vs : List Rat) :
    vlStop patience early (vlAfter vlInit vs) = true ↔
      early = true ∧ lead (vlHist vlInit [] vs) = patience := by
  unfold vlStop
  rw [vl_counter_is_trailing_run]
  simp [and_comm]

/-- **Never when early stopping is disabled.** -/
theorem vl_never_stops_when_disabled (patience : Nat) (s : VLCore) (vs : List Rat) :
    ∀ f ∈ vlRun patience false s vs, f.2 = false := by
  induction vs generalizing s with
  | nil => simp [vlRun]
  | cons v vs ih =>
    intro f hf
    simp only [vlRun, List.mem_cons] at hf
    rcases hf with rfl | hf
    · simp [vlStop]
    · exact ih _ f hf

theorem vlHist_snoc (s : VLCore) (h : List Bool) (vs : List Rat) (v : Rat) :
    vlHist s h (vs ++ [v]) = vlImproved (vlAfter s vs) v :: vlHist s h vs := by
  induction vs generalizing s h with
  | nil => rfl
  | cons w vs ih => simp [vlHist, vlAfter, ih]

/-- the run of non-improving invocations grows by at most one per invocation -/
theorem lead_hist_snoc_le (vs : List Rat) (v : Rat) :
    lead (vlHist vlInit [] (vs ++ [v])) ≤ lead (vlHist vlInit [] vs) + 1 := by
  rw [vlHist_snoc]
  cases vlImproved (vlAfter vlInit vs) v <;> simp [lead]

/-- **The stop is requested at the first invocation preceded by `patience` consecutive
    non-improving ones, and at none before.**  Let the invocation after the values `vs` be the
    first one preceded by at least `patience` consecutive non-improving invocations (no strict
    prefix of `vs` has that property).  Then, with early stopping on, it requests a stop and none
    of the earlier invocations did. -/
theorem vl_first_stop (patience : Nat) (vs : List Rat)
    (hge : patience ≤ lead (vlHist vlInit [] vs))
    (hfirst : ∀ m, m < vs.length → lead (vlHist vlInit [] (vs.take m)) < patience) :
    vlStop patience true (vlAfter vlInit vs) = true ∧
    ∀ m, m < vs.length → vlStop patience true (vlAfter vlInit (vs.take m)) = false := by
  constructor
  · rw [vl_stop_iff]
    refine ⟨rfl, ?_⟩
    -- the run cannot jump over `patience`
    rcases List.eq_nil_or_concat vs with hnil | ⟨pre, v, hvs⟩
    · subst hnil
      simp [vlHist, lead] at hge ⊢
      omega
    · rw [List.concat_eq_append] at hvs
      subst hvs
      have hp := hfirst pre.length (by simp)
      simp at hp
      have hle := lead_hist_snoc_le pre v
      omega
  · intro m hm
    have hlt := hfirst m hm
    cases hst : vlStop patience true (vlAfter vlInit (vs.take m)) with
    | false => rfl
    | true =>
      have := ((vl_stop_iff patience true (vs.take m)).1 hst).2
      omega

/-- **`ValidationLoss.__call__`**: one batch is drawn from the module's *own* generators, the
    criterion is the loss of the given parameters on that batch, and the flags / the new counter
    and best value are the scalar core above applied to that value (a NaN value is never an
    improvement: it increments the counter and leaves the best value unchanged). -/
theorem VL_call_spec {Θ G B : Type} (cf : VLConf Θ G B) (s : VL G) (θ : Θ) :
    let gb := cf.nextBatch s.gens
    let v := cf.loss θ gb.2
    (VL.call cf s θ).crit = v ∧ (VL.call cf s θ).vs.gens = gb.1 ∧
    (VL.call cf s θ).improved = vlImprovedV s.core v ∧
    (VL.call cf s θ).stop = vlStop cf.patience cf.early s.core ∧
    (VL.call cf s θ).vs.core = vlNextV s.core v ∧
    (∀ x, v = some x → (VL.call cf s θ).improved = vlImproved s.core x ∧
      (VL.call cf s θ).vs.core = vlNext s.core x) ∧
    (v = none → (VL.call cf s θ).improved = false ∧
      (VL.call cf s θ).vs.core = { counter := s.core.counter + 1, best := s.core.best }) := by
  refine ⟨rfl, rfl, rfl, rfl, rfl, ?_, ?_⟩
  · intro x hx; simp only [VL.call, hx]; exact ⟨rfl, rfl⟩
  · intro hx; simp only [VL.call, hx]; exact ⟨rfl, rfl⟩

/-- on NaN-free values the NaN-aware run is the run of the theorems above -/
theorem vlAfterV_some (s : VLCore) (vs : List Rat) : vlAfterV s (vs.map some) = vlAfter s vs := by
  induction vs generalizing s with
  | nil => rfl
  | cons v vs ih => simp [vlAfterV, vlAfter, vlNextV, ih]

/-! ### non-vacuity -/

section Example
open Jinns.Solve

/-- values 5, 3, 3, 4, 2 : improvements at invocations 0, 1 and 4; with patience 2 the stop is
    requested at invocation 4 (preceded by the two non-improving invocations 2 and 3) -/
example : (vlRun 2 true vlInit [5, 3, 3, 4, 2]).map (·.2) = [false, false, false, false, true] := by
  decide +kernel
example : vlHist vlInit [] [5, 3, 3, 4] = [false, false, true, true] := by decide +kernel
example : lead [false, false, true, true] = 2 := by decide

/-- a scripted module (state = call counter): improves at calls 0 and 2, requests a stop at call 2 -/
def toyVal : Prog Int Nat Nat Int Int Int Int Nat Int :=
  { update := fun θ o b => ⟨θ - b, o + 1, θ * b, θ + b⟩,
    nextBatch := fun g => (g + 1, (g : Int)),
    isNaN := fun θ => θ == 1000,
    track := fun θ => θ,
    validate := fun c _ => ⟨c + 1, c == 2, 10 * (c : Int) + 1, c == 0 || c == 2⟩,
    callEvery := 3, v0 := 0, t0 := 0, p0 := 0, c0 := 0 }

example : (solve toyVal 20 50 0 0 (some 0)).i = 7 := by decide
example : (solve toyVal 20 50 0 0 (some 0)).calls = [(0, 50), (3, 44), (6, 29)] := by decide
example : (solve toyVal 20 50 0 0 (some 0)).critH.take 8 = [1, 1, 1, 11, 11, 11, 21, 0] := by decide
example : (solve toyVal 20 50 0 0 (some 0)).best = 29 := by decide
end Example

end Jinns.Validation
