/-
C02 — Built-in dynamic losses equal the residual of their documented equation.
Property theorems about `JinnsModel/Equations.lean`.

Conventions.  `ops : FieldOps F` is an arbitrary field algebra with derivations (AD contract);
`ev : F → ℚ` with `EvalHom ops ev` is an arbitrary *point* of it (a ℚ-algebra homomorphism: evaluation
of functions at a point; proved below for the executable polynomial instance, `polyEvalHom`).
Algebraic facts about a residual are stated on its value at an arbitrary point; facts that are pure
index routing (Laplacian = trace of the Hessian, which slice of which gradient) are equalities of
fields and assume nothing.
-/
import JinnsModel.Equations
import JinnsModel.HoldsC02
import Mathlib.Tactic.Ring
import Mathlib.Tactic.Linarith
import Mathlib.Algebra.Order.Field.Rat
import Mathlib.Algebra.BigOperators.Group.List.Basic
import Mathlib.Algebra.MvPolynomial.PDeriv
import Mathlib.RingTheory.Derivation.Lie

namespace Jinns.Equations
open Jinns.Calc

variable {F : Type}

/-! ### `Poly.eval` is a point of `polyOps` -/

section PolyEval
open Poly

/-- `Π_k pt_k ^ e_k`, recursively (a missing coordinate counts as 0, as in `Poly.monoEval`) -/
def pp : List Rat → List Nat → Rat
  | _, [] => 1
  | [], e :: es => powNat 0 e * pp [] es
  | x :: xs, e :: es => powNat x e * pp xs es

theorem powNat_add (x : Rat) (m n : Nat) : powNat x (m + n) = powNat x m * powNat x n := by
  induction m with
  | zero => simp [powNat]
  | succ k ih =>
    have : k + 1 + n = (k + n) + 1 := by omega
    rw [this]
    simp only [powNat, ih]
    ring

theorem prodPow_eq (pt : List Rat) (e : List Nat) :
    ((List.range e.length).map (fun k => powNat (pt.getD k 0) (e.getD k 0))).foldr (· * ·) 1 = pp pt e := by
  induction e generalizing pt with
  | nil => simp [pp]
  | cons e0 es ih =>
    rw [List.length_cons, List.range_succ_eq_map, List.map_cons, List.foldr_cons, List.map_map]
    cases pt with
    | nil =>
      have := ih []
      simp only [List.getD_nil] at this
      simp only [pp, List.getD_nil, List.getD_cons_zero]
      congr 1
    | cons x xs =>
      have := ih xs
      simp only [pp, List.getD_cons_zero]
      congr 1

theorem monoEval_eq (pt : List Rat) (m : Mono) : monoEval pt m = m.1 * pp pt m.2 := by
  unfold monoEval
  rw [prodPow_eq]

theorem pp_expAdd (pt : List Rat) (a b : List Nat) : pp pt (expAdd a b) = pp pt a * pp pt b := by
  induction a generalizing pt b with
  | nil => simp [expAdd, pp]
  | cons a0 as ih =>
    cases b with
    | nil => simp [expAdd, pp]
    | cons b0 bs =>
      cases pt with
      | nil => simp only [expAdd, pp, powNat_add, ih]; ring
      | cons x xs => simp only [expAdd, pp, powNat_add, ih]; ring

theorem monoEval_mul (pt : List Rat) (m n : Mono) :
    monoEval pt (monoMul m n) = monoEval pt m * monoEval pt n := by
  simp only [monoEval_eq, monoMul, pp_expAdd]
  ring

theorem eval_nil (pt : List Rat) : Poly.eval [] pt = 0 := rfl

theorem eval_cons (pt : List Rat) (m : Mono) (p : Poly) :
    Poly.eval (m :: p) pt = monoEval pt m + Poly.eval p pt := rfl

theorem eval_append (pt : List Rat) (p q : Poly) :
    Poly.eval (p ++ q) pt = Poly.eval p pt + Poly.eval q pt := by
  induction p with
  | nil => simp [eval_nil]
  | cons m p ih => rw [List.cons_append, eval_cons, eval_cons, ih]; ring

theorem eval_scale (pt : List Rat) (c : Rat) (p : Poly) :
    Poly.eval (Poly.scale c p) pt = c * Poly.eval p pt := by
  induction p with
  | nil => simp [Poly.scale, eval_nil]
  | cons m p ih =>
    have : Poly.scale c (m :: p) = (c * m.1, m.2) :: Poly.scale c p := rfl
    rw [this, eval_cons, eval_cons, ih, monoEval_eq, monoEval_eq]
    ring

theorem eval_smul (pt : List Rat) (c : Rat) (p : Poly) :
    Poly.eval (Poly.smul c p) pt = c * Poly.eval p pt := by
  unfold Poly.smul
  by_cases h0 : c = 0
  · simp [h0, eval_nil]
  · by_cases h1 : c = 1
    · simp [h1]
    · simp [h0, h1, eval_scale]

theorem eval_map_monoMul (pt : List Rat) (m : Mono) (q : Poly) :
    Poly.eval (q.map (fun n => monoMul m n)) pt = monoEval pt m * Poly.eval q pt := by
  induction q with
  | nil => simp [eval_nil]
  | cons n q ih => rw [List.map_cons, eval_cons, eval_cons, ih, monoEval_mul]; ring

theorem eval_mul (pt : List Rat) (p q : Poly) :
    Poly.eval (Poly.mul p q) pt = Poly.eval p pt * Poly.eval q pt := by
  unfold Poly.mul
  induction p with
  | nil => simp [eval_nil]
  | cons m p ih => rw [List.flatMap_cons, eval_append, ih, eval_map_monoMul, eval_cons]; ring

/-- evaluation at any point is a point of the executable polynomial algebra -/
theorem polyEvalHom (pt : List Rat) : EvalHom polyOps (fun p => Poly.eval p pt) where
  zero := rfl
  add := fun a b => eval_append pt a b
  neg := fun a => by
    show Poly.eval (Poly.scale (-1) a) pt = _
    rw [eval_scale]; ring
  mul := fun a b => eval_mul pt a b
  smul := fun c a => eval_smul pt c a

theorem polyExt_one (pt : List Rat) : Poly.eval polyExt.one pt = 1 := by
  show Poly.eval [(1, [])] pt = 1
  rw [eval_cons, eval_nil, monoEval_eq]; simp [pp]


theorem monoDeriv_comm (i j : Nat) (m : Mono) :
    (monoDeriv j m).bind (monoDeriv i) = (monoDeriv i m).bind (monoDeriv j) := by
  by_cases hij : i = j
  · subst hij; rfl
  · unfold monoDeriv
    simp only [List.getD_eq_getElem?_getD]
    by_cases hj : m.2[j]?.getD 0 = 0 <;> by_cases hi : m.2[i]?.getD 0 = 0 <;>
      simp [hj, hi, List.getElem?_set_ne hij, List.getElem?_set_ne (Ne.symm hij)]
    constructor
    · ring
    · exact List.set_comm _ _ (Ne.symm hij)

/-- the cross partial derivatives of the executable polynomial instance commute, as lists of monomials -/
theorem deriv_comm (i j : Nat) (p : Poly) : Poly.deriv i (Poly.deriv j p) = Poly.deriv j (Poly.deriv i p) := by
  unfold Poly.deriv
  rw [List.filterMap_filterMap, List.filterMap_filterMap]
  congr 1
  funext m
  exact monoDeriv_comm i j m

theorem polyOps_dX_comm (i j : Nat) (p : Poly) :
    polyOps.dX i (polyOps.dX j p) = polyOps.dX j (polyOps.dX i p) := deriv_comm (i + 1) (j + 1) p

end PolyEval


/-! ### index routing: the operator shapes are the mathematical operators (no law assumed) -/

section Routing
variable (ops : FieldOps F)

theorem getD_map_range {α : Type} (n i : Nat) (g : Nat → α) (dflt : α) (h : i < n) :
    ((List.range n).map g).getD i dflt = g i := by
  simp [List.getD_eq_getElem?_getD, h]

theorem sum_congr (n : Nat) {g g' : Nat → F} (h : ∀ i, i < n → g i = g' i) :
    ops.sum n g = ops.sum n g' := by
  unfold FieldOps.sum
  congr 1
  apply List.map_congr_left
  intro i hi
  exact h i (List.mem_range.mp hi)

/-- entry `i` of `grad(f, argnum = x)` is `∂i f` -/
theorem nth_gradX (d i : Nat) (f : F) (h : i < d) : nth ops (gradX ops d f) i = ops.dX i f := by
  unfold nth gradX
  exact getD_map_range d i _ _ h

/-- `jnp.trace(jax.hessian(u))` is `Σ_{i<d} ∂i ∂i u`, in every dimension -/
theorem lapRev_eq_laplacian (d : Nat) (f : F) : lapRev ops d f = laplacian ops d f := by
  unfold lapRev laplacian trace hessX
  apply sum_congr
  intro i hi
  rw [getD_map_range d i _ _ hi, getD_map_range d i _ _ hi]

/-- the divergence scan is `Σ_{i<d} ∂i u_i`, in every dimension -/
theorem divRev_eq_divergence (d : Nat) (u : Nat → F) : divRev ops d u = divergence ops d u := by
  unfold divRev divergence
  apply sum_congr
  intro i hi
  exact nth_gradX ops d i (u i) hi

/-- component `j` of the vector Laplacian is the Laplacian of component `j`, for every `j < m` -/
theorem vecLap_nth (d m j : Nat) (u : Nat → F) (h : j < m) :
    nth ops (vecLap ops d m u) j = laplacian ops d (u j) := by
  unfold nth vecLap
  rw [getD_map_range m j _ _ h, lapRev_eq_laplacian]

theorem vecLap_length (d m : Nat) (u : Nat → F) : (vecLap ops d m u).length = m := by
  simp [vecLap]

/-- the two explicit advection components are `u_0 ∂0 u_k + u_1 ∂1 u_k` -/
theorem advRev_nth (u : Nat → F) (k : Nat) (h : k < 2) :
    nth ops (advRev ops u) k =
      ops.add (ops.mul (u 0) (ops.dX 0 (u k))) (ops.mul (u 1) (ops.dX 1 (u k))) := by
  have h0 : ∀ f, nth ops (gradX ops 2 f) 0 = ops.dX 0 f := fun f => nth_gradX ops 2 0 f (by omega)
  have h1 : ∀ f, nth ops (gradX ops 2 f) 1 = ops.dX 1 f := fun f => nth_gradX ops 2 1 f (by omega)
  unfold advRev
  simp only [h0, h1]
  match k, h with
  | 0, _ => rfl
  | 1, _ => rfl

/-- Burgers: the code (`grad(u_, 1)`, then `grad` of its entry `[0]`) is the documented expression -/
theorem burgers_eq_doc (Tmax nu : Rat) (u : F) : burgers ops Tmax nu u = burgersDoc ops Tmax nu u := rfl

/-- mass conservation in two dimensions is the divergence -/
theorem massConservation_eq_doc (u : Nat → F) : massConservation ops 2 u = massDoc ops u :=
  divRev_eq_divergence ops 2 u

/-- Fokker–Planck: which slice of which gradient — the first-order part is `∂0(μ_0 u) + ∂1(μ_1 u)` and the
    four second-order terms are `∂0∂0(u D_00) + ∂0∂1(u D_10) + ∂1∂0(u D_01) + ∂1∂1(u D_11)`, i.e.
    `Σ_i Σ_j ∂j ∂i (u D_ij)`: the inner derivative follows the FIRST index of `D`. -/
theorem fpe2D_routing (Tmax : Rat) (drift : Nat → F) (diff : Nat → Nat → F) (u : F) :
    fpe2D ops Tmax drift diff u =
      ops.add (ops.neg (ops.dT u))
        (ops.smul Tmax
          (ops.add
            (ops.neg (ops.add (ops.dX 0 (ops.mul (drift 0) u)) (ops.dX 1 (ops.mul (drift 1) u))))
            (ops.add (ops.add (ops.add
              (ops.dX 0 (ops.dX 0 (ops.mul u (diff 0 0))))
              (ops.dX 0 (ops.dX 1 (ops.mul u (diff 1 0)))))
              (ops.dX 1 (ops.dX 0 (ops.mul u (diff 0 1)))))
              (ops.dX 1 (ops.dX 1 (ops.mul u (diff 1 1))))))) := rfl

/-- Navier–Stokes returns two components -/
theorem navierStokes_length (nu rho : Rat) (u : Nat → F) (p : F) :
    (navierStokes ops nu rho u p).length = 2 := rfl

/-- Navier–Stokes, component `k < 2`: advection component `k`, `ρ⁻¹ ∂k p` (`jac_p[0, k]`), `ν` times the
    Laplacian of `u_k` -/
theorem navierStokes_nth (nu rho : Rat) (u : Nat → F) (p : F) (k : Nat) (h : k < 2) :
    nth ops (navierStokes ops nu rho u p) k =
      ops.sub
        (ops.add (ops.add (ops.mul (u 0) (ops.dX 0 (u k))) (ops.mul (u 1) (ops.dX 1 (u k))))
          (ops.smul (1 / rho) (ops.dX k p)))
        (ops.smul nu (laplacian ops 2 (u k))) := by
  have ha : ∀ k, k < 2 → (advRev ops u).getD k ops.zero = _ := fun k hk => advRev_nth ops u k hk
  have hl : ∀ k, k < 2 → (vecLap ops 2 2 u).getD k ops.zero = _ := fun k hk => vecLap_nth ops 2 2 k u hk
  have hp : ∀ k, k < 2 → nth2 ops [gradX ops 2 p] 0 k = ops.dX k p := fun k hk => by
    unfold nth2; exact nth_gradX ops 2 k p hk
  unfold navierStokes
  match k, h with
  | 0, _ =>
    simp only [nth, List.getD_cons_zero]
    rw [ha 0 (by omega), hl 0 (by omega), hp 0 (by omega)]
  | 1, _ =>
    simp only [nth, List.getD_cons_succ, List.getD_cons_zero]
    rw [ha 1 (by omega), hl 1 (by omega), hp 1 (by omega)]

end Routing


/-! ### values at a point: documented expression, Tmax, role of every parameter, vanishing -/

section Pointwise
variable {ops : FieldOps F} {ev : F → Rat}

theorem ev_sub (h : EvalHom ops ev) (a b : F) : ev (ops.sub a b) = ev a - ev b := by
  unfold FieldOps.sub
  rw [h.add, h.neg]
  ring

theorem ev_foldr (h : EvalHom ops ev) (l : List Nat) (g : Nat → F) :
    ev ((l.map g).foldr ops.add ops.zero) = (l.map (fun i => ev (g i))).sum := by
  induction l with
  | nil => simpa using h.zero
  | cons a l ih => simp only [List.map_cons, List.foldr_cons, List.sum_cons, h.add, ih]

/-- the value of `Σ_{i<n} g i` is the sum of the values -/
theorem ev_sum (h : EvalHom ops ev) (n : Nat) (g : Nat → F) :
    ev (ops.sum n g) = ((List.range n).map (fun i => ev (g i))).sum :=
  ev_foldr h (List.range n) g

theorem ev_sum_two (h : EvalHom ops ev) (g : Nat → F) : ev (ops.sum 2 g) = ev (g 0) + ev (g 1) := by
  rw [ev_sum h]
  have : List.range 2 = [0, 1] := rfl
  rw [this]
  simp

theorem ev_const (h : EvalHom ops ev) {ext : FieldExt F} (h1 : ev ext.one = 1) (c : Rat) :
    ev (const ops ext c) = c := by
  unfold const
  rw [h.smul, h1]
  ring

/-- `Δu` at the point: `Σ_{i<d} (∂i∂i u)(pt)` -/
def lapAt (ops : FieldOps F) (ev : F → Rat) (d : Nat) (u : F) : Rat :=
  ((List.range d).map (fun i => ev (ops.dX i (ops.dX i u)))).sum

theorem ev_laplacian (h : EvalHom ops ev) (d : Nat) (u : F) : ev (laplacian ops d u) = lapAt ops ev d u :=
  ev_sum h d _

/-! #### Burgers -/

theorem burgers_value (h : EvalHom ops ev) (Tmax nu : Rat) (u : F) :
    ev (burgers ops Tmax nu u) =
      ev (ops.dT u) + Tmax * (ev u * ev (ops.dX 0 u) - nu * ev (ops.dX 0 (ops.dX 0 u))) := by
  rw [burgers_eq_doc]
  unfold burgersDoc
  rw [h.add, h.smul, ev_sub h, h.mul, h.smul]

/-- **Tmax** multiplies exactly the non-time terms -/
theorem burgers_tmax (h : EvalHom ops ev) (Tmax nu : Rat) (u : F) :
    ev (burgers ops Tmax nu u) - ev (ops.dT u) = Tmax * (ev (burgers ops 1 nu u) - ev (ops.dT u)) := by
  rw [burgers_value h, burgers_value h]
  ring

/-- the residual is affine in the viscosity, with slope `−Tmax · ∂0∂0u` -/
theorem burgers_affine_nu (h : EvalHom ops ev) (Tmax nu : Rat) (u : F) :
    ev (burgers ops Tmax nu u) =
      ev (burgers ops Tmax 0 u) + nu * (-(Tmax * ev (ops.dX 0 (ops.dX 0 u)))) := by
  rw [burgers_value h, burgers_value h]
  ring

/-- the residual vanishes exactly where `∂t u = Tmax (ν ∂x∂x u − u ∂x u)` -/
theorem burgers_vanishes_iff (h : EvalHom ops ev) (Tmax nu : Rat) (u : F) :
    ev (burgers ops Tmax nu u) = 0 ↔
      ev (ops.dT u) = Tmax * (nu * ev (ops.dX 0 (ops.dX 0 u)) - ev u * ev (ops.dX 0 u)) := by
  rw [burgers_value h]
  constructor <;> intro hh <;> linarith

/-! #### Fisher-KPP -/

variable {ext : FieldExt F}

theorem fisherKPP_value (h : EvalHom ops ev) (h1 : ev ext.one = 1) (d : Nat) (Tmax D r g : Rat) (u : F) :
    ev (fisherKPP ops ext d Tmax D r g u) =
      ev (ops.dT u) + Tmax * (-(D * lapAt ops ev d u) - ev u * (r - g * ev u)) := by
  unfold fisherKPP
  simp only [h.add, h.smul, ev_sub h, h.mul, ev_const h h1, lapRev_eq_laplacian, ev_laplacian h]
  ring

/-- the code `∂t u + Tmax (−D·tr Hess u − u (r − g u))` is the documented `∂t u − Tmax (D Δu + u (r − γ u))` -/
theorem fisherKPP_eq_doc (h : EvalHom ops ev) (h1 : ev ext.one = 1) (d : Nat) (Tmax D r g : Rat) (u : F) :
    ev (fisherKPP ops ext d Tmax D r g u) = ev (fisherDoc ops ext d Tmax D r g u) := by
  rw [fisherKPP_value h h1]
  unfold fisherDoc
  simp only [h.add, h.smul, ev_sub h, h.mul, ev_const h h1, ev_laplacian h]
  ring

theorem fisherKPP_tmax (h : EvalHom ops ev) (h1 : ev ext.one = 1) (d : Nat) (Tmax D r g : Rat) (u : F) :
    ev (fisherKPP ops ext d Tmax D r g u) - ev (ops.dT u) =
      Tmax * (ev (fisherKPP ops ext d 1 D r g u) - ev (ops.dT u)) := by
  rw [fisherKPP_value h h1, fisherKPP_value h h1]
  ring

/-- role of `D`, `r`, `g`: affine in each, with slopes `−Tmax Δu`, `−Tmax u`, `+Tmax u²` -/
theorem fisherKPP_affine (h : EvalHom ops ev) (h1 : ev ext.one = 1) (d : Nat) (Tmax D r g : Rat) (u : F) :
    ev (fisherKPP ops ext d Tmax D r g u) =
      ev (fisherKPP ops ext d Tmax 0 0 0 u)
        + D * (-(Tmax * lapAt ops ev d u)) + r * (-(Tmax * ev u)) + g * (Tmax * (ev u * ev u)) := by
  rw [fisherKPP_value h h1, fisherKPP_value h h1]
  ring

/-- the residual vanishes exactly where `∂t u = Tmax (D Δu + u (r − γ u))` -/
theorem fisherKPP_vanishes_iff (h : EvalHom ops ev) (h1 : ev ext.one = 1) (d : Nat) (Tmax D r g : Rat)
    (u : F) :
    ev (fisherKPP ops ext d Tmax D r g u) = 0 ↔
      ev (ops.dT u) = Tmax * (D * lapAt ops ev d u + ev u * (r - g * ev u)) := by
  rw [fisherKPP_value h h1]
  constructor <;> intro hh <;> linarith

/-! #### Fokker–Planck 2D -/

theorem fpe2D_value (h : EvalHom ops ev) (Tmax : Rat) (drift : Nat → F) (diff : Nat → Nat → F) (u : F) :
    ev (fpe2D ops Tmax drift diff u) =
      -ev (ops.dT u) + Tmax *
        (-(ev (ops.dX 0 (ops.mul (drift 0) u)) + ev (ops.dX 1 (ops.mul (drift 1) u)))
          + (ev (ops.dX 0 (ops.dX 0 (ops.mul u (diff 0 0)))) + ev (ops.dX 0 (ops.dX 1 (ops.mul u (diff 1 0))))
            + ev (ops.dX 1 (ops.dX 0 (ops.mul u (diff 0 1)))) + ev (ops.dX 1 (ops.dX 1 (ops.mul u (diff 1 1)))))) := by
  rw [fpe2D_routing]
  simp only [h.add, h.smul, h.neg]

/-- the documented double sum, at a point -/
theorem fpeDoc_value (h : EvalHom ops ev) (Tmax : Rat) (drift : Nat → F) (diff : Nat → Nat → F) (u : F) :
    ev (fpeDoc ops Tmax drift diff u) =
      -ev (ops.dT u) + Tmax *
        (-(ev (ops.dX 0 (ops.mul (drift 0) u)) + ev (ops.dX 1 (ops.mul (drift 1) u)))
          + (ev (ops.dX 0 (ops.dX 0 (ops.mul u (diff 0 0)))) + ev (ops.dX 0 (ops.dX 1 (ops.mul u (diff 0 1))))
            + (ev (ops.dX 1 (ops.dX 0 (ops.mul u (diff 1 0)))) + ev (ops.dX 1 (ops.dX 1 (ops.mul u (diff 1 1))))))) := by
  unfold fpeDoc
  simp only [h.add, h.smul, h.neg, ev_sum_two h]

/-- the four explicit second-order terms are the documented double sum `Σ_i Σ_j ∂i∂j (u D_ij)` as soon as
    the diffusion matrix is symmetric (the code pairs `∂0∂1` with `D_10` and `∂1∂0` with `D_01`) -/
theorem fpe2D_eq_doc_of_symm (h : EvalHom ops ev) (Tmax : Rat) (drift : Nat → F) (diff : Nat → Nat → F)
    (u : F) (hs : diff 0 1 = diff 1 0) :
    ev (fpe2D ops Tmax drift diff u) = ev (fpeDoc ops Tmax drift diff u) := by
  rw [fpe2D_value h, fpeDoc_value h, hs]
  ring

/-- … or as soon as the cross partial derivatives commute -/
theorem fpe2D_eq_doc_of_comm (h : EvalHom ops ev) (Tmax : Rat) (drift : Nat → F) (diff : Nat → Nat → F)
    (u : F) (hc : ∀ a, ops.dX 0 (ops.dX 1 a) = ops.dX 1 (ops.dX 0 a)) :
    ev (fpe2D ops Tmax drift diff u) = ev (fpeDoc ops Tmax drift diff u) := by
  rw [fpe2D_value h, fpeDoc_value h, hc, hc]
  ring

theorem fpe2D_tmax (h : EvalHom ops ev) (Tmax : Rat) (drift : Nat → F) (diff : Nat → Nat → F) (u : F) :
    ev (fpe2D ops Tmax drift diff u) + ev (ops.dT u) =
      Tmax * (ev (fpe2D ops 1 drift diff u) + ev (ops.dT u)) := by
  rw [fpe2D_value h, fpe2D_value h]
  ring

theorem ouDiffusion_diag (sigma : List Rat) (i : Nat) :
    ouDiffusion sigma i i = (1 / 2 : Rat) * (if i < 2 then sigma.getD i 0 * sigma.getD i 0 else 0) := by
  unfold ouDiffusion sigmaMat
  have : List.range 2 = [0, 1] := rfl
  rw [this]
  match i with
  | 0 => simp
  | 1 => simp
  | (k + 2) => simp

theorem ouDiffusion_offdiag (sigma : List Rat) (i j : Nat) (hij : i ≠ j) : ouDiffusion sigma i j = 0 := by
  unfold ouDiffusion sigmaMat
  have : List.range 2 = [0, 1] := rfl
  rw [this]
  simp only [List.map_cons, List.map_nil, List.foldr_cons, List.foldr_nil]
  by_cases h0 : i = 0 <;> by_cases h1 : j = 0 <;> by_cases h2 : i = 1 <;> by_cases h3 : j = 1 <;>
    simp [h0, h1, h2, h3] <;> omega

theorem ouDiffusion_symm (sigma : List Rat) (i j : Nat) : ouDiffusion sigma i j = ouDiffusion sigma j i := by
  by_cases hij : i = j
  · rw [hij]
  · rw [ouDiffusion_offdiag sigma i j hij, ouDiffusion_offdiag sigma j i (Ne.symm hij)]

/-- OU: the code is the documented Fokker–Planck residual with `μ_i = α_i(μ⁰_i − x_i)`, `D = ½ σσᵀ` -/
theorem ouFPE_eq_doc (h : EvalHom ops ev) (Tmax : Rat) (alpha mu sigma : List Rat) (u : F) :
    ev (ouFPE ops ext Tmax alpha mu sigma u) = ev (ouDoc ops ext Tmax alpha mu sigma u) := by
  unfold ouFPE ouDoc
  apply fpe2D_eq_doc_of_symm h
  show const ops ext (ouDiffusion sigma 0 1) = const ops ext (ouDiffusion sigma 1 0)
  rw [ouDiffusion_symm]

theorem ouFPE_tmax (h : EvalHom ops ev) (Tmax : Rat) (alpha mu sigma : List Rat) (u : F) :
    ev (ouFPE ops ext Tmax alpha mu sigma u) + ev (ops.dT u) =
      Tmax * (ev (ouFPE ops ext 1 alpha mu sigma u) + ev (ops.dT u)) :=
  fpe2D_tmax h _ _ _ _

end Pointwise


/-! ### with the laws of differentiation: the Ornstein–Uhlenbeck corollaries

`LawfulDeriv` (linearity, Leibniz, `∂i 1 = 0`, `∂i x_j = δ_ij`) is ASSUMED here, as equalities of fields.
It holds for differentiation of smooth functions.  It is not provable for the list representation of
`polyOps` (there the two sides are equal as polynomials but not as lists of monomials), so the
statements stay generic over the lawful structure. -/

section Lawful
variable {ops : FieldOps F} {ev : F → Rat} {ext : FieldExt F}

theorem ev_dX_mul_const (h : EvalHom ops ev) (h1 : ev ext.one = 1) (L : LawfulDeriv ops ext) (i : Nat)
    (a : F) (c : Rat) :
    ev (ops.dX i (ops.mul a (const ops ext c))) = c * ev (ops.dX i a) := by
  unfold const
  simp only [L.dX_mul, L.dX_smul, L.dX_one, h.add, h.mul, h.smul, h.zero, h1]
  ring

theorem ev_dX_dX_mul_const (h : EvalHom ops ev) (h1 : ev ext.one = 1) (L : LawfulDeriv ops ext) (i j : Nat)
    (a : F) (c : Rat) :
    ev (ops.dX i (ops.dX j (ops.mul a (const ops ext c)))) = c * ev (ops.dX i (ops.dX j a)) := by
  unfold const
  simp only [L.dX_mul, L.dX_smul, L.dX_one, L.dX_add, L.dX_zero, h.add, h.mul, h.smul, h.zero, h1]
  ring

/-- **OU corollary**: with `D = ½ σσᵀ`, `σ` diagonal, the double sum `Σ_i Σ_j ∂i∂j(D_ij u)` collapses to
    `Σ_i ½ σ_i² ∂i∂i u` -/
theorem ou_second_order (h : EvalHom ops ev) (h1 : ev ext.one = 1) (L : LawfulDeriv ops ext) (sigma : List Rat) (u : F) :
    ev (ops.sum 2 (fun i => ops.sum 2 (fun j =>
        ops.dX i (ops.dX j (ops.mul u (const ops ext (ouDiffusion sigma i j))))))) =
      (1 / 2 : Rat) * (sigma.getD 0 0 * sigma.getD 0 0) * ev (ops.dX 0 (ops.dX 0 u))
        + (1 / 2 : Rat) * (sigma.getD 1 0 * sigma.getD 1 0) * ev (ops.dX 1 (ops.dX 1 u)) := by
  simp only [ev_sum_two h, ev_dX_dX_mul_const h h1 L]
  rw [ouDiffusion_offdiag sigma 0 1 (by omega), ouDiffusion_offdiag sigma 1 0 (by omega),
    ouDiffusion_diag, ouDiffusion_diag]
  simp only [show (0 : Nat) < 2 by omega, show (1 : Nat) < 2 by omega, if_true]
  ring

/-- the first-order OU term: `−∂i(α_i (μ_i − x_i) u) = α_i u − α_i (μ_i − x_i) ∂i u` -/
theorem ou_first_order (h : EvalHom ops ev) (h1 : ev ext.one = 1) (L : LawfulDeriv ops ext)
    (alpha mu : List Rat) (i : Nat) (u : F) :
    ev (ops.dX i (ops.mul (ouDrift ops ext alpha mu i) u)) =
      -(alpha.getD i 0) * ev u + alpha.getD i 0 * (mu.getD i 0 - ev (ext.coord i)) * ev (ops.dX i u) := by
  unfold ouDrift const FieldOps.sub
  simp only [L.dX_mul, L.dX_smul, L.dX_one, L.dX_add, L.dX_neg, L.dX_coord, h.add, h.mul, h.smul,
    h.zero, h.neg, h1, if_true]
  ring

/-- **role of every OU parameter**: the residual at a point with coordinates `x_i = ev (coord i)` is
    `−∂t u + Tmax·((α_0 + α_1) u − Σ_i α_i (μ_i − x_i) ∂i u + Σ_i ½ σ_i² ∂i∂i u)` -/
theorem ouFPE_expanded (h : EvalHom ops ev) (h1 : ev ext.one = 1) (L : LawfulDeriv ops ext) (Tmax : Rat)
    (alpha mu sigma : List Rat) (u : F) :
    ev (ouFPE ops ext Tmax alpha mu sigma u) =
      -ev (ops.dT u) + Tmax *
        ((alpha.getD 0 0 + alpha.getD 1 0) * ev u
          - alpha.getD 0 0 * (mu.getD 0 0 - ev (ext.coord 0)) * ev (ops.dX 0 u)
          - alpha.getD 1 0 * (mu.getD 1 0 - ev (ext.coord 1)) * ev (ops.dX 1 u)
          + (1 / 2 : Rat) * (sigma.getD 0 0 * sigma.getD 0 0) * ev (ops.dX 0 (ops.dX 0 u))
          + (1 / 2 : Rat) * (sigma.getD 1 0 * sigma.getD 1 0) * ev (ops.dX 1 (ops.dX 1 u))) := by
  unfold ouFPE
  rw [fpe2D_value h]
  simp only [ou_first_order h h1 L, ev_dX_dX_mul_const h h1 L]
  rw [ouDiffusion_offdiag sigma 0 1 (by omega), ouDiffusion_offdiag sigma 1 0 (by omega),
    ouDiffusion_diag, ouDiffusion_diag]
  simp only [show (0 : Nat) < 2 by omega, show (1 : Nat) < 2 by omega, if_true]
  ring

/-- the OU residual vanishes exactly where the Fokker–Planck equation of the OU process holds -/
theorem ouFPE_vanishes_iff (h : EvalHom ops ev) (h1 : ev ext.one = 1) (L : LawfulDeriv ops ext) (Tmax : Rat)
    (alpha mu sigma : List Rat) (u : F) :
    ev (ouFPE ops ext Tmax alpha mu sigma u) = 0 ↔
      ev (ops.dT u) = Tmax *
        ((alpha.getD 0 0 + alpha.getD 1 0) * ev u
          - alpha.getD 0 0 * (mu.getD 0 0 - ev (ext.coord 0)) * ev (ops.dX 0 u)
          - alpha.getD 1 0 * (mu.getD 1 0 - ev (ext.coord 1)) * ev (ops.dX 1 u)
          + (1 / 2 : Rat) * (sigma.getD 0 0 * sigma.getD 0 0) * ev (ops.dX 0 (ops.dX 0 u))
          + (1 / 2 : Rat) * (sigma.getD 1 0 * sigma.getD 1 0) * ev (ops.dX 1 (ops.dX 1 u))) := by
  rw [ouFPE_expanded h h1 L]
  constructor <;> intro hh <;> linarith

end Lawful

/-! ### generalized Lotka–Volterra (pointwise; no law needed: plain rational arithmetic) -/

section GLV
variable (ops : FieldOps F) (ev : F → Rat)

theorem glvLoop_spec (c : Rat) (a : List Rat) (us : List F) (i : Nat) (ct it : Rat) :
    glvLoop ev c a us i (ct, it) = (ct + c * total ev us, it + dotFrom ev a (i + 1) us) := by
  induction us generalizing i ct it with
  | nil => simp [glvLoop, total, dotFrom]
  | cons u us ih =>
    simp only [glvLoop, total, dotFrom, ih]
    congr 1 <;> ring

/-- the `enumerate(keys_other)` loop with `interactions[i + 1]` is the documented
    `Σ_k a_k u_k` / `c Σ_k u_k` over `main :: others` (self-interaction at index 0) -/
theorem glv_eq_doc (Tmax c r : Rat) (a : List Rat) (um : F) (uo : List F) :
    glv ops ev Tmax c r a um uo = glvDoc ops ev Tmax c r a um uo := by
  unfold glv glvDoc
  by_cases h0 : ev um = 0
  · simp [h0]
  · simp only [h0, if_false, glvLoop_spec, total, dotFrom]
    congr 2
    ring

/-- the guard: the residual is undefined exactly where `u_main(t) = 0` -/
theorem glv_none_iff (Tmax c r : Rat) (a : List Rat) (um : F) (uo : List F) :
    glv ops ev Tmax c r a um uo = none ↔ ev um = 0 := by
  rw [glv_eq_doc]
  unfold glvDoc
  by_cases h0 : ev um = 0 <;> simp [h0]

theorem glv_value (Tmax c r : Rat) (a : List Rat) (um : F) (uo : List F) (h0 : ev um ≠ 0) :
    glv ops ev Tmax c r a um uo =
      some (ev (ops.dT um) / ev um
        + Tmax * (-r - dotFrom ev a 0 (um :: uo) + c * total ev (um :: uo))) := by
  rw [glv_eq_doc]
  unfold glvDoc
  simp [h0]

/-- **Tmax** multiplies everything but the logarithmic derivative -/
theorem glv_tmax (Tmax c r : Rat) (a : List Rat) (um : F) (uo : List F) (v v1 : Rat)
    (hv : glv ops ev Tmax c r a um uo = some v) (hv1 : glv ops ev 1 c r a um uo = some v1) :
    v - ev (ops.dT um) / ev um = Tmax * (v1 - ev (ops.dT um) / ev um) := by
  have h0 : ev um ≠ 0 := fun h => by
    rw [(glv_none_iff ops ev Tmax c r a um uo).mpr h] at hv; cases hv
  rw [glv_value ops ev _ _ _ _ _ _ h0] at hv hv1
  cases hv; cases hv1
  ring

/-- role of the growth rate and of the carrying capacity: affine, slopes `−Tmax` and `+Tmax Σ_k u_k` -/
theorem glv_affine_r_c (Tmax c r : Rat) (a : List Rat) (um : F) (uo : List F) (v v0 : Rat)
    (hv : glv ops ev Tmax c r a um uo = some v) (hv0 : glv ops ev Tmax 0 0 a um uo = some v0) :
    v = v0 + r * (-Tmax) + c * (Tmax * total ev (um :: uo)) := by
  have h0 : ev um ≠ 0 := fun h => by
    rw [(glv_none_iff ops ev Tmax c r a um uo).mpr h] at hv; cases hv
  rw [glv_value ops ev _ _ _ _ _ _ h0] at hv hv0
  cases hv; cases hv0
  ring

/-- role of the interaction vector: entry `k` multiplies population `k` of `main :: others`
    (changing entry `k` alone by `δ` moves the residual by `−Tmax · δ · u_k(t)`) -/
theorem dotFrom_set (a : List Rat) (k : Nat) (δ : Rat) (hk : k < a.length) (i : Nat) (us : List F) :
    dotFrom ev (a.set k (a.getD k 0 + δ)) i us =
      dotFrom ev a i us + (if i ≤ k ∧ k < i + us.length then δ * ev (us.getD (k - i) ops.zero) else 0) := by
  induction us generalizing i with
  | nil => simp [dotFrom]
  | cons u us ih =>
    simp only [dotFrom, ih, List.length_cons]
    by_cases hik : i = k
    · subst hik
      have h1 : (a.set i (a.getD i 0 + δ)).getD i 0 = a.getD i 0 + δ := by
        simp [List.getD_eq_getElem?_getD, hk]
      have h2 : ¬ (i + 1 ≤ i ∧ i < i + 1 + us.length) := by omega
      have h3 : (i ≤ i ∧ i < i + (us.length + 1)) := by omega
      rw [h1, if_neg h2, if_pos h3, Nat.sub_self, List.getD_cons_zero]
      ring
    · have h1 : (a.set k (a.getD k 0 + δ)).getD i 0 = a.getD i 0 := by
        simp [List.getD_eq_getElem?_getD, Ne.symm hik]
      rw [h1]
      by_cases hlt : i + 1 ≤ k ∧ k < i + 1 + us.length
      · have h3 : (i ≤ k ∧ k < i + (us.length + 1)) := by omega
        have h4 : k - i = (k - (i + 1)) + 1 := by omega
        rw [if_pos hlt, if_pos h3, h4, List.getD_cons_succ]
        ring
      · have h3 : ¬ (i ≤ k ∧ k < i + (us.length + 1)) := by omega
        rw [if_neg hlt, if_neg h3]
        ring

/-- the residual vanishes exactly where the (non-logarithmic) GLV equation
    `u_main' = Tmax · u_main · (r + Σ_k a_k u_k − c Σ_k u_k)` holds — under the guard `u_main(t) ≠ 0` -/
theorem glv_vanishes_iff (Tmax c r : Rat) (a : List Rat) (um : F) (uo : List F) (h0 : ev um ≠ 0) :
    glv ops ev Tmax c r a um uo = some 0 ↔
      ev (ops.dT um) =
        Tmax * ev um * (r + dotFrom ev a 0 (um :: uo) - c * total ev (um :: uo)) := by
  rw [glv_value ops ev _ _ _ _ _ _ h0]
  constructor
  · intro hh
    have hh' := Option.some.inj hh
    have hq : ev (ops.dT um) / ev um = Tmax * (r + dotFrom ev a 0 (um :: uo) - c * total ev (um :: uo)) := by
      linarith
    rw [div_eq_iff h0] at hq
    rw [hq]; ring
  · intro hh
    congr 1
    have hq : ev (ops.dT um) / ev um = Tmax * (r + dotFrom ev a 0 (um :: uo) - c * total ev (um :: uo)) := by
      rw [div_eq_iff h0, hh]; ring
    rw [hq]; ring

end GLV

/-! ### mass conservation and Navier–Stokes at a point -/

section Statio
variable {ops : FieldOps F} {ev : F → Rat}

theorem massConservation_value (h : EvalHom ops ev) (u : Nat → F) :
    ev (massConservation ops 2 u) = ev (ops.dX 0 (u 0)) + ev (ops.dX 1 (u 1)) := by
  rw [massConservation_eq_doc]
  unfold massDoc divergence
  rw [ev_sum_two h]

/-- the residual vanishes exactly where the field is divergence free -/
theorem massConservation_vanishes_iff (h : EvalHom ops ev) (u : Nat → F) :
    ev (massConservation ops 2 u) = 0 ↔ ev (ops.dX 0 (u 0)) + ev (ops.dX 1 (u 1)) = 0 := by
  rw [massConservation_value h]

theorem navierStokes_value (h : EvalHom ops ev) (nu rho : Rat) (u : Nat → F) (p : F) (k : Nat) (hk : k < 2) :
    ev (nth ops (navierStokes ops nu rho u p) k) =
      ev (u 0) * ev (ops.dX 0 (u k)) + ev (u 1) * ev (ops.dX 1 (u k))
        + 1 / rho * ev (ops.dX k p)
        - nu * (ev (ops.dX 0 (ops.dX 0 (u k))) + ev (ops.dX 1 (ops.dX 1 (u k)))) := by
  rw [navierStokes_nth ops nu rho u p k hk]
  unfold laplacian
  simp only [ev_sub h, h.add, h.mul, h.smul, ev_sum_two h]

/-- the explicit components are the documented vector formula `(u·∇)u + ρ⁻¹ ∇p − ν Δu` -/
theorem navierStokes_eq_doc (h : EvalHom ops ev) (nu rho : Rat) (u : Nat → F) (p : F) (k : Nat) (hk : k < 2) :
    ev (nth ops (navierStokes ops nu rho u p) k) = ev (nsDoc ops nu rho u p k) := by
  rw [navierStokes_value h nu rho u p k hk]
  unfold nsDoc advection laplacian
  simp only [ev_sub h, h.add, h.mul, h.smul, ev_sum_two h]

/-- role of the viscosity: the residual is affine in `ν` with slope `−Δu_k` -/
theorem navierStokes_affine_nu (h : EvalHom ops ev) (nu rho : Rat) (u : Nat → F) (p : F) (k : Nat) (hk : k < 2) :
    ev (nth ops (navierStokes ops nu rho u p) k) =
      ev (nth ops (navierStokes ops 0 rho u p) k)
        + nu * (-(ev (ops.dX 0 (ops.dX 0 (u k))) + ev (ops.dX 1 (ops.dX 1 (u k))))) := by
  rw [navierStokes_value h nu rho u p k hk, navierStokes_value h 0 rho u p k hk]
  ring

/-- role of the density: it enters through `ρ⁻¹` only, multiplying `∂k p` (component `k` of the pressure gradient) -/
theorem navierStokes_role_rho (h : EvalHom ops ev) (nu rho rho' : Rat) (u : Nat → F) (p : F) (k : Nat)
    (hk : k < 2) :
    ev (nth ops (navierStokes ops nu rho u p) k) - ev (nth ops (navierStokes ops nu rho' u p) k) =
      (1 / rho - 1 / rho') * ev (ops.dX k p) := by
  rw [navierStokes_value h nu rho u p k hk, navierStokes_value h nu rho' u p k hk]
  ring

/-- the residual vanishes exactly where the stationary momentum equation holds -/
theorem navierStokes_vanishes_iff (h : EvalHom ops ev) (nu rho : Rat) (u : Nat → F) (p : F) (k : Nat)
    (hk : k < 2) :
    ev (nth ops (navierStokes ops nu rho u p) k) = 0 ↔
      ev (u 0) * ev (ops.dX 0 (u k)) + ev (u 1) * ev (ops.dX 1 (u k)) + 1 / rho * ev (ops.dX k p) =
        nu * (ev (ops.dX 0 (ops.dX 0 (u k))) + ev (ops.dX 1 (ops.dX 1 (u k)))) := by
  rw [navierStokes_value h nu rho u p k hk]
  constructor <;> intro hh <;> linarith

end Statio


/-! ### `evaluate`: heterogeneity step, dispatch, parameter layouts -/

section Evaluate
variable (ops : FieldOps F) (ext : FieldExt F) (evAt : List Rat → F → Rat)

/-- no heterogeneity declared (`eq_params_heterogeneity = None`): the decorator is the identity -/
theorem evalHetero_none (args : EvalArgs) (p : EqParams) : evalHetero none args p = p := rfl

/-- a declaration without any function (keys declared `None`, or missing) is the identity too -/
theorem evalHetero_no_function (hd : List (String × Option (EvalArgs → PNode))) (args : EvalArgs)
    (p : EqParams) (hh : ∀ k f, hd.lookup k ≠ some (some f)) : evalHetero (some hd) args p = p := by
  unfold evalHetero
  simp only
  conv => rhs; rw [← List.map_id p]
  apply List.map_congr_left
  intro kv _
  cases hl : hd.lookup kv.1 with
  | none => simp
  | some o =>
    cases o with
    | none => simp
    | some f => exact absurd hl (hh _ _)

/-- a declared function replaces exactly its own key -/
theorem evalHetero_function (hd : List (String × Option (EvalArgs → PNode))) (args : EvalArgs)
    (k : String) (v : PNode) (f : EvalArgs → PNode) (hk : hd.lookup k = some (some f)) :
    evalHetero (some hd) args [(k, v)] = [(k, f args)] := by
  simp [evalHetero, hk]

theorem lookup_map_leaf (d : List (String × List Rat)) (name : String) :
    (d.map (fun kv => (kv.1, PNode.leaf kv.2))).lookup name = (d.lookup name).map PNode.leaf := by
  induction d with
  | nil => rfl
  | cons kv d ih =>
    obtain ⟨k, v⟩ := kv
    simp only [List.map_cons, List.lookup_cons]
    cases hk : (name == k) <;> simp [ih]

/-- per-network layout: `eq_params[nn_key]` is the sub-dictionary of that network -/
theorem getVec_extract_nested (p : EqParams) (k name : String) (d : List (String × List Rat)) (v : List Rat)
    (hl : p.lookup k = some (.sub d)) (hn : d.lookup name = some v) :
    getVec (extractParams p k) name = .ok v := by
  unfold extractParams getVec
  rw [hl]
  simp only
  rw [lookup_map_leaf, hn]
  rfl

/-- flat layout (`KeyError` branch): the whole dictionary is shared -/
theorem extractParams_flat (p : EqParams) (k : String) (hl : p.lookup k = none) : extractParams p k = p := by
  unfold extractParams
  rw [hl]

theorem getScalar_of_getVec (p : EqParams) (name : String) (r : Rat) (h : getVec p name = .ok [r]) :
    getScalar p name = .ok r := by
  unfold getScalar
  rw [h]
  rfl

theorem evaluate_burgers (Tmax nu t x : Rat) (u : F) (p : EqParams) (hnu : getScalar p "nu" = .ok nu) :
    evaluate ops ext evAt Tmax .burgers none (.nonStatio t [x]) (.single [u]) p =
      .ok [evAt [t, x] (burgers ops Tmax nu u)] := by
  simp only [evaluate, Builtin.eqType, evalHetero, equationAt, hnu]
  rfl

theorem evaluate_fisherKPP (Tmax D r g t : Rat) (x : List Rat) (u : F) (p : EqParams)
    (hD : getScalar p "D" = .ok D) (hr : getScalar p "r" = .ok r) (hg : getScalar p "g" = .ok g) :
    evaluate ops ext evAt Tmax .fisherKPP none (.nonStatio t x) (.single [u]) p =
      .ok [evAt (t :: x) (fisherKPP ops ext x.length Tmax D r g u)] := by
  simp only [evaluate, Builtin.eqType, evalHetero, equationAt, hD, hr, hg]
  rfl

theorem evaluate_ouFPE (Tmax t x y : Rat) (alpha mu sigma : List Rat) (u : F) (p : EqParams)
    (ha : getVec p "alpha" = .ok alpha) (hm : getVec p "mu" = .ok mu) (hs : getVec p "sigma" = .ok sigma) :
    evaluate ops ext evAt Tmax .ouFPE none (.nonStatio t [x, y]) (.single [u]) p =
      .ok [evAt [t, x, y] (ouFPE ops ext Tmax alpha mu sigma u)] := by
  simp only [evaluate, Builtin.eqType, evalHetero, equationAt, ha, hm, hs]
  rfl

/-- GLV for EVERY layout: the parameters are those `extract_params(key_main)` exposes (see
    `getVec_extract_nested` / `extractParams_flat` for the two layouts) -/
theorem evaluate_glv (Tmax c r t v : Rat) (a : List Rat) (km : String) (ko : List String)
    (d : List (String × List F)) (um : F) (uo : List F) (p : EqParams)
    (hm : scalarNet d km = .ok um) (ho : ko.mapM (scalarNet d) = .ok uo)
    (hc : getScalar (extractParams p km) "carrying_capacity" = .ok c)
    (ha : getVec (extractParams p km) "interactions" = .ok a)
    (hr : getScalar (extractParams p km) "growth_rate" = .ok r)
    (hv : glv ops (evAt [t]) Tmax c r a um uo = some v) :
    evaluate ops ext evAt Tmax (.glv km ko) none (.ode t) (.dict d) p = .ok [v] := by
  simp only [evaluate, Builtin.eqType, evalHetero, equationAt, hm, ho, hc, ha, hr]
  show (match glv ops (evAt [t]) Tmax c r a um uo with
    | some v => pure [v]
    | none => throw "guard: u_main(t) = 0 (log undefined)") = _
  rw [hv]
  rfl

theorem evaluate_massConservation (Tmax x y : Rat) (k : String) (d : List (String × List F)) (u : List F)
    (p : EqParams) (hu : netOf d k = .ok u) :
    evaluate ops ext evAt Tmax (.massConservation k) none (.statio [x, y]) (.dict d) p =
      .ok [evAt [0, x, y] (massConservation ops 2 (fun i => nth ops u i))] := by
  simp only [evaluate, Builtin.eqType, equationAt, hu]
  rfl

/-- Navier–Stokes for EVERY layout: `rho` and `nu` are those `extract_params(u_key)` exposes -/
theorem evaluate_navierStokes (Tmax nu rho x y : Rat) (uk pk : String) (d : List (String × List F))
    (u : List F) (pn : F) (p : EqParams) (hu : netOf d uk = .ok u) (hp : scalarNet d pk = .ok pn)
    (hrho : getScalar (extractParams p uk) "rho" = .ok rho)
    (hnu : getScalar (extractParams p uk) "nu" = .ok nu) :
    evaluate ops ext evAt Tmax (.navierStokes uk pk) none (.statio [x, y]) (.dict d) p =
      .ok ((navierStokes ops nu rho (fun i => nth ops u i) pn).map (evAt [0, x, y])) := by
  simp only [evaluate, Builtin.eqType, evalHetero, equationAt, hu, hp, hrho, hnu]
  rfl

/-- **both layouts give the documented residual** `(u·∇)u + ρ⁻¹∇p − ν Δu`, with `ρ`, `ν` the values of the
    VELOCITY network's parameter set.  Per-network layout: `eq_params[u_key]` is a sub-dictionary holding
    `rho` and `nu`; whatever else `eq_params` contains (the sub-dictionary of `p_key`, top-level entries:
    `p` is arbitrary otherwise) is not read. -/
theorem evaluate_navierStokes_per_network (Tmax nu rho x y : Rat) (h : EvalHom ops (evAt [0, x, y]))
    (uk pk : String) (d : List (String × List F)) (u : List F) (pn : F) (p : EqParams)
    (du : List (String × List Rat)) (hu : netOf d uk = .ok u) (hp : scalarNet d pk = .ok pn)
    (hl : p.lookup uk = some (.sub du)) (hrho : du.lookup "rho" = some [rho])
    (hnu : du.lookup "nu" = some [nu]) :
    evaluate ops ext evAt Tmax (.navierStokes uk pk) none (.statio [x, y]) (.dict d) p =
      .ok [evAt [0, x, y] (nsDoc ops nu rho (fun i => nth ops u i) pn 0),
           evAt [0, x, y] (nsDoc ops nu rho (fun i => nth ops u i) pn 1)] := by
  rw [evaluate_navierStokes ops ext evAt Tmax nu rho x y uk pk d u pn p hu hp
    (getScalar_of_getVec _ _ _ (getVec_extract_nested p uk "rho" du [rho] hl hrho))
    (getScalar_of_getVec _ _ _ (getVec_extract_nested p uk "nu" du [nu] hl hnu))]
  have h0 := navierStokes_eq_doc h nu rho (fun i => nth ops u i) pn 0 (by omega)
  have h1 := navierStokes_eq_doc h nu rho (fun i => nth ops u i) pn 1 (by omega)
  have e : navierStokes ops nu rho (fun i => nth ops u i) pn =
      [nth ops (navierStokes ops nu rho (fun i => nth ops u i) pn) 0,
       nth ops (navierStokes ops nu rho (fun i => nth ops u i) pn) 1] := rfl
  rw [e]
  simp only [List.map]
  rw [h0, h1]

/-- flat layout (no entry named `u_key`: the `KeyError` branch of `extract_params`): `rho`, `nu` at top level -/
theorem evaluate_navierStokes_flat (Tmax nu rho x y : Rat) (h : EvalHom ops (evAt [0, x, y]))
    (uk pk : String) (d : List (String × List F)) (u : List F) (pn : F) (p : EqParams)
    (hu : netOf d uk = .ok u) (hp : scalarNet d pk = .ok pn)
    (hl : p.lookup uk = none) (hrho : getScalar p "rho" = .ok rho) (hnu : getScalar p "nu" = .ok nu) :
    evaluate ops ext evAt Tmax (.navierStokes uk pk) none (.statio [x, y]) (.dict d) p =
      .ok [evAt [0, x, y] (nsDoc ops nu rho (fun i => nth ops u i) pn 0),
           evAt [0, x, y] (nsDoc ops nu rho (fun i => nth ops u i) pn 1)] := by
  rw [evaluate_navierStokes ops ext evAt Tmax nu rho x y uk pk d u pn p hu hp
    (by rw [extractParams_flat p uk hl]; exact hrho) (by rw [extractParams_flat p uk hl]; exact hnu)]
  have h0 := navierStokes_eq_doc h nu rho (fun i => nth ops u i) pn 0 (by omega)
  have h1 := navierStokes_eq_doc h nu rho (fun i => nth ops u i) pn 1 (by omega)
  have e : navierStokes ops nu rho (fun i => nth ops u i) pn =
      [nth ops (navierStokes ops nu rho (fun i => nth ops u i) pn) 0,
       nth ops (navierStokes ops nu rho (fun i => nth ops u i) pn) 1] := rfl
  rw [e]
  simp only [List.map]
  rw [h0, h1]

/-- dispatch: the arguments must be those of the equation type's `evaluate` signature -/
theorem evaluate_dispatch (Tmax : Rat) (b : Builtin) (het : Hetero) (args : EvalArgs) (nets : Nets F)
    (p : EqParams) (v : List Rat)
    (h : evaluate ops ext evAt Tmax b het args nets p = .ok v) :
    (b.eqType = .ode ∧ ∃ t, args = .ode t) ∨ (b.eqType = .statio ∧ ∃ x, args = .statio x) ∨
      (b.eqType = .nonStatio ∧ ∃ t x, args = .nonStatio t x) := by
  unfold evaluate at h
  cases hb : b.eqType <;> cases args <;> simp_all

/-- the stationary built-ins ignore `Tmax` -/
theorem evaluate_statio_ignores_Tmax (Tmax Tmax' : Rat) (b : Builtin) (hb : b.eqType = .statio) (het : Hetero)
    (args : EvalArgs) (nets : Nets F) (p : EqParams) :
    evaluate ops ext evAt Tmax b het args nets p = evaluate ops ext evAt Tmax' b het args nets p := by
  cases b with
  | massConservation k => cases args <;> cases nets <;> rfl
  | navierStokes uk pk =>
    cases args with
    | statio x => cases nets <;> rcases x with _ | ⟨a, _ | ⟨b, _ | ⟨c, r⟩⟩⟩ <;> rfl
    | ode t => rfl
    | nonStatio t x => rfl
  | burgers => simp [Builtin.eqType] at hb
  | fisherKPP => simp [Builtin.eqType] at hb
  | ouFPE => simp [Builtin.eqType] at hb
  | glv a b => simp [Builtin.eqType] at hb

end Evaluate

end Jinns.Equations

/-! ### the model satisfies `Holds.C02` (for every field, point and parameter value) -/

namespace Jinns.Holds
open Jinns.Calc Jinns.Equations

theorem compareAll_self (name : String) (scale : Rat) (k : Nat) (l : List Rat) :
    compareAll name 0 scale k l l = none := by
  induction l generalizing k with
  | nil => rfl
  | cons d ds ih =>
    unfold compareAll
    by_cases hd : d = 0 <;> simp [hd, ih]

theorem model_holds_burgers (Tmax nu : Rat) (u : Poly) (pt : List Rat) :
    holdsC02 (.burgers Tmax nu u) pt [Poly.eval (burgers polyOps Tmax nu u) pt] 0 = none := by
  simp only [holdsC02, documentedAt, documentedFields, Option.map, List.map, burgers_eq_doc]
  exact compareAll_self _ _ _ _

theorem model_holds_fisherKPP (d : Nat) (Tmax D r g : Rat) (u : Poly) (pt : List Rat) :
    holdsC02 (.fisherKPP d Tmax D r g u) pt [Poly.eval (fisherKPP polyOps polyExt d Tmax D r g u) pt] 0
      = none := by
  have := fisherKPP_eq_doc (polyEvalHom pt) (polyExt_one pt) d Tmax D r g u
  simp only [holdsC02, documentedAt, documentedFields, Option.map, List.map]
  rw [← this]
  exact compareAll_self _ _ _ _

theorem model_holds_ouFPE (Tmax : Rat) (alpha mu sigma : List Rat) (u : Poly) (pt : List Rat) :
    holdsC02 (.ouFPE Tmax alpha mu sigma u) pt [Poly.eval (ouFPE polyOps polyExt Tmax alpha mu sigma u) pt] 0
      = none := by
  have := ouFPE_eq_doc (ext := polyExt) (polyEvalHom pt) Tmax alpha mu sigma u
  simp only [holdsC02, documentedAt, documentedFields, Option.map, List.map]
  rw [← this]
  exact compareAll_self _ _ _ _

/-- the inherited Fokker–Planck `equation` with ANY polynomial drift and diffusion (symmetric or not) -/
theorem model_holds_fpe (Tmax : Rat) (drift : List Poly) (diff : List (List Poly)) (u : Poly) (pt : List Rat) :
    holdsC02 (.fpe Tmax drift diff u) pt
      [Poly.eval (fpe2D polyOps Tmax (comp drift) (fun i j => comp (diff.getD i []) j) u) pt] 0 = none := by
  have := fpe2D_eq_doc_of_comm (polyEvalHom pt) Tmax (comp drift) (fun i j => comp (diff.getD i []) j) u
    (fun a => polyOps_dX_comm 0 1 a)
  simp only [holdsC02, documentedAt, documentedFields, Option.map, List.map]
  rw [← this]
  exact compareAll_self _ _ _ _

theorem model_holds_glv (Tmax c r : Rat) (a : List Rat) (um : Poly) (uo : List Poly) (pt : List Rat) (v : Rat)
    (hv : glv polyOps (fun p => Poly.eval p pt) Tmax c r a um uo = some v) :
    holdsC02 (.glv Tmax c r a um uo) pt [v] 0 = none := by
  rw [glv_eq_doc] at hv
  simp only [holdsC02, documentedAt, hv]
  exact compareAll_self _ _ _ _

theorem model_holds_massConservation (u : List Poly) (pt : List Rat) :
    holdsC02 (.massConservation u) pt
      [Poly.eval (massConservation polyOps 2 (fun i => nth polyOps u i)) pt] 0 = none := by
  simp only [holdsC02, documentedAt, documentedFields, Option.map, List.map, massConservation_eq_doc]
  exact compareAll_self _ _ _ _

theorem model_holds_navierStokes (nu rho : Rat) (u : List Poly) (p : Poly) (pt : List Rat) :
    holdsC02 (.navierStokes nu rho u p) pt
      ((navierStokes polyOps nu rho (fun i => nth polyOps u i) p).map (fun f => Poly.eval f pt)) 0 = none := by
  have h0 := navierStokes_eq_doc (polyEvalHom pt) nu rho (fun i => nth polyOps u i) p 0 (by omega)
  have h1 := navierStokes_eq_doc (polyEvalHom pt) nu rho (fun i => nth polyOps u i) p 1 (by omega)
  unfold holdsC02 documentedAt
  by_cases hr : rho = 0
  · simp [hr]
  · simp only [hr, if_false, documentedFields, Option.map, List.map]
    have e : navierStokes polyOps nu rho (fun i => nth polyOps u i) p =
        [nth polyOps (navierStokes polyOps nu rho (fun i => nth polyOps u i) p) 0,
         nth polyOps (navierStokes polyOps nu rho (fun i => nth polyOps u i) p) 1] := rfl
    rw [e]
    simp only [List.map]
    rw [h0, h1]
    exact compareAll_self _ _ _ _

end Jinns.Holds

/-! ### non-vacuity

* `polyEvalHom`: the executable instance `polyOps` with `Poly.eval · pt` satisfies `EvalHom` (so every
  pointwise theorem above applies to what the driver computes).
* `mvLawful`, `mvEvalHom`: Mathlib's `MvPolynomial ℕ ℚ` with its partial derivatives (variable 0 = `t`,
  variable `i + 1` = `x_i`) and evaluation at a point satisfies `LawfulDeriv` and `EvalHom` together: the
  hypotheses of the OU corollaries are inhabited by the genuine polynomial algebra. -/

namespace Jinns.Equations
open Jinns.Calc

section LawfulInstance
open MvPolynomial

noncomputable def mvOps : FieldOps (MvPolynomial ℕ ℚ) where
  zero := 0
  add := fun a b => a + b
  neg := fun a => -a
  mul := fun a b => a * b
  smul := fun c a => c • a
  dT := fun a => pderiv 0 a
  dX := fun i a => pderiv (i + 1) a

noncomputable def mvExt : FieldExt (MvPolynomial ℕ ℚ) where
  one := 1
  coord := fun i => X (i + 1)

theorem pderiv_comm (i j : ℕ) (a : MvPolynomial ℕ ℚ) :
    pderiv i (pderiv j a) = pderiv j (pderiv i a) := by
  have h : ⁅(pderiv i : Derivation ℚ (MvPolynomial ℕ ℚ) (MvPolynomial ℕ ℚ)),
      (pderiv j : Derivation ℚ (MvPolynomial ℕ ℚ) (MvPolynomial ℕ ℚ))⁆ = 0 := by
    refine MvPolynomial.derivation_ext (R := ℚ) (σ := ℕ) ?_
    intro k
    rw [Derivation.commutator_apply]
    simp only [pderiv_X, Derivation.coe_zero, Pi.zero_apply]
    by_cases hj : j = k <;> by_cases hi : i = k <;> simp [hj, hi]
  have h2 := congrArg (fun D => D a) h
  simp only [Derivation.commutator_apply, Derivation.coe_zero, Pi.zero_apply] at h2
  exact sub_eq_zero.mp h2

theorem mvLawful : LawfulDeriv mvOps mvExt where
  dX_zero := by intro i; simp [mvOps]
  dX_add := by intro i a b; simp [mvOps]
  dX_neg := by intro i a; simp [mvOps]
  dX_smul := by intro i c a; simp [mvOps]
  dX_mul := by intro i a b; simp [mvOps, Derivation.leibniz]; ring
  dX_one := by intro i; simp [mvOps, mvExt]
  dX_coord := by
    intro i j
    by_cases h : i = j <;> simp [mvOps, mvExt, pderiv_X, h]
  dX_comm := by intro i j a; exact pderiv_comm _ _ _

theorem mvEvalHom (pt : ℕ → ℚ) : EvalHom mvOps (fun p => MvPolynomial.eval pt p) where
  zero := by simp [mvOps]
  add := by intro a b; simp [mvOps]
  neg := by intro a; simp [mvOps]
  mul := by intro a b; simp [mvOps]
  smul := by intro c a; simp [mvOps, MvPolynomial.smul_eval]

/-- the OU corollaries hold in the genuine polynomial algebra, at every point -/
example (pt : ℕ → ℚ) (Tmax : ℚ) (alpha mu sigma : List ℚ) (u : MvPolynomial ℕ ℚ) :=
  ouFPE_expanded (mvEvalHom pt) (by simp [mvExt]) mvLawful Tmax alpha mu sigma u

example (pt : ℕ → ℚ) (sigma : List ℚ) (u : MvPolynomial ℕ ℚ) :=
  ou_second_order (mvEvalHom pt) (by simp [mvExt]) mvLawful sigma u

/-- commuting cross partials: hypothesis of `fpe2D_eq_doc_of_comm` -/
example (pt : ℕ → ℚ) (Tmax : ℚ) (drift : ℕ → MvPolynomial ℕ ℚ) (diff : ℕ → ℕ → MvPolynomial ℕ ℚ)
    (u : MvPolynomial ℕ ℚ) :=
  fpe2D_eq_doc_of_comm (mvEvalHom pt) Tmax drift diff u (fun a => mvLawful.dX_comm 0 1 a)

end LawfulInstance

section Examples

/-- the pointwise theorems on the executable instance -/
example (pt : List ℚ) (Tmax nu : ℚ) (u : Poly) := burgers_vanishes_iff (polyEvalHom pt) Tmax nu u
example (pt : List ℚ) (d : ℕ) (Tmax D r g : ℚ) (u : Poly) :=
  fisherKPP_vanishes_iff (polyEvalHom pt) (polyExt_one pt) d Tmax D r g u
example (pt : List ℚ) (nu rho : ℚ) (u : ℕ → Poly) (p : Poly) :=
  navierStokes_vanishes_iff (polyEvalHom pt) nu rho u p 1 (by omega)

/-- symmetric diffusion (hypothesis of `fpe2D_eq_doc_of_symm`): the OU matrix `½ σσᵀ` -/
example (sigma : List ℚ) : ouDiffusion sigma 0 1 = ouDiffusion sigma 1 0 := ouDiffusion_symm sigma 0 1

/-- GLV guard inhabited: `u_main = t + 1`, other population `2t`, at `t = 1` (`u_main(1) = 2 ≠ 0`):
    `u'/u + Tmax (−r − (a_0 u_0 + a_1 u_1) + c (u_0 + u_1))` with `Tmax = 2, c = 1/2, r = 2, a = [1, −1/2]`
    is `1/2 + 2·(−2 − (2 − 1) + 2) = −3/2` -/
example : glv polyOps (fun p => Poly.eval p [1]) 2 (1 / 2) 2 [1, -1 / 2] [(1, [1]), (1, [])] [[(2, [1])]]
    = some (-3 / 2) := by
  have h0 : Poly.eval [(1, [1]), (1, [])] [1] ≠ 0 := by
    norm_num [eval_cons, eval_nil, monoEval_eq, pp, Poly.powNat]
  rw [glv_value polyOps _ _ _ _ _ _ _ h0]
  have hd : polyOps.dT [((1 : ℚ), [1]), (1, [])] = [((1 : ℚ) * ((1 : ℕ) : ℚ), [0])] := rfl
  rw [hd]
  norm_num [dotFrom, total, eval_cons, eval_nil, monoEval_eq, pp, Poly.powNat]

/-- both parameter layouts expose the same interaction vector to `GeneralizedLotkaVolterra` -/
example : getVec (extractParams [("b", .sub [("interactions", [1, 2])])] "b") "interactions" = .ok [1, 2] :=
  getVec_extract_nested _ "b" "interactions" [("interactions", [1, 2])] [1, 2] rfl rfl
example : getVec (extractParams [("interactions", .leaf [1, 2])] "b") "interactions" = .ok [1, 2] := by
  rw [extractParams_flat _ _ rfl]; rfl
example : getScalar [("rho", .leaf [2]), ("nu", .leaf [1 / 2])] "nu" = .ok (1 / 2) := rfl

/-- a heterogeneity declaration without functions: hypothesis of `evalHetero_no_function` -/
example : ∀ k f, ([("nu", none)] : List (String × Option (EvalArgs → PNode))).lookup k ≠ some (some f) := by
  intro k f
  simp only [List.lookup]
  split <;> simp

end Examples

end Jinns.Equations
