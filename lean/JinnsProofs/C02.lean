/-
C02 — Built-in dynamic losses equal the residual of their documented equation.
Property theorems about `JinnsModel/Equations.lean`.

Conventions.  `ops : FieldOps F` is an arbitrary field algebra with derivations (AD contract);
`ev : F → ℚ` with `EvalHom ops ev` is an arbitrary *point* of it (a ℚ-algebra homomorphism: evaluation
of functions at a point; proved below for the executable polynomial instance, `polyEvalHom`).
Algebraic facts about a residual are stated on its value at an arbitrary point; facts that are pure
index routing (Laplacian = trace of the Hessian, which slice of which gradient) are equalities of
fields and assume nothing.
-/
import JinnsModel.Equations
import JinnsModel.HoldsC02
import Mathlib.Tactic.Ring
import Mathlib.Tactic.Linarith
import Mathlib.Algebra.Order.Field.Rat
import Mathlib.Algebra.BigOperators.Group.List.Basic

namespace Jinns.Equations
open Jinns.Calc

variable {F : Type}

/-! ### `Poly.eval` is a point of `polyOps` -/

section PolyEval
open Poly

/-- `Π_k pt_k ^ e_k`, recursively (a missing coordinate counts as 0, as in `Poly.monoEval`) -/
def pp : List Rat → List Nat → Rat
  | _, [] => 1
  | [], e :: es => powNat 0 e * pp [] es
  | x :: xs, e :: es => powNat x e * pp xs es

theorem powNat_add (x : Rat) (m n : Nat) : powNat x (m + n) = powNat x m * powNat x n := by
  induction m with
  | zero => simp [powNat]
  | succ k ih =>
    have : k + 1 + n = (k + n) + 1 := by omega
    rw [this]
    simp only [powNat, ih]
    ring

theorem prodPow_eq (pt : List Rat) (e : List Nat) :
    ((List.range e.length).map (fun k => powNat (pt.getD k 0) (e.getD k 0))).foldr (· * ·) 1 = pp pt e := by
  induction e generalizing pt with
  | nil => simp [pp]
  | cons e0 es ih =>
    rw [List.length_cons, List.range_succ_eq_map, List.map_cons, List.foldr_cons, List.map_map]
    cases pt with
    | nil =>
      have := ih []
      simp only [List.getD_nil] at this
      simp only [pp, List.getD_nil, List.getD_cons_zero]
      congr 1
    | cons x xs =>
      have := ih xs
      simp only [pp, List.getD_cons_zero]
      congr 1

theorem monoEval_eq (pt : List Rat) (m : Mono) : monoEval pt m = m.1 * pp pt m.2 := by
  unfold monoEval
  rw [prodPow_eq]

theorem pp_expAdd (pt : List Rat) (a b : List Nat) : pp pt (expAdd a b) = pp pt a * pp pt b := by
  induction a generalizing pt b with
  | nil => simp [expAdd, pp]
  | cons a0 as ih =>
    cases b with
    | nil => simp [expAdd, pp]
    | cons b0 bs =>
      cases pt with
      | nil => simp only [expAdd, pp, powNat_add, ih]; ring
      | cons x xs => simp only [expAdd, pp, powNat_add, ih]; ring

theorem monoEval_mul (pt : List Rat) (m n : Mono) :
    monoEval pt (monoMul m n) = monoEval pt m * monoEval pt n := by
  simp only [monoEval_eq, monoMul, pp_expAdd]
  ring

theorem eval_nil (pt : List Rat) : Poly.eval [] pt = 0 := rfl

theorem eval_cons (pt : List Rat) (m : Mono) (p : Poly) :
    Poly.eval (m :: p) pt = monoEval pt m + Poly.eval p pt := rfl

theorem eval_append (pt : List Rat) (p q : Poly) :
    Poly.eval (p ++ q) pt = Poly.eval p pt + Poly.eval q pt := by
  induction p with
  | nil => simp [eval_nil]
  | cons m p ih => rw [List.cons_append, eval_cons, eval_cons, ih]; ring

theorem eval_scale (pt : List Rat) (c : Rat) (p : Poly) :
    Poly.eval (Poly.scale c p) pt = c * Poly.eval p pt := by
  induction p with
  | nil => simp [Poly.scale, eval_nil]
  | cons m p ih =>
    have : Poly.scale c (m :: p) = (c * m.1, m.2) :: Poly.scale c p := rfl
    rw [this, eval_cons, eval_cons, ih, monoEval_eq, monoEval_eq]
    ring

theorem eval_smul (pt : List Rat) (c : Rat) (p : Poly) :
    Poly.eval (Poly.smul c p) pt = c * Poly.eval p pt := by
  unfold Poly.smul
  by_cases h0 : c = 0
  · simp [h0, eval_nil]
  · by_cases h1 : c = 1
    · simp [h1]
    · simp [h0, h1, eval_scale]

theorem eval_map_monoMul (pt : List Rat) (m : Mono) (q : Poly) :
    Poly.eval (q.map (fun n => monoMul m n)) pt = monoEval pt m * Poly.eval q pt := by
  induction q with
  | nil => simp [eval_nil]
  | cons n q ih => rw [List.map_cons, eval_cons, eval_cons, ih, monoEval_mul]; ring

theorem eval_mul (pt : List Rat) (p q : Poly) :
    Poly.eval (Poly.mul p q) pt = Poly.eval p pt * Poly.eval q pt := by
  unfold Poly.mul
  induction p with
  | nil => simp [eval_nil]
  | cons m p ih => rw [List.flatMap_cons, eval_append, ih, eval_map_monoMul, eval_cons]; ring

/-- evaluation at any point is a point of the executable polynomial algebra -/
theorem polyEvalHom (pt : List Rat) : EvalHom polyOps (fun p => Poly.eval p pt) where
  zero := rfl
  add := fun a b => eval_append pt a b
  neg := fun a => by
    show Poly.eval (Poly.scale (-1) a) pt = _
    rw [eval_scale]; ring
  mul := fun a b => eval_mul pt a b
  smul := fun c a => eval_smul pt c a

theorem polyExt_one (pt : List Rat) : Poly.eval polyExt.one pt = 1 := by
  show Poly.eval [(1, [])] pt = 1
  rw [eval_cons, eval_nil, monoEval_eq]; simp [pp]

end PolyEval

end Jinns.Equations
