/-
C07 — `solve()` is observationally the textbook mini-batch training loop.

Theorems about `JinnsModel/SolveLoop.lean`, for **every** loss / optimizer (`update`), batch
source (`nextBatch`), NaN predicate, tracking projection, validation module and iteration count:
when no parameter value is NaN and no validation invocation requests a stop,

* exactly `n` iterations run (`solve_runs_n_iterations`) and the loop exits because its own
  condition is false (`solve_exits`, in `SolveLemmas`);
* the returned parameters, optimizer state, generators and the three histories are those of the
  five-line reference loop `refLoop` (`solve_refines_refLoop`);
* entry `i` of the loss / term histories is the loss at the parameters *before* the update of
  iteration `i` on the `i`-th batch of the generator passed in, entry `i` of the tracked history
  is the value *after* that update (`refLoop_entry`, `solve_history_entry`);
* a run of `m` iterations resumed from the returned `(θ, opt_state, generators)` of a run of `n`
  continues it: same final `θ / opt_state / generators` as a single run of `n + m`, whose
  histories are the concatenation (`refLoop_resume`, `solve_resume`).
-/
import JinnsProofs.SolveLemmas

namespace Jinns.Solve
open Jinns.Validation

variable {Θ O G B V T P VS C : Type}
variable (pr : Prog Θ O G B V T P VS C)

/-! ### the i-th batch of the generator passed in -/

/-- the generators after `i` draws -/
def gensAt (g0 : G) : Nat → G
  | 0 => g0
  | i + 1 => (pr.nextBatch (gensAt g0 i)).1

/-- the `i`-th batch served by the generators passed in (0-based) -/
def batchAt (g0 : G) (i : Nat) : B := (pr.nextBatch (gensAt pr g0 i)).2

/-- the optimizer state at the start of iteration `j` of the reference loop -/
def optSeq (θ0 : Θ) (opt0 : O) (g0 : G) (j : Nat) : O :=
  (refLoop pr j (refInit θ0 opt0 g0 : Ref Θ O G V T P)).opt

/-- The reference loop draws the batches of the generator in order, whatever the parameters. -/
theorem refLoop_gens (θ0 : Θ) (opt0 : O) (g0 : G) (i : Nat) :
    (refLoop pr i (refInit θ0 opt0 g0 : Ref Θ O G V T P)).gens = gensAt pr g0 i := by
  induction i with
  | zero => rfl
  | succ i ih => simp only [refLoop, refStep, gensAt, ih]

/-- Unfolding of the reference sequences: `θ_{i+1}, opt_{i+1}` are the optimizer update of
    `θ_i, opt_i` on the `i`-th batch. -/
theorem θseq_succ (θ0 : Θ) (opt0 : O) (g0 : G) (i : Nat) :
    θseq pr θ0 opt0 g0 (i + 1) =
      (pr.update (θseq pr θ0 opt0 g0 i) (optSeq pr θ0 opt0 g0 i) (batchAt pr g0 i)).θ := by
  unfold θseq optSeq batchAt
  rw [← refLoop_gens pr θ0 opt0 g0 i]
  rfl

theorem optSeq_succ (θ0 : Θ) (opt0 : O) (g0 : G) (i : Nat) :
    optSeq pr θ0 opt0 g0 (i + 1) =
      (pr.update (θseq pr θ0 opt0 g0 i) (optSeq pr θ0 opt0 g0 i) (batchAt pr g0 i)).opt := by
  unfold θseq optSeq batchAt
  rw [← refLoop_gens pr θ0 opt0 g0 i]
  rfl

/-- **Entry `i` of the reference histories.**  The loss and its terms are those at the
    parameters *before* the update of iteration `i`, on the `i`-th batch; the tracked entry is the
    value *after* that update. -/
theorem refLoop_entry (θ0 : Θ) (opt0 : O) (g0 : G) (n i : Nat) (hi : i < n) :
    let r := refLoop pr n (refInit θ0 opt0 g0 : Ref Θ O G V T P)
    let st := pr.update (θseq pr θ0 opt0 g0 i) (optSeq pr θ0 opt0 g0 i) (batchAt pr g0 i)
    r.lossH[i]? = some st.val ∧ r.termH[i]? = some st.terms ∧
      r.trackH[i]? = some (pr.track (θseq pr θ0 opt0 g0 (i + 1))) := by
  induction n with
  | zero => omega
  | succ n ih =>
    obtain ⟨l1, l2, l3⟩ := refLoop_init_lengths pr n θ0 opt0 g0 (V := V) (T := T) (P := P)
    by_cases h : i < n
    · obtain ⟨h1, h2, h3⟩ := ih h
      simp only [refLoop, refStep]
      refine ⟨?_, ?_, ?_⟩
      · rw [List.getElem?_append_left (by rw [l1]; exact h)]; exact h1
      · rw [List.getElem?_append_left (by rw [l2]; exact h)]; exact h2
      · rw [List.getElem?_append_left (by rw [l3]; exact h)]; exact h3
    · have e : i = n := by omega
      subst e
      have hg := refLoop_gens pr θ0 opt0 g0 i (V := V) (T := T) (P := P)
      simp only [refLoop, refStep]
      refine ⟨?_, ?_, ?_⟩
      · rw [List.getElem?_append_right (by rw [l1]; exact Nat.le_refl _), l1]
        simp [θseq, optSeq, batchAt, ← hg]
      · rw [List.getElem?_append_right (by rw [l2]; exact Nat.le_refl _), l2]
        simp [θseq, optSeq, batchAt, ← hg]
      · rw [List.getElem?_append_right (by rw [l3]; exact Nat.le_refl _), l3]
        simp [θseq, refLoop, refStep]

/-! ### the training loop refines the reference loop -/

variable (n : Nat) (θ0 : Θ) (opt0 : O) (g0 : G) (vs0 : Option VS)

/-- "nothing stops it": the parameters at the start of every iteration are NaN-free and no
    validation invocation before the last iteration requests a stop. -/
def Unstopped : Prop :=
  (∀ j, j < n → pr.isNaN (θseq pr θ0 opt0 g0 j) = false) ∧
  (∀ j, j + 1 < n → stopReq pr θ0 opt0 g0 vs0 j = false)

/-- Without a validation module, "nothing stops it" is only about NaN. -/
theorem unstopped_of_no_validation
    (h : ∀ j, j < n → pr.isNaN (θseq pr θ0 opt0 g0 j) = false) :
    Unstopped pr n θ0 opt0 g0 (none : Option VS) :=
  ⟨h, fun _ _ => rfl⟩

/-- A validation module that never requests a stop never stops training. -/
theorem unstopped_of_never_stop (h : ∀ j, j < n → pr.isNaN (θseq pr θ0 opt0 g0 j) = false)
    (hv : ∀ v θ, (pr.validate v θ).stop = false) : Unstopped pr n θ0 opt0 g0 vs0 := by
  refine ⟨h, fun j _ => ?_⟩
  cases vs0 with
  | none => rfl
  | some v0 => simp [stopReq, outAt, hv]

theorem solve_eq_iter_n (h : Unstopped pr n θ0 opt0 g0 vs0) :
    solve pr n θ0 opt0 g0 vs0 = iter pr n (init pr n θ0 opt0 g0 vs0) :=
  solve_eq_iter pr n θ0 opt0 g0 vs0 n (Nat.le_refl _) h.1 h.2 (Or.inl rfl)

/-- **Exactly `n` iterations run when nothing stops it.** -/
theorem solve_runs_n_iterations (h : Unstopped pr n θ0 opt0 g0 vs0) :
    (solve pr n θ0 opt0 g0 vs0).i = n := by
  rw [solve_eq_iter_n pr n θ0 opt0 g0 vs0 h, iter_init_i]

/-- **Refinement.**  When nothing stops it, the current parameters, optimizer state, generators,
    loss history, term histories and tracked-parameter histories in the final carry are those of
    the reference loop; if moreover the final parameters are NaN-free, the *returned* parameters
    (`last_non_nan_params`) are the reference loop's. -/
theorem solve_refines_refLoop (h : Unstopped pr n θ0 opt0 g0 vs0) :
    let s := solve pr n θ0 opt0 g0 vs0
    let r := refLoop pr n (refInit θ0 opt0 g0 : Ref Θ O G V T P)
    s.θ = r.θ ∧ s.opt = r.opt ∧ s.gens = r.gens ∧
    s.lossH = r.lossH ∧ s.termH = r.termH ∧ s.trackH = r.trackH ∧
    (pr.isNaN (θseq pr θ0 opt0 g0 n) = false → s.lastGood = r.θ) := by
  intro s r
  have hs : s = iter pr n (init pr n θ0 opt0 g0 vs0) := solve_eq_iter_n pr n θ0 opt0 g0 vs0 h
  obtain ⟨h1, h2, h3⟩ := iter_init_hist pr n θ0 opt0 g0 vs0 n (Nat.le_refl _)
  simp only [Nat.sub_self, List.replicate_zero, List.append_nil] at h1 h2 h3
  refine ⟨?_, ?_, ?_, ?_, ?_, ?_, ?_⟩
  · rw [hs]; exact iter_init_θ pr n θ0 opt0 g0 vs0 n
  · rw [hs]; exact iter_init_opt pr n θ0 opt0 g0 vs0 n
  · rw [hs]; exact iter_init_gens pr n θ0 opt0 g0 vs0 n
  · rw [hs]; exact h1
  · rw [hs]; exact h2
  · rw [hs]; exact h3
  · intro hn
    rw [hs, iter_init_lastGood]
    apply lastGoodRef_of_finite
    intro j _ hj
    by_cases hjn : j = n
    · subst hjn; exact hn
    · exact h.1 j (by omega)

/-- **Entry `i` of the returned histories belongs to iteration `i`**: loss and terms at the
    pre-update parameters on the `i`-th batch of the generator passed in, tracked parameters
    after the update. -/
theorem solve_history_entry (h : Unstopped pr n θ0 opt0 g0 vs0) (i : Nat) (hi : i < n) :
    let s := solve pr n θ0 opt0 g0 vs0
    let st := pr.update (θseq pr θ0 opt0 g0 i) (optSeq pr θ0 opt0 g0 i) (batchAt pr g0 i)
    s.lossH[i]? = some st.val ∧ s.termH[i]? = some st.terms ∧
      s.trackH[i]? = some (pr.track st.θ) := by
  intro s st
  obtain ⟨_, _, _, h4, h5, h6, _⟩ := solve_refines_refLoop pr n θ0 opt0 g0 vs0 h
  obtain ⟨e1, e2, e3⟩ := refLoop_entry pr θ0 opt0 g0 n i hi
  refine ⟨by rw [h4]; exact e1, by rw [h5]; exact e2, ?_⟩
  rw [h6, e3, θseq_succ]

/-! ### resumed runs -/

/-- **Resumption of the reference loop.**  `n + m` iterations = `n` iterations, then `m`
    iterations restarted from the returned `(θ, opt_state, generators)` with fresh histories:
    same final state, histories concatenated. -/
theorem refLoop_resume (m : Nat) :
    let a := refLoop pr n (refInit θ0 opt0 g0 : Ref Θ O G V T P)
    let b := refLoop pr m (refInit a.θ a.opt a.gens : Ref Θ O G V T P)
    let f := refLoop pr (n + m) (refInit θ0 opt0 g0 : Ref Θ O G V T P)
    f.θ = b.θ ∧ f.opt = b.opt ∧ f.gens = b.gens ∧ f.lossH = a.lossH ++ b.lossH ∧
      f.termH = a.termH ++ b.termH ∧ f.trackH = a.trackH ++ b.trackH := by
  intro a b f
  have e : f = refLoop pr m a := refLoop_add pr n m _
  have p := refLoop_prefix pr m a
  rw [e, p]
  exact ⟨rfl, rfl, rfl, rfl, rfl, rfl⟩

/-- **Resumed runs.**  If nothing stops the run of `n` iterations, nor the run of `m` iterations
    restarted from what it returned (parameters, optimizer state, advanced generators — with any
    validation module `vs1`), nor the single run of `n + m` iterations, and the parameters
    returned by the first run are NaN-free, then the resumed run ends with the same current
    parameters, optimizer state and generators as the single run, and the histories of the single
    run are the concatenation of those of the two runs. -/
theorem solve_resume (m : Nat) (vs1 vs2 : Option VS)
    (hA : Unstopped pr n θ0 opt0 g0 vs0) (hAn : pr.isNaN (θseq pr θ0 opt0 g0 n) = false) :
    let A := solve pr n θ0 opt0 g0 vs0
    Unstopped pr m A.lastGood A.opt A.gens vs1 → Unstopped pr (n + m) θ0 opt0 g0 vs2 →
    let Bs := solve pr m A.lastGood A.opt A.gens vs1
    let F := solve pr (n + m) θ0 opt0 g0 vs2
    F.θ = Bs.θ ∧ F.opt = Bs.opt ∧ F.gens = Bs.gens ∧ F.lossH = A.lossH ++ Bs.lossH ∧
      F.termH = A.termH ++ Bs.termH ∧ F.trackH = A.trackH ++ Bs.trackH := by
  intro A hB hF Bs F
  obtain ⟨a1, a2, a3, a4, a5, a6, a7⟩ := solve_refines_refLoop pr n θ0 opt0 g0 vs0 hA
  have a7' := a7 hAn
  obtain ⟨b1, b2, b3, b4, b5, b6, _⟩ := solve_refines_refLoop pr m A.lastGood A.opt A.gens vs1 hB
  obtain ⟨f1, f2, f3, f4, f5, f6, _⟩ := solve_refines_refLoop pr (n + m) θ0 opt0 g0 vs2 hF
  obtain ⟨r1, r2, r3, r4, r5, r6⟩ := refLoop_resume pr n θ0 opt0 g0 m
  have eA : (refInit A.lastGood A.opt A.gens : Ref Θ O G V T P) =
      refInit (refLoop pr n (refInit θ0 opt0 g0 : Ref Θ O G V T P)).θ
        (refLoop pr n (refInit θ0 opt0 g0 : Ref Θ O G V T P)).opt
        (refLoop pr n (refInit θ0 opt0 g0 : Ref Θ O G V T P)).gens := by
    show refInit (solve pr n θ0 opt0 g0 vs0).lastGood (solve pr n θ0 opt0 g0 vs0).opt
      (solve pr n θ0 opt0 g0 vs0).gens = _
    rw [a7', a2, a3]
  refine ⟨?_, ?_, ?_, ?_, ?_, ?_⟩
  · show (solve pr (n + m) θ0 opt0 g0 vs2).θ = (solve pr m A.lastGood A.opt A.gens vs1).θ
    rw [f1, b1, eA]; exact r1
  · show (solve pr (n + m) θ0 opt0 g0 vs2).opt = (solve pr m A.lastGood A.opt A.gens vs1).opt
    rw [f2, b2, eA]; exact r2
  · show (solve pr (n + m) θ0 opt0 g0 vs2).gens = (solve pr m A.lastGood A.opt A.gens vs1).gens
    rw [f3, b3, eA]; exact r3
  · show (solve pr (n + m) θ0 opt0 g0 vs2).lossH =
      (solve pr n θ0 opt0 g0 vs0).lossH ++ (solve pr m A.lastGood A.opt A.gens vs1).lossH
    rw [f4, b4, a4, eA]; exact r4
  · show (solve pr (n + m) θ0 opt0 g0 vs2).termH =
      (solve pr n θ0 opt0 g0 vs0).termH ++ (solve pr m A.lastGood A.opt A.gens vs1).termH
    rw [f5, b5, a5, eA]; exact r5
  · show (solve pr (n + m) θ0 opt0 g0 vs2).trackH =
      (solve pr n θ0 opt0 g0 vs0).trackH ++ (solve pr m A.lastGood A.opt A.gens vs1).trackH
    rw [f6, b6, a6, eA]; exact r6

/-! ### non-vacuity: a concrete program on integers -/

section Example
/-- SGD-like toy: θ ← θ − batch, optimizer state counts the steps, loss = θ·batch, one term θ+batch;
    batches 0,1,2,…; "NaN" is the sentinel 1000; a validation module that never stops. -/
def toy : Prog Int Nat Nat Int Int Int Int Nat Int :=
  { update := fun θ o b => ⟨θ - b, o + 1, θ * b, θ + b⟩,
    nextBatch := fun g => (g + 1, (g : Int)),
    isNaN := fun θ => θ == 1000,
    track := fun θ => 2 * θ,
    validate := fun v θ => ⟨v + 1, false, θ, true⟩,
    callEvery := 2, v0 := 0, t0 := 0, p0 := 0, c0 := 0 }

example : (solve toy 4 10 0 0 (some 0)).i = 4 := by decide
example : (solve toy 4 10 0 0 (some 0)).lossH = [0, 10, 18, 21] := by decide
example : (solve toy 4 10 0 0 (some 0)).trackH = [20, 18, 14, 8] := by decide
example : (refLoop toy 4 (refInit 10 0 0)).lossH = [0, 10, 18, 21] := by decide
example : (refLoop toy 4 (refInit 10 0 0)).θ = 4 ∧ (solve toy 4 10 0 0 none).lastGood = 4 := by decide
/-- the hypotheses of the theorems are met by this program -/
example : Unstopped toy 4 10 0 0 (some 0) :=
  unstopped_of_never_stop toy 4 10 0 0 (some 0) (by decide) (fun _ _ => rfl)
/-- resumption, concretely: 2 + 2 iterations = 4 iterations -/
example :
    (solve toy 2 (solve toy 2 10 0 0 none).lastGood (solve toy 2 10 0 0 none).opt
      (solve toy 2 10 0 0 none).gens none).lossH = [18, 21] := by decide
end Example

end Jinns.Solve
