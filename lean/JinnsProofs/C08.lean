/-
C08 — collocation points lie in the declared domain, with declared counts and shapes.
Property theorems about `JinnsModel/Domain.lean`, for all domains (`min ≤ max`, any sign, any
size), counts, batch sizes, sampler oracles honouring the contract, both methods, and **all
histories of `get_batch`** (through the C09 cursor machine and the C14 product).
-/
import JinnsModel.Domain
import JinnsModel.HoldsC08
import JinnsProofs.C09
import JinnsProofs.C14
import Mathlib.Tactic.Ring
import Mathlib.Tactic.Linarith
import Mathlib.Tactic.Positivity
import Mathlib.Algebra.Order.Field.Rat
import Mathlib.Algebra.Order.Field.Basic

namespace Jinns.Domain
open Jinns.Minibatch Jinns.Cartesian

/-! ### helper lemmas -/

theorem inIcc_iff (lo hi x : Rat) : inIcc lo hi x = true ↔ lo ≤ x ∧ x ≤ hi := by
  simp [inIcc]

theorem inBox_iff (mins maxs p : List Rat) :
    inBox mins maxs p = true ↔
      p.length = mins.length ∧
        ∀ i, i < mins.length → mins.getD i 0 ≤ p.getD i 0 ∧ p.getD i 0 ≤ maxs.getD i 0 := by
  simp [inBox, inIcc, List.all_eq_true]

theorem getD_map_range {β : Type} (f : Nat → β) (d i : Nat) (hi : i < d) (dflt : β) :
    ((List.range d).map f).getD i dflt = f i := by
  simp [List.getD_eq_getElem?_getD, hi]

/-- one grid value lies in `[lo, hi)` -/
theorem gridVal_mem (lo hi : Rat) (n k : Nat) (hk : k < n) (h : lo ≤ hi) :
    lo ≤ lo + (k : Rat) * ((hi - lo) / (n : Rat)) ∧ lo + (k : Rat) * ((hi - lo) / (n : Rat)) ≤ hi := by
  have hn : (0 : Rat) < n := by exact_mod_cast (by omega : 0 < n)
  have hk' : (k : Rat) ≤ n := by exact_mod_cast (by omega : k ≤ n)
  have hk0 : (0 : Rat) ≤ k := by positivity
  have hd : 0 ≤ (hi - lo) / (n : Rat) := div_nonneg (by linarith) hn.le
  constructor
  · have := mul_nonneg hk0 hd; linarith
  · have h1 : (k : Rat) * ((hi - lo) / n) ≤ n * ((hi - lo) / n) := mul_le_mul_of_nonneg_right hk' hd
    have h2 : (n : Rat) * ((hi - lo) / n) = hi - lo := by rw [mul_comm]; exact div_mul_cancel₀ _ hn.ne'
    linarith

theorem gridVal_lt_max (lo hi : Rat) (n k : Nat) (hk : k < n) (h : lo < hi) :
    lo + (k : Rat) * ((hi - lo) / (n : Rat)) < hi := by
  have hn : (0 : Rat) < n := by exact_mod_cast (by omega : 0 < n)
  have hk' : (k : Rat) < n := by exact_mod_cast hk
  have hd : 0 < (hi - lo) / (n : Rat) := div_pos (by linarith) hn
  have h1 : (k : Rat) * ((hi - lo) / n) < n * ((hi - lo) / n) := mul_lt_mul_of_pos_right hk' hd
  have h2 : (n : Rat) * ((hi - lo) / n) = hi - lo := by rw [mul_comm]; exact div_mul_cancel₀ _ hn.ne'
  linarith

/-! ### the grid method -/

/-- **The grid store has exactly `n` points** (for every `n`, every interval). -/
theorem gridStore_length (lo hi : Rat) (n : Nat) : (gridStore lo hi n).length = n := by
  simp [gridStore]

/-- The `k`-th grid point is `min + k·(max − min)/n`. -/
theorem gridStore_getElem (lo hi : Rat) (n k : Nat) (hk : k < n) :
    (gridStore lo hi n)[k]? = some (lo + (k : Rat) * ((hi - lo) / (n : Rat))) := by
  simp [gridStore, hk]

/-- **All grid points lie in the closed interval** … -/
theorem gridStore_mem (lo hi : Rat) (n : Nat) (h : lo ≤ hi) :
    ∀ v ∈ gridStore lo hi n, inIcc lo hi v = true := by
  intro v hv
  obtain ⟨k, hk, rfl⟩ := List.mem_map.1 hv
  exact (inIcc_iff _ _ _).2 (gridVal_mem lo hi n k (List.mem_range.1 hk) h)

/-- … in fact in `[min, max)`: the right end point is never a grid point. -/
theorem gridStore_lt_max (lo hi : Rat) (n : Nat) (h : lo < hi) :
    ∀ v ∈ gridStore lo hi n, v < hi := by
  intro v hv
  obtain ⟨k, hk, rfl⟩ := List.mem_map.1 hv
  exact gridVal_lt_max lo hi n k (List.mem_range.1 hk) h

theorem meshDigit_lt (m d a p : Nat) (hm : 0 < m) : meshDigit m d a p < m := Nat.mod_lt _ hm

/-- a multi-dimensional grid point lies in the box (any dimension, any `m > 0`) -/
theorem gridPoint_inBox (mins maxs : List Rat) (m d p : Nat) (hm : 0 < m ∨ d = 0)
    (hd : mins.length = d) (hle : ∀ i, i < d → mins.getD i 0 ≤ maxs.getD i 0) :
    inBox mins maxs (gridPoint mins maxs m d p) = true := by
  rw [inBox_iff]
  refine ⟨by simp [gridPoint, hd], ?_⟩
  intro i hi
  rw [hd] at hi
  rcases hm with hm | hd0
  · unfold gridPoint
    rw [getD_map_range _ d i hi]
    exact gridVal_mem _ _ m _ (meshDigit_lt m d _ p hm) (hle i hi)
  · omega

/-- **Grid interior store**: whenever the grid construction succeeds the store has exactly `n`
    points and all of them lie in the closed box — in every dimension. -/
theorem gridOmega_ok (mins maxs : List Rat) (n dim : Nat) (s : List (List Rat))
    (h : gridOmega mins maxs n dim = .ok s) (hd : mins.length = dim)
    (hle : ∀ i, i < dim → mins.getD i 0 ≤ maxs.getD i 0) :
    s.length = n ∧ ∀ p ∈ s, inBox mins maxs p = true := by
  unfold gridOmega at h
  by_cases h1 : dim = 1
  · rw [if_pos h1] at h
    injection h with h; subst h
    refine ⟨by simp [gridStore_length], ?_⟩
    intro p hp
    obtain ⟨v, hv, rfl⟩ := List.mem_map.1 hp
    have := (inIcc_iff _ _ _).1 (gridStore_mem _ _ n (hle 0 (by omega)) v hv)
    rw [inBox_iff]
    refine ⟨by simp [hd, h1], ?_⟩
    intro i hi
    have : i = 0 := by omega
    subst this
    simpa using this
  · rw [if_neg h1] at h
    by_cases h2 : roundSqrt n ^ dim ≠ n
    · simp [h2] at h
    · simp only [h2, if_false] at h
      injection h with h; subst h
      refine ⟨by simp, ?_⟩
      intro p hp
      obtain ⟨q, hq, rfl⟩ := List.mem_map.1 hp
      have hq' : q < n := List.mem_range.1 hq
      apply gridPoint_inBox mins maxs _ dim q _ hd hle
      by_cases hd0 : dim = 0
      · exact Or.inr hd0
      · left
        rcases Nat.eq_zero_or_pos (roundSqrt n) with hz | hpos
        · exfalso
          have : roundSqrt n ^ dim = n := by simpa using h2
          rw [hz, Nat.zero_pow (by omega)] at this
          omega
        · exact hpos

/-- In dimension ≥ 2 the grid construction is rejected (`TypeError` of the reshape) exactly when
    `round(sqrt n)^dim ≠ n`. -/
theorem gridOmega_reject_iff (mins maxs : List Rat) (n dim : Nat) (h1 : dim ≠ 1) :
    gridOmega mins maxs n dim = .error .typeError ↔ roundSqrt n ^ dim ≠ n := by
  unfold gridOmega
  rw [if_neg h1]
  by_cases h2 : roundSqrt n ^ dim ≠ n <;> simp [h2]

/-! ### the uniform method: the sampler contract -/

theorem uniformTimes_ok (tmin tmax : Rat) (nt : Nat) (o s : List Rat)
    (h : uniformTimes tmin tmax nt o = .ok s) :
    s = o ∧ s.length = nt ∧ ∀ t ∈ s, inIcc tmin tmax t = true := by
  unfold uniformTimes at h
  split at h
  · rename_i hc
    injection h with h; subst h
    exact ⟨rfl, hc.1, fun t ht => List.all_eq_true.1 hc.2 t ht⟩
  · cases h

theorem uniformOmega_ok (mins maxs : List Rat) (n : Nat) (o s : List (List Rat))
    (h : uniformOmega mins maxs n o = .ok s) :
    s = o ∧ s.length = n ∧ ∀ p ∈ s, inBox mins maxs p = true := by
  unfold uniformOmega at h
  split at h
  · rename_i hc
    injection h with h; subst h
    exact ⟨rfl, hc.1, fun t ht => List.all_eq_true.1 hc.2 t ht⟩
  · cases h

/-- **Time store** (`generate_time_data`): for both methods, whenever it is built it has exactly
    `nt` points, all in `[tmin, tmax]`; an unknown method is the `ValueError` branch. -/
theorem mkTimes_ok (method : String) (tmin tmax : Rat) (nt : Nat) (o s : List Rat)
    (hle : tmin ≤ tmax) (h : mkTimes method tmin tmax nt o = .ok s) :
    s.length = nt ∧ ∀ t ∈ s, inIcc tmin tmax t = true := by
  unfold mkTimes at h
  split at h
  · injection h with h; subst h
    exact ⟨gridStore_length _ _ _, gridStore_mem _ _ _ hle⟩
  · split at h
    · exact (uniformTimes_ok _ _ _ _ _ h).2
    · cases h

theorem mkTimes_reject (method : String) (tmin tmax : Rat) (nt : Nat) (o : List Rat)
    (h1 : method ≠ "grid") (h2 : method ≠ "uniform") :
    mkTimes method tmin tmax nt o = .error .valueError := by
  simp [mkTimes, h1, h2]

/-! ### every history of requests: the box invariant through the C09 machine -/

variable {α : Type}

/-- **Invariant**: if every point of the store satisfies `P` and so does every point of every
    oracle (reshuffled store), then every point of every batch ever served satisfies `P` — for any
    history, any epoch size `nEff` (with or without RAR), any batch size. -/
theorem run_batches_all (P : α → Prop) (nEff : Nat) (m : MB α) (hm : ∀ p ∈ m.store, P p)
    (os : List (List α)) (hos : ∀ o ∈ os, ∀ p ∈ o, P p) :
    ∀ bt ∈ (run nEff m os).2, ∀ p ∈ bt, P p := by
  induction os generalizing m with
  | nil => intro bt hbt; simp [run] at hbt
  | cons o os ih =>
    have ho : ∀ p ∈ o, P p := hos o List.mem_cons_self
    have hst : ∀ p ∈ (next nEff m o).1.store, P p := by
      by_cases hr : resets nEff m = true
      · rw [next_of_resets _ _ _ hr]; exact ho
      · have hr' : resets nEff m = false := by simpa using hr
        rw [next_of_not_resets _ _ _ hr']; exact hm
    have hbt1 : ∀ p ∈ (next nEff m o).2, P p := by
      intro p hp
      have hsub : (next nEff m o).2.Sublist (next nEff m o).1.store := by
        simp only [next]; exact slice_sublist _ _ _
      exact hst p (hsub.subset hp)
    intro bt hbt
    simp only [run, List.mem_cons] at hbt
    rcases hbt with rfl | hbt
    · exact hbt1
    · exact ih _ hst (fun o' ho' => hos o' (List.mem_cons_of_mem _ ho')) bt hbt

/-- **Declared batch shape** along any history: every batch has exactly `b` points as soon as the
    store (and every reshuffled store) has `n ≥ b` points. -/
theorem run_batches_length (nEff n : Nat) (m : MB α) (hm : m.store.length = n) (hb : m.b ≤ n)
    (os : List (List α)) (hos : ∀ o ∈ os, o.length = n) :
    ∀ bt ∈ (run nEff m os).2, bt.length = m.b := by
  induction os generalizing m with
  | nil => intro bt hbt; simp [run] at hbt
  | cons o os ih =>
    have ho : o.length = n := hos o List.mem_cons_self
    have hst : (next nEff m o).1.store.length = n ∧ (next nEff m o).1.b = m.b := by
      by_cases hr : resets nEff m = true
      · rw [next_of_resets _ _ _ hr]; exact ⟨ho, rfl⟩
      · have hr' : resets nEff m = false := by simpa using hr
        rw [next_of_not_resets _ _ _ hr']; exact ⟨hm, rfl⟩
    have hb1 : (next nEff m o).2.length = m.b := by
      have : (next nEff m o).2 = slice (next nEff m o).1.store (next nEff m o).1.idx (next nEff m o).1.b := by
        simp only [next]
      rw [this, slice_length _ _ _ (by rw [hst.1, hst.2]; exact hb), hst.2]
    intro bt hbt
    simp only [run, List.mem_cons] at hbt
    rcases hbt with rfl | hbt
    · exact hb1
    · rw [← hst.2]
      exact ih _ hst.1 (by rw [hst.2]; exact hb) (fun o' ho' => hos o' (List.mem_cons_of_mem _ ho')) bt hbt

/-- **C08 through C09**: with the PRNG contract of C09 (every reshuffle is a permutation of the
    store), every batch of every history has the declared size and contains only points of the
    initial store's domain. -/
theorem batches_of_perm_history (P : α → Prop) (store0 : List α) (b : Nat) (hb : b ≤ store0.length)
    (h0 : ∀ p ∈ store0, P p) (os : List (List α)) (hos : ∀ o ∈ os, o.Perm store0) :
    ∀ bt ∈ (run store0.length (init store0 b) os).2, bt.length = b ∧ ∀ p ∈ bt, P p := by
  intro bt hbt
  constructor
  · exact run_batches_length store0.length store0.length (init store0 b) rfl hb os
      (fun o ho => (hos o ho).length_eq) bt hbt
  · exact run_batches_all P store0.length (init store0 b) h0 os
      (fun o ho p hp => h0 p ((hos o ho).subset hp)) bt hbt

/-- The ODE generator end to end: store count, and every temporal batch of every history. -/
theorem ode_history (method : String) (tmin tmax : Rat) (nt bt : Nat) (o times : List Rat)
    (hle : tmin ≤ tmax) (h : mkTimes method tmin tmax nt o = .ok times) (hb : bt ≤ nt)
    (os : List (List Rat)) (hos : ∀ o ∈ os, o.Perm times) :
    times.length = nt ∧
    ∀ batch ∈ (run times.length (init times bt) os).2,
      batch.length = bt ∧ ∀ t ∈ batch, inIcc tmin tmax t = true := by
  have hk := mkTimes_ok method tmin tmax nt o times hle h
  exact ⟨hk.1, batches_of_perm_history _ times bt (by rw [hk.1]; exact hb) hk.2 os hos⟩


/-! ### the border -/

theorem all_getD {P : Rat → Bool} {l : List Rat} (h : l.all P = true) {r : Nat} (hr : r < l.length) :
    P (l.getD r 0) = true := by
  rw [List.getD_eq_getElem?_getD, List.getElem?_eq_getElem hr]
  exact List.all_eq_true.1 h _ (List.getElem_mem hr)

/-- **The border store has `nb / 4` rows**, i.e. `nb` points over the four facets. -/
theorem border2_length (mins maxs : List Rat) (fn : Nat) (u : List (List Rat)) :
    (border2 mins maxs fn u).length = fn := by
  simp [border2, stackLast]

/-- Row `r` of the border store, spelled out (coordinates × facets, facets in the order
    `xmin, xmax, ymin, ymax`). -/
theorem border2_row (mins maxs : List Rat) (fn : Nat) (u : List (List Rat)) (r : Nat) (hr : r < fn)
    (hu : ∀ f, f < 4 → (u.getD f []).length = fn) :
    (border2 mins maxs fn u)[r]? = some
      [[mins.getD 0 0, maxs.getD 0 0, (u.getD 2 []).getD r 0, (u.getD 3 []).getD r 0],
       [(u.getD 0 []).getD r 0, (u.getD 1 []).getD r 0, mins.getD 1 0, maxs.getD 1 0]] := by
  have h0 : r < (u[0]?.getD []).length := by
    have := hu 0 (by omega); simp only [List.getD_eq_getElem?_getD] at this; omega
  have h1 : r < (u[1]?.getD []).length := by
    have := hu 1 (by omega); simp only [List.getD_eq_getElem?_getD] at this; omega
  have h2 : r < (u[2]?.getD []).length := by
    have := hu 2 (by omega); simp only [List.getD_eq_getElem?_getD] at this; omega
  have h3 : r < (u[3]?.getD []).length := by
    have := hu 3 (by omega); simp only [List.getD_eq_getElem?_getD] at this; omega
  simp [border2, stackLast, hr, List.range_succ, List.getD_eq_getElem?_getD, h0, h1, h2, h3]

theorem border2Contract_iff (mins maxs : List Rat) (fn : Nat) (u : List (List Rat)) :
    border2Contract mins maxs fn u = true ↔
      u.length = 4 ∧ (∀ c ∈ u, c.length = fn) ∧
      (u.getD 0 []).all (inIcc (mins.getD 1 0) (maxs.getD 1 0)) = true ∧
      (u.getD 1 []).all (inIcc (mins.getD 1 0) (maxs.getD 1 0)) = true ∧
      (u.getD 2 []).all (inIcc (mins.getD 0 0) (maxs.getD 0 0)) = true ∧
      (u.getD 3 []).all (inIcc (mins.getD 0 0) (maxs.getD 0 0)) = true := by
  simp [border2Contract, and_assoc]

theorem border2Contract_lengths {mins maxs : List Rat} {fn : Nat} {u : List (List Rat)}
    (h : border2Contract mins maxs fn u = true) : ∀ f, f < 4 → (u.getD f []).length = fn := by
  obtain ⟨h4, hl, -⟩ := (border2Contract_iff _ _ _ _).1 h
  intro f hf
  rw [List.getD_eq_getElem?_getD, List.getElem?_eq_getElem (by omega)]
  exact hl _ (List.getElem_mem _)

/-- **Border points lie exactly on their facet, facets ordered `xmin, xmax, ymin, ymax`.**
    For every row `r` of the 2-D border store built from draws honouring the sampler contract:
    facet 0 is `(xmin, v)`, facet 1 is `(xmax, v)` with `v ∈ [ymin, ymax]`;
    facet 2 is `(w, ymin)`, facet 3 is `(w, ymax)` with `w ∈ [xmin, xmax]` —
    the pinned coordinate is *equal* to the bound, the free one is in range. -/
theorem border2_facet_points (mins maxs : List Rat) (fn : Nat) (u : List (List Rat))
    (hc : border2Contract mins maxs fn u = true) (r : Nat) (hr : r < fn) :
    ∃ row v0 v1 w2 w3, (border2 mins maxs fn u)[r]? = some row ∧
      facetPoint 0 row = [some (mins.getD 0 0), some v0] ∧ inIcc (mins.getD 1 0) (maxs.getD 1 0) v0 = true ∧
      facetPoint 1 row = [some (maxs.getD 0 0), some v1] ∧ inIcc (mins.getD 1 0) (maxs.getD 1 0) v1 = true ∧
      facetPoint 2 row = [some w2, some (mins.getD 1 0)] ∧ inIcc (mins.getD 0 0) (maxs.getD 0 0) w2 = true ∧
      facetPoint 3 row = [some w3, some (maxs.getD 1 0)] ∧ inIcc (mins.getD 0 0) (maxs.getD 0 0) w3 = true := by
  have hl := border2Contract_lengths hc
  obtain ⟨_, _, c0, c1, c2, c3⟩ := (border2Contract_iff _ _ _ _).1 hc
  refine ⟨_, (u.getD 0 []).getD r 0, (u.getD 1 []).getD r 0, (u.getD 2 []).getD r 0,
    (u.getD 3 []).getD r 0, border2_row mins maxs fn u r hr hl, ?_, ?_, ?_, ?_, ?_, ?_, ?_, ?_⟩
  · simp [facetPoint]
  · exact all_getD c0 (by rw [hl 0 (by omega)]; exact hr)
  · simp [facetPoint]
  · exact all_getD c1 (by rw [hl 1 (by omega)]; exact hr)
  · simp [facetPoint]
  · exact all_getD c2 (by rw [hl 2 (by omega)]; exact hr)
  · simp [facetPoint]
  · exact all_getD c3 (by rw [hl 3 (by omega)]; exact hr)

/-- The same as one decidable row predicate (`borderRowOk`: shape 2 × 4 and, for every facet `f`,
    coordinate `f / 2` equal to its bound — min for even `f`, max for odd — the other in range). -/
theorem border2_rows_ok (mins maxs : List Rat) (fn : Nat) (u : List (List Rat))
    (hc : border2Contract mins maxs fn u = true) (hd : mins.length = 2) :
    ∀ row ∈ border2 mins maxs fn u, borderRowOk mins maxs row = true := by
  intro row hrow
  obtain ⟨r, hr, hget⟩ := List.getElem_of_mem hrow
  rw [border2_length] at hr
  obtain ⟨row', v0, v1, w2, w3, hrow', -, h0, -, h1, -, h2, -, h3⟩ :=
    border2_facet_points mins maxs fn u hc r hr
  have hl := border2Contract_lengths hc
  have hrw := border2_row mins maxs fn u r hr hl
  rw [List.getElem?_eq_getElem (by rw [border2_length]; exact hr), hget] at hrw
  injection hrw with hrw
  have e0 := all_getD ((border2Contract_iff _ _ _ _).1 hc).2.2.1 (r := r) (by rw [hl 0 (by omega)]; exact hr)
  have e1 := all_getD ((border2Contract_iff _ _ _ _).1 hc).2.2.2.1 (r := r) (by rw [hl 1 (by omega)]; exact hr)
  have e2 := all_getD ((border2Contract_iff _ _ _ _).1 hc).2.2.2.2.1 (r := r) (by rw [hl 2 (by omega)]; exact hr)
  have e3 := all_getD ((border2Contract_iff _ _ _ _).1 hc).2.2.2.2.2 (r := r) (by rw [hl 3 (by omega)]; exact hr)
  subst hrw
  simp [borderRowOk, onFacet, facetPoint, hd, List.range_succ]
  refine ⟨?_, ?_, ?_, ?_⟩
  · simpa [List.getD_eq_getElem?_getD, hd] using e0
  · simpa [List.getD_eq_getElem?_getD, hd] using e1
  · simpa [List.getD_eq_getElem?_getD, hd] using e2
  · simpa [List.getD_eq_getElem?_getD, hd] using e3

/-- In 1-D the border "batch" is the pair of end points `(xmin, xmax)`, and it is a valid border
    row: facet 0 pinned to `xmin`, facet 1 pinned to `xmax`. -/
theorem border1d_row_ok (xmin xmax : Rat) :
    borderBatch1d xmin xmax = [[[xmin, xmax]]] ∧ borderRowOk [xmin] [xmax] [[xmin, xmax]] = true := by
  refine ⟨rfl, ?_⟩
  simp [borderRowOk, onFacet, facetPoint, List.range_succ]

/-! ### the constructors: rejections are exactly the guards of the code -/

/-- `dim ≥ 2`, border batch requested, `nb` given: accepted **iff** `nb` is a positive multiple of
    `2·dim` with at least `bb` points per facet; the stored `nb` is then `nb` itself. -/
theorem borderParams_ok_iff (dim nbv bbv : Nat) (hd : 2 ≤ dim) (r : Option Nat × Option Nat) :
    borderParams dim (some nbv) (some bbv) = .ok r ↔
      (nbv % (2 * dim) = 0 ∧ 2 * dim ≤ nbv ∧ bbv ≤ nbv / (2 * dim)) ∧ r = (some nbv, some bbv) := by
  unfold borderParams
  have h1 : dim ≠ 1 := by omega
  have h0 : dim ≠ 0 := by omega
  simp only [h1, h0, if_false]
  by_cases hA : nbv % (2 * dim) ≠ 0 ∨ nbv < 2 * dim
  · rw [if_pos hA]
    constructor
    · intro h; cases h
    · rintro ⟨⟨a, b, -⟩, -⟩; omega
  · rw [if_neg hA]
    by_cases hB : nbv / (2 * dim) < bbv
    · rw [if_pos hB]
      constructor
      · intro h; cases h
      · rintro ⟨⟨-, -, c⟩, -⟩; omega
    · rw [if_neg hB]
      have hdiv : 2 * dim * (nbv / (2 * dim)) = nbv :=
        Nat.mul_div_cancel' (Nat.dvd_of_mod_eq_zero (by omega))
      rw [hdiv]
      constructor
      · intro h; injection h with h; exact ⟨⟨by omega, by omega, by omega⟩, h.symm⟩
      · rintro ⟨-, rfl⟩; rfl

/-- … and **rejected with `ValueError`** otherwise (`nb` not a multiple of `2·dim`, fewer than one
    point per facet, or fewer points per facet than the border batch size). -/
theorem borderParams_reject (dim nbv bbv : Nat) (hd : 2 ≤ dim)
    (h : nbv % (2 * dim) ≠ 0 ∨ nbv < 2 * dim ∨ nbv / (2 * dim) < bbv) :
    borderParams dim (some nbv) (some bbv) = .error .valueError := by
  unfold borderParams
  have h1 : dim ≠ 1 := by omega
  have h0 : dim ≠ 0 := by omega
  simp only [h1, h0, if_false]
  by_cases hA : nbv % (2 * dim) ≠ 0 ∨ nbv < 2 * dim
  · rw [if_pos hA]
  · rw [if_neg hA, if_pos (by omega)]

/-- the remaining branches: no border batch size ⇒ no border; 1-D ⇒ `nb = bb = 2` whatever was
    asked; `nb = None` with a border batch size in dimension ≠ 1 ⇒ `TypeError`. -/
theorem borderParams_other (dim : Nat) (nb : Option Nat) (bbv : Nat) :
    borderParams dim nb none = .ok (none, none) ∧
    borderParams 1 nb (some bbv) = .ok (some 2, some 2) ∧
    (dim ≠ 1 → borderParams dim none (some bbv) = .error .typeError) := by
  refine ⟨rfl, rfl, fun h => ?_⟩
  simp [borderParams, h]

/-- What a successful `CubicMeshPDEStatio.__post_init__` went through. -/
theorem mkStatio_ok {a : StatioArgs} {o : StatioOracle} {s : Statio} (h : mkStatio a o = .ok s) :
    a.dim = a.mins.length ∧ a.dim = a.maxs.length ∧ s.args = a ∧
    borderParams a.dim a.nb a.bb = .ok (s.nb, s.bb) ∧
    mkOmega a o.omega = .ok s.omega ∧ mkBorder a s.nb s.bb o.border = .ok s.border := by
  unfold mkStatio at h
  split at h
  · cases h
  · rename_i hdim
    cases hbp : borderParams a.dim a.nb a.bb with
    | error e => simp [hbp, bind, Except.bind] at h
    | ok r =>
      obtain ⟨nb, bb⟩ := r
      cases hom : mkOmega a o.omega with
      | error e => simp [hbp, hom, bind, Except.bind] at h
      | ok om =>
        cases hbd : mkBorder a nb bb o.border with
        | error e => simp [hbp, hom, hbd, bind, Except.bind] at h
        | ok bd =>
          simp [hbp, hom, hbd, bind, Except.bind, pure, Except.pure] at h
          subst h
          exact ⟨by omega, by omega, rfl, rfl, rfl, hbd⟩

/-- The constructor's assertion on the lengths of `min_pts` / `max_pts`. -/
theorem mkStatio_assert (a : StatioArgs) (o : StatioOracle)
    (h : a.dim ≠ a.mins.length ∨ a.dim ≠ a.maxs.length) : mkStatio a o = .error .assertionError := by
  unfold mkStatio; rw [if_pos h]

/-- **Interior store**: built ⇒ exactly `n` points, all in the closed box (both methods, any dim). -/
theorem mkOmega_ok (a : StatioArgs) (o s : List (List Rat)) (h : mkOmega a o = .ok s)
    (hd : a.mins.length = a.dim) (hle : ∀ i, i < a.dim → a.mins.getD i 0 ≤ a.maxs.getD i 0) :
    s.length = a.n ∧ ∀ p ∈ s, inBox a.mins a.maxs p = true := by
  unfold mkOmega at h
  split at h
  · split at h
    · cases h
    · exact gridOmega_ok _ _ _ _ _ h hd hle
  · split at h
    · split at h
      · cases h
      · exact (uniformOmega_ok _ _ _ _ _ h).2
    · cases h

theorem mkOmega_reject_method (a : StatioArgs) (o : List (List Rat))
    (h1 : a.method ≠ "grid") (h2 : a.method ≠ "uniform") : mkOmega a o = .error .valueError := by
  simp [mkOmega, h1, h2]

/-- what `mkBorder` guarantees of the store it builds -/
def BorderBuilt (a : StatioArgs) (nb bb : Option Nat) : BorderStore → Prop
  | .absent => bb = none
  | .ends x0 x1 => a.dim = 1 ∧ x0 = a.mins.getD 0 0 ∧ x1 = a.maxs.getD 0 0
  | .facets rows => a.dim = 2 ∧ rows.length = nb.getD 0 / 4 ∧
      ∀ row ∈ rows, borderRowOk a.mins a.maxs row = true

/-- what a successful constructor guarantees of its border store (with the declared `nb`) -/
def BorderDeclared (a : StatioArgs) (s : Statio) : BorderStore → Prop
  | .absent => a.bb = none
  | .ends x0 x1 => a.dim = 1 ∧ x0 = a.mins.getD 0 0 ∧ x1 = a.maxs.getD 0 0
  | .facets rows => a.dim = 2 ∧ (∃ nbv bbv, a.nb = some nbv ∧ a.bb = some bbv ∧ s.nb = some nbv ∧
      4 * rows.length = nbv ∧ bbv ≤ rows.length) ∧
      ∀ row ∈ rows, borderRowOk a.mins a.maxs row = true

/-- **Border store**: absent iff no border batch size; the two end points in 1-D; in 2-D `nb / 4`
    rows whose every facet point lies exactly on its facet; `NotImplementedError` above. -/
theorem mkBorder_ok (a : StatioArgs) (nb bb : Option Nat) (u : List (List Rat)) (bs : BorderStore)
    (h : mkBorder a nb bb u = .ok bs) (hd : a.mins.length = a.dim) :
    BorderBuilt a nb bb bs := by
  unfold mkBorder at h
  cases bb with
  | none => simp at h; subst h; rfl
  | some bbv =>
    simp only at h
    split at h
    · rename_i h1; injection h with h; subst h; exact ⟨h1, rfl, rfl⟩
    · split at h
      · rename_i h2
        split at h
        · rename_i hc
          injection h with h; subst h
          exact ⟨h2, border2_length _ _ _ _, border2_rows_ok _ _ _ _ hc (by omega)⟩
        · cases h
      · cases h

theorem mkBorder_not_implemented (a : StatioArgs) (nb : Option Nat) (bbv : Nat) (u : List (List Rat))
    (h : 2 < a.dim) : mkBorder a nb (some bbv) u = .error .notImplemented := by
  have h1 : a.dim ≠ 1 := by omega
  have h2 : a.dim ≠ 2 := by omega
  simp [mkBorder, h1, h2]

/-- **C08 for the stationary generator, stores**: whenever the constructor succeeds, `omega` has
    exactly `n` points all in the box, and the border is absent / `(xmin, xmax)` / exactly `nb`
    points (`nb / 4` rows × 4 facets, `nb` the validated multiple of 4) each exactly on its facet. -/
theorem statio_stores {a : StatioArgs} {o : StatioOracle} {s : Statio} (h : mkStatio a o = .ok s)
    (hle : ∀ i, i < a.dim → a.mins.getD i 0 ≤ a.maxs.getD i 0) :
    s.omega.length = a.n ∧ (∀ p ∈ s.omega, inBox a.mins a.maxs p = true) ∧
    BorderDeclared a s s.border := by
  obtain ⟨hd1, _, _, hbp, hom, hbd⟩ := mkStatio_ok h
  have hom' := mkOmega_ok a o.omega s.omega hom hd1.symm hle
  refine ⟨hom'.1, hom'.2, ?_⟩
  have hb := mkBorder_ok a s.nb s.bb o.border s.border hbd hd1.symm
  cases hbs : s.border with
  | absent =>
    rw [hbs] at hb; simp only [BorderBuilt] at hb
    show a.bb = none
    cases hbb : a.bb with
    | none => rfl
    | some bbv =>
      exfalso
      rw [hbb] at hbp
      unfold borderParams at hbp
      simp only at hbp
      split at hbp
      · injection hbp with hbp; rw [hb] at hbp; simp at hbp
      · cases hnb : a.nb with
        | none => rw [hnb] at hbp; simp at hbp
        | some nbv =>
          rw [hnb] at hbp; simp only at hbp
          split at hbp
          · cases hbp
          · split at hbp
            · cases hbp
            · split at hbp
              · cases hbp
              · injection hbp with hbp; rw [hb] at hbp; simp at hbp
  | ends x0 x1 => rw [hbs] at hb; exact hb
  | facets rows =>
    rw [hbs] at hb; simp only [BorderBuilt] at hb
    obtain ⟨h2, hlen, hrows⟩ := hb
    show a.dim = 2 ∧ _ ∧ _
    refine ⟨h2, ?_, hrows⟩
    cases hbb : a.bb with
    | none =>
      rw [hbb] at hbp
      have : (s.nb, s.bb) = (none, none) := by
        have := (borderParams_other a.dim a.nb 0).1; rw [this] at hbp; injection hbp with hbp; exact hbp.symm
      have hsbb : s.bb = none := by injection this
      unfold mkBorder at hbd; rw [hsbb] at hbd; simp at hbd; rw [hbs] at hbd; cases hbd
    | some bbv =>
      cases hnb : a.nb with
      | none =>
        rw [hbb, hnb, (borderParams_other a.dim none bbv).2.2 (by omega)] at hbp; cases hbp
      | some nbv =>
        rw [hbb, hnb] at hbp
        obtain ⟨⟨hm, hge, hbbv⟩, hr⟩ := (borderParams_ok_iff a.dim nbv bbv (by omega) _).1 hbp
        have hsnb : s.nb = some nbv := by injection hr
        refine ⟨nbv, bbv, rfl, rfl, hsnb, ?_, ?_⟩
        · rw [hlen, hsnb]; simp only [Option.getD_some]; rw [h2] at hm; omega
        · rw [hlen, hsnb]; simp only [Option.getD_some]; rw [h2] at hbbv; exact hbbv

/-- **C08 for the stationary generator, every history of `get_batch`**: every interior batch has
    `b` points all in the box; every (2-D) border batch has `bb` rows each of which has all its
    facet points exactly on their facets. -/
theorem statio_history {a : StatioArgs} {o : StatioOracle} {s : Statio} (h : mkStatio a o = .ok s)
    (hle : ∀ i, i < a.dim → a.mins.getD i 0 ≤ a.maxs.getD i 0) (hb : a.b ≤ a.n)
    (os : List (List (List Rat))) (hos : ∀ o ∈ os, o.Perm s.omega) :
    (∀ bt ∈ (run s.omega.length (init s.omega a.b) os).2,
        bt.length = a.b ∧ ∀ p ∈ bt, inBox a.mins a.maxs p = true) ∧
    (∀ rows bbv, s.border = .facets rows → a.bb = some bbv →
      ∀ obs : List (List (List (List Rat))), (∀ o ∈ obs, o.Perm rows) →
        ∀ bt ∈ (run rows.length (init rows bbv) obs).2,
          bt.length = bbv ∧ ∀ row ∈ bt, borderRowOk a.mins a.maxs row = true) := by
  have hs := statio_stores h hle
  refine ⟨batches_of_perm_history _ s.omega a.b (by rw [hs.1]; exact hb) hs.2.1 os hos, ?_⟩
  intro rows bbv hrows hbb obs hobs
  have hb2 := hs.2.2
  rw [hrows] at hb2
  simp only [BorderDeclared] at hb2
  obtain ⟨-, ⟨nbv, bbv', -, hbb', -, -, hle'⟩, hok⟩ := hb2
  have : bbv' = bbv := by rw [hbb] at hbb'; injection hbb' with e; exact e.symm
  subst this
  exact batches_of_perm_history (fun row => borderRowOk a.mins a.maxs row = true) rows bbv' hle' hok obs hobs

/-! ### space-time batches (C14's product): every row is in the domain -/

theorem mem_cartesian_col (ts : List α) (xs : List (List α)) (row : List α)
    (h : row ∈ cartesian (col ts) xs) : ∃ t ∈ ts, ∃ x ∈ xs, row = t :: x := by
  rw [cartesian_eq_flatMap] at h
  obtain ⟨tr, htr, hrow⟩ := List.mem_flatMap.1 h
  obtain ⟨x, hx, rfl⟩ := List.mem_map.1 hrow
  obtain ⟨t, ht, rfl⟩ := List.mem_map.1 htr
  exact ⟨t, ht, x, hx, rfl⟩

theorem mem_paired {β : Type} (as bs : List (List β)) (row : List β) (h : row ∈ paired as bs) :
    ∃ a ∈ as, ∃ b ∈ bs, row = a ++ b := by
  unfold paired at h
  induction as generalizing bs with
  | nil => simp at h
  | cons a as ih =>
    cases bs with
    | nil => simp at h
    | cons b bs =>
      simp only [List.zipWith_cons_cons, List.mem_cons] at h
      rcases h with rfl | h
      · exact ⟨a, List.mem_cons_self, b, List.mem_cons_self, rfl⟩
      · obtain ⟨a', ha', b', hb', e⟩ := ih bs h
        exact ⟨a', List.mem_cons_of_mem _ ha', b', List.mem_cons_of_mem _ hb', e⟩

theorem mem_cartesian {β : Type} (as bs : List (List β)) (row : List β) (h : row ∈ cartesian as bs) :
    ∃ a ∈ as, ∃ b ∈ bs, row = a ++ b := by
  rw [cartesian_eq_flatMap] at h
  obtain ⟨a, ha, hrow⟩ := List.mem_flatMap.1 h
  obtain ⟨b, hb, rfl⟩ := List.mem_map.1 hrow
  exact ⟨a, ha, b, hb, rfl⟩

/-- **Rows of the space-time batches** built by `get_batch` from factor batches whose times satisfy
    `PT`, points `PX` and border rows `PB`: every interior row is `(t, x…)` with `PT t`, `PX x`;
    every border row is the time replicated over the facets followed by a border row. -/
theorem combine_rows (cart : Bool) (dim : Nat) (x : List (List Rat)) (dx : Option (List (List (List Rat))))
    (t : List Rat) (PT : Rat → Prop) (PX : List Rat → Prop) (PB : List (List Rat) → Prop)
    (ht : ∀ v ∈ t, PT v) (hx : ∀ p ∈ x, PX p) (hdx : ∀ d, dx = some d → ∀ r ∈ d, PB r) :
    (∀ row ∈ (combine cart dim x dx t).1, ∃ v p, row = v :: p ∧ PT v ∧ PX p) ∧
    (∀ td, (combine cart dim x dx t).2 = some td →
      ∀ row ∈ td, ∃ v r F, row = List.replicate F v :: r ∧ PT v ∧ PB r) := by
  constructor
  · intro row hrow
    simp only [combine] at hrow
    have : ∃ a ∈ col t, ∃ b ∈ x, row = a ++ b := by
      split at hrow
      · exact mem_cartesian _ _ _ hrow
      · exact mem_paired _ _ _ hrow
    obtain ⟨a, ha, b, hb, rfl⟩ := this
    obtain ⟨v, hv, rfl⟩ := List.mem_map.1 ha
    exact ⟨v, b, rfl, ht v hv, hx b hb⟩
  · intro td htd row hrow
    simp only [combine] at htd
    cases hd : dx with
    | none => rw [hd] at htd; simp at htd
    | some d =>
      rw [hd] at htd
      simp only [Option.map_some, Option.some.injEq] at htd
      have : ∃ a ∈ timeRep (facetCount d) t, ∃ b ∈ d, row = a ++ b := by
        subst htd
        split at hrow
        · exact mem_cartesian _ _ _ hrow
        · exact mem_paired _ _ _ hrow
      obtain ⟨a, ha, b, hb, rfl⟩ := this
      obtain ⟨v, hv, rfl⟩ := List.mem_map.1 ha
      exact ⟨v, b, facetCount d, rfl, ht v hv, hdx d hd b hb⟩

/-- `P` holds on every row of the border part of the state. -/
def Border.All (PB : List (List Rat) → Prop) : Border Rat → Prop
  | .absent => True
  | .fixed1d e => PB [e]
  | .facets m => ∀ r ∈ m.store, PB r

theorem next_all (P : α → Prop) (nEff : Nat) (m : MB α) (o : List α) (hm : ∀ p ∈ m.store, P p)
    (ho : ∀ p ∈ o, P p) :
    (∀ p ∈ (next nEff m o).1.store, P p) ∧ (∀ p ∈ (next nEff m o).2, P p) := by
  have hst : ∀ p ∈ (next nEff m o).1.store, P p := by
    by_cases hr : resets nEff m = true
    · rw [next_of_resets _ _ _ hr]; exact ho
    · have hr' : resets nEff m = false := by simpa using hr
      rw [next_of_not_resets _ _ _ hr']; exact hm
  refine ⟨hst, fun p hp => ?_⟩
  have hsub : (next nEff m o).2.Sublist (next nEff m o).1.store := by
    simp only [next]; exact slice_sublist _ _ _
  exact hst p (hsub.subset hp)

/-- **C08 for the non-stationary generator, every history of `get_batch`**: if the three stores
    start inside the domain and every oracle (reshuffled store) stays inside it, then in every
    batch ever returned every interior row is `(t, x…)` with `t` in the time domain and `x` in the
    space domain, and every border row is `(t…t, border row)` with the border row on its facets. -/
theorem nonstatio_history (PT : Rat → Prop) (PX : List Rat → Prop) (PB : List (List Rat) → Prop)
    (nO nB nT : Nat) (g : NS Rat)
    (hO : ∀ p ∈ g.omega.store, PX p) (hT : ∀ v ∈ g.times.store, PT v) (hB : Border.All PB g.border)
    (os : List (List (List Rat) × List (List (List Rat)) × List Rat))
    (hos : ∀ o ∈ os, (∀ p ∈ o.1, PX p) ∧ (∀ r ∈ o.2.1, PB r) ∧ (∀ v ∈ o.2.2, PT v)) :
    ∀ bt ∈ (runNS nO nB nT g os).2,
      (∀ row ∈ bt.1, ∃ v p, row = v :: p ∧ PT v ∧ PX p) ∧
      (∀ td, bt.2 = some td → ∀ row ∈ td, ∃ v r F, row = List.replicate F v :: r ∧ PT v ∧ PB r) := by
  induction os generalizing g with
  | nil => intro bt hbt; simp [runNS] at hbt
  | cons o os ih =>
    obtain ⟨hoX, hoB, hoT⟩ := hos o List.mem_cons_self
    have hx := next_all PX nO g.omega o.1 hO hoX
    have ht := next_all PT nT g.times o.2.2 hT hoT
    have hb : Border.All PB (Border.next nB g.border o.2.1).1 ∧
        ∀ d, (Border.next nB g.border o.2.1).2 = some d → ∀ r ∈ d, PB r := by
      cases hg : g.border with
      | absent => simp [Border.next, Border.All]
      | fixed1d e =>
        rw [hg] at hB
        simp only [Border.next, Border.All, Option.some.injEq]
        refine ⟨hB, ?_⟩
        rintro d rfl r hr
        simp only [List.mem_singleton] at hr
        subst hr; exact hB
      | facets m =>
        rw [hg] at hB
        have := next_all PB nB m o.2.1 hB hoB
        simp only [Border.next, Border.All, Option.some.injEq]
        refine ⟨this.1, ?_⟩
        rintro d rfl; exact this.2
    intro bt hbt
    simp only [runNS, List.mem_cons] at hbt
    rcases hbt with rfl | hbt
    · simp only [getBatch]
      exact combine_rows g.cart g.dim _ _ _ PT PX PB ht.2 hx.2 hb.2
    · exact ih (getBatch nO nB nT g o).1 (by simpa [getBatch] using hx.1) (by simpa [getBatch] using ht.1)
        (by simpa [getBatch] using hb.1) (fun o' ho' => hos o' (List.mem_cons_of_mem _ ho')) bt hbt

/-- What a successful `CubicMeshPDENonStatio.__post_init__` went through: the stationary part, the
    pairing guard of C14, and a time store with exactly `nt` points in `[tmin, tmax]`. -/
theorem mkNonStatio_ok {a : StatioArgs} {cart : Bool} {bt nt : Nat} {tmin tmax : Rat} {o : StatioOracle}
    {ot : List Rat} {g : NonStatio} (hle : tmin ≤ tmax)
    (h : mkNonStatio a cart bt nt tmin tmax o ot = .ok g) :
    mkStatio a o = .ok g.statio ∧ pairingGuard cart a.dim bt a.b g.statio.bb = .ok () ∧
    g.times.length = nt ∧ ∀ t ∈ g.times, inIcc tmin tmax t = true := by
  unfold mkNonStatio at h
  cases hs : mkStatio a o with
  | error e => simp [hs, bind, Except.bind] at h
  | ok s =>
    simp only [hs, bind, Except.bind] at h
    cases hg : pairingGuard cart a.dim bt a.b s.bb with
    | error e => simp [hg] at h
    | ok u =>
      simp only [hg] at h
      cases ht : mkTimes a.method tmin tmax nt ot with
      | error e => simp [ht] at h
      | ok times =>
        simp [ht, pure, Except.pure] at h
        subst h
        exact ⟨rfl, hg, mkTimes_ok _ _ _ _ _ _ hle ht⟩

/-! ### RAR set-up: the whole pre-allocated store, and every batch of any epoch size -/

theorem rarStart_spec (rar : Bool) (n : Nat) (nStart : Option Nat) :
    (rar = false → rarStart rar n nStart = .ok n) ∧
    (rar = true → nStart = none → rarStart rar n nStart = .error .valueError) ∧
    (rar = true → ∀ s, nStart = some s → rarStart rar n nStart = .ok s) := by
  refine ⟨fun h => by simp [rarStart, h], fun h h2 => by simp [rarStart, h, h2],
    fun h s h2 => by simp [rarStart, h, h2]⟩

/-- With or without RAR the constructed generator is the same one: **all `n` pre-allocated points**
    (active or not) are built by `mkStatio`, so `statio_stores` applies to the whole store; only the
    epoch size of the cursor changes. -/
theorem mkStatioRar_ok {a : StatioArgs} {rar : Bool} {nStart : Option Nat} {o : StatioOracle}
    {s : Statio} {nEff : Nat} (h : mkStatioRar a rar nStart o = .ok (s, nEff)) :
    mkStatio a o = .ok s ∧ rarStart rar a.n nStart = .ok nEff := by
  unfold mkStatioRar at h
  split at h
  · cases h
  · cases hr : rarStart rar a.n nStart with
    | error e => simp [hr] at h
    | ok k =>
      cases hs : mkStatio a o with
      | error e => simp [hr, hs] at h
      | ok s' =>
        simp [hr, hs] at h
        obtain ⟨rfl, rfl⟩ := h
        exact ⟨rfl, rfl⟩

theorem mkTimesRar_ok {method : String} {tmin tmax : Rat} {nt : Nat} {rar : Bool} {ntStart : Option Nat}
    {o times : List Rat} {ntEff : Nat} (h : mkTimesRar method tmin tmax nt rar ntStart o = .ok (times, ntEff)) :
    mkTimes method tmin tmax nt o = .ok times ∧ rarStart rar nt ntStart = .ok ntEff := by
  unfold mkTimesRar at h
  cases hr : rarStart rar nt ntStart with
  | error e => simp [hr] at h
  | ok k =>
    cases hs : mkTimes method tmin tmax nt o with
    | error e => simp [hr, hs] at h
    | ok t' =>
      simp [hr, hs] at h
      obtain ⟨rfl, rfl⟩ := h
      exact ⟨rfl, rfl⟩

/-- **Every batch of every history, for ANY epoch size `nEff`** (in particular RAR's
    `n_start + k·selected`, whether or not the batch size divides it, so including the fixed-size
    slice that runs past the active points): `b` points, all of the domain — because the whole
    pre-allocated store is in the domain and reshuffles permute it. -/
theorem batches_any_epoch_size (P : α → Prop) (nEff : Nat) (store0 : List α) (b : Nat)
    (hb : b ≤ store0.length) (h0 : ∀ p ∈ store0, P p) (os : List (List α))
    (hos : ∀ o ∈ os, o.Perm store0) :
    ∀ bt ∈ (run nEff (init store0 b) os).2, bt.length = b ∧ ∀ p ∈ bt, P p := by
  intro bt hbt
  constructor
  · exact run_batches_length nEff store0.length (init store0 b) rfl hb os
      (fun o ho => (hos o ho).length_eq) bt hbt
  · exact run_batches_all P nEff (init store0 b) h0 os
      (fun o ho p hp => h0 p ((hos o ho).subset hp)) bt hbt

/-- The stationary generator built WITH the RAR set-up: the whole store is in the box and so is
    every interior batch of every history, for its epoch size `n_eff = n_start`. -/
theorem statio_rar_history {a : StatioArgs} {rar : Bool} {nStart : Option Nat} {o : StatioOracle}
    {s : Statio} {nEff : Nat} (h : mkStatioRar a rar nStart o = .ok (s, nEff))
    (hle : ∀ i, i < a.dim → a.mins.getD i 0 ≤ a.maxs.getD i 0) (hb : a.b ≤ a.n)
    (os : List (List (List Rat))) (hos : ∀ o ∈ os, o.Perm s.omega) :
    s.omega.length = a.n ∧ (∀ p ∈ s.omega, inBox a.mins a.maxs p = true) ∧
    ∀ bt ∈ (run nEff (init s.omega a.b) os).2,
      bt.length = a.b ∧ ∀ p ∈ bt, inBox a.mins a.maxs p = true := by
  have hs := statio_stores (mkStatioRar_ok h).1 hle
  exact ⟨hs.1, hs.2.1,
    batches_any_epoch_size _ nEff s.omega a.b (by rw [hs.1]; exact hb) hs.2.1 os hos⟩

/-- … and the ODE generator built with the RAR set-up. -/
theorem ode_rar_history {method : String} {tmin tmax : Rat} {nt bt : Nat} {rar : Bool}
    {ntStart : Option Nat} {o times : List Rat} {ntEff : Nat} (hle : tmin ≤ tmax)
    (h : mkTimesRar method tmin tmax nt rar ntStart o = .ok (times, ntEff)) (hb : bt ≤ nt)
    (os : List (List Rat)) (hos : ∀ o ∈ os, o.Perm times) :
    times.length = nt ∧ (∀ t ∈ times, inIcc tmin tmax t = true) ∧
    ∀ batch ∈ (run ntEff (init times bt) os).2,
      batch.length = bt ∧ ∀ t ∈ batch, inIcc tmin tmax t = true := by
  have hk := mkTimes_ok method tmin tmax nt o times hle (mkTimesRar_ok h).1
  exact ⟨hk.1, hk.2, batches_any_epoch_size _ ntEff times bt (by rw [hk.1]; exact hb) hk.2 os hos⟩

/-! ### the model satisfies `Holds.C08` (interior / time clauses) -/

open Jinns.Holds in
theorem holdsPoints_of_box (what : String) (mins maxs : List Rat) (cnt : Nat) (ps : List (List Rat))
    (hc : ps.length = cnt) (hb : ∀ p ∈ ps, inBox mins maxs p = true) :
    c08Points what mins maxs cnt ps = none := by
  have e : c08InBox = inBox := rfl
  unfold c08Points
  rw [if_neg (by simp [hc])]
  have hshape : (ps.all fun p => p.length == mins.length) = true := by
    rw [List.all_eq_true]; intro p hp
    have := ((inBox_iff _ _ _).1 (hb p hp)).1
    simp [this]
  have hbox : ps.all (c08InBox mins maxs) = true := by
    rw [e, List.all_eq_true]; exact hb
  simp [hshape, hbox]

open Jinns.Holds in
theorem holdsTimes_of_interval (what : String) (tmin tmax : Rat) (cnt : Nat) (ts : List Rat)
    (hc : ts.length = cnt) (hb : ∀ t ∈ ts, inIcc tmin tmax t = true) :
    c08Times what tmin tmax cnt ts = none := by
  have e : c08InIcc = inIcc := rfl
  unfold c08Times
  rw [if_neg (by simp [hc])]
  have : ts.all (c08InIcc tmin tmax) = true := by rw [e, List.all_eq_true]; exact hb
  simp [this]

open Jinns.Holds in
theorem c08First_eq_none (l : List (Option String)) (h : ∀ x ∈ l, x = none) : c08First l = none := by
  induction l with
  | nil => rfl
  | cons a r ih =>
    have ha := h a List.mem_cons_self
    subst ha
    exact ih (fun x hx => h x (List.mem_cons_of_mem _ hx))

open Jinns.Holds in
/-- **`Holds.C08` is true of the whole trace of the ODE model**: the store and every temporal batch
    of every history, for every oracle sequence honouring the PRNG contract. -/
theorem ode_history_holds (method : String) (tmin tmax : Rat) (nt bt : Nat) (o times : List Rat)
    (hle : tmin ≤ tmax) (h : mkTimes method tmin tmax nt o = .ok times) (hb : bt ≤ nt)
    (os : List (List Rat)) (hos : ∀ o ∈ os, o.Perm times) :
    holdsC08Ode tmin tmax nt bt times (run times.length (init times bt) os).2 = none := by
  have hk := mkTimes_ok method tmin tmax nt o times hle h
  have hh := ode_history method tmin tmax nt bt o times hle h hb os hos
  unfold holdsC08Ode
  apply c08First_eq_none
  intro x hx
  simp only [List.mem_cons, List.mem_map] at hx
  rcases hx with rfl | ⟨batch, hbatch, rfl⟩
  · exact holdsTimes_of_interval _ _ _ _ _ hk.1 hk.2
  · exact holdsTimes_of_interval _ _ _ _ _ (hh.2 batch hbatch).1 (hh.2 batch hbatch).2

/-! ### non-vacuity -/

example : roundSqrt 9 = 3 ∧ roundSqrt 7 = 3 ∧ roundSqrt 6 = 2 ∧ roundSqrt 5 = 2 := by decide
example : (List.range 4).map (fun p => (meshDigit 2 2 (xySwap 0) p, meshDigit 2 2 (xySwap 1) p))
    = [(0, 0), (1, 0), (0, 1), (1, 1)] := by decide
example : rarStart true 8 (some 3) = .ok 3 ∧ rarStart true 8 none = .error .valueError ∧
    rarStart false 8 (some 3) = .ok 8 := by decide
example : borderParams 2 (some 8) (some 2) = .ok (some 8, some 2) := by decide
example : borderParams 2 (some 6) (some 1) = .error .valueError := by decide
example : borderParams 2 (some 8) (some 3) = .error .valueError := by decide
example : borderParams 3 none (some 1) = .error .typeError := by decide
example : (gridStore (-2) 1 4).length = 4 := gridStore_length _ _ _
example : ∀ v ∈ gridStore (-2) 1 4, inIcc (-2) 1 v = true := gridStore_mem _ _ _ (by norm_num)
example : ∃ s, mkTimes "grid" 0 1 4 [] = .ok s := ⟨gridStore 0 1 4, by simp [mkTimes]⟩
example : ∃ s, mkTimes "uniform" 0 1 2 [1/2, 1] = .ok s :=
  ⟨[1/2, 1], by simp [mkTimes, uniformTimes, inIcc]; norm_num⟩
/-- a concrete 2-D generator with a border goes through the constructor (hypothesis of
    `statio_stores` / `statio_history`) -/
example : ∃ s, mkStatio
    { n := 2, nb := some 4, b := 1, bb := some 1, dim := 2, mins := [0, 0], maxs := [1, 2], method := "uniform" }
    { omega := [[0, 1], [1, 2]], border := [[1], [2], [0], [1]] } = .ok s := by
  refine ⟨{ args := { n := 2, nb := some 4, b := 1, bb := some 1, dim := 2, mins := [0, 0], maxs := [1, 2],
                      method := "uniform" }, nb := some 4, bb := some 1, omega := [[0, 1], [1, 2]],
            border := .facets (border2 [0, 0] [1, 2] 1 [[1], [2], [0], [1]]) }, ?_⟩
  simp [mkStatio, borderParams, mkOmega, uniformOmega, mkBorder, border2Contract, inBox, inIcc, bind,
    Except.bind, pure, Except.pure, List.range_succ]
example : ∃ u, border2Contract [-1, 0] [1, 2] 1 u = true :=
  ⟨[[1], [2], [-1], [0]], by simp [border2Contract, inIcc, List.getD]⟩

theorem sliceGuard_ok_iff (n b : Nat) : sliceGuard n b = .ok () ↔ b ≤ n := by
  unfold sliceGuard
  by_cases h : n < b
  · simp [h]
  · simp [h]; omega

end Jinns.Domain
