/-
C13 — a system loss is the weighted composition of its equations and unknowns.
Property theorems about `JinnsModel/SystemLoss.lean`, for every number of equations and of unknowns
(independent lists), key names, weight specification, batch (with or without per-sample parameters)
and all user functions.  Also the C12 statements for the system losses (`holdsC12Sys_model`).
-/
import JinnsModel.SystemLoss
import JinnsModel.HoldsC13
import JinnsProofs.C12
import Mathlib.Tactic.Ring
import Mathlib.Tactic.Linarith
import Mathlib.Algebra.Order.Field.Rat
import Mathlib.Algebra.BigOperators.Group.List.Basic

namespace Jinns.SystemLoss
open Jinns.ParamBatch

/-! ### `set_loss_weights` -/

theorem sameKeys_self (ks : List String) : sameKeys ks ks = true := by
  simp [sameKeys, List.all_eq_true]

theorem keys_map_const (ks : List String) (w : Rat) : keys (ks.map fun k => (k, w)) = ks := by
  simp [keys, List.map_map, Function.comp_def]

/-- **a scalar weight is the dictionary holding that scalar for every key** (equations for `dyn_loss`,
    unknowns otherwise) -/
theorem setOne_scalar_eq_dict (ks : List String) (w : Rat) :
    setOne ks (.scalar w) = setOne ks (.dict (ks.map fun k => (k, w))) := by
  simp [setOne, keys_map_const, sameKeys_self]

/-- **a missing weight is the null weight for every key** -/
theorem setOne_none_eq_zero (ks : List String) : setOne ks .none = setOne ks (.scalar 0) := rfl

/-- **a dictionary is honoured exactly when its keys are the key set it ranges over**, and then it
    is used as given -/
theorem setOne_dict_accepts_iff (ks : List String) (d : List (String × Rat)) :
    (setOne ks (.dict d) = .ok d ↔ sameKeys (keys d) ks = true) ∧
    (sameKeys (keys d) ks = false → setOne ks (.dict d) = .error "value_error") := by
  constructor
  · constructor
    · intro h
      by_cases hc : sameKeys (keys d) ks = true
      · exact hc
      · simp [setOne, hc] at h
    · intro h; simp [setOne, h]
  · intro h; simp [setOne, h]

/-- **vectorial weights are rejected** (as a value or inside a dictionary) -/
theorem setOne_vector_rejected (ks : List String) (ks' : List String) :
    setOne ks .vector = .error "value_error" ∧ setOne ks (.dictVector ks') = .error "value_error" :=
  ⟨rfl, rfl⟩

theorem get?_map_const (ks : List String) (w : Rat) (k : String) (hk : k ∈ ks) :
    get? k (ks.map fun k => (k, w)) = some w := by
  induction ks with
  | nil => simp at hk
  | cons a r ih =>
    by_cases h : a = k
    · simp [get?, h]
    · rcases List.mem_cons.1 hk with rfl | h'
      · exact absurd rfl h
      · simpa [get?, h] using ih h'

/-- the weight a key receives from a broadcast scalar -/
theorem weightOf_setOne (ks : List String) (w : Rat) (W : List (String × Rat)) (k : String)
    (hk : k ∈ ks) (h : setOne ks (.scalar w) = .ok W) : weightOf W k = w := by
  simp only [setOne, Except.ok.injEq] at h
  subst h
  simp [weightOf, get?_map_const ks w k hk]

end Jinns.SystemLoss

namespace Jinns.Holds
open Jinns.ParamBatch Jinns.SystemLoss

/-- the model accepts a specification exactly when it is valid -/
theorem setOne_ok_iff (ks : List String) (s : WSpec) :
    (∃ W, setOne ks s = .ok W) ↔ specValid ks s = true := by
  cases s with
  | none => simp [setOne, specValid]
  | scalar w => simp [setOne, specValid]
  | dict d =>
    by_cases hc : sameKeys (keys d) ks = true <;> simp [setOne, specValid, hc]
  | vector => simp [setOne, specValid]
  | dictVector ks' => simp [setOne, specValid]

theorem setOne_error_of_invalid (ks : List String) (s : WSpec) (h : specValid ks s = false) :
    setOne ks s = .error "value_error" := by
  cases s with
  | none => simp [specValid] at h
  | scalar w => simp [specValid] at h
  | dict d => simp only [specValid] at h; simp [setOne, h]
  | vector => rfl
  | dictVector ks' => rfl

/-- the resolved weights are the per-key weights of the specification -/
theorem weightOf_eq_weightFor (ks : List String) (s : WSpec) (W : List (String × Rat))
    (h : setOne ks s = .ok W) (k : String) (hk : k ∈ ks) : weightOf W k = weightFor s k := by
  cases s with
  | none =>
    simp only [setOne, Except.ok.injEq] at h; subst h
    simp [weightOf, weightFor, get?_map_const ks 0 k hk]
  | scalar w =>
    simp only [setOne, Except.ok.injEq] at h; subst h
    simp [weightOf, weightFor, get?_map_const ks w k hk]
  | dict d =>
    by_cases hc : sameKeys (keys d) ks = true
    · simp only [setOne, hc, if_true, Except.ok.injEq] at h; subst h
      simp [weightOf, weightFor]
    · simp [setOne, hc] at h
  | vector => simp [setOne] at h
  | dictVector ks' => simp [setOne] at h

end Jinns.Holds

namespace Jinns.Holds
open Jinns.ParamBatch Jinns.SystemLoss

/-! ### algebra of the aggregations -/

theorem sum_eq_listSum (l : List Rat) : ParamBatch.sum l = l.sum := by
  induction l with
  | nil => rfl
  | cons a r ih => simp [ParamBatch.sum, List.sum_cons] at ih ⊢; rw [ih]

theorem sum_map_mul (w : Rat) {α : Type} (g : α → Rat) (l : List α) :
    ParamBatch.sum (l.map fun x => w * g x) = w * ParamBatch.sum (l.map g) := by
  induction l with
  | nil => simp [ParamBatch.sum]
  | cons a r ih =>
    simp only [List.map_cons, ParamBatch.sum, List.foldr_cons] at ih ⊢
    rw [ih]; ring

theorem mean_map_mul (w : Rat) {α : Type} (g : α → Rat) (l : List α) :
    mean (l.map fun x => w * g x) = w * mean (l.map g) := by
  simp only [mean, sum_map_mul, List.length_map]
  ring

/-- the weight can be taken out of the batch mean -/
theorem specMse_weight (w : Rat) (f : List Rat → Params → Val) (xs : List (List Rat))
    (sel : Nat → Params) : specMse w f xs sel = w * specMse 1 f xs sel := by
  simp only [specMse, one_mul]
  exact mean_map_mul w (fun i => sq (f (xs.getD i []) (sel i))) (List.range xs.length)

/-! ### dynamic part -/

/-- **Dynamic term of a system** = `Σ_e w_e · mean_i Σ_c r_e(row_i, params_i)_c²`, every equation being
    applied to the collocation row and to the parameters selected for sample `i`. -/
theorem sysDyn_spec (eqs : List (String × Eqn)) (w : List (String × Rat)) (pts : List (List Rat))
    (t : Tree) (ax : Option (List (String × Option Nat))) (sel : Nat → Params)
    (hsel : ∀ i, select t ax i = sel i) (hsz : eqs ≠ [] → ∀ k ∈ mappedSizes t ax, k = pts.length) :
    sysDyn eqs w pts t ax = .ok (ParamBatch.sum (eqs.map fun ke =>
      weightOf w ke.1 * specMse 1 (fun pt q => ke.2.f pt (hetSpec ke.2.het q pt)) pts sel)) := by
  induction eqs with
  | nil => rfl
  | cons ke r ih =>
    have hsz' := hsz (by simp)
    have h1 := mseTerm_spec { w := weightOf w ke.1, f := heteroWrap ke.2.het ke.2.f, xs := pts }
      t ax sel hsel hsz'
    have h2 : sysDyn r w pts t ax = _ := ih (fun _ => hsz')
    have hh : heteroWrap ke.2.het ke.2.f = fun pt q => ke.2.f pt (hetSpec ke.2.het q pt) := by
      funext pt q; simp [heteroWrap, evalHetero_eq_hetSpec]
    rw [hh] at h1
    simp only at h1
    simp only [sysDyn, hh, h1, h2, bind, Except.bind, pure, Except.pure, List.map_cons,
      ParamBatch.sum, List.foldr_cons]
    rw [specMse_weight]

/-- **argument order**: a residual that reads only the first entry of the collocation row sees the time
    column of a `(t, x…)` batch: its mean square is the mean of `t_i²`. -/
theorem sysDyn_time_column (p : Params) (S : Sys) :
    eqMse p S { het := none, f := fun pt _ => [pt.getD 0 0] } =
      mean (S.pts.map fun r => r.getD 0 0 * r.getD 0 0) := by
  simp only [eqMse, specMse, one_mul]
  congr 1
  apply List.ext_getElem
  · simp
  · intro i h1 h2
    simp at h1
    simp [List.getD_eq_getElem?_getD, h1, ParamBatch.sq, ParamBatch.sum]

end Jinns.Holds

namespace Jinns.ParamBatch

theorem stackTree_idem (t : Tree) (rows : Rows) : stackTree (stackTree t rows) rows = stackTree t rows := by
  simp only [stackTree, List.map_map]
  apply List.map_congr_left
  intro e _
  simp only [Function.comp, stackEntry]
  cases get? e.1 rows <;> rfl

end Jinns.ParamBatch

namespace Jinns.Holds
open Jinns.ParamBatch Jinns.SystemLoss

/-! ### constraints part -/

theorem stage1_stacked (p : Params) (pr : Option Rows)
    (hk : (pr.getD []).all (fun r => hasKey r.1 p) = true) :
    stage1 (stackTree (ofParams p) (pr.getD [])) pr = stage1 (ofParams p) pr := by
  cases pr with
  | none => simp [stage1, stackTree_nil]
  | some rows =>
    simp only [Option.getD_some] at hk
    have h1 : rows.all (fun r => hasKey r.1 (ofParams p)) = true := by
      rw [← hk]; congr 1; funext r; exact hasKey_congr (keys_ofParams p) r.1
    have h2 : rows.all (fun r => hasKey r.1 (stackTree (ofParams p) rows)) = true := by
      rw [← hk]; congr 1; funext r
      exact hasKey_congr (by rw [keys_stackTree, keys_ofParams]) r.1
    simp only [stage1, Option.getD_some, updateEq_ok h1, updateEq_ok h2, stackTree_idem]

/-- the internal single losses receive the already updated parameters and update them again: same
    result as on the caller's parameters -/
theorem evalSingleT_stacked (p : Params) (s : Single)
    (hk : (s.paramRows.getD []).all (fun r => hasKey r.1 p) = true) :
    evalSingleT (stackTree (ofParams p) (s.paramRows.getD [])) s = evalSingle p s := by
  simp only [evalSingle, evalSingleT, stage1_stacked p s.paramRows hk]

/-- **Every non-dynamic term of a system is `Σ_k w_{term,k} · term_k`**, `term_k` being the term of
    unknown `k`'s own single loss (which sees the per-sample parameters as in C12). -/
theorem consSum_spec (p : Params) (us : List (String × Single)) (W : Weights) (pr : Option Rows)
    (hk : (pr.getD []).all (fun r => hasKey r.1 p) = true)
    (hwf : ∀ ku ∈ us, wellFormed p (unitSingle pr ku.2) = true) :
    consSum us W (stackTree (ofParams p) (pr.getD [])) pr = .ok
      { dyn := 0,
        ic := ParamBatch.sum (us.map fun ku => weightOf W.ic ku.1 * (specTerms p (unitSingle pr ku.2)).ic),
        boundary := ParamBatch.sum (us.map fun ku =>
          weightOf W.boundary ku.1 * (specTerms p (unitSingle pr ku.2)).boundary),
        norm := ParamBatch.sum (us.map fun ku =>
          weightOf W.norm ku.1 * (specTerms p (unitSingle pr ku.2)).norm),
        obs := ParamBatch.sum (us.map fun ku =>
          weightOf W.obs ku.1 * (specTerms p (unitSingle pr ku.2)).obs) } := by
  induction us with
  | nil => rfl
  | cons ku r ih =>
    have h1 : evalSingleT (stackTree (ofParams p) (pr.getD [])) (unitSingle pr ku.2) =
        .ok (specTerms p (unitSingle pr ku.2)) := by
      have := evalSingleT_stacked p (unitSingle pr ku.2) (by simpa [unitSingle] using hk)
      simp only [unitSingle] at this ⊢
      rw [this]
      exact evalSingle_spec p _ (hwf ku List.mem_cons_self)
    have h2 := ih (fun ku' h => hwf ku' (List.mem_cons_of_mem _ h))
    simp only [consSum, h1, h2, bind, Except.bind, pure, Except.pure, List.map_cons,
      ParamBatch.sum, List.foldr_cons]
    simp

theorem weightedSum_eq (spec : WSpec) (W : List (String × Rat)) (us : List (String × Single))
    (g : Single → Rat) (hW : setOne (keys us) spec = .ok W) :
    ParamBatch.sum (us.map fun ku => weightOf W ku.1 * g ku.2) =
      weightedSum spec (keys us) (us.map fun ku => g ku.2) := by
  simp only [weightedSum, keys, List.zip_map', List.map_map, Function.comp_def]
  congr 1
  apply List.map_congr_left
  intro ku hku
  rw [weightOf_eq_weightFor (keys us) spec W hW ku.1 (List.mem_map_of_mem (f := (·.1)) hku)]

theorem setLossWeights_ok (S : Sys) (hv : weightsValid S = true) :
    ∃ W, setLossWeights (keys S.eqs) (keys S.unknowns) S.weights = .ok W ∧
      setOne (keys S.eqs) S.weights.dyn = .ok W.dyn ∧
      setOne (keys S.unknowns) S.weights.ic = .ok W.ic ∧
      setOne (keys S.unknowns) S.weights.boundary = .ok W.boundary ∧
      setOne (keys S.unknowns) S.weights.norm = .ok W.norm ∧
      setOne (keys S.unknowns) S.weights.obs = .ok W.obs := by
  simp only [weightsValid, Bool.and_eq_true] at hv
  obtain ⟨⟨⟨⟨h1, h2⟩, h3⟩, h4⟩, h5⟩ := hv
  obtain ⟨d, hd⟩ := (setOne_ok_iff _ _).2 h1
  obtain ⟨i, hi⟩ := (setOne_ok_iff _ _).2 h2
  obtain ⟨b, hb⟩ := (setOne_ok_iff _ _).2 h3
  obtain ⟨n, hn⟩ := (setOne_ok_iff _ _).2 h4
  obtain ⟨o, ho⟩ := (setOne_ok_iff _ _).2 h5
  refine ⟨{ dyn := d, ic := i, boundary := b, norm := n, obs := o }, ?_, hd, hi, hb, hn, ho⟩
  simp only [setLossWeights, hd, hi, hb, hn, ho, bind, Except.bind, pure, Except.pure]

theorem setOne_cases (ks : List String) (s : WSpec) :
    setOne ks s = .error "value_error" ∨ ∃ W, setOne ks s = .ok W := by
  cases s with
  | none => exact Or.inr ⟨_, rfl⟩
  | scalar w => exact Or.inr ⟨_, rfl⟩
  | dict d =>
    by_cases hc : sameKeys (keys d) ks = true
    · exact Or.inr ⟨d, by simp [setOne, hc]⟩
    · exact Or.inl (by simp [setOne, hc])
  | vector => exact Or.inl rfl
  | dictVector ks' => exact Or.inl rfl

/-- **malformed weight specifications are rejected** -/
theorem sysEvaluate_rejects_malformed (p : Params) (S : Sys) (hv : weightsValid S = false) :
    sysEvaluate p S = .error "value_error" := by
  have : setLossWeights (keys S.eqs) (keys S.unknowns) S.weights = .error "value_error" := by
    rcases setOne_cases (keys S.eqs) S.weights.dyn with hd | ⟨d, hd⟩ <;>
    rcases setOne_cases (keys S.unknowns) S.weights.norm with hn | ⟨n, hn⟩ <;>
    rcases setOne_cases (keys S.unknowns) S.weights.boundary with hb | ⟨b, hb⟩ <;>
    rcases setOne_cases (keys S.unknowns) S.weights.obs with ho | ⟨o, ho⟩ <;>
    rcases setOne_cases (keys S.unknowns) S.weights.ic with hi | ⟨i, hi⟩ <;>
    simp only [setLossWeights, hd, hn, hb, ho, hi, bind, Except.bind]
    -- all five fields accepted: the specification is valid
    exfalso
    have h1 := (setOne_ok_iff _ _).1 ⟨d, hd⟩
    have h2 := (setOne_ok_iff _ _).1 ⟨i, hi⟩
    have h3 := (setOne_ok_iff _ _).1 ⟨b, hb⟩
    have h4 := (setOne_ok_iff _ _).1 ⟨n, hn⟩
    have h5 := (setOne_ok_iff _ _).1 ⟨o, ho⟩
    simp [weightsValid, h1, h2, h3, h4, h5] at hv
  simp only [sysEvaluate, this, bind, Except.bind]

end Jinns.Holds

namespace Jinns.Holds
open Jinns.ParamBatch Jinns.SystemLoss

/-! ### the whole system loss -/

/-- **total = Σ terms**, for every system, batch and weight specification the model accepts -/
theorem sysEvaluate_total (p : Params) (S : Sys) (T : Terms) (tot : Rat)
    (h : sysEvaluate p S = .ok (T, tot)) : tot = T.total := by
  simp only [sysEvaluate, bind, Except.bind, pure, Except.pure] at h
  cases hW : setLossWeights (keys S.eqs) (keys S.unknowns) S.weights with
  | error e => rw [hW] at h; cases h
  | ok W =>
    rw [hW] at h
    cases ht : stage1 (ofParams p) S.paramRows with
    | error e => rw [ht] at h; cases h
    | ok t1 =>
      rw [ht] at h
      simp only at h
      cases hd : sysDyn S.eqs W.dyn S.pts t1 (inAxes t1 (S.paramRows.map keys)) with
      | error e => rw [hd] at h; cases h
      | ok dyn =>
        rw [hd] at h
        cases hc : consSum S.unknowns W t1 S.paramRows with
        | error e => rw [hc] at h; cases h
        | ok c =>
          rw [hc] at h
          simp only [Except.ok.injEq, Prod.mk.injEq] at h
          obtain ⟨rfl, rfl⟩ := h
          simp only [Terms.total]
          ring

theorem sizes_of_wfSys (p : Params) (S : Sys) (hw : wellFormedSys p S = true) (hne : S.eqs ≠ []) :
    ∀ k ∈ mappedSizes (stackTree (ofParams p) (S.paramRows.getD []))
      (inAxes (stackTree (ofParams p) (S.paramRows.getD [])) (S.paramRows.map keys)),
      k = S.pts.length := by
  intro k hk
  obtain ⟨r, hr, rfl⟩ := ctx1_sizes p S.paramRows k hk
  simp only [wellFormedSys, Bool.and_eq_true] at hw
  obtain ⟨⟨_, hb⟩, _⟩ := hw
  cases hrows : S.paramRows.getD [] with
  | nil => rw [hrows] at hr; simp at hr
  | cons r0 rest =>
    rw [hrows] at hb hr
    simp only [batchSize, Bool.and_eq_true, List.all_eq_true, beq_iff_eq, Bool.or_eq_true,
      List.isEmpty_iff] at hb
    rcases hb.2 with h | h
    · exact absurd h hne
    · rw [hb.1 r hr, h]

/-- **Closed form of a system loss**: for every number of equations and of unknowns, key names, valid
    weight specification and well-formed batch, the model returns
    `dyn = Σ_e w_e · mean_i |r_e(row_i, params_i)|²`, every other term `= Σ_k w_{term,k} · term_k`,
    and `total = Σ terms`. -/
theorem sysEvaluate_spec (p : Params) (S : Sys) (hv : weightsValid S = true)
    (hw : wellFormedSys p S = true) :
    sysEvaluate p S = .ok (specSysTerms p S, (specSysTerms p S).total) := by
  obtain ⟨W, hW, hd, hi, hb, hn, ho⟩ := setLossWeights_ok S hv
  have hw' := hw
  simp only [wellFormedSys, Bool.and_eq_true, List.all_eq_true] at hw'
  obtain ⟨⟨hk, _⟩, hus⟩ := hw'
  have hk' : (S.paramRows.getD []).all (fun r => hasKey r.1 p) = true := by
    simpa [List.all_eq_true] using hk
  have hst : stage1 (ofParams p) S.paramRows = .ok (stackTree (ofParams p) (S.paramRows.getD [])) := by
    rw [← stage1_stacked p S.paramRows hk']
    cases hp : S.paramRows with
    | none => simp [stage1, stackTree_nil]
    | some rows =>
      rw [hp] at hk'
      simp only [Option.getD_some] at hk'
      have h2 : rows.all (fun r => hasKey r.1 (stackTree (ofParams p) rows)) = true := by
        rw [← hk']; congr 1; funext r
        exact hasKey_congr (by rw [keys_stackTree, keys_ofParams]) r.1
      simp only [stage1, Option.getD_some, updateEq_ok h2, stackTree_idem]
  have hdyn := sysDyn_spec S.eqs W.dyn S.pts _ _ _ (ctx1_sel p S.paramRows)
    (fun hne => sizes_of_wfSys p S hw hne)
  have hcons := consSum_spec p S.unknowns W S.paramRows hk' hus
  have hT : Terms.mk
      (0 + ParamBatch.sum (S.eqs.map fun ke => weightOf W.dyn ke.1 *
        specMse 1 (fun pt q => ke.2.f pt (hetSpec ke.2.het q pt)) S.pts
          (fun i => override p (S.paramRows.getD []) i)))
      (ParamBatch.sum (S.unknowns.map fun ku =>
        weightOf W.ic ku.1 * (specTerms p (unitSingle S.paramRows ku.2)).ic))
      (ParamBatch.sum (S.unknowns.map fun ku =>
        weightOf W.boundary ku.1 * (specTerms p (unitSingle S.paramRows ku.2)).boundary))
      (ParamBatch.sum (S.unknowns.map fun ku =>
        weightOf W.norm ku.1 * (specTerms p (unitSingle S.paramRows ku.2)).norm))
      (ParamBatch.sum (S.unknowns.map fun ku =>
        weightOf W.obs ku.1 * (specTerms p (unitSingle S.paramRows ku.2)).obs)) =
      specSysTerms p S := by
    simp only [specSysTerms, specSysDyn, eqMse, specUnknown, List.map_map, Function.comp_def, zero_add]
    rw [weightedSum_eq S.weights.ic W.ic S.unknowns
        (fun s => (specTerms p (unitSingle S.paramRows s)).ic) hi,
      weightedSum_eq S.weights.boundary W.boundary S.unknowns
        (fun s => (specTerms p (unitSingle S.paramRows s)).boundary) hb,
      weightedSum_eq S.weights.norm W.norm S.unknowns
        (fun s => (specTerms p (unitSingle S.paramRows s)).norm) hn,
      weightedSum_eq S.weights.obs W.obs S.unknowns
        (fun s => (specTerms p (unitSingle S.paramRows s)).obs) ho]
    congr 2
    apply List.map_congr_left
    intro ke hke
    rw [weightOf_eq_weightFor (keys S.eqs) S.weights.dyn W.dyn hd ke.1
      (List.mem_map_of_mem (f := (·.1)) hke)]
  simp only [sysEvaluate, hW, hst, hdyn, hcons, bind, Except.bind, pure, Except.pure]
  rw [← hT]
  simp only [Terms.total, Except.ok.injEq, Prod.mk.injEq, true_and]
  ring

/-- **`Holds.C13` is true of the model** (system vs the unknowns' own single losses), for all inputs -/
theorem holdsC13_model (p : Params) (S : Sys) :
    holdsC13 p S { sys := sysEvaluate p S,
                   singles := S.unknowns.map fun ku => specUnknown p S ku.2,
                   plain := none } = none := by
  simp only [holdsC13]
  by_cases hv : weightsValid S = true
  · by_cases hw : wellFormedSys p S = true
    · simp [hv, hw, sysEvaluate_spec p S hv hw, specSysTerms, keys, List.map_map, Function.comp_def]
    · simp [hv, hw]
  · have hv' : weightsValid S = false := by simpa using hv
    simp [hv', sysEvaluate_rejects_malformed p S hv']

/-- the single losses used in `holdsC13_model` are what the model's single-loss evaluation returns -/
theorem specUnknown_eq_evalSingle (p : Params) (S : Sys) (hw : wellFormedSys p S = true)
    (ku : String × Single) (hku : ku ∈ S.unknowns) :
    evalSingle p (unitSingle S.paramRows ku.2) = .ok (specUnknown p S ku.2) := by
  simp only [wellFormedSys, Bool.and_eq_true, List.all_eq_true] at hw
  exact evalSingle_spec p _ (hw.2 ku hku)

/-- **C12 for systems: `Holds.C12` (system form) is true of the model** -/
theorem holdsC12Sys_model (p : Params) (S : Sys) : holdsC12Sys p S (sysEvaluate p S) = none := by
  simp only [holdsC12Sys]
  by_cases hv : weightsValid S = true
  · by_cases hw : wellFormedSys p S = true
    · simp [hv, hw, sysEvaluate_spec p S hv hw]
    · simp [hv, hw]
  · simp [hv]

end Jinns.Holds

namespace Jinns.SystemLoss
open Jinns.ParamBatch

/-- the dictionary form of a scalar / missing specification -/
def toDict (ks : List String) : WSpec → WSpec
  | .scalar w => .dict (ks.map fun k => (k, w))
  | .none => .dict (ks.map fun k => (k, 0))
  | s => s

theorem setOne_toDict (ks : List String) (s : WSpec) : setOne ks (toDict ks s) = setOne ks s := by
  cases s with
  | none => simp [toDict, setOne, keys_map_const, sameKeys_self]
  | scalar w => simp [toDict, setOne, keys_map_const, sameKeys_self]
  | dict d => rfl
  | vector => rfl
  | dictVector ks' => rfl

/-- **scalar (or missing) weights give the same loss as the dictionaries holding that scalar (or 0)
    for every equation resp. every unknown** -/
theorem sysEvaluate_scalar_eq_dict (p : Params) (S : Sys) :
    sysEvaluate p { S with weights :=
      { dyn := toDict (keys S.eqs) S.weights.dyn, ic := toDict (keys S.unknowns) S.weights.ic,
        boundary := toDict (keys S.unknowns) S.weights.boundary,
        norm := toDict (keys S.unknowns) S.weights.norm,
        obs := toDict (keys S.unknowns) S.weights.obs } } = sysEvaluate p S := by
  simp only [sysEvaluate, setLossWeights, setOne_toDict]

end Jinns.SystemLoss

namespace Jinns.Holds
open Jinns.ParamBatch Jinns.SystemLoss

/-! ### one equation, one unknown = the plain loss -/

/-- the plain single loss with the same data and the weights the system gives to its only
    equation / unknown -/
def plainOf (S : Sys) (ke : String) (e : Eqn) (ku : String) (s : Single) : Single :=
  { paramRows := S.paramRows, obsRows := s.obsRows, het := e.het,
    dyn := some { w := weightFor S.weights.dyn ke, f := e.f, xs := S.pts },
    icODE := s.icODE.map fun q => (weightFor S.weights.ic ku, q.2.1, q.2.2),
    icPDE := s.icPDE.map fun m => { m with w := weightFor S.weights.ic ku },
    boundary := s.boundary.map fun m => { m with w := weightFor S.weights.boundary ku },
    norm := s.norm.map fun q => (weightFor S.weights.norm ku, q.2.1, q.2.2.1, q.2.2.2),
    normNS := s.normNS.map fun q => (weightFor S.weights.norm ku, q.2.1, q.2.2.1, q.2.2.2.1, q.2.2.2.2),
    obs := s.obs.map fun m => { m with w := weightFor S.weights.obs ku } }

theorem specMseOpt_scale (w : Rat) (m : Option MseIn) (sel : Nat → Params) :
    specMseOpt (m.map fun m => { m with w := w }) sel = w * specMseOpt (m.map unitMse) sel := by
  cases m with
  | none => simp [specMseOpt]
  | some m =>
    simp only [Option.map_some, specMseOpt, unitMse]
    rw [specMse_weight]

theorem specMseSum_scale (w : Rat) (ms : List MseIn) (sel : Nat → Params) :
    specMseSum (ms.map fun m => { m with w := w }) sel = w * specMseSum (ms.map unitMse) sel := by
  simp only [specMseSum, List.map_map, Function.comp_def, unitMse]
  rw [← sum_map_mul]
  congr 1
  apply List.map_congr_left
  intro m _
  rw [specMse_weight]

theorem specNorm_scale (w : Rat) (nm : Option (Rat × Rat × (List Rat → Params → Val) × List (List Rat)))
    (sel : Nat → Params) :
    specNorm (nm.map fun q => (w, q.2.1, q.2.2.1, q.2.2.2)) sel =
      w * specNorm (nm.map fun q => (1, q.2.1, q.2.2.1, q.2.2.2)) sel := by
  cases nm with
  | none => simp [specNorm]
  | some q => simp [specNorm]

theorem specNormNS_scale (w : Rat)
    (nm : Option (Rat × Rat × (List Rat → Params → Val) × List (List Rat) × List (List Rat)))
    (sel : Nat → Params) :
    specNormNS (nm.map fun q => (w, q.2.1, q.2.2.1, q.2.2.2.1, q.2.2.2.2)) sel =
      w * specNormNS (nm.map fun q => (1, q.2.1, q.2.2.1, q.2.2.2.1, q.2.2.2.2)) sel := by
  cases nm with
  | none => simp [specNormNS]
  | some q => simp [specNormNS, normNSOf]

theorem specIcODE_scale (w : Rat) (ic : Option (Rat × (List Rat → Params → Val) × List Rat))
    (p : Params) (rows : Rows) :
    specIcODE (ic.map fun q => (w, q.2.1, q.2.2)) p rows =
      w * specIcODE (ic.map fun q => (1, q.2.1, q.2.2)) p rows := by
  cases ic with
  | none => simp [specIcODE]
  | some q =>
    simp only [Option.map_some, specIcODE, one_mul]
    cases batchSize rows with
    | none => rfl
    | some B => exact mean_map_mul w (fun i => sq (q.2.1 q.2.2 (override p rows i))) (List.range B)

/-- **A one-equation one-unknown system equals the plain loss** on the same data with the weights
    the system gives to its equation / unknown (whatever their form: scalar, dictionary, missing). -/
theorem sys_one_one_eq_plain (p : Params) (S : Sys) (ke : String) (e : Eqn) (ku : String) (s : Single)
    (he : S.eqs = [(ke, e)]) (hu : S.unknowns = [(ku, s)])
    (hv : weightsValid S = true) (hw : wellFormedSys p S = true)
    (hp : wellFormed p (plainOf S ke e ku s) = true) :
    sysEvaluate p S = (evalSingle p (plainOf S ke e ku s)).map fun t => (t, t.total) := by
  rw [sysEvaluate_spec p S hv hw, evalSingle_spec p _ hp]
  have hT : specSysTerms p S = specTerms p (plainOf S ke e ku s) := by
    simp only [specSysTerms, specSysDyn, weightedSum, specUnknown, he, hu, keys, List.map_cons,
      List.map_nil, List.zip_cons_cons, List.zip_nil_right, ParamBatch.sum, List.foldr_cons,
      List.foldr_nil, add_zero, specTerms, plainOf, unitSingle, eqMse, specDyn]
    rw [specMse_weight (weightFor S.weights.dyn ke), specIcODE_scale (weightFor S.weights.ic ku),
      specMseOpt_scale (weightFor S.weights.ic ku), specMseSum_scale (weightFor S.weights.boundary ku),
      specNorm_scale (weightFor S.weights.norm ku), specNormNS_scale (weightFor S.weights.norm ku),
      specMseOpt_scale (weightFor S.weights.obs ku)]
    simp only [mul_add]
  simp only [Except.map, hT]

end Jinns.Holds

/-! ### non-vacuity: concrete systems satisfying the hypotheses above -/
namespace Jinns.Holds.Examples13
open Jinns.ParamBatch Jinns.SystemLoss Jinns.Holds

def nuOf (q : Params) : Rat := ((get? "nu" q).getD []).getD 0 0

def s0 : Single :=
  { paramRows := none, obsRows := none, het := none, dyn := none, icODE := none,
    icPDE := some { w := 1, f := fun pt q => [pt.getD 0 0 - nuOf q], xs := [[1], [3]] },
    boundary := [], norm := none, normNS := none, obs := none }

/-- two equations, one unknown, a parameter batch on `nu`, dictionary weights on the equations -/
def S0 : Sys :=
  { paramRows := some [("nu", [[1], [2]])],
    pts := [[0, 1], [1, 3]],
    eqs := [("e0", { het := none, f := fun pt q => [pt.getD 0 0 * nuOf q] }),
            ("e1", { het := none, f := fun pt q => [pt.getD 1 0 + nuOf q] })],
    unknowns := [("u0", s0)],
    weights := { dyn := .dict [("e0", 2), ("e1", 3)], ic := .scalar 5, boundary := .none, norm := .none,
                 obs := .none } }

def p0 : Params := [("nu", [7]), ("a", [1, 2])]

example : weightsValid S0 = true := by decide
example : wellFormedSys p0 S0 = true := by decide
/-- a dictionary that misses an equation, or names the unknowns instead, is rejected -/
example : setOne ["e0", "e1"] (.dict [("e0", 1)]) = .error "value_error" := by decide
example : specValid ["e0", "e1"] (.dict [("u0", 1), ("u1", 1)]) = false := by decide
example : weightsValid { S0 with weights := { S0.weights with dyn := .dict [("e0", 1)] } } = false := by decide

/-- one equation, one unknown: the hypotheses of `sys_one_one_eq_plain` are satisfiable -/
def S1 : Sys := { S0 with eqs := [("e0", { het := none, f := fun pt q => [pt.getD 0 0 * nuOf q] })],
                          weights := { S0.weights with dyn := .scalar 2 } }

example : weightsValid S1 = true := by decide
example : wellFormedSys p0 S1 = true := by decide
example : wellFormed p0 (plainOf S1 "e0" { het := none, f := fun pt q => [pt.getD 0 0 * nuOf q] } "u0" s0) = true := by decide

end Jinns.Holds.Examples13
