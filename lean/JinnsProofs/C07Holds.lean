/-
`Holds.C07` is satisfied by every model trace: for every program of the exact family
(`SolveFamily.Program`: any loss definition, optimizer configuration, tracking specification,
batch stream, initial values) and every `n`, the observation predicted by the model (`modelObs`
of the final carry of `solve`) satisfies the trace predicate `Holds.C07` evaluated against the
trace of the textbook loop on the same program — provided no validation invocation requests a
stop (in particular without validation module).  Proof: the refinement theorems of `C07.lean`.
-/
import JinnsProofs.C07
import JinnsModel.SolveFamily
import JinnsModel.HoldsC07

namespace Jinns.SolveFamily
open Jinns.Solve Jinns.Validation Jinns.SolveTrace Jinns.Holds

abbrev MSt := St Params OptSt Nat Val (List Val) Params VState Val
abbrev MRef := Ref Params OptSt Nat Val (List Val) Params

/-- the observation of `jinns.solve` the model predicts from its final carry (what the driver
    compares the real observation with, field by field) -/
def modelObs (pg : Program) (gens : List (List String)) (s : MSt) : Obs :=
  { iters := s.i,
    batches := (List.range s.i).map (fun i => pg.batches.getD i ⟨[]⟩),
    params := s.lastGood,
    lossH := s.lossH, termH := s.termH, trackH := s.trackH,
    opt := optObs pg.opt s.opt,
    gen := gens.getD s.gens [],
    critH := if s.vs.isSome then some s.critH else none,
    best := if s.vs.isSome then some s.best else none }

def Program.r0 (pg : Program) : MRef := refInit pg.θ0 pg.opt0 0

def Program.solved (pg : Program) : MSt := solve pg.prog pg.n pg.θ0 pg.opt0 0 (initVState pg.val)

/-! ### the one-pass reference states are the reference loop -/

theorem refLoop_succ' {Θ O G B V T P VS C : Type} (pr : Prog Θ O G B V T P VS C) (j : Nat)
    (r : Ref Θ O G V T P) : refLoop pr (j + 1) r = refLoop pr j (refStep pr r) := by
  induction j with
  | zero => rfl
  | succ j ih => show refStep pr (refLoop pr (j + 1) r) = _; rw [ih]; rfl

theorem refStates_eq {Θ O G B V T P VS C : Type} (pr : Prog Θ O G B V T P VS C) (n : Nat)
    (r : Ref Θ O G V T P) :
    refStates pr n r = (List.range (n + 1)).map (fun j => refLoop pr j r) := by
  induction n generalizing r with
  | zero => rfl
  | succ n ih =>
    rw [refStates, ih, List.range_succ_eq_map (n := n + 1), List.map_cons, List.map_map]
    congr 1
    apply List.map_congr_left
    intro j _
    simp only [Function.comp, refLoop_succ']

theorem refStates_getLastD {Θ O G B V T P VS C : Type} (pr : Prog Θ O G B V T P VS C) (n : Nat)
    (r d : Ref Θ O G V T P) : (refStates pr n r).getLastD d = refLoop pr n r := by
  rw [refStates_eq, List.range_succ, List.map_append]
  simp [List.getLastD_eq_getLast?]

/-- the generator of the exact family is the position in the batch stream -/
theorem gens_position (pg : Program) (j : Nat) : (refLoop pg.prog j pg.r0).gens = j := by
  induction j with
  | zero => rfl
  | succ j ih => simp only [refLoop, refStep, ih]; rfl

/-! ### fields of the reference trace -/

theorem refTrace_thetas (pg : Program) (gens : List (List String)) :
    (pg.refTrace gens).thetas = (List.range (pg.n + 1)).map (fun j => θseq pg.prog pg.θ0 pg.opt0 0 j) := by
  simp only [Program.refTrace, refStates_eq, List.map_map]
  rfl

theorem refTrace_thetas_get (pg : Program) (gens : List (List String)) (j : Nat) (hj : j ≤ pg.n) :
    (pg.refTrace gens).thetas[j]? = some (θseq pg.prog pg.θ0 pg.opt0 0 j) := by
  rw [refTrace_thetas]
  simp [List.getElem?_range (by omega : j < pg.n + 1)]

theorem refTrace_opts_get (pg : Program) (gens : List (List String)) (j : Nat) (hj : j ≤ pg.n) :
    (pg.refTrace gens).opts[j]? = some (optObs pg.opt (refLoop pg.prog j pg.r0).opt) := by
  simp only [Program.refTrace, refStates_eq, List.map_map]
  simp [List.getElem?_range (by omega : j < pg.n + 1), Program.r0]

theorem refTrace_hist (pg : Program) (gens : List (List String)) :
    (pg.refTrace gens).losses = (refLoop pg.prog pg.n pg.r0).lossH ∧
    (pg.refTrace gens).terms = (refLoop pg.prog pg.n pg.r0).termH ∧
    (pg.refTrace gens).tracked = (refLoop pg.prog pg.n pg.r0).trackH := by
  simp only [Program.refTrace, refStates_getLastD]
  exact ⟨rfl, rfl, rfl⟩

theorem faultFree_iff (pg : Program) (gens : List (List String)) :
    SolveAux.faultFree (pg.refTrace gens) = true ↔
      ∀ j, j ≤ pg.n → hasNaN (θseq pg.prog pg.θ0 pg.opt0 0 j) = false := by
  unfold SolveAux.faultFree
  rw [refTrace_thetas]
  simp only [List.all_map, List.all_eq_true, List.mem_range, Function.comp, Bool.not_eq_true']
  constructor
  · intro h j hj; exact h j (by omega)
  · intro h j hj; exact h j (by omega)

theorem firstFail_all_true (l : List (Bool × String)) (h : ∀ c ∈ l, c.1 = true) :
    SolveAux.firstFail l = none := by
  unfold SolveAux.firstFail
  rw [Option.map_eq_none_iff, List.find?_eq_none]
  intro c hc
  simp [h c hc]

/-- **`Holds.C07` is satisfied by every model trace**: every program of the exact family, every
    `n`, every table `gens` of generator fingerprints covering the positions `0 … n`, when no
    validation invocation requests a stop before the last iteration. -/
theorem holdsC07_model (pg : Program) (gens : List (List String)) (hg : pg.n < gens.length)
    (hstop : ∀ j, j + 1 < pg.n → stopReq pg.prog pg.θ0 pg.opt0 0 (initVState pg.val) j = false) :
    holdsC07 (pg.refTrace gens) false (modelObs pg gens pg.solved) = none := by
  unfold holdsC07
  have hn : (pg.refTrace gens).n = pg.n := rfl
  rw [hn]
  by_cases h0 : (pg.n == 0) = true
  · simp [h0]
  · by_cases hff : SolveAux.faultFree (pg.refTrace gens) = true
    · have hfin := (faultFree_iff pg gens).1 hff
      have hU : Unstopped pg.prog pg.n pg.θ0 pg.opt0 0 (initVState pg.val) :=
        ⟨fun j hj => hfin j (by omega), hstop⟩
      obtain ⟨_, e2, e3, e4, e5, e6, e7⟩ :=
        solve_refines_refLoop pg.prog pg.n pg.θ0 pg.opt0 0 (initVState pg.val) hU
      have e7' := e7 (hfin pg.n (Nat.le_refl _))
      have ei := solve_runs_n_iterations pg.prog pg.n pg.θ0 pg.opt0 0 (initVState pg.val) hU
      obtain ⟨t1, t2, t3⟩ := refTrace_hist pg gens
      have hgen : (refLoop pg.prog pg.n pg.r0).gens = pg.n := gens_position pg pg.n
      simp only [h0, hff, Bool.false_eq_true, if_false, Bool.not_true]
      apply firstFail_all_true
      intro c hc
      simp only [List.mem_cons, List.mem_nil_iff, or_false] at hc
      rcases hc with rfl | rfl | rfl | rfl | rfl | rfl | rfl | rfl
      · simp [modelObs, Program.solved, ei]
      · simp [modelObs, Program.solved, ei, Program.refTrace]
      · simp [modelObs, Program.solved, e4, t1, Program.r0]
      · simp [modelObs, Program.solved, e5, t2, Program.r0]
      · simp [modelObs, Program.solved, e6, t3, Program.r0]
      · simp only [modelObs, Program.solved, e7', refTrace_thetas_get pg gens pg.n (Nat.le_refl _)]
        simp [θseq]
      · simp only [modelObs, Program.solved, e2, refTrace_opts_get pg gens pg.n (Nat.le_refl _)]
        simp [Program.r0]
      · have hgl : (pg.refTrace gens).gens = gens := rfl
        simp only [modelObs, Program.solved, e3, hgl]
        have : (refLoop pg.prog pg.n (refInit pg.θ0 pg.opt0 0 : MRef)).gens = pg.n := hgen
        rw [this]
        simp [List.getD_eq_getElem?_getD, List.getElem?_eq_getElem hg]
    · simp [h0, hff]

/-- Without validation module nothing can request a stop. -/
theorem holdsC07_model_no_validation (pg : Program) (gens : List (List String))
    (hg : pg.n < gens.length) (hv : pg.val = none) :
    holdsC07 (pg.refTrace gens) false (modelObs pg gens pg.solved) = none := by
  apply holdsC07_model pg gens hg
  intro j _
  simp [hv, initVState, stopReq]

end Jinns.SolveFamily

/-! ### non-vacuity: the theorem instantiated at a concrete program -/
namespace Jinns.SolveFamily
open Jinns.Solve Jinns.SolveTrace Jinns.Holds

/-- two scalar leaves, loss `2·p₀·Σt − p₁`, sgd(1/4) with momentum 1/2, four batches, n = 4 -/
def exProg : Program :=
  { n := 4, θ0 := [[some 1], [some 2]], opt0 := { count := 0, trace := [[some 0], [some 0]] },
    loss := { terms := [("dyn_loss", [⟨2, [0], 1⟩, ⟨-1, [1], 0⟩])], mark := none, gradFault := [] },
    opt := { lr0 := 1/4, bounds := [], momentum := some (1/2), nanAt := none, hasCount := false },
    spec := [some true, none],
    batches := [⟨[[0, 1]]⟩, ⟨[[2, 3]]⟩, ⟨[[1, 0]]⟩, ⟨[[3, 2]]⟩],
    val := none }

def exGens : List (List String) := [["g0"], ["g1"], ["g2"], ["g3"], ["g4"]]

example : holdsC07 (exProg.refTrace exGens) false (modelObs exProg exGens exProg.solved) = none :=
  holdsC07_model_no_validation exProg exGens (by decide) rfl

end Jinns.SolveFamily
