/-
C12 — per-sample and heterogeneous equation parameters are aligned.
Property theorems about `JinnsModel/ParamBatch.lean` (single losses); the same statements for the
system losses (`JinnsModel/SystemLoss.lean`) are `Jinns.Holds.sysEvaluate_spec`,
`Jinns.Holds.consSum_spec`, `Jinns.Holds.sysDyn_spec` and `Jinns.Holds.holdsC12Sys_model` in
`JinnsProofs/C13.lean`.  For every caller dictionary, every set of batched keys, every batch, every
heterogeneity declaration and all user functions (networks, residual maps, boundary / initial
functions, heterogeneity maps are universally quantified function arguments).
-/
import JinnsModel.ParamBatch
import JinnsModel.HoldsC12
import Mathlib.Tactic.Ring
import Mathlib.Tactic.Linarith
import Mathlib.Algebra.Order.Field.Rat

namespace Jinns.ParamBatch

/-! ### association lists -/

theorem get?_map_snd {α β : Type} (g : String × α → β) (k : String) (l : List (String × α)) :
    get? k (l.map fun kv => (kv.1, g kv)) =
      (l.find? fun kv => kv.1 = k).map g := by
  induction l with
  | nil => rfl
  | cons kv r ih =>
    by_cases h : kv.1 = k
    · simp [get?, h]
    · simp [get?, h, ih]

theorem get?_eq_find? {α : Type} (k : String) (l : List (String × α)) :
    get? k l = (l.find? fun kv => kv.1 = k).map (·.2) := by
  induction l with
  | nil => rfl
  | cons kv r ih =>
    by_cases h : kv.1 = k
    · simp [get?, h]
    · simp [get?, h, ih]

theorem keys_map_snd {α β : Type} (g : String × α → β) (l : List (String × α)) :
    keys (l.map fun kv => (kv.1, g kv)) = keys l := by
  simp [keys, List.map_map, Function.comp_def]

theorem contains_keys {α : Type} (k : String) (l : List (String × α)) :
    (keys l).contains k = hasKey k l := by
  induction l with
  | nil => rfl
  | cons kv r ih =>
    by_cases h : kv.1 = k
    · simp [keys, hasKey, get?, h]
    · have h' : ¬ k = kv.1 := fun e => h e.symm
      have hb : (k == kv.1) = false := by simpa using h'
      simp [keys, hasKey, get?, h, hb] at ih ⊢
      exact ih

theorem get?_mem {α : Type} {k : String} {l : List (String × α)} {v : α} (h : get? k l = some v) :
    (k, v) ∈ l := by
  induction l with
  | nil => simp [get?] at h
  | cons kv r ih =>
    by_cases hk : kv.1 = k
    · simp [get?, hk] at h
      subst h; subst hk
      simp
    · simp [get?, hk] at h
      exact List.mem_cons_of_mem _ (ih h)

theorem hasKey_of_mem {α : Type} {l : List (String × α)} {kv : String × α} (h : kv ∈ l) :
    hasKey kv.1 l = true := by
  induction l with
  | nil => simp at h
  | cons a r ih =>
    by_cases hk : a.1 = kv.1
    · simp [hasKey, get?, hk]
    · rcases List.mem_cons.1 h with rfl | h'
      · exact absurd rfl hk
      · simpa [hasKey, get?, hk] using ih h'

/-! ### `override` (specification) -/

/-- value of key `k` after `override` -/
theorem get?_override (p : Params) (rows : Rows) (i : Nat) (k : String) :
    get? k (override p rows i) = (get? k p).map (rowOr rows i k) := by
  induction p with
  | nil => rfl
  | cons kv r ih =>
    by_cases h : kv.1 = k
    · subst h
      simp only [override, List.map_cons, get?, if_true, Option.map_some]
    · simp only [override, List.map_cons, get?, h, if_false] at ih ⊢
      exact ih

/-- **frame**: an unbatched key keeps the caller's value -/
theorem override_unbatched (p : Params) (rows : Rows) (i : Nat) (k : String)
    (h : get? k rows = none) : get? k (override p rows i) = get? k p := by
  rw [get?_override]
  have : rowOr rows i k = id := by funext v; simp [rowOr, h]
  rw [this]; simp

/-- a batched key of the caller takes row `i` of its batch -/
theorem override_batched (p : Params) (rows : Rows) (i : Nat) (k : String) (rs : List Val) (v : Val)
    (h : get? k rows = some rs) (hp : get? k p = some v) :
    get? k (override p rows i) = some (rs.getD i []) := by
  rw [get?_override, hp]; simp [rowOr, h]

/-- `override` neither adds nor removes keys (a batched key the caller does not have is not
    introduced) -/
theorem override_keys (p : Params) (rows : Rows) (i : Nat) : keys (override p rows i) = keys p :=
  keys_map_snd _ p

/-- no batch ⇒ the caller's parameters -/
theorem override_nil (p : Params) (i : Nat) : override p [] i = p := by
  simp [override, rowOr, get?]

/-- the caller's values of the batched keys are irrelevant: two callers that agree on the unbatched
    keys get the same per-sample parameters -/
theorem override_caller_irrelevant (p q : Params) (rows : Rows) (i : Nat)
    (hk : keys p = keys q)
    (hv : ∀ j (h1 : j < p.length) (h2 : j < q.length), get? (p[j]).1 rows = none → (p[j]).2 = (q[j]).2) :
    override p rows i = override q rows i := by
  induction p generalizing q with
  | nil =>
    cases q with
    | nil => rfl
    | cons _ _ => simp [keys] at hk
  | cons a r ih =>
    cases q with
    | nil => simp [keys] at hk
    | cons b s =>
      simp only [keys, List.map_cons, List.cons.injEq] at hk
      obtain ⟨hab, hrs⟩ := hk
      have hrec : override r rows i = override s rows i := by
        apply ih s hrs
        intro j h1 h2 hn
        exact hv (j + 1) (by simp; omega) (by simp; omega) (by simpa using hn)
      have h0 := hv 0 (by simp) (by simp)
      simp only [List.getElem_cons_zero] at h0
      simp only [override, List.map_cons] at hrec ⊢
      rw [hrec]
      congr 1
      rw [← hab]
      cases hg : get? a.1 rows with
      | some rs => simp [rowOr, hg]
      | none => simp [rowOr, hg, h0 hg]

/-! ### the code-shaped pipeline equals the specification -/

theorem updateEq_ok {t : Tree} {rows : Rows} (h : rows.all (fun r => hasKey r.1 t) = true) :
    updateEq t rows = .ok (stackTree t rows) := by
  simp only [updateEq]; rw [if_pos h]

/-- **a batch naming a key the caller does not have is rejected** -/
theorem updateEq_rejects {t : Tree} {rows : Rows} (h : rows.all (fun r => hasKey r.1 t) = false) :
    updateEq t rows = .error "value_error" := by
  simp only [updateEq]; rw [if_neg (by simp [h])]

theorem updateEq_eq_ok {t t' : Tree} {rows : Rows} (h : updateEq t rows = .ok t') :
    t' = stackTree t rows ∧ rows.all (fun r => hasKey r.1 t) = true := by
  by_cases hc : rows.all (fun r => hasKey r.1 t) = true
  · rw [updateEq_ok hc] at h; cases h; exact ⟨rfl, hc⟩
  · rw [updateEq_rejects (by simpa using hc)] at h; cases h

theorem keys_stackTree (t : Tree) (rows : Rows) : keys (stackTree t rows) = keys t :=
  keys_map_snd _ t

theorem keys_ofParams (p : Params) : keys (ofParams p) = keys p := keys_map_snd _ p

theorem hasKey_congr {α β : Type} {l : List (String × α)} {l' : List (String × β)}
    (h : keys l = keys l') (k : String) : hasKey k l = hasKey k l' := by
  rw [← contains_keys, ← contains_keys, h]

/-- axis assigned to the key of an entry of the tree -/
theorem get?_axes {t : Tree} (ks : List String) {e : String × Entry} (he : e ∈ t) :
    get? e.1 (t.map fun e => (e.1, axisOf ks e.1)) = some (axisOf ks e.1) := by
  rw [get?_map_snd (fun e => axisOf ks e.1)]
  induction t with
  | nil => simp at he
  | cons a r ih =>
    by_cases h : a.1 = e.1
    · simp [List.find?, h]
    · rcases List.mem_cons.1 he with rfl | h'
      · exact absurd rfl h
      · simpa [List.find?, h] using ih h'

theorem select_some_eq (t : Tree) (ks : List String) (i : Nat) :
    select t (inAxes t (some ks)) i = t.map fun e => (e.1, pick e.2 (axisOf ks e.1) i) := by
  simp only [inAxes, Option.map_some, select]
  apply List.map_congr_left
  intro e he
  rw [get?_axes _ he]; rfl

/-- **`select ∘ updateEq` with the in-axes tree = `override`** (parameter batch): at index `i`
    the mapped function receives row `i` of each batched key and the caller's value of the others. -/
theorem select_stackTree (p : Params) (rows : Rows) (i : Nat) :
    select (stackTree (ofParams p) rows)
      (inAxes (stackTree (ofParams p) rows) (some (keys rows))) i = override p rows i := by
  rw [select_some_eq]
  simp only [stackTree, ofParams, List.map_map, override]
  apply List.map_congr_left
  intro kv _
  simp only [Function.comp, axisOf, contains_keys, hasKey, stackEntry, rowOr]
  cases get? kv.1 rows <;> simp [pick]

/-- no parameter batch at all (`in_axes = (None,)`): the caller's parameters -/
theorem select_none (p : Params) (i : Nat) : select (ofParams p) none i = p := by
  simp [select, ofParams, entryVal, List.map_map, Function.comp_def]

/-- **observed parameters**: after the second update, with axes over both key sets, sample `i`
    sees row `i` of the observed keys, else row `i` of the batched keys, else the caller's value. -/
theorem select_stackTree_obs (p : Params) (rows orows : Rows) (i : Nat) :
    select (stackTree (stackTree (ofParams p) rows) orows)
      (inAxes (stackTree (stackTree (ofParams p) rows) orows) (some (keys rows ++ keys orows))) i
      = override (override p rows i) orows i := by
  rw [select_some_eq]
  simp only [stackTree, ofParams, List.map_map, override]
  apply List.map_congr_left
  intro kv _
  simp only [Function.comp, axisOf, List.contains_append, contains_keys, hasKey, stackEntry, rowOr]
  cases get? kv.1 orows <;> cases get? kv.1 rows <;> simp [pick]


/-! ### `vmap` -/

/-- **sample `i` of a mapped term is `f` at point `i` with the parameters selected for `i`** -/
theorem vmapTerm_getElem? (f : List Rat → Params → Val) (xs : List (List Rat)) (t : Tree)
    (ax : Option (List (String × Option Nat))) (i : Nat) (hi : i < xs.length) :
    (vmapTerm f xs t ax)[i]? = some (f (xs.getD i []) (select t ax i)) := by
  simp [vmapTerm, List.getElem?_map, List.getElem?_range hi]

theorem vmapTerm_length (f : List Rat → Params → Val) (xs : List (List Rat)) (t : Tree)
    (ax : Option (List (String × Option Nat))) : (vmapTerm f xs t ax).length = xs.length := by
  simp [vmapTerm]

/-! ### heterogeneous parameters -/

/-- **no declaration ⇒ identity** -/
theorem evalHetero_none (p : Params) (pt : List Rat) : evalHetero none p pt = p := rfl

theorem get?_map_val {α β : Type} (g : String → α → β) (k : String) (l : List (String × α)) :
    get? k (l.map fun kv => (kv.1, g kv.1 kv.2)) = (get? k l).map (g k) := by
  induction l with
  | nil => rfl
  | cons kv r ih =>
    by_cases hk : kv.1 = k
    · subst hk
      simp only [List.map_cons, get?, if_true, Option.map_some]
    · simp only [List.map_cons, get?, hk, if_false] at ih ⊢
      exact ih

theorem get?_evalHetero (h : Het) (p : Params) (pt : List Rat) (k : String) :
    get? k (evalHetero (some h) p pt) = (get? k p).map (hetVal h pt p k) :=
  get?_map_val (hetVal h pt p) k p

/-- **a declared key is replaced by the value of its function at the current point**; the function
    receives the original parameters -/
theorem evalHetero_declared (h : Het) (p : Params) (pt : List Rat) (k : String)
    (g : List Rat → Params → Val) (v : Val) (hd : get? k h = some (some g)) (hp : get? k p = some v) :
    get? k (evalHetero (some h) p pt) = some (g pt p) := by
  rw [get?_evalHetero, hp]; simp [hetVal, hd]

/-- **undeclared keys** (absent from the declaration, or declared `None`) **pass through** -/
theorem evalHetero_undeclared (h : Het) (p : Params) (pt : List Rat) (k : String)
    (hd : get? k h = none ∨ get? k h = some none) :
    get? k (evalHetero (some h) p pt) = get? k p := by
  rw [get?_evalHetero]
  have : hetVal h pt p k = id := by
    funext v; rcases hd with hd | hd <;> simp [hetVal, hd]
  rw [this]; simp

theorem evalHetero_keys (het : Option Het) (p : Params) (pt : List Rat) :
    keys (evalHetero het p pt) = keys p := by
  cases het with
  | none => rfl
  | some h => exact keys_map_snd _ p

/-- a declaration whose entries are all `None` (or name no key of the caller) is the identity -/
theorem evalHetero_all_none (h : Het) (p : Params) (pt : List Rat)
    (hn : ∀ kv ∈ p, get? kv.1 h = none ∨ get? kv.1 h = some none) :
    evalHetero (some h) p pt = p := by
  simp only [evalHetero]
  conv => rhs; rw [← List.map_id p]
  apply List.map_congr_left
  intro kv hkv
  rcases hn kv hkv with hd | hd <;> simp [hetVal, hd]

/-- the decorator changes what `equation` receives and nothing else: with no declaration the
    wrapped residual is the residual -/
theorem heteroWrap_none (eq : List Rat → Params → Val) : heteroWrap none eq = eq := rfl

theorem heteroWrap_apply (het : Option Het) (eq : List Rat → Params → Val) (pt : List Rat)
    (p : Params) : heteroWrap het eq pt p = eq pt (evalHetero het p pt) := rfl

end Jinns.ParamBatch

namespace Jinns.Holds
open Jinns.ParamBatch

theorem evalHetero_eq_hetSpec (het : Option Het) (p : Params) (pt : List Rat) :
    evalHetero het p pt = hetSpec het p pt := by
  cases het with
  | none =>
    simp only [evalHetero, hetSpec, hetSpecVal, declared]
    conv => lhs; rw [← List.map_id p]
    apply List.map_congr_left
    intro kv _; rfl
  | some h =>
    simp only [evalHetero, hetSpec]
    apply List.map_congr_left
    intro kv _
    simp only [hetVal, hetSpecVal, declared]
    rcases hg : get? kv.1 h with _ | (_ | g) <;> simp

end Jinns.Holds

namespace Jinns.ParamBatch

theorem stackTree_nil (t : Tree) : stackTree t [] = t := by
  simp only [stackTree, stackEntry, get?]
  conv => rhs; rw [← List.map_id t]
  apply List.map_congr_left
  intro e _; rfl

theorem mappedSizes_some (t : Tree) (ks : List String) :
    mappedSizes t (inAxes t (some ks)) =
      (t.filter fun e => ks.contains e.1).map fun e => entrySize e.2 := by
  simp only [mappedSizes, inAxes, Option.map_some]
  congr 1
  apply List.filter_congr
  intro e he
  rw [get?_axes _ he]
  by_cases hc : e.1 ∈ ks <;> simp [axisOf, hc]

theorem exists_of_hasKey {α : Type} {k : String} {l : List (String × α)} (h : hasKey k l = true) :
    ∃ kv ∈ l, kv.1 = k := by
  simp only [hasKey, Option.isSome_iff_exists] at h
  obtain ⟨v, hv⟩ := h
  exact ⟨(k, v), get?_mem hv, rfl⟩

/-- every mapped axis is the row axis of one of the two batches -/
theorem mappedSizes_mem (p : Params) (rows orows : Rows) (n : Nat)
    (hn : n ∈ mappedSizes (stackTree (stackTree (ofParams p) rows) orows)
      (inAxes (stackTree (stackTree (ofParams p) rows) orows) (some (keys rows ++ keys orows)))) :
    ∃ r ∈ rows ++ orows, n = r.2.length := by
  rw [mappedSizes_some] at hn
  simp only [stackTree, ofParams, List.map_map, List.mem_map, List.mem_filter, Function.comp] at hn
  obtain ⟨e, ⟨⟨kv, _, rfl⟩, hc⟩, rfl⟩ := hn
  simp only [List.contains_append, contains_keys, hasKey, Bool.or_eq_true] at hc
  cases ho : get? kv.1 orows with
  | some rs =>
    exact ⟨(kv.1, rs), List.mem_append_right _ (get?_mem ho), by simp [stackEntry, ho, entrySize]⟩
  | none =>
    cases hr : get? kv.1 rows with
    | some rs =>
      exact ⟨(kv.1, rs), List.mem_append_left _ (get?_mem hr), by simp [stackEntry, ho, hr, entrySize]⟩
    | none => simp [ho, hr] at hc

/-- a non-empty batch on keys of the caller maps at least one axis -/
theorem mappedSizes_ne_nil (p : Params) (rows : Rows) (r : String × List Val) (hr : r ∈ rows)
    (hk : hasKey r.1 p = true) :
    mappedSizes (stackTree (ofParams p) rows)
      (inAxes (stackTree (ofParams p) rows) (some (keys rows))) ≠ [] := by
  rw [mappedSizes_some]
  obtain ⟨kv, hkv, hkr⟩ := exists_of_hasKey hk
  intro h
  have hmem : (kv.1, stackEntry rows kv.1 (Entry.plain kv.2)) ∈
      (stackTree (ofParams p) rows).filter fun e => (keys rows).contains e.1 := by
    rw [List.mem_filter]
    refine ⟨?_, ?_⟩
    · simp only [stackTree, ofParams, List.map_map, List.mem_map, Function.comp]
      exact ⟨kv, hkv, rfl⟩
    · simp only [contains_keys]
      rw [hkr]; exact hasKey_of_mem hr
  rw [List.map_eq_nil_iff] at h
  rw [h] at hmem
  simp at hmem

end Jinns.ParamBatch

namespace Jinns.Holds
open Jinns.ParamBatch

theorem mseOf_vmapTerm (w : Rat) (f : List Rat → Params → Val) (xs : List (List Rat)) (t : Tree)
    (ax : Option (List (String × Option Nat))) (sel : Nat → Params)
    (hsel : ∀ i, select t ax i = sel i) :
    mseOf w (vmapTerm f xs t ax) = specMse w f xs sel := by
  simp only [mseOf, vmapTerm, specMse, List.map_map, Function.comp_def, hsel]

theorem sizesOk_of (n : Nat) (t : Tree) (ax : Option (List (String × Option Nat)))
    (h : ∀ k ∈ mappedSizes t ax, k = n) : sizesOk n t ax = true := by
  simp only [sizesOk, List.all_eq_true, beq_iff_eq]
  exact h

theorem mseTerm_spec (m : MseIn) (t : Tree) (ax : Option (List (String × Option Nat)))
    (sel : Nat → Params) (hsel : ∀ i, select t ax i = sel i)
    (hsz : ∀ k ∈ mappedSizes t ax, k = m.xs.length) :
    mseTerm m t ax = .ok (specMse m.w m.f m.xs sel) := by
  simp only [mseTerm, sizesOk_of _ _ _ hsz, if_true, mseOf_vmapTerm _ _ _ _ _ sel hsel]

theorem optTerm_spec (m : Option MseIn) (t : Tree) (ax : Option (List (String × Option Nat)))
    (sel : Nat → Params) (hsel : ∀ i, select t ax i = sel i)
    (hsz : ∀ m' ∈ m, ∀ k ∈ mappedSizes t ax, k = m'.xs.length) :
    optTerm m t ax = .ok (specMseOpt m sel) := by
  cases m with
  | none => rfl
  | some m' => exact mseTerm_spec m' t ax sel hsel (hsz m' rfl)

theorem sumTerms_spec (ms : List MseIn) (t : Tree) (ax : Option (List (String × Option Nat)))
    (sel : Nat → Params) (hsel : ∀ i, select t ax i = sel i)
    (hsz : ∀ m' ∈ ms, ∀ k ∈ mappedSizes t ax, k = m'.xs.length) :
    sumTerms ms t ax = .ok (specMseSum ms sel) := by
  induction ms with
  | nil => rfl
  | cons m r ih =>
    have h1 := mseTerm_spec m t ax sel hsel (hsz m (List.mem_cons_self))
    have h2 := ih (fun m' hm' => hsz m' (List.mem_cons_of_mem _ hm'))
    simp only [sumTerms, h1, h2, specMseSum, List.map_cons, ParamBatch.sum, List.foldr_cons]
    rfl

theorem normTerm_spec (nm : Option (Rat × Rat × (List Rat → Params → Val) × List (List Rat)))
    (t : Tree) (ax : Option (List (String × Option Nat)))
    (sel : Nat → Params) (hsel : ∀ i, select t ax i = sel i)
    (hsz : ∀ q ∈ nm, ∀ k ∈ mappedSizes t ax, k = q.2.2.2.length) :
    normTerm nm t ax = .ok (specNorm nm sel) := by
  cases nm with
  | none => rfl
  | some q =>
    obtain ⟨w, L, f, xs⟩ := q
    have := sizesOk_of xs.length t ax (hsz (w, L, f, xs) rfl)
    simp only [normTerm, this, if_true, normOf, vmapTerm, hsel, specNorm]

theorem normNSTerm_spec
    (nm : Option (Rat × Rat × (List Rat → Params → Val) × List (List Rat) × List (List Rat)))
    (t : Tree) (ax : Option (List (String × Option Nat)))
    (sel : Nat → Params) (hsel : ∀ i, select t ax i = sel i)
    (hsz : ∀ q ∈ nm, ∀ k ∈ mappedSizes t ax, k = q.2.2.2.1.length) :
    normNSTerm nm t ax = .ok (specNormNS nm sel) := by
  cases nm with
  | none => rfl
  | some q =>
    obtain ⟨w, L, f, ts, ss⟩ := q
    have := sizesOk_of ts.length t ax (hsz (w, L, f, ts, ss) rfl)
    have hf : (fun i => select t ax i) = sel := funext hsel
    simp only [normNSTerm, this, if_true, specNormNS, hf]

end Jinns.Holds

namespace Jinns.Holds
open Jinns.ParamBatch

theorem icODETerm_spec_nil (w : Rat) (f : List Rat → Params → Val) (pt : List Rat) (t : Tree)
    (ax : Option (List (String × Option Nat))) (sel : Nat → Params)
    (hsel : ∀ i, select t ax i = sel i) (hnil : mappedSizes t ax = []) :
    icODETerm (some (w, f, pt)) t ax = .ok (w * sq (f pt (sel 0))) := by
  simp [icODETerm, hnil, mseOf, mean, ParamBatch.sum, hsel]

theorem icODETerm_spec_batch (w : Rat) (f : List Rat → Params → Val) (pt : List Rat) (t : Tree)
    (ax : Option (List (String × Option Nat))) (sel : Nat → Params)
    (hsel : ∀ i, select t ax i = sel i) (B : Nat) (hne : mappedSizes t ax ≠ [])
    (hall : ∀ k ∈ mappedSizes t ax, k = B) :
    icODETerm (some (w, f, pt)) t ax =
      .ok (mean ((List.range B).map fun i => w * sq (f pt (sel i)))) := by
  cases hm : mappedSizes t ax with
  | nil => exact absurd hm hne
  | cons n rest =>
    have hn : n = B := hall n (by rw [hm]; exact List.mem_cons_self)
    subst hn
    have hrest : rest.all (· == n) = true := by
      simp only [List.all_eq_true, beq_iff_eq]
      intro k hk
      exact hall k (by rw [hm]; exact List.mem_cons_of_mem _ hk)
    simp only [icODETerm, hm, hrest, if_true, mseOf, List.map_map, Function.comp_def, hsel]

/-- what well-formedness gives: every row of the parameter batch has as many entries as any term
    mapped with it has samples -/
theorem rows_len_of_wf (s : Single) (hb : wfBatch s = true) (n : Nat) (hn : n ∈ termSizes s)
    (r : String × List Val) (hr : r ∈ s.paramRows.getD []) : r.2.length = n := by
  simp only [wfBatch] at hb
  cases hrows : s.paramRows.getD [] with
  | nil => rw [hrows] at hr; simp at hr
  | cons r0 rest =>
    rw [hrows] at hb hr
    simp only [batchSize, Bool.and_eq_true, List.all_eq_true, beq_iff_eq] at hb
    rw [hb.1 r hr, hb.2 n hn]

theorem stage1_ok (p : Params) (s : Single)
    (hk : (s.paramRows.getD []).all (fun r => hasKey r.1 p) = true) :
    stage1 (ofParams p) s.paramRows = .ok (stackTree (ofParams p) (s.paramRows.getD [])) := by
  cases hp : s.paramRows with
  | none => simp [stage1, stackTree_nil]
  | some rows =>
    rw [hp] at hk
    simp only [stage1, Option.getD_some] at hk ⊢
    apply updateEq_ok
    rw [← hk]
    congr 1
    funext r
    exact hasKey_congr (keys_ofParams p) r.1

theorem ctx1_sel (p : Params) (pr : Option Rows) (i : Nat) :
    select (stackTree (ofParams p) (pr.getD []))
      (inAxes (stackTree (ofParams p) (pr.getD [])) (pr.map keys)) i = override p (pr.getD []) i := by
  cases pr with
  | none => simp [stackTree_nil, inAxes, select_none, override_nil]
  | some rows => exact select_stackTree p rows i

theorem ctx1_sizes (p : Params) (pr : Option Rows) (k : Nat)
    (hk : k ∈ mappedSizes (stackTree (ofParams p) (pr.getD []))
      (inAxes (stackTree (ofParams p) (pr.getD [])) (pr.map keys))) :
    ∃ r ∈ pr.getD [], k = r.2.length := by
  cases pr with
  | none => simp [inAxes, mappedSizes] at hk
  | some rows =>
    have := mappedSizes_mem p rows [] k (by simpa [stackTree_nil, keys] using hk)
    simpa using this

theorem keys_getD (pr : Option Rows) : (pr.map keys).getD [] = keys (pr.getD []) := by
  cases pr <;> rfl

/-- **The model's `evaluate` returns exactly the terms the property prescribes**, for every caller
    dictionary, every parameter batch, every observed-parameter batch, every heterogeneity
    declaration and all user functions, as soon as the batch is well formed: sample `i` of every
    term sees row `i` of the batched keys and the caller's value of the others (`override`); the
    observation term additionally sees row `i` of the observed keys; declared heterogeneous keys are
    replaced inside the equation only. -/
theorem evalSingle_spec (p : Params) (s : Single) (hw : wellFormed p s = true) :
    evalSingle p s = .ok (specTerms p s) := by
  simp only [wellFormed, wfKeys, Bool.and_eq_true] at hw
  obtain ⟨⟨⟨hk1, hk2⟩, hb⟩, ho⟩ := hw
  have hsel1 := ctx1_sel p s.paramRows
  have hsz1 : ∀ n ∈ termSizes s, ∀ k ∈ mappedSizes (stackTree (ofParams p) (s.paramRows.getD []))
      (inAxes (stackTree (ofParams p) (s.paramRows.getD [])) (s.paramRows.map keys)), k = n := by
    intro n hn k hk
    obtain ⟨r, hr, rfl⟩ := ctx1_sizes p s.paramRows k hk
    exact rows_len_of_wf s hb n hn r hr
  -- dynamic term
  have hdyn : optTerm (s.dyn.map fun m => { m with f := heteroWrap s.het m.f })
      (stackTree (ofParams p) (s.paramRows.getD []))
      (inAxes (stackTree (ofParams p) (s.paramRows.getD [])) (s.paramRows.map keys)) =
      .ok (specTerms p s).dyn := by
    rw [optTerm_spec _ _ _ _ hsel1]
    · cases hd : s.dyn with
      | none => simp [specTerms, specDyn, specMseOpt, hd]
      | some m =>
        have hh : heteroWrap s.het m.f = fun pt q => m.f pt (hetSpec s.het q pt) := by
          funext pt q; simp [heteroWrap, evalHetero_eq_hetSpec]
        simp only [specTerms, specDyn, specMseOpt, hd, Option.map_some, hh]
    · intro m' hm' k hk
      cases hd : s.dyn with
      | none => simp [hd] at hm'
      | some m =>
        simp only [hd, Option.map_some, Option.mem_def, Option.some.injEq] at hm'
        subst hm'
        exact hsz1 m.xs.length (by simp [termSizes, hd]) k hk
  have hicP := optTerm_spec s.icPDE _ _ _ hsel1 (by
    intro m' hm' k hk
    exact hsz1 m'.xs.length (by
      simp only [Option.mem_def] at hm'
      simp [termSizes, hm']) k hk)
  have hbd := sumTerms_spec s.boundary _ _ _ hsel1 (by
    intro m' hm' k hk
    exact hsz1 m'.xs.length (by
      simp only [termSizes, List.mem_append, List.mem_map]
      exact Or.inl (Or.inl (Or.inl (Or.inr ⟨m', hm', rfl⟩)))) k hk)
  have hnm := normTerm_spec s.norm _ _ _ hsel1 (by
    intro q hq k hk
    obtain ⟨w, L, f, xs⟩ := q
    exact hsz1 xs.length (by
      simp only [Option.mem_def] at hq
      simp [termSizes, hq]) k hk)
  have hnmNS := normNSTerm_spec s.normNS _ _ _ hsel1 (by
    intro q hq k hk
    obtain ⟨w, L, f, ts, ss⟩ := q
    exact hsz1 ts.length (by
      simp only [Option.mem_def] at hq
      simp [termSizes, hq]) k hk)
  -- initial condition of the ODE loss
  have hicO : icODETerm s.icODE (stackTree (ofParams p) (s.paramRows.getD []))
      (inAxes (stackTree (ofParams p) (s.paramRows.getD [])) (s.paramRows.map keys)) =
      .ok (specIcODE s.icODE p (s.paramRows.getD [])) := by
    cases hic : s.icODE with
    | none => rfl
    | some q =>
      obtain ⟨w, f, pt⟩ := q
      simp only [specIcODE]
      cases hrows : s.paramRows.getD [] with
      | nil =>
        have hnil : mappedSizes (stackTree (ofParams p) (s.paramRows.getD []))
            (inAxes (stackTree (ofParams p) (s.paramRows.getD [])) (s.paramRows.map keys)) = [] := by
          apply List.eq_nil_iff_forall_not_mem.2
          intro k hk
          obtain ⟨r, hr, _⟩ := ctx1_sizes p s.paramRows k hk
          rw [hrows] at hr; simp at hr
        have := icODETerm_spec_nil w f pt _ _ _ hsel1 hnil
        rw [hrows] at this
        simpa [batchSize, override_nil] using this
      | cons r0 rest =>
        have hpr : s.paramRows = some (r0 :: rest) := by
          cases hp : s.paramRows with
          | none => rw [hp] at hrows; simp at hrows
          | some rows => rw [hp] at hrows; simpa using hrows
        have hB : ∀ r ∈ s.paramRows.getD [], r.2.length = r0.2.length := by
          simp only [wfBatch, hrows, batchSize, Bool.and_eq_true, List.all_eq_true,
            beq_iff_eq] at hb
          rw [hrows]; exact hb.1
        have hne : mappedSizes (stackTree (ofParams p) (s.paramRows.getD []))
            (inAxes (stackTree (ofParams p) (s.paramRows.getD [])) (s.paramRows.map keys)) ≠ [] := by
          rw [hpr]
          simp only [Option.getD_some, Option.map_some]
          apply mappedSizes_ne_nil p (r0 :: rest) r0 List.mem_cons_self
          rw [hrows] at hk1
          simp only [List.all_cons, Bool.and_eq_true] at hk1
          exact hk1.1
        have hall : ∀ k ∈ mappedSizes (stackTree (ofParams p) (s.paramRows.getD []))
            (inAxes (stackTree (ofParams p) (s.paramRows.getD [])) (s.paramRows.map keys)),
            k = r0.2.length := by
          intro k hk
          obtain ⟨r, hr, rfl⟩ := ctx1_sizes p s.paramRows k hk
          exact hB r hr
        have := icODETerm_spec_batch w f pt _ _ _ hsel1 r0.2.length hne hall
        rw [hrows] at this
        simpa [batchSize] using this
  -- observations
  have hobs : obsTerm (stackTree (ofParams p) (s.paramRows.getD [])) s.paramRows s.obsRows s.obs =
      .ok (specTerms p s).obs := by
    cases hob : s.obs with
    | none => simp [obsTerm, specTerms, specMseOpt, hob]
    | some m =>
      have hu : updateEq (stackTree (ofParams p) (s.paramRows.getD [])) (s.obsRows.getD []) =
          .ok (stackTree (stackTree (ofParams p) (s.paramRows.getD [])) (s.obsRows.getD [])) := by
        apply updateEq_ok
        rw [← hk2]
        congr 1
        funext r
        exact hasKey_congr (by rw [keys_stackTree, keys_ofParams]) r.1
      simp only [obsTerm, hu, keys_getD]
      rw [mseTerm_spec m _ _ _ (select_stackTree_obs p _ _)]
      · simp [specTerms, specMseOpt, hob]
      · intro k hk
        obtain ⟨r, hr, rfl⟩ := mappedSizes_mem p _ _ k hk
        rcases List.mem_append.1 hr with hr | hr
        · exact rows_len_of_wf s hb m.xs.length (by simp [termSizes, hob]) r hr
        · simp only [wfObs, hob, List.all_eq_true, beq_iff_eq] at ho
          exact ho r hr
  simp only [evalSingle, evalSingleT, stage1_ok p s hk1, hdyn, hicO, hicP, hbd, hnm, hnmNS, hobs,
    bind, Except.bind, pure, Except.pure]
  simp only [specTerms]

/-- **`Holds.C12` is true of the model**, for all inputs. -/
theorem holdsC12_model (p : Params) (s : Single) :
    holdsC12 p s ((evalSingle p s).map fun t => (t, t.total)) = none := by
  simp only [holdsC12]
  by_cases hw : wellFormed p s = true
  · simp [hw, evalSingle_spec p s hw, Except.map]
  · simp [hw]

/-- the model never rejects a well-formed batch -/
theorem evalSingle_accepts (p : Params) (s : Single) (hw : wellFormed p s = true) :
    ∃ t, evalSingle p s = .ok t := ⟨_, evalSingle_spec p s hw⟩

end Jinns.Holds

/-! ### derivative routing -/
namespace Jinns.Holds
open Jinns.ParamBatch

/-- **routing into the rows**: the gradient the model sends to entry `j` of row `i` of a batched key is
    the contribution of sample `i` evaluated with `override p rows i`, gated by the key's mask -/
theorem dynGradRow_spec (p : Params) (rows : Rows) (m : MseIn) (df : Tangent) (mask : String → Bool)
    (k : String) (i j : Nat) :
    dynGradRow m df (stackTree (ofParams p) rows)
      (inAxes (stackTree (ofParams p) rows) (some (keys rows))) mask k i j =
      specGradRow p rows m df mask k i j := by
  simp only [dynGradRow, specGradRow, select_stackTree]

/-- **routing into the caller's parameters**: nothing for a batched key, the batch mean of the
    per-sample contributions (each with its own parameters) for the others, gated by the mask -/
theorem dynGradCaller_spec (p : Params) (rows : Rows) (m : MseIn) (df : Tangent) (mask : String → Bool)
    (k : String) (j : Nat) :
    dynGradCaller m df (stackTree (ofParams p) rows)
      (inAxes (stackTree (ofParams p) rows) (some (keys rows))) mask (keys rows) k j =
      specGradCaller p rows m df mask k j := by
  simp only [dynGradCaller, specGradCaller, select_stackTree, contains_keys]

/-- a key whose derivative key is off receives no gradient, neither in its rows nor in the caller's value -/
theorem specGrad_masked (p : Params) (rows : Rows) (m : MseIn) (df : Tangent) (mask : String → Bool)
    (k : String) (i j : Nat) (h : mask k = false) :
    specGradRow p rows m df mask k i j = 0 ∧ specGradCaller p rows m df mask k j = 0 := by
  simp [specGradRow, specGradCaller, h]

/-- the caller's value of a batched key receives no gradient whatever its derivative key -/
theorem specGradCaller_batched (p : Params) (rows : Rows) (m : MseIn) (df : Tangent)
    (mask : String → Bool) (k : String) (j : Nat) (h : hasKey k rows = true) :
    specGradCaller p rows m df mask k j = 0 := by
  simp [specGradCaller, h]

end Jinns.Holds

/-! ### non-vacuity: concrete instances of the hypotheses above -/
namespace Jinns.Holds.Examples12
open Jinns.ParamBatch Jinns.Holds

def p0 : Params := [("nu", [7]), ("a", [1, 2]), ("b", [4])]
def rows0 : Rows := [("nu", [[1], [2]]), ("b", [[5], [6]])]

/-- samples 0 and 1 see their own rows of the batched keys and the caller's value of `a` -/
example : override p0 rows0 0 = [("nu", [1]), ("a", [1, 2]), ("b", [5])] := by decide
example : override p0 rows0 1 = [("nu", [2]), ("a", [1, 2]), ("b", [6])] := by decide
/-- the code-shaped pipeline on the same data -/
example : select (stackTree (ofParams p0) rows0) (inAxes (stackTree (ofParams p0) rows0) (some (keys rows0))) 1
    = [("nu", [2]), ("a", [1, 2]), ("b", [6])] := by decide
/-- had the in-axes been inverted, the caller's own array would be sliced and the stack left whole -/
example : pick (.plain [1, 2]) (some 0) 1 = [2] ∧ pick (.stacked [[5], [6]]) none 1 = [5, 6] := by decide
/-- a batch naming a key the caller does not have is rejected (hypothesis of `updateEq_rejects`) -/
example : (([("zz", [[1]])] : Rows).all fun r => hasKey r.1 (ofParams p0)) = false := by decide

def nuOf (q : Params) : Rat := ((get? "nu" q).getD []).getD 0 0

/-- a single loss with a parameter batch on `nu`, `b`, an observation batch observing `a`, and `nu`
    declared heterogeneous: well formed, so `evalSingle_spec` applies -/
def s0 : Single :=
  { paramRows := some rows0, obsRows := some [("a", [[8], [9]])],
    het := some [("nu", some fun pt q => [pt.getD 0 0 + nuOf q]), ("a", none)],
    dyn := some { w := 2, f := fun pt q => [pt.getD 0 0 * nuOf q], xs := [[0], [1]] },
    icODE := some (1, fun pt q => [nuOf q - pt.getD 1 0], [0, 3]),
    icPDE := none, boundary := [], norm := none,
    normNS := some (3, 2, fun pt q => [pt.getD 0 0 + pt.getD 1 0 * nuOf q], [[0], [1]], [[1], [2], [3]]),
    obs := some { w := 1, f := fun pt q => [nuOf q - pt.getD 1 0], xs := [[0, 1], [1, 2]] } }

example : wellFormed p0 s0 = true := by decide
/-- ill-formed: three collocation points for two rows -/
example : wellFormed p0 { s0 with dyn := some { w := 2, f := fun _ _ => [], xs := [[0], [1], [2]] } } = false := by
  decide
/-- heterogeneity: declared key replaced, `None` and undeclared keys pass through -/
example : evalHetero (some [("nu", some fun pt _ => [pt.getD 0 0]), ("a", none)]) p0 [9] =
    [("nu", [9]), ("a", [1, 2]), ("b", [4])] := by decide

end Jinns.Holds.Examples12
