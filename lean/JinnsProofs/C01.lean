/-
C01 — differential operators return the mathematical operator's value.

Property theorems about `JinnsModel/Operators.lean` (reverse-mode operators, transcribed in the shape of
`jinns/loss/_operators.py`), for EVERY spatial dimension `d`, number of components `m`, field algebra
`F`, operations `ops`, network `u` and both call signatures (`t is None` / `t` given):

* closed forms: the code shape equals the mathematical operator written with `Σ_{i<d} ∂i …`;
* time is held fixed: no operator reads `ops.dT`, and the two signatures give the same field;
* component locality: the result for component `j` depends on `u j` only (on `u 0 … u (d-1)` for the
  divergence, on `u 0, u 1` for the advection).

No hypothesis on `ops` is needed (these are index-routing facts).
-/
import JinnsModel.Operators
import JinnsModel.OperatorsPoly
import JinnsModel.HoldsC01
import JinnsModel.Poly

namespace Jinns.Operators
open Jinns.Calc

variable {F : Type}

/-! ### helper lemmas on list indexing -/

theorem sum_congr (ops : FieldOps F) (d : Nat) (g h : Nat → F) (e : ∀ i, i < d → g i = h i) :
    ops.sum d g = ops.sum d h := by
  unfold FieldOps.sum
  congr 1
  apply List.map_congr_left
  intro i hi
  exact e i (List.mem_range.mp hi)

theorem getD_map_range {α : Type} (d i : Nat) (g : Nat → α) (dflt : α) (h : i < d) :
    ((List.range d).map g).getD i dflt = g i := by
  simp [List.getD, h]

/-- entry `i` of the gradient vector w.r.t. `x` is `∂i f` -/
theorem nth_gradX (ops : FieldOps F) (d i : Nat) (f : F) (h : i < d) :
    nth ops (gradX ops d f) i = ops.dX i f := by
  unfold nth gradX
  exact getD_map_range d i _ _ h

/-- the trace of the Hessian w.r.t. `x` is `Σ_{i<d} ∂i ∂i f` -/
theorem trace_hessX (ops : FieldOps F) (d : Nat) (f : F) :
    trace ops d (hessX ops d f) = ops.sum d (fun i => ops.dX i (ops.dX i f)) := by
  unfold trace
  apply sum_congr
  intro i hi
  unfold hessX
  rw [getD_map_range d i _ _ hi, getD_map_range d i _ _ hi]

/-- with the argnum the code passes, `grad` / `hessian` differentiate the spatial argument in both
    signatures -/
theorem gradArg_xArg (ops : FieldOps F) (d : Nat) (sig : Sig) (f : F) :
    gradArg ops d sig (xArg sig) f = gradX ops d f := by
  cases sig <;> rfl

theorem hessArg_xArg (ops : FieldOps F) (d : Nat) (sig : Sig) (f : F) :
    hessArg ops d sig (xArg sig) f = hessX ops d f := by
  cases sig <;> rfl

/-! ### closed forms -/

/-- **Laplacian**: `_laplacian_rev` returns `Σ_{i<d} ∂i ∂i (u 0)`, in every dimension, with and without
    a time argument. -/
theorem lapRev_eq (ops : FieldOps F) (d : Nat) (sig : Sig) (u : Nat → F) :
    lapRev ops d sig u = ops.sum d (fun i => ops.dX i (ops.dX i (u 0))) := by
  cases sig <;> exact trace_hessX ops d (u 0)

/-- **Divergence**: `_div_rev` returns `Σ_{i<d} ∂i (u i)`. -/
theorem divRev_eq (ops : FieldOps F) (d : Nat) (sig : Sig) (u : Nat → F) :
    divRev ops d sig u = ops.sum d (fun i => ops.dX i (u i)) := by
  cases sig <;>
  · unfold divRev
    apply sum_congr
    intro i hi
    exact nth_gradX ops d i (u i) hi

theorem vecLapRev_length (ops : FieldOps F) (d : Nat) (sig : Sig) (m : Nat) (u : Nat → F) :
    (vecLapRev ops d sig m u).length = m := by
  simp [vecLapRev]

/-- **Vector Laplacian**: component `j < m` of `_vectorial_laplacian` is `Σ_{i<d} ∂i ∂i (u j)`. -/
theorem vecLapRev_eq (ops : FieldOps F) (d : Nat) (sig : Sig) (m : Nat) (u : Nat → F) (j : Nat)
    (hj : j < m) :
    (vecLapRev ops d sig m u)[j]? = some (ops.sum d (fun i => ops.dX i (ops.dX i (u j)))) := by
  unfold vecLapRev
  simp [hj, lapRev_eq]

theorem advRev_length (ops : FieldOps F) (sig : Sig) (u : Nat → F) : (advRev ops sig u).length = 2 := by
  cases sig <;> rfl

/-- **Advection**: component `k < 2` of `_u_dot_nabla_times_u_rev` is `u 0 · ∂0 (u k) + u 1 · ∂1 (u k)`,
    i.e. `Σ_{j<2} u j · ∂j (u k)` (see `advRev_eq_sum` for the `Σ` form). -/
theorem advRev_eq (ops : FieldOps F) (sig : Sig) (u : Nat → F) (k : Nat) (hk : k < 2) :
    (advRev ops sig u)[k]? =
      some (ops.add (ops.mul (u 0) (ops.dX 0 (u k))) (ops.mul (u 1) (ops.dX 1 (u k)))) := by
  have h0 : ∀ f, nth ops (gradX ops 2 f) 0 = ops.dX 0 f := fun f => nth_gradX ops 2 0 f (by omega)
  have h1 : ∀ f, nth ops (gradX ops 2 f) 1 = ops.dX 1 f := fun f => nth_gradX ops 2 1 f (by omega)
  have hk' : k = 0 ∨ k = 1 := by omega
  cases sig <;> rcases hk' with rfl | rfl <;>
    simp only [advRev, gradArg, h0, h1, List.getElem?_cons_zero, List.getElem?_cons_succ]

/-- the `Σ_{j<2}` form of the advection, under the unit law `a + 0 = a` -/
theorem advRev_eq_sum (ops : FieldOps F) (hl : LawfulOps ops) (sig : Sig) (u : Nat → F) (k : Nat)
    (hk : k < 2) :
    (advRev ops sig u)[k]? = some (ops.sum 2 (fun j => ops.mul (u j) (ops.dX j (u k)))) := by
  rw [advRev_eq ops sig u k hk]
  simp [FieldOps.sum, List.range_succ, hl.add_zero]

/-! ### time is held fixed -/

/-- two operation tables that differ (at most) in the time derivative -/
structure SameButDT (ops ops' : FieldOps F) : Prop where
  zero : ops.zero = ops'.zero
  add  : ops.add = ops'.add
  neg  : ops.neg = ops'.neg
  mul  : ops.mul = ops'.mul
  smul : ops.smul = ops'.smul
  dX   : ops.dX = ops'.dX

theorem sum_sameButDT {ops ops' : FieldOps F} (h : SameButDT ops ops') (d : Nat) (g : Nat → F) :
    ops.sum d g = ops'.sum d g := by
  unfold FieldOps.sum
  rw [h.add, h.zero]

/-- **the Laplacian never differentiates in time**: replacing `dT` by anything leaves it unchanged -/
theorem lapRev_time_fixed {ops ops' : FieldOps F} (h : SameButDT ops ops') (d : Nat) (sig : Sig)
    (u : Nat → F) : lapRev ops d sig u = lapRev ops' d sig u := by
  rw [lapRev_eq, lapRev_eq, sum_sameButDT h, h.dX]

theorem divRev_time_fixed {ops ops' : FieldOps F} (h : SameButDT ops ops') (d : Nat) (sig : Sig)
    (u : Nat → F) : divRev ops d sig u = divRev ops' d sig u := by
  rw [divRev_eq, divRev_eq, sum_sameButDT h, h.dX]

theorem vecLapRev_time_fixed {ops ops' : FieldOps F} (h : SameButDT ops ops') (d : Nat) (sig : Sig)
    (m : Nat) (u : Nat → F) : vecLapRev ops d sig m u = vecLapRev ops' d sig m u := by
  unfold vecLapRev
  apply List.map_congr_left
  intro j _
  exact lapRev_time_fixed h d sig _

theorem advRev_time_fixed {ops ops' : FieldOps F} (h : SameButDT ops ops') (sig : Sig)
    (u : Nat → F) : advRev ops sig u = advRev ops' sig u := by
  apply List.ext_getElem?
  intro k
  by_cases hk : k < 2
  · rw [advRev_eq ops sig u k hk, advRev_eq ops' sig u k hk, h.add, h.mul, h.dX]
  · have l1 := advRev_length ops sig u
    have l2 := advRev_length ops' sig u
    rw [List.getElem?_eq_none (by omega), List.getElem?_eq_none (by omega)]

/-- **with and without a time argument the operators are the same field** (the with-time branch
    differentiates positional argument 1 = `x`) -/
theorem lapRev_sig (ops : FieldOps F) (d : Nat) (u : Nat → F) :
    lapRev ops d .withTime u = lapRev ops d .noTime u := by rw [lapRev_eq, lapRev_eq]

theorem divRev_sig (ops : FieldOps F) (d : Nat) (u : Nat → F) :
    divRev ops d .withTime u = divRev ops d .noTime u := by rw [divRev_eq, divRev_eq]

theorem vecLapRev_sig (ops : FieldOps F) (d m : Nat) (u : Nat → F) :
    vecLapRev ops d .withTime m u = vecLapRev ops d .noTime m u := by
  unfold vecLapRev
  apply List.map_congr_left
  intro j _
  exact lapRev_sig ops d _

theorem advRev_sig (ops : FieldOps F) (u : Nat → F) :
    advRev ops .withTime u = advRev ops .noTime u := rfl

/-! ### component locality -/

/-- the Laplacian reads component 0 only -/
theorem lapRev_local (ops : FieldOps F) (d : Nat) (sig : Sig) (u v : Nat → F) (h : u 0 = v 0) :
    lapRev ops d sig u = lapRev ops d sig v := by
  rw [lapRev_eq, lapRev_eq, h]

/-- the divergence reads components `0 … d-1` only (component `i` through `∂i` only: `divRev_eq`) -/
theorem divRev_local (ops : FieldOps F) (d : Nat) (sig : Sig) (u v : Nat → F)
    (h : ∀ i, i < d → u i = v i) : divRev ops d sig u = divRev ops d sig v := by
  rw [divRev_eq, divRev_eq]
  apply sum_congr
  intro i hi
  rw [h i hi]

/-- component `j` of the vector Laplacian reads `u j` only -/
theorem vecLapRev_local (ops : FieldOps F) (d : Nat) (sig : Sig) (m : Nat) (u v : Nat → F) (j : Nat)
    (h : u j = v j) : (vecLapRev ops d sig m u)[j]? = (vecLapRev ops d sig m v)[j]? := by
  by_cases hj : j < m
  · rw [vecLapRev_eq ops d sig m u j hj, vecLapRev_eq ops d sig m v j hj, h]
  · have l1 := vecLapRev_length ops d sig m u
    have l2 := vecLapRev_length ops d sig m v
    rw [List.getElem?_eq_none (by omega), List.getElem?_eq_none (by omega)]

/-- the advection reads components 0 and 1 only -/
theorem advRev_local (ops : FieldOps F) (sig : Sig) (u v : Nat → F) (h0 : u 0 = v 0) (h1 : u 1 = v 1) :
    advRev ops sig u = advRev ops sig v := by
  cases sig <;> simp only [advRev, h0, h1]


/-! ### the model satisfies `Holds.C01` -/

open Jinns.Holds in
theorem sumP_eq_sum (d : Nat) (g : Nat → Poly) : sumP d g = polyOps.sum d g := rfl

open Jinns.Holds Jinns.Residuals in
/-- on exact polynomials every operator of the model IS the mathematical operator `Holds.C01` compares
    with — as polynomials, hence at every point; for every operator, signature, dimension, number of
    components, field and parameters. -/
theorem runRev_eq_expected (op : OpName) (sig : Sig) (d m : Nat) (u : List Poly) (nu rho : Rat)
    (pt : List Rat) :
    evalAll (runRev op sig d m u nu rho) pt = expected01 op d m u nu rho pt := by
  have h0 : ∀ f, nth polyOps (gradX polyOps 2 f) 0 = polyOps.dX 0 f := fun f => nth_gradX polyOps 2 0 f (by omega)
  have h1 : ∀ f, nth polyOps (gradX polyOps 2 f) 1 = polyOps.dX 1 f := fun f => nth_gradX polyOps 2 1 f (by omega)
  cases op
  · simp only [runRev, expected01, evalAll, List.map_cons, List.map_nil, lapRev_eq]
    rfl
  · simp only [runRev, expected01, evalAll, List.map_cons, List.map_nil, divRev_eq]
    rfl
  · simp only [runRev, expected01, evalAll, vecLapRev, List.map_map, lapRev_eq]
    rfl
  · cases sig <;>
    · simp only [runRev, expected01, evalAll, advRev, gradArg, h0, h1]
      simp [mathAdv, sumP, List.range_succ, compP, comp, dxP, polyOps]
  · simp only [runRev, expected01, evalAll, nsRev, advRev, gradArg, h0, h1, vecLapRev, lapRev_eq]
    simp [mathNS, mathAdv, mathLap, sumP, List.range_succ, compP, comp, dxP, polyOps, nth, FieldOps.sub,
      FieldOps.sum]

open Jinns.Holds in
/-- **the model's trace satisfies `Holds.C01`**: for every operator, field, point of the right dimension and
    parameters, the observation made of the model's own values — at the point, again (any number of times)
    under other values of unrelated parameters (the model has none to read), no frozen-field value — is
    accepted. -/
theorem model_holdsC01 (op : OpName) (sig : Sig) (d m : Nat) (u : List Poly) (nu rho : Rat)
    (pt : List Rat) (hpt : pt.length = d + 1) (k : Nat) :
    holdsC01 { op := op, d := d, m := m, u := u, pt := pt, nu := nu, rho := rho,
               value := evalAll (runRev op sig d m u nu rho) pt,
               perturbed := List.replicate k (evalAll (runRev op sig d m u nu rho) pt), frozen := none } = none := by
  unfold holdsC01
  simp [runRev_eq_expected, hpt]

/-! ### transfer to the executable instance and non-vacuity -/

/-- on exact polynomials the model's Laplacian is the polynomial `Σ_{i<d} ∂²/∂x_i² u_0`
    (variable `i + 1` is `x_i`, variable 0 is `t` and is never differentiated) -/
theorem lapRev_poly (d : Nat) (sig : Sig) (u : Nat → Poly) :
    lapRev polyOps d sig u = polyOps.sum d (fun i => Poly.deriv (i + 1) (Poly.deriv (i + 1) (u 0))) :=
  lapRev_eq polyOps d sig u

theorem divRev_poly (d : Nat) (sig : Sig) (u : Nat → Poly) :
    divRev polyOps d sig u = polyOps.sum d (fun i => Poly.deriv (i + 1) (u i)) :=
  divRev_eq polyOps d sig u

/-- `SameButDT` is inhabited non-trivially: `polyOps` and `polyOps` with `dT := id` differ in `dT`
    (on `t`: `∂t t = 1 ≠ t`) and nowhere else. -/
example : SameButDT polyOps { polyOps with dT := id } :=
  ⟨rfl, rfl, rfl, rfl, rfl, rfl⟩

example : polyOps.dT (Poly.var 0) ≠ ({ polyOps with dT := id } : FieldOps Poly).dT (Poly.var 0) := by
  intro h
  have h2 := congrArg (List.map (·.2)) h
  revert h2
  decide

/-- a field with non-zero second derivatives in two coordinates and in `t`:
    `u = t²·x0² + x1³` has `Δu = 2t² + 6x1`; shown on the exponent lists (`decide` does not reduce `Rat`
    in the kernel), in which `∂t` plays no role: the `t` exponent 2 is untouched. -/
example :
    (lapRev polyOps 2 .withTime (fun _ => [(1, [2, 2]), (1, [0, 0, 3])])).map (·.2)
      = [[2, 0], [0, 0, 1]] := by decide

/-- divergence of `(x0·x1, x1²)` in `d = 2`: `x1 + 2·x1` (exponent lists) -/
example :
    (divRev polyOps 2 .noTime (fun i => if i = 0 then [(1, [0, 1, 1])] else [(1, [0, 0, 2])])).map (·.2)
      = [[0, 0, 1], [0, 0, 1]] := by decide

/-- locality hypothesis met non-trivially: two networks that agree on component 1 and differ on 0 -/
example :
    (vecLapRev polyOps 1 .noTime 2 (fun i => if i = 0 then [(1, [0, 2])] else [(1, [0, 3])]))[1]?
      = (vecLapRev polyOps 1 .noTime 2 (fun i => if i = 0 then [(5, [0, 4])] else [(1, [0, 3])]))[1]? :=
  vecLapRev_local polyOps 1 .noTime 2 _ _ 1 rfl

end Jinns.Operators
