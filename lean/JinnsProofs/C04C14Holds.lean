/-
`Holds.C04` and `Holds.C14` are satisfied by every trace of the *model*.

C14 — for every state of a `CubicMeshPDENonStatio` model (`Cartesian.NS`: any stores, cursors, batch
sizes, border kind, any dimension, both product modes) whose stores have the shape of the generator's
arrays, and every history of `getBatch` calls under the PRNG contract (every oracle is a permutation
of the store it replaces): the record of every call — the three factor batches served by the C09
cursors and the two batches `combine` builds from them — satisfies `Holds.C14`.

C04 — for every boundary configuration given by exact value tables (`Cfg`: 1-D or 2-D box,
stationary or not, any number of border rows / time points, any weight, a global condition or a
per-facet dictionary mixing `None`, Dirichlet and Neumann facets, any component selection, `f`
returning a 0-d scalar or an array) that is `Valid` (the tables cover the points and have the
network's `m` components): the observation made of the model's own boundary term (`boundary`, and
`boundarySpinn` for separable networks) and of the model's own re-evaluations on the three
metamorphic variants satisfies `Holds.C04`.  The heart is `value_eq_expected`: the model's value *is*
the sum over the configured facets of `w ×` the mean squared mismatch with the outward normal, the
quantity `Holds.C04` states from the definition.

`Cfg` / `FacetCfg` / `tabFn` / `toSpec` / `toFacet04` / `modelObs04` restate, as pure definitions, how
the driver (`JinnsDriver/C03.lean`: `BoundaryCase`, `FacetCase`, `tabFn`, `BoundaryCase.spec`,
`BoundaryCase.value`; `JinnsDriver/C04.lean`: `toFacet`, the `Obs04` literal) builds the model's
arguments and the arguments of `Holds.C04` from one and the same table-based case.
-/
import JinnsProofs.C04
import JinnsProofs.C14

/-! ## C14 -/

namespace Jinns.Cartesian
open Jinns.Minibatch Jinns.Holds

/-! ### rows of a product / pairing -/

theorem mem_cartesian {α : Type} (a b : List (List α)) (r : List α) (h : r ∈ cartesian a b) :
    ∃ x ∈ a, ∃ y ∈ b, r = x ++ y := by
  rw [cartesian_eq_flatMap] at h
  obtain ⟨x, hx, hr⟩ := List.mem_flatMap.1 h
  obtain ⟨y, hy, rfl⟩ := List.mem_map.1 hr
  exact ⟨x, hx, y, hy, rfl⟩

theorem mem_paired {α : Type} (a b : List (List α)) (r : List α) (h : r ∈ paired a b) :
    ∃ x ∈ a, ∃ y ∈ b, r = x ++ y := by
  unfold paired at h
  induction a generalizing b with
  | nil => simp at h
  | cons x a ih =>
    cases b with
    | nil => simp at h
    | cons y b =>
      simp only [List.zipWith_cons_cons, List.mem_cons] at h
      rcases h with rfl | h
      · exact ⟨x, List.mem_cons_self, y, List.mem_cons_self, rfl⟩
      · obtain ⟨x', hx', y', hy', e⟩ := ih b h
        exact ⟨x', List.mem_cons_of_mem _ hx', y', List.mem_cons_of_mem _ hy', e⟩

theorem cartesian_nil_right {α : Type} (a : List (List α)) : cartesian a [] = [] := by
  rw [cartesian_eq_flatMap]; simp

theorem c14First_none (l : List (Option String)) (h : ∀ x ∈ l, x = none) : c14First l = none := by
  induction l with
  | nil => rfl
  | cons x l ih =>
    have hx : x = none := h x List.mem_cons_self
    subst hx
    exact ih fun y hy => h y (List.mem_cons_of_mem _ hy)

/-! ### one `combine` -/

/-- the rows of a rows × coordinates × facets array have `dim` coordinates and `2·dim` facets -/
def BorderShape {α : Type} (dim : Nat) (d : List (List (List α))) : Prop :=
  ∀ row ∈ d, row.length = dim ∧ ∀ c ∈ row, c.length = 2 * dim

theorem facetCount_of_shape {α : Type} (dim : Nat) (d : List (List (List α))) (hd : BorderShape dim d)
    (hne : d ≠ []) : facetCount d = 2 * dim := by
  cases d with
  | nil => exact absurd rfl hne
  | cons row rest =>
    obtain ⟨h1, h2⟩ := hd row List.mem_cons_self
    cases row with
    | nil => simp at h1; subst h1; rfl
    | cons c cs => exact h2 c List.mem_cons_self

/-- interior part of `combine`: shape and product / pairing statement -/
theorem interior_combine (cart : Bool) (dim : Nat) (ts : List ℚ) (xs : List (List ℚ))
    (dx : Option (List (List (List ℚ))))
    (hx : ∀ r ∈ xs, r.length = dim) (hp : cart = false → ts.length = xs.length) :
    ((combine cart dim xs dx ts).1.all fun r => r.length == 1 + dim) = true ∧
    c14Interior cart ts xs (combine cart dim xs dx ts).1 = none := by
  cases cart with
  | true =>
    constructor
    · simp only [combine, if_true, List.all_eq_true, beq_iff_eq]
      intro r hr
      obtain ⟨x, hx', y, hy, rfl⟩ := mem_cartesian _ _ _ hr
      obtain ⟨t, _, rfl⟩ := List.mem_map.1 hx'
      simp [hx y hy, Nat.add_comm]
    · simp only [c14Interior, combine, if_true]
      exact productRows_cartesian _ _ _
  | false =>
    constructor
    · simp only [combine, Bool.false_eq_true, if_false, List.all_eq_true, beq_iff_eq]
      intro r hr
      obtain ⟨x, hx', y, hy, rfl⟩ := mem_paired _ _ _ hr
      obtain ⟨t, _, rfl⟩ := List.mem_map.1 hx'
      simp [hx y hy, Nat.add_comm]
    · simp only [c14Interior, combine, Bool.false_eq_true, if_false]
      exact pairedRows_paired _ _ (by simpa [col] using hp rfl) _

/-- border part of `combine`, facet by facet -/
theorem border_combine (cart : Bool) (dim : Nat) (ts : List ℚ) (d : List (List (List ℚ)))
    (hd : BorderShape dim d) (hp : (cart || dim == 1) = false → ts.length = d.length) :
    c14Border cart dim ts d
      (if cart || dim == 1 then cartesian (timeRep (facetCount d) ts) d
       else paired (timeRep (facetCount d) ts) d) = none := by
  have htcol : (ts.map fun t => [some t]) = col (ts.map some) := by simp [col]
  unfold c14Border
  by_cases hne : d = []
  · -- an empty border batch: every product / pairing is empty
    subst hne
    by_cases hc : (cart || dim == 1) = true
    · simp only [hc, if_true, cartesian_nil_right, List.all_nil, Bool.not_true, Bool.false_eq_true, if_false]
      apply c14First_none
      intro x hx
      obtain ⟨f, _, rfl⟩ := List.mem_map.1 hx
      have := productRows_cartesian (ts.map fun t => [some t]) (c14FacetOf f ([] : List (List (List ℚ))))
        s!"border-facet{f}-"
      simpa [c14FacetOf, cartesian_nil_right] using this
    · have hc' : (cart || dim == 1) = false := by simpa using hc
      have hts : ts = [] := by simpa using hp hc'
      subst hts
      simp only [hc', Bool.false_eq_true, if_false, paired, List.zipWith_nil_right, List.all_nil, Bool.not_true]
      apply c14First_none
      intro x hx
      obtain ⟨f, _, rfl⟩ := List.mem_map.1 hx
      have := pairedRows_paired ([] : List (List (Option ℚ))) [] rfl s!"border-facet{f}-"
      simpa [c14FacetOf, paired] using this
  · have hF : facetCount d = 2 * dim := facetCount_of_shape dim d hd hne
    rw [hF]
    have hshape : ∀ (td : List (List (List ℚ))),
        (∀ r ∈ td, ∃ x ∈ timeRep (2 * dim) ts, ∃ y ∈ d, r = x ++ y) →
        (td.all fun row => row.length == 1 + dim && row.all fun c => c.length == 2 * dim) = true := by
      intro td h
      simp only [List.all_eq_true, Bool.and_eq_true, beq_iff_eq]
      intro r hr
      obtain ⟨x, hx, y, hy, rfl⟩ := h r hr
      obtain ⟨t, _, rfl⟩ := List.mem_map.1 hx
      obtain ⟨h1, h2⟩ := hd y hy
      refine ⟨by simp [h1, Nat.add_comm], ?_⟩
      intro c hc
      simp only [List.cons_append, List.nil_append, List.mem_cons] at hc
      rcases hc with rfl | hc
      · simp
      · exact h2 c hc
    by_cases hc : (cart || dim == 1) = true
    · simp only [hc, if_true]
      rw [hshape _ (mem_cartesian _ _)]
      simp only [Bool.not_true, Bool.false_eq_true, if_false]
      apply c14First_none
      intro x hx
      obtain ⟨f, hf, rfl⟩ := List.mem_map.1 hx
      have hf' : f < 2 * dim := List.mem_range.1 hf
      have e : c14FacetOf f (cartesian (timeRep (2 * dim) ts) d)
          = cartesian (col (ts.map some)) (c14FacetOf f d) := border_facet_product (2 * dim) f hf' ts d
      rw [e, htcol]
      exact productRows_cartesian _ _ _
    · have hc' : (cart || dim == 1) = false := by simpa using hc
      simp only [hc', Bool.false_eq_true, if_false]
      rw [hshape _ (mem_paired _ _)]
      simp only [Bool.not_true, Bool.false_eq_true, if_false]
      apply c14First_none
      intro x hx
      obtain ⟨f, hf, rfl⟩ := List.mem_map.1 hx
      have hf' : f < 2 * dim := List.mem_range.1 hf
      have e : c14FacetOf f (paired (timeRep (2 * dim) ts) d)
          = paired (col (ts.map some)) (c14FacetOf f d) := border_facet_paired (2 * dim) f hf' ts d
      rw [e, htcol]
      exact pairedRows_paired _ _ (by simpa [col, c14FacetOf] using hp hc') _

/-- **`Holds.C14` is satisfied by what `combine` builds from any three factor batches** of the
    generator's shapes (all sizes, all contents, every dimension, both modes; in pairing mode the
    factors have the common length the constructor's guard enforces). -/
theorem holdsC14_combine (cart : Bool) (dim : Nat) (ts : List ℚ) (xs : List (List ℚ))
    (dx : Option (List (List (List ℚ))))
    (hx : ∀ r ∈ xs, r.length = dim) (hd : ∀ d, dx = some d → BorderShape dim d)
    (hp : cart = false → ts.length = xs.length)
    (hpb : (cart || dim == 1) = false → ∀ d, dx = some d → ts.length = d.length) :
    holdsC14 cart dim ts xs dx (combine cart dim xs dx ts).1 (combine cart dim xs dx ts).2 = none := by
  obtain ⟨h1, h2⟩ := interior_combine cart dim ts xs dx hx hp
  unfold holdsC14
  rw [h1, h2]
  cases dx with
  | none => simp [combine]
  | some d =>
    simp only [Bool.not_true, Bool.false_eq_true, if_false, combine, Option.map_some]
    exact border_combine cart dim ts d (hd d rfl) (fun h => hpb h d rfl)

/-! ### every history of `getBatch` -/

/-- what is observed of one `get_batch()`: the three factor batches and the two returned batches
    (the arguments of `Holds.C14`, in the order the driver passes them) -/
structure Rec14 where
  ts  : List ℚ
  xs  : List (List ℚ)
  dx  : Option (List (List (List ℚ)))
  tx  : List (List ℚ)
  tdx : Option (List (List (List ℚ)))

/-- the records of a whole history of `getBatch` calls of the model: at each call the batches the
    three C09 cursors serve (`Minibatch.next`, `Border.next`) and what `getBatch` returns -/
def records (nO nB nT : Nat) : NS ℚ → List (List (List ℚ) × List (List (List ℚ)) × List ℚ) → List Rec14
  | _, [] => []
  | g, o :: os =>
    let out := getBatch nO nB nT g o
    { ts := (Minibatch.next nT g.times o.2.2).2, xs := (Minibatch.next nO g.omega o.1).2,
      dx := (Border.next nB g.border o.2.1).2, tx := out.2.1, tdx := out.2.2 } ::
      records nO nB nT out.1 os

/-- the returned batches of the records are the outputs of the model's `runNS` -/
theorem records_outputs (nO nB nT : Nat) (g : NS ℚ)
    (os : List (List (List ℚ) × List (List (List ℚ)) × List ℚ)) :
    (records nO nB nT g os).map (fun r => (r.tx, r.tdx)) = (runNS nO nB nT g os).2 := by
  induction os generalizing g with
  | nil => rfl
  | cons o os ih => simp only [records, runNS, List.map_cons, ih]

theorem records_length (nO nB nT : Nat) (g : NS ℚ)
    (os : List (List (List ℚ) × List (List (List ℚ)) × List ℚ)) :
    (records nO nB nT g os).length = os.length := by
  induction os generalizing g with
  | nil => rfl
  | cons o os ih => simp [records, ih]

/-- … and each is `combine` of the record's own factors -/
theorem records_combine (nO nB nT : Nat) (g : NS ℚ)
    (os : List (List (List ℚ) × List (List (List ℚ)) × List ℚ)) :
    ∀ r ∈ records nO nB nT g os, (r.tx, r.tdx) = combine g.cart g.dim r.xs r.dx r.ts := by
  induction os generalizing g with
  | nil => intro r hr; simp [records] at hr
  | cons o os ih =>
    intro r hr
    simp only [records, List.mem_cons] at hr
    rcases hr with rfl | hr
    · rfl
    · exact ih (getBatch nO nB nT g o).1 r hr

/-- the factors of the records are the batches the three cursors serve on their own oracle streams
    (the C09 runs of `getBatch_history`) -/
theorem records_factors (nO nB nT : Nat) (g : NS ℚ)
    (os : List (List (List ℚ) × List (List (List ℚ)) × List ℚ)) :
    (records nO nB nT g os).map (·.xs) = (Minibatch.run nO g.omega (os.map (·.1))).2 ∧
    (records nO nB nT g os).map (·.dx) = (Border.run nB g.border (os.map (·.2.1))).2 ∧
    (records nO nB nT g os).map (·.ts) = (Minibatch.run nT g.times (os.map (·.2.2))).2 := by
  induction os generalizing g with
  | nil => simp [records, Minibatch.run, Border.run]
  | cons o os ih =>
    obtain ⟨h1, h2, h3⟩ := ih (getBatch nO nB nT g o).1
    refine ⟨?_, ?_, ?_⟩
    · simp only [records, List.map_cons, Minibatch.run, h1]; rfl
    · simp only [records, List.map_cons, Border.run, h2]; rfl
    · simp only [records, List.map_cons, Minibatch.run, h3]; rfl

/-- The stores of the generator have the shape of its arrays (`omega`: rows of `dim` coordinates;
    border: absent, the 1-D pair `[xmin, xmax]`, or rows × `dim` coordinates × `2·dim` facets), and in
    pairing mode the batch sizes are those the constructor's guard (`pairingGuard`) lets through:
    `bt = b`, and `bt = bb` for a border batch in dimension > 1; batch sizes do not exceed the stores. -/
structure WF (g : NS ℚ) : Prop where
  omega : ∀ r ∈ g.omega.store, r.length = g.dim
  fixed : ∀ e, g.border = .fixed1d e → g.dim = 1 ∧ e.length = 2
  facets : ∀ m, g.border = .facets m → BorderShape g.dim m.store
  pair : g.cart = false →
    g.times.b = g.omega.b ∧ g.times.b ≤ g.times.store.length ∧ g.omega.b ≤ g.omega.store.length
  pairB : (g.cart || g.dim == 1) = false → ∀ m, g.border = .facets m →
    m.b = g.times.b ∧ m.b ≤ m.store.length ∧ g.times.b ≤ g.times.store.length

/-- the PRNG contract for one `getBatch`: each oracle is a permutation of the store it may replace -/
def OracleOK (g : NS ℚ) (o : List (List ℚ) × List (List (List ℚ)) × List ℚ) : Prop :=
  o.1.Perm g.omega.store ∧ o.2.2.Perm g.times.store ∧ ∀ m, g.border = .facets m → o.2.1.Perm m.store

theorem next_b {α : Type} (n : Nat) (m : MB α) (o : List α) : (Minibatch.next n m o).1.b = m.b := by
  unfold Minibatch.next; split <;> rfl

theorem next_store_perm {α : Type} (n : Nat) (m : MB α) (o : List α) (ho : o.Perm m.store) :
    (Minibatch.next n m o).1.store.Perm m.store := by
  unfold Minibatch.next; split
  · exact ho
  · exact List.Perm.refl _

theorem next_batch_sublist {α : Type} (n : Nat) (m : MB α) (o : List α) :
    (Minibatch.next n m o).2.Sublist (Minibatch.next n m o).1.store := by
  unfold Minibatch.next; exact slice_sublist _ _ _

theorem next_batch_length {α : Type} (n : Nat) (m : MB α) (o : List α) (ho : o.Perm m.store)
    (hb : m.b ≤ m.store.length) : (Minibatch.next n m o).2.length = m.b := by
  have hl : (Minibatch.next n m o).1.store.length = m.store.length := (next_store_perm n m o ho).length_eq
  have hbb := next_b n m o
  have : (Minibatch.next n m o).2
      = slice (Minibatch.next n m o).1.store (Minibatch.next n m o).1.idx (Minibatch.next n m o).1.b := rfl
  rw [this, slice_length _ _ _ (by omega), hbb]

/-- every point of a served batch is a point of the (original) store -/
theorem next_batch_mem {α : Type} (n : Nat) (m : MB α) (o : List α) (ho : o.Perm m.store) (x : α)
    (hx : x ∈ (Minibatch.next n m o).2) : x ∈ m.store :=
  (next_store_perm n m o ho).mem_iff.1 ((next_batch_sublist n m o).subset hx)

/-- `Holds.C14` on the record of one call, from a well-formed state -/
theorem holdsC14_getBatch (nO nB nT : Nat) (g : NS ℚ) (hwf : WF g)
    (o : List (List ℚ) × List (List (List ℚ)) × List ℚ) (ho : OracleOK g o) :
    holdsC14 g.cart g.dim (Minibatch.next nT g.times o.2.2).2 (Minibatch.next nO g.omega o.1).2
      (Border.next nB g.border o.2.1).2 (getBatch nO nB nT g o).2.1 (getBatch nO nB nT g o).2.2 = none := by
  obtain ⟨ho1, ho2, ho3⟩ := ho
  apply holdsC14_combine
  · intro r hr
    exact hwf.omega r (next_batch_mem nO g.omega o.1 ho1 r hr)
  · intro d hd
    cases hb : g.border with
    | absent => rw [hb] at hd; simp [Border.next] at hd
    | fixed1d e =>
      rw [hb] at hd
      obtain ⟨h1, h2⟩ := hwf.fixed e hb
      simp only [Border.next, Option.some.injEq] at hd
      subst hd
      intro row hrow
      simp only [List.mem_singleton] at hrow
      subst hrow
      simp [h1, h2]
    | facets m =>
      rw [hb] at hd
      simp only [Border.next, Option.some.injEq] at hd
      subst hd
      intro row hrow
      exact hwf.facets m hb row (next_batch_mem nB m o.2.1 (ho3 m hb) row hrow)
  · intro hc
    obtain ⟨h1, h2, h3⟩ := hwf.pair hc
    rw [next_batch_length nT g.times o.2.2 ho2 h2, next_batch_length nO g.omega o.1 ho1 h3, h1]
  · intro hc d hd
    cases hb : g.border with
    | absent => rw [hb] at hd; simp [Border.next] at hd
    | fixed1d e =>
      -- a 1-D border is always combined as a product
      have := (hwf.fixed e hb).1
      simp [this] at hc
    | facets m =>
      rw [hb] at hd
      simp only [Border.next, Option.some.injEq] at hd
      subst hd
      obtain ⟨h1, h2, h3⟩ := hwf.pairB hc m hb
      rw [next_batch_length nT g.times o.2.2 ho2 h3, next_batch_length nB m o.2.1 (ho3 m hb) h2, h1]

/-- well-formedness is preserved by a call, and the oracle contract carries over to the new state -/
theorem wf_getBatch (nO nB nT : Nat) (g : NS ℚ) (hwf : WF g)
    (o : List (List ℚ) × List (List (List ℚ)) × List ℚ) (ho : OracleOK g o) :
    WF (getBatch nO nB nT g o).1 ∧
    ∀ o', OracleOK g o' → OracleOK (getBatch nO nB nT g o).1 o' := by
  obtain ⟨ho1, ho2, ho3⟩ := ho
  have hO := next_store_perm nO g.omega o.1 ho1
  have hT := next_store_perm nT g.times o.2.2 ho2
  have hbord : ∀ m', (Border.next nB g.border o.2.1).1 = .facets m' →
      ∃ m, g.border = .facets m ∧ m'.store.Perm m.store ∧ m'.b = m.b := by
    intro m' hm'
    cases hb : g.border with
    | absent => rw [hb] at hm'; simp [Border.next] at hm'
    | fixed1d e => rw [hb] at hm'; simp [Border.next] at hm'
    | facets m =>
      rw [hb] at hm'
      simp only [Border.next, Border.facets.injEq] at hm'
      subst hm'
      exact ⟨m, rfl, next_store_perm nB m o.2.1 (ho3 m hb), next_b nB m o.2.1⟩
  constructor
  · refine ⟨?_, ?_, ?_, ?_, ?_⟩
    · intro r hr
      exact hwf.omega r (hO.mem_iff.1 hr)
    · intro e he
      cases hb : g.border with
      | absent => simp [getBatch, hb, Border.next] at he
      | fixed1d e' =>
        simp only [getBatch, hb, Border.next, Border.fixed1d.injEq] at he
        subst he
        exact hwf.fixed e' hb
      | facets m => simp [getBatch, hb, Border.next] at he
    · intro m' hm'
      obtain ⟨m, hb, hp, _⟩ := hbord m' hm'
      intro row hrow
      exact hwf.facets m hb row (hp.mem_iff.1 hrow)
    · intro hc
      obtain ⟨h1, h2, h3⟩ := hwf.pair hc
      simp only [getBatch, next_b]
      exact ⟨h1, by rw [hT.length_eq]; exact h2, by rw [hO.length_eq]; exact h3⟩
    · intro hc m' hm'
      obtain ⟨m, hb, hp, hbb⟩ := hbord m' hm'
      obtain ⟨h1, h2, h3⟩ := hwf.pairB hc m hb
      simp only [getBatch, next_b]
      exact ⟨by rw [hbb]; exact h1, by rw [hbb, hp.length_eq]; exact h2, by rw [hT.length_eq]; exact h3⟩
  · intro o' ⟨h1, h2, h3⟩
    refine ⟨h1.trans hO.symm, h2.trans hT.symm, ?_⟩
    intro m' hm'
    obtain ⟨m, hb, hp, _⟩ := hbord m' hm'
    exact (h3 m hb).trans hp.symm

/-- **`Holds.C14` is satisfied by every model trace**: for every well-formed generator state (all
    store sizes and contents, all batch sizes, every border kind, every dimension, both product
    modes, any cursor positions), every history of `getBatch` calls (any length) and every oracle
    sequence honouring the PRNG contract, the record of each call — the three factor batches the C09
    cursors serve and the two batches the model returns — satisfies `Holds.C14`. -/
theorem holdsC14_model (nO nB nT : Nat) (g : NS ℚ) (hwf : WF g)
    (os : List (List (List ℚ) × List (List (List ℚ)) × List ℚ)) (hos : ∀ o ∈ os, OracleOK g o) :
    ∀ r ∈ records nO nB nT g os, holdsC14 g.cart g.dim r.ts r.xs r.dx r.tx r.tdx = none := by
  induction os generalizing g with
  | nil => intro r hr; simp [records] at hr
  | cons o os ih =>
    intro r hr
    have ho := hos o List.mem_cons_self
    obtain ⟨hwf', hcarry⟩ := wf_getBatch nO nB nT g hwf o ho
    simp only [records, List.mem_cons] at hr
    rcases hr with rfl | hr
    · exact holdsC14_getBatch nO nB nT g hwf o ho
    · exact ih (getBatch nO nB nT g o).1 hwf'
        (fun o' ho' => hcarry o' (hos o' (List.mem_cons_of_mem _ ho'))) r hr

/-- the same statement for the outputs of `runNS` (the function the driver's model mirrors): the
    `k`-th output of the model, with the `k`-th batches of the three cursor runs as factors -/
theorem holdsC14_runNS (nO nB nT : Nat) (g : NS ℚ) (hwf : WF g)
    (os : List (List (List ℚ) × List (List (List ℚ)) × List ℚ)) (hos : ∀ o ∈ os, OracleOK g o)
    (k : Nat) (hk : k < os.length) :
    ∃ ts xs dx out,
      (Minibatch.run nT g.times (os.map (·.2.2))).2[k]? = some ts ∧
      (Minibatch.run nO g.omega (os.map (·.1))).2[k]? = some xs ∧
      (Border.run nB g.border (os.map (·.2.1))).2[k]? = some dx ∧
      (runNS nO nB nT g os).2[k]? = some out ∧
      holdsC14 g.cart g.dim ts xs dx out.1 out.2 = none := by
  have hlen : (records nO nB nT g os).length = os.length := records_length nO nB nT g os
  have hk' : k < (records nO nB nT g os).length := by omega
  obtain ⟨h1, h2, h3⟩ := records_factors nO nB nT g os
  refine ⟨(records nO nB nT g os)[k].ts, (records nO nB nT g os)[k].xs, (records nO nB nT g os)[k].dx,
    ((records nO nB nT g os)[k].tx, (records nO nB nT g os)[k].tdx), ?_, ?_, ?_, ?_, ?_⟩
  · rw [← h3]; simp [List.getElem?_eq_getElem hk']
  · rw [← h1]; simp [List.getElem?_eq_getElem hk']
  · rw [← h2]; simp [List.getElem?_eq_getElem hk']
  · rw [← records_outputs]; simp [List.getElem?_eq_getElem hk']
  · exact holdsC14_model nO nB nT g hwf os hos _ (List.getElem_mem hk')

/-! ### non-vacuity -/

/-- a 2-D generator in product mode: 3 interior points, 2 time points, a border store of 2 rows ×
    2 coordinates × 4 facets served 2 rows at a time; batches of 2 times × 3 points -/
def exNS : NS ℚ :=
  { omega := init [[1, 2], [3, 4], [5, 6]] 3,
    border := .facets (init [[[0, 9, 1, 2], [3, 4, 0, 9]], [[0, 9, 5, 6], [7, 8, 0, 9]]] 2),
    times := init [10, 20] 2, cart := true, dim := 2 }

theorem exNS_wf : WF exNS := by
  refine ⟨?_, ?_, ?_, ?_, ?_⟩
  · intro r hr; simp [exNS, init] at hr; rcases hr with rfl | rfl | rfl <;> rfl
  · intro e he; simp [exNS] at he
  · intro m hm
    simp only [exNS, Border.facets.injEq] at hm
    subst hm
    intro row hrow
    simp only [init, List.mem_cons, List.not_mem_nil, or_false] at hrow
    rcases hrow with rfl | rfl <;> simp [exNS]
  · intro h; simp [exNS] at h
  · intro h; simp [exNS] at h

def exOracles : List (List (List ℚ) × List (List (List ℚ)) × List ℚ) :=
  [([[3, 4], [1, 2], [5, 6]], [[[0, 9, 5, 6], [7, 8, 0, 9]], [[0, 9, 1, 2], [3, 4, 0, 9]]], [20, 10]),
   ([[5, 6], [3, 4], [1, 2]], [[[0, 9, 1, 2], [3, 4, 0, 9]], [[0, 9, 5, 6], [7, 8, 0, 9]]], [10, 20])]

theorem exOracles_ok : ∀ o ∈ exOracles, OracleOK exNS o := by
  intro o ho
  simp only [exOracles, List.mem_cons, List.not_mem_nil, or_false] at ho
  rcases ho with rfl | rfl
  · refine ⟨?_, ?_, ?_⟩
    · exact List.isPerm_iff.1 (by decide)
    · exact List.Perm.swap _ _ _
    · intro m hm
      simp only [exNS, Border.facets.injEq] at hm
      subst hm
      exact List.Perm.swap _ _ _
  · refine ⟨?_, List.Perm.refl _, ?_⟩
    · exact List.isPerm_iff.1 (by decide)
    · intro m hm
      simp only [exNS, Border.facets.injEq] at hm
      subst hm
      exact List.Perm.refl _

/-- the theorem applies to a history of two calls; the first record is a product batch with
    2 times × 3 points (6 rows) and a 2-facet-point border (2 times × 2 rows, 4 facets) -/
example : ∀ r ∈ records 3 2 2 exNS exOracles, holdsC14 true 2 r.ts r.xs r.dx r.tx r.tdx = none :=
  holdsC14_model 3 2 2 exNS exNS_wf exOracles exOracles_ok

example : ((records 3 2 2 exNS exOracles).map fun r => (r.ts.length, r.xs.length, r.tx.length,
    r.dx.map List.length, r.tdx.map List.length)) = [(2, 3, 6, some 2, some 4), (2, 3, 6, some 2, some 4)] := by
  decide

example : ∃ ts xs dx out,
    (Minibatch.run 2 exNS.times (exOracles.map (·.2.2))).2[1]? = some ts ∧
    (Minibatch.run 3 exNS.omega (exOracles.map (·.1))).2[1]? = some xs ∧
    (Border.run 2 exNS.border (exOracles.map (·.2.1))).2[1]? = some dx ∧
    (runNS 3 2 2 exNS exOracles).2[1]? = some out ∧
    holdsC14 exNS.cart exNS.dim ts xs dx out.1 out.2 = none :=
  holdsC14_runNS 3 2 2 exNS exNS_wf exOracles exOracles_ok 1 (by decide)

/-- `holdsC14_combine` in pairing mode, 2-D: two times, two points, two border rows -/
example : holdsC14 false 2 [7, 8] [[1, 2], [3, 4]]
    (some [[[0, 9, 1, 2], [3, 4, 0, 9]], [[0, 9, 5, 6], [7, 8, 0, 9]]])
    (combine false 2 [[1, 2], [3, 4]] (some [[[0, 9, 1, 2], [3, 4, 0, 9]], [[0, 9, 5, 6], [7, 8, 0, 9]]]) [7, 8]).1
    (combine false 2 [[1, 2], [3, 4]] (some [[[0, 9, 1, 2], [3, 4, 0, 9]], [[0, 9, 5, 6], [7, 8, 0, 9]]]) [7, 8]).2
    = none := by
  apply holdsC14_combine
  · intro r hr; simp at hr; rcases hr with rfl | rfl <;> rfl
  · intro d hd
    simp only [Option.some.injEq] at hd
    subst hd
    intro row hrow
    simp only [List.mem_cons, List.not_mem_nil, or_false] at hrow
    rcases hrow with rfl | rfl <;> simp
  · intro _; rfl
  · intro _ d hd
    simp only [Option.some.injEq] at hd
    subst hd; rfl

/-- a pairing-mode state satisfying the guard (bt = b = bb = 2) is well-formed too -/
example : WF { exNS with omega := init [[1, 2], [3, 4], [5, 6]] 2, cart := false } := by
  refine ⟨exNS_wf.omega, exNS_wf.fixed, exNS_wf.facets, ?_, ?_⟩
  · intro _; simp [exNS, init]
  · intro _ m hm
    simp only [exNS, Border.facets.injEq] at hm
    subst hm
    simp [exNS, init]

end Jinns.Cartesian

/-! ## C04 -/

namespace Jinns.Boundary
open Jinns.LossTerms Jinns.Holds

/-! ### a boundary configuration given by exact value tables

These are the data of the driver's `BoundaryCase` (`JinnsDriver/C03.lean`): the user's functions are
value tables keyed by the border point, read by `tabFn` / `jtabFn` (a missing key reads `[]`).
`FacetCfg.toSpec` is the driver's `BoundaryCase.spec` (how the model's `FacetSpec` is built from a
table) and `FacetCfg.toFacet04` the driver's `toFacet` (how the argument of `Holds.C04` is built from
the same table); `m` is the number of output components of the network. -/

abbrev Tab := List (List ℚ × List ℚ)
abbrev JTab := List (List ℚ × List (List ℚ))

def tabFn (t : Tab) (k : List ℚ) : List ℚ := (t.lookup k).getD []
def jtabFn (t : JTab) (k : List ℚ) : List (List ℚ) := (t.lookup k).getD []

/-- what is configured on one facet: condition, component selection, the table of `f` and whether
    `f` returns a 0-d scalar (`retScalar`) or a 1-D array -/
structure FacetCfg where
  cond      : Cond
  dim       : Slice
  ftab      : Tab
  retScalar : Bool

def FacetCfg.toSpec (f : FacetCfg) : FacetSpec :=
  { cond := f.cond, dim := f.dim,
    f := fun p => if f.retScalar then .scalar ((tabFn f.ftab p).headD 0) else .vec (tabFn f.ftab p) }

/-- first selected component -/
def FacetCfg.lo (f : FacetCfg) : Nat :=
  match f.dim with
  | none => 0
  | some (a, _) => a

/-- end of the selected components, for a network with `m` outputs -/
def FacetCfg.hi (f : FacetCfg) (m : Nat) : Nat :=
  match f.dim with
  | none => m
  | some (_, e) => min e m

def FacetCfg.toFacet04 (m : Nat) (f : FacetCfg) : Facet04 :=
  { neumann := f.cond == .neumann, lo := f.lo, hi := f.hi m, ftab := f.ftab }

/-- one condition for all facets, or one optional condition per facet -/
inductive CfgSpec where
  | global (f : FacetCfg)
  | perFacet (l : List (Option FacetCfg))

/-- the per-facet list a specification stands for on a batch with `nF` facets -/
def CfgSpec.expand (nF : Nat) : CfgSpec → List (Option FacetCfg)
  | .global f => List.replicate nF (some f)
  | .perFacet l => l

def CfgSpec.toSpec : CfgSpec → Spec
  | .global f => .global f.toSpec
  | .perFacet l => .perFacet (l.map fun o => o.map FacetCfg.toSpec)

structure Cfg where
  w       : ℚ
  spec    : CfgSpec
  border  : Border
  hasTime : Bool
  utab    : Tab
  jtab    : JTab

/-- the model's boundary term (PINN branch), the driver's `BoundaryCase.value` -/
def Cfg.value (c : Cfg) : ℚ :=
  boundary c.w c.spec.toSpec c.hasTime (tabFn c.utab) (jtabFn c.jtab) c.border

/-- the facets handed to `Holds.C04` (as in `handleC04`) -/
def Cfg.facets04 (c : Cfg) (m : Nat) : List (Option Facet04) :=
  match c.spec with
  | .global f => List.replicate (nFacets c.border) (some (f.toFacet04 m))
  | .perFacet l => l.map fun o => o.map (FacetCfg.toFacet04 m)

/-! ### the model's re-evaluations (the three metamorphic variants of the harness) -/

/-- `f` returning the other shape, for a single-valued `f` (0-d scalar ↔ length-one array) -/
def FacetCfg.flip (f : FacetCfg) : FacetCfg :=
  if f.ftab.all (fun e => e.2.length == 1) then { f with retScalar := !f.retScalar } else f

def CfgSpec.flip : CfgSpec → CfgSpec
  | .global f => .global f.flip
  | .perFacet l => .perFacet (l.map fun o => o.map FacetCfg.flip)

def Cfg.flipShape (c : Cfg) : Cfg := { c with spec := c.spec.flip }

/-- the rows of the batch duplicated (twice as many time points, same time set) -/
def Cfg.dupRows (c : Cfg) : Cfg := { c with border := c.border ++ c.border }

/-- the observation of the boundary term the model predicts: its own value, and (each optional) its
    values on the three variants; `sp` is another specification standing for the same per-facet
    conditions (global ↔ dictionary) -/
def modelObs04 (c : Cfg) (m : Nat) (tol : ℚ) (sh td : Bool) (sp : Option CfgSpec) : Obs04 :=
  { hasTime := c.hasTime, timesCross := false, w := c.w, border := c.border, facets := c.facets04 m,
    utab := c.utab, jtab := c.jtab, value := c.value,
    otherShape := if sh then some c.flipShape.value else none,
    timeDup := if td then some c.dupRows.value else none,
    otherSpec := sp.map fun s => ({ c with spec := s } : Cfg).value,
    tol := tol }

/-! ### hypotheses -/

/-- what the tables must provide at the points `pts` where a facet configured with `fc` is evaluated:
    the network table has the `m` output components (value table for Dirichlet, derivative table for
    Neumann), the point is in the table of `f`, and `f`'s value is a single number, or — for an `f`
    returning an array — has (at least) one entry per selected component (numpy's broadcasting rule). -/
def FacetOKAt (pts : List (List ℚ)) (utab : Tab) (jtab : JTab) (m : Nat) (fc : FacetCfg) : Prop :=
  ∀ p ∈ pts,
    (fc.cond = .dirichlet → (tabFn utab p).length = m) ∧
    (fc.cond = .neumann → (jtabFn jtab p).length = m) ∧
    (fc.ftab.lookup p).isSome = true ∧
    ((tabFn fc.ftab p).length = 1 ∨
      (fc.retScalar = false ∧ fc.hi m - fc.lo ≤ (tabFn fc.ftab p).length))

/-- … at the border points of facet `k` (the rows of `border[..., k]`) -/
def FacetOK (border : Border) (utab : Tab) (jtab : JTab) (m k : Nat) (fc : FacetCfg) : Prop :=
  FacetOKAt (facetPts border k) utab jtab m fc

/-- the batch is the border of a 1-D or 2-D box (`2·d` facets), the specification has one entry per
    facet (a dictionary with other keys is rejected), and every configured facet is `FacetOK` -/
structure Valid (c : Cfg) (m : Nat) : Prop where
  dim : spaceDim c.hasTime c.border = 1 ∨ spaceDim c.hasTime c.border = 2
  nF : nFacets c.border = 2 * spaceDim c.hasTime c.border
  len : (c.spec.expand (nFacets c.border)).length = nFacets c.border
  ok : ∀ k fc, (c.spec.expand (nFacets c.border))[k]? = some (some fc) → FacetOK c.border c.utab c.jtab m k fc

/-! ### per point -/

theorem sub_sq_eq_range (v bc : List ℚ) (hl : v.length ≤ bc.length) :
    (sub v bc).map sqr =
      (List.range v.length).map fun c => (v.getD c 0 - bc.getD c 0) * (v.getD c 0 - bc.getD c 0) := by
  apply List.ext_getElem
  · simp [sub]; omega
  · intro i h1 h2
    have hi : i < v.length := by simpa using h2
    have hi' : i < bc.length := by omega
    simp [sub, sqr, List.getD_eq_getElem?_getD, List.getElem?_eq_getElem hi, List.getElem?_eq_getElem hi']

theorem slice_length_eq {α : Type} (fc : FacetCfg) (m : Nat) (l : List α) (hl : l.length = m) :
    (fc.dim.apply l).length = fc.hi m - fc.lo := by
  unfold FacetCfg.hi FacetCfg.lo
  cases fc.dim with
  | none => simp [Slice.apply, hl]
  | some ae =>
    obtain ⟨a, e⟩ := ae
    simp only [Slice.apply, List.length_take, List.length_drop]
    omega

theorem slice_getElem? {α : Type} (fc : FacetCfg) (m : Nat) (l : List α) (c : Nat)
    (hc : c < fc.hi m - fc.lo) : (fc.dim.apply l)[c]? = l[fc.lo + c]? := by
  unfold FacetCfg.hi FacetCfg.lo at *
  cases hd : fc.dim with
  | none => simp [Slice.apply]
  | some ae =>
    obtain ⟨a, e⟩ := ae
    rw [hd] at hc
    simp only at hc
    simp only [Slice.apply, List.getElem?_take, List.getElem?_drop]
    rw [if_pos (by omega)]

/-- the value `Holds.C04` subtracts for component `c` -/
def fAt (fv : List ℚ) (c : Nat) : ℚ := if fv.length = 1 then fv.headD 0 else fv.getD c 0

theorem bcast_ok (fc : FacetCfg) (p : List ℚ) (n : Nat)
    (h : (tabFn fc.ftab p).length = 1 ∨ (fc.retScalar = false ∧ n ≤ (tabFn fc.ftab p).length)) :
    n ≤ ((fc.toSpec.f p).bcast n).length ∧
    ∀ c, c < n → ((fc.toSpec.f p).bcast n).getD c 0 = fAt (tabFn fc.ftab p) c := by
  simp only [FacetCfg.toSpec]
  by_cases h1 : (tabFn fc.ftab p).length = 1
  · cases fc.retScalar <;> simp [FRet.bcast, fAt, h1] <;> intro c hc <;> simp [hc]
  · obtain ⟨hs, hn⟩ := h.resolve_left h1
    simp [hs, FRet.bcast, h1, fAt, hn]

theorem c04Point_eq (o : Obs04) (fc : Facet04) (d k : Nat) (p : List ℚ) :
    c04Point o fc d k p =
      ((List.range (fc.hi - fc.lo)).map fun c =>
        ((if fc.neumann then
            (List.zipWith (fun nj gj => nj * gj) (c04Outward d k)
              ((c04Lookup o.jtab p []).getD (fc.lo + c) [])).sum
          else (c04Lookup o.utab p []).getD (fc.lo + c) 0) - fAt (c04Lookup fc.ftab p []) c) *
        ((if fc.neumann then
            (List.zipWith (fun nj gj => nj * gj) (c04Outward d k)
              ((c04Lookup o.jtab p []).getD (fc.lo + c) [])).sum
          else (c04Lookup o.utab p []).getD (fc.lo + c) 0) - fAt (c04Lookup fc.ftab p []) c)).sum := rfl

theorem dot_comm_zip (g n : List ℚ) :
    dot g n = (List.zipWith (fun nj gj => nj * gj) n g).sum := by
  unfold dot
  rw [List.zipWith_comm]
  congr 1
  apply congrArg (fun f => List.zipWith f n g)
  funext a b
  exact mul_comm b a

/-- **per point**: the model's squared mismatch, summed over the selected components, is the
    quantity `Holds.C04` states (with the outward normal of the facet for a Neumann condition) -/
theorem point_eq (o : Obs04) (m d k : Nat) (fc : FacetCfg) (p : List ℚ)
    (hn : fc.cond = .neumann → normal d k = outward d k)
    (hu : fc.cond = .dirichlet → (tabFn o.utab p).length = m)
    (hj : fc.cond = .neumann → (jtabFn o.jtab p).length = m)
    (hf : (tabFn fc.ftab p).length = 1 ∨
      (fc.retScalar = false ∧ fc.hi m - fc.lo ≤ (tabFn fc.ftab p).length)) :
    ((mismatch fc.toSpec (normal d k) (tabFn o.utab) (jtabFn o.jtab) p).map sqr).sum =
      c04Point o (fc.toFacet04 m) d k p := by
  rw [c04Point_eq]
  cases hc : fc.cond with
  | dirichlet =>
    have hlen := slice_length_eq fc m (tabFn o.utab p) (hu hc)
    have hmm : mismatch fc.toSpec (normal d k) (tabFn o.utab) (jtabFn o.jtab) p
        = sub (fc.dim.apply (tabFn o.utab p))
            ((fc.toSpec.f p).bcast (fc.dim.apply (tabFn o.utab p)).length) := by
      simp [mismatch, FacetCfg.toSpec, hc]
    obtain ⟨hb1, hb2⟩ := bcast_ok fc p (fc.hi m - fc.lo) hf
    rw [hmm, hlen, sub_sq_eq_range _ _ (by rw [hlen]; exact hb1), hlen]
    congr 1
    apply List.map_congr_left
    intro c hcm
    have hc' : c < fc.hi m - fc.lo := List.mem_range.1 hcm
    have e1 : (fc.dim.apply (tabFn o.utab p)).getD c 0 = (tabFn o.utab p).getD (fc.lo + c) 0 := by
      simp only [List.getD_eq_getElem?_getD, slice_getElem? fc m _ c hc']
    have e2 := hb2 c hc'
    simp only [FacetCfg.toFacet04, hc, e1, e2]
    rfl
  | neumann =>
    have hlen := slice_length_eq fc m (jtabFn o.jtab p) (hj hc)
    have hmm : mismatch fc.toSpec (normal d k) (tabFn o.utab) (jtabFn o.jtab) p
        = sub ((fc.dim.apply (jtabFn o.jtab p)).map fun grad => dot grad (normal d k))
            ((fc.toSpec.f p).bcast
              ((fc.dim.apply (jtabFn o.jtab p)).map fun grad => dot grad (normal d k)).length) := by
      simp [mismatch, FacetCfg.toSpec, hc]
    have hlen' : ((fc.dim.apply (jtabFn o.jtab p)).map fun grad => dot grad (normal d k)).length
        = fc.hi m - fc.lo := by rw [List.length_map, hlen]
    obtain ⟨hb1, hb2⟩ := bcast_ok fc p (fc.hi m - fc.lo) hf
    rw [hmm, hlen', sub_sq_eq_range _ _ (by rw [hlen']; exact hb1), hlen']
    congr 1
    apply List.map_congr_left
    intro c hcm
    have hc' : c < fc.hi m - fc.lo := List.mem_range.1 hcm
    have e1 : ((fc.dim.apply (jtabFn o.jtab p)).map fun grad => dot grad (normal d k)).getD c 0
        = (List.zipWith (fun nj gj => nj * gj) (c04Outward d k)
            ((jtabFn o.jtab p).getD (fc.lo + c) [])).sum := by
      have hlt : c < (fc.dim.apply (jtabFn o.jtab p)).length := by rw [hlen]; exact hc'
      have hs := slice_getElem? fc m (jtabFn o.jtab p) c hc'
      rw [List.getElem?_eq_getElem hlt] at hs
      simp only [List.getD_eq_getElem?_getD, List.getElem?_map, List.getElem?_eq_getElem hlt,
        Option.map_some, Option.getD_some, ← hs, hn hc, dot_comm_zip]
      rfl
    have e2 := hb2 c hc'
    simp only [FacetCfg.toFacet04, hc, e1, e2]
    rfl

/-! ### per facet, and the sum over the facets -/

theorem nCoords_eq_headD (b : Border) : nCoords b = (b.headD []).length := by cases b <;> rfl

/-- **per facet**: the model's facet term is `w` × the mean over the facet's own points of the
    quantity `Holds.C04` states -/
theorem facet_eq (o : Obs04) (hasTime : Bool) (m k : Nat) (fc : FacetCfg) (htc : o.timesCross = false)
    (hn : fc.cond = .neumann →
      normal (spaceDim hasTime o.border) k = outward (spaceDim hasTime o.border) k)
    (hok : FacetOK o.border o.utab o.jtab m k fc) :
    facetLoss o.w fc.toSpec hasTime (tabFn o.utab) (jtabFn o.jtab) o.border k =
      c04Facet o (spaceDim hasTime o.border) k (fc.toFacet04 m) := by
  unfold facetLoss c04Facet
  rw [mean_map_mul_left]
  simp only [htc, Bool.false_eq_true, if_false]
  have hpts : c04FacetPts o.border k = facetPts o.border k := rfl
  rw [hpts]
  unfold mean
  rw [List.length_map]
  congr 2
  apply congrArg List.sum
  apply List.map_congr_left
  intro p hp
  obtain ⟨h1, h2, _, h4⟩ := hok p hp
  exact point_eq o m _ k fc p hn h1 h2 h4

theorem toSpec_facets (s : CfgSpec) (b : Border) :
    s.toSpec.facets b = (s.expand (nFacets b)).map fun o => o.map FacetCfg.toSpec := by
  cases s <;> simp [CfgSpec.toSpec, Spec.facets, CfgSpec.expand]

theorem facets04_eq (c : Cfg) (m : Nat) :
    c.facets04 m = (c.spec.expand (nFacets c.border)).map fun o => o.map (FacetCfg.toFacet04 m) := by
  unfold Cfg.facets04
  cases c.spec <;> simp [CfgSpec.expand]

/-- what `Holds.C04` expects for the configuration (it reads neither the observed values nor the
    tolerance) -/
def Cfg.expected (c : Cfg) (m : Nat) : ℚ :=
  c04Expected { hasTime := c.hasTime, timesCross := false, w := c.w, border := c.border,
                facets := c.facets04 m, utab := c.utab, jtab := c.jtab, value := 0,
                otherShape := none, timeDup := none, otherSpec := none, tol := 0 }

theorem expected_modelObs (c : Cfg) (m : Nat) (tol : ℚ) (sh td : Bool) (sp : Option CfgSpec) :
    c04Expected (modelObs04 c m tol sh td sp) = c.expected m := rfl

/-- **the model's boundary term is exactly the value `Holds.C04` states** (sum over the facets that
    carry a condition of `w` × mean squared mismatch, outward normal for Neumann), for every valid
    configuration -/
theorem value_eq_expected (c : Cfg) (m : Nat) (hv : Valid c m) : c.value = c.expected m := by
  unfold Cfg.value Cfg.expected c04Expected
  rw [boundary_eq_sum_facets, toSpec_facets]
  simp only [facets04_eq, List.length_map]
  apply congrArg List.sum
  apply List.map_congr_left
  intro k hk
  have hk' : k < (c.spec.expand (nFacets c.border)).length := List.mem_range.1 hk
  have hd : (c.border.headD []).length - (if c.hasTime = true then 1 else 0)
      = spaceDim c.hasTime c.border := by
    unfold spaceDim; rw [nCoords_eq_headD]
  rw [hd]
  simp only [contribution, List.getD_eq_getElem?_getD, List.getElem?_map,
    List.getElem?_eq_getElem hk', Option.map_some, Option.getD_some]
  cases hfc : (c.spec.expand (nFacets c.border))[k] with
  | none => rfl
  | some fc =>
    simp only [Option.map_some]
    have hget : (c.spec.expand (nFacets c.border))[k]? = some (some fc) := by
      rw [List.getElem?_eq_getElem hk', hfc]
    have hk2 : k < 2 * spaceDim c.hasTime c.border := by
      rw [← hv.nF, ← hv.len]; exact hk'
    exact facet_eq
      { hasTime := c.hasTime, timesCross := false, w := c.w, border := c.border,
        facets := (c.spec.expand (nFacets c.border)).map fun o => o.map (FacetCfg.toFacet04 m),
        utab := c.utab, jtab := c.jtab, value := 0,
        otherShape := none, timeDup := none, otherSpec := none, tol := 0 }
      c.hasTime m k fc rfl (fun _ => normal_eq_outward _ _ hv.dim hk2) (hv.ok k fc hget)

/-! ### the three variants -/

theorem lookup_mem {β : Type} (t : List (List ℚ × β)) (p : List ℚ) (v : β) (h : t.lookup p = some v) :
    ∃ e ∈ t, e.2 = v := by
  induction t with
  | nil => simp at h
  | cons e t ih =>
    obtain ⟨a, b⟩ := e
    rw [List.lookup_cons] at h
    cases hpa : (p == a) with
    | true =>
      rw [hpa] at h
      exact ⟨(a, b), List.mem_cons_self, Option.some.inj h⟩
    | false =>
      rw [hpa] at h
      obtain ⟨e, he, hv⟩ := ih h
      exact ⟨e, List.mem_cons_of_mem _ he, hv⟩

theorem flip_toFacet04 (m : Nat) (f : FacetCfg) : f.flip.toFacet04 m = f.toFacet04 m := by
  unfold FacetCfg.flip
  split <;> rfl

theorem flip_expand (s : CfgSpec) (nF : Nat) :
    s.flip.expand nF = (s.expand nF).map fun o => o.map FacetCfg.flip := by
  cases s <;> simp [CfgSpec.flip, CfgSpec.expand]

theorem flip_facetOKAt (pts : List (List ℚ)) (utab : Tab) (jtab : JTab) (m : Nat) (fc : FacetCfg)
    (h : FacetOKAt pts utab jtab m fc) : FacetOKAt pts utab jtab m fc.flip := by
  intro p hp
  obtain ⟨h1, h2, h3, h4⟩ := h p hp
  unfold FacetCfg.flip
  split
  · rename_i hall
    refine ⟨h1, h2, h3, Or.inl ?_⟩
    obtain ⟨v, hv⟩ := Option.isSome_iff_exists.1 h3
    obtain ⟨e, he, hev⟩ := lookup_mem fc.ftab p v hv
    have := List.all_eq_true.1 hall e he
    simp only [beq_iff_eq] at this
    simp only [tabFn, hv, Option.getD_some, ← hev, this]
  · exact ⟨h1, h2, h3, h4⟩

theorem flip_facetOK (border : Border) (utab : Tab) (jtab : JTab) (m k : Nat) (fc : FacetCfg)
    (h : FacetOK border utab jtab m k fc) : FacetOK border utab jtab m k fc.flip :=
  flip_facetOKAt _ utab jtab m fc h

theorem flip_valid (c : Cfg) (m : Nat) (hv : Valid c m) : Valid c.flipShape m := by
  refine ⟨hv.dim, hv.nF, ?_, ?_⟩
  · show (c.spec.flip.expand (nFacets c.border)).length = nFacets c.border
    rw [flip_expand, List.length_map]; exact hv.len
  · intro k fc' hk
    have hk' : (c.spec.flip.expand (nFacets c.border))[k]? = some (some fc') := hk
    rw [flip_expand, List.getElem?_map] at hk'
    cases hfc : (c.spec.expand (nFacets c.border))[k]? with
    | none => rw [hfc] at hk'; simp at hk'
    | some ofc =>
      rw [hfc] at hk'
      cases ofc with
      | none => simp at hk'
      | some fc =>
        simp only [Option.map_some, Option.some.injEq] at hk'
        subst hk'
        exact flip_facetOK c.border c.utab c.jtab m k fc (hv.ok k fc hfc)

theorem flip_expected (c : Cfg) (m : Nat) : c.flipShape.expected m = c.expected m := by
  have hfac : c.flipShape.facets04 m = c.facets04 m := by
    rw [facets04_eq, facets04_eq]
    show List.map _ (c.spec.flip.expand (nFacets c.border)) = _
    rw [flip_expand, List.map_map]
    apply List.map_congr_left
    intro o _
    cases o <;> simp [flip_toFacet04]
  unfold Cfg.expected
  rw [hfac]
  rfl

/-- **`f` returning the other shape**: the model's value does not change -/
theorem flip_value (c : Cfg) (m : Nat) (hv : Valid c m) : c.flipShape.value = c.value := by
  rw [value_eq_expected c.flipShape m (flip_valid c m hv), flip_expected, ← value_eq_expected c m hv]

theorem nFacets_dup (b : Border) : nFacets (b ++ b) = nFacets b := by
  cases b with
  | nil => rfl
  | cons row rest => cases row <;> rfl

/-- **the rows of the batch duplicated**: the model's value does not change (`facetLoss_dup_rows`) -/
theorem dup_value (c : Cfg) : c.dupRows.value = c.value := by
  unfold Cfg.value Cfg.dupRows boundary
  have hf : c.spec.toSpec.facets (c.border ++ c.border) = c.spec.toSpec.facets c.border := by
    cases c.spec.toSpec <;> simp [Spec.facets, nFacets_dup]
  simp only [hf, facetLoss_dup_rows]

/-- **the same conditions given the other way** (any specification with the same per-facet list) -/
theorem otherSpec_value (c : Cfg) (s : CfgSpec)
    (hs : s.expand (nFacets c.border) = c.spec.expand (nFacets c.border)) :
    ({ c with spec := s } : Cfg).value = c.value := by
  unfold Cfg.value boundary
  simp only [toSpec_facets, hs]

/-- a global condition and the dictionary repeating it on every facet are such a pair -/
theorem expand_global_perFacet (f : FacetCfg) (nF : Nat) :
    (CfgSpec.perFacet (List.replicate nF (some f))).expand nF = (CfgSpec.global f).expand nF := rfl

/-! ### the theorem -/

theorem c04Close_self (tol a : ℚ) (h : 0 ≤ tol) : c04Close tol a a = true := by
  simp [c04Close, c04Abs, h]

/-- **`Holds.C04` is satisfied by every model trace**: for every valid configuration (1-D or 2-D box,
    stationary or not, any number of border rows / time points, any weight, global specification or
    per-facet dictionary mixing `none`, Dirichlet and Neumann facets, any component selection, any
    value tables of the network, its derivatives and the boundary functions, `f` returning a scalar or
    an array), the observation made of the model's own boundary term and of its own re-evaluations
    on the three variants (each present or absent) satisfies `Holds.C04`, for every tolerance `≥ 0`. -/
theorem holdsC04_model (c : Cfg) (m : Nat) (tol : ℚ) (sh td : Bool) (sp : Option CfgSpec)
    (hv : Valid c m) (htol : 0 ≤ tol)
    (hsp : ∀ s, sp = some s → s.expand (nFacets c.border) = c.spec.expand (nFacets c.border)) :
    holdsC04 (modelObs04 c m tol sh td sp) = none := by
  have h2 : (0 : ℚ) ≤ 2 * tol := by linarith
  have hE : c04Expected (modelObs04 c m tol sh td sp) = c.value := by
    rw [expected_modelObs, value_eq_expected c m hv]
  unfold holdsC04
  rw [hE]
  have hval : (modelObs04 c m tol sh td sp).value = c.value := rfl
  have hsh : (modelObs04 c m tol sh td sp).otherShape = if sh then some c.value else none := by
    simp only [modelObs04, flip_value c m hv]
  have htd : (modelObs04 c m tol sh td sp).timeDup = if td then some c.value else none := by
    simp only [modelObs04, dup_value]
  have hspv : (modelObs04 c m tol sh td sp).otherSpec = sp.map fun _ => c.value := by
    cases sp with
    | none => rfl
    | some s => simp only [modelObs04, Option.map_some, otherSpec_value c s (hsp s rfl)]
  have htl : (modelObs04 c m tol sh td sp).tol = tol := rfl
  rw [hval, hsh, htd, hspv, htl]
  cases sh <;> cases td <;> cases sp <;>
    simp [c04Close_self _ _ htol, c04Close_self _ _ h2]

/-! ### non-vacuity

A 2-D non-stationary case with two time points (`t = 0, 3`), box `[0,2]²`, one border point per facet
and time; network `u = (t + x² + y, x·y)` (`m = 2`), so `∇u₀ = (2x, 1)`, `∇u₁ = (y, x)`.
Dictionary: xmin — Neumann on component 0 (`f` a length-one array), xmax — `None`,
ymin — Dirichlet on both components (`f` an array of two), ymax — Neumann on component 1
(`f` a 0-d scalar).  Weight `1/2`. -/

def exBorder : Border :=
  [[[0, 0, 0, 0], [0, 2, 1, 1], [1, 1, 0, 2]], [[3, 3, 3, 3], [0, 2, 1, 1], [1, 1, 0, 2]]]

def exCfg : Cfg :=
  { w := 1/2,
    spec := .perFacet
      [some { cond := .neumann, dim := some (0, 1), ftab := [([0, 0, 1], [1]), ([3, 0, 1], [1])],
              retScalar := false },
       none,
       some { cond := .dirichlet, dim := none, ftab := [([0, 1, 0], [1, 0]), ([3, 1, 0], [3, 1])],
              retScalar := false },
       some { cond := .neumann, dim := some (1, 2), ftab := [([0, 1, 2], [3]), ([3, 1, 2], [1])],
              retScalar := true }],
    border := exBorder, hasTime := true,
    utab := [([0, 1, 0], [1, 0]), ([3, 1, 0], [4, 0])],
    jtab := [([0, 0, 1], [[0, 1], [1, 0]]), ([3, 0, 1], [[0, 1], [1, 0]]),
             ([0, 1, 2], [[2, 1], [2, 1]]), ([3, 1, 2], [[2, 1], [2, 1]])] }

theorem lookup_cons_if {β : Type} (p a : List ℚ) (b : β) (t : List (List ℚ × β)) :
    List.lookup p ((a, b) :: t) = if p = a then some b else List.lookup p t := by
  rw [List.lookup_cons]
  by_cases h : p = a
  · simp [h]
  · have hb : (p == a) = false := by simpa using h
    rw [hb, if_neg h]

theorem exCfg_valid : Valid exCfg 2 := by
  refine ⟨Or.inr rfl, rfl, rfl, ?_⟩
  intro k fc hk
  match k with
  | 0 =>
    simp only [exCfg, CfgSpec.expand, List.getElem?_cons_zero, Option.some.injEq] at hk
    subst hk
    intro p hp
    simp only [exCfg, exBorder, facetPts, List.map_cons, List.map_nil, List.mem_cons, List.not_mem_nil,
      or_false] at hp
    rcases hp with rfl | rfl <;>
      norm_num [reduceCtorEq, tabFn, jtabFn, exCfg, lookup_cons_if, FacetCfg.hi, FacetCfg.lo] <;> decide
  | 1 => simp [exCfg, CfgSpec.expand] at hk
  | 2 =>
    simp only [exCfg, CfgSpec.expand, List.getElem?_cons_succ, List.getElem?_cons_zero,
      Option.some.injEq] at hk
    subst hk
    intro p hp
    simp only [exCfg, exBorder, facetPts, List.map_cons, List.map_nil, List.mem_cons, List.not_mem_nil,
      or_false] at hp
    rcases hp with rfl | rfl <;>
      norm_num [reduceCtorEq, tabFn, jtabFn, exCfg, lookup_cons_if, FacetCfg.hi, FacetCfg.lo] <;> decide
  | 3 =>
    simp only [exCfg, CfgSpec.expand, List.getElem?_cons_succ, List.getElem?_cons_zero,
      Option.some.injEq] at hk
    subst hk
    intro p hp
    simp only [exCfg, exBorder, facetPts, List.map_cons, List.map_nil, List.mem_cons, List.not_mem_nil,
      or_false] at hp
    rcases hp with rfl | rfl <;>
      norm_num [reduceCtorEq, tabFn, jtabFn, exCfg, lookup_cons_if, FacetCfg.hi, FacetCfg.lo] <;> decide
  | k + 4 => simp [exCfg, CfgSpec.expand] at hk

/-- the instance is not trivial: each configured facet contributes (`1/2 + 1/2 + 1`) -/
example : exCfg.value = 2 := by
  norm_num [Cfg.value, boundary, exCfg, CfgSpec.toSpec, Spec.facets, sumFacets, facetLoss, facetPts,
    exBorder, mismatch, FacetCfg.toSpec, normal, normal2, spaceDim, nCoords, Slice.apply, dot,
    FRet.bcast, LossTerms.sub, mean, LossTerms.sqr, tabFn, jtabFn, lookup_cons_if]

/-- the theorem applies (all three variants present; the "other specification" is the same
    dictionary), with tolerance `0` -/
example : holdsC04 (modelObs04 exCfg 2 0 true true (some exCfg.spec)) = none :=
  holdsC04_model exCfg 2 0 true true (some exCfg.spec) exCfg_valid (le_refl 0)
    (fun s hs => by rw [← Option.some.inj hs])

/-! ### separable networks, stationary batches

`boundarySpinn` averages over the tensor grid of the facet's coordinate columns.  On a stationary
border batch (1-D: a single column; 2-D: every facet has one coordinate pinned) this is the
row-by-row term (`facetLossSpinn_eq_facetLoss_2d`), so the SPINN value of the model satisfies
`Holds.C04` as well (`timesCross = grid && hasTime = false`; the harness makes no time-duplicated
variant of a stationary case). -/

/-- the model's boundary term, SPINN branch (the driver's `BoundaryCase.value` when `grid`) -/
def Cfg.valueSpinn (c : Cfg) : ℚ :=
  boundarySpinn c.w c.spec.toSpec c.hasTime (tabFn c.utab) (jtabFn c.jtab) c.border

/-- the rows of facet `k` are `(x)` (1-D), or `(x, y)` with `x` or `y` constant (2-D) -/
def PinnedS (b : Border) (k : Nat) : Prop :=
  (nCoords b = 1 ∧ ∀ q ∈ facetPts b k, ∃ x, q = [x]) ∨
  (nCoords b = 2 ∧ ∃ cst : ℚ,
    (∀ q ∈ facetPts b k, ∃ y, q = [cst, y]) ∨ (∀ q ∈ facetPts b k, ∃ x, q = [x, cst]))

/-- 1-D stationary rows `(x)`: the SPINN grid is the list of rows -/
theorem grid1_eq (pts : List (List ℚ)) (h : ∀ q ∈ pts, ∃ x, q = [x]) : gridPts 1 pts = pts := by
  have e : gridPts 1 pts = cart [pts.map fun q => q.getD 0 0] := rfl
  rw [e]
  simp only [cart, List.map_cons, List.map_nil, flatMap_single, List.map_map]
  conv => rhs; rw [← List.map_id pts]
  apply List.map_congr_left
  intro q hq
  obtain ⟨x, rfl⟩ := h q hq
  simp

def modelObs04Spinn (c : Cfg) (m : Nat) (tol : ℚ) (sh : Bool) (sp : Option CfgSpec) : Obs04 :=
  { hasTime := c.hasTime, timesCross := true && c.hasTime, w := c.w, border := c.border,
    facets := c.facets04 m, utab := c.utab, jtab := c.jtab, value := c.valueSpinn,
    otherShape := if sh then some c.flipShape.valueSpinn else none,
    timeDup := none,
    otherSpec := sp.map fun s => ({ c with spec := s } : Cfg).valueSpinn,
    tol := tol }

/-- **stationary SPINN value = row-by-row value** -/
theorem valueSpinn_eq_value (c : Cfg) (hst : c.hasTime = false)
    (hne : c.border ≠ []) (hpin : ∀ k, k < nFacets c.border → PinnedS c.border k)
    (hlen : (c.spec.expand (nFacets c.border)).length = nFacets c.border) :
    c.valueSpinn = c.value := by
  unfold Cfg.valueSpinn Cfg.value
  rw [boundarySpinn_eq_sum_facets, boundary_eq_sum_facets, toSpec_facets, List.length_map]
  apply congrArg List.sum
  apply List.map_congr_left
  intro k hk
  have hk' : k < nFacets c.border := by rw [← hlen]; exact List.mem_range.1 hk
  unfold contribution
  split
  · rw [hst]
    rcases hpin k hk' with ⟨h1, hp⟩ | ⟨hnc, cst, hp⟩
    · show facetLossSpinn c.w _ false (tabFn c.utab) (jtabFn c.jtab) c.border k
          = facetLoss c.w _ false (tabFn c.utab) (jtabFn c.jtab) c.border k
      unfold facetLossSpinn facetLoss
      rw [h1, grid1_eq _ hp]
    · exact facetLossSpinn_eq_facetLoss_2d c.w _ _ _ c.border k cst hnc hne hp
  · rfl

/-- **`Holds.C04` is satisfied by the model's SPINN boundary term on every valid stationary
    configuration** (1-D or 2-D, any number of rows, any conditions / tables; shape and specification
    variants present or absent). -/
theorem holdsC04_model_spinn_statio (c : Cfg) (m : Nat) (tol : ℚ) (sh : Bool) (sp : Option CfgSpec)
    (hv : Valid c m) (htol : 0 ≤ tol)
    (hsp : ∀ s, sp = some s → s.expand (nFacets c.border) = c.spec.expand (nFacets c.border))
    (hst : c.hasTime = false) (hne : c.border ≠ [])
    (hpin : ∀ k, k < nFacets c.border → PinnedS c.border k) :
    holdsC04 (modelObs04Spinn c m tol sh sp) = none := by
  have e0 := valueSpinn_eq_value c hst hne hpin hv.len
  have e1 : c.flipShape.valueSpinn = c.flipShape.value :=
    valueSpinn_eq_value c.flipShape hst hne hpin (flip_valid c m hv).len
  have e2 : ∀ s, sp = some s → ({ c with spec := s } : Cfg).valueSpinn = ({ c with spec := s } : Cfg).value := by
    intro s hs
    refine valueSpinn_eq_value { c with spec := s } hst hne hpin ?_
    show (s.expand (nFacets c.border)).length = nFacets c.border
    rw [hsp s hs]; exact hv.len
  have : modelObs04Spinn c m tol sh sp = modelObs04 c m tol sh false sp := by
    unfold modelObs04Spinn modelObs04
    cases sp with
    | none => rw [e0, e1, hst]; rfl
    | some s =>
      simp only [Option.map_some]
      rw [e2 s rfl, e0, e1, hst]; rfl
  rw [this]
  exact holdsC04_model c m tol sh false sp hv htol hsp

/-- non-vacuity: a stationary 2-D batch (box `[0,4]²`, two border points per facet), one global
    Dirichlet condition `u = 1` with `f` a 0-d scalar, network `u = x + y` (`m = 1`) -/
def exF : FacetCfg :=
  { cond := .dirichlet, dim := none, retScalar := true,
    ftab := [([0, 1], [1]), ([0, 2], [1]), ([4, 1], [1]), ([4, 2], [1]),
             ([1, 0], [1]), ([3, 0], [1]), ([1, 4], [1]), ([3, 4], [1])] }

def exCfgS : Cfg :=
  { w := 3, spec := .global exF,
    border := [[[0, 4, 1, 1], [1, 1, 0, 4]], [[0, 4, 3, 3], [2, 2, 0, 4]]], hasTime := false,
    utab := [([0, 1], [1]), ([0, 2], [2]), ([4, 1], [5]), ([4, 2], [6]),
             ([1, 0], [1]), ([3, 0], [3]), ([1, 4], [5]), ([3, 4], [7])],
    jtab := [] }

theorem exCfgS_valid : Valid exCfgS 1 := by
  refine ⟨Or.inr rfl, rfl, rfl, ?_⟩
  intro k fc hk
  have he : exCfgS.spec.expand (nFacets exCfgS.border) = [some exF, some exF, some exF, some exF] := rfl
  rw [he] at hk
  match k with
  | 0 | 1 | 2 | 3 =>
    simp only [List.getElem?_cons_succ, List.getElem?_cons_zero, Option.some.injEq] at hk
    subst hk
    intro p hp
    simp only [exCfgS, facetPts, List.map_cons, List.map_nil, List.mem_cons, List.not_mem_nil,
      or_false] at hp
    rcases hp with rfl | rfl <;>
      norm_num [reduceCtorEq, tabFn, jtabFn, exCfgS, exF, lookup_cons_if, FacetCfg.hi, FacetCfg.lo] <;>
      decide
  | k + 4 => simp at hk

theorem exCfgS_pinned : ∀ k, k < nFacets exCfgS.border → PinnedS exCfgS.border k := by
  intro k hk
  have h4 : nFacets exCfgS.border = 4 := rfl
  rw [h4] at hk
  refine Or.inr ⟨rfl, ?_⟩
  match k with
  | 0 => exact ⟨0, Or.inl (by intro q hq; simp [exCfgS, facetPts] at hq; rcases hq with rfl | rfl <;> simp)⟩
  | 1 => exact ⟨4, Or.inl (by intro q hq; simp [exCfgS, facetPts] at hq; rcases hq with rfl | rfl <;> simp)⟩
  | 2 => exact ⟨0, Or.inr (by intro q hq; simp [exCfgS, facetPts] at hq; rcases hq with rfl | rfl <;> simp)⟩
  | 3 => exact ⟨4, Or.inr (by intro q hq; simp [exCfgS, facetPts] at hq; rcases hq with rfl | rfl <;> simp)⟩
  | k + 4 => omega

example : holdsC04 (modelObs04Spinn exCfgS 1 0 true
    (some (.perFacet [some exF, some exF, some exF, some exF]))) = none :=
  holdsC04_model_spinn_statio exCfgS 1 0 true _ exCfgS_valid (le_refl 0)
    (fun s hs => by rw [← Option.some.inj hs]; rfl) rfl (by simp [exCfgS]) exCfgS_pinned

/-! ### separable networks, non-stationary batches

For a separable network on a non-stationary batch `Holds.C04` states the condition at
(times of the batch) × (border points of the facet) (`timesCross`).  The model's `boundarySpinn`
averages over the tensor grid of the three (two in 1-D) coordinate columns of the facet's rows; the
pinned space coordinate only contributes multiplicity (`grid_mean_times_cross`), which leaves exactly
those points. -/

/-- (times of the rows) × (space part of the rows), the points `Holds.C04` uses when `timesCross` -/
def crossPts (rows : List (List ℚ)) : List (List ℚ) :=
  rows.flatMap fun r => rows.map fun r' => r.headD 0 :: r'.drop 1

theorem mem_crossPts (rows : List (List ℚ)) (p : List ℚ) :
    p ∈ crossPts rows ↔ ∃ r ∈ rows, ∃ r' ∈ rows, p = r.headD 0 :: r'.drop 1 := by
  simp only [crossPts, List.mem_flatMap, List.mem_map]
  constructor
  · rintro ⟨r, hr, r', hr', rfl⟩; exact ⟨r, hr, r', hr', rfl⟩
  · rintro ⟨r, hr, r', hr', rfl⟩; exact ⟨r, hr, r', hr', rfl⟩

theorem flatMap_congr' {α β : Type} (l : List α) (f g : α → List β) (h : ∀ a ∈ l, f a = g a) :
    l.flatMap f = l.flatMap g := by
  induction l with
  | nil => rfl
  | cons a l ih =>
    rw [List.flatMap_cons, List.flatMap_cons, h a List.mem_cons_self,
      ih fun b hb => h b (List.mem_cons_of_mem _ hb)]

theorem cart_two (c0 c1 : List ℚ) : cart [c0, c1] = c0.flatMap fun a => c1.map fun b => [a, b] := by
  simp [cart, flatMap_single, Function.comp_def]

theorem cart_three (c0 c1 c2 : List ℚ) :
    cart [c0, c1, c2] = c0.flatMap fun a => c1.flatMap fun b => c2.map fun e => [a, b, e] := by
  simp [cart, flatMap_single, List.map_flatMap, Function.comp_def]

/-- 1-D non-stationary rows `(t, x)`: the SPINN grid is times × space points -/
theorem grid2_eq_cross (pts : List (List ℚ)) (h : ∀ q ∈ pts, ∃ t x, q = [t, x]) :
    gridPts 2 pts = crossPts pts := by
  rw [gridPts_two, cart_two, List.flatMap_map]
  unfold crossPts
  apply flatMap_congr'
  intro r hr
  rw [List.map_map]
  apply List.map_congr_left
  intro r' hr'
  obtain ⟨t, x, rfl⟩ := h r hr
  obtain ⟨t', x', rfl⟩ := h r' hr'
  simp

/-- 2-D non-stationary rows `(t, x, y)` with one space coordinate pinned at `c`: the mean over the
    SPINN grid is the mean over times × the facet's space points -/
theorem grid3_mean_eq_cross (val : List ℚ → ℚ) (pts : List (List ℚ)) (c : ℚ) (hne : pts ≠ [])
    (h : (∀ q ∈ pts, ∃ t y, q = [t, c, y]) ∨ (∀ q ∈ pts, ∃ t x, q = [t, x, c])) :
    mean ((gridPts 3 pts).map val) = mean ((crossPts pts).map val) := by
  rcases h with h | h
  · have hc : ∀ q ∈ pts, q.getD 1 0 = c := by
      intro q hq; obtain ⟨t, y, rfl⟩ := h q hq; simp
    rw [(grid_mean_times_cross val pts c hne).1 hc]
    congr 2
    rw [cart_three, List.flatMap_map]
    unfold crossPts
    apply flatMap_congr'
    intro r hr
    simp only [List.flatMap_cons, List.flatMap_nil, List.append_nil, List.map_map]
    apply List.map_congr_left
    intro r' hr'
    obtain ⟨t, y, rfl⟩ := h r hr
    obtain ⟨t', y', rfl⟩ := h r' hr'
    simp
  · have hc : ∀ q ∈ pts, q.getD 2 0 = c := by
      intro q hq; obtain ⟨t, x, rfl⟩ := h q hq; simp
    rw [(grid_mean_times_cross val pts c hne).2 hc]
    congr 2
    rw [cart_three, List.flatMap_map]
    unfold crossPts
    apply flatMap_congr'
    intro r hr
    simp only [List.map_cons, List.map_nil, flatMap_single, List.flatMap_map]
    apply List.map_congr_left
    intro r' hr'
    obtain ⟨t, x, rfl⟩ := h r hr
    obtain ⟨t', x', rfl⟩ := h r' hr'
    simp

/-- the rows of facet `k` are `(t, x)` (1-D), or `(t, x, y)` with `x` or `y` constant (2-D) -/
def PinnedT (b : Border) (k : Nat) : Prop :=
  (nCoords b = 2 ∧ ∀ q ∈ facetPts b k, ∃ t x, q = [t, x]) ∨
  (nCoords b = 3 ∧ ∃ c : ℚ, (∀ q ∈ facetPts b k, ∃ t y, q = [t, c, y]) ∨
                             (∀ q ∈ facetPts b k, ∃ t x, q = [t, x, c]))

/-- per facet, at arbitrary evaluation points: `mean (w × squared mismatch)` is `w × Σ / n` of the
    quantity `Holds.C04` states -/
theorem facet_eq_at (o : Obs04) (pts : List (List ℚ)) (m d k : Nat) (fc : FacetCfg)
    (hn : fc.cond = .neumann → normal d k = outward d k)
    (hok : FacetOKAt pts o.utab o.jtab m fc) :
    mean (pts.map fun p =>
        o.w * ((mismatch fc.toSpec (normal d k) (tabFn o.utab) (jtabFn o.jtab) p).map sqr).sum) =
      o.w * ((pts.map (c04Point o (fc.toFacet04 m) d k)).sum / (pts.length : ℚ)) := by
  rw [mean_map_mul_left]
  unfold mean
  rw [List.length_map]
  congr 2
  apply congrArg List.sum
  apply List.map_congr_left
  intro p hp
  obtain ⟨h1, h2, _, h4⟩ := hok p hp
  exact point_eq o m d k fc p hn h1 h2 h4

theorem facetSpinn_eq_cross (o : Obs04) (m k : Nat) (fc : FacetCfg) (htc : o.timesCross = true)
    (hne : o.border ≠ []) (hpin : PinnedT o.border k)
    (hn : fc.cond = .neumann →
      normal (spaceDim true o.border) k = outward (spaceDim true o.border) k)
    (hok : FacetOKAt (crossPts (facetPts o.border k)) o.utab o.jtab m fc) :
    facetLossSpinn o.w fc.toSpec true (tabFn o.utab) (jtabFn o.jtab) o.border k =
      c04Facet o (spaceDim true o.border) k (fc.toFacet04 m) := by
  have hne' : facetPts o.border k ≠ [] := by simpa [facetPts] using hne
  have hgrid : ∀ val : List ℚ → ℚ,
      mean ((gridPts (nCoords o.border) (facetPts o.border k)).map val) =
        mean ((crossPts (facetPts o.border k)).map val) := by
    intro val
    rcases hpin with ⟨h2, h⟩ | ⟨h3, c, h⟩
    · rw [h2, grid2_eq_cross _ h]
    · rw [h3]; exact grid3_mean_eq_cross val _ c hne' h
  unfold facetLossSpinn
  rw [hgrid, facet_eq_at o _ m _ k fc hn hok]
  unfold c04Facet
  simp only [htc, if_true]
  rfl

/-- validity of a non-stationary SPINN configuration: as `Valid`, the tables being required at the
    points where the condition is enforced (times × facet points) -/
structure ValidT (c : Cfg) (m : Nat) : Prop where
  hasT : c.hasTime = true
  ne : c.border ≠ []
  dim : spaceDim c.hasTime c.border = 1 ∨ spaceDim c.hasTime c.border = 2
  nF : nFacets c.border = 2 * spaceDim c.hasTime c.border
  len : (c.spec.expand (nFacets c.border)).length = nFacets c.border
  pin : ∀ k, k < nFacets c.border → PinnedT c.border k
  ok : ∀ k fc, (c.spec.expand (nFacets c.border))[k]? = some (some fc) →
    FacetOKAt (crossPts (facetPts c.border k)) c.utab c.jtab m fc

def Cfg.expectedT (c : Cfg) (m : Nat) : ℚ :=
  c04Expected { hasTime := c.hasTime, timesCross := true, w := c.w, border := c.border,
                facets := c.facets04 m, utab := c.utab, jtab := c.jtab, value := 0,
                otherShape := none, timeDup := none, otherSpec := none, tol := 0 }

theorem valueSpinn_eq_expectedT (c : Cfg) (m : Nat) (hv : ValidT c m) :
    c.valueSpinn = c.expectedT m := by
  unfold Cfg.valueSpinn Cfg.expectedT c04Expected
  rw [boundarySpinn_eq_sum_facets, toSpec_facets]
  simp only [facets04_eq, List.length_map]
  apply congrArg List.sum
  apply List.map_congr_left
  intro k hk
  have hk' : k < (c.spec.expand (nFacets c.border)).length := List.mem_range.1 hk
  have hd : (c.border.headD []).length - (if c.hasTime = true then 1 else 0)
      = spaceDim c.hasTime c.border := by
    unfold spaceDim; rw [nCoords_eq_headD]
  rw [hd]
  simp only [contribution, List.getD_eq_getElem?_getD, List.getElem?_map,
    List.getElem?_eq_getElem hk', Option.map_some, Option.getD_some]
  cases hfc : (c.spec.expand (nFacets c.border))[k] with
  | none => rfl
  | some fc =>
    simp only [Option.map_some]
    have hget : (c.spec.expand (nFacets c.border))[k]? = some (some fc) := by
      rw [List.getElem?_eq_getElem hk', hfc]
    have hkF : k < nFacets c.border := by rw [← hv.len]; exact hk'
    have hk2 : k < 2 * spaceDim c.hasTime c.border := by rw [← hv.nF]; exact hkF
    have hdim := hv.dim
    have hT := hv.hasT
    rw [hT] at hk2 hdim ⊢
    exact facetSpinn_eq_cross
      { hasTime := true, timesCross := true, w := c.w, border := c.border,
        facets := (c.spec.expand (nFacets c.border)).map fun o => o.map (FacetCfg.toFacet04 m),
        utab := c.utab, jtab := c.jtab, value := 0,
        otherShape := none, timeDup := none, otherSpec := none, tol := 0 }
      m k fc rfl hv.ne (hv.pin k hkF) (fun _ => normal_eq_outward _ _ hdim hk2) (hv.ok k fc hget)

/-! #### the variants -/

theorem flip_validT (c : Cfg) (m : Nat) (hv : ValidT c m) : ValidT c.flipShape m := by
  refine ⟨hv.hasT, hv.ne, hv.dim, hv.nF, ?_, hv.pin, ?_⟩
  · show (c.spec.flip.expand (nFacets c.border)).length = nFacets c.border
    rw [flip_expand, List.length_map]; exact hv.len
  · intro k fc' hk
    have hk' : (c.spec.flip.expand (nFacets c.border))[k]? = some (some fc') := hk
    rw [flip_expand, List.getElem?_map] at hk'
    cases hfc : (c.spec.expand (nFacets c.border))[k]? with
    | none => rw [hfc] at hk'; simp at hk'
    | some ofc =>
      rw [hfc] at hk'
      cases ofc with
      | none => simp at hk'
      | some fc =>
        simp only [Option.map_some, Option.some.injEq] at hk'
        subst hk'
        exact flip_facetOKAt _ c.utab c.jtab m fc (hv.ok k fc hfc)

theorem flip_facets04 (c : Cfg) (m : Nat) : c.flipShape.facets04 m = c.facets04 m := by
  rw [facets04_eq, facets04_eq]
  show List.map _ (c.spec.flip.expand (nFacets c.border)) = _
  rw [flip_expand, List.map_map]
  apply List.map_congr_left
  intro o _
  cases o <;> simp [flip_toFacet04]

theorem flip_expectedT (c : Cfg) (m : Nat) : c.flipShape.expectedT m = c.expectedT m := by
  unfold Cfg.expectedT
  rw [flip_facets04]
  rfl

theorem flip_valueSpinn (c : Cfg) (m : Nat) (hv : ValidT c m) : c.flipShape.valueSpinn = c.valueSpinn := by
  rw [valueSpinn_eq_expectedT c.flipShape m (flip_validT c m hv), flip_expectedT,
    ← valueSpinn_eq_expectedT c m hv]

theorem otherSpec_valueSpinn (c : Cfg) (s : CfgSpec)
    (hs : s.expand (nFacets c.border) = c.spec.expand (nFacets c.border)) :
    ({ c with spec := s } : Cfg).valueSpinn = c.valueSpinn := by
  unfold Cfg.valueSpinn boundarySpinn
  simp only [toSpec_facets, hs]

theorem cross_dup_sum (g : List ℚ → ℚ) (l : List (List ℚ)) :
    ((crossPts (l ++ l)).map g).sum = 4 * ((crossPts l).map g).sum := by
  unfold crossPts
  simp only [List.flatMap_append, List.map_append, List.sum_append, List.map_flatMap, sum_flatMap,
    List.map_map, Function.comp_def]
  rw [← two_mul]
  have : (l.map fun r => ((l.map fun r' => g (r.headD 0 :: r'.drop 1)).sum +
      (l.map fun r' => g (r.headD 0 :: r'.drop 1)).sum))
      = l.map fun r => 2 * (l.map fun r' => g (r.headD 0 :: r'.drop 1)).sum := by
    apply List.map_congr_left; intro r _; rw [two_mul]
  rw [this, List.sum_map_mul_left]
  ring

theorem cross_dup_length (l : List (List ℚ)) :
    ((crossPts (l ++ l)).length : ℚ) = 4 * ((crossPts l).length : ℚ) := by
  have h := cross_dup_sum (fun _ => (1 : ℚ)) l
  simpa using h

theorem nCoords_dup (b : Border) : nCoords (b ++ b) = nCoords b := by cases b <;> rfl

theorem facetPts_dup (b : Border) (k : Nat) : facetPts (b ++ b) k = facetPts b k ++ facetPts b k := by
  simp [facetPts]

theorem dup_validT (c : Cfg) (m : Nat) (hv : ValidT c m) : ValidT c.dupRows m := by
  have hsd : spaceDim c.hasTime (c.border ++ c.border) = spaceDim c.hasTime c.border := by
    unfold spaceDim; rw [nCoords_dup]
  have hmem : ∀ k q, q ∈ facetPts (c.border ++ c.border) k ↔ q ∈ facetPts c.border k := by
    intro k q; rw [facetPts_dup]; simp
  refine ⟨hv.hasT, ?_, ?_, ?_, ?_, ?_, ?_⟩
  · show c.border ++ c.border ≠ []
    intro h; exact hv.ne (List.append_eq_nil_iff.1 h).1
  · show spaceDim c.hasTime (c.border ++ c.border) = 1 ∨ spaceDim c.hasTime (c.border ++ c.border) = 2
    rw [hsd]; exact hv.dim
  · show nFacets (c.border ++ c.border) = 2 * spaceDim c.hasTime (c.border ++ c.border)
    rw [hsd, nFacets_dup]; exact hv.nF
  · show (c.spec.expand (nFacets (c.border ++ c.border))).length = nFacets (c.border ++ c.border)
    rw [nFacets_dup]; exact hv.len
  · intro k hk
    have hk' : k < nFacets c.border := by
      have : k < nFacets (c.border ++ c.border) := hk
      rwa [nFacets_dup] at this
    show PinnedT (c.border ++ c.border) k
    unfold PinnedT
    rw [nCoords_dup]
    rcases hv.pin k hk' with ⟨h2, h⟩ | ⟨h3, cst, h | h⟩
    · exact Or.inl ⟨h2, fun q hq => h q ((hmem k q).1 hq)⟩
    · exact Or.inr ⟨h3, cst, Or.inl fun q hq => h q ((hmem k q).1 hq)⟩
    · exact Or.inr ⟨h3, cst, Or.inr fun q hq => h q ((hmem k q).1 hq)⟩
  · intro k fc hk
    have hk' : (c.spec.expand (nFacets c.border))[k]? = some (some fc) := by
      have : (c.spec.expand (nFacets (c.border ++ c.border)))[k]? = some (some fc) := hk
      rwa [nFacets_dup] at this
    show FacetOKAt (crossPts (facetPts (c.border ++ c.border) k)) c.utab c.jtab m fc
    intro p hp
    apply hv.ok k fc hk' p
    rw [mem_crossPts] at hp ⊢
    obtain ⟨r, hr, r', hr', rfl⟩ := hp
    exact ⟨r, (hmem k r).1 hr, r', (hmem k r').1 hr', rfl⟩

theorem c04Facet_dupT (o : Obs04) (htc : o.timesCross = true) (d k : Nat) (fc : Facet04) :
    c04Facet { o with border := o.border ++ o.border } d k fc = c04Facet o d k fc := by
  have hpts : c04FacetPts (o.border ++ o.border) k = c04FacetPts o.border k ++ c04FacetPts o.border k := by
    simp [c04FacetPts]
  unfold c04Facet
  simp only [htc, if_true]
  show o.w * (((crossPts (c04FacetPts (o.border ++ o.border) k)).map _).sum /
        ((crossPts (c04FacetPts (o.border ++ o.border) k)).length : ℚ)) =
      o.w * (((crossPts (c04FacetPts o.border k)).map _).sum / ((crossPts (c04FacetPts o.border k)).length : ℚ))
  rw [hpts, cross_dup_length, cross_dup_sum, mul_div_mul_left _ _ (by norm_num : (4 : ℚ) ≠ 0)]
  rfl

theorem c04Expected_dupT (o : Obs04) (htc : o.timesCross = true) :
    c04Expected { o with border := o.border ++ o.border } = c04Expected o := by
  have hhead : ((o.border ++ o.border).headD []).length = (o.border.headD []).length := by
    cases o.border <;> rfl
  unfold c04Expected
  simp only [hhead]
  apply congrArg List.sum
  apply List.map_congr_left
  intro k _
  cases o.facets.getD k none with
  | none => rfl
  | some fc => exact c04Facet_dupT o htc _ k fc

theorem dup_expectedT (c : Cfg) (m : Nat) : c.dupRows.expectedT m = c.expectedT m := by
  have hfac : c.dupRows.facets04 m = c.facets04 m := by
    unfold Cfg.facets04 Cfg.dupRows
    simp only [nFacets_dup]
  unfold Cfg.expectedT
  rw [hfac]
  exact c04Expected_dupT
    { hasTime := c.hasTime, timesCross := true, w := c.w, border := c.border,
      facets := c.facets04 m, utab := c.utab, jtab := c.jtab, value := 0,
      otherShape := none, timeDup := none, otherSpec := none, tol := 0 } rfl

theorem dup_valueSpinn (c : Cfg) (m : Nat) (hv : ValidT c m) : c.dupRows.valueSpinn = c.valueSpinn := by
  rw [valueSpinn_eq_expectedT c.dupRows m (dup_validT c m hv), dup_expectedT,
    ← valueSpinn_eq_expectedT c m hv]

/-- the observation of a non-stationary SPINN boundary term the model predicts -/
def modelObs04SpinnT (c : Cfg) (m : Nat) (tol : ℚ) (sh td : Bool) (sp : Option CfgSpec) : Obs04 :=
  { hasTime := c.hasTime, timesCross := true && c.hasTime, w := c.w, border := c.border,
    facets := c.facets04 m, utab := c.utab, jtab := c.jtab, value := c.valueSpinn,
    otherShape := if sh then some c.flipShape.valueSpinn else none,
    timeDup := if td then some c.dupRows.valueSpinn else none,
    otherSpec := sp.map fun s => ({ c with spec := s } : Cfg).valueSpinn,
    tol := tol }

/-- **`Holds.C04` is satisfied by the model's SPINN boundary term on every valid non-stationary
    configuration** (1-D rows `(t, x)`, 2-D rows `(t, x, y)` with the facet's coordinate pinned; any
    number of rows, any conditions / tables; the three variants present or absent). -/
theorem holdsC04_model_spinn_nonstatio (c : Cfg) (m : Nat) (tol : ℚ) (sh td : Bool) (sp : Option CfgSpec)
    (hv : ValidT c m) (htol : 0 ≤ tol)
    (hsp : ∀ s, sp = some s → s.expand (nFacets c.border) = c.spec.expand (nFacets c.border)) :
    holdsC04 (modelObs04SpinnT c m tol sh td sp) = none := by
  have h2 : (0 : ℚ) ≤ 2 * tol := by linarith
  have hT := hv.hasT
  have hE : c04Expected (modelObs04SpinnT c m tol sh td sp) = c.valueSpinn := by
    rw [valueSpinn_eq_expectedT c m hv]
    unfold modelObs04SpinnT Cfg.expectedT
    rw [hT]
    rfl
  unfold holdsC04
  rw [hE]
  have hval : (modelObs04SpinnT c m tol sh td sp).value = c.valueSpinn := rfl
  have hsh : (modelObs04SpinnT c m tol sh td sp).otherShape = if sh then some c.valueSpinn else none := by
    simp only [modelObs04SpinnT, flip_valueSpinn c m hv]
  have htd : (modelObs04SpinnT c m tol sh td sp).timeDup = if td then some c.valueSpinn else none := by
    simp only [modelObs04SpinnT, dup_valueSpinn c m hv]
  have hspv : (modelObs04SpinnT c m tol sh td sp).otherSpec = sp.map fun _ => c.valueSpinn := by
    cases sp with
    | none => rfl
    | some s => simp only [modelObs04SpinnT, Option.map_some, otherSpec_valueSpinn c s (hsp s rfl)]
  have htl : (modelObs04SpinnT c m tol sh td sp).tol = tol := rfl
  rw [hval, hsh, htd, hspv, htl]
  cases sh <;> cases td <;> cases sp <;>
    simp [c04Close_self _ _ htol, c04Close_self _ _ h2]

/-- non-vacuity: a 2-D non-stationary SPINN case, box `[0,2]²`, two rows (one time per row:
    `t = 0, 1`), network `u = t + x·y` (`m = 1`, `∇u = (y, x)`); xmin — Neumann (`f` an array),
    ymax — Dirichlet (`f` a scalar), the other two facets `None`.  The tables cover
    times × facet points. -/
def exCfgT : Cfg :=
  { w := 2,
    spec := .perFacet
      [some { cond := .neumann, dim := none, retScalar := false,
              ftab := [([0, 0, 1], [0]), ([0, 0, 2], [0]), ([1, 0, 1], [0]), ([1, 0, 2], [0])] },
       none, none,
       some { cond := .dirichlet, dim := some (0, 1), retScalar := true,
              ftab := [([0, 1, 2], [1]), ([0, 2, 2], [1]), ([1, 1, 2], [1]), ([1, 2, 2], [1])] }],
    border := [[[0, 0, 0, 0], [0, 2, 1, 1], [1, 1, 0, 2]], [[1, 1, 1, 1], [0, 2, 2, 2], [2, 2, 0, 2]]],
    hasTime := true,
    utab := [([0, 1, 2], [2]), ([0, 2, 2], [4]), ([1, 1, 2], [3]), ([1, 2, 2], [5])],
    jtab := [([0, 0, 1], [[1, 0]]), ([0, 0, 2], [[2, 0]]), ([1, 0, 1], [[1, 0]]), ([1, 0, 2], [[2, 0]])] }

theorem exCfgT_valid : ValidT exCfgT 1 := by
  refine ⟨rfl, by simp [exCfgT], Or.inr rfl, rfl, rfl, ?_, ?_⟩
  · intro k hk
    have h4 : nFacets exCfgT.border = 4 := rfl
    rw [h4] at hk
    refine Or.inr ⟨rfl, ?_⟩
    match k with
    | 0 => exact ⟨0, Or.inl (by intro q hq; simp [exCfgT, facetPts] at hq; rcases hq with rfl | rfl <;> simp)⟩
    | 1 => exact ⟨2, Or.inl (by intro q hq; simp [exCfgT, facetPts] at hq; rcases hq with rfl | rfl <;> simp)⟩
    | 2 => exact ⟨0, Or.inr (by intro q hq; simp [exCfgT, facetPts] at hq; rcases hq with rfl | rfl <;> simp)⟩
    | 3 => exact ⟨2, Or.inr (by intro q hq; simp [exCfgT, facetPts] at hq; rcases hq with rfl | rfl <;> simp)⟩
    | k + 4 => omega
  · intro k fc hk
    match k with
    | 0 =>
      simp only [exCfgT, CfgSpec.expand, List.getElem?_cons_zero, Option.some.injEq] at hk
      subst hk
      intro p hp
      simp only [exCfgT, crossPts, facetPts, List.map_cons, List.map_nil, List.flatMap_cons,
        List.flatMap_nil, List.append_nil, List.cons_append, List.nil_append, List.mem_cons,
        List.not_mem_nil, or_false, List.getD_cons_zero, List.headD_cons, List.drop_succ_cons,
        List.drop_zero] at hp
      rcases hp with rfl | rfl | rfl | rfl <;>
        norm_num [reduceCtorEq, tabFn, jtabFn, exCfgT, lookup_cons_if, FacetCfg.hi, FacetCfg.lo] <;>
        decide
    | 1 => simp [exCfgT, CfgSpec.expand] at hk
    | 2 => simp [exCfgT, CfgSpec.expand] at hk
    | 3 =>
      simp only [exCfgT, CfgSpec.expand, List.getElem?_cons_succ, List.getElem?_cons_zero,
        Option.some.injEq] at hk
      subst hk
      intro p hp
      simp only [exCfgT, crossPts, facetPts, List.map_cons, List.map_nil, List.flatMap_cons,
        List.flatMap_nil, List.append_nil, List.cons_append, List.nil_append, List.mem_cons,
        List.not_mem_nil, or_false, List.headD_cons, List.drop_succ_cons,
        List.drop_zero] at hp
      rcases hp with rfl | rfl | rfl | rfl <;>
        norm_num [reduceCtorEq, tabFn, jtabFn, exCfgT, lookup_cons_if, FacetCfg.hi, FacetCfg.lo] <;>
        decide
    | k + 4 => simp [exCfgT, CfgSpec.expand] at hk

example : holdsC04 (modelObs04SpinnT exCfgT 1 0 true true none) = none :=
  holdsC04_model_spinn_nonstatio exCfgT 1 0 true true none exCfgT_valid (le_refl 0) (fun _ h => by simp at h)

end Jinns.Boundary

/-
#print axioms Jinns.Cartesian.holdsC14_combine
#print axioms Jinns.Cartesian.holdsC14_model
#print axioms Jinns.Cartesian.holdsC14_runNS
#print axioms Jinns.Boundary.value_eq_expected
#print axioms Jinns.Boundary.holdsC04_model
#print axioms Jinns.Boundary.holdsC04_model_spinn_statio
#print axioms Jinns.Boundary.holdsC04_model_spinn_nonstatio
-- each: [propext, Classical.choice, Quot.sound]
-/
