/-
C17 — Refinement adds the highest-residual candidates and keeps active points.
Property theorems about `JinnsModel/RarSelect.lean`: for every residual vector / table, candidate
and selected sizes, initial counts (time and space equal or not) and every history of refinement
steps interleaved with batch draws and reshuffles.
-/
import JinnsModel.RarSelect
import JinnsModel.HoldsC17
import JinnsProofs.C16

namespace Jinns.Rar
open Jinns.Holds

/-! ### stable sorting of indices -/

theorem insertBy_perm (le : Nat → Nat → Bool) (a : Nat) (l : List Nat) :
    (insertBy le a l).Perm (a :: l) := by
  induction l with
  | nil => exact List.Perm.refl _
  | cons b l ih =>
    unfold insertBy
    split
    · exact List.Perm.refl _
    · exact (List.Perm.cons b ih).trans (List.Perm.swap a b l)

/-- the sort only permutes the indices -/
theorem sortBy_perm (le : Nat → Nat → Bool) (l : List Nat) : (sortBy le l).Perm l := by
  induction l with
  | nil => exact List.Perm.refl _
  | cons a l ih => exact (insertBy_perm le a _).trans (List.Perm.cons a ih)

theorem insertBy_sorted {le : Nat → Nat → Bool} (tot : ∀ a b, le a b = true ∨ le b a = true)
    (tr : ∀ a b c, le a b = true → le b c = true → le a c = true) (a : Nat) (l : List Nat)
    (h : l.Pairwise (fun x y => le x y = true)) :
    (insertBy le a l).Pairwise (fun x y => le x y = true) := by
  induction l with
  | nil => simp [insertBy]
  | cons b l ih =>
    rw [List.pairwise_cons] at h
    unfold insertBy
    split
    · rename_i hab
      rw [List.pairwise_cons]
      refine ⟨?_, List.pairwise_cons.2 h⟩
      intro x hx
      rcases List.mem_cons.1 hx with rfl | hx
      · exact hab
      · exact tr _ _ _ hab (h.1 x hx)
    · rename_i hab
      rw [List.pairwise_cons]
      refine ⟨?_, ih h.2⟩
      intro x hx
      rcases List.mem_cons.1 ((insertBy_perm le a l).mem_iff.1 hx) with rfl | hx
      · rcases tot x b with h1 | h1
        · exact absurd h1 hab
        · exact h1
      · exact h.1 x hx

/-- the sort orders the indices (for a total, transitive comparison) -/
theorem sortBy_sorted {le : Nat → Nat → Bool} (tot : ∀ a b, le a b = true ∨ le b a = true)
    (tr : ∀ a b c, le a b = true → le b c = true → le a c = true) (l : List Nat) :
    (sortBy le l).Pairwise (fun x y => le x y = true) := by
  induction l with
  | nil => simp [sortBy]
  | cons a l ih => exact insertBy_sorted tot tr a _ ih

section keys
variable {κ : Type} [LE κ] [DecidableLE κ] [Inhabited κ]

theorem keyLe_total (tot : ∀ a b : κ, a ≤ b ∨ b ≤ a) (res : List κ) (i j : Nat) :
    keyLe res i j = true ∨ keyLe res j i = true := by
  unfold keyLe; simp only [decide_eq_true_eq]; exact tot _ _

theorem keyLe_trans (tr : ∀ a b c : κ, a ≤ b → b ≤ c → a ≤ c) (res : List κ) (i j k : Nat) :
    keyLe res i j = true → keyLe res j k = true → keyLe res i k = true := by
  unfold keyLe; simp only [decide_eq_true_eq]; exact tr _ _ _

theorem mem_of_perm_range {l : List Nat} {m d : Nat} (h : l.Perm (List.range m)) (hd : d < m) : d ∈ l :=
  h.mem_iff.2 (List.mem_range.2 hd)

/-- **C17 choice (ODE / stationary)**: the indices `dynamic_slice(argsort(res), (m − sel,), (sel,))`
    are `sel` distinct candidate indices, and the residual of every chosen candidate is at least the
    residual of every non-chosen one (ties may go either way: that is all "largest" determines). -/
theorem selectTop_spec (tot : ∀ a b : κ, a ≤ b ∨ b ≤ a) (tr : ∀ a b c : κ, a ≤ b → b ≤ c → a ≤ c)
    (res : List κ) (sel : Nat) (hsel : sel ≤ res.length) :
    (selectTop sel res).length = sel ∧ (selectTop sel res).Nodup ∧
    (∀ c ∈ selectTop sel res, c < res.length) ∧
    (∀ c ∈ selectTop sel res, ∀ d, d < res.length → d ∉ selectTop sel res → keyLe res d c = true) := by
  have hperm : (argsortAsc res).Perm (List.range res.length) := sortBy_perm _ _
  have hsorted := sortBy_sorted (keyLe_total tot res) (keyLe_trans tr res) (List.range res.length)
  have hlen : (argsortAsc res).length = res.length := by rw [hperm.length_eq, List.length_range]
  have hdrop : selectTop sel res = (argsortAsc res).drop (res.length - sel) := by
    unfold selectTop Minibatch.slice
    rw [hlen, Nat.min_self]
    apply List.take_of_length_le
    rw [List.length_drop, hlen]; omega
  have hnd : (argsortAsc res).Nodup := (hperm.nodup_iff).2 List.nodup_range
  rw [hdrop]
  refine ⟨by rw [List.length_drop, hlen]; omega, ?_, ?_, ?_⟩
  · exact (List.drop_sublist _ _).nodup hnd
  · intro c hc
    exact List.mem_range.1 (hperm.mem_iff.1 (List.mem_of_mem_drop hc))
  · intro c hc d hd hnot
    have hsplit : argsortAsc res = (argsortAsc res).take (res.length - sel) ++ (argsortAsc res).drop (res.length - sel) :=
      (List.take_append_drop _ _).symm
    have hdmem : d ∈ argsortAsc res := mem_of_perm_range hperm hd
    rw [hsplit] at hdmem
    rcases List.mem_append.1 hdmem with h1 | h1
    · unfold argsortAsc at hsplit hc h1
      rw [hsplit] at hsorted
      exact (List.pairwise_append.1 hsorted).2.2 d h1 c hc
    · exact absurd h1 hnot

/-- `lax.top_k`: the `k` best indices, by decreasing value, dominate all the others. -/
theorem topK_spec (tot : ∀ a b : κ, a ≤ b ∨ b ≤ a) (tr : ∀ a b c : κ, a ≤ b → b ≤ c → a ≤ c)
    (flat : List κ) (k : Nat) (hk : k ≤ flat.length) :
    (topK k flat).length = k ∧ (topK k flat).Nodup ∧
    (∀ c ∈ topK k flat, c < flat.length) ∧
    (∀ c ∈ topK k flat, ∀ d, d < flat.length → d ∉ topK k flat → keyLe flat d c = true) ∧
    (topK k flat).Pairwise (fun a b => keyLe flat b a = true) := by
  have hperm : (argsortDesc flat).Perm (List.range flat.length) := sortBy_perm _ _
  have hsorted : (argsortDesc flat).Pairwise (fun a b => keyLe flat b a = true) :=
    sortBy_sorted (le := fun i j => keyLe flat j i) (fun a b => keyLe_total tot flat b a)
      (fun a b c h1 h2 => keyLe_trans tr flat c b a h2 h1) (List.range flat.length)
  have hlen : (argsortDesc flat).length = flat.length := by rw [hperm.length_eq, List.length_range]
  have hnd : (argsortDesc flat).Nodup := (hperm.nodup_iff).2 List.nodup_range
  unfold topK
  refine ⟨by rw [List.length_take, hlen]; omega, (List.take_sublist _ _).nodup hnd, ?_, ?_, ?_⟩
  · intro c hc
    exact List.mem_range.1 (hperm.mem_iff.1 (List.mem_of_mem_take hc))
  · intro c hc d hd hnot
    have hsplit : argsortDesc flat = (argsortDesc flat).take k ++ (argsortDesc flat).drop k :=
      (List.take_append_drop _ _).symm
    have hdmem : d ∈ argsortDesc flat := mem_of_perm_range hperm hd
    rw [hsplit] at hdmem
    rcases List.mem_append.1 hdmem with h1 | h1
    · exact absurd h1 hnot
    · rw [hsplit] at hsorted
      exact (List.pairwise_append.1 hsorted).2.2 c hc d h1
  · exact hsorted.sublist (List.take_sublist _ _)

end keys


/-! ### the model's choices pass the checks of `Holds.C17` -/

theorem nodupB_iff (l : List Nat) : nodupB l = true ↔ l.Nodup := by
  induction l with
  | nil => simp [nodupB]
  | cons a t ih => simp [nodupB, ih]

theorem getD_of_lt {α : Type} (l : List α) (d : α) {i : Nat} (h : i < l.length) : l.getD i d = l[i] := by
  simp [List.getD_eq_getElem?_getD, h]

section keys
variable {κ : Type} [LE κ] [DecidableLE κ] [Inhabited κ]

theorem keyLe_def (res : List κ) (i j : Nat) :
    keyLe res i j = decide (res.getD i default ≤ res.getD j default) := rfl

/-- the stationary / ODE choice of the model passes `topCheck` (every clause of the property on
    the choice), for every residual vector -/
theorem selectTop_passes_topCheck (tot : ∀ a b : κ, a ≤ b ∨ b ≤ a) (tr : ∀ a b c : κ, a ≤ b → b ≤ c → a ≤ c)
    (res : List κ) (sel : Nat) (hsel : sel ≤ res.length) :
    topCheck sel res (selectTop sel res) = none := by
  obtain ⟨h1, h2, h3, h4⟩ := selectTop_spec tot tr res sel hsel
  unfold topCheck
  have c1 : ((selectTop sel res).length != sel) = false := by simp [h1]
  have c2 : (selectTop sel res).all (fun c => decide (c < res.length)) = true := by
    rw [List.all_eq_true]; intro c hc; simpa using h3 c hc
  have c3 : nodupB (selectTop sel res) = true := (nodupB_iff _).2 h2
  have c4 : (selectTop sel res).all (fun c => (List.range res.length).all (fun d =>
      (selectTop sel res).contains d || decide (res.getD d default ≤ res.getD c default))) = true := by
    rw [List.all_eq_true]; intro c hc
    rw [List.all_eq_true]; intro d hd
    by_cases hm : d ∈ selectTop sel res
    · simp [hm]
    · have := h4 c hc d (List.mem_range.1 hd) hm
      rw [keyLe_def] at this
      rw [this, Bool.or_true]
  simp only [c1, c2, c3, c4, Bool.not_true, Bool.false_eq_true, if_false]

theorem mem_pickEach : ∀ (L : List (List Nat)) (l : List Nat), l.length = L.length →
    (∀ r (h1 : r < l.length) (h2 : r < L.length), l[r] ∈ L[r]) → l ∈ pickEach L := by
  intro L
  induction L with
  | nil => intro l hl _; cases l with
    | nil => simp [pickEach]
    | cons _ _ => simp at hl
  | cons opts rest ih =>
    intro l hl h
    cases l with
    | nil => simp at hl
    | cons a t =>
      simp only [pickEach, List.mem_flatMap, List.mem_map]
      refine ⟨a, ?_, t, ?_, rfl⟩
      · exact h 0 (by simp) (by simp)
      · apply ih t (by simpa using hl)
        intro r h1 h2
        exact h (r + 1) (by simp; omega) (by simp; omega)

omit [LE κ] [DecidableLE κ] [Inhabited κ] in
theorem length_flatten_rect (mse : List (List κ)) (nX : Nat) (h : ∀ row ∈ mse, row.length = nX) :
    mse.flatten.length = mse.length * nX := by
  induction mse with
  | nil => simp
  | cons r t ih =>
    rw [List.flatten_cons, List.length_append, ih (fun row hr => h row (List.mem_cons_of_mem _ hr)),
      h r (List.mem_cons_self), List.length_cons, Nat.succ_mul]
    omega

/-- **C17 choice (product domains)**: the selection on the `(nT × nX)` table is made of a list `top`
    of the `max(sel_t, sel_x)` best (time, space) pairs — distinct, by decreasing residual, every one
    at least as large as every non-chosen pair — the time indices being the rows of its first `sel_t`
    pairs and the space indices the columns of its first `sel_x` pairs. -/
theorem topPairs_spec (tot : ∀ a b : κ, a ≤ b ∨ b ≤ a) (tr : ∀ a b c : κ, a ≤ b → b ≤ c → a ≤ c)
    (mse : List (List κ)) (nX selT selX : Nat)
    (hk : max selT selX ≤ mse.flatten.length) :
    ∃ top : List Nat,
      top.length = max selT selX ∧ top.Nodup ∧ (∀ c ∈ top, c < mse.flatten.length) ∧
      (∀ c ∈ top, ∀ d, d < mse.flatten.length → d ∉ top → mse.flatten.getD d default ≤ mse.flatten.getD c default) ∧
      top.Pairwise (fun a b => mse.flatten.getD b default ≤ mse.flatten.getD a default) ∧
      topPairs mse nX selT selX = ((top.take selT).map (· / nX), (top.take selX).map (· % nX)) := by
  obtain ⟨h1, h2, h3, h4, h5⟩ :=
    topK_spec tot tr mse.flatten (max selT selX) hk
  refine ⟨topK (max selT selX) mse.flatten, h1, h2, h3, ?_, ?_, rfl⟩
  · intro c hc d hd hn
    have := h4 c hc d hd hn
    rw [keyLe_def] at this; simpa using this
  · refine h5.imp ?_
    intro a b hab
    rw [keyLe_def] at hab; simpa using hab

/-- the non-stationary choice of the model passes `pairsCheck`, for every rectangular table -/
theorem topPairs_passes_pairsCheck (tot : ∀ a b : κ, a ≤ b ∨ b ≤ a) (tr : ∀ a b c : κ, a ≤ b → b ≤ c → a ≤ c)
    (mse : List (List κ)) (nX selT selX : Nat)
    (hrect : ∀ row ∈ mse, row.length = nX) (hnX : 0 < nX)
    (hk : max selT selX ≤ mse.length * nX) :
    pairsCheck mse nX selT selX (topPairs mse nX selT selX).1 (topPairs mse nX selT selX).2 = none := by
  have hflat := length_flatten_rect mse nX hrect
  obtain ⟨top, t1, t2, t3, t4, t5, t6⟩ := topPairs_spec tot tr mse nX selT selX (by rw [hflat]; exact hk)
  rw [t6]
  simp only
  unfold pairsCheck
  have hT : ((top.take selT).map (· / nX)).length = selT := by
    rw [List.length_map, List.length_take, t1]; omega
  have hX : ((top.take selX).map (· % nX)).length = selX := by
    rw [List.length_map, List.length_take, t1]; omega
  have c1 : (((top.take selT).map (· / nX)).length != selT || ((top.take selX).map (· % nX)).length != selX) = false := by
    rw [hT, hX]; simp
  have c2 : (!mse.all (fun row => row.length == nX)) = false := by
    simp only [Bool.not_eq_false', List.all_eq_true]; intro row hr; simpa using hrect row hr
  have c3 : (!(((top.take selT).map (· / nX)).all (fun a => decide (a < mse.length)) &&
      ((top.take selX).map (· % nX)).all (fun a => decide (a < nX)))) = false := by
    simp only [Bool.not_eq_false', Bool.and_eq_true, List.all_eq_true, List.mem_map, decide_eq_true_eq]
    constructor
    · rintro a ⟨f, hf, rfl⟩
      have := t3 f (List.mem_of_mem_take hf)
      rw [hflat] at this
      exact (Nat.div_lt_iff_lt_mul hnX).2 this
    · rintro a ⟨f, _, rfl⟩
      exact Nat.mod_lt _ hnX
  have c4 : (pickEach ((List.range (max selT selX)).map
      (admissible mse.length nX selT selX ((top.take selT).map (· / nX)) ((top.take selX).map (· % nX))))).any
      (fun top' => topPairsOk mse.flatten (max selT selX) top') = true := by
    rw [List.any_eq_true]
    refine ⟨top, ?_, ?_⟩
    · apply mem_pickEach
      · simp [t1]
      · intro r hr1 hr2
        simp only [List.getElem_map, List.getElem_range]
        unfold admissible
        rw [List.mem_filter]
        refine ⟨List.mem_range.2 (by rw [← hflat]; exact t3 _ (List.getElem_mem _)), ?_⟩
        simp only [Bool.and_eq_true, Bool.or_eq_true, Bool.not_eq_true', decide_eq_false_iff_not,
          beq_iff_eq]
        constructor
        · by_cases hlt : r < selT
          · right
            rw [getD_of_lt _ _ (by rw [hT]; exact hlt)]
            simp [List.getElem_take]
          · left; exact hlt
        · by_cases hlt : r < selX
          · right
            rw [getD_of_lt _ _ (by rw [hX]; exact hlt)]
            simp [List.getElem_take]
          · left; exact hlt
    · unfold topPairsOk
      simp only [Bool.and_eq_true, beq_iff_eq, List.all_eq_true, decide_eq_true_eq, List.mem_range,
        Bool.or_eq_true, Bool.not_eq_true', decide_eq_false_iff_not, List.contains_iff_mem]
      refine ⟨⟨⟨⟨t1, t3⟩, (nodupB_iff _).2 t2⟩, ?_⟩, ?_⟩
      · intro c hc d hd
        by_cases hm : d ∈ top
        · left; exact hm
        · right; exact t4 c hc d hd hm
      · intro a ha b hb
        by_cases hab : a < b
        · right
          rw [getD_of_lt _ _ ha, getD_of_lt _ _ hb]
          exact List.pairwise_iff_getElem.1 t5 a b ha hb hab
        · left; exact hab
  simp only [c1, c2, c3, c4, Bool.false_eq_true, if_false, if_true]

end keys

/-- the instances used by the correspondence: exact rational residuals -/
theorem selectTop_passes_topCheck_rat (res : List Rat) (sel : Nat) (hsel : sel ≤ res.length) :
    topCheck sel res (selectTop sel res) = none :=
  selectTop_passes_topCheck (fun _ _ => Rat.le_total) (fun _ _ _ => Rat.le_trans) res sel hsel

theorem topPairs_passes_pairsCheck_rat (mse : List (List Rat)) (nX selT selX : Nat)
    (hrect : ∀ row ∈ mse, row.length = nX) (hnX : 0 < nX) (hk : max selT selX ≤ mse.length * nX) :
    pairsCheck mse nX selT selX (topPairs mse nX selT selX).1 (topPairs mse nX selT selX).2 = none :=
  topPairs_passes_pairsCheck (fun _ _ => Rat.le_total) (fun _ _ _ => Rat.le_trans) mse nX selT selX hrect hnX hk


/-! ### the store update -/

section store
variable {α : Type}

theorem updateStore_length (store : List α) (off : Nat) (pts : List α) (h : pts.length ≤ store.length) :
    (updateStore store off pts).length = store.length := by
  unfold updateStore
  simp only [List.length_append, List.length_take, List.length_drop]
  omega

/-- without clamping, the update is "prefix, points, rest" -/
theorem updateStore_eq (store : List α) (off : Nat) (pts : List α) (h : off + pts.length ≤ store.length) :
    updateStore store off pts = store.take off ++ pts ++ store.drop (off + pts.length) := by
  unfold updateStore
  have : min off (store.length - pts.length) = off := by omega
  rw [this]

namespace RS

theorem nEff_add (s : RS α) (pts : List α) : (s.add pts).nEff = s.nEff + s.sel := by
  unfold add nEff; simp only; rw [Nat.succ_mul]; omega

theorem fits_iff (s : RS α) : s.fits = true ↔ s.nEff + s.sel ≤ s.store.length := by
  unfold fits; simp

end RS

/-- **every previously active slot is unchanged** by a refinement step that fits. -/
theorem add_keeps_active_slots (s : RS α) (pts : List α) (hf : s.fits = true) (hp : pts.length = s.sel) :
    ∀ k, k < s.nEff → (s.add pts).store[k]? = s.store[k]? := by
  intro k hk
  have hfit := (RS.fits_iff s).1 hf
  show (updateStore s.store s.nEff pts)[k]? = _
  rw [updateStore_eq _ _ _ (by omega), List.append_assoc, List.getElem?_append_left (by simp; omega),
    List.getElem?_take_of_lt hk]

/-- **a step writes only into `[n_eff, n_eff + selected)`**: every slot beyond is unchanged too. -/
theorem add_writes_only_new_slots (s : RS α) (pts : List α) (hf : s.fits = true) (hp : pts.length = s.sel) :
    ∀ k, s.nEff + s.sel ≤ k → (s.add pts).store[k]? = s.store[k]? := by
  intro k hk
  have hfit := (RS.fits_iff s).1 hf
  show (updateStore s.store s.nEff pts)[k]? = _
  rw [updateStore_eq _ _ _ (by omega), List.getElem?_append_right (by simp; omega),
    List.getElem?_drop]
  congr 1
  simp only [List.length_append, List.length_take]
  omega

/-- the store keeps its size -/
theorem add_length (s : RS α) (pts : List α) (hf : s.fits = true) (hp : pts.length = s.sel) :
    (s.add pts).store.length = s.store.length := by
  have hfit := (RS.fits_iff s).1 hf
  exact updateStore_length _ _ _ (by omega)

/-- **after the step the active points are the former ones followed by the chosen candidates.** -/
theorem add_active (s : RS α) (pts : List α) (hf : s.fits = true) (hp : pts.length = s.sel) :
    (s.add pts).active = s.active ++ pts := by
  have hfit := (RS.fits_iff s).1 hf
  unfold RS.active
  rw [RS.nEff_add]
  show (updateStore s.store s.nEff pts).take (s.nEff + s.sel) = _
  rw [updateStore_eq _ _ _ (by omega), List.take_append_of_le_length (by simp; omega)]
  apply List.take_of_length_le
  simp; omega

/-- **the slots a step writes into were inactive**: with the probabilities of C16 (non-zero exactly on
    `[0, n_eff)`), every slot of `[n_eff, n_eff + selected)` has probability zero before the step and
    a non-zero one after it, and every slot active before stays active. -/
theorem new_slots_were_inactive (n nEff sel k : Nat) (hk : k < n) :
    (nEff ≤ k → (prefixMask n nEff)[k]'(by simpa using hk) = false) ∧
    (k < nEff + sel → (prefixMask n (nEff + sel))[k]'(by simpa using hk) = true) ∧
    ((prefixMask n nEff)[k]'(by simpa using hk) = true →
      (prefixMask n (nEff + sel))[k]'(by simpa using hk) = true) := by
  simp only [getElem_prefixMask, decide_eq_false_iff_not, decide_eq_true_eq]
  omega

/-! ### batch draws -/

variable [BEq α] [LawfulBEq α]

/-- **a batch draw (with or without reshuffle) keeps the active points**: under the oracle contract
    the first `n_eff` slots are permuted among themselves; the step counter and the size of the
    store are untouched. -/
theorem draw_active_perm (s : RS α) (o : List α) (h : s.oracleOk o = true) :
    (s.draw o).1.active.Perm s.active ∧ (s.draw o).1.steps = s.steps ∧
    (s.draw o).1.nStart = s.nStart ∧ (s.draw o).1.sel = s.sel ∧
    (s.draw o).1.store.length = s.store.length := by
  unfold RS.oracleOk at h
  unfold RS.draw RS.active RS.nEff Minibatch.next
  by_cases hr : s.resets = true
  · have hr' : Minibatch.resets (s.nStart + s.steps * s.sel) s.mb = true := hr
    simp only [hr, Bool.not_true, Bool.false_or, Bool.and_eq_true, List.isPerm_iff] at h
    simp only [hr', if_true]
    refine ⟨h.1, trivial, trivial, trivial, ?_⟩
    have := h.1.length_eq
    have := h.2.length_eq
    simp only [List.length_take, List.length_drop, RS.nEff] at *
    omega
  · have hr' : Minibatch.resets (s.nStart + s.steps * s.sel) s.mb = false := by
      simpa [RS.resets, RS.nEff] using hr
    simp only [hr', Bool.false_eq_true, if_false]
    exact ⟨List.Perm.refl _, trivial, trivial, trivial, rfl⟩

/-! ### all histories -/

namespace RS

theorem apply_draw_active (s : RS α) (o : List α) (h : s.oracleOk o = true) :
    (s.apply (.draw o)).active.Perm s.active := (draw_active_perm s o h).1

end RS

/-- **C17 invariant over all histories** of refinement attempts interleaved with batch draws and
    reshuffles (oracles honouring their contracts): the active points at the end are exactly the
    active points at the beginning plus the chosen candidates of every step that took place —
    nothing active is ever lost or overwritten. -/
theorem run_active (ops : List (Op α)) : ∀ (s : RS α), s.valid ops = true →
    (s.run ops).active.Perm (s.active ++ s.added ops) := by
  induction ops with
  | nil => intro s _; simp [RS.run, RS.added]
  | cons op ops ih =>
    intro s hv
    cases op with
    | draw o =>
      simp only [RS.valid, Bool.and_eq_true] at hv
      simp only [RS.run, RS.added]
      exact (ih _ hv.2).trans (List.Perm.append_right _ (RS.apply_draw_active s o hv.1))
    | step pts =>
      simp only [RS.valid, Bool.and_eq_true, beq_iff_eq] at hv
      simp only [RS.run, RS.added]
      refine (ih _ hv.2).trans ?_
      by_cases hf : s.fits = true
      · simp only [RS.apply, hf, if_true]
        rw [add_active s pts hf hv.1, List.append_assoc]
      · simp only [RS.apply, hf]
        simp

omit [BEq α] [LawfulBEq α] in
theorem run_append (s : RS α) (ops1 ops2 : List (Op α)) :
    s.run (ops1 ++ ops2) = (s.run ops1).run ops2 := by
  induction ops1 generalizing s with
  | nil => rfl
  | cons op ops ih => simp only [List.cons_append, RS.run]; exact ih _

omit [LawfulBEq α] in
theorem valid_append (s : RS α) (ops1 ops2 : List (Op α)) (h : s.valid (ops1 ++ ops2) = true) :
    s.valid ops1 = true ∧ (s.run ops1).valid ops2 = true := by
  induction ops1 generalizing s with
  | nil => exact ⟨rfl, h⟩
  | cons op ops ih =>
    cases op with
    | draw o =>
      simp only [List.cons_append, RS.valid, Bool.and_eq_true] at h ⊢
      have := ih _ h.2
      exact ⟨⟨h.1, this.1⟩, this.2⟩
    | step pts =>
      simp only [List.cons_append, RS.valid, Bool.and_eq_true] at h ⊢
      have := ih _ h.2
      exact ⟨⟨h.1, this.1⟩, this.2⟩

/-- **points that were active at any moment of a history are still active at any later moment**
    (as a multiset: the later active points are the earlier ones plus additions). -/
theorem run_active_mono (s : RS α) (ops1 ops2 : List (Op α)) (h : s.valid (ops1 ++ ops2) = true) :
    ∃ extra, (s.run (ops1 ++ ops2)).active.Perm ((s.run ops1).active ++ extra) := by
  obtain ⟨_, h2⟩ := valid_append s ops1 ops2 h
  exact ⟨(s.run ops1).added ops2, by rw [run_append]; exact run_active ops2 _ h2⟩

end store

/-! ### product domains -/

section pair
variable {α β : Type} [BEq α] [LawfulBEq α] [BEq β] [LawfulBEq β]

/-- **C17 invariant for non-stationary generators**: the same, separately for the time store and the
    space store, each with its own initial count, selected size and offset (they share only the step
    counter and the decision whether a step fits). -/
theorem run2_active (ops : List (Op2 α β)) : ∀ (s : RS2 α β), s.valid ops = true →
    (s.run ops).t.active.Perm (s.t.active ++ s.addedT ops) ∧
    (s.run ops).x.active.Perm (s.x.active ++ s.addedX ops) := by
  induction ops with
  | nil => intro s _; simp [RS2.run, RS2.addedT, RS2.addedX]
  | cons op ops ih =>
    intro s hv
    cases op with
    | draw oT oX =>
      simp only [RS2.valid, Bool.and_eq_true] at hv
      simp only [RS2.run, RS2.addedT, RS2.addedX]
      have := ih _ hv.2
      exact ⟨this.1.trans (List.Perm.append_right _ (draw_active_perm s.t oT hv.1.1).1),
             this.2.trans (List.Perm.append_right _ (draw_active_perm s.x oX hv.1.2).1)⟩
    | step pT pX =>
      simp only [RS2.valid, Bool.and_eq_true, beq_iff_eq] at hv
      simp only [RS2.run, RS2.addedT, RS2.addedX]
      have := ih _ hv.2
      by_cases hf : s.fits = true
      · have hf' : s.t.fits = true ∧ s.x.fits = true := by simpa [RS2.fits] using hf
        simp only [RS2.apply, hf, if_true] at this ⊢
        rw [add_active s.t pT hf'.1 hv.1.1, List.append_assoc] at this
        rw [add_active s.x pX hf'.2 hv.1.2, List.append_assoc] at this
        exact this
      · simp only [RS2.apply, hf] at this ⊢
        simpa using this

end pair


/-! ### the whole generator: the schedule decides, the stores follow -/

/-- consistency of a generator state: probabilities of closed form (C16), the stores' step counters
    equal to `rar_iter_nb`, static sizes as configured, stores of the allocated size -/
structure GenInv (g : Gen) : Prop where
  mask   : MaskOK g.cfg g.st
  tSteps : g.cfg.kind.hasT = true → g.t.steps = g.st.steps
  xSteps : g.cfg.kind.hasX = true → g.x.steps = g.st.steps
  tCfg   : g.t.nStart = g.cfg.ntStart ∧ g.t.sel = g.cfg.selT
  xCfg   : g.x.nStart = g.cfg.nStart ∧ g.x.sel = g.cfg.selX
  tLen   : g.cfg.kind.hasT = true → g.t.store.length = g.cfg.nt
  xLen   : g.cfg.kind.hasX = true → g.x.store.length = g.cfg.n

theorem genInv_init {c : Cfg} (w : WF c) (storeT storeX : List Nat) (bT bX : Nat)
    (hT : c.kind.hasT = true → storeT.length = c.nt) (hX : c.kind.hasX = true → storeX.length = c.n) :
    GenInv (Gen.init c storeT storeX bT bX) :=
  ⟨maskOK_init w, fun _ => rfl, fun _ => rfl, ⟨rfl, rfl⟩, ⟨rfl, rfl⟩, hT, hX⟩

/-- **the code's step test protects the stores**: whenever `_proceed_to_rar` (a test on the number of
    zero probabilities) lets a step through, a full set fits in every owned store, so the store side
    of `trigger_rar` is exactly a fitting refinement step of `RS` at offset
    `n_start + rar_iter_nb · selected` (time and space each with their own); otherwise the stores are
    untouched.  The consistency invariant is preserved. -/
theorem gen_trigger_refines (g : Gen) (hg : GenInv g) (i : Nat) (pT pX : List Nat)
    (hpT : pT.length = g.cfg.selT) (hpX : pX.length = g.cfg.selX) :
    GenInv (g.trigger i pT pX).1 ∧
    ((g.trigger i pT pX).2 = true →
      (g.cfg.kind.hasT = true → g.t.fits = true ∧ (g.trigger i pT pX).1.t = g.t.apply (.step pT)) ∧
      (g.cfg.kind.hasX = true → g.x.fits = true ∧ (g.trigger i pT pX).1.x = g.x.apply (.step pX))) ∧
    ((g.trigger i pT pX).2 = false → (g.trigger i pT pX).1.t = g.t ∧ (g.trigger i pT pX).1.x = g.x) := by
  unfold Gen.trigger
  by_cases hp : proceed g.cfg g.st i = true
  · simp only [hp, if_true]
    have hf := ((proceed_iff hg.mask i).1 hp).2.2
    have hfT : g.cfg.kind.hasT = true → g.t.fits = true := by
      intro hk
      have : g.cfg.ntStart + (g.st.steps + 1) * g.cfg.selT ≤ g.cfg.nt := by
        unfold fits fits1 at hf; simp [hk] at hf; exact hf.1
      rw [RS.fits_iff]; unfold RS.nEff
      rw [hg.tCfg.1, hg.tCfg.2, hg.tSteps hk, hg.tLen hk]
      rw [Nat.succ_mul] at this; omega
    have hfX : g.cfg.kind.hasX = true → g.x.fits = true := by
      intro hk
      have : g.cfg.nStart + (g.st.steps + 1) * g.cfg.selX ≤ g.cfg.n := by
        unfold fits fits1 at hf; simp [hk] at hf; exact hf.2
      rw [RS.fits_iff]; unfold RS.nEff
      rw [hg.xCfg.1, hg.xCfg.2, hg.xSteps hk, hg.xLen hk]
      rw [Nat.succ_mul] at this; omega
    refine ⟨?_, fun _ => ⟨?_, ?_⟩, fun h => absurd h (by simp)⟩
    · refine ⟨maskOK_stepTrue hg.mask hf, ?_, ?_, ?_, ?_, ?_, ?_⟩
      · intro hk; simp only [hk, if_true, RS.add, stepTrue]; rw [hg.tSteps hk]
      · intro hk; simp only [hk, if_true, RS.add, stepTrue]; rw [hg.xSteps hk]
      · cases hk : g.cfg.kind.hasT <;> simp only [Bool.false_eq_true, if_false, if_true, RS.add] <;> exact hg.tCfg
      · cases hk : g.cfg.kind.hasX <;> simp only [Bool.false_eq_true, if_false, if_true, RS.add] <;> exact hg.xCfg
      · intro hk; simp only [hk, if_true]
        rw [add_length g.t pT (hfT hk) (by rw [hpT, hg.tCfg.2])]; exact hg.tLen hk
      · intro hk; simp only [hk, if_true]
        rw [add_length g.x pX (hfX hk) (by rw [hpX, hg.xCfg.2])]; exact hg.xLen hk
    · intro hk; exact ⟨hfT hk, by simp [hk, RS.apply, hfT hk]⟩
    · intro hk; exact ⟨hfX hk, by simp [hk, RS.apply, hfX hk]⟩
  · have hp' : proceed g.cfg g.st i = false := by simpa using hp
    simp only [hp', Bool.false_eq_true, if_false]
    refine ⟨⟨maskOK_stepFalse hg.mask i, hg.tSteps, hg.xSteps, hg.tCfg, hg.xCfg, hg.tLen, hg.xLen⟩,
      fun h => absurd h (by simp), fun _ => ⟨trivial, trivial⟩⟩

/-- a batch draw (oracles within contract) preserves the consistency invariant -/
theorem gen_getBatch_inv (g : Gen) (hg : GenInv g) (oT oX : List Nat)
    (hT : g.cfg.kind.hasT = true → g.t.oracleOk oT = true)
    (hX : g.cfg.kind.hasX = true → g.x.oracleOk oX = true) :
    GenInv (g.getBatch oT oX).1 := by
  unfold Gen.getBatch
  cases hkT : g.cfg.kind.hasT <;> cases hkX : g.cfg.kind.hasX <;>
    simp only [Bool.false_eq_true, if_false, if_true]
  · exact ⟨hg.mask, hg.tSteps, hg.xSteps, hg.tCfg, hg.xCfg, hg.tLen, hg.xLen⟩
  · obtain ⟨_, a, b, c, d⟩ := draw_active_perm g.x oX (hX hkX)
    exact ⟨hg.mask, hg.tSteps, fun h => by simp only [a]; exact hg.xSteps h, hg.tCfg,
      by simp only [b, c]; exact hg.xCfg, hg.tLen, fun h => by simp only [d]; exact hg.xLen h⟩
  · obtain ⟨_, a, b, c, d⟩ := draw_active_perm g.t oT (hT hkT)
    exact ⟨hg.mask, fun h => by simp only [a]; exact hg.tSteps h, hg.xSteps,
      by simp only [b, c]; exact hg.tCfg, hg.xCfg, fun h => by simp only [d]; exact hg.tLen h, hg.xLen⟩
  · obtain ⟨_, a, b, c, d⟩ := draw_active_perm g.x oX (hX hkX)
    obtain ⟨_, a', b', c', d'⟩ := draw_active_perm g.t oT (hT hkT)
    exact ⟨hg.mask, fun h => by simp only [a']; exact hg.tSteps h, fun h => by simp only [a]; exact hg.xSteps h,
      by simp only [b', c']; exact hg.tCfg, by simp only [b, c]; exact hg.xCfg,
      fun h => by simp only [d']; exact hg.tLen h, fun h => by simp only [d]; exact hg.xLen h⟩


/-- **C17 for the whole generator, over all histories** of `get_batch` and `trigger_rar` calls (any
    iteration numbers, any schedule, oracles within contract), for the three generator kinds: in
    every owned store the active points at the end are the initial active points plus the chosen
    candidates of the steps that took place (time and space separately), and the state stays
    consistent (probabilities of closed form, offsets `n_start + rar_iter_nb · selected`). -/
theorem gen_run_active (ops : List GenOp) : ∀ (g : Gen), GenInv g → g.validOps ops = true →
    GenInv (g.runOps ops) ∧
    (g.cfg.kind.hasT = true → (g.runOps ops).t.active.Perm (g.t.active ++ g.addedT ops)) ∧
    (g.cfg.kind.hasX = true → (g.runOps ops).x.active.Perm (g.x.active ++ g.addedX ops)) := by
  induction ops with
  | nil => intro g hg _; exact ⟨hg, fun _ => by simp [Gen.runOps, Gen.addedT], fun _ => by simp [Gen.runOps, Gen.addedX]⟩
  | cons op ops ih =>
    intro g hg hv
    cases op with
    | draw oT oX =>
      simp only [Gen.validOps, Bool.and_eq_true, Bool.or_eq_true, Bool.not_eq_true'] at hv
      have hoT : g.cfg.kind.hasT = true → g.t.oracleOk oT = true := by
        intro h; rcases hv.1.1 with h' | h'
        · rw [h] at h'; exact absurd h' (by simp)
        · exact h'
      have hoX : g.cfg.kind.hasX = true → g.x.oracleOk oX = true := by
        intro h; rcases hv.1.2 with h' | h'
        · rw [h] at h'; exact absurd h' (by simp)
        · exact h'
      have hinv := gen_getBatch_inv g hg oT oX hoT hoX
      have hcfg : (g.applyOp (.draw oT oX)).cfg = g.cfg := rfl
      obtain ⟨r1, r2, r3⟩ := ih (g.applyOp (.draw oT oX)) hinv hv.2
      simp only [Gen.runOps, Gen.addedT, Gen.addedX]
      refine ⟨r1, ?_, ?_⟩
      · intro h
        refine (r2 (by rw [hcfg]; exact h)).trans (List.Perm.append_right _ ?_)
        have : (g.applyOp (.draw oT oX)).t = (g.t.draw oT).1 := by
          simp [Gen.applyOp, Gen.getBatch, h]
        rw [this]; exact (draw_active_perm g.t oT (hoT h)).1
      · intro h
        refine (r3 (by rw [hcfg]; exact h)).trans (List.Perm.append_right _ ?_)
        have : (g.applyOp (.draw oT oX)).x = (g.x.draw oX).1 := by
          simp [Gen.applyOp, Gen.getBatch, h]
        rw [this]; exact (draw_active_perm g.x oX (hoX h)).1
    | trigger i pT pX =>
      simp only [Gen.validOps, Bool.and_eq_true, beq_iff_eq] at hv
      obtain ⟨hinv, hyes, hno⟩ := gen_trigger_refines g hg i pT pX hv.1.1 hv.1.2
      have hcfg : (g.applyOp (.trigger i pT pX)).cfg = g.cfg := by
        simp only [Gen.applyOp, Gen.trigger]; split <;> rfl
      obtain ⟨r1, r2, r3⟩ := ih (g.applyOp (.trigger i pT pX)) hinv hv.2
      simp only [Gen.runOps, Gen.addedT, Gen.addedX]
      refine ⟨r1, ?_, ?_⟩
      · intro h
        refine (r2 (by rw [hcfg]; exact h)).trans ?_
        cases hs : (g.trigger i pT pX).2 with
        | true =>
          obtain ⟨hf, he⟩ := (hyes hs).1 h
          have : (g.applyOp (.trigger i pT pX)).t = g.t.add pT := by
            show (g.trigger i pT pX).1.t = _
            rw [he]; simp [RS.apply, hf]
          rw [this, add_active g.t pT hf (by rw [hv.1.1, hg.tCfg.2])]
          simp
        | false =>
          have : (g.applyOp (.trigger i pT pX)).t = g.t := (hno hs).1
          rw [this]; simp
      · intro h
        refine (r3 (by rw [hcfg]; exact h)).trans ?_
        cases hs : (g.trigger i pT pX).2 with
        | true =>
          obtain ⟨hf, he⟩ := (hyes hs).2 h
          have : (g.applyOp (.trigger i pT pX)).x = g.x.add pX := by
            show (g.trigger i pT pX).1.x = _
            rw [he]; simp [RS.apply, hf]
          rw [this, add_active g.x pX hf (by rw [hv.1.2, hg.xCfg.2])]
          simp
        | false =>
          have : (g.applyOp (.trigger i pT pX)).x = g.x := (hno hs).2
          rw [this]; simp

/-! ### the model's steps pass the store clauses of `Holds.C17` -/

theorem getD_prefixMask {n a k : Nat} (hk : k < n) : (prefixMask n a).getD k false = decide (k < a) := by
  rw [List.getD_eq_getElem?_getD, List.getElem?_eq_getElem (by simpa using hk), Option.getD_some,
    getElem_prefixMask]

/-- the slots that become active: exactly `[a, a + sel)` -/
theorem filter_newly {n a sel : Nat} (h : a + sel ≤ n) :
    (List.range n).filter (fun k => (prefixMask n (a + sel)).getD k false && !(prefixMask n a).getD k false)
      = List.range' a sel := by
  have hsplit : List.range n = List.range' 0 a ++ (List.range' a sel ++ List.range' (a + sel) (n - (a + sel))) := by
    rw [List.range_eq_range']
    have e1 : List.range' a sel ++ List.range' (a + sel) (n - (a + sel)) = List.range' a (sel + (n - (a + sel))) := by
      simp
    rw [e1]
    have e2 := List.range'_append (s := 0) (m := a) (n := sel + (n - (a + sel))) (step := 1)
    simp only [Nat.zero_add, Nat.one_mul] at e2
    rw [e2]; congr 1; omega
  rw [hsplit, List.filter_append, List.filter_append]
  have f1 : (List.range' 0 a).filter (fun k => (prefixMask n (a + sel)).getD k false && !(prefixMask n a).getD k false) = [] := by
    rw [List.filter_eq_nil_iff]
    intro k hk
    have hk' := List.mem_range'_1.1 hk
    rw [getD_prefixMask (by omega), getD_prefixMask (by omega)]
    simp; omega
  have f2 : (List.range' a sel).filter (fun k => (prefixMask n (a + sel)).getD k false && !(prefixMask n a).getD k false) = List.range' a sel := by
    rw [List.filter_eq_self]
    intro k hk
    have hk' := List.mem_range'_1.1 hk
    rw [getD_prefixMask (by omega), getD_prefixMask (by omega)]
    simp; omega
  have f3 : (List.range' (a + sel) (n - (a + sel))).filter (fun k => (prefixMask n (a + sel)).getD k false && !(prefixMask n a).getD k false) = [] := by
    rw [List.filter_eq_nil_iff]
    intro k hk
    have hk' := List.mem_range'_1.1 hk
    rw [getD_prefixMask (by omega), getD_prefixMask (by omega)]
    simp; omega
  rw [f1, f2, f3]; simp

/-- what `Holds.C17` is shown of one store around a step of the model -/
def sideOf (s : RS Nat) (candLab chosen pts : List Nat) : Side17 :=
  { sel := s.sel, candLab := candLab, chosen := chosen, storeB := s.store,
    storeA := (s.add pts).store,
    maskB := prefixMask s.store.length s.nEff,
    maskA := prefixMask s.store.length (s.nEff + s.sel) }

/-- **a refinement step of the model passes every store clause of `Holds.C17`** (`sideCheck`): with
    the probabilities of C16 before and after, previously active slots are unchanged and still
    active, and the newly active slots hold exactly the chosen candidates. -/
theorem add_passes_sideCheck (s : RS Nat) (candLab chosen : List Nat)
    (hf : s.fits = true) (hp : chosen.length = s.sel) :
    sideCheck (sideOf s candLab chosen (chosen.map (fun c => candLab.getD c 0))) = none := by
  have hpl : (chosen.map (fun c => candLab.getD c 0)).length = s.sel := by rw [List.length_map, hp]
  have hfit := (RS.fits_iff s).1 hf
  have hlen := add_length s _ hf hpl
  have hkeep := add_keeps_active_slots s _ hf hpl
  generalize hpts : chosen.map (fun c => candLab.getD c 0) = pts at *
  unfold sideCheck sideOf
  simp only
  have c1 : (((s.add pts).store.length != s.store.length) || ((prefixMask s.store.length s.nEff).length != s.store.length) ||
      ((prefixMask s.store.length (s.nEff + s.sel)).length != s.store.length)) = false := by
    simp [hlen]
  have c2 : (List.range s.store.length).all (fun k => !(prefixMask s.store.length s.nEff).getD k false ||
      (prefixMask s.store.length (s.nEff + s.sel)).getD k false) = true := by
    rw [List.all_eq_true]; intro k hk
    have hk' := List.mem_range.1 hk
    rw [getD_prefixMask hk', getD_prefixMask hk']
    by_cases h : k < s.nEff <;> simp [h]; omega
  have c3 : (List.range s.store.length).all (fun k => !(prefixMask s.store.length s.nEff).getD k false ||
      (s.add pts).store.getD k 0 == s.store.getD k 0) = true := by
    rw [List.all_eq_true]; intro k hk
    have hk' := List.mem_range.1 hk
    rw [getD_prefixMask hk']
    by_cases h : k < s.nEff
    · simp only [List.getD_eq_getElem?_getD, hkeep k h]; simp
    · simp [h]
  have hnew : Side17.newly (sideOf s candLab chosen pts) = pts := by
    unfold Side17.newly sideOf
    simp only [hlen]
    rw [filter_newly hfit]
    apply List.ext_getElem
    · simp [hpl]
    · intro j h1 h2
      simp only [List.getElem_map, List.getElem_range', Nat.one_mul]
      show (updateStore s.store s.nEff pts).getD (s.nEff + j) 0 = pts[j]
      rw [updateStore_eq _ _ _ (by omega), List.getD_eq_getElem?_getD, List.append_assoc,
        List.getElem?_append_right (by simp; omega), List.getElem?_append_left (by simp; omega)]
      simp only [List.length_take]
      have : s.nEff + j - min s.nEff s.store.length = j := by omega
      rw [this, List.getElem?_eq_getElem h2, Option.getD_some]
  unfold sideOf at hnew
  simp only [c1, c2, c3, hnew, hpl, hpts, Bool.not_true, Bool.false_eq_true, if_false, bne_self_eq_false]
  have : pts.isPerm pts = true := List.isPerm_iff.2 (List.Perm.refl _)
  simp [this]


/-! ### non-vacuity -/

example : selectTop 2 ([3, 9, 1, 9, 4] : List Int) = [1, 3] := by decide
example : topCheck 2 ([3, 9, 1, 9, 4] : List Int) [1, 3] = none := by decide
/-- ties: any maximal choice passes; the front of the argsort does not -/
example : topCheck 2 ([3, 9, 1, 9, 9] : List Int) [4, 1] = none := by decide
example : topCheck 2 ([3, 9, 1, 9, 4] : List Int) [2, 0] = some "chosen-not-largest-residuals" := by decide
example : topPairs ([[1, 7, 3], [9, 2, 8]] : List (List Int)) 3 2 1 = ([1, 1], [0]) := by decide
example : pairsCheck ([[1, 7, 3], [9, 2, 8]] : List (List Int)) 3 2 1 [1, 1] [0] = none := by decide
example : pairsCheck ([[1, 7, 3], [9, 2, 8]] : List (List Int)) 3 1 3 [1] [0, 2, 1] = none := by decide
example : pairsCheck ([[1, 7, 3], [9, 2, 8]] : List (List Int)) 3 2 1 [0, 0] [1]
    = some "chosen-not-largest-residuals" := by decide
/-- the hypotheses of `selectTop_spec` / `topPairs_passes_pairsCheck` on integers -/
example : topCheck 2 ([3, 9, 1, 9, 4] : List Int) (selectTop 2 ([3, 9, 1, 9, 4] : List Int)) = none :=
  selectTop_passes_topCheck (fun a b => Int.le_total a b) (fun _ _ _ => Int.le_trans) _ 2 (by decide)

/-- a store of 7 slots, 3 active, 2 added per step, batches of 2 -/
def exRS : RS Nat := RS.mk0 [10, 11, 12, 13, 14, 15, 16] 2 3 2
/-- reshuffle, step, two advances, reshuffle (the five active points permuted, inactive ones last),
    step, a step that no longer fits, advance -/
def exOps : List (Op Nat) :=
  [.draw [12, 10, 11, 13, 14, 15, 16], .step [20, 21], .draw [], .draw [],
   .draw [21, 12, 10, 20, 11, 15, 16], .step [30, 31], .step [40, 41], .draw []]
example : exRS.valid exOps = true := by decide
example : (exRS.run exOps).store = [21, 12, 10, 20, 11, 30, 31] := by decide
example : exRS.added exOps = [20, 21, 30, 31] := by decide
example : (exRS.run exOps).active.Perm (exRS.active ++ exRS.added exOps) := run_active exOps exRS (by decide)
/-- a reshuffle that moves an inactive slot into the active range is outside the oracle contract -/
example : exRS.valid [.draw [13, 10, 11, 12, 14, 15, 16]] = false := by decide

/-- `Holds.C17` store clauses are not vacuous -/
def exSide (storeA : List Nat) : Side17 :=
  { sel := 2, candLab := [20, 21, 22], chosen := [2, 0], storeB := [10, 11, 12, 13, 14], storeA := storeA,
    maskB := [true, true, true, false, false], maskA := [true, true, true, true, true] }
example : sideCheck (exSide [10, 11, 12, 22, 20]) = none := by decide
example : sideCheck (exSide [10, 22, 20, 13, 14]) = some "active-slot-overwritten" := by decide
example : sideCheck (exSide [10, 11, 12, 21, 20]) = some "added-points-not-the-chosen-candidates" := by decide
example : drawCheck { storeB := [10, 11, 12, 13], storeA := [11, 13, 10, 12], mask := [true, true, true, false] }
    = some "draw-changed-the-active-points" := by decide
example : sideCheck (sideOf exRS [20, 21, 22] [2, 0] [22, 20]) = none :=
  add_passes_sideCheck exRS [20, 21, 22] [2, 0] (by decide) (by decide)

/-- non-vacuity: an ODE generator (5 slots, 2 active, 1 added per step, batches of 1), every
    iteration is a schedule point; the fourth trigger finds the store full -/
def exGenCfg : Cfg :=
  { kind := .ode, start := 0, every := 1, nt := 5, ntStart := 2, selT := 1, n := 0, nStart := 0, selX := 0 }
def exGen : Gen := Gen.init exGenCfg [10, 11, 12, 13, 14] [] 1 1
def exGenOps : List GenOp :=
  [.draw [11, 10, 12, 13, 14] [], .trigger 0 [20] [], .draw [] [], .draw [] [], .draw [20, 10, 11, 13, 14] [],
   .trigger 1 [21] [], .trigger 2 [22] [], .trigger 3 [23] [], .draw [] []]
example : exGen.validOps exGenOps = true := by decide
example : (exGen.runOps exGenOps).t.store = [20, 10, 11, 21, 22] := by decide
example : exGen.addedT exGenOps = [20, 21, 22] := by decide
example : GenInv exGen :=
  genInv_init ⟨by decide, fun _ => by decide, fun h => absurd h (by decide), fun _ => by decide,
    fun h => absurd h (by decide)⟩ _ _ 1 1 (fun _ => rfl) (fun h => absurd h (by decide))

end Jinns.Rar
