/-
C08 — the decidable trace predicate `Holds.C08` (which the correspondence check evaluates on the
*implementation's* traces) is satisfied by every trace of the *model* of the stationary and of the
non-stationary PDE generators: stores after construction + every interior and border batch of every
history of `get_batch`, for every well-formed constructor call, every sampler oracle honouring its
contract, every permutation-oracle history, both product modes, with and without the RAR set-up.
(`ode_history_holds` in `JinnsProofs/C08.lean` is the same statement for the ODE generator.)
-/
import JinnsProofs.C08

namespace Jinns.Domain
open Jinns.Minibatch Jinns.Cartesian Jinns.Holds

/-! ### border rows: the model's `borderRowOk` implies the clauses of `Holds.C08` -/

theorem borderRowOk_iff (mins maxs : List Rat) (row : List (List Rat)) :
    borderRowOk mins maxs row = true ↔
      row.length = mins.length ∧ (∀ c ∈ row, c.length = 2 * mins.length) ∧
      ∀ f, f < 2 * mins.length → onFacet mins maxs f (facetPoint f row) = true := by
  simp [borderRowOk, and_assoc]

theorem facetPoint_getD (f : Nat) (row : List (List Rat)) (c : Nat) (hc : c < row.length) :
    (facetPoint f row).getD c none = (row.getD c [])[f]? := by
  simp [facetPoint, List.getD_eq_getElem?_getD, hc]

/-- one facet of a valid border row passes the facet clause of `Holds.C08` -/
theorem facetClause_of_rowOk (mins maxs : List Rat) (row : List (List Rat))
    (h : borderRowOk mins maxs row = true) (f : Nat) (hf : f < 2 * mins.length) :
    c08FacetClause mins maxs f row = none := by
  obtain ⟨hlen, -, hfac⟩ := (borderRowOk_iff _ _ _).1 h
  have hon := hfac f hf
  unfold onFacet at hon
  simp only [Bool.and_eq_true, List.all_eq_true, List.mem_range] at hon
  unfold c08FacetClause
  apply c08First_eq_none
  intro x hx
  obtain ⟨c, hc, rfl⟩ := List.mem_map.1 hx
  have hc' : c < mins.length := List.mem_range.1 hc
  have hcc := hon.2 c hc'
  rw [facetPoint_getD f row c (by omega)] at hcc
  cases hv : (row.getD c [])[f]? with
  | none => rw [hv] at hcc; simp at hcc
  | some v =>
    rw [hv] at hcc
    simp only at hcc ⊢
    by_cases hcf : c = f / 2
    · rw [if_pos hcf] at hcc
      rw [if_pos hcf, if_pos hcc]
    · rw [if_neg hcf] at hcc
      have e : c08InIcc = inIcc := rfl
      rw [if_neg hcf, e, if_pos hcc]

/-- a list of valid border rows with the declared count passes `c08BorderRows` -/
theorem holdsBorderRows_of_rowOk (what : String) (mins maxs : List Rat) (cnt : Nat)
    (rows : List (List (List Rat))) (hc : rows.length = cnt)
    (hr : ∀ row ∈ rows, borderRowOk mins maxs row = true) :
    c08BorderRows what mins maxs cnt rows = none := by
  unfold c08BorderRows
  simp only
  rw [if_neg (by simp [hc])]
  have hshape : (rows.all fun r => r.length == mins.length && r.all fun c => c.length == 2 * mins.length)
      = true := by
    rw [List.all_eq_true]; intro r hrr
    obtain ⟨h1, h2, -⟩ := (borderRowOk_iff _ _ _).1 (hr r hrr)
    simp only [Bool.and_eq_true, beq_iff_eq, List.all_eq_true]
    exact ⟨h1, h2⟩
  rw [if_neg (by simp only [hshape]; decide)]
  apply c08First_eq_none
  intro x hx
  obtain ⟨r, hrr, rfl⟩ := List.mem_map.1 hx
  apply c08First_eq_none
  intro y hy
  obtain ⟨f, hf, rfl⟩ := List.mem_map.1 hy
  exact facetClause_of_rowOk mins maxs r (hr r hrr) f (List.mem_range.1 hf)

/-- the 1-D border row `(xmin, xmax)` is a valid border row of any 1-D box -/
theorem border1d_rowOk (mins maxs : List Rat) (h1 : mins.length = 1) :
    borderRowOk mins maxs [[mins.getD 0 0, maxs.getD 0 0]] = true := by
  match mins, h1 with
  | [m0], _ =>
    simp [borderRowOk, onFacet, facetPoint, List.range_succ]

/-! ### what a successful constructor leaves in its border store -/

/-- The three shapes of the border after a successful `CubicMeshPDEStatio.__post_init__`:
    no border batch size ⇒ no border; 1-D ⇒ the two end points; otherwise the generator is 2-D,
    `nb` was given, and the store has `nb / 4` valid rows, at least `bb` of them. -/
theorem statio_border_cases {a : StatioArgs} {o : StatioOracle} {s : Statio} (h : mkStatio a o = .ok s)
    (hle : ∀ i, i < a.dim → a.mins.getD i 0 ≤ a.maxs.getD i 0) :
    (a.bb = none ∧ s.bb = none ∧ s.border = .absent) ∨
    (∃ bbv, a.bb = some bbv ∧ a.dim = 1 ∧ s.border = .ends (a.mins.getD 0 0) (a.maxs.getD 0 0)) ∨
    (∃ bbv nbv rows, a.bb = some bbv ∧ a.dim = 2 ∧ a.nb = some nbv ∧ s.nb = some nbv ∧
      s.bb = some bbv ∧ s.border = .facets rows ∧ 4 * rows.length = nbv ∧ bbv ≤ rows.length ∧
      ∀ row ∈ rows, borderRowOk a.mins a.maxs row = true) := by
  obtain ⟨hd1, _, _, hbp, hom, hbd⟩ := mkStatio_ok h
  cases hbb : a.bb with
  | none =>
    left
    rw [hbb] at hbp
    have hp : (s.nb, s.bb) = (none, none) := by
      have := (borderParams_other a.dim a.nb 0).1; rw [this] at hbp; injection hbp with hbp; exact hbp.symm
    have hsbb : s.bb = none := by injection hp
    refine ⟨rfl, hsbb, ?_⟩
    rw [hsbb] at hbd
    simp only [mkBorder] at hbd
    injection hbd with hbd; exact hbd.symm
  | some bbv =>
    right
    by_cases h1 : a.dim = 1
    · left
      rw [hbb, h1] at hbp
      have hp : (s.nb, s.bb) = (some 2, some 2) := by
        have := (borderParams_other 1 a.nb bbv).2.1; rw [this] at hbp; injection hbp with hbp; exact hbp.symm
      have hsbb : s.bb = some 2 := by injection hp
      refine ⟨bbv, rfl, h1, ?_⟩
      rw [hsbb] at hbd
      simp only [mkBorder, h1, if_true] at hbd
      injection hbd with hbd; exact hbd.symm
    · right
      have hs := (statio_stores h hle).2.2
      cases hbs : s.border with
      | absent => rw [hbs] at hs; simp only [BorderDeclared] at hs; rw [hbb] at hs; cases hs
      | ends x0 x1 => rw [hbs] at hs; exact absurd hs.1 h1
      | facets rows =>
        rw [hbs] at hs
        simp only [BorderDeclared] at hs
        obtain ⟨h2, ⟨nbv, bbv', hnb, hbb', hsnb, h4, hle'⟩, hok⟩ := hs
        have e : bbv' = bbv := by rw [hbb] at hbb'; injection hbb' with e; exact e.symm
        subst e
        rw [hbb, hnb] at hbp
        obtain ⟨-, hr⟩ := (borderParams_ok_iff a.dim nbv bbv' (by omega) _).1 hbp
        have hsbb : s.bb = some bbv' := by injection hr
        exact ⟨bbv', nbv, rows, rfl, h2, hnb, hsnb, hsbb, rfl, h4, hle', hok⟩

/-! ### the observation record of the model: stores -/

/-- the 2-D border store as the harness observes it (`omega_border`, rows × 2 × 4) -/
def Statio.border2? (s : Statio) : Option (List (List (List Rat))) :=
  match s.border with
  | .facets rows => some rows
  | _ => none

/-- the 1-D border store as the harness observes it (`omega_border = [xmin, xmax]`) -/
def Statio.border1? (s : Statio) : Option (List Rat) :=
  match s.border with
  | .ends x0 x1 => some [x0, x1]
  | _ => none

/-- **`Holds.C08` is true of the stores of the stationary model** after every successful
    construction: `omega` has `n` points in the box; the border is absent / `(xmin, xmax)` /
    `nb` points (`nb / 4` rows × 4 facets) each exactly on its facet. -/
theorem statio_stores_holds {a : StatioArgs} {o : StatioOracle} {s : Statio} (h : mkStatio a o = .ok s)
    (hle : ∀ i, i < a.dim → a.mins.getD i 0 ≤ a.maxs.getD i 0) :
    holdsC08StatioStores a.mins a.maxs a.n a.nb a.bb s.omega s.border2? s.border1? = none := by
  have hd1 := (mkStatio_ok h).1
  have hs := statio_stores h hle
  unfold holdsC08StatioStores
  apply c08First_eq_none
  intro x hx
  simp only [List.mem_cons, List.not_mem_nil, or_false] at hx
  rcases hx with rfl | rfl
  · exact holdsPoints_of_box _ _ _ _ _ hs.1 hs.2.1
  · rcases statio_border_cases h hle with ⟨hbb, -, hbs⟩ | ⟨bbv, hbb, h1, hbs⟩ |
      ⟨bbv, nbv, rows, hbb, h2, hnb, -, -, hbs, h4, -, hok⟩
    · simp [hbb, Statio.border2?, Statio.border1?, hbs]
    · simp [hbb, ← hd1, h1, Statio.border1?, hbs]
    · have hr := holdsBorderRows_of_rowOk "border-store" a.mins a.maxs rows.length rows rfl hok
      simp only [hbb, ← hd1, h2, Statio.border2?, hbs, hnb, Option.getD_some]
      rw [hr]
      simp only [Nat.reduceBEq, Bool.false_eq_true, if_false]
      rw [if_neg (by simp; omega)]

/-! ### the cursors: one invariant for the interior, the border and the time cursor -/

/-- invariant of one C09 cursor along any history: a store of `N` points all satisfying `P`, and a
    batch size `b ≤ N` -/
def MBInv {α : Type} (P : α → Prop) (N b : Nat) (m : MB α) : Prop :=
  m.store.length = N ∧ m.b = b ∧ b ≤ N ∧ ∀ p ∈ m.store, P p

theorem MBInv.init {α : Type} {P : α → Prop} {N b : Nat} (store : List α) (hl : store.length = N)
    (hb : b ≤ N) (hp : ∀ p ∈ store, P p) : MBInv P N b (init store b) := ⟨hl, rfl, hb, hp⟩

/-- one request, for any epoch size: the invariant is kept and the batch has `b` points, all
    satisfying `P` — provided the reshuffled store the PRNG proposes has `N` points satisfying `P` -/
theorem MBInv.next {α : Type} {P : α → Prop} {N b : Nat} {m : MB α} (hm : MBInv P N b m) (nEff : Nat)
    (o : List α) (hol : o.length = N) (ho : ∀ p ∈ o, P p) :
    MBInv P N b (next nEff m o).1 ∧ (next nEff m o).2.length = b ∧ ∀ p ∈ (next nEff m o).2, P p := by
  obtain ⟨h1, h2, h3, h4⟩ := hm
  by_cases hr : resets nEff m = true
  · rw [next_of_resets _ _ _ hr]
    refine ⟨⟨hol, h2, h3, ho⟩, ?_, ?_⟩
    · show (slice o 0 m.b).length = b
      rw [slice_length _ _ _ (by omega)]; exact h2
    · intro p hp; exact ho p ((slice_sublist _ _ _).subset hp)
  · have hr' : resets nEff m = false := by simpa using hr
    rw [next_of_not_resets _ _ _ hr']
    refine ⟨⟨h1, h2, h3, h4⟩, ?_, ?_⟩
    · show (slice m.store (m.idx + m.b) m.b).length = b
      rw [slice_length _ _ _ (by omega)]; exact h2
    · intro p hp; exact h4 p ((slice_sublist _ _ _).subset hp)

/-- invariant of the border part of the state against the *declared* border batch size `abb`
    (`fm` = "the border is a cursor over facet rows", which never changes along a history):
    absent iff none was declared; the fixed end points in 1-D; a cursor over `N` valid rows else -/
def BInv (mins maxs : List Rat) (abb : Option Nat) (fm : Prop) (N : Nat) : Border Rat → Prop
  | .absent => abb = none
  | .fixed1d e => mins.length = 1 ∧ (∃ bbv, abb = some bbv) ∧ e = [mins.getD 0 0, maxs.getD 0 0]
  | .facets m => fm ∧ mins.length ≠ 1 ∧
      ∃ bbv, abb = some bbv ∧ MBInv (fun row => borderRowOk mins maxs row = true) N bbv m

/-- what a border batch must be, against the declared border batch size: absent iff none was
    declared; `[[[xmin, xmax]]]` in 1-D; `bb` valid rows otherwise -/
def DxOk (mins maxs : List Rat) (abb : Option Nat) : Option (List (List (List Rat))) → Prop
  | none => abb = none
  | some d => ∃ bbv, abb = some bbv ∧ d.length = (if mins.length = 1 then 1 else bbv) ∧
      (∀ row ∈ d, borderRowOk mins maxs row = true) ∧
      (mins.length = 1 → d = [[[mins.getD 0 0, maxs.getD 0 0]]])

theorem BInv.next {mins maxs : List Rat} {abb : Option Nat} {fm : Prop} {N : Nat} {bc : Border Rat}
    (hbc : BInv mins maxs abb fm N bc) (nB : Nat) (ob : List (List (List Rat)))
    (hob : fm → ob.length = N ∧ ∀ row ∈ ob, borderRowOk mins maxs row = true) :
    BInv mins maxs abb fm N (Border.next nB bc ob).1 ∧ DxOk mins maxs abb (Border.next nB bc ob).2 := by
  cases bc with
  | absent => exact ⟨hbc, hbc⟩
  | fixed1d e =>
    obtain ⟨h1, ⟨bbv, hbb⟩, he⟩ := hbc
    refine ⟨⟨h1, ⟨bbv, hbb⟩, he⟩, bbv, hbb, ?_, ?_, ?_⟩
    · simp [h1]
    · intro row hrow
      simp only [List.mem_singleton] at hrow
      subst hrow; subst he
      exact border1d_rowOk mins maxs h1
    · intro _; rw [he]
  | facets m =>
    obtain ⟨hfm, h1, bbv, hbb, hm⟩ := hbc
    obtain ⟨hl, hr⟩ := hob hfm
    have hn := hm.next nB ob hl hr
    refine ⟨⟨hfm, h1, bbv, hbb, hn.1⟩, bbv, hbb, ?_, hn.2.2, fun h => absurd h h1⟩
    show (Minibatch.next nB m ob).2.length = _
    rw [if_neg h1]; exact hn.2.1

/-- one stationary batch `(inside_batch, border_batch)` with the declared interior size, all points
    in the box, and a border batch as `DxOk` says, passes `Holds.C08` -/
theorem statioBatch_holds (mins maxs : List Rat) (b : Nat) (abb : Option Nat) (x : List (List Rat))
    (dx : Option (List (List (List Rat)))) (hx : x.length = b)
    (hbx : ∀ p ∈ x, inBox mins maxs p = true) (hdx : DxOk mins maxs abb dx) :
    holdsC08StatioBatch mins maxs b abb x dx = none := by
  unfold holdsC08StatioBatch
  apply c08First_eq_none
  intro y hy
  simp only [List.mem_cons, List.not_mem_nil, or_false] at hy
  rcases hy with rfl | rfl
  · exact holdsPoints_of_box _ _ _ _ _ hx hbx
  · cases dx with
    | none => simp only [DxOk] at hdx; subst hdx; rfl
    | some d =>
      obtain ⟨bbv, hbb, hl, hr, h1d⟩ := hdx
      subst hbb
      simp only
      by_cases h1 : mins.length = 1
      · rw [h1d h1]; simp [h1]
      · rw [if_neg h1] at hl
        rw [if_neg (by simpa using h1)]
        exact holdsBorderRows_of_rowOk _ _ _ _ _ hl hr

/-! ### the stationary generator: every history -/

/-- A history of `CubicMeshPDEStatio.get_batch` calls as the driver runs it: the interior cursor
    (epoch size `nO`) and the border state (epoch size `nB`) advance together; every request
    carries the two reshuffled stores the PRNG would produce. -/
def statioRun (nO nB : Nat) : MB (List Rat) → Border Rat →
    List (List (List Rat) × List (List (List Rat))) →
    List (List (List Rat) × Option (List (List (List Rat))))
  | _, _, [] => []
  | m, bc, o :: os =>
    ((next nO m o.1).2, (Border.next nB bc o.2).2) ::
      statioRun nO nB (next nO m o.1).1 (Border.next nB bc o.2).1 os

/-- the invariant carries `Holds.C08` through every history, for any epoch sizes -/
theorem statioRun_holds (mins maxs : List Rat) (b : Nat) (abb : Option Nat) (fm : Prop)
    (nO nB N NB : Nat) (m : MB (List Rat)) (bc : Border Rat)
    (hm : MBInv (fun p => inBox mins maxs p = true) N b m) (hbc : BInv mins maxs abb fm NB bc)
    (os : List (List (List Rat) × List (List (List Rat))))
    (hos : ∀ o ∈ os, o.1.length = N ∧ (∀ p ∈ o.1, inBox mins maxs p = true) ∧
      (fm → o.2.length = NB ∧ ∀ row ∈ o.2, borderRowOk mins maxs row = true)) :
    ∀ xd ∈ statioRun nO nB m bc os, holdsC08StatioBatch mins maxs b abb xd.1 xd.2 = none := by
  induction os generalizing m bc with
  | nil => intro xd hxd; simp [statioRun] at hxd
  | cons o os ih =>
    obtain ⟨ho1, ho2, ho3⟩ := hos o List.mem_cons_self
    have hx := hm.next nO o.1 ho1 ho2
    have hb := hbc.next nB o.2 ho3
    intro xd hxd
    simp only [statioRun, List.mem_cons] at hxd
    rcases hxd with rfl | hxd
    · exact statioBatch_holds _ _ _ _ _ _ hx.2.1 hx.2.2 hb.2
    · exact ih _ _ hx.1 hb.1 (fun o' ho' => hos o' (List.mem_cons_of_mem _ ho')) xd hxd

/-- the border part of the state of a freshly built generator (`dim == 2`: a cursor over the rows
    with the stored border batch size; `dim == 1`: the fixed end points; none otherwise) -/
def Statio.borderCursor (s : Statio) : Border Rat :=
  match s.border with
  | .facets rows => .facets (init rows (s.bb.getD 0))
  | .ends x0 x1 => .fixed1d [x0, x1]
  | .absent => .absent

/-- "the border is a cursor over facet rows" -/
def Statio.hasFacets (s : Statio) : Prop := ∃ rows, s.border = .facets rows

/-- **PRNG contract of a history** of `get_batch` calls on a stationary generator (C09's contract,
    for both cursors): every proposed reshuffle of `omega` is a permutation of `omega`, every
    proposed reshuffle of the 2-D border store is a permutation of its rows (nothing is asked of the
    border oracle when there is no border cursor — it is ignored). -/
def StatioOracles (s : Statio) (os : List (List (List Rat) × List (List (List Rat)))) : Prop :=
  ∀ o ∈ os, o.1.Perm s.omega ∧ ∀ rows, s.border = .facets rows → o.2.Perm rows

/-- the initial border state satisfies the invariant, with `N` = the number of rows of the store -/
theorem statio_border_inv {a : StatioArgs} {o : StatioOracle} {s : Statio} (h : mkStatio a o = .ok s)
    (hle : ∀ i, i < a.dim → a.mins.getD i 0 ≤ a.maxs.getD i 0) :
    ∃ NB, BInv a.mins a.maxs a.bb s.hasFacets NB s.borderCursor ∧
      ∀ rows, s.border = .facets rows →
        rows.length = NB ∧ ∀ row ∈ rows, borderRowOk a.mins a.maxs row = true := by
  have hd1 := (mkStatio_ok h).1
  rcases statio_border_cases h hle with ⟨hbb, -, hbs⟩ | ⟨bbv, hbb, h1, hbs⟩ |
    ⟨bbv, nbv, rows, hbb, h2, -, -, hsbb, hbs, -, hbr, hok⟩
  · refine ⟨0, ?_, ?_⟩
    · simp only [Statio.borderCursor, hbs, BInv]; exact hbb
    · intro rows hr; rw [hbs] at hr; cases hr
  · refine ⟨0, ?_, ?_⟩
    · simp only [Statio.borderCursor, hbs, BInv]
      exact ⟨by omega, ⟨bbv, hbb⟩, trivial⟩
    · intro rows hr; rw [hbs] at hr; cases hr
  · refine ⟨rows.length, ?_, ?_⟩
    · simp only [Statio.borderCursor, hbs, BInv, hsbb, Option.getD_some]
      exact ⟨⟨rows, hbs⟩, by omega, bbv, hbb, MBInv.init rows rfl hbr hok⟩
    · intro rows' hr; rw [hbs] at hr; injection hr with hr; subst hr
      exact ⟨rfl, hok⟩

/-- **`Holds.C08` is true of the whole observation record of the stationary model, for any epoch
    sizes** of the two cursors: the stores after construction, then every interior and border batch
    of every history of `get_batch`. -/
theorem statio_trace_holds {a : StatioArgs} {o : StatioOracle} {s : Statio} (h : mkStatio a o = .ok s)
    (hle : ∀ i, i < a.dim → a.mins.getD i 0 ≤ a.maxs.getD i 0) (hb : a.b ≤ a.n) (nO nB : Nat)
    (os : List (List (List Rat) × List (List (List Rat)))) (hos : StatioOracles s os) :
    holdsC08Statio a.mins a.maxs a.n a.nb a.b a.bb s.omega s.border2? s.border1?
      (statioRun nO nB (init s.omega a.b) s.borderCursor os) = none := by
  have hs := statio_stores h hle
  obtain ⟨NB, hbc, hrows⟩ := statio_border_inv h hle
  unfold holdsC08Statio
  apply c08First_eq_none
  intro x hx
  simp only [List.mem_cons, List.mem_map] at hx
  rcases hx with rfl | ⟨xd, hxd, rfl⟩
  · exact statio_stores_holds h hle
  · refine statioRun_holds a.mins a.maxs a.b a.bb s.hasFacets nO nB a.n NB _ _
      (MBInv.init s.omega hs.1 hb hs.2.1) hbc os ?_ xd hxd
    intro o' ho'
    obtain ⟨hp1, hp2⟩ := hos o' ho'
    refine ⟨by rw [hp1.length_eq]; exact hs.1, fun p hp => hs.2.1 p (hp1.subset hp), ?_⟩
    rintro ⟨rows, hr⟩
    obtain ⟨hl, hok⟩ := hrows rows hr
    have hp := hp2 rows hr
    exact ⟨by rw [hp.length_eq]; exact hl, fun row hrow => hok row (hp.subset hrow)⟩

/-- **C08, stationary generator: `Holds.C08` is true of every trace of the model.**  For every
    constructor call that succeeds (`mkStatio … = .ok s`: any dimension, box with `min ≤ max` of any
    sign, counts, method, any sampler oracle honouring its contract — the model rejects the
    others), every batch size the slice accepts (`b ≤ n`) and every history of `get_batch` of any
    length whose reshuffles are permutations, the observation record of the model — `omega`, the
    border store, and every `(inside_batch, border_batch)` — satisfies the predicate the driver
    applies to stationary generators.  Epoch sizes are those of the code: `n` and `nb // (2 dim)`. -/
theorem statio_history_holds {a : StatioArgs} {o : StatioOracle} {s : Statio} (h : mkStatio a o = .ok s)
    (hle : ∀ i, i < a.dim → a.mins.getD i 0 ≤ a.maxs.getD i 0) (hb : a.b ≤ a.n)
    (os : List (List (List Rat) × List (List (List Rat)))) (hos : StatioOracles s os) :
    holdsC08Statio a.mins a.maxs a.n a.nb a.b a.bb s.omega s.border2? s.border1?
      (statioRun a.n (s.nb.getD 0 / (2 * a.dim)) (init s.omega a.b) s.borderCursor os) = none :=
  statio_trace_holds h hle hb _ _ os hos

/-- **… and of every trace of the RAR-configured stationary model**: the whole pre-allocated store
    is observed (all `n` points, active or not), and the interior cursor runs with the epoch size
    `n_eff = n_start` of a fresh RAR generator. -/
theorem statio_rar_history_holds {a : StatioArgs} {rar : Bool} {nStart : Option Nat} {o : StatioOracle}
    {s : Statio} {nEff : Nat} (h : mkStatioRar a rar nStart o = .ok (s, nEff))
    (hle : ∀ i, i < a.dim → a.mins.getD i 0 ≤ a.maxs.getD i 0) (hb : a.b ≤ a.n)
    (os : List (List (List Rat) × List (List (List Rat)))) (hos : StatioOracles s os) :
    holdsC08Statio a.mins a.maxs a.n a.nb a.b a.bb s.omega s.border2? s.border1?
      (statioRun nEff (s.nb.getD 0 / (2 * a.dim)) (init s.omega a.b) s.borderCursor os) = none :=
  statio_trace_holds (mkStatioRar_ok h).1 hle hb _ _ os hos

/-! ### space-time batches: rows in the domain ⇒ the clauses of `Holds.C08` -/

/-- interior rows `(t, x…)` with `t` in the interval and `x` in the box pass `c08TX` -/
theorem holdsTX_of_rows (mins maxs : List Rat) (tmin tmax : Rat) (cnt : Nat) (tx : List (List Rat))
    (hl : tx.length = cnt)
    (hr : ∀ r ∈ tx, ∃ v p, r = v :: p ∧ inIcc tmin tmax v = true ∧ inBox mins maxs p = true) :
    c08TX mins maxs tmin tmax cnt tx = none := by
  have e1 : c08InIcc = inIcc := rfl
  have e2 : c08InBox = inBox := rfl
  unfold c08TX
  rw [if_neg (by simp [hl])]
  have h1 : (tx.all fun r => r.length == 1 + mins.length) = true := by
    rw [List.all_eq_true]; intro r hrr
    obtain ⟨v, p, rfl, -, hp⟩ := hr r hrr
    have := ((inBox_iff _ _ _).1 hp).1
    simp only [List.length_cons, beq_iff_eq]; omega
  have h2 : (tx.all fun r => c08InIcc tmin tmax (r.headD 0)) = true := by
    rw [List.all_eq_true]; intro r hrr
    obtain ⟨v, p, rfl, hv, -⟩ := hr r hrr
    rw [e1]; exact hv
  have h3 : (tx.all fun r => c08InBox mins maxs r.tail) = true := by
    rw [List.all_eq_true]; intro r hrr
    obtain ⟨v, p, rfl, -, hp⟩ := hr r hrr
    rw [e2]; exact hp
  rw [if_neg (by rw [h1]; decide), if_neg (by rw [h2]; decide), if_neg (by rw [h3]; decide)]

/-- border rows `(t…t, border row)` — the time replicated over the `2·dim` facets, in the interval,
    followed by a valid border row — pass `c08TDX` -/
theorem holdsTDX_of_rows (mins maxs : List Rat) (tmin tmax : Rat) (cnt : Nat)
    (tdx : List (List (List Rat))) (hl : tdx.length = cnt)
    (hr : ∀ r ∈ tdx, ∃ v row, r = List.replicate (2 * mins.length) v :: row ∧
      inIcc tmin tmax v = true ∧ borderRowOk mins maxs row = true) :
    c08TDX mins maxs tmin tmax cnt tdx = none := by
  have e1 : c08InIcc = inIcc := rfl
  unfold c08TDX
  simp only
  rw [if_neg (by simp [hl])]
  have h1 : (tdx.all fun r => r.length == 1 + mins.length &&
      r.all fun c => c.length == 2 * mins.length) = true := by
    rw [List.all_eq_true]; intro r hrr
    obtain ⟨v, row, rfl, -, hrow⟩ := hr r hrr
    obtain ⟨ha, hb, -⟩ := (borderRowOk_iff _ _ _).1 hrow
    simp only [List.length_cons, Bool.and_eq_true, beq_iff_eq, List.all_eq_true, List.mem_cons]
    refine ⟨by omega, ?_⟩
    rintro c (rfl | hc)
    · simp
    · exact hb c hc
  have h2 : (tdx.all fun r => (r.headD []).all (c08InIcc tmin tmax)) = true := by
    rw [List.all_eq_true]; intro r hrr
    obtain ⟨v, row, rfl, hv, -⟩ := hr r hrr
    simp only [List.headD_cons, List.all_eq_true]
    intro w hw
    rw [List.eq_of_mem_replicate hw, e1]; exact hv
  rw [if_neg (by simp only [h1]; decide), if_neg (by simp only [h2]; decide)]
  apply holdsBorderRows_of_rowOk _ _ _ _ _ (by simp [hl])
  intro row' hrow'
  obtain ⟨r, hrr, rfl⟩ := List.mem_map.1 hrow'
  obtain ⟨v, row, rfl, -, hrow⟩ := hr r hrr
  exact hrow

/-- `dx.shape[-1]` of a non-empty batch of valid border rows is `2·dim` -/
theorem facetCount_of_rowOk (mins maxs : List Rat) (d : List (List (List Rat))) (row : List (List Rat))
    (hrow : row ∈ d) (hok : ∀ r ∈ d, borderRowOk mins maxs r = true) :
    facetCount d = 2 * mins.length := by
  cases d with
  | nil => cases hrow
  | cons r0 rest =>
    obtain ⟨ha, hb, -⟩ := (borderRowOk_iff _ _ _).1 (hok r0 List.mem_cons_self)
    cases r0 with
    | nil => simp only [List.length_nil] at ha; simp [facetCount, ← ha]
    | cons c cs => simp only [facetCount]; exact hb c List.mem_cons_self

/-- rows of the space-time border batch of `get_batch`, in either mode -/
theorem mem_combine_border (cart : Bool) (dim : Nat) (t : List Rat) (d : List (List (List Rat)))
    (r : List (List Rat))
    (hr : r ∈ (if (cart || dim == 1) = true then cartesian (timeRep (facetCount d) t) d
      else paired (timeRep (facetCount d) t) d)) :
    ∃ v ∈ t, ∃ row ∈ d, r = List.replicate (facetCount d) v :: row := by
  have : ∃ a ∈ timeRep (facetCount d) t, ∃ b ∈ d, r = a ++ b := by
    split at hr
    · exact mem_cartesian _ _ _ hr
    · exact mem_paired _ _ _ hr
  obtain ⟨a, ha, b, hb, rfl⟩ := this
  obtain ⟨v, hv, rfl⟩ := List.mem_map.1 ha
  exact ⟨v, hv, b, hb, rfl⟩

/-- declared number of border rows of a space-time batch (as in `Holds.holdsC08NonStatio`) -/
def rowsBdOf (mins : List Rat) (abb : Option Nat) (bt : Nat) (cart : Bool) : Nat :=
  if cart || mins.length == 1 then bt * (if mins.length == 1 then 1 else abb.getD 0)
  else (if mins.length == 1 then 1 else abb.getD 0)

/-- the pairing guard of the constructor, read against the declared sizes -/
def PairingOk (mins : List Rat) (abb : Option Nat) (b bt : Nat) (cart : Bool) : Prop :=
  cart = false → bt = b ∧ (mins.length ≠ 1 → ∀ k, abb = some k → k = bt)

/-- **one space-time batch** built by `combine` from an interior batch (`b` points of the box), a
    border batch (`DxOk`) and a temporal batch (`bt` times of the interval), in product mode or in
    pairing mode under the constructor's guard, passes `Holds.C08` -/
theorem nonStatioBatch_holds (mins maxs : List Rat) (tmin tmax : Rat) (b bt : Nat) (abb : Option Nat)
    (cart : Bool) (x : List (List Rat)) (dx : Option (List (List (List Rat)))) (t : List Rat)
    (hx : x.length = b) (hbx : ∀ p ∈ x, inBox mins maxs p = true) (hdx : DxOk mins maxs abb dx)
    (ht : t.length = bt) (hbt : ∀ v ∈ t, inIcc tmin tmax v = true) (hg : PairingOk mins abb b bt cart) :
    holdsC08NonStatioBatch mins maxs tmin tmax (if cart then bt * b else b) (rowsBdOf mins abb bt cart)
      abb (combine cart mins.length x dx t).1 (combine cart mins.length x dx t).2 = none := by
  have hrows := combine_rows cart mins.length x dx t (fun v => inIcc tmin tmax v = true)
    (fun p => inBox mins maxs p = true) (fun _ => True) hbt hbx (fun _ _ _ _ => trivial)
  unfold holdsC08NonStatioBatch
  apply c08First_eq_none
  intro y hy
  simp only [List.mem_cons, List.not_mem_nil, or_false] at hy
  rcases hy with rfl | rfl
  · apply holdsTX_of_rows _ _ _ _ _ _ _ hrows.1
    simp only [combine]
    cases cart with
    | true => simp only [if_true]; rw [cartesian_col_length, ht, hx]
    | false =>
      have := (hg rfl).1
      simp [paired_length, col, ht, hx, this]
  · cases dx with
    | none => simp only [DxOk] at hdx; subst hdx; rfl
    | some d =>
      obtain ⟨bbv, hbb, hl, hr, -⟩ := hdx
      subst hbb
      simp only [combine, Option.map_some]
      apply holdsTDX_of_rows
      · -- the declared number of rows
        unfold rowsBdOf
        by_cases hc : (cart || mins.length == 1) = true
        · rw [if_pos hc, if_pos hc, cartesian_length, hl]
          simp [timeRep, ht]
        · rw [if_neg hc, if_neg hc, paired_length, hl]
          have hc' : cart = false ∧ mins.length ≠ 1 := by
            cases cart <;> simp_all
          have := (hg hc'.1).2 hc'.2 bbv rfl
          simp [timeRep, ht, hc'.2, this]
      · intro r hrr
        obtain ⟨v, hv, row, hrow, rfl⟩ := mem_combine_border cart mins.length t d r hrr
        rw [facetCount_of_rowOk mins maxs d row hrow hr]
        exact ⟨v, row, rfl, hbt v hv, hr row hrow⟩

/-! ### the non-stationary generator: every history -/

/-- the invariant of the three cursors carries `Holds.C08` through every history of `get_batch`,
    for any epoch sizes, in either product mode -/
theorem runNS_holds (mins maxs : List Rat) (tmin tmax : Rat) (b bt : Nat) (abb : Option Nat)
    (cart : Bool) (fm : Prop) (nO nB nT N NB NT : Nat) (g : NS Rat)
    (hc : g.cart = cart) (hd : g.dim = mins.length)
    (hO : MBInv (fun p => inBox mins maxs p = true) N b g.omega)
    (hB : BInv mins maxs abb fm NB g.border)
    (hT : MBInv (fun v => inIcc tmin tmax v = true) NT bt g.times)
    (hg : PairingOk mins abb b bt cart)
    (os : List (List (List Rat) × List (List (List Rat)) × List Rat))
    (hos : ∀ o ∈ os, (o.1.length = N ∧ ∀ p ∈ o.1, inBox mins maxs p = true) ∧
      (fm → o.2.1.length = NB ∧ ∀ row ∈ o.2.1, borderRowOk mins maxs row = true) ∧
      (o.2.2.length = NT ∧ ∀ v ∈ o.2.2, inIcc tmin tmax v = true)) :
    ∀ p ∈ (runNS nO nB nT g os).2,
      holdsC08NonStatioBatch mins maxs tmin tmax (if cart then bt * b else b) (rowsBdOf mins abb bt cart)
        abb p.1 p.2 = none := by
  induction os generalizing g with
  | nil => intro p hp; simp [runNS] at hp
  | cons o os ih =>
    obtain ⟨⟨ho1, ho2⟩, ho3, ho4, ho5⟩ := hos o List.mem_cons_self
    have hx := hO.next nO o.1 ho1 ho2
    have hb := hB.next nB o.2.1 ho3
    have ht := hT.next nT o.2.2 ho4 ho5
    intro p hp
    simp only [runNS, List.mem_cons] at hp
    rcases hp with rfl | hp
    · simp only [getBatch, hc, hd]
      exact nonStatioBatch_holds mins maxs tmin tmax b bt abb cart _ _ _ hx.2.1 hx.2.2 hb.2
        ht.2.1 ht.2.2 hg
    · exact ih (getBatch nO nB nT g o).1 (by simpa [getBatch] using hc) (by simpa [getBatch] using hd)
        (by simpa [getBatch] using hx.1) (by simpa [getBatch] using hb.1)
        (by simpa [getBatch] using ht.1) (fun o' ho' => hos o' (List.mem_cons_of_mem _ ho')) p hp

/-- the state of a freshly built `CubicMeshPDENonStatio` as far as `get_batch` is concerned -/
def NonStatio.state (a : StatioArgs) (cart : Bool) (bt : Nat) (g : NonStatio) : NS Rat :=
  { omega := init g.statio.omega a.b, border := g.statio.borderCursor, times := init g.times bt,
    cart := cart, dim := a.dim }

/-- **PRNG contract of a history** of `get_batch` calls on a non-stationary generator: every
    proposed reshuffle of `omega`, of the rows of the 2-D border store and of the time store is a
    permutation of that store. -/
def NonStatioOracles (g : NonStatio)
    (os : List (List (List Rat) × List (List (List Rat)) × List Rat)) : Prop :=
  ∀ o ∈ os, o.1.Perm g.statio.omega ∧ (∀ rows, g.statio.border = .facets rows → o.2.1.Perm rows) ∧
    o.2.2.Perm g.times

/-- the constructor's pairing guard (on the *stored* border batch size) gives `PairingOk` on the
    declared one -/
theorem pairingOk_of_guard {a : StatioArgs} {o : StatioOracle} {s : Statio} (h : mkStatio a o = .ok s)
    (hle : ∀ i, i < a.dim → a.mins.getD i 0 ≤ a.maxs.getD i 0) (cart : Bool) (bt : Nat)
    (hg : pairingGuard cart a.dim bt a.b s.bb = .ok ()) : PairingOk a.mins a.bb a.b bt cart := by
  have hd1 := (mkStatio_ok h).1
  intro hcart
  rcases (pairingGuard_ok_iff _ _ _ _ _).1 hg with hc | ⟨hbt, hk⟩
  · rw [hc] at hcart; cases hcart
  · refine ⟨hbt, fun h1 k hbb => ?_⟩
    rcases statio_border_cases h hle with ⟨hbb', -, -⟩ | ⟨bbv, -, h1', -⟩ |
      ⟨bbv, nbv, rows, hbb', h2, -, -, hsbb, -⟩
    · rw [hbb] at hbb'; cases hbb'
    · omega
    · have : k = bbv := by rw [hbb] at hbb'; injection hbb'
      subst this
      exact hk (by omega) k hsbb

/-- **`Holds.C08` is true of the whole observation record of the non-stationary model, for any
    epoch sizes** of the three cursors, in either product mode: the three stores after
    construction, then every interior and border space-time batch of every history. -/
theorem nonstatio_trace_holds {a : StatioArgs} {o : StatioOracle} {g : NonStatio} {cart : Bool}
    {bt nt : Nat} {tmin tmax : Rat} (h : mkStatio a o = .ok g.statio)
    (hgd : pairingGuard cart a.dim bt a.b g.statio.bb = .ok ())
    (htl : g.times.length = nt) (hti : ∀ t ∈ g.times, inIcc tmin tmax t = true)
    (hle : ∀ i, i < a.dim → a.mins.getD i 0 ≤ a.maxs.getD i 0) (hb : a.b ≤ a.n) (hbt : bt ≤ nt)
    (nO nB nT : Nat) (os : List (List (List Rat) × List (List (List Rat)) × List Rat))
    (hos : NonStatioOracles g os) :
    holdsC08NonStatio a.mins a.maxs tmin tmax a.n a.nb nt a.b a.bb bt cart
      g.statio.omega g.statio.border2? g.statio.border1? g.times
      (runNS nO nB nT (g.state a cart bt) os).2 = none := by
  have hd1 := (mkStatio_ok h).1
  have hs := statio_stores h hle
  obtain ⟨NB, hbc, hrows⟩ := statio_border_inv h hle
  unfold holdsC08NonStatio
  apply c08First_eq_none
  intro x hx
  simp only [List.mem_cons, List.mem_map] at hx
  rcases hx with rfl | rfl | ⟨p, hp, rfl⟩
  · exact statio_stores_holds h hle
  · exact holdsTimes_of_interval _ _ _ _ _ htl hti
  · refine runNS_holds a.mins a.maxs tmin tmax a.b bt a.bb cart g.statio.hasFacets nO nB nT a.n NB nt
      (g.state a cart bt) rfl hd1 (MBInv.init _ hs.1 hb hs.2.1) hbc (MBInv.init _ htl hbt hti)
      (pairingOk_of_guard h hle cart bt hgd) os ?_ p hp
    intro o' ho'
    obtain ⟨hp1, hp2, hp3⟩ := hos o' ho'
    refine ⟨⟨by rw [hp1.length_eq]; exact hs.1, fun q hq => hs.2.1 q (hp1.subset hq)⟩, ?_,
      ⟨by rw [hp3.length_eq]; exact htl, fun v hv => hti v (hp3.subset hv)⟩⟩
    rintro ⟨rows, hr⟩
    obtain ⟨hl, hok⟩ := hrows rows hr
    have hpr := hp2 rows hr
    exact ⟨by rw [hpr.length_eq]; exact hl, fun row hrow => hok row (hpr.subset hrow)⟩

/-- **C08, non-stationary generator: `Holds.C08` is true of every trace of the model**, in both
    product modes (`cart = true`: cartesian product, `bt·b` interior rows; `cart = false`: row-wise
    pairing under the constructor's guard).  For every constructor call that succeeds, every batch
    sizes the slices accept (`b ≤ n`, `bt ≤ nt`) and every history of `get_batch` of any length
    whose reshuffles are permutations, the observation record of the model — `omega`, the border
    store, the time store, and every `(times_x_inside_batch, times_x_border_batch)` — satisfies the
    predicate the driver applies to non-stationary generators.  Epoch sizes are those of the code:
    `n`, `nb // (2 dim)`, `nt`. -/
theorem nonstatio_history_holds {a : StatioArgs} {cart : Bool} {bt nt : Nat} {tmin tmax : Rat}
    {o : StatioOracle} {ot : List Rat} {g : NonStatio} (hlt : tmin ≤ tmax)
    (h : mkNonStatio a cart bt nt tmin tmax o ot = .ok g)
    (hle : ∀ i, i < a.dim → a.mins.getD i 0 ≤ a.maxs.getD i 0) (hb : a.b ≤ a.n) (hbt : bt ≤ nt)
    (os : List (List (List Rat) × List (List (List Rat)) × List Rat)) (hos : NonStatioOracles g os) :
    holdsC08NonStatio a.mins a.maxs tmin tmax a.n a.nb nt a.b a.bb bt cart
      g.statio.omega g.statio.border2? g.statio.border1? g.times
      (runNS a.n (g.statio.nb.getD 0 / (2 * a.dim)) nt (g.state a cart bt) os).2 = none := by
  obtain ⟨h1, h2, h3, h4⟩ := mkNonStatio_ok hlt h
  exact nonstatio_trace_holds h1 h2 h3 h4 hle hb hbt _ _ _ os hos

/-- What a successful `CubicMeshPDENonStatio.__post_init__` with the RAR set-up went through. -/
theorem mkNonStatioRar_ok {a : StatioArgs} {cart : Bool} {bt nt : Nat} {tmin tmax : Rat} {rar : Bool}
    {nStart ntStart : Option Nat} {o : StatioOracle} {ot : List Rat} {g : NonStatio} {nEff ntEff : Nat}
    (hlt : tmin ≤ tmax)
    (h : mkNonStatioRar a cart bt nt tmin tmax rar nStart ntStart o ot = .ok (g, nEff, ntEff)) :
    mkStatio a o = .ok g.statio ∧ pairingGuard cart a.dim bt a.b g.statio.bb = .ok () ∧
    g.times.length = nt ∧ (∀ t ∈ g.times, inIcc tmin tmax t = true) ∧
    rarStart rar a.n nStart = .ok nEff ∧ rarStart rar nt ntStart = .ok ntEff := by
  unfold mkNonStatioRar at h
  cases hs : mkStatioRar a rar nStart o with
  | error e => simp [hs] at h
  | ok r =>
    obtain ⟨s, k⟩ := r
    simp only [hs] at h
    cases hg : pairingGuard cart a.dim bt a.b s.bb with
    | error e => simp [hg] at h
    | ok u =>
      simp only [hg] at h
      cases hr : rarStart rar nt ntStart with
      | error e => simp [hr] at h
      | ok k' =>
        simp only [hr] at h
        cases ht : mkTimes a.method tmin tmax nt ot with
        | error e => simp [ht] at h
        | ok times =>
          simp only [ht, Except.ok.injEq, Prod.mk.injEq] at h
          obtain ⟨rfl, rfl, rfl⟩ := h
          obtain ⟨hs1, hs2⟩ := mkStatioRar_ok hs
          have hk := mkTimes_ok _ _ _ _ _ _ hlt ht
          exact ⟨hs1, hg, hk.1, hk.2, hs2, rfl⟩

/-- **… and of every trace of the RAR-configured non-stationary model**: all pre-allocated points
    of `omega` and of the time store are observed, and the interior and time cursors run with the
    epoch sizes `n_start`, `nt_start` of a fresh RAR generator. -/
theorem nonstatio_rar_history_holds {a : StatioArgs} {cart : Bool} {bt nt : Nat} {tmin tmax : Rat}
    {rar : Bool} {nStart ntStart : Option Nat} {o : StatioOracle} {ot : List Rat} {g : NonStatio}
    {nEff ntEff : Nat} (hlt : tmin ≤ tmax)
    (h : mkNonStatioRar a cart bt nt tmin tmax rar nStart ntStart o ot = .ok (g, nEff, ntEff))
    (hle : ∀ i, i < a.dim → a.mins.getD i 0 ≤ a.maxs.getD i 0) (hb : a.b ≤ a.n) (hbt : bt ≤ nt)
    (os : List (List (List Rat) × List (List (List Rat)) × List Rat)) (hos : NonStatioOracles g os) :
    holdsC08NonStatio a.mins a.maxs tmin tmax a.n a.nb nt a.b a.bb bt cart
      g.statio.omega g.statio.border2? g.statio.border1? g.times
      (runNS nEff (g.statio.nb.getD 0 / (2 * a.dim)) ntEff (g.state a cart bt) os).2 = none := by
  obtain ⟨h1, h2, h3, h4, -, -⟩ := mkNonStatioRar_ok hlt h
  exact nonstatio_trace_holds h1 h2 h3 h4 hle hb hbt _ _ _ os hos

/-! ### non-vacuity: a concrete 2-D box with negative bounds, `n = 4`, `nb = 8`, two draws -/

namespace Example

/-- `[-2, 1] × [-1, 3]`, 4 interior points, 8 border points, batches of 2 and 2 -/
def a : StatioArgs :=
  { n := 4, nb := some 8, b := 2, bb := some 2, dim := 2, mins := [-2, -1], maxs := [1, 3],
    method := "uniform" }

/-- sampler oracle: 4 points of the box (two of them corners); 2 free coordinates per facet -/
def o : StatioOracle :=
  { omega := [[-2, -1], [0, 0], [1, 3], [-1, 2]], border := [[-1, 3], [0, 2], [-2, 1], [0, -1]] }

def rows : List (List (List Rat)) := border2 a.mins a.maxs 2 o.border

def s : Statio := { args := a, nb := some 8, bb := some 2, omega := o.omega, border := .facets rows }

theorem mk : mkStatio a o = .ok s := by
  simp [mkStatio, borderParams, mkOmega, uniformOmega, mkBorder, border2Contract, inBox, inIcc, bind,
    Except.bind, pure, Except.pure, List.range_succ, a, o, s, rows]
  norm_num

theorem hle : ∀ i, i < a.dim → a.mins.getD i 0 ≤ a.maxs.getD i 0 := by
  intro i hi
  have : i = 0 ∨ i = 1 := by simp only [a] at hi; omega
  rcases this with rfl | rfl <;> simp [a] <;> norm_num

/-- two draws: the first reshuffle reverses both stores, the second proposes them unchanged -/
def draws : List (List (List Rat) × List (List (List Rat))) :=
  [(s.omega.reverse, rows.reverse), (s.omega, rows)]

theorem oracles : StatioOracles s draws := by
  intro d hd
  simp only [draws, List.mem_cons, List.not_mem_nil, or_false] at hd
  rcases hd with rfl | rfl
  · refine ⟨List.reverse_perm _, fun r hr => ?_⟩
    have : r = rows := by simp only [s] at hr; injection hr with hr; exact hr.symm
    subst this; exact List.reverse_perm _
  · refine ⟨List.Perm.refl _, fun r hr => ?_⟩
    have : r = rows := by simp only [s] at hr; injection hr with hr; exact hr.symm
    subst this; exact List.Perm.refl _

/-- the hypotheses of `statio_history_holds` are satisfiable by a non-trivial generator (2-D,
    negative bounds, a border cursor, two requests, the first of which reshuffles) -/
example : holdsC08Statio a.mins a.maxs a.n a.nb a.b a.bb s.omega s.border2? s.border1?
    (statioRun a.n (s.nb.getD 0 / (2 * a.dim)) (init s.omega a.b) s.borderCursor draws) = none :=
  statio_history_holds mk hle (by decide) draws oracles

/-- the trace above is not empty: two `(inside_batch, border_batch)` pairs with a border batch each -/
example : (statioRun a.n (s.nb.getD 0 / (2 * a.dim)) (init s.omega a.b) s.borderCursor draws).length = 2
    ∧ ∀ xd ∈ statioRun a.n (s.nb.getD 0 / (2 * a.dim)) (init s.omega a.b) s.borderCursor draws,
        xd.2.isSome = true := by
  simp [statioRun, draws, Statio.borderCursor, s, Border.next]

/-- the same generator in its RAR configuration (`n_start = 2`: epoch size 2 over the 4 points) -/
theorem mkRar : mkStatioRar a true (some 2) o = .ok (s, 2) := by
  simp [mkStatioRar, rarStart, mk]
  simp [a]

example : holdsC08Statio a.mins a.maxs a.n a.nb a.b a.bb s.omega s.border2? s.border1?
    (statioRun 2 (s.nb.getD 0 / (2 * a.dim)) (init s.omega a.b) s.borderCursor draws) = none :=
  statio_rar_history_holds mkRar hle (by decide) draws oracles

/-- the non-stationary generator over the same box, times in `[-1, 1]`, `nt = 4`, `bt = 2` -/
def g : NonStatio := { statio := s, times := [-1, 0, 1 / 2, 1] }

theorem mkNS (cart : Bool) : mkNonStatio a cart 2 4 (-1) 1 o [-1, 0, 1 / 2, 1] = .ok g := by
  have ht : mkTimes a.method (-1) 1 4 [-1, 0, 1 / 2, 1] = .ok [-1, 0, 1 / 2, 1] := by
    simp [mkTimes, uniformTimes, inIcc, a]; norm_num
  have hg : pairingGuard cart a.dim 2 a.b s.bb = .ok () := by
    cases cart <;> simp [pairingGuard, a, s]
  simp only [mkNonStatio, mk, bind, Except.bind, hg, ht]
  rfl

def drawsNS : List (List (List Rat) × List (List (List Rat)) × List Rat) :=
  [(s.omega.reverse, rows.reverse, g.times.reverse), (s.omega, rows, g.times)]

theorem oraclesNS : NonStatioOracles g drawsNS := by
  intro d hd
  simp only [drawsNS, List.mem_cons, List.not_mem_nil, or_false] at hd
  rcases hd with rfl | rfl
  · refine ⟨List.reverse_perm _, fun r hr => ?_, List.reverse_perm _⟩
    have : r = rows := by simp only [g, s] at hr; injection hr with hr; exact hr.symm
    subst this; exact List.reverse_perm _
  · refine ⟨List.Perm.refl _, fun r hr => ?_, List.Perm.refl _⟩
    have : r = rows := by simp only [g, s] at hr; injection hr with hr; exact hr.symm
    subst this; exact List.Perm.refl _

/-- the hypotheses of `nonstatio_history_holds` are satisfiable in BOTH product modes -/
example (cart : Bool) : holdsC08NonStatio a.mins a.maxs (-1) 1 a.n a.nb 4 a.b a.bb 2 cart
    g.statio.omega g.statio.border2? g.statio.border1? g.times
    (runNS a.n (g.statio.nb.getD 0 / (2 * a.dim)) 4 (g.state a cart 2) drawsNS).2 = none :=
  nonstatio_history_holds (by norm_num) (mkNS cart) hle (by decide) (by decide) drawsNS oraclesNS

example (cart : Bool) : (runNS a.n (g.statio.nb.getD 0 / (2 * a.dim)) 4 (g.state a cart 2) drawsNS).2.length = 2 := by
  simp [runNS, drawsNS]

/-- … and in the RAR configuration (`n_start = 2`, `nt_start = 3`) -/
theorem mkNSRar (cart : Bool) :
    mkNonStatioRar a cart 2 4 (-1) 1 true (some 2) (some 3) o [-1, 0, 1 / 2, 1] = .ok (g, 2, 3) := by
  have ht : mkTimes a.method (-1) 1 4 [-1, 0, 1 / 2, 1] = .ok [-1, 0, 1 / 2, 1] := by
    simp [mkTimes, uniformTimes, inIcc, a]; norm_num
  have hg : pairingGuard cart a.dim 2 a.b s.bb = .ok () := by
    cases cart <;> simp [pairingGuard, a, s]
  simp only [mkNonStatioRar, mkRar, hg, ht, rarStart]
  rfl

example (cart : Bool) : holdsC08NonStatio a.mins a.maxs (-1) 1 a.n a.nb 4 a.b a.bb 2 cart
    g.statio.omega g.statio.border2? g.statio.border1? g.times
    (runNS 2 (g.statio.nb.getD 0 / (2 * a.dim)) 3 (g.state a cart 2) drawsNS).2 = none :=
  nonstatio_rar_history_holds (by norm_num) (mkNSRar cart) hle (by decide) (by decide) drawsNS oraclesNS

/-- a 1-D grid generator on `[-3, -1]` with its two-point border (the `fixed1d` branch) -/
def a1 : StatioArgs :=
  { n := 3, nb := none, b := 1, bb := some 1, dim := 1, mins := [-3], maxs := [-1], method := "grid" }

def s1 : Statio :=
  { args := a1, nb := some 2, bb := some 2, omega := (gridStore (-3) (-1) 3).map fun v => [v],
    border := .ends (-3) (-1) }

theorem mk1 : mkStatio a1 ⟨[], []⟩ = .ok s1 := by
  simp [mkStatio, borderParams, mkOmega, gridOmega, mkBorder, bind, Except.bind, pure, Except.pure,
    a1, s1]

theorem hle1 : ∀ i, i < a1.dim → a1.mins.getD i 0 ≤ a1.maxs.getD i 0 := by
  intro i hi
  have : i = 0 := by simp only [a1] at hi; omega
  subst this; simp [a1]

example : holdsC08Statio a1.mins a1.maxs a1.n a1.nb a1.b a1.bb s1.omega s1.border2? s1.border1?
    (statioRun a1.n (s1.nb.getD 0 / (2 * a1.dim)) (init s1.omega a1.b) s1.borderCursor
      [(s1.omega.reverse, []), (s1.omega, [])]) = none := by
  refine statio_history_holds mk1 hle1 (by decide) _ ?_
  intro d hd
  simp only [List.mem_cons, List.not_mem_nil, or_false] at hd
  rcases hd with rfl | rfl
  · exact ⟨List.reverse_perm _, fun r hr => by simp [s1] at hr⟩
  · exact ⟨List.Perm.refl _, fun r hr => by simp [s1] at hr⟩

end Example

end Jinns.Domain
