/-
C17 — the decidable trace predicate `Holds.C17` (which the correspondence check evaluates on the
*implementation's* observations) is satisfied by the observation records of the *model*:

* `holdsC17_model_step_single` / `holdsC17_model_step_product` : one refinement step on bare stores
  (`selectTop` + `updateStore`; `topPairs` + two `updateStore`s, each with its own offset), for
  every store, active count, candidate labels and residual vector / table (ties allowed);
* `holdsC17_model_step` : the record of one `Gen.trigger` (what `JinnsDriver/C17.lean: stepEvent`
  calls) with the choice recomputed by `selectTop` / `topPairs` (what the driver calls), the three
  generator kinds;
* `holdsC17_model_history` (+ `_each`, `_step`, `_init`) : every history of draws / reshuffles and
  triggers, any length; between any two moments no active point is lost;
* `holdsC17_model_summary` : the end-of-run summary (`finalEvent`) of every such history.

The records are assembled exactly as the driver assembles them (`stepEvent`, `drawEvent`,
`finalEvent`; the `rejected` event concerns the legality of configurations, not a run), with
the implementation's observables (stores, non-zero patterns, chosen indices) replaced by the
model's.  Two flags of the records are *oracle facts* about the implementation that the model does
not produce (it has no candidate coordinates and no network): `inDomain` and
`resReported = resExact`; the model records carry them as satisfied (`true`, the same list twice).
-/
import JinnsProofs.C17

namespace Jinns.Rar
open Jinns.Holds

/-! ### the scan of `Holds.C17` -/

theorem firstSome_eq_none_iff (l : List (Option String)) :
    firstSome l = none ↔ ∀ o ∈ l, o = none := by
  induction l with
  | nil => simp [firstSome]
  | cons a t ih =>
    cases a with
    | none => simp [firstSome, ih]
    | some e => simp [firstSome]

/-- `Holds.C17` holds on a list of events iff every event passes its check -/
theorem holdsC17_iff (evs : List Ev17) : holdsC17 evs = none ↔ ∀ e ∈ evs, evCheck e = none := by
  unfold holdsC17
  rw [firstSome_eq_none_iff]
  constructor
  · intro h e he; exact h _ (List.mem_map.2 ⟨e, he, rfl⟩)
  · intro h o ho
    obtain ⟨e, he, rfl⟩ := List.mem_map.1 ho
    exact h e he

theorem holdsC17_append (a b : List Ev17) :
    holdsC17 (a ++ b) = none ↔ holdsC17 a = none ∧ holdsC17 b = none := by
  simp only [holdsC17_iff, List.mem_append]
  constructor
  · intro h; exact ⟨fun e he => h e (Or.inl he), fun e he => h e (Or.inr he)⟩
  · rintro ⟨h1, h2⟩ e (he | he)
    · exact h1 e he
    · exact h2 e he

theorem evCheck_choice1 (res : List Rat) (sel : Nat) (chosen : List Nat) :
    evCheck (.choice1 true res res sel chosen) = topCheck sel res chosen := by
  simp [evCheck]

theorem evCheck_choice2 (mse : List (List Rat)) (nX selT selX : Nat) (tIdx xIdx : List Nat) :
    evCheck (.choice2 true mse mse nX selT selX tIdx xIdx) = pairsCheck mse nX selT selX tIdx xIdx := by
  simp [evCheck]

theorem evCheck_stores_none (sides : List (String × Side17))
    (h : ∀ p ∈ sides, sideCheck p.2 = none) : evCheck (.stores sides) = none := by
  simp only [evCheck]
  rw [firstSome_eq_none_iff]
  intro o ho
  obtain ⟨⟨nm, s⟩, hp, rfl⟩ := List.mem_map.1 ho
  have := h _ hp
  simp only at this
  simp [this]

theorem evCheck_draw_none (sides : List Draw17)
    (h : ∀ d ∈ sides, drawCheck d = none) : evCheck (.draw sides) = none := by
  simp only [evCheck]
  rw [firstSome_eq_none_iff]
  intro o ho
  obtain ⟨d, hd, rfl⟩ := List.mem_map.1 ho
  exact h d hd

/-! ### the points a prefix mask selects -/

theorem filter_lt_range (n a : Nat) :
    (List.range n).filter (fun k => decide (k < a)) = List.range (min a n) := by
  induction n with
  | zero => simp
  | succ n ih =>
    rw [List.range_succ, List.filter_append, ih]
    by_cases h : n < a
    · have e1 : min a n = n := by omega
      have e2 : min a (n + 1) = n + 1 := by omega
      simp [h, e1, e2, List.range_succ]
    · have e1 : min a n = a := by omega
      have e2 : min a (n + 1) = a := by omega
      simp [h, e1, e2]

/-- with the probabilities of C16 the points of non-zero probability are the first `a` slots -/
theorem maskedPts_prefixMask (store : List Nat) (a : Nat) (h : a ≤ store.length) :
    maskedPts store (prefixMask store.length a) = store.take a := by
  unfold maskedPts
  have hf : (List.range store.length).filter (fun k => (prefixMask store.length a).getD k false)
      = List.range a := by
    rw [List.filter_congr (q := fun k => decide (k < a))]
    · rw [filter_lt_range]; congr 1; omega
    · intro k hk; rw [getD_prefixMask (List.mem_range.1 hk)]
  rw [hf]
  apply List.ext_getElem
  · simp; omega
  · intro j h1 h2
    have hj : j < a := by simpa using h1
    simp only [List.getElem_map, List.getElem_range, List.getElem_take]
    exact getD_of_lt store 0 (by omega)

/-! ### one store around one draw / one step -/

/-- a batch draw of the model (oracle within contract) passes `drawCheck` -/
theorem draw_passes (s : RS Nat) (o : List Nat) (mask : List Bool) (hok : s.oracleOk o = true)
    (hm : mask = prefixMask s.store.length s.nEff) (hle : s.nEff ≤ s.store.length) :
    drawCheck { storeB := s.store, storeA := (s.draw o).1.store, mask := mask } = none := by
  obtain ⟨hperm, _, _, _, hlen⟩ := draw_active_perm s o hok
  subst hm
  have hperm' : ((s.draw o).1.store.take s.nEff).Perm (s.store.take s.nEff) := hperm
  have eA := maskedPts_prefixMask (s.draw o).1.store s.nEff (by omega)
  rw [hlen] at eA
  have eB := maskedPts_prefixMask s.store s.nEff hle
  unfold drawCheck
  simp only [hlen, length_prefixMask, bne_self_eq_false, Bool.or_self, Bool.false_eq_true, if_false,
    eA, eB]
  have : ((s.draw o).1.store.take s.nEff).isPerm (s.store.take s.nEff) = true :=
    List.isPerm_iff.2 hperm'
  simp [this]

/-- a refinement step of the model on one store passes `sideCheck`, the record being given by its
    fields (as the driver builds it) -/
theorem side_passes (s : RS Nat) (sel : Nat) (lab chosen storeA : List Nat) (mB mA : List Bool)
    (hsel : s.sel = sel) (hf : s.fits = true) (hch : chosen.length = sel)
    (hA : storeA = (s.add (chosen.map (fun c => lab.getD c 0))).store)
    (hmB : mB = prefixMask s.store.length s.nEff)
    (hmA : mA = prefixMask s.store.length (s.nEff + s.sel)) :
    sideCheck { sel := sel, candLab := lab, chosen := chosen, storeB := s.store, storeA := storeA,
                maskB := mB, maskA := mA } = none := by
  subst hsel hA hmB hmA
  exact add_passes_sideCheck s lab chosen hf hch

/-! ### one step on bare stores -/

/-- the store seen as the store of a generator with `nAct` active points -/
def bareRS (store : List Nat) (nAct sel : Nat) : RS Nat :=
  { store := store, idx := 0, b := 1, nStart := nAct, sel := sel, steps := 0 }

theorem bareRS_nEff (store : List Nat) (nAct sel : Nat) : (bareRS store nAct sel).nEff = nAct := by
  simp [bareRS, RS.nEff]

theorem bareRS_add_store (store : List Nat) (nAct sel : Nat) (pts : List Nat) :
    ((bareRS store nAct sel).add pts).store = updateStore store nAct pts := by
  simp [bareRS, RS.add, RS.nEff]

/-- the record of the stores around one `updateStore` at offset `nAct`, with the probabilities of
    C16 (non-zero exactly on the active prefix) before and after -/
def bareSide (store : List Nat) (nAct sel : Nat) (lab chosen : List Nat) : Side17 :=
  { sel := sel, candLab := lab, chosen := chosen, storeB := store,
    storeA := updateStore store nAct (chosen.map (fun c => lab.getD c 0)),
    maskB := prefixMask store.length nAct, maskA := prefixMask store.length (nAct + sel) }

theorem bareSide_passes (store : List Nat) (nAct sel : Nat) (lab chosen : List Nat)
    (hfit : nAct + sel ≤ store.length) (hch : chosen.length = sel) :
    sideCheck (bareSide store nAct sel lab chosen) = none := by
  unfold bareSide
  have hf : (bareRS store nAct sel).fits = true := by
    rw [RS.fits_iff, bareRS_nEff]; exact hfit
  exact side_passes (bareRS store nAct sel) sel lab chosen _ _ _ rfl hf hch
    (bareRS_add_store store nAct sel _).symm
    (by rw [bareRS_nEff]; rfl) (by rw [bareRS_nEff]; rfl)

/-- **one refinement step, ODE / stationary kind** (`selectTop` + `updateStore`): for every store,
    every active count and selected size that still fit, every list of candidate labels and every
    residual vector with at least `sel` entries (ties allowed), the two records of the step — the
    choice and the store around the update — satisfy `Holds.C17`. -/
theorem holdsC17_model_step_single (nm : String) (store : List Nat) (nAct sel : Nat)
    (lab : List Nat) (res : List Rat)
    (hfit : nAct + sel ≤ store.length) (hsel : sel ≤ res.length) :
    holdsC17 [Ev17.choice1 true res res sel (selectTop sel res),
              Ev17.stores [(nm, bareSide store nAct sel lab (selectTop sel res))]] = none := by
  rw [holdsC17_iff]
  intro e he
  simp only [List.mem_cons, List.not_mem_nil, or_false] at he
  rcases he with rfl | rfl
  · rw [evCheck_choice1]; exact selectTop_passes_topCheck_rat res sel hsel
  · apply evCheck_stores_none
    intro p hp
    simp only [List.mem_cons, List.not_mem_nil, or_false] at hp
    subst hp
    exact bareSide_passes store nAct sel lab _ hfit
      (selectTop_spec (fun _ _ => Rat.le_total) (fun _ _ _ => Rat.le_trans) res sel hsel).1

section keys
variable {κ : Type} [LE κ] [DecidableLE κ] [Inhabited κ]

/-- the two index lists of `topPairs` have the selected sizes -/
theorem topPairs_lengths (tot : ∀ a b : κ, a ≤ b ∨ b ≤ a) (tr : ∀ a b c : κ, a ≤ b → b ≤ c → a ≤ c)
    (mse : List (List κ)) (nX selT selX : Nat) (hk : max selT selX ≤ mse.flatten.length) :
    (topPairs mse nX selT selX).1.length = selT ∧ (topPairs mse nX selT selX).2.length = selX := by
  have h1 := (topK_spec tot tr mse.flatten (max selT selX) hk).1
  unfold topPairs
  simp only [List.length_map, List.length_take, h1]
  omega

end keys

/-- **one refinement step, product kind** (`topPairs` + the two `updateStore`s, time and space each
    with its own store, active count, selected size and offset): for every rectangular residual
    table with at least `max selT selX` entries (ties allowed), the records of the step satisfy
    `Holds.C17`. -/
theorem holdsC17_model_step_product (storeT storeX : List Nat) (nActT nActX selT selX : Nat)
    (labT labX : List Nat) (mse : List (List Rat)) (nX : Nat)
    (hfitT : nActT + selT ≤ storeT.length) (hfitX : nActX + selX ≤ storeX.length)
    (hrect : ∀ row ∈ mse, row.length = nX) (hnX : 0 < nX) (hk : max selT selX ≤ mse.length * nX) :
    holdsC17 [Ev17.choice2 true mse mse nX selT selX (topPairs mse nX selT selX).1 (topPairs mse nX selT selX).2,
              Ev17.stores [("times", bareSide storeT nActT selT labT (topPairs mse nX selT selX).1),
                           ("omega", bareSide storeX nActX selX labX (topPairs mse nX selT selX).2)]] = none := by
  have hlen := topPairs_lengths (fun _ _ => Rat.le_total) (fun _ _ _ => Rat.le_trans) mse nX selT selX
    (by rw [length_flatten_rect mse nX hrect]; exact hk)
  rw [holdsC17_iff]
  intro e he
  simp only [List.mem_cons, List.not_mem_nil, or_false] at he
  rcases he with rfl | rfl
  · rw [evCheck_choice2]; exact topPairs_passes_pairsCheck_rat mse nX selT selX hrect hnX hk
  · apply evCheck_stores_none
    intro p hp
    simp only [List.mem_cons, List.not_mem_nil, or_false] at hp
    rcases hp with rfl | rfl
    · exact bareSide_passes storeT nActT selT labT _ hfitT hlen.1
    · exact bareSide_passes storeX nActX selX labX _ hfitX hlen.2

/-! ### the whole generator: the records the driver assembles, for the model -/

/-- the choice the driver recomputes (`stepEvent`: `selectTop sel rep` for ODE / stationary
    generators, `topPairs rep nX selT selX` for non-stationary ones), as (time indices, space
    indices); a store the kind does not own gets no index -/
def choose (c : Cfg) (nX : Nat) (res : List Rat) (mse : List (List Rat)) : List Nat × List Nat :=
  match c.kind with
  | .ode => (selectTop c.selT res, [])
  | .statio => ([], selectTop c.selX res)
  | .nonstatio => topPairs mse nX c.selT c.selX

/-- the choice event, as `stepEvent` builds it -/
def choiceEv (c : Cfg) (nX : Nat) (res : List Rat) (mse : List (List Rat)) (idxT idxX : List Nat) : Ev17 :=
  match c.kind with
  | .nonstatio => Ev17.choice2 true mse mse nX c.selT c.selX idxT idxX
  | _ => Ev17.choice1 true res res (if c.kind.hasT then c.selT else c.selX)
           (if c.kind.hasT then idxT else idxX)

/-- the candidates of a step are usable: at least `selected` of them (ODE / stationary); a
    rectangular `(nT × nX)` table with `nX ≥ 1` columns and at least `max selT selX` entries
    (non-stationary).  Real configurations: `selected ≤ sample size` (`legalStore`). -/
def candOK (c : Cfg) (nX : Nat) (res : List Rat) (mse : List (List Rat)) : Bool :=
  match c.kind with
  | .ode => decide (c.selT ≤ res.length)
  | .statio => decide (c.selX ≤ res.length)
  | .nonstatio => mse.all (fun row => row.length == nX) && decide (0 < nX) &&
      decide (max c.selT c.selX ≤ mse.length * nX)

/-- histories of the model: `get_batch` with the reshuffle oracles, and `trigger_rar(i, …)` with
    the candidates of the step (labels of the time / space candidates, their residuals: a vector
    for ODE / stationary generators, an `(nT × nX)` table for non-stationary ones) -/
inductive MOp where
  | draw (oT oX : List Nat)
  | trigger (i : Nat) (labT labX : List Nat) (res : List Rat) (mse : List (List Rat))

/-- what the model is run on: the chosen candidates' points are computed by `choose` -/
def MOp.toGenOp (c : Cfg) : MOp → GenOp
  | .draw oT oX => .draw oT oX
  | .trigger i labT labX res mse =>
    .trigger i ((choose c labX.length res mse).1.map (fun a => labT.getD a 0))
               ((choose c labX.length res mse).2.map (fun a => labX.getD a 0))

/-- the events `stepEvent` appends for one trigger (none when no step happens) -/
def stepRecord (g : Gen) (i : Nat) (labT labX : List Nat) (res : List Rat) (mse : List (List Rat)) :
    List Ev17 :=
  let c := g.cfg
  let ch := choose c labX.length res mse
  let r := g.trigger i (ch.1.map (fun a => labT.getD a 0)) (ch.2.map (fun a => labX.getD a 0))
  if r.2 then
    [choiceEv c labX.length res mse ch.1 ch.2,
     Ev17.stores
      ((if c.kind.hasT then
          [("times", { sel := c.selT, candLab := labT, chosen := ch.1, storeB := g.t.store,
                       storeA := r.1.t.store, maskB := g.st.pT, maskA := r.1.st.pT })] else []) ++
       (if c.kind.hasX then
          [("omega", { sel := c.selX, candLab := labX, chosen := ch.2, storeB := g.x.store,
                       storeA := r.1.x.store, maskB := g.st.pX, maskA := r.1.st.pX })] else []))]
  else []

/-- the event `drawEvent` appends for one `get_batch` -/
def drawRecord (g : Gen) (oT oX : List Nat) : List Ev17 :=
  [Ev17.draw
    ((if g.cfg.kind.hasT then
        [{ storeB := g.t.store, storeA := (g.getBatch oT oX).1.t.store, mask := g.st.pT }] else []) ++
     (if g.cfg.kind.hasX then
        [{ storeB := g.x.store, storeA := (g.getBatch oT oX).1.x.store, mask := g.st.pX }] else []))]

def opEvents (g : Gen) : MOp → List Ev17
  | .draw oT oX => drawRecord g oT oX
  | .trigger i labT labX res mse => stepRecord g i labT labX res mse

/-- the oracle of one operation honours its contract -/
def opOk (g : Gen) : MOp → Bool
  | .draw oT oX => (!g.cfg.kind.hasT || g.t.oracleOk oT) && (!g.cfg.kind.hasX || g.x.oracleOk oX)
  | .trigger _ _ labX res mse => candOK g.cfg labX.length res mse

/-- the model's run -/
def runM (g : Gen) : List MOp → Gen
  | [] => g
  | op :: ops => runM (g.applyOp (op.toGenOp g.cfg)) ops

def validM (g : Gen) : List MOp → Bool
  | [] => true
  | op :: ops => opOk g op && validM (g.applyOp (op.toGenOp g.cfg)) ops

/-- all the events of the model's run, in order -/
def modelEvents (g : Gen) : List MOp → List Ev17
  | [] => []
  | op :: ops => opEvents g op ++ modelEvents (g.applyOp (op.toGenOp g.cfg)) ops

/-- the points one operation adds to the (time, space) stores: the points of the chosen candidates
    when the trigger performs a step (`stepEvent` accumulates them in `addedT` / `addedX`) -/
def opAdded (g : Gen) : MOp → List Nat × List Nat
  | .draw _ _ => ([], [])
  | .trigger i labT labX res mse =>
    if (g.trigger i ((choose g.cfg labX.length res mse).1.map (fun a => labT.getD a 0))
                    ((choose g.cfg labX.length res mse).2.map (fun a => labX.getD a 0))).2
    then ((choose g.cfg labX.length res mse).1.map (fun a => labT.getD a 0),
          (choose g.cfg labX.length res mse).2.map (fun a => labX.getD a 0))
    else ([], [])

/-- the points added along a run, in order -/
def addedM (g : Gen) : List MOp → List Nat × List Nat
  | [] => ([], [])
  | op :: ops =>
    ((opAdded g op).1 ++ (addedM (g.applyOp (op.toGenOp g.cfg)) ops).1,
     (opAdded g op).2 ++ (addedM (g.applyOp (op.toGenOp g.cfg)) ops).2)

/-- the events `finalEvent` appends at the end of a run whose intermediate stores were not
    observed: per owned store, the points of non-zero probability at the beginning, at the end,
    and the chosen candidates of all steps -/
def summaryRecord (g : Gen) (ops : List MOp) : List Ev17 :=
  (if g.cfg.kind.hasT then
     [Ev17.summary "times" (maskedPts g.t.store g.st.pT)
        (maskedPts (runM g ops).t.store (runM g ops).st.pT) (addedM g ops).1] else []) ++
  (if g.cfg.kind.hasX then
     [Ev17.summary "omega" (maskedPts g.x.store g.st.pX)
        (maskedPts (runM g ops).x.store (runM g ops).st.pX) (addedM g ops).2] else [])

/-! ### `Gen.trigger` / `Gen.getBatch` facts -/

theorem trigger_cfg (g : Gen) (i : Nat) (pT pX : List Nat) : (g.trigger i pT pX).1.cfg = g.cfg := by
  unfold Gen.trigger; split <;> rfl

theorem applyOp_cfg (g : Gen) (op : GenOp) : (g.applyOp op).cfg = g.cfg := by
  cases op with
  | draw oT oX => rfl
  | trigger i pT pX => exact trigger_cfg g i pT pX

/-- `runM` is `Gen.runOps` (the function of `RarSelect.lean`) on the translated history -/
theorem runM_eq_runOps (ops : List MOp) : ∀ g : Gen, runM g ops = g.runOps (ops.map (MOp.toGenOp g.cfg)) := by
  induction ops with
  | nil => intro g; rfl
  | cons op ops ih =>
    intro g
    simp only [runM, List.map_cons, Gen.runOps]
    rw [ih, applyOp_cfg]

/-- the points given for a store the generator does not own are not looked at -/
theorem trigger_congr (g : Gen) (i : Nat) (pT pT' pX pX' : List Nat)
    (hT : g.cfg.kind.hasT = true → pT = pT') (hX : g.cfg.kind.hasX = true → pX = pX') :
    g.trigger i pT pX = g.trigger i pT' pX' := by
  unfold Gen.trigger
  cases h1 : g.cfg.kind.hasT <;> cases h2 : g.cfg.kind.hasX <;> simp_all

/-- `gen_trigger_refines` with the length hypotheses only for the owned stores -/
theorem trigger_facts (g : Gen) (hg : GenInv g) (i : Nat) (pT pX : List Nat)
    (hpT : g.cfg.kind.hasT = true → pT.length = g.cfg.selT)
    (hpX : g.cfg.kind.hasX = true → pX.length = g.cfg.selX) :
    GenInv (g.trigger i pT pX).1 ∧
    ((g.trigger i pT pX).2 = true →
      (g.cfg.kind.hasT = true → g.t.fits = true ∧ (g.trigger i pT pX).1.t = g.t.add pT) ∧
      (g.cfg.kind.hasX = true → g.x.fits = true ∧ (g.trigger i pT pX).1.x = g.x.add pX)) ∧
    ((g.trigger i pT pX).2 = false → (g.trigger i pT pX).1.t = g.t ∧ (g.trigger i pT pX).1.x = g.x) := by
  have e := trigger_congr g i pT (if g.cfg.kind.hasT then pT else List.replicate g.cfg.selT 0)
    pX (if g.cfg.kind.hasX then pX else List.replicate g.cfg.selX 0)
    (fun h => by simp [h]) (fun h => by simp [h])
  have R := gen_trigger_refines g hg i
    (if g.cfg.kind.hasT then pT else List.replicate g.cfg.selT 0)
    (if g.cfg.kind.hasX then pX else List.replicate g.cfg.selX 0)
    (by cases h : g.cfg.kind.hasT <;> simp ; exact hpT h)
    (by cases h : g.cfg.kind.hasX <;> simp ; exact hpX h)
  rw [← e] at R
  obtain ⟨r1, r2, r3⟩ := R
  refine ⟨r1, fun hs => ⟨fun hk => ?_, fun hk => ?_⟩, r3⟩
  · obtain ⟨hf, he⟩ := (r2 hs).1 hk
    exact ⟨hf, by rw [he]; simp [RS.apply, hf, hk]⟩
  · obtain ⟨hf, he⟩ := (r2 hs).2 hk
    exact ⟨hf, by rw [he]; simp [RS.apply, hf, hk]⟩

/-- what the consistency invariant says of the time store -/
theorem genInv_T {g : Gen} (hg : GenInv g) (h : g.cfg.kind.hasT = true) :
    g.t.sel = g.cfg.selT ∧ g.st.pT = prefixMask g.t.store.length g.t.nEff ∧
    g.t.nEff ≤ g.t.store.length := by
  obtain ⟨e, l⟩ := hg.mask.1 h
  have hn : g.t.nEff = g.cfg.ntStart + g.st.steps * g.cfg.selT := by
    unfold RS.nEff; rw [hg.tCfg.1, hg.tCfg.2, hg.tSteps h]
  refine ⟨hg.tCfg.2, ?_, ?_⟩
  · rw [e, hn, hg.tLen h]
  · rw [hn, hg.tLen h]; exact l

/-- what the consistency invariant says of the space store -/
theorem genInv_X {g : Gen} (hg : GenInv g) (h : g.cfg.kind.hasX = true) :
    g.x.sel = g.cfg.selX ∧ g.st.pX = prefixMask g.x.store.length g.x.nEff ∧
    g.x.nEff ≤ g.x.store.length := by
  obtain ⟨e, l⟩ := hg.mask.2 h
  have hn : g.x.nEff = g.cfg.nStart + g.st.steps * g.cfg.selX := by
    unfold RS.nEff; rw [hg.xCfg.1, hg.xCfg.2, hg.xSteps h]
  refine ⟨hg.xCfg.2, ?_, ?_⟩
  · rw [e, hn, hg.xLen h]
  · rw [hn, hg.xLen h]; exact l

/-! ### the model's choice -/

/-- the recomputed choice has the selected sizes for the owned stores and passes the choice clauses
    of `Holds.C17` -/
theorem choose_facts (c : Cfg) (nX : Nat) (res : List Rat) (mse : List (List Rat))
    (h : candOK c nX res mse = true) :
    (c.kind.hasT = true → (choose c nX res mse).1.length = c.selT) ∧
    (c.kind.hasX = true → (choose c nX res mse).2.length = c.selX) ∧
    evCheck (choiceEv c nX res mse (choose c nX res mse).1 (choose c nX res mse).2) = none := by
  unfold candOK at h
  unfold choose choiceEv
  cases hk : c.kind with
  | ode =>
    simp only [hk, decide_eq_true_eq] at h
    simp only [Kind.hasT, Kind.hasX, if_true]
    refine ⟨fun _ => (selectTop_spec (fun _ _ => Rat.le_total) (fun _ _ _ => Rat.le_trans) res _ h).1,
      fun hx => absurd hx (by simp), ?_⟩
    rw [evCheck_choice1]; exact selectTop_passes_topCheck_rat res _ h
  | statio =>
    simp only [hk, decide_eq_true_eq] at h
    simp only [Kind.hasT, Kind.hasX, Bool.false_eq_true, if_false]
    refine ⟨fun hx => absurd hx (by simp),
      fun _ => (selectTop_spec (fun _ _ => Rat.le_total) (fun _ _ _ => Rat.le_trans) res _ h).1, ?_⟩
    rw [evCheck_choice1]; exact selectTop_passes_topCheck_rat res _ h
  | nonstatio =>
    simp only [hk, Bool.and_eq_true, List.all_eq_true, beq_iff_eq, decide_eq_true_eq] at h
    obtain ⟨⟨hrect, hnX⟩, hkk⟩ := h
    have hlen := topPairs_lengths (fun _ _ => Rat.le_total) (fun _ _ _ => Rat.le_trans) mse nX c.selT c.selX
      (by rw [length_flatten_rect mse nX hrect]; exact hkk)
    refine ⟨fun _ => hlen.1, fun _ => hlen.2, ?_⟩
    rw [evCheck_choice2]; exact topPairs_passes_pairsCheck_rat mse nX c.selT c.selX hrect hnX hkk

/-! ### one operation of the model -/

/-- **`holdsC17_model_step`** — the observation record of ONE refinement trigger of the model
    satisfies `Holds.C17`, for the three generator kinds: for every consistent generator state
    (`GenInv`: what `Gen.init` establishes and every operation preserves), every iteration number,
    every list of candidate labels and every residual vector / table with enough candidates (ties
    allowed), the events `stepEvent` assembles from `Gen.trigger` with the choice of `selectTop`
    (ODE, stationary) / `topPairs` (non-stationary; time and space stores updated at their own
    offsets `n_start + rar_iter_nb · selected`) all pass. -/
theorem holdsC17_model_step (g : Gen) (hg : GenInv g) (i : Nat) (labT labX : List Nat)
    (res : List Rat) (mse : List (List Rat)) (hc : candOK g.cfg labX.length res mse = true) :
    holdsC17 (stepRecord g i labT labX res mse) = none := by
  obtain ⟨hlT, hlX, hchoice⟩ := choose_facts g.cfg labX.length res mse hc
  unfold stepRecord
  simp only
  generalize hch : choose g.cfg labX.length res mse = ch at hlT hlX hchoice
  have hpT : g.cfg.kind.hasT = true → (ch.1.map (fun a => labT.getD a 0)).length = g.cfg.selT := by
    intro h; rw [List.length_map]; exact hlT h
  have hpX : g.cfg.kind.hasX = true → (ch.2.map (fun a => labX.getD a 0)).length = g.cfg.selX := by
    intro h; rw [List.length_map]; exact hlX h
  obtain ⟨hinv, hyes, _⟩ := trigger_facts g hg i _ _ hpT hpX
  have hcfg := trigger_cfg g i (ch.1.map (fun a => labT.getD a 0)) (ch.2.map (fun a => labX.getD a 0))
  generalize hr : g.trigger i (ch.1.map (fun a => labT.getD a 0)) (ch.2.map (fun a => labX.getD a 0)) = r
    at hinv hyes hcfg
  cases hs : r.2 with
  | false => simp [holdsC17, firstSome]
  | true =>
    simp only [if_true]
    rw [holdsC17_iff]
    intro e he
    simp only [List.mem_cons, List.not_mem_nil, or_false] at he
    rcases he with rfl | rfl
    · exact hchoice
    · apply evCheck_stores_none
      intro p hp
      rw [List.mem_append] at hp
      rcases hp with hp | hp
      · cases hk : g.cfg.kind.hasT with
        | false => simp [hk] at hp
        | true =>
          simp only [hk, if_true, List.mem_cons, List.not_mem_nil, or_false] at hp
          subst hp
          obtain ⟨hf, het⟩ := (hyes hs).1 hk
          obtain ⟨a1, a2, _⟩ := genInv_T hg hk
          obtain ⟨_, b2, _⟩ := genInv_T hinv (by rw [hcfg]; exact hk)
          have hpl := hpT hk
          rw [← a1] at hpl
          refine side_passes g.t g.cfg.selT labT ch.1 _ _ _ a1 hf (by rw [← hlT hk]) (by rw [het]) a2 ?_
          rw [b2, het, RS.nEff_add, add_length g.t _ hf hpl]
      · cases hk : g.cfg.kind.hasX with
        | false => simp [hk] at hp
        | true =>
          simp only [hk, if_true, List.mem_cons, List.not_mem_nil, or_false] at hp
          subst hp
          obtain ⟨hf, het⟩ := (hyes hs).2 hk
          obtain ⟨a1, a2, _⟩ := genInv_X hg hk
          obtain ⟨_, b2, _⟩ := genInv_X hinv (by rw [hcfg]; exact hk)
          have hpl := hpX hk
          rw [← a1] at hpl
          refine side_passes g.x g.cfg.selX labX ch.2 _ _ _ a1 hf (by rw [← hlX hk]) (by rw [het]) a2 ?_
          rw [b2, het, RS.nEff_add, add_length g.x _ hf hpl]

/-- the record of one `get_batch` of the model (reshuffle oracles within contract) passes -/
theorem holdsC17_model_draw (g : Gen) (hg : GenInv g) (oT oX : List Nat)
    (hT : g.cfg.kind.hasT = true → g.t.oracleOk oT = true)
    (hX : g.cfg.kind.hasX = true → g.x.oracleOk oX = true) :
    holdsC17 (drawRecord g oT oX) = none := by
  unfold drawRecord
  rw [holdsC17_iff]
  intro e he
  simp only [List.mem_cons, List.not_mem_nil, or_false] at he
  subst he
  apply evCheck_draw_none
  intro d hd
  rw [List.mem_append] at hd
  rcases hd with hd | hd
  · cases hk : g.cfg.kind.hasT with
    | false => simp [hk] at hd
    | true =>
      simp only [hk, if_true, List.mem_cons, List.not_mem_nil, or_false] at hd
      subst hd
      obtain ⟨_, a2, a3⟩ := genInv_T hg hk
      have : (g.getBatch oT oX).1.t = (g.t.draw oT).1 := by simp [Gen.getBatch, hk]
      rw [this]
      exact draw_passes g.t oT _ (hT hk) a2 a3
  · cases hk : g.cfg.kind.hasX with
    | false => simp [hk] at hd
    | true =>
      simp only [hk, if_true, List.mem_cons, List.not_mem_nil, or_false] at hd
      subst hd
      obtain ⟨_, a2, a3⟩ := genInv_X hg hk
      have : (g.getBatch oT oX).1.x = (g.x.draw oX).1 := by simp [Gen.getBatch, hk]
      rw [this]
      exact draw_passes g.x oX _ (hX hk) a2 a3

theorem opOk_draw {g : Gen} {oT oX : List Nat} (h : opOk g (.draw oT oX) = true) :
    (g.cfg.kind.hasT = true → g.t.oracleOk oT = true) ∧
    (g.cfg.kind.hasX = true → g.x.oracleOk oX = true) := by
  simp only [opOk, Bool.and_eq_true, Bool.or_eq_true, Bool.not_eq_true'] at h
  constructor
  · intro hk; rcases h.1 with h' | h'
    · rw [hk] at h'; exact absurd h' (by simp)
    · exact h'
  · intro hk; rcases h.2 with h' | h'
    · rw [hk] at h'; exact absurd h' (by simp)
    · exact h'

/-- every operation of the model passes `Holds.C17` and preserves the consistency invariant -/
theorem op_passes (g : Gen) (hg : GenInv g) (op : MOp) (hok : opOk g op = true) :
    holdsC17 (opEvents g op) = none ∧ GenInv (g.applyOp (op.toGenOp g.cfg)) := by
  cases op with
  | draw oT oX =>
    obtain ⟨hT, hX⟩ := opOk_draw hok
    exact ⟨holdsC17_model_draw g hg oT oX hT hX, gen_getBatch_inv g hg oT oX hT hX⟩
  | trigger i labT labX res mse =>
    have hc : candOK g.cfg labX.length res mse = true := hok
    refine ⟨holdsC17_model_step g hg i labT labX res mse hc, ?_⟩
    obtain ⟨hlT, hlX, _⟩ := choose_facts g.cfg labX.length res mse hc
    exact (trigger_facts g hg i _ _ (fun h => by rw [List.length_map]; exact hlT h)
      (fun h => by rw [List.length_map]; exact hlX h)).1

/-- **an operation never loses an active point**: in every owned store the active points after the
    operation are those before it (permuted by a reshuffle, in place for a step) followed by the
    points the operation adds (the chosen candidates when a step happens, nothing otherwise). -/
theorem op_active (g : Gen) (hg : GenInv g) (op : MOp) (hok : opOk g op = true) :
    (g.cfg.kind.hasT = true →
      (g.applyOp (op.toGenOp g.cfg)).t.active.Perm (g.t.active ++ (opAdded g op).1)) ∧
    (g.cfg.kind.hasX = true →
      (g.applyOp (op.toGenOp g.cfg)).x.active.Perm (g.x.active ++ (opAdded g op).2)) := by
  cases op with
  | draw oT oX =>
    obtain ⟨hT, hX⟩ := opOk_draw hok
    simp only [opAdded, List.append_nil]
    constructor
    · intro hk
      have : (g.applyOp (MOp.toGenOp g.cfg (.draw oT oX))).t = (g.t.draw oT).1 := by
        simp [MOp.toGenOp, Gen.applyOp, Gen.getBatch, hk]
      rw [this]
      exact (draw_active_perm g.t oT (hT hk)).1
    · intro hk
      have : (g.applyOp (MOp.toGenOp g.cfg (.draw oT oX))).x = (g.x.draw oX).1 := by
        simp [MOp.toGenOp, Gen.applyOp, Gen.getBatch, hk]
      rw [this]
      exact (draw_active_perm g.x oX (hX hk)).1
  | trigger i labT labX res mse =>
    have hc : candOK g.cfg labX.length res mse = true := hok
    obtain ⟨hlT, hlX, _⟩ := choose_facts g.cfg labX.length res mse hc
    obtain ⟨_, hyes, hno⟩ := trigger_facts g hg i
      ((choose g.cfg labX.length res mse).1.map (fun a => labT.getD a 0))
      ((choose g.cfg labX.length res mse).2.map (fun a => labX.getD a 0))
      (fun h => by rw [List.length_map]; exact hlT h) (fun h => by rw [List.length_map]; exact hlX h)
    simp only [MOp.toGenOp, Gen.applyOp, opAdded]
    generalize g.trigger i ((choose g.cfg labX.length res mse).1.map (fun a => labT.getD a 0))
      ((choose g.cfg labX.length res mse).2.map (fun a => labX.getD a 0)) = r at hyes hno
    cases hs : r.2 with
    | false =>
      obtain ⟨e1, e2⟩ := hno hs
      rw [e1, e2]
      simp
    | true =>
      simp only [if_true]
      constructor
      · intro hk
        obtain ⟨hf, he⟩ := (hyes hs).1 hk
        rw [he, add_active g.t _ hf (by rw [List.length_map, hlT hk, hg.tCfg.2])]
      · intro hk
        obtain ⟨hf, he⟩ := (hyes hs).2 hk
        rw [he, add_active g.x _ hf (by rw [List.length_map, hlX hk, hg.xCfg.2])]

/-- **a refinement step keeps every active point in place and appends the chosen candidates**:
    when the trigger performs a step, the active points of every owned store after it are, in
    order, the active points before it followed by the points of the chosen candidates. -/
theorem model_step_active (g : Gen) (hg : GenInv g) (i : Nat) (labT labX : List Nat)
    (res : List Rat) (mse : List (List Rat)) (hc : candOK g.cfg labX.length res mse = true)
    (hs : (g.trigger i ((choose g.cfg labX.length res mse).1.map (fun a => labT.getD a 0))
                       ((choose g.cfg labX.length res mse).2.map (fun a => labX.getD a 0))).2 = true) :
    (g.cfg.kind.hasT = true →
      (g.applyOp (MOp.toGenOp g.cfg (.trigger i labT labX res mse))).t.active =
        g.t.active ++ (choose g.cfg labX.length res mse).1.map (fun a => labT.getD a 0)) ∧
    (g.cfg.kind.hasX = true →
      (g.applyOp (MOp.toGenOp g.cfg (.trigger i labT labX res mse))).x.active =
        g.x.active ++ (choose g.cfg labX.length res mse).2.map (fun a => labX.getD a 0)) := by
  obtain ⟨hlT, hlX, _⟩ := choose_facts g.cfg labX.length res mse hc
  obtain ⟨_, hyes, _⟩ := trigger_facts g hg i
    ((choose g.cfg labX.length res mse).1.map (fun a => labT.getD a 0))
    ((choose g.cfg labX.length res mse).2.map (fun a => labX.getD a 0))
    (fun h => by rw [List.length_map]; exact hlT h) (fun h => by rw [List.length_map]; exact hlX h)
  simp only [MOp.toGenOp, Gen.applyOp]
  constructor
  · intro hk
    obtain ⟨hf, he⟩ := (hyes hs).1 hk
    rw [he, add_active g.t _ hf (by rw [List.length_map, hlT hk, hg.tCfg.2])]
  · intro hk
    obtain ⟨hf, he⟩ := (hyes hs).2 hk
    rw [he, add_active g.x _ hf (by rw [List.length_map, hlX hk, hg.xCfg.2])]

/-! ### all histories -/

theorem runM_cfg (ops : List MOp) : ∀ g : Gen, (runM g ops).cfg = g.cfg := by
  induction ops with
  | nil => intro g; rfl
  | cons op ops ih => intro g; simp only [runM]; rw [ih, applyOp_cfg]

theorem runM_append (ops1 ops2 : List MOp) : ∀ g : Gen, runM g (ops1 ++ ops2) = runM (runM g ops1) ops2 := by
  induction ops1 with
  | nil => intro g; rfl
  | cons op ops ih => intro g; simp only [List.cons_append, runM]; exact ih _

theorem validM_append (ops1 ops2 : List MOp) : ∀ g : Gen, validM g (ops1 ++ ops2) = true →
    validM g ops1 = true ∧ validM (runM g ops1) ops2 = true := by
  induction ops1 with
  | nil => intro g h; exact ⟨rfl, h⟩
  | cons op ops ih =>
    intro g h
    simp only [List.cons_append, validM, Bool.and_eq_true] at h ⊢
    have := ih _ h.2
    exact ⟨⟨h.1, this.1⟩, this.2⟩

theorem modelEvents_append (ops1 ops2 : List MOp) : ∀ g : Gen,
    modelEvents g (ops1 ++ ops2) = modelEvents g ops1 ++ modelEvents (runM g ops1) ops2 := by
  induction ops1 with
  | nil => intro g; rfl
  | cons op ops ih => intro g; simp only [List.cons_append, modelEvents, runM, ih, List.append_assoc]

/-- the whole scan passes and the run stays consistent -/
theorem run_passes (ops : List MOp) : ∀ g : Gen, GenInv g → validM g ops = true →
    holdsC17 (modelEvents g ops) = none ∧ GenInv (runM g ops) := by
  induction ops with
  | nil => intro g hg _; exact ⟨rfl, hg⟩
  | cons op ops ih =>
    intro g hg hv
    simp only [validM, Bool.and_eq_true] at hv
    obtain ⟨p1, p2⟩ := op_passes g hg op hv.1
    obtain ⟨q1, q2⟩ := ih _ p2 hv.2
    exact ⟨(holdsC17_append _ _).2 ⟨p1, q1⟩, q2⟩

/-- the active points only grow along a run: at the end they are those of the beginning plus the
    chosen candidates of the steps that took place -/
theorem run_active_grows (ops : List MOp) : ∀ g : Gen, GenInv g → validM g ops = true →
    (g.cfg.kind.hasT = true → (runM g ops).t.active.Perm (g.t.active ++ (addedM g ops).1)) ∧
    (g.cfg.kind.hasX = true → (runM g ops).x.active.Perm (g.x.active ++ (addedM g ops).2)) := by
  induction ops with
  | nil => intro g _ _; exact ⟨fun _ => by simp [runM, addedM], fun _ => by simp [runM, addedM]⟩
  | cons op ops ih =>
    intro g hg hv
    simp only [validM, Bool.and_eq_true] at hv
    obtain ⟨_, p2⟩ := op_passes g hg op hv.1
    obtain ⟨a1, a2⟩ := op_active g hg op hv.1
    obtain ⟨b1, b2⟩ := ih _ p2 hv.2
    rw [applyOp_cfg] at b1 b2
    simp only [runM, addedM]
    constructor
    · intro hk
      exact (b1 hk).trans (by rw [← List.append_assoc]; exact List.Perm.append_right _ (a1 hk))
    · intro hk
      exact (b2 hk).trans (by rw [← List.append_assoc]; exact List.Perm.append_right _ (a2 hk))

/-- **`holdsC17_model_history`** — for every consistent generator (the three kinds; time and space
    with equal or different initial counts / selected sizes) and every history, of any length, of
    `get_batch` calls (advances and reshuffles, the reshuffle permutations keeping the
    zero-probability slots last) interleaved with `trigger_rar` calls (any iteration numbers: steps
    that happen, steps the schedule or the capacity refuses; any candidates, ties allowed):
    the events the driver would assemble from the model's run satisfy `Holds.C17`, and between any
    two moments of the history no active point is lost — the later active points of each owned
    store are the earlier ones plus the chosen candidates of the steps in between (as multisets). -/
theorem holdsC17_model_history (g : Gen) (hg : GenInv g) (ops : List MOp) (hv : validM g ops = true) :
    holdsC17 (modelEvents g ops) = none ∧
    ∀ ops1 ops2, ops = ops1 ++ ops2 →
      (g.cfg.kind.hasT = true →
        (runM g ops).t.active.Perm ((runM g ops1).t.active ++ (addedM (runM g ops1) ops2).1)) ∧
      (g.cfg.kind.hasX = true →
        (runM g ops).x.active.Perm ((runM g ops1).x.active ++ (addedM (runM g ops1) ops2).2)) := by
  refine ⟨(run_passes ops g hg hv).1, ?_⟩
  intro ops1 ops2 hsplit
  subst hsplit
  obtain ⟨v1, v2⟩ := validM_append ops1 ops2 g hv
  have hinv := (run_passes ops1 g hg v1).2
  have := run_active_grows ops2 (runM g ops1) hinv v2
  rw [runM_cfg] at this
  rw [runM_append]
  exact this

/-- every single event of the model's run passes its check -/
theorem holdsC17_model_history_each (g : Gen) (hg : GenInv g) (ops : List MOp) (hv : validM g ops = true) :
    ∀ e ∈ modelEvents g ops, evCheck e = none :=
  (holdsC17_iff _).1 (holdsC17_model_history g hg ops hv).1

/-- **every step of every history**: whatever happened before (`ops1`) and whatever follows
    (`ops2`), the record of the trigger in between satisfies `Holds.C17`, and every point active
    before it is active after it (if it performs a step, the active points after it are exactly
    those before it, in place, followed by the chosen candidates: `model_step_active`). -/
theorem holdsC17_model_history_step (g : Gen) (hg : GenInv g) (ops1 ops2 : List MOp)
    (i : Nat) (labT labX : List Nat) (res : List Rat) (mse : List (List Rat))
    (hv : validM g (ops1 ++ MOp.trigger i labT labX res mse :: ops2) = true) :
    holdsC17 (stepRecord (runM g ops1) i labT labX res mse) = none ∧
    (g.cfg.kind.hasT = true → ∀ p ∈ (runM g ops1).t.active,
      p ∈ (runM g (ops1 ++ [MOp.trigger i labT labX res mse])).t.active) ∧
    (g.cfg.kind.hasX = true → ∀ p ∈ (runM g ops1).x.active,
      p ∈ (runM g (ops1 ++ [MOp.trigger i labT labX res mse])).x.active) := by
  obtain ⟨v1, v2⟩ := validM_append ops1 _ g hv
  have hinv := (run_passes ops1 g hg v1).2
  simp only [validM, Bool.and_eq_true] at v2
  have hok := v2.1
  obtain ⟨a1, a2⟩ := op_active (runM g ops1) hinv _ hok
  refine ⟨holdsC17_model_step (runM g ops1) hinv i labT labX res mse hok, ?_, ?_⟩
  · intro hk p hp
    have h := a1 (by rw [runM_cfg]; exact hk)
    rw [runM_append]
    simp only [runM]
    exact h.mem_iff.2 (List.mem_append_left _ hp)
  · intro hk p hp
    have h := a2 (by rw [runM_cfg]; exact hk)
    rw [runM_append]
    simp only [runM]
    exact h.mem_iff.2 (List.mem_append_left _ hp)

/-- **the end-of-run summary of the model passes** (`finalEvent`, for runs whose intermediate stores
    are not observed): per owned store, the points of non-zero probability at the end are those of
    the beginning plus the chosen candidates of all the steps. -/
theorem holdsC17_model_summary (g : Gen) (hg : GenInv g) (ops : List MOp) (hv : validM g ops = true) :
    holdsC17 (summaryRecord g ops) = none := by
  have hinv := (run_passes ops g hg hv).2
  obtain ⟨a1, a2⟩ := run_active_grows ops g hg hv
  unfold summaryRecord
  rw [holdsC17_iff]
  intro e he
  rw [List.mem_append] at he
  rcases he with he | he
  · cases hk : g.cfg.kind.hasT with
    | false => simp [hk] at he
    | true =>
      simp only [hk, if_true, List.mem_cons, List.not_mem_nil, or_false] at he
      subst he
      obtain ⟨_, m0, l0⟩ := genInv_T hg hk
      obtain ⟨_, m1, l1⟩ := genInv_T hinv (by rw [runM_cfg]; exact hk)
      rw [m0, m1, maskedPts_prefixMask _ _ l0, maskedPts_prefixMask _ _ l1]
      have : ((runM g ops).t.store.take (runM g ops).t.nEff).isPerm
          (g.t.store.take g.t.nEff ++ (addedM g ops).1) = true := List.isPerm_iff.2 (a1 hk)
      simp [evCheck, this]
  · cases hk : g.cfg.kind.hasX with
    | false => simp [hk] at he
    | true =>
      simp only [hk, if_true, List.mem_cons, List.not_mem_nil, or_false] at he
      subst he
      obtain ⟨_, m0, l0⟩ := genInv_X hg hk
      obtain ⟨_, m1, l1⟩ := genInv_X hinv (by rw [runM_cfg]; exact hk)
      rw [m0, m1, maskedPts_prefixMask _ _ l0, maskedPts_prefixMask _ _ l1]
      have : ((runM g ops).x.store.take (runM g ops).x.nEff).isPerm
          (g.x.store.take g.x.nEff ++ (addedM g ops).2) = true := List.isPerm_iff.2 (a2 hk)
      simp [evCheck, this]

/-- the same from construction: any configuration within the hypotheses of C16 (`WF`), any stores
    of the allocated sizes, any batch sizes -/
theorem holdsC17_model_history_init (c : Cfg) (w : WF c) (storeT storeX : List Nat) (bT bX : Nat)
    (hT : c.kind.hasT = true → storeT.length = c.nt) (hX : c.kind.hasX = true → storeX.length = c.n)
    (ops : List MOp) (hv : validM (Gen.init c storeT storeX bT bX) ops = true) :
    holdsC17 (modelEvents (Gen.init c storeT storeX bT bX) ops) = none :=
  (holdsC17_model_history _ (genInv_init w storeT storeX bT bX hT hX) ops hv).1

/-! ### non-vacuity -/

/-- an ODE generator: a store of 6 slots, 2 active, 2 added per step, batches of 2, a refinement
    attempt at every iteration -/
def exHCfg : Cfg :=
  { kind := .ode, start := 0, every := 1, nt := 6, ntStart := 2, selT := 2, n := 0, nStart := 0, selX := 0 }
theorem exHCfg_wf : WF exHCfg :=
  ⟨by decide, fun _ => by decide, fun h => absurd h (by decide), fun _ => by decide,
    fun h => absurd h (by decide)⟩
def exHGen : Gen := Gen.init exHCfg [10, 11, 12, 13, 14, 15] [] 2 1
/-- first draw (a reshuffle of the 2 active points), a step on 3 candidates with distinct
    residuals (the candidates 0 and 1 are chosen), an advance, a reshuffle of the 4 active points
    (inactive slots last), a second step (candidates 0 and 2), a third trigger the full store
    refuses, an advance -/
def exHOps : List MOp :=
  [.draw [11, 10, 12, 13, 14, 15] [], .trigger 0 [20, 21, 22] [] [3, 9, 1] [],
   .draw [] [], .draw [21, 11, 20, 10, 14, 15] [], .trigger 1 [30, 31, 32] [] [5, 2, 7] [],
   .trigger 2 [40, 41, 42] [] [1, 2, 3] [], .draw [] []]
example : GenInv exHGen := genInv_init exHCfg_wf _ _ 2 1 (fun _ => rfl) (fun h => absurd h (by decide))
example : validM exHGen exHOps = true := by decide
example : (runM exHGen exHOps).t.store = [21, 11, 20, 10, 30, 32] := by decide
/-- both steps happen (their records are not empty), the third trigger is refused -/
example : (modelEvents exHGen exHOps).length = 8 := by decide
example : ((runM exHGen (exHOps.take 1)).trigger 0 [20, 21] []).2 = true := by decide
example : (runM exHGen (exHOps.take 2)).t.active = [11, 10, 20, 21] := by decide
example : (runM exHGen (exHOps.take 5)).t.active = [21, 11, 20, 10, 30, 32] := by decide
example : (stepRecord (runM exHGen (exHOps.take 4)) 1 [30, 31, 32] [] [5, 2, 7] []).length = 2 := by decide
example : holdsC17 (modelEvents exHGen exHOps) = none :=
  (holdsC17_model_history exHGen (genInv_init exHCfg_wf _ _ 2 1 (fun _ => rfl) (fun h => absurd h (by decide)))
    exHOps (by decide)).1
example : holdsC17 (stepRecord exHGen 0 [20, 21, 22] [] [3, 9, 1] []) = none :=
  holdsC17_model_step exHGen (genInv_init exHCfg_wf _ _ 2 1 (fun _ => rfl) (fun h => absurd h (by decide)))
    0 _ _ _ _ (by decide)
example : addedM exHGen exHOps = ([20, 21, 30, 32], []) := by decide
example : holdsC17 (summaryRecord exHGen exHOps) = none :=
  holdsC17_model_summary exHGen (genInv_init exHCfg_wf _ _ 2 1 (fun _ => rfl) (fun h => absurd h (by decide)))
    exHOps (by decide)
/-- the second step, with the history before it and after it -/
example : holdsC17 (stepRecord (runM exHGen (exHOps.take 4)) 1 [30, 31, 32] [] [5, 2, 7] []) = none :=
  (holdsC17_model_history_step exHGen
    (genInv_init exHCfg_wf _ _ 2 1 (fun _ => rfl) (fun h => absurd h (by decide)))
    (exHOps.take 4) (exHOps.drop 5) 1 [30, 31, 32] [] [5, 2, 7] [] (by decide)).1
/-- a reshuffle that brings an inactive slot among the active ones is outside the contract -/
example : validM exHGen [.draw [12, 10, 11, 13, 14, 15] []] = false := by decide
/-- fewer candidates than selected points: outside the hypotheses -/
example : validM exHGen [.trigger 0 [20] [] [3] []] = false := by decide

/-- the bare-store statements: 6 slots, 2 active, 2 selected among 3 candidates (with a tie) -/
example : holdsC17 [Ev17.choice1 true [3, 9, 9] [3, 9, 9] 2 (selectTop 2 ([3, 9, 9] : List Rat)),
    Ev17.stores [("times", bareSide [10, 11, 12, 13, 14, 15] 2 2 [20, 21, 22] (selectTop 2 ([3, 9, 9] : List Rat)))]] = none :=
  holdsC17_model_step_single "times" _ 2 2 _ _ (by decide) (by decide)
example : (bareSide [10, 11, 12, 13, 14, 15] 2 2 [20, 21, 22] (selectTop 2 ([3, 9, 9] : List Rat))).storeA
    = [10, 11, 21, 22, 14, 15] := by decide
/-- `Holds.C17` is not vacuous on such records: the same record with the update one slot too early
    (an active slot overwritten) is refused -/
example : sideCheck { bareSide [10, 11, 12, 13, 14, 15] 2 2 [20, 21, 22] [1, 2] with
    storeA := updateStore [10, 11, 12, 13, 14, 15] 1 [21, 22] } = some "active-slot-overwritten" := by decide

/-- a non-stationary generator: 4 time slots (2 active, 1 added per step), 5 space slots (1 active,
    2 added per step): different initial counts, selected sizes and offsets -/
def exPCfg : Cfg :=
  { kind := .nonstatio, start := 0, every := 1, nt := 4, ntStart := 2, selT := 1, n := 5, nStart := 1, selX := 2 }
theorem exPCfg_wf : WF exPCfg :=
  ⟨by decide, fun _ => by decide, fun _ => by decide, fun _ => by decide, fun _ => by decide⟩
def exPGen : Gen := Gen.init exPCfg [10, 11, 12, 13] [50, 51, 52, 53, 54] 1 1
/-- first draw (reshuffles), a step on a `2 × 3` table, an advance of the time cursor and a reshuffle
    of the 3 active space points, a step on a table with ties, a refused trigger -/
def exPOps : List MOp :=
  [.draw [11, 10, 12, 13] [50, 51, 52, 53, 54],
   .trigger 0 [20, 21] [60, 61, 62] [] [[1, 7, 3], [9, 2, 8]],
   .draw [] [], .draw [] [], .draw [10, 21, 11, 13] [62, 50, 60, 53, 54],
   .trigger 1 [30, 31] [70, 71, 72] [] [[4, 4, 1], [0, 4, 2]],
   .trigger 2 [40, 41] [80, 81, 82] [] [[1, 2, 3], [4, 5, 6]]]
example : validM exPGen exPOps = true := by decide
example : (runM exPGen exPOps).t.store = [10, 21, 11, 30] := by decide
example : (runM exPGen exPOps).x.store = [62, 50, 60, 70, 71] := by decide
example : (modelEvents exPGen exPOps).length = 8 := by decide
example : holdsC17 (modelEvents exPGen exPOps) = none :=
  holdsC17_model_history_init exPCfg exPCfg_wf _ _ 1 1 (fun _ => rfl) (fun _ => rfl) exPOps (by decide)
example : holdsC17 [Ev17.choice2 true [[1, 7, 3], [9, 2, 8]] [[1, 7, 3], [9, 2, 8]] 3 1 2
      (topPairs ([[1, 7, 3], [9, 2, 8]] : List (List Rat)) 3 1 2).1 (topPairs ([[1, 7, 3], [9, 2, 8]] : List (List Rat)) 3 1 2).2,
    Ev17.stores [("times", bareSide [10, 11, 12, 13] 2 1 [20, 21] (topPairs ([[1, 7, 3], [9, 2, 8]] : List (List Rat)) 3 1 2).1),
                 ("omega", bareSide [50, 51, 52, 53, 54] 1 2 [60, 61, 62] (topPairs ([[1, 7, 3], [9, 2, 8]] : List (List Rat)) 3 1 2).2)]] = none :=
  holdsC17_model_step_product _ _ 2 1 1 2 _ _ _ 3 (by decide) (by decide) (by decide) (by decide) (by decide)

end Jinns.Rar
