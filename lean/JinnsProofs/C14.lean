/-
C14 — space-time batches are exact cartesian products (or exact pairings).
Property theorems about `JinnsModel/Cartesian.lean`, for all batch sizes, all contents, all
column counts (dimensions), both product modes and every history of `get_batch`.
-/
import JinnsModel.Cartesian
import JinnsModel.HoldsC14
import JinnsProofs.C09

namespace Jinns.Cartesian
open Jinns.Minibatch

variable {α β : Type}

/-! ### helper lemmas -/

theorem repeatEach_length (k : Nat) (l : List α) : (repeatEach k l).length = l.length * k := by
  induction l with
  | nil => simp [repeatEach]
  | cons a as ih => simp [repeatEach, ih, Nat.add_mul, Nat.add_comm]

theorem tile_length (k : Nat) (l : List α) : (tile k l).length = k * l.length := by
  induction k with
  | zero => simp [tile]
  | succ k ih => simp [tile, ih, Nat.add_mul, Nat.add_comm]

theorem zipWith_replicate_left (f : α → β → γ) (a : α) (l : List β) :
    List.zipWith f (List.replicate l.length a) l = l.map (f a) := by
  induction l with
  | nil => simp
  | cons b bs ih => simp [List.replicate_succ, ih]

/-- Rows of a `flatMap` whose blocks all have length `n`: row `j + i·n`… stated through `/`, `%`. -/
theorem flatMap_getElem?_of_const_length (f : α → List β) (n : Nat) (hn : 0 < n)
    (l : List α) (hf : ∀ a ∈ l, (f a).length = n) (k : Nat) :
    (l.flatMap f)[k]? = (l[k / n]?).bind fun a => (f a)[k % n]? := by
  induction l generalizing k with
  | nil => simp
  | cons a as ih =>
    have ha : (f a).length = n := hf a (List.mem_cons_self)
    have has : ∀ a' ∈ as, (f a').length = n := fun a' h => hf a' (List.mem_cons_of_mem _ h)
    rw [List.flatMap_cons]
    by_cases hk : k < n
    · rw [List.getElem?_append_left (by omega), Nat.div_eq_of_lt hk, Nat.mod_eq_of_lt hk]
      simp
    · obtain ⟨j, rfl⟩ : ∃ j, k = j + n := ⟨k - n, by omega⟩
      rw [List.getElem?_append_right (by omega), ha, Nat.add_sub_cancel, ih has j,
        Nat.add_div_right j hn, Nat.add_mod_right]
      simp

/-! ### the product -/

/-- **C14: the code's repeat/tile/concatenate is the time-major product.** -/
theorem cartesian_eq_flatMap (ts xs : List (List α)) :
    cartesian ts xs = ts.flatMap fun t => xs.map (t ++ ·) := by
  unfold cartesian
  induction ts with
  | nil => simp [repeatEach, tile]
  | cons t ts ih =>
    simp only [repeatEach, List.length_cons, tile, List.flatMap_cons]
    rw [List.zipWith_append (by simp), ih, zipWith_replicate_left]

/-- Number of rows: `|ts| · |xs|`. -/
theorem cartesian_length (ts xs : List (List α)) :
    (cartesian ts xs).length = ts.length * xs.length := by
  unfold cartesian
  rw [List.length_zipWith, repeatEach_length, tile_length, Nat.min_self]

/-- **Row formula**: row `k` is `(ts[k / |xs|], xs[k % |xs|])`. -/
theorem cartesian_row (ts xs : List (List α)) (k : Nat) (hk : k < ts.length * xs.length) :
    ∃ t x, ts[k / xs.length]? = some t ∧ xs[k % xs.length]? = some x ∧
      (cartesian ts xs)[k]? = some (t ++ x) := by
  have hn : 0 < xs.length := by
    rcases Nat.eq_zero_or_pos xs.length with h | h
    · rw [h] at hk; simp at hk
    · exact h
  have hi : k / xs.length < ts.length := Nat.div_lt_of_lt_mul (by rw [Nat.mul_comm]; exact hk)
  have hj : k % xs.length < xs.length := Nat.mod_lt _ hn
  refine ⟨ts[k / xs.length], xs[k % xs.length], List.getElem?_eq_getElem hi,
    List.getElem?_eq_getElem hj, ?_⟩
  rw [cartesian_eq_flatMap,
    flatMap_getElem?_of_const_length (fun t => xs.map (t ++ ·)) xs.length hn ts (by simp) k,
    List.getElem?_eq_getElem hi]
  simp [List.getElem?_eq_getElem hj]

/-- **Every pair `(i, j)` sits at row `i·|xs| + j`** (time-major). -/
theorem cartesian_pair (ts xs : List (List α)) (i j : Nat) (hi : i < ts.length)
    (hj : j < xs.length) :
    (cartesian ts xs)[i * xs.length + j]? = some (ts[i] ++ xs[j]) := by
  have hk : i * xs.length + j < ts.length * xs.length := by
    calc i * xs.length + j < i * xs.length + xs.length := by omega
      _ = (i + 1) * xs.length := by rw [Nat.add_mul, Nat.one_mul]
      _ ≤ ts.length * xs.length := Nat.mul_le_mul_right _ hi
  obtain ⟨t, x, ht, hx, h⟩ := cartesian_row ts xs _ hk
  have hn : 0 < xs.length := by omega
  have e1 : (i * xs.length + j) / xs.length = i := by
    rw [Nat.add_comm, Nat.add_mul_div_right _ _ hn, Nat.div_eq_of_lt hj, Nat.zero_add]
  have e2 : (i * xs.length + j) % xs.length = j := by
    rw [Nat.add_comm, Nat.add_mul_mod_self_right, Nat.mod_eq_of_lt hj]
  rw [e1, List.getElem?_eq_getElem hi] at ht
  rw [e2, List.getElem?_eq_getElem hj] at hx
  rw [h]; congr 1
  rw [← Option.some.inj ht, ← Option.some.inj hx]

/-- **Each pair appears exactly once**: `(i, j) ↦ i·n + j` is a bijection from
    `[0,m) × [0,n)` onto the row indices `[0, m·n)` (its inverse is `k ↦ (k / n, k % n)`, which by
    `cartesian_row` is the pair stored at row `k`). -/
theorem pair_index_exactly_once (m n i j : Nat) (hi : i < m) (hj : j < n) :
    ∃ k, k < m * n ∧ k / n = i ∧ k % n = j ∧
      ∀ k', k' < m * n → k' / n = i → k' % n = j → k' = k := by
  have hn : 0 < n := by omega
  refine ⟨i * n + j, ?_, ?_, ?_, ?_⟩
  · calc i * n + j < i * n + n := by omega
      _ = (i + 1) * n := by rw [Nat.add_mul, Nat.one_mul]
      _ ≤ m * n := Nat.mul_le_mul_right _ hi
  · rw [Nat.add_comm, Nat.add_mul_div_right _ _ hn, Nat.div_eq_of_lt hj, Nat.zero_add]
  · rw [Nat.add_comm, Nat.add_mul_mod_self_right, Nat.mod_eq_of_lt hj]
  · intro k' _ h1 h2
    have := Nat.div_add_mod k' n
    rw [h1, h2, Nat.mul_comm] at this
    omega

/-- **Exactly once, by value**: when the time rows are pairwise distinct (and of one width) and the
    spatial rows are pairwise distinct, no row of the product is repeated. -/
theorem cartesian_nodup (ts xs : List (List α)) (d : Nat) (hd : ∀ t ∈ ts, t.length = d)
    (hts : ts.Nodup) (hxs : xs.Nodup) : (cartesian ts xs).Nodup := by
  rw [cartesian_eq_flatMap]
  induction ts with
  | nil => simp
  | cons t ts ih =>
    rw [List.flatMap_cons, List.nodup_append]
    have htn := List.nodup_cons.1 hts
    refine ⟨?_, ih (fun t' h => hd t' (List.mem_cons_of_mem _ h)) htn.2, ?_⟩
    · unfold List.Nodup; rw [List.pairwise_map]
      exact List.Pairwise.imp (fun h e => h (List.append_cancel_left e)) hxs
    · intro a ha b hb e
      obtain ⟨x, _, rfl⟩ := List.mem_map.1 ha
      obtain ⟨t', ht', hb'⟩ := List.mem_flatMap.1 hb
      obtain ⟨x', _, rfl⟩ := List.mem_map.1 hb'
      have hl : t.length = t'.length := by
        rw [hd t List.mem_cons_self, hd t' (List.mem_cons_of_mem _ ht')]
      have := (List.append_inj e hl).1
      exact htn.1 (this ▸ ht')

/-- **Column 0 is time, the remaining columns are the spatial point** (interior batch:
    the first factor is the time column `t.reshape(bt, 1)`). -/
theorem cartesian_col_pair (ts : List α) (xs : List (List α)) (i j : Nat) (hi : i < ts.length)
    (hj : j < xs.length) :
    (cartesian (col ts) xs)[i * xs.length + j]? = some (ts[i] :: xs[j]) := by
  have hi' : i < (col ts).length := by simpa [col] using hi
  rw [cartesian_pair (col ts) xs i j hi' hj]
  simp [col]

theorem cartesian_col_length (ts : List α) (xs : List (List α)) :
    (cartesian (col ts) xs).length = ts.length * xs.length := by
  rw [cartesian_length]; simp [col]

/-- The product commutes with any row map that distributes over `++` (in particular with the
    extraction of one facet). -/
theorem map_cartesian (g : List α → List β) (hg : ∀ a b, g (a ++ b) = g a ++ g b)
    (A B : List (List α)) :
    (cartesian A B).map g = cartesian (A.map g) (B.map g) := by
  rw [cartesian_eq_flatMap, cartesian_eq_flatMap, List.map_flatMap, List.flatMap_map]
  congr 1
  funext a
  simp [List.map_map, Function.comp_def, hg]

/-- **Border batch, facet by facet**: facet `f` of `make_cartesian_product(t_, dx)` (with the
    time replicated over the `F` facets) is the product of the time column with facet `f` of the
    border batch `dx[..., f]` — the same time-major product on every facet. -/
theorem border_facet_product (F f : Nat) (hf : f < F) (ts : List α) (dx : List (List (List α))) :
    facet f (cartesian (timeRep F ts) dx) = cartesian (col (ts.map some)) (facet f dx) := by
  unfold facet
  rw [map_cartesian (fun row => row.map fun c => c[f]?) (by simp)]
  congr 1
  simp [timeRep, col, hf]

/-- Pairing mode commutes with the facet extraction as well. -/
theorem border_facet_paired (F f : Nat) (hf : f < F) (ts : List α) (dx : List (List (List α))) :
    facet f (paired (timeRep F ts) dx) = paired (col (ts.map some)) (facet f dx) := by
  unfold facet paired
  rw [List.map_zipWith]
  simp only [List.map_append]
  rw [← List.zipWith_map]
  congr 1
  simp [timeRep, col, hf]

/-! ### the pairing -/

theorem paired_length (ts xs : List (List α)) :
    (paired ts xs).length = min ts.length xs.length := by
  simp [paired]

/-- **Pairing mode: row `i` is `(t_i, x_i)`**, column 0 the time. -/
theorem paired_col_row (ts : List α) (xs : List (List α)) (i : Nat) (hi : i < ts.length)
    (hj : i < xs.length) :
    (paired (col ts) xs)[i]? = some (ts[i] :: xs[i]) := by
  simp [paired, col, List.getElem?_zipWith, List.getElem?_eq_getElem hi,
    List.getElem?_eq_getElem hj]

/-- The constructor's pairing guard rejects exactly the configurations in which the pairing is not
    a one-to-one stacking: it passes iff product mode, or `bt = b` and (in dimension > 1 with a
    border batch) `bt = bb`. -/
theorem pairingGuard_ok_iff (cart : Bool) (dim bt b : Nat) (bb : Option Nat) :
    pairingGuard cart dim bt b bb = .ok () ↔
      (cart = true ∨ (bt = b ∧ (1 < dim → ∀ k, bb = some k → k = bt))) := by
  unfold pairingGuard
  cases cart <;> cases bb <;> simp <;> split <;> simp_all <;> omega

/-- Under the guard, pairing uses every time and every point: the paired batch has `bt` rows. -/
theorem paired_total (ts : List α) (xs : List (List α)) (h : ts.length = xs.length) :
    (paired (col ts) xs).length = ts.length := by
  simp [paired, col, h]

/-! ### every history of `get_batch` -/

/-- The batches returned by any history of `get_batch` are, request by request, `combine` of the
    batches the three C09 cursors serve on their own oracle streams (so the factors are exactly
    "one interior, one border and one temporal batch" of C09, whatever the history). -/
theorem getBatch_history (nO nB nT : Nat) (g : NS α)
    (os : List (List (List α) × List (List (List α)) × List α)) :
    (runNS nO nB nT g os).2 =
      List.zipWith (fun (p : List (List α) × Option (List (List (List α)))) t =>
          combine g.cart g.dim p.1 p.2 t)
        (List.zip (Minibatch.run nO g.omega (os.map (·.1))).2
                  (Border.run nB g.border (os.map (·.2.1))).2)
        (Minibatch.run nT g.times (os.map (·.2.2))).2 := by
  induction os generalizing g with
  | nil => simp [runNS, Minibatch.run, Border.run]
  | cons o os ih =>
    simp only [runNS, List.map_cons, Minibatch.run, Border.run, List.zip_cons_cons,
      List.zipWith_cons_cons]
    rw [ih]
    simp [getBatch]

/-- The interior batch of the first request of a history in product mode, spelled out:
    `bt · b` rows and pair `(i, j)` at row `i·b + j`, where `t`/`x` are the C09 batches. -/
theorem getBatch_interior_product (nO nB nT : Nat) (g : NS α) (hc : g.cart = true)
    (o : List (List α) × List (List (List α)) × List α) :
    let x := (Minibatch.next nO g.omega o.1).2
    let t := (Minibatch.next nT g.times o.2.2).2
    let tx := (getBatch nO nB nT g o).2.1
    tx.length = t.length * x.length ∧
    ∀ i j (hi : i < t.length) (hj : j < x.length), tx[i * x.length + j]? = some (t[i] :: x[j]) := by
  intro x t tx
  have htx : tx = cartesian (col t) x := by simp [tx, getBatch, combine, hc, x, t]
  rw [htx]
  exact ⟨cartesian_col_length t x, fun i j hi hj => cartesian_col_pair t x i j hi hj⟩

/-- … and in pairing mode: row `i` is `(t_i, x_i)`. -/
theorem getBatch_interior_paired (nO nB nT : Nat) (g : NS α) (hc : g.cart = false)
    (o : List (List α) × List (List (List α)) × List α) :
    let x := (Minibatch.next nO g.omega o.1).2
    let t := (Minibatch.next nT g.times o.2.2).2
    let tx := (getBatch nO nB nT g o).2.1
    ∀ i (hi : i < t.length) (hj : i < x.length), tx[i]? = some (t[i] :: x[i]) := by
  intro x t tx
  have htx : tx = paired (col t) x := by simp [tx, getBatch, combine, hc, x, t]
  rw [htx]
  exact fun i hi hj => paired_col_row t x i hi hj

/-- The border batch of a request: facet by facet the product (product mode or `dim = 1`) or the
    pairing of the time column with that facet of the border batch served by C09. -/
theorem getBatch_border_facets (nO nB nT : Nat) (g : NS α)
    (o : List (List α) × List (List (List α)) × List α) (d : List (List (List α)))
    (hd : (Border.next nB g.border o.2.1).2 = some d) (f : Nat) (hf : f < facetCount d) :
    let t := (Minibatch.next nT g.times o.2.2).2
    ∃ td, (getBatch nO nB nT g o).2.2 = some td ∧
      facet f td = if g.cart || g.dim == 1 then cartesian (col (t.map some)) (facet f d)
                   else paired (col (t.map some)) (facet f d) := by
  intro t
  by_cases hc : (g.cart || g.dim == 1) = true
  · refine ⟨cartesian (timeRep (facetCount d) t) d, ?_, ?_⟩
    · simp [getBatch, combine, hd, hc, t]
    · rw [if_pos hc]; exact border_facet_product _ f hf t d
  · refine ⟨paired (timeRep (facetCount d) t) d, ?_, ?_⟩
    · simp [getBatch, combine, hd, hc, t]
    · rw [if_neg hc]; exact border_facet_paired _ f hf t d

/-- In 1-D the border "batch" is always the whole border `(xmin, xmax)`, untouched by any request. -/
theorem border_1d_fixed (nB : Nat) (e : List α) (os : List (List (List (List α)))) :
    (Border.run nB (.fixed1d e) os).2 = List.replicate os.length (some [[e]]) := by
  induction os with
  | nil => simp [Border.run]
  | cons o os ih => simp [Border.run, Border.next, ih, List.replicate_succ]

/-! ### the model satisfies `Holds.C14` -/

open Jinns.Holds in
/-- The decidable product statement used by `Holds.C14` is true of the code-shaped product, for
    all factors (so `Holds.C14` can only fail on an implementation trace that differs from it). -/
theorem productRows_cartesian [BEq α] [LawfulBEq α] (a b : List (List α)) (pre : String) :
    c14ProductRows a b (cartesian a b) pre = none := by
  unfold c14ProductRows
  have hlen := cartesian_length a b
  rw [if_neg (by simp [hlen])]
  have hnone : (List.range (cartesian a b).length).find? (c14ProdBad a b (cartesian a b)) = none := by
    rw [List.find?_eq_none]
    intro k hk
    rw [List.mem_range, hlen] at hk
    obtain ⟨t, x, ht, hx, h⟩ := cartesian_row a b k hk
    simp [c14ProdBad, ht, hx, h]
  simp only [hnone]

open Jinns.Holds in
theorem pairedRows_paired [BEq α] [LawfulBEq α] (a b : List (List α)) (h : a.length = b.length)
    (pre : String) : c14PairedRows a b (paired a b) pre = none := by
  unfold c14PairedRows
  have hlen : (paired a b).length = a.length := by simp [paired, h]
  rw [if_neg (by simp [hlen, h])]
  have hnone : (List.range (paired a b).length).find? (c14PairBad a b (paired a b)) = none := by
    rw [List.find?_eq_none]
    intro i hi
    rw [List.mem_range, hlen] at hi
    have hb : i < b.length := h ▸ hi
    simp [c14PairBad, paired, List.getElem?_zipWith, List.getElem?_eq_getElem hi, List.getElem?_eq_getElem hb]
  simp only [hnone]

/-! ### non-vacuity -/

example : (cartesian [[1], [2]] [[10], [20], [30]]).Nodup := by decide

example : cartesian [[1], [2]] [[10, 11], [20, 21], [30, 31]]
    = [[1, 10, 11], [1, 20, 21], [1, 30, 31], [2, 10, 11], [2, 20, 21], [2, 30, 31]] := by decide
example : pairingGuard false 2 3 3 (some 3) = .ok () := by simp [pairingGuard]
example : pairingGuard false 2 3 2 (some 3) = .error "value_error" := by simp [pairingGuard]
example : pairingGuard false 2 3 3 (some 2) = .error "value_error" := by simp [pairingGuard]
example : paired (col [1, 2]) [[10, 11], [20, 21]] = [[1, 10, 11], [2, 20, 21]] := by decide
example : facet 1 (cartesian (timeRep 2 [7, 8]) [[[1, 2], [3, 4]]])
    = [[some 7, some 2, some 4], [some 8, some 2, some 4]] := by decide
example : ∃ k, k < 2 * 3 ∧ k / 3 = 1 ∧ k % 3 = 2 := ⟨5, by decide⟩
example :
    (getBatch 2 1 2 { omega := init [[1], [2]] 2, border := .fixed1d [0, 9], times := init [5, 6] 2,
                      cart := true, dim := 1 } ([[2], [1]], [], [6, 5])).2
      = ([[6, 2], [6, 1], [5, 2], [5, 1]],
         some [[[6, 6], [0, 9]], [[5, 5], [0, 9]]]) := by decide

end Jinns.Cartesian
