/-
C03 — separable networks (SPINN): the decidable trace predicate `Holds.C03` is satisfied by the
observation the *model* produces with `lossStatioSpinnDyn` / `lossNonStatioSpinnDyn`
(`JinnsModel/LossTerms.lean`), for every dimension `d`, every batch (any number of rows), every residual
function on points, every weight (scalar / per-component), every configured subset of the other terms
and every tolerance `0 ≤ tol`.

The model's observation is built as `harness/c03.py` (`run_impl`, `case["spinn"]`) builds the
implementation's one and as `JinnsDriver/C03.lean` parses it:

* `total`, `terms`: the base run on the batch;
* the residual table: the residuals at the points of the *tensor grid* of the coordinate columns of
  the batch (`itertools.product(*cols)` = `gridPts`), first coordinate slowest (time first for a
  non-stationary loss);
* the metamorphic re-evaluations — weight scaled by `c`, a second weight of the same shape, the sum of
  the two, the batch with its ROWS permuted — each one a *full* run of the model's loss whose
  `dyn_loss` entry is read;
* no "halves" (`halves = None`: the grid of a half batch is not half of the grid).

The permuted-rows clause rests on `gridPts_perm`: permuting the rows of the batch permutes every
coordinate column by the same permutation, hence the tensor grid of the permuted batch is a
permutation of the tensor grid of the batch (all `d`, induction on the columns).
-/
import JinnsProofs.C03C05Holds
import Mathlib.Data.List.Perm.Basic

namespace Jinns.LossTerms
open Jinns.Holds

/-! ### the tensor grid of a row-permuted batch is a permutation of the tensor grid -/

/-- the grid over the coordinate columns `js` of a row-permuted batch is a permutation of the grid
    over the same columns of the batch -/
theorem cart_columns_perm {pts pts' : List (List ℚ)} (h : pts.Perm pts') (js : List Nat) :
    (cart (js.map fun j => pts.map fun p => p.getD j 0)).Perm
      (cart (js.map fun j => pts'.map fun p => p.getD j 0)) := by
  induction js with
  | nil => exact List.Perm.refl _
  | cons j js ih =>
    simp only [List.map_cons, cart]
    exact ((h.map _).flatMap_right _).trans (List.Perm.flatMap_left _ fun a _ => ih.map _)

/-- **permuting the rows of the batch permutes its tensor grid** (every number of coordinates `nc`,
    every batch size) -/
theorem gridPts_perm (nc : Nat) {pts pts' : List (List ℚ)} (h : pts.Perm pts') :
    (gridPts nc pts).Perm (gridPts nc pts') := by
  unfold gridPts columns
  exact cart_columns_perm h (List.range nc)

/-- the dynamic term of a separable network does not depend on the order of the batch rows -/
theorem dynTerm_gridPts_perm (nc : Nat) (w : Weight) (r : List ℚ → List ℚ) {pts pts' : List (List ℚ)}
    (h : pts.Perm pts') : dynTerm w r (gridPts nc pts) = dynTerm w r (gridPts nc pts') :=
  dynTerm_perm w r (gridPts_perm nc h)

/-! ### what the harness records about the dynamic term of a separable network -/

/-- `run w' batch` is the `dyn_loss` entry returned by a full run of the model's `evaluate` with the
    dynamic weight `w'` on the batch `batch` (everything else as in the base run); `resid` the table of
    residuals handed to `Holds.C03`; `b'` the batch with permuted rows.  No halves. -/
def modelDyn03Spinn {β : Type} (run : Weight → List β → ℚ) (w : Weight) (resid : List (List ℚ))
    (b b' : List β) (c : ℚ) (w2 : Weight) : Dyn03 :=
  { w := toW03 w
    residuals := resid
    scale := c
    scaled := run (w.smul c) b
    w2 := toW03 w2
    withW2 := run w2 b
    withSum := run (w.add w2) b
    permuted := run w b'
    halves := none }

/-- the record passes the five dynamic clauses of `Holds.C03` as soon as a run returns the `dynTerm`
    over the points `grid batch` and the points of the re-arranged batch are a permutation of those of
    the batch -/
theorem modelDyn03Spinn_ok {α β : Type} (grid : List β → List α) (r : α → List ℚ)
    (run : Weight → List β → ℚ) (hrun : ∀ w' batch, run w' batch = dynTerm w' r (grid batch))
    (w : Weight) (b b' : List β) (hp : (grid b).Perm (grid b')) (c : ℚ) (w2 : Weight)
    (hs : w.SameShape w2) (tol : ℚ) (ht : 0 ≤ tol) :
    DynOK tol (dynTerm w r (grid b)) (modelDyn03Spinn run w ((grid b).map r) b b' c w2) := by
  refine ⟨?_, ?_, ?_, ?_, ?_⟩
  · apply c03Close_of_eq ht
    exact (holds_closed_form_eq_dynTerm w r (grid b)).symm
  · have h0 : 0 ≤ tol * (1 + c03Abs c) := mul_nonneg ht (by have := c03Abs_nonneg c; linarith)
    apply c03Close_of_eq h0
    show run (w.smul c) b = c * dynTerm w r (grid b)
    rw [hrun]
    exact dynTerm_smul c w r (grid b)
  · apply c03Close_of_eq (by linarith)
    show run (w.add w2) b = dynTerm w r (grid b) + run w2 b
    rw [hrun, hrun]
    exact dynTerm_add w w2 hs r (grid b)
  · apply c03Close_of_eq ht
    show run w b' = dynTerm w r (grid b)
    rw [hrun]
    exact (dynTerm_perm w r hp).symm
  · intro x y hxy
    exact absurd hxy (by simp [modelDyn03Spinn])

/-! ### the structural clauses, for any values of the terms -/

/-- `Holds.C03` on a dictionary assembled by `evalStatio` -/
theorem holdsC03_of_evalStatio (out : ℚ × PdeTerms) (dv nv bv ov : Option ℚ)
    (hout : out = evalStatio dv nv bv ov) (cfg : List String) (dynObs : Option Dyn03)
    (tol : ℚ) (htol : 0 ≤ tol)
    (hcd : dv.isSome = true → cfg.contains "dyn_loss" = true)
    (hcn : nv.isSome = true → cfg.contains "norm_loss" = true)
    (hcb : bv.isSome = true → cfg.contains "boundary_loss" = true)
    (hco : ov.isSome = true → cfg.contains "observations" = true)
    (hdyn : ∀ dd, dynObs = some dd → DynOK tol (dv.getD 0) dd) :
    holdsC03 { keys := pdeKeys, total := out.1, terms := pdeTermList out.2, configured := cfg,
               dyn := dynObs, tol := tol } = none := by
  subst hout
  apply holdsC03_of
  · simp [pdeKeys, pdeTermList, List.lookup]
  · apply c03Close_of_eq htol
    simp only [pdeTermList, evalStatio, List.map_cons, List.map_nil, List.sum_cons, List.sum_nil]
    ring
  · simp only [pdeTermList, evalStatio, List.all_cons, List.all_nil, Bool.and_true, Bool.and_eq_true]
    exact ⟨cfg_or_zero _ _ _ hcd, cfg_or_zero _ _ _ hcn, cfg_or_zero _ _ _ hcb, cfg_or_zero _ _ _ hco,
      by simp⟩
  · intro dd hd
    have hv : ((pdeTermList (evalStatio dv nv bv ov).2).lookup "dyn_loss").getD 0 = dv.getD 0 := by
      simp [pdeTermList, evalStatio]
    show DynOK tol (((pdeTermList (evalStatio dv nv bv ov).2).lookup "dyn_loss").getD 0) dd
    rw [hv]
    exact hdyn dd hd

/-- `Holds.C03` on a dictionary assembled by `evalNonStatio` -/
theorem holdsC03_of_evalNonStatio (out : ℚ × PdeTerms) (dv nv bv ov iv : Option ℚ)
    (hout : out = evalNonStatio dv nv bv ov iv) (cfg : List String)
    (dynObs : Option Dyn03) (tol : ℚ) (htol : 0 ≤ tol)
    (hcd : dv.isSome = true → cfg.contains "dyn_loss" = true)
    (hcn : nv.isSome = true → cfg.contains "norm_loss" = true)
    (hcb : bv.isSome = true → cfg.contains "boundary_loss" = true)
    (hco : ov.isSome = true → cfg.contains "observations" = true)
    (hci : iv.isSome = true → cfg.contains "initial_condition" = true)
    (hdyn : ∀ dd, dynObs = some dd → DynOK tol (dv.getD 0) dd) :
    holdsC03 { keys := pdeKeys, total := out.1, terms := pdeTermList out.2, configured := cfg,
               dyn := dynObs, tol := tol } = none := by
  subst hout
  apply holdsC03_of
  · simp [pdeKeys, pdeTermList, List.lookup]
  · apply c03Close_of_eq htol
    simp only [pdeTermList, evalNonStatio, evalStatio, List.map_cons, List.map_nil, List.sum_cons,
      List.sum_nil]
    ring
  · simp only [pdeTermList, evalNonStatio, evalStatio, List.all_cons, List.all_nil, Bool.and_true,
      Bool.and_eq_true]
    exact ⟨cfg_or_zero _ _ _ hcd, cfg_or_zero _ _ _ hcn, cfg_or_zero _ _ _ hcb, cfg_or_zero _ _ _ hco,
      cfg_or_zero _ _ _ hci⟩
  · intro dd hd
    have hv : ((pdeTermList (evalNonStatio dv nv bv ov iv).2).lookup "dyn_loss").getD 0 = dv.getD 0 := by
      simp [pdeTermList, evalNonStatio, evalStatio]
    show DynOK tol (((pdeTermList (evalNonStatio dv nv bv ov iv).2).lookup "dyn_loss").getD 0) dd
    rw [hv]
    exact hdyn dd hd

/-! ### `LossPDEStatio` around a separable network -/

/-- the observation of `LossPDEStatio.evaluate` around a separable network on the inside batch
    `inside` (rows of `d` coordinates) as the model produces it: base run `lossStatioSpinnDyn`, the
    residual table over the tensor grid `gridPts d inside`, the re-evaluations as full runs of
    `lossStatioSpinnDyn` (`inside'` = the batch with permuted rows, `c` the scale, `w2` the second
    weight).  `norm` (weight, `L`, network, samples) and `boundary` (its value) are optional; a
    separable network has no observation term and the stationary loss no initial condition. -/
def modelObs03StatioSpinn (d : Nat) (dyn : Option (Weight × (List ℚ → List ℚ)))
    (norm : Option (ℚ × ℚ × (List ℚ → List ℚ) × List (List ℚ))) (boundary : Option ℚ)
    (inside inside' : List (List ℚ)) (c : ℚ) (w2 : Weight) (tol : ℚ) : Obs03 :=
  let out := lossStatioSpinnDyn d dyn norm boundary inside
  { keys := pdeKeys
    total := out.1
    terms := pdeTermList out.2
    configured := cfgNames [("dyn_loss", dyn.isSome), ("norm_loss", norm.isSome),
      ("boundary_loss", boundary.isSome)]
    dyn := dyn.map fun p =>
      modelDyn03Spinn (fun w' batch => (lossStatioSpinnDyn d (some (w', p.2)) norm boundary batch).2.dyn)
        p.1 ((gridPts d inside).map p.2) inside inside' c w2
    tol := tol }

/-- **`Holds.C03` holds on every observation of the model's `LossPDEStatio.evaluate` around a
    separable network**: any dimension `d`, any batch, any residual function, any weight (scalar /
    per-component), any subset of configured terms, any permutation of the batch rows, any scale, any
    second weight of the same shape, any `0 ≤ tol`. -/
theorem holdsC03_model_statio_spinn (d : Nat) (dyn : Option (Weight × (List ℚ → List ℚ)))
    (norm : Option (ℚ × ℚ × (List ℚ → List ℚ) × List (List ℚ))) (boundary : Option ℚ)
    (inside inside' : List (List ℚ)) (hperm : inside.Perm inside') (c : ℚ) (w2 : Weight)
    (hw2 : ∀ p, dyn = some p → p.1.SameShape w2) (tol : ℚ) (htol : 0 ≤ tol) :
    holdsC03 (modelObs03StatioSpinn d dyn norm boundary inside inside' c w2 tol) = none := by
  unfold modelObs03StatioSpinn
  refine holdsC03_of_evalStatio (lossStatioSpinnDyn d dyn norm boundary inside) _ _ boundary none rfl
    _ _ tol htol ?_ ?_ ?_ ?_ ?_
  · intro h
    have : dyn.isSome = true := by simpa using h
    rw [this]
    exact contains_cfgNames _ _ (by simp)
  · intro h
    have : norm.isSome = true := by simpa using h
    rw [this]
    exact contains_cfgNames _ _ (by simp)
  · intro h
    rw [h]
    exact contains_cfgNames _ _ (by simp)
  · intro h
    simp at h
  · intro dd hd
    cases dyn with
    | none => simp at hd
    | some p =>
      obtain ⟨w, r⟩ := p
      simp only [Option.map_some, Option.some.injEq] at hd
      subst hd
      show DynOK tol (dynTerm w r (gridPts d inside)) _
      exact modelDyn03Spinn_ok (gridPts d) r _
        (fun w' batch => by simp [lossStatioSpinnDyn, evalStatio])
        w inside inside' (gridPts_perm d hperm) c w2 (hw2 (w, r) rfl) tol htol

/-! ### `LossPDENonStatio` around a separable network -/

/-- the rows `(t, x₁, …, x_d)` of a non-stationary batch -/
def txRows (inside : List (ℚ × List ℚ)) : List (List ℚ) := inside.map fun tx => tx.1 :: tx.2

/-- the observation of `LossPDENonStatio.evaluate` around a separable network on the batch `inside`
    (rows `(t, x)`, `x` of `d` coordinates) as the model produces it: base run
    `lossNonStatioSpinnDyn`, the residual table over the tensor grid of the `1 + d` coordinate columns
    (time first), the re-evaluations as full runs of `lossNonStatioSpinnDyn` (on the row-permuted batch
    the normalisation and initial-condition terms are re-evaluated too; only the `dyn_loss` entry is
    read). -/
def modelObs03NonStatioSpinn (d : Nat) (dyn : Option (Weight × (List ℚ → List ℚ)))
    (norm : Option (ℚ × ℚ × (ℚ → List ℚ → List ℚ) × List (List ℚ))) (boundary : Option ℚ)
    (ic : Option (Weight × (List ℚ → List ℚ) × (List ℚ → List ℚ)))
    (inside inside' : List (ℚ × List ℚ)) (c : ℚ) (w2 : Weight) (tol : ℚ) : Obs03 :=
  let out := lossNonStatioSpinnDyn d dyn norm boundary ic inside
  { keys := pdeKeys
    total := out.1
    terms := pdeTermList out.2
    configured := cfgNames [("dyn_loss", dyn.isSome), ("initial_condition", ic.isSome),
      ("norm_loss", norm.isSome), ("boundary_loss", boundary.isSome)]
    dyn := dyn.map fun p =>
      modelDyn03Spinn
        (fun w' batch => (lossNonStatioSpinnDyn d (some (w', p.2)) norm boundary ic batch).2.dyn)
        p.1 ((gridPts (d + 1) (txRows inside)).map p.2) inside inside' c w2
    tol := tol }

/-- **`Holds.C03` holds on every observation of the model's `LossPDENonStatio.evaluate` around a
    separable network** (same generality; rows of `1 + d` coordinates, time first). -/
theorem holdsC03_model_nonstatio_spinn (d : Nat) (dyn : Option (Weight × (List ℚ → List ℚ)))
    (norm : Option (ℚ × ℚ × (ℚ → List ℚ → List ℚ) × List (List ℚ))) (boundary : Option ℚ)
    (ic : Option (Weight × (List ℚ → List ℚ) × (List ℚ → List ℚ)))
    (inside inside' : List (ℚ × List ℚ)) (hperm : inside.Perm inside') (c : ℚ) (w2 : Weight)
    (hw2 : ∀ p, dyn = some p → p.1.SameShape w2) (tol : ℚ) (htol : 0 ≤ tol) :
    holdsC03 (modelObs03NonStatioSpinn d dyn norm boundary ic inside inside' c w2 tol) = none := by
  unfold modelObs03NonStatioSpinn
  refine holdsC03_of_evalNonStatio (lossNonStatioSpinnDyn d dyn norm boundary ic inside) _ _ boundary none _
    rfl _ _ tol htol ?_ ?_ ?_ ?_ ?_ ?_
  · intro h
    have : dyn.isSome = true := by simpa using h
    rw [this]
    exact contains_cfgNames _ _ (by simp)
  · intro h
    have : norm.isSome = true := by simpa using h
    rw [this]
    exact contains_cfgNames _ _ (by simp)
  · intro h
    rw [h]
    exact contains_cfgNames _ _ (by simp)
  · intro h
    simp at h
  · intro h
    have : ic.isSome = true := by simpa using h
    rw [this]
    exact contains_cfgNames _ _ (by simp)
  · intro dd hd
    cases dyn with
    | none => simp at hd
    | some p =>
      obtain ⟨w, r⟩ := p
      simp only [Option.map_some, Option.some.injEq] at hd
      subst hd
      show DynOK tol (dynTerm w r (gridPts (d + 1) (txRows inside))) _
      exact modelDyn03Spinn_ok (fun b => gridPts (d + 1) (txRows b)) r _
        (fun w' batch => by simp [lossNonStatioSpinnDyn, evalNonStatio, evalStatio, txRows])
        w inside inside' (gridPts_perm (d + 1) (hperm.map _)) c w2 (hw2 (w, r) rfl) tol htol

/-! ### the observations above are read off full runs of `loss…SpinnDyn` -/

/-- every field of `modelObs03StatioSpinn` is what `lossStatioSpinnDyn` (the function
    `JinnsDriver/C03.lean` runs for `spinn`) returns: the base run for `total` / `terms`, a run with
    the re-configured weight or on the row-permuted batch for each metamorphic value; the residual
    table is the residual over `gridPts d inside`; no halves -/
theorem modelObs03StatioSpinn_reads (d : Nat) (w : Weight) (r : List ℚ → List ℚ)
    (norm : Option (ℚ × ℚ × (List ℚ → List ℚ) × List (List ℚ))) (boundary : Option ℚ)
    (inside inside' : List (List ℚ)) (c : ℚ) (w2 : Weight) (tol : ℚ) :
    let o := modelObs03StatioSpinn d (some (w, r)) norm boundary inside inside' c w2 tol
    let run := fun (w' : Weight) (b : List (List ℚ)) => (lossStatioSpinnDyn d (some (w', r)) norm boundary b).2.dyn
    o.total = (lossStatioSpinnDyn d (some (w, r)) norm boundary inside).1 ∧
    o.terms = pdeTermList (lossStatioSpinnDyn d (some (w, r)) norm boundary inside).2 ∧
    ∃ dd, o.dyn = some dd ∧ dd.residuals = (gridPts d inside).map r ∧
      dd.scaled = run (w.smul c) inside ∧ dd.withW2 = run w2 inside ∧
      dd.withSum = run (w.add w2) inside ∧ dd.permuted = run w inside' ∧ dd.halves = none :=
  ⟨rfl, rfl, _, rfl, rfl, rfl, rfl, rfl, rfl, rfl⟩

theorem modelObs03NonStatioSpinn_reads (d : Nat) (w : Weight) (r : List ℚ → List ℚ)
    (norm : Option (ℚ × ℚ × (ℚ → List ℚ → List ℚ) × List (List ℚ))) (boundary : Option ℚ)
    (ic : Option (Weight × (List ℚ → List ℚ) × (List ℚ → List ℚ)))
    (inside inside' : List (ℚ × List ℚ)) (c : ℚ) (w2 : Weight) (tol : ℚ) :
    let o := modelObs03NonStatioSpinn d (some (w, r)) norm boundary ic inside inside' c w2 tol
    let run := fun (w' : Weight) (b : List (ℚ × List ℚ)) =>
      (lossNonStatioSpinnDyn d (some (w', r)) norm boundary ic b).2.dyn
    o.total = (lossNonStatioSpinnDyn d (some (w, r)) norm boundary ic inside).1 ∧
    o.terms = pdeTermList (lossNonStatioSpinnDyn d (some (w, r)) norm boundary ic inside).2 ∧
    ∃ dd, o.dyn = some dd ∧
      dd.residuals = (gridPts (d + 1) (inside.map fun tx => tx.1 :: tx.2)).map r ∧
      dd.scaled = run (w.smul c) inside ∧ dd.withW2 = run w2 inside ∧
      dd.withSum = run (w.add w2) inside ∧ dd.permuted = run w inside' ∧ dd.halves = none :=
  ⟨rfl, rfl, _, rfl, rfl, rfl, rfl, rfl, rfl, rfl⟩

/-! ### non-vacuity: `d = 2`, a batch of 2 rows (4 grid points), a 2-component residual, vector weight -/

/-- the 4-point grid of the 2-row batch, and of the batch with its rows swapped -/
example : gridPts 2 [[(1 : ℚ), 10], [2, 20]] = [[1, 10], [1, 20], [2, 10], [2, 20]] ∧
    gridPts 2 [[(2 : ℚ), 20], [1, 10]] = [[2, 20], [2, 10], [1, 20], [1, 10]] := by
  constructor <;> simp [gridPts, columns, cart, List.range_succ, List.flatMap]

/-- stationary: per-component weight `[2, 1/2]`, second weight `[1, 3]`, scale `3/2`, residual
    `(x, y) ↦ [x + y, x − 1]`, normalisation and boundary configured; the hypotheses of
    `holdsC03_model_statio_spinn` are met -/
example :
    holdsC03 (modelObs03StatioSpinn 2
      (some (.vec [2, 1/2], fun p => [p.getD 0 0 + p.getD 1 0, p.getD 0 0 - 1]))
      (some (3, 2, fun p => [p.getD 0 0], [[1, 2], [3, 4]])) (some 5)
      [[1, 10], [2, 20]] [[2, 20], [1, 10]] (3/2) (.vec [1, 3]) 0) = none :=
  holdsC03_model_statio_spinn _ _ _ _ _ _ (List.Perm.swap _ _ _) _ _
    (by intro p hp; cases hp; simp [Weight.SameShape]) 0 (le_refl 0)

/-- … and that observation is not degenerate: four residual rows (the grid, not the two batch rows),
    dynamic term `2381/4`, all three terms configured -/
example :
    let o := modelObs03StatioSpinn 2
      (some (.vec [2, 1/2], fun p => [p.getD 0 0 + p.getD 1 0, p.getD 0 0 - 1]))
      (some (3, 2, fun p => [p.getD 0 0], [[1, 2], [3, 4]])) (some 5)
      [[1, 10], [2, 20]] [[2, 20], [1, 10]] (3/2) (.vec [1, 3]) 0
    o.configured = ["dyn_loss", "norm_loss", "boundary_loss"] ∧
    (o.dyn.map (·.residuals)) = some [[11, 0], [21, 0], [12, 1], [22, 1]] ∧
    (o.terms.lookup "dyn_loss") = some (2381 / 4) ∧
    (o.dyn.map (·.permuted)) = some (2381 / 4) ∧ (o.dyn.map (·.halves)) = some none := by
  have h : gridPts 2 [[(1 : ℚ), 10], [2, 20]] = [[1, 10], [1, 20], [2, 10], [2, 20]] := by
    simp [gridPts, columns, cart, List.range_succ, List.flatMap]
  have h' : gridPts 2 [[(2 : ℚ), 20], [1, 10]] = [[2, 20], [2, 10], [1, 20], [1, 10]] := by
    simp [gridPts, columns, cart, List.range_succ, List.flatMap]
  simp only [modelObs03StatioSpinn, modelDyn03Spinn, lossStatioSpinnDyn, evalStatio, pdeTermList, cfgNames,
    Option.map_some, h, h']
  norm_num [dynTerm, mean, wsq, sqr]

/-- non-stationary, `d = 1`: rows `(t, x)`, the grid of the time column × the space column (4 points),
    scalar weights, initial condition and boundary configured, positive tolerance -/
example :
    holdsC03 (modelObs03NonStatioSpinn 1
      (some (.scalar (5/2), fun p => [p.getD 0 0 * p.getD 1 0, p.getD 1 0 - 2]))
      none (some 2) (some (.scalar 1, fun p => [p.getD 0 0], fun _ => [0]))
      [(0, [3]), (1, [4])] [(1, [4]), (0, [3])] (-1/2) (.scalar 3) (1 / 1024)) = none :=
  holdsC03_model_nonstatio_spinn _ _ _ _ _ _ _ (List.Perm.swap _ _ _) _ _
    (by intro p hp; cases hp; simp [Weight.SameShape]) _ (by norm_num)

/-- no dynamic loss configured: the hypothesis on `w2` holds vacuously and `dyn_loss` is `0` -/
example :
    holdsC03 (modelObs03StatioSpinn 2 none none (some 7) [[1, 10], [2, 20]] [[2, 20], [1, 10]] 2
      (.scalar 1) 0) = none :=
  holdsC03_model_statio_spinn _ _ _ _ _ _ (List.Perm.swap _ _ _) _ _ (fun p hp => by simp at hp) 0
    (le_refl 0)


end Jinns.LossTerms
