/-
C18 — on non-finite parameters training stops and returns the last finite ones.

Theorems about `JinnsModel/SolveLoop.lean`, for every program (`update`, `nextBatch`, NaN predicate
`isNaN`, tracking, validation module), every `n` and every fault position `k`: the theorems only
use that the parameters produced by the update of iteration `k` satisfy `isNaN`, wherever the NaN
comes from (loss value, gradient of a network leaf or of an equation parameter, optimizer update).

* `nan_stops_training`      : first NaN produced by the update of iteration `k < n` ⇒ exactly `k+1`
  iterations run, the returned parameters are `θ_k` (the ones held just before; `θ_0` when `k = 0`),
  they are NaN-free, slots `0 … k` of the histories are the reference loop's, slots `> k` keep
  their initial content;
* `nan_history_entries`     : the same, entry by entry, against the reference loop run for `n`
  iterations;
* `nan_initial_params`      : NaN already in the initial parameters ⇒ no iteration runs, the initial
  parameters are returned, histories untouched;
* `nan_stops_training_no_validation` : the first statement without a validation module.
-/
import JinnsProofs.SolveLemmas

namespace Jinns.Solve
open Jinns.Validation

variable {Θ O G B V T P VS C : Type}
variable (pr : Prog Θ O G B V T P VS C)
variable (n : Nat) (θ0 : Θ) (opt0 : O) (g0 : G) (vs0 : Option VS)

/-- `k` is the first iteration whose update yields NaN parameters, and no validation invocation
    has requested a stop before it. -/
def FirstFaultAt (k : Nat) : Prop :=
  (∀ j, j ≤ k → pr.isNaN (θseq pr θ0 opt0 g0 j) = false) ∧
  pr.isNaN (θseq pr θ0 opt0 g0 (k + 1)) = true ∧
  (∀ j, j < k → stopReq pr θ0 opt0 g0 vs0 j = false)

theorem solve_eq_iter_fault (k : Nat) (hk : k < n) (h : FirstFaultAt pr θ0 opt0 g0 vs0 k) :
    solve pr n θ0 opt0 g0 vs0 = iter pr (k + 1) (init pr n θ0 opt0 g0 vs0) :=
  solve_eq_iter pr n θ0 opt0 g0 vs0 (k + 1) (by omega) (fun j hj => h.1 j (by omega))
    (fun j hj => h.2.2 j (by omega)) (Or.inr (Or.inl h.2.1))

theorem lastGoodRef_fault (k : Nat) (h : FirstFaultAt pr θ0 opt0 g0 vs0 k) :
    lastGoodRef pr θ0 opt0 g0 (k + 1) = θseq pr θ0 opt0 g0 k := by
  have e : lastGoodRef pr θ0 opt0 g0 (k + 1) = lastGoodRef pr θ0 opt0 g0 k := by
    simp [lastGoodRef, h.2.1]
  rw [e]
  exact lastGoodRef_of_finite pr θ0 opt0 g0 k (fun j _ hj => h.1 j hj)

/-- **C18, main statement.**  If the update of iteration `k < n` is the first to produce NaN
    parameters then exactly `k + 1` iterations run; the returned parameters are those held just
    before that update (`θ_k`; the initial ones for `k = 0`) and they are NaN-free; the first
    `k + 1` slots of the loss / term / tracked histories are those of the reference loop and the
    remaining `n − k − 1` slots keep their initial content. -/
theorem nan_stops_training (k : Nat) (hk : k < n) (h : FirstFaultAt pr θ0 opt0 g0 vs0 k) :
    let s := solve pr n θ0 opt0 g0 vs0
    let r := refLoop pr (k + 1) (refInit θ0 opt0 g0 : Ref Θ O G V T P)
    s.i = k + 1 ∧ s.lastGood = θseq pr θ0 opt0 g0 k ∧ pr.isNaN s.lastGood = false ∧
    (k = 0 → s.lastGood = θ0) ∧
    s.lossH = r.lossH ++ List.replicate (n - (k + 1)) pr.v0 ∧
    s.termH = r.termH ++ List.replicate (n - (k + 1)) pr.t0 ∧
    s.trackH = r.trackH ++ List.replicate (n - (k + 1)) pr.p0 := by
  intro s r
  have hs : s = iter pr (k + 1) (init pr n θ0 opt0 g0 vs0) :=
    solve_eq_iter_fault pr n θ0 opt0 g0 vs0 k hk h
  have hl : s.lastGood = θseq pr θ0 opt0 g0 k := by
    rw [hs, iter_init_lastGood, lastGoodRef_fault pr θ0 opt0 g0 vs0 k h]
  obtain ⟨h1, h2, h3⟩ := iter_init_hist pr n θ0 opt0 g0 vs0 (k + 1) (by omega)
  refine ⟨by rw [hs, iter_init_i], hl, by rw [hl]; exact h.1 k (Nat.le_refl _), ?_,
    by rw [hs]; exact h1, by rw [hs]; exact h2, by rw [hs]; exact h3⟩
  intro hk0; rw [hl, hk0]; rfl

/-- **Entry by entry**, against the reference loop run for the whole `n` iterations: slots
    `i ≤ k` agree with it, slots `k < i < n` hold the initial content. -/
theorem nan_history_entries (k : Nat) (hk : k < n) (h : FirstFaultAt pr θ0 opt0 g0 vs0 k) :
    let s := solve pr n θ0 opt0 g0 vs0
    let f := refLoop pr n (refInit θ0 opt0 g0 : Ref Θ O G V T P)
    (∀ i, i ≤ k → s.lossH[i]? = f.lossH[i]? ∧ s.termH[i]? = f.termH[i]? ∧
      s.trackH[i]? = f.trackH[i]?) ∧
    (∀ i, k < i → i < n → s.lossH[i]? = some pr.v0 ∧ s.termH[i]? = some pr.t0 ∧
      s.trackH[i]? = some pr.p0) := by
  intro s f
  obtain ⟨_, _, _, _, h1, h2, h3⟩ := nan_stops_training pr n θ0 opt0 g0 vs0 k hk h
  obtain ⟨l1, l2, l3⟩ := refLoop_init_lengths pr (k + 1) θ0 opt0 g0 (V := V) (T := T) (P := P)
  obtain ⟨t1, t2, t3⟩ := refLoop_take pr (k + 1) n (by omega) θ0 opt0 g0 (V := V) (T := T) (P := P)
  constructor
  · intro i hi
    refine ⟨?_, ?_, ?_⟩
    · rw [h1, List.getElem?_append_left (by omega), ← t1, List.getElem?_take_of_lt (by omega)]
    · rw [h2, List.getElem?_append_left (by omega), ← t2, List.getElem?_take_of_lt (by omega)]
    · rw [h3, List.getElem?_append_left (by omega), ← t3, List.getElem?_take_of_lt (by omega)]
  · intro i hi hin
    refine ⟨?_, ?_, ?_⟩
    · rw [h1, List.getElem?_append_right (by omega), l1, List.getElem?_replicate]
      simp; omega
    · rw [h2, List.getElem?_append_right (by omega), l2, List.getElem?_replicate]
      simp; omega
    · rw [h3, List.getElem?_append_right (by omega), l3, List.getElem?_replicate]
      simp; omega

/-- **NaN already in the initial parameters**: no iteration runs; the carry is the initial one
    (the initial parameters are returned, every history slot keeps its initial content). -/
theorem nan_initial_params (h : pr.isNaN θ0 = true) :
    solve pr n θ0 opt0 g0 vs0 = init pr n θ0 opt0 g0 vs0 ∧
    (solve pr n θ0 opt0 g0 vs0).i = 0 ∧ (solve pr n θ0 opt0 g0 vs0).lastGood = θ0 ∧
    (solve pr n θ0 opt0 g0 vs0).lossH = List.replicate n pr.v0 := by
  have hs : solve pr n θ0 opt0 g0 vs0 = iter pr 0 (init pr n θ0 opt0 g0 vs0) :=
    solve_eq_iter pr n θ0 opt0 g0 vs0 0 (Nat.zero_le _) (fun j hj => absurd hj (Nat.not_lt_zero _))
      (fun j hj => absurd hj (Nat.not_lt_zero _)) (Or.inr (Or.inl h))
  rw [hs]
  exact ⟨rfl, rfl, rfl, rfl⟩

/-- The main statement without a validation module: only the NaN hypotheses remain. -/
theorem nan_stops_training_no_validation (k : Nat) (hk : k < n)
    (hfin : ∀ j, j ≤ k → pr.isNaN (θseq pr θ0 opt0 g0 j) = false)
    (hnan : pr.isNaN (θseq pr θ0 opt0 g0 (k + 1)) = true) :
    let s := solve pr n θ0 opt0 g0 (none : Option VS)
    s.i = k + 1 ∧ s.lastGood = θseq pr θ0 opt0 g0 k ∧ pr.isNaN s.lastGood = false := by
  obtain ⟨h1, h2, h3, _⟩ := nan_stops_training pr n θ0 opt0 g0 (none : Option VS) k hk
    ⟨hfin, hnan, fun _ _ => rfl⟩
  exact ⟨h1, h2, h3⟩

/-! ### non-vacuity: a concrete program on integers whose parameters hit the "NaN" sentinel -/

section Example
/-- θ ← θ − batch with batches 0,1,2,…; `isNaN θ ↔ θ = 1000`.  From θ₀ = 1003:
    θ₁ = 1003, θ₂ = 1002, θ₃ = 1000 : the update of iteration 2 is the first to produce "NaN". -/
def toyNaN : Prog Int Nat Nat Int Int Int Int Nat Int :=
  { update := fun θ o b => ⟨θ - b, o + 1, θ * b, θ + b⟩,
    nextBatch := fun g => (g + 1, (g : Int)),
    isNaN := fun θ => θ == 1000,
    track := fun θ => 2 * θ,
    validate := fun v θ => ⟨v + 1, false, θ, true⟩,
    callEvery := 2, v0 := 0, t0 := 0, p0 := 0, c0 := 0 }

example : FirstFaultAt toyNaN 1003 0 0 (none : Option Nat) 2 := by
  refine ⟨by decide, by decide, fun _ _ => rfl⟩
example : (solve toyNaN 6 1003 0 0 none).i = 3 := by decide
example : (solve toyNaN 6 1003 0 0 none).lastGood = 1002 := by decide
example : (solve toyNaN 6 1003 0 0 none).θ = 1000 := by decide
example : (solve toyNaN 6 1003 0 0 none).lossH = [0, 1003, 2004, 0, 0, 0] := by decide
example : (solve toyNaN 6 1000 0 0 none).i = 0 := by decide
end Example

end Jinns.Solve
