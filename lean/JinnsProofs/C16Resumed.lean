/-
C16 — resumed runs.  When the generator returned by a first `jinns.solve` is handed to a second one,
`init_rar` leaves the refinement state (`rar_iter_nb`, `rar_iter_from_last_sampling`, `p_times`,
`p_omega`) untouched and the iteration number restarts at 0.  The theorems of `JinnsProofs/C16.lean` are
about a run from `init c` with the iteration numbers 0, 1, 2, …; here the model's trigger is run from ANY
state whose probabilities have the closed form (`MaskOK`) over ANY list of iteration numbers (not
necessarily consecutive, increasing or starting at 0), and the records it produces are shown to satisfy
the counting clauses of the property, `Holds.holdsC16Resumed`; `MaskOK` is preserved, so runs chain.
-/
import JinnsModel.RarSchedule
import JinnsModel.HoldsC16
import JinnsProofs.C16

namespace Jinns.Rar
open Jinns.Holds

/-! ### the trigger over an arbitrary list of iteration numbers -/

/-- state after one `trigger_rar(i, …)` per element `i` of `is`, in order, from state `s` -/
def runOver (c : Cfg) : St → List Nat → St
  | s, [] => s
  | s, i :: is => runOver c (trigger c s i) is

/-- the observable records of these calls (same record as `traceFrom` builds) -/
def traceOver (c : Cfg) : St → List Nat → List Obs
  | _, [] => []
  | s, i :: is =>
    { stepped := proceed c s i, st := trigger c s i } :: traceOver c (trigger c s i) is

theorem runOver_eq_foldl (c : Cfg) (is : List Nat) : ∀ s, runOver c s is = is.foldl (trigger c) s := by
  induction is with
  | nil => intro s; rfl
  | cons i is ih => intro s; simp [runOver, ih]

@[simp] theorem length_traceOver (c : Cfg) (is : List Nat) : ∀ s, (traceOver c s is).length = is.length := by
  induction is with
  | nil => intro s; rfl
  | cons i is ih => intro s; simp [traceOver, ih]

theorem runOver_append (c : Cfg) (is js : List Nat) :
    ∀ s, runOver c s (is ++ js) = runOver c (runOver c s is) js := by
  induction is with
  | nil => intro s; rfl
  | cons i is ih => intro s; simp [runOver, ih]

theorem traceOver_append (c : Cfg) (is js : List Nat) :
    ∀ s, traceOver c s (is ++ js) = traceOver c s is ++ traceOver c (runOver c s is) js := by
  induction is with
  | nil => intro s; rfl
  | cons i is ih => intro s; simp [traceOver, runOver, ih]

/-- the records of the consecutive iterations `i, i+1, …, i+k-1` (what `traceFrom` / `trace` build) are
    the special case `is = [i, i+1, …]` -/
theorem traceFrom_eq_traceOver (c : Cfg) (k : Nat) :
    ∀ s i, traceFrom c s i k = traceOver c s (List.range' i k) := by
  induction k with
  | zero => intro s i; rfl
  | succ k ih => intro s i; simp [traceFrom, traceOver, List.range'_succ, ih]

/-- `runSchedule` is the special case `s = init c`, `is = [0, …, n-1]`; more generally the iterations
    `n, …, n+k-1` of one `solve` continue `runSchedule c n` -/
theorem runSchedule_add (c : Cfg) (n k : Nat) :
    runSchedule c (n + k) = runOver c (runSchedule c n) (List.range' n k) := by
  induction k with
  | zero => rfl
  | succ k ih =>
    rw [← Nat.add_assoc, runSchedule, ih, List.range'_concat, runOver_append]
    simp [runOver]

/-! ### the mask invariant does not depend on the iteration number -/

/-- **generalisation of the mask part of `inv_trigger`**: one trigger with ANY iteration number keeps the
    probabilities in closed form (non-zero exactly on the prefix `n_start + steps·selected`, within the
    store). -/
theorem maskOK_trigger {c : Cfg} {s : St} (m : MaskOK c s) (i : Nat) : MaskOK c (trigger c s i) := by
  unfold trigger
  by_cases hp : proceed c s i = true
  · rw [if_pos hp]; exact maskOK_stepTrue m ((proceed_iff m i).1 hp).2.2
  · rw [if_neg hp]; exact maskOK_stepFalse m i

/-- **`MaskOK` is preserved along any list of iteration numbers** (so resumed runs can be chained). -/
theorem maskOK_runOver {c : Cfg} (is : List Nat) : ∀ {s : St}, MaskOK c s → MaskOK c (runOver c s is) := by
  induction is with
  | nil => intro s m; exact m
  | cons i is ih => intro s m; exact ih (maskOK_trigger m i)

theorem steps_trigger (c : Cfg) (s : St) (i : Nat) :
    (trigger c s i).steps = if proceed c s i then s.steps + 1 else s.steps := by
  unfold trigger; split <;> simp [stepTrue, stepFalse]

/-- one trigger of the model, with any iteration number, passes the counting clauses -/
theorem c16StepCounts_model {c : Cfg} {s : St} (m : MaskOK c s) (i : Nat) :
    c16StepCounts c s.steps (recOfObs c { stepped := proceed c s i, st := trigger c s i })
      = .ok (trigger c s i).steps := by
  have hnext := maskOK_trigger m i
  have hsteps := steps_trigger c s i
  have hcT : c.kind.hasT = true → active (trigger c s i).pT = c.ntStart + (trigger c s i).steps * c.selT ∧
      c.ntStart + (trigger c s i).steps * c.selT ≤ c.nt := by
    intro hk; obtain ⟨e, l⟩ := hnext.1 hk; exact ⟨by rw [e]; exact active_prefixMask l, l⟩
  have hcX : c.kind.hasX = true → active (trigger c s i).pX = c.nStart + (trigger c s i).steps * c.selX ∧
      c.nStart + (trigger c s i).steps * c.selX ≤ c.n := by
    intro hk; obtain ⟨e, l⟩ := hnext.2 hk; exact ⟨by rw [e]; exact active_prefixMask l, l⟩
  have hfit : proceed c s i = true → fits c s.steps = true := fun hp => ((proceed_iff m i).1 hp).2.2
  unfold c16StepCounts recOfObs
  simp only [roomAll_eq_fits]
  cases hp : proceed c s i with
  | true =>
    rw [hp] at hsteps
    simp only [if_true] at hsteps
    simp only [hfit hp, Bool.not_true, Bool.and_false, Bool.false_eq_true, if_false, if_true]
    exact c16Step_tail c (hsteps ▸ rfl) hcT hcX
  | false =>
    rw [hp] at hsteps
    simp only [Bool.false_eq_true, if_false] at hsteps
    simp only [Bool.false_and, Bool.false_eq_true, if_false]
    exact c16Step_tail c (hsteps ▸ rfl) hcT hcX

theorem c16ScanCounts_model {c : Cfg} (is : List Nat) :
    ∀ {s : St}, MaskOK c s →
      c16ScanCounts c s.steps ((traceOver c s is).map (recOfObs c)) = none := by
  induction is with
  | nil => intro s _; simp [traceOver, c16ScanCounts]
  | cons i is ih =>
    intro s m
    simp only [traceOver, List.map_cons, c16ScanCounts, c16StepCounts_model m i]
    exact ih (maskOK_trigger m i)

/-! ### the property theorems -/

/-- **the resumed-run property of the model**: from every state `s` whose probabilities have the closed
    form (`MaskOK c s`: every state reached by `runSchedule c n` for a well-formed `c`, and every state
    reached after that by further triggers) and for EVERY list of iteration numbers `is` (arbitrary — a
    second `solve` restarts at 0), the records of the model's triggers satisfy the counting clauses of the
    property with the step count carried over (`J0 = s.steps`): no step beyond capacity, `rar_iter_nb` =
    total number of steps, active counts `n_start + J·selected` within the store; and `MaskOK` holds again
    at the end.  (`WF c` is not needed here: `MaskOK` already carries the bounds the clauses use; it is
    needed to ESTABLISH `MaskOK`, see `resumed_after_run`.) -/
theorem holdsC16Resumed_model {c : Cfg} {s : St} (m : MaskOK c s) (is : List Nat) :
    holdsC16Resumed c s.steps ((traceOver c s is).map (recOfObs c)) = none ∧
    MaskOK c (runOver c s is) :=
  ⟨c16ScanCounts_model is m, maskOK_runOver is m⟩

/-- **a run resumed after `n` iterations of a first `solve`**: for every well-formed configuration, every
    `n` and every list of iteration numbers, the continuation satisfies `holdsC16Resumed` with
    `J0 = (runSchedule c n).steps`. -/
theorem resumed_after_run {c : Cfg} (w : WF c) (n : Nat) (is : List Nat) :
    holdsC16Resumed c (runSchedule c n).steps
      ((traceOver c (runSchedule c n) is).map (recOfObs c)) = none :=
  (holdsC16Resumed_model (inv_run w n).1 is).1

/-- **any number of chained runs**: after a first run of `n` iterations and any sequence of further runs
    (each its own list of iteration numbers), the next one still satisfies `holdsC16Resumed` with the step
    count reached so far. -/
theorem resumed_chain {c : Cfg} (w : WF c) (n : Nat) (runs : List (List Nat)) (is : List Nat) :
    let s := runOver c (runSchedule c n) runs.flatten
    holdsC16Resumed c s.steps ((traceOver c s is).map (recOfObs c)) = none ∧
    MaskOK c (runOver c s is) :=
  holdsC16Resumed_model (maskOK_runOver _ (inv_run w n).1) is

/-- **the capacity is never exceeded in a resumed run**, and the step count never decreases. -/
theorem resumed_steps_bounds {c : Cfg} (w : WF c) {s : St} (m : MaskOK c s) (is : List Nat) :
    s.steps ≤ (runOver c s is).steps ∧ (runOver c s is).steps ≤ cap c := by
  refine ⟨?_, steps_le_cap_of_maskOK w (maskOK_runOver is m)⟩
  clear m
  induction is generalizing s with
  | nil => exact Nat.le_refl _
  | cons i is ih =>
    have h1 := steps_trigger c s i
    have h2 := ih (s := trigger c s i)
    simp only [runOver]
    split at h1 <;> omega

/-- **active counts in a resumed run**: after the continuation exactly `n_start + J·selected` entries of
    each owned store are non-zero, `J` the total number of steps, and they fit in the store. -/
theorem resumed_active_counts {c : Cfg} {s : St} (m : MaskOK c s) (is : List Nat) :
    let s' := runOver c s is
    (c.kind.hasT = true → active s'.pT = c.ntStart + s'.steps * c.selT ∧ active s'.pT ≤ c.nt) ∧
    (c.kind.hasX = true → active s'.pX = c.nStart + s'.steps * c.selX ∧ active s'.pX ≤ c.n) := by
  have m' := maskOK_runOver is m
  constructor
  · intro h
    obtain ⟨e, l⟩ := m'.1 h
    have : active (runOver c s is).pT = c.ntStart + (runOver c s is).steps * c.selT := by
      rw [e]; exact active_prefixMask l
    exact ⟨this, by omega⟩
  · intro h
    obtain ⟨e, l⟩ := m'.2 h
    have : active (runOver c s is).pX = c.nStart + (runOver c s is).steps * c.selX := by
      rw [e]; exact active_prefixMask l
    exact ⟨this, by omega⟩

/-! ### non-vacuity -/

/-- the ODE configuration nt = 8, nt_start = 2, selected = 2, start_iter = 1, update_every = 2
    (capacity 3) -/
def exOde : Cfg :=
  { kind := .ode, start := 1, every := 2, nt := 8, ntStart := 2, selT := 2, n := 0, nStart := 0, selX := 0 }

theorem exOde_wf : WF exOde :=
  ⟨by decide, fun _ => by decide, fun h => absurd h (by decide), fun _ => by decide,
   fun h => absurd h (by decide)⟩

example : cap exOde = 3 := by decide
/-- first run, 4 iterations: steps at iterations 1 and 3 -/
example : (runSchedule exOde 4).steps = 2 ∧ active (runSchedule exOde 4).pT = 6 := by decide
/-- the hypothesis `MaskOK` of `holdsC16Resumed_model` is met by that state -/
example : MaskOK exOde (runSchedule exOde 4) := (inv_run exOde_wf 4).1
/-- the second run (iteration numbers restart at 0) makes the third step at its iteration 3; the count is
    carried over (2, 2, 2, 3, 3), the store gets full (8 of 8) -/
example : ((traceOver exOde (runSchedule exOde 4) [0, 1, 2, 3, 4]).map (recOfObs exOde)).map
      (fun r => (r.stepped, r.iterNb, r.cntT, r.cntX)) =
    [(false, 2, some 6, none), (false, 2, some 6, none), (false, 2, some 6, none),
     (true, 3, some 8, none), (false, 3, some 8, none)] := by decide
example : holdsC16Resumed exOde (runSchedule exOde 4).steps
    ((traceOver exOde (runSchedule exOde 4) [0, 1, 2, 3, 4]).map (recOfObs exOde)) = none :=
  resumed_after_run exOde_wf 4 [0, 1, 2, 3, 4]
/-- a third run (again from 0) finds the store full: no step, count stays 3 = capacity -/
example : (runOver exOde (runSchedule exOde 4) ([0, 1, 2, 3, 4] ++ [0, 1, 2, 3, 4])).steps = 3 := by decide
/-- `holdsC16Resumed` is not vacuous: a continuation whose step count restarts from 0 is rejected … -/
example : holdsC16Resumed exOde 2 [
    { stepped := false, iterNb := 0, cntT := some 2, cntX := none }] = some "step-count" := by decide
/-- … so is one whose probabilities were reset to the initial set while the count was kept … -/
example : holdsC16Resumed exOde 2 [
    { stepped := false, iterNb := 2, cntT := some 2, cntX := none }] = some "active-count-times" := by decide
/-- … and a step taken although the store is full (a fourth step) -/
example : holdsC16Resumed exOde 3 [
    { stepped := true, iterNb := 4, cntT := some 8, cntX := none }] = some "step-beyond-capacity" := by decide
/-- `traceOver` over `[0, …, n-1]` from `init c` is the trace of a fresh run -/
example : (trace exOde 4) = traceOver exOde (init exOde) [0, 1, 2, 3] :=
  traceFrom_eq_traceOver exOde 4 (init exOde) 0

end Jinns.Rar
