/-
C15 — observation and parameter loaders keep rows aligned with the user's tables.
Property theorems about `JinnsModel/Loaders.lean`, for all tables (sizes, column counts, 1-D or
2-D inputs, any number of observed parameters), batch sizes, oracle (PRNG) sequences and all
histories of `get_batch`.
-/
import JinnsModel.Loaders
import JinnsModel.HoldsC15
import JinnsProofs.C09
import JinnsProofs.C08

namespace Jinns.Loaders
open Jinns.Minibatch Jinns.Domain

/-! ### observation loader: construction -/

theorem lift_length {t : Tbl} {x : List (List Rat)} (h : t.lift = some x) : x.length = t.len := by
  cases t with
  | d1 v => simp [Tbl.lift] at h; subst h; simp [Tbl.len]
  | d2 rows c => simp [Tbl.lift] at h; subst h; simp [Tbl.len]
  | hi n d => simp [Tbl.lift] at h

theorem liftAll_lengths {l : List (String × Tbl)} {n : Nat} {xs : List (String × List (List Rat))}
    (h : liftAll l = some xs) (hn : ∀ kt ∈ l, kt.2.len = n) : ∀ kx ∈ xs, kx.2.length = n := by
  induction l generalizing xs with
  | nil => simp [liftAll] at h; subst h; simp
  | cons kt r ih =>
    obtain ⟨k, t⟩ := kt
    simp only [liftAll] at h
    cases ht : t.lift with
    | none => simp [ht] at h
    | some x =>
      cases hr : liftAll r with
      | none => simp [ht, hr] at h
      | some xr =>
        simp [ht, hr] at h
        subst h
        intro kx hkx
        simp only [List.mem_cons] at hkx
        rcases hkx with rfl | hkx
        · simp only; rw [lift_length ht]; exact hn (k, t) List.mem_cons_self
        · exact ih hr (fun kt hkt => hn kt (List.mem_cons_of_mem _ hkt)) kx hkx

/-- What a successful `DataGeneratorObservations.__post_init__` built: the three tables lifted to
    2-D, all with the same number `n` of rows, and a fresh cursor on `0..n-1`. -/
theorem mkObs_ok {a : ObsArgs} {g : Obs} (h : mkObs a = .ok g) :
    a.pin.lift = some g.pin ∧ a.val.lift = some g.val ∧ liftAll a.eq = some g.eq ∧
    g.b = a.b ∧ g.pin.length = g.n ∧ g.val.length = g.n ∧ (∀ kx ∈ g.eq, kx.2.length = g.n) ∧
    g.cur = Minibatch.init (List.range g.n) a.b := by
  unfold mkObs at h
  split at h
  · cases h
  · rename_i h1
    split at h
    · cases h
    · rename_i h2
      split at h
      · rename_i pin val eq hp hv he
        injection h with h; subst h
        have h1' : a.pin.len = a.val.len := by simpa using h1
        have hpl := lift_length hp
        have hvl := lift_length hv
        refine ⟨hp, hv, he, rfl, rfl, by simp only; omega, ?_, rfl⟩
        apply liftAll_lengths he
        intro kt hkt
        have := h2
        simp only [List.any_eq_true, not_exists, not_and, bne_iff_ne, ne_eq, Decidable.not_not] at this
        rw [this kt hkt]; simp only; omega
      · cases h

/-- The constructor's rejections: tables of different lengths, or any table of rank ≥ 3. -/
theorem mkObs_reject (a : ObsArgs)
    (h : a.pin.len ≠ a.val.len ∨ (∃ kt ∈ a.eq, kt.2.len ≠ a.pin.len) ∨
         a.pin.lift = none ∨ a.val.lift = none ∨ liftAll a.eq = none) :
    mkObs a = .error .valueError := by
  unfold mkObs
  by_cases h1 : a.pin.len ≠ a.val.len
  · rw [if_pos h1]
  · rw [if_neg h1]
    by_cases h2 : (a.eq.any fun kt => kt.2.len != a.pin.len) = true
    · rw [if_pos h2]
    · rw [if_neg h2]
      rcases h with h | h | h | h | h
      · exact absurd h h1
      · exfalso; apply h2
        obtain ⟨kt, hkt, hne⟩ := h
        exact List.any_eq_true.2 ⟨kt, hkt, by simpa using hne⟩
      · simp [h]
      · cases hp : a.pin.lift <;> simp [h]
      · cases hp : a.pin.lift <;> cases hv : a.val.lift <;> simp [h]

/-- **Both input shapes give the same loader**: a 1-D table `(n,)` and the same data as a column
    `(n, 1)` are indistinguishable after construction (same for the value table). -/
theorem mkObs_1d_eq_column (a : ObsArgs) (v w : List Rat) :
    mkObs { a with pin := .d1 v, val := .d1 w } =
      mkObs { a with pin := .d2 (v.map fun x => [x]) 1, val := .d2 (w.map fun x => [x]) 1 } := by
  simp only [mkObs, Tbl.len, Tbl.lift, List.length_map]
  rfl

/-! ### observation loader: batches -/

/-- `obs_batch` leaves the tables alone: only the cursor moves. -/
theorem obsNext_tables (g : Obs) (o : List Nat) :
    (obsNext g o).1.pin = g.pin ∧ (obsNext g o).1.val = g.val ∧ (obsNext g o).1.eq = g.eq ∧
    (obsNext g o).1.n = g.n ∧ (obsNext g o).1.b = g.b ∧
    (obsNext g o).1.cur = (Minibatch.next g.n g.cur o).1 := ⟨rfl, rfl, rfl, rfl, rfl, rfl⟩

/-- **Every history of `get_batch`**: the batches are `batchOf` of the index batches that the C09
    cursor serves on the index vector — one slice gathers all the tables (so every C09 theorem
    about epochs applies to the served row numbers). -/
theorem obsRun_eq_map (g : Obs) (os : List (List Nat)) :
    (obsRun g os).2 = (Minibatch.run g.n g.cur os).2.map (batchOf g) := by
  induction os generalizing g with
  | nil => simp [obsRun, Minibatch.run]
  | cons o os ih =>
    simp only [obsRun, Minibatch.run, List.map_cons]
    rw [ih]
    rfl

/-- **Row alignment**: row `r` of a batch gathered with the index slice `idx` is row `idx[r]` of the
    input table, of the value table and of every observed-parameter table — the same original row. -/
theorem batchOf_row (g : Obs) (idx : List Nat) (r : Nat) (hr : r < idx.length) :
    (batchOf g idx).pin[r]? = some (g.pin.getD idx[r] []) ∧
    (batchOf g idx).val[r]? = some (g.val.getD idx[r] []) ∧
    (batchOf g idx).eq.map (·.1) = g.eq.map (·.1) ∧
    ∀ j (hj : j < g.eq.length),
      ((batchOf g idx).eq[j]?).map (fun kt => kt.2[r]?) = some (some (g.eq[j].2.getD idx[r] [])) := by
  refine ⟨by simp [batchOf, gather, hr], by simp [batchOf, gather, hr], by simp [batchOf], ?_⟩
  intro j hj
  simp [batchOf, gather, hr, hj]

/-- The index batches of any history contain only valid row numbers and have `b` entries. -/
theorem index_batches_valid (n b : Nat) (hb : b ≤ n) (os : List (List Nat))
    (hos : ∀ o ∈ os, o.Perm (List.range n)) :
    ∀ idx ∈ (Minibatch.run n (Minibatch.init (List.range n) b) os).2,
      idx.length = b ∧ ∀ i ∈ idx, i < n := by
  have := batches_of_perm_history (fun i => i < n) (List.range n) b (by simpa using hb)
    (fun p hp => List.mem_range.1 hp) os hos
  simpa using this

/-- **C15, observations, all histories**: every batch ever served is `(IN[idx], VAL[idx], EQ_k[idx])`
    for one list `idx` of `b` valid original row numbers. -/
theorem obs_history {a : ObsArgs} {g : Obs} (h : mkObs a = .ok g) (hb : a.b ≤ g.n)
    (os : List (List Nat)) (hos : ∀ o ∈ os, o.Perm (List.range g.n)) :
    ∀ bt ∈ (obsRun g os).2, ∃ idx : List Nat,
      idx.length = a.b ∧ (∀ i ∈ idx, i < g.n) ∧ bt = batchOf g idx := by
  intro bt hbt
  rw [obsRun_eq_map, (mkObs_ok h).2.2.2.2.2.2.2] at hbt
  obtain ⟨idx, hidx, rfl⟩ := List.mem_map.1 hbt
  have := index_batches_valid g.n a.b hb os hos idx hidx
  exact ⟨idx, this.1, this.2, rfl⟩

/-! ### parameter loader -/

/-- **The user's table has priority**: when a key has user data, its store does not depend on the
    key's range, on the sampling method or on the PRNG. -/
theorem paramStore_user_priority (n : Nat) (m m' : String) (k : ParamKey) (t : Tbl)
    (hu : k.user = some t) (r' : Option (Rat × Rat)) (o o' : List Rat) :
    paramStore n m k o = paramStore n m' { k with range := r' } o' := by
  unfold paramStore
  simp only [hu]
  cases t <;> rfl

/-- **Both documented shapes are accepted and give the same store** (`(n,)` is lifted to `(n, 1)`). -/
theorem paramStore_shapes (n : Nat) (m : String) (name : String) (rg : Option (Rat × Rat))
    (v : List Rat) (o : List Rat) (hv : v.length = n) :
    paramStore n m { name := name, range := rg, user := some (.d1 v) } o = .ok (v.map fun x => [x]) ∧
    paramStore n m { name := name, range := rg, user := some (.d2 (v.map fun x => [x]) 1) } o
      = .ok (v.map fun x => [x]) := by
  simp [paramStore, hv]

/-- … **and every other shape is rejected** (`ValueError`): wrong length, more than one column,
    rank ≥ 3. -/
theorem paramStore_reject_shape (n : Nat) (m : String) (name : String) (rg : Option (Rat × Rat))
    (o : List Rat) :
    (∀ v : List Rat, v.length ≠ n →
      paramStore n m { name := name, range := rg, user := some (.d1 v) } o = .error .valueError) ∧
    (∀ rows c, (rows.length ≠ n ∨ c ≠ 1) →
      paramStore n m { name := name, range := rg, user := some (.d2 rows c) } o = .error .valueError) ∧
    (∀ k d, paramStore n m { name := name, range := rg, user := some (.hi k d) } o = .error .valueError) := by
  refine ⟨fun v hv => by simp [paramStore, hv], fun rows c h => ?_, fun k d => rfl⟩
  simp only [paramStore]
  rw [if_neg]
  rintro ⟨h1, h2⟩
  rcases h with h | h
  · exact h h1
  · exact h h2

/-- **Each key's samples lie in that key's own range** (grid: arithmetic; uniform: sampler
    contract), and there are exactly `n` of them, one column. -/
theorem paramStore_range (n : Nat) (m : String) (k : ParamKey) (lo hi : Rat) (o : List Rat)
    (s : List (List Rat)) (hu : k.user = none) (hr : k.range = some (lo, hi)) (hle : lo ≤ hi)
    (h : paramStore n m k o = .ok s) :
    s.length = n ∧ ∀ row ∈ s, ∃ v, row = [v] ∧ inIcc lo hi v = true := by
  unfold paramStore at h
  simp only [hu, hr] at h
  split at h
  · injection h with h; subst h
    refine ⟨by simp [gridStore_length], ?_⟩
    intro row hrow
    obtain ⟨v, hv, rfl⟩ := List.mem_map.1 hrow
    exact ⟨v, rfl, gridStore_mem lo hi n hle v hv⟩
  · split at h
    · split at h
      · rename_i hc
        injection h with h; subst h
        refine ⟨by simp [hc.1], ?_⟩
        intro row hrow
        obtain ⟨v, hv, rfl⟩ := List.mem_map.1 hrow
        exact ⟨v, rfl, List.all_eq_true.1 hc.2 v hv⟩
      · cases h
    · cases h

theorem mkParam_reject_batch (n b : Nat) (m : String) (keys : List (ParamKey × List Rat)) (h : n < b) :
    mkParam n b m keys = .error .valueError := by
  simp [mkParam, h]

/-- The stores built by a successful constructor are, key by key and in order, `paramStore` of that
    key with that key's own oracle. -/
theorem paramStores_ok {n : Nat} {m : String} {keys : List (ParamKey × List Rat)}
    {ss : List (String × List (List Rat))} (h : paramStores n m keys = .ok ss) :
    ss.length = keys.length ∧
    ∀ j (hj : j < keys.length) (hj' : j < ss.length),
      ss[j].1 = keys[j].1.name ∧ paramStore n m keys[j].1 keys[j].2 = .ok ss[j].2 := by
  induction keys generalizing ss with
  | nil => simp [paramStores] at h; subst h; simp
  | cons ko r ih =>
    obtain ⟨k, o⟩ := ko
    simp only [paramStores] at h
    cases hk : paramStore n m k o with
    | error e => cases hr : paramStores n m r <;> simp [hk, hr] at h
    | ok s =>
      cases hr : paramStores n m r with
      | error e => simp [hk, hr] at h
      | ok sr =>
        simp [hk, hr] at h
        subst h
        have := ih hr
        refine ⟨by simp [this.1], ?_⟩
        intro j hj hj'
        cases j with
        | zero => exact ⟨rfl, hk⟩
        | succ j =>
          simp only [List.getElem_cons_succ]
          exact this.2 j (by simpa using hj) (by simpa using hj')

/-- **Per-key batches, all histories**: every batch of a key has `b` rows, all of them rows of that
    key's own store — hence of the user's table for a user key, in the key's own range otherwise. -/
theorem param_history (store : List (List Rat)) (b : Nat) (hb : b ≤ store.length)
    (os : List (List (List Rat))) (hos : ∀ o ∈ os, o.Perm store) :
    ∀ bt ∈ (Minibatch.run store.length (Minibatch.init store b) os).2,
      bt.length = b ∧ ∀ row ∈ bt, row ∈ store :=
  batches_of_perm_history (fun row => row ∈ store) store b hb (fun _ h => h) os hos

theorem param_history_range (n : Nat) (m : String) (k : ParamKey) (lo hi : Rat) (o : List Rat)
    (s : List (List Rat)) (hu : k.user = none) (hr : k.range = some (lo, hi)) (hle : lo ≤ hi)
    (h : paramStore n m k o = .ok s) (b : Nat) (hb : b ≤ n)
    (os : List (List (List Rat))) (hos : ∀ o ∈ os, o.Perm s) :
    ∀ bt ∈ (Minibatch.run s.length (Minibatch.init s b) os).2,
      bt.length = b ∧ ∀ row ∈ bt, ∃ v, row = [v] ∧ inIcc lo hi v = true := by
  have hs := paramStore_range n m k lo hi o s hu hr hle h
  intro bt hbt
  have := param_history s b (by rw [hs.1]; exact hb) os hos bt hbt
  exact ⟨this.1, fun row hrow => hs.2 row (this.2 row hrow)⟩

/-! ### multi-network loader -/

/-- what `mkNets` built, entry by entry -/
def NetsBuilt (b : Nat) : List NetArgs → List (String × Option Obs) → Prop
  | [], [] => True
  | a :: as, g :: gs =>
    (g.1 = a.name ∧ (g.2 = none ↔ a.pin = none) ∧
      ∀ ob, g.2 = some ob → ∃ pin val, a.pin = some pin ∧ a.val = some val ∧
        mkObs { b := b, pin := pin, val := val, eq := a.eq } = .ok ob) ∧ NetsBuilt b as gs
  | _, _ => False

/-- **One loader per network with data, none for the others**, in the order of the networks. -/
theorem mkNets_ok (b : Nat) (nets : List NetArgs) (gs : List (String × Option Obs))
    (h : mkNets b nets = .ok gs) : NetsBuilt b nets gs := by
  induction nets generalizing gs with
  | nil => simp [mkNets] at h; subst h; trivial
  | cons a r ih =>
    simp only [mkNets] at h
    cases hp : a.pin with
    | none =>
      simp only [hp] at h
      cases hr : mkNets b r with
      | error e => simp [hr, bind, Except.bind] at h
      | ok rs =>
        simp [hr, bind, Except.bind, pure, Except.pure] at h
        subst h
        rw [NetsBuilt]
        exact ⟨⟨rfl, by simp [hp], by simp⟩, ih rs hr⟩
    | some pin =>
      simp only [hp] at h
      cases hv : a.val with
      | none => simp [hv] at h
      | some val =>
        simp only [hv] at h
        cases ho : mkObs { b := b, pin := pin, val := val, eq := a.eq } with
        | error e => simp [ho] at h
        | ok g =>
          simp only [ho] at h
          cases hr : mkNets b r with
          | error e => simp [hr, bind, Except.bind] at h
          | ok rs =>
            simp [hr, bind, Except.bind, pure, Except.pure] at h
            subst h
            rw [NetsBuilt]
            refine ⟨⟨rfl, by simp [hp], ?_⟩, ih rs hr⟩
            intro ob hob
            simp only [Option.some.injEq] at hob
            subst hob
            exact ⟨pin, val, hp, hv, ho⟩

/-- The dictionaries must be given and have the same key sets, else `ValueError`. -/
theorem mkMulti_reject (b : Nat) (pg vg : Bool) (pk vk : List String) (ek : Option (List String))
    (nets : List NetArgs)
    (h : pg = false ∨ vg = false ∨ pk.isPerm vk = false ∨ (∃ e, ek = some e ∧ pk.isPerm e = false)) :
    ∃ e, mkMulti b pg vg pk vk ek nets = .error e ∧ e.name = "value_error" := by
  unfold mkMulti
  rcases h with h | h | h | ⟨e, he, h⟩
  · exact ⟨.err .valueError, by simp [h], rfl⟩
  · exact ⟨.err .valueError, by simp [h], rfl⟩
  · by_cases h0 : (!pg || !vg) = true
    · exact ⟨.err .valueError, by rw [if_pos h0], rfl⟩
    · exact ⟨.err .valueError, by rw [if_neg h0]; simp [h], rfl⟩
  · by_cases h0 : (!pg || !vg) = true
    · exact ⟨.err .valueError, by rw [if_pos h0], rfl⟩
    · by_cases h1 : (!pk.isPerm vk) = true
      · exact ⟨.err .valueError, by rw [if_neg h0, if_pos h1], rfl⟩
      · exact ⟨.err .valueError, by rw [if_neg h0, if_neg h1, he]; simp [h], rfl⟩

/-- one entry of a multi-network batch, as a function of the loader and its oracle -/
def entryOf (kg : String × Option Obs) (o : List Nat) : String × Option ObsBatch :=
  (kg.1, kg.2.map fun g => (obsNext g o).2)

/-- **Multi-network batches**: entry `j` is the aligned batch of network `j`'s own loader when it
    has data, and empty otherwise — for every state and every oracle list. -/
theorem multiNext_spec (gs : List (String × Option Obs)) (os : List (List Nat))
    (hl : os.length = gs.length) :
    (multiNext gs os).2 = List.zipWith entryOf gs os ∧
    (multiNext gs os).1 = List.zipWith (fun kg o => (kg.1, kg.2.map fun g => (obsNext g o).1)) gs os := by
  induction gs generalizing os with
  | nil => simp [multiNext]
  | cons kg r ih =>
    obtain ⟨k, g⟩ := kg
    cases os with
    | nil => simp at hl
    | cons o os =>
      have := ih os (by simpa using hl)
      cases g with
      | none => simp [multiNext, entryOf, this.1, this.2]
      | some g => simp [multiNext, entryOf, this.1, this.2]

/-- An entry is empty **exactly** for the networks declared without data. -/
theorem multi_entry_empty_iff (kg : String × Option Obs) (o : List Nat) :
    (entryOf kg o).2 = none ↔ kg.2 = none := by
  simp [entryOf]

/-- … and a non-empty entry is the aligned batch of that network's loader (so `obs_history` /
    `batchOf_row` apply to it). -/
theorem multi_entry_aligned (k : String) (g : Obs) (o : List Nat) :
    (entryOf (k, some g) o).2 = some (batchOf g (Minibatch.next g.n g.cur o).2) := rfl

/-! ### the model satisfies `Holds.C15` (row clause) -/

open Jinns.Holds in
/-- `c15RowIs`, the decidable alignment clause of `Holds.C15`, is true of the model's batch at the
    original row `idx[r]`. -/
theorem rowIs_batchOf (g : Obs) (idx : List Nat) (r : Nat) (hr : r < idx.length)
    (hi : idx[r] < g.n) (hp : g.pin.length = g.n) (hv : g.val.length = g.n)
    (he : ∀ kx ∈ g.eq, kx.2.length = g.n) :
    c15RowIs g.pin g.val (g.eq.map (·.2)) (batchOf g idx).pin (batchOf g idx).val
      ((batchOf g idx).eq.map (·.2)) r idx[r] = true := by
  simp only [c15RowIs, Bool.and_eq_true, beq_iff_eq, List.all_eq_true]
  refine ⟨⟨?_, ?_⟩, ?_⟩
  · simp [batchOf, gather, hr, List.getD_eq_getElem?_getD, hp, hi]
  · simp [batchOf, gather, hr, List.getD_eq_getElem?_getD, hv, hi]
  · intro tb htb
    obtain ⟨j, hj, hget⟩ := List.getElem_of_mem htb
    simp only [List.length_zip, List.length_map, batchOf] at hj
    simp only [batchOf, List.map_map, List.getElem_zip, List.getElem_map, Function.comp] at hget
    subst hget
    have hlen := he (g.eq[j]'(by omega)) (List.getElem_mem _)
    simp [gather, hr, List.getD_eq_getElem?_getD, hlen, hi]

open Jinns.Holds in
theorem c15First_eq_none (l : List (Option String)) (h : ∀ x ∈ l, x = none) : c15First l = none := by
  induction l with
  | nil => rfl
  | cons a r ih =>
    have ha := h a List.mem_cons_self
    subst ha
    exact ih (fun x hx => h x (List.mem_cons_of_mem _ hx))

open Jinns.Holds in
/-- The per-batch clause of `Holds.C15` is true of any batch gathered with `b` valid row numbers. -/
theorem c15ObsBatch_batchOf (g : Obs) (idx : List Nat) (hi : ∀ i ∈ idx, i < g.n)
    (hp : g.pin.length = g.n) (hv : g.val.length = g.n) (he : ∀ kx ∈ g.eq, kx.2.length = g.n) :
    c15ObsBatch idx.length g.pin g.val (g.eq.map (·.2)) (batchOf g idx).pin (batchOf g idx).val
      ((batchOf g idx).eq.map (·.2))
      (g.eq.map (·.1) == (batchOf g idx).eq.map (·.1)) = none := by
  unfold c15ObsBatch
  have hk : (g.eq.map (·.1) == (batchOf g idx).eq.map (·.1)) = true := by
    simp [batchOf]
  have hl : ((g.eq.map (·.2)).length != ((batchOf g idx).eq.map (·.2)).length) = false := by
    simp [batchOf]
  rw [hk, hl]
  simp only [Bool.not_true, Bool.or_false, Bool.false_eq_true, ↓reduceIte]
  have hs : ((batchOf g idx).pin.length != idx.length || (batchOf g idx).val.length != idx.length ||
      !(((batchOf g idx).eq.map (·.2)).all fun t => t.length == idx.length)) = false := by
    simp [batchOf, gather]
  rw [hs]
  simp only [Bool.false_eq_true, ↓reduceIte]
  apply c15First_eq_none
  intro x hx
  obtain ⟨r, hr, rfl⟩ := List.mem_map.1 hx
  have hr' : r < idx.length := List.mem_range.1 hr
  have hany : ((List.range g.pin.length).any
      (c15RowIs g.pin g.val (g.eq.map (·.2)) (batchOf g idx).pin (batchOf g idx).val
        ((batchOf g idx).eq.map (·.2)) r)) = true := by
    rw [List.any_eq_true]
    refine ⟨idx[r], ?_, rowIs_batchOf g idx r hr' (hi _ (List.getElem_mem _)) hp hv he⟩
    rw [List.mem_range, hp]; exact hi _ (List.getElem_mem _)
  rw [if_pos hany]

open Jinns.Holds in
/-- **`Holds.C15` is true of the whole trace of the observation-loader model**, for every table,
    every batch size `b ≤ n`, every history and every oracle sequence honouring the PRNG contract. -/
theorem obs_history_holds {a : ObsArgs} {g : Obs} (h : mkObs a = .ok g) (hb : a.b ≤ g.n)
    (os : List (List Nat)) (hos : ∀ o ∈ os, o.Perm (List.range g.n)) :
    holdsC15Obs a.b g.pin g.val g.eq ((obsRun g os).2.map fun bt => (bt.pin, bt.val, bt.eq)) = none := by
  obtain ⟨-, -, -, -, hp, hv, he, -⟩ := mkObs_ok h
  unfold holdsC15Obs
  apply c15First_eq_none
  intro x hx
  simp only [List.map_map, List.mem_map, Function.comp] at hx
  obtain ⟨bt, hbt, rfl⟩ := hx
  obtain ⟨idx, hlen, hidx, rfl⟩ := obs_history h hb os hos bt hbt
  rw [← hlen]
  exact c15ObsBatch_batchOf g idx hidx hp hv he

/-! ### non-vacuity -/

example : (mkObs { b := 2, pin := .d1 [1, 2, 3], val := .d2 [[10], [20], [30]] 1,
                   eq := [("nu", .d1 [7, 8, 9])] }).toOption.map
      (fun g => (batchOf g [2, 0]).pin) = some [[3], [1]] := by decide
example : (mkObs { b := 2, pin := .d1 [1, 2, 3], val := .d1 [1, 2], eq := [] }).toOption.isNone := by decide
example : (mkObs { b := 2, pin := .hi 3 3, val := .d1 [1, 2, 3], eq := [] }).toOption.isNone := by decide
example : paramStore 2 "uniform" { name := "nu", range := some (0, 1), user := some (.d1 [5, 7]) } []
    = .ok [[5], [7]] := by simp [paramStore]
example : ∃ s, paramStore 2 "grid" { name := "nu", range := some (0, 1), user := none } [] = .ok s :=
  ⟨(gridStore 0 1 2).map fun x => [x], by simp [paramStore]⟩
example : (mkNets 1 [{ name := "u", pin := some (.d1 [1]), val := some (.d1 [2]), eq := [] },
                      { name := "v", pin := none, val := none, eq := [] }]).toOption.map
      (fun gs => gs.map fun kg => (kg.1, kg.2.isSome)) = some [("u", true), ("v", false)] := by decide

end Jinns.Loaders
