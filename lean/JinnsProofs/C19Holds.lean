/-
`Holds.C19` is satisfied by every model trace with a scripted validation module: for every
program of the exact family, every period `c ≥ 1`, every outcome script (any length, any
criteria / improvement flags / stop flags) and every `n`, the observation predicted by the model
satisfies `Holds.C19` — when all parameters are tracked (the standing assumption of `Holds.C19`)
and no parameter value is NaN.  Proof: the schedule theorems of `C19.lean` (`validation_calls`,
`crit_history`, `best_params`, `bestRef_last_improving`, `bestRef_none`) and `solve_eq_iter`.

For the built-in `ValidationLoss` the corresponding statement is proved in part
(`vlOutcomes_improved`: the improvement flags the predicate derives from the criteria are the
model's); the remaining part is spelled out at `holdsC19VL_model_partial`.
-/
import JinnsProofs.C19
import JinnsProofs.C18Holds
import JinnsModel.HoldsC19

namespace Jinns.SolveFamily
open Jinns.Solve Jinns.Validation Jinns.SolveTrace Jinns.Holds

/-! ### counting the invocations: `⌈k / c⌉` multiples of `c` below `k` -/

def mcount (c k : Nat) : Nat := (k + c - 1) / c

theorem mcount_zero (c : Nat) (hc : 0 < c) : mcount c 0 = 0 := by
  unfold mcount; exact Nat.div_eq_of_lt (by omega)

theorem mcount_dvd (c k : Nat) (hc : 0 < c) (h : k % c = 0) :
    mcount c (k + 1) = mcount c k + 1 ∧ c * mcount c k = k := by
  unfold mcount
  have hk := Nat.div_add_mod k c
  rw [h, Nat.add_zero] at hk
  have hs : (k / c + 1) * c = k / c * c + c := by rw [Nat.add_mul, Nat.one_mul]
  have hm := Nat.mul_comm c (k / c)
  have e1 : (k + c - 1) / c = k / c := by
    rw [Nat.div_eq_iff hc]; constructor <;> omega
  have e2 : (k + 1 + c - 1) / c = k / c + 1 := by
    rw [Nat.div_eq_iff hc]; constructor <;> omega
  rw [e1, e2]; exact ⟨rfl, hk⟩

theorem mcount_ndvd (c k : Nat) (hc : 0 < c) (h : k % c ≠ 0) : mcount c (k + 1) = mcount c k := by
  unfold mcount
  have hk := Nat.div_add_mod k c
  have hlt := Nat.mod_lt k hc
  have hs : (k / c + 1) * c = k / c * c + c := by rw [Nat.add_mul, Nat.one_mul]
  have hm := Nat.mul_comm c (k / c)
  have e1 : (k + c - 1) / c = k / c + 1 := by
    rw [Nat.div_eq_iff hc]; constructor <;> omega
  have e2 : (k + 1 + c - 1) / c = k / c + 1 := by
    rw [Nat.div_eq_iff hc]; constructor <;> omega
  rw [e1, e2]

theorem mcount_mul (c q : Nat) (hc : 0 < c) : mcount c (c * q) = q := by
  unfold mcount
  rw [Nat.div_eq_iff hc]
  have hm := Nat.mul_comm c q
  constructor <;> omega

theorem find_range_eq_some (p : Nat → Bool) (n k : Nat) (hk : k < n) (hp : p k = true)
    (hb : ∀ j, j < k → p j = false) : (List.range n).find? p = some k := by
  cases hf : (List.range n).find? p with
  | none =>
    have := List.find?_eq_none.1 hf k (List.mem_range.2 hk)
    exact absurd hp this
  | some k' =>
    obtain ⟨h1, h2, h3⟩ := find_range_some p n k' hf
    rcases Nat.lt_trichotomy k k' with h | h | h
    · have := h3 k h; rw [hp] at this; exact Bool.noConfusion this
    · rw [h]
    · have := hb k' h; rw [h2] at this; exact Bool.noConfusion this

theorem lastIdx_some (p : Nat → Bool) (J j : Nat) (h : SolveAux.lastIdx p J = some j) :
    j < J ∧ p j = true ∧ ∀ j', j < j' → j' < J → p j' = false := by
  induction J with
  | zero => simp [SolveAux.lastIdx] at h
  | succ J ih =>
    unfold SolveAux.lastIdx at h
    by_cases hp : p J = true
    · simp [hp] at h
      subst h
      exact ⟨by omega, hp, fun j' h1 h2 => by omega⟩
    · simp [hp] at h
      obtain ⟨h1, h2, h3⟩ := ih h
      refine ⟨by omega, h2, fun j' hj1 hj2 => ?_⟩
      by_cases e : j' = J
      · subst e; simpa using hp
      · exact h3 j' hj1 (by omega)

theorem lastIdx_none (p : Nat → Bool) (J : Nat) (h : SolveAux.lastIdx p J = none) :
    ∀ j, j < J → p j = false := by
  induction J with
  | zero => intro j hj; omega
  | succ J ih =>
    unfold SolveAux.lastIdx at h
    by_cases hp : p J = true
    · simp [hp] at h
    · simp [hp] at h
      intro j hj
      by_cases e : j = J
      · subst e; simpa using hp
      · exact ih h j (by omega)

/-! ### the scripted module inside the loop -/

/-- the outcome a scripted module returns at its `q`-th call -/
def scriptOut (script : List (Val × Bool × Bool)) (q : Nat) : Val × Bool × Bool :=
  script.getD (min q (script.length - 1)) (some 0, false, false)

section Sched
/- A validation module whose state after `q` invocations is `stq q` and whose `q`-th invocation
   (made at iteration `c·q`, on the parameters after that iteration's update) returns the outcome
   `outq q = (criterion, improved, stop)`.  Both may depend on the training trajectory, which does
   not depend on the validation outcomes.  Scripted modules and `ValidationLoss` are instances. -/
variable (pr : Prog Params OptSt Nat Batch Val (List Val) Params VState Val)
variable (θ0 : Params) (opt0 : OptSt) (c : Nat) (stq : Nat → VState) (outq : Nat → Val × Bool × Bool)
variable (hce : pr.callEvery = c) (hc : 0 < c)
variable (hvd : ∀ q, pr.validate (stq q) (θseq pr θ0 opt0 (0 : Nat) (c * q + 1)) =
  { vs := stq (q + 1), stop := (outq q).2.2, crit := (outq q).1, improved := (outq q).2.1 })

include hce hc hvd

theorem valState_sched (j : Nat) :
    valState pr θ0 opt0 (0 : Nat) (stq 0) j = stq (mcount c j) := by
  induction j with
  | zero => simp [valState, mcount_zero c hc]
  | succ j ih =>
    simp only [valState, hce]
    by_cases h : j % c = 0
    · obtain ⟨h1, h2⟩ := mcount_dvd c j hc h
      have := hvd (mcount c j)
      rw [h2] at this
      simp only [h, if_true, ih, this, h1]
    · simp only [h, if_false, ih, mcount_ndvd c j hc h]

theorem outAt_sched (q : Nat) :
    outAt pr θ0 opt0 (0 : Nat) (stq 0) (c * q) =
      { vs := stq (q + 1), stop := (outq q).2.2, crit := (outq q).1, improved := (outq q).2.1 } := by
  unfold outAt
  rw [valState_sched pr θ0 opt0 c stq outq hce hc hvd, mcount_mul c q hc, hvd]

omit hvd in
theorem callsRef_sched (k : Nat) :
    callsRef pr θ0 opt0 (0 : Nat) k =
      (List.range (mcount c k)).map (fun q => (c * q, θseq pr θ0 opt0 (0 : Nat) (c * q + 1))) := by
  induction k with
  | zero => simp [callsRef, mcount_zero c hc]
  | succ k ih =>
    have e : callsRef pr θ0 opt0 (0 : Nat) (k + 1) =
        callsRef pr θ0 opt0 (0 : Nat) k ++
          (if k % c = 0 then [(k, θseq pr θ0 opt0 (0 : Nat) (k + 1))] else []) := by
      unfold callsRef
      rw [List.range_succ, List.filter_append, List.map_append, hce]
      by_cases h : k % c = 0 <;> simp [h]
    rw [e, ih]
    by_cases h : k % c = 0
    · obtain ⟨h1, h2⟩ := mcount_dvd c k hc h
      simp only [h, if_true, h1, List.range_succ, List.map_append, List.map_cons, List.map_nil, h2]
    · simp only [h, if_false, mcount_ndvd c k hc h, List.append_nil]

end Sched

/-! ### the theorem -/

/-- **`Holds.C19` is satisfied by every model trace whose validation module follows an outcome
    schedule** (`stq`, `outq` as in section `Sched`): every program, period `c ≥ 1` and `n`; all
    parameters tracked; no NaN parameter value. -/
theorem holdsC19_model_sched_gen (pg : Program) (gens : List (List String)) (c : Nat)
    (stq : Nat → VState) (outq : Nat → Val × Bool × Bool)
    (hce : pg.prog.callEvery = c) (hc : 0 < c)
    (hvd : ∀ q, pg.prog.validate (stq q) (θseq pg.prog pg.θ0 pg.opt0 (0 : Nat) (c * q + 1)) =
      { vs := stq (q + 1), stop := (outq q).2.2, crit := (outq q).1, improved := (outq q).2.1 })
    (hinit : initVState pg.val = some (stq 0))
    (hnan : ∀ j, j ≤ pg.n → hasNaN (θseq pg.prog pg.θ0 pg.opt0 0 j) = false)
    (htrack : ∀ j, trackOf pg.spec (θseq pg.prog pg.θ0 pg.opt0 0 j) = θseq pg.prog pg.θ0 pg.opt0 0 j)
    (outcomes : List (Val × Bool × Bool))
    (houtc : ∀ q, c * q < pg.solved.i → outcomes.getD q (none, false, false) = outq q) :
    holdsC19 c pg.n pg.n pg.θ0 outcomes
      (pg.solved.calls.map (·.2)) false (modelObs pg gens pg.solved) = none := by
  have hoA := outAt_sched pg.prog pg.θ0 pg.opt0 c stq outq hce hc hvd
  have hcR := callsRef_sched pg.prog pg.θ0 pg.opt0 c hce hc
  have hsR : ∀ j, stopReq pg.prog pg.θ0 pg.opt0 (0 : Nat) (some (stq 0)) j =
      (decide (j % c = 0) && (outq (mcount c j)).2.2) := by
    intro j
    by_cases h : j % c = 0
    · have e := (mcount_dvd c j hc h).2
      have := hoA (mcount c j)
      rw [e] at this
      simp [stopReq, hce, h, this]
    · simp [stopReq, hce, h]
  unfold holdsC19
  by_cases h0 : (pg.n == 0) = true
  · simp [h0]
  have hc0 : (c == 0) = false := by simp; omega
  simp only [h0, hc0, Bool.false_eq_true, if_false]
  -- the number of iterations run
  obtain ⟨K, hK, hs, hstopK⟩ : ∃ K, K ≤ pg.n ∧
      pg.solved = iter pg.prog K (init pg.prog pg.n pg.θ0 pg.opt0 0 (some (stq 0))) ∧
      ((∃ j0, K = j0 + 1 ∧ j0 % c = 0 ∧ (outq (mcount c j0)).2.2 = true ∧
          ∀ j', j' < j0 → j' % c = 0 → (outq (mcount c j')).2.2 = false) ∨
        (K = pg.n ∧ ∀ j', j' < pg.n → j' % c = 0 → (outq (mcount c j')).2.2 = false)) := by
    cases hf : (List.range pg.n).find?
        (stopReq pg.prog pg.θ0 pg.opt0 (0 : Nat) (some (stq 0))) with
    | some j0 =>
      obtain ⟨h1, h2, h3⟩ := find_range_some _ pg.n j0 hf
      rw [hsR] at h2
      simp only [Bool.and_eq_true, decide_eq_true_eq] at h2
      refine ⟨j0 + 1, by omega, ?_, Or.inl ⟨j0, rfl, h2.1, h2.2, fun j' hj' hm => ?_⟩⟩
      · unfold Program.solved
        rw [hinit]
        exact solve_eq_iter pg.prog pg.n pg.θ0 pg.opt0 0 (some (stq 0)) (j0 + 1) (by omega)
          (fun j hj => hnan j (by omega)) (fun j hj => h3 j (by omega))
          (Or.inr (Or.inr ⟨j0, rfl, by rw [hsR]; simp [h2.1, h2.2]⟩))
      · have := h3 j' hj'
        rw [hsR] at this
        simpa [hm] using this
    | none =>
      have hall := List.find?_eq_none.1 hf
      refine ⟨pg.n, Nat.le_refl _, ?_, Or.inr ⟨rfl, fun j' hj' hm => ?_⟩⟩
      · unfold Program.solved
        rw [hinit]
        exact solve_eq_iter pg.prog pg.n pg.θ0 pg.opt0 0 (some (stq 0)) pg.n (Nat.le_refl _)
          (fun j hj => hnan j (by omega))
          (fun j hj => by simpa using hall j (List.mem_range.2 (by omega))) (Or.inl rfl)
      · have := hall j' (List.mem_range.2 hj')
        rw [hsR] at this
        simpa [hm] using this
  -- the fields of the final carry
  have hi : pg.solved.i = K := by rw [hs, iter_init_i]
  have hcalls : pg.solved.calls =
      (List.range (mcount c K)).map (fun q => (c * q, θseq pg.prog pg.θ0 pg.opt0 (0 : Nat) (c * q + 1))) := by
    rw [hs, validation_calls, hcR]
  have hcrit : pg.solved.critH =
      (List.range K).map (fun i => (outq (i / c)).1) ++ List.replicate (pg.n - K) (some 0) := by
    rw [hs, crit_history pg.prog pg.n pg.θ0 pg.opt0 0 (stq 0) K hK, hce]
    congr 1
    apply List.map_congr_left
    intro i _
    have hdiv : i - i % c = c * (i / c) := by
      have := Nat.div_add_mod i c; omega
    rw [hdiv, hoA]
  have hbest : pg.solved.best = bestRef pg.prog pg.θ0 pg.opt0 (0 : Nat) (stq 0) K := by
    rw [hs, best_params]
  have hvs : pg.solved.vs.isSome = true := by
    rw [hs, iter_init_vs]; rfl
  have htr : ∀ i, i < K → pg.solved.trackH[i]? = some (θseq pg.prog pg.θ0 pg.opt0 (0 : Nat) (i + 1)) := by
    intro i hiK
    obtain ⟨_, _, h3⟩ := iter_init_hist pg.prog pg.n pg.θ0 pg.opt0 0 (some (stq 0)) K hK
    obtain ⟨_, _, l3⟩ := refLoop_init_lengths pg.prog K pg.θ0 pg.opt0 (0 : Nat)
      (V := Val) (T := List Val) (P := Params)
    obtain ⟨_, _, e3⟩ := refLoop_entry pg.prog pg.θ0 pg.opt0 (0 : Nat) K i hiK
    rw [hs, h3, List.getElem?_append_left (by rw [l3]; exact hiK), e3]
    exact congrArg some (htrack (i + 1))
  have hJ : (pg.solved.calls.map (·.2)).length = mcount c K := by simp [hcalls]
  have hcallget : ∀ q, q < mcount c K →
      (pg.solved.calls.map (·.2)).getD q [] = θseq pg.prog pg.θ0 pg.opt0 (0 : Nat) (c * q + 1) := by
    intro q hq
    rw [hcalls, List.getD_eq_getElem?_getD]
    simp [List.getElem?_range hq]
  -- an invocation index below the count is an iteration below `K`, and conversely
  have hlt_of : ∀ q, q < mcount c K → c * q < K := by
    intro q hq
    have hm : (c * q, θseq pg.prog pg.θ0 pg.opt0 (0 : Nat) (c * q + 1)) ∈
        callsRef pg.prog pg.θ0 pg.opt0 (0 : Nat) K := by
      rw [hcR]; exact List.mem_map.2 ⟨q, List.mem_range.2 hq, rfl⟩
    unfold callsRef at hm
    simp only [List.mem_map, List.mem_filter, List.mem_range, decide_eq_true_eq, Prod.mk.injEq] at hm
    obtain ⟨j, ⟨hj, _⟩, hjq, _⟩ := hm
    omega
  have hidx_of : ∀ j, j < K → j % c = 0 → ∃ q, q < mcount c K ∧ c * q = j := by
    intro j hj hm
    have hmem : (j, θseq pg.prog pg.θ0 pg.opt0 (0 : Nat) (j + 1)) ∈
        callsRef pg.prog pg.θ0 pg.opt0 (0 : Nat) K := by
      unfold callsRef
      exact List.mem_map.2 ⟨j, List.mem_filter.2 ⟨List.mem_range.2 hj, by simp [hce, hm]⟩, rfl⟩
    rw [hcR] at hmem
    obtain ⟨q, hq, he⟩ := List.mem_map.1 hmem
    exact ⟨q, List.mem_range.1 hq, (Prod.mk.inj he).1⟩
  have hout : ∀ q, q < mcount c K → outcomes.getD q (none, false, false) = outq q :=
    fun q hq => houtc q (by rw [hi]; exact hlt_of q hq)
  apply firstFail_all_true
  intro cl hcl
  simp only [List.mem_cons, List.mem_nil_iff, or_false] at hcl
  rcases hcl with rfl | rfl | rfl | rfl | rfl | rfl | rfl
  · -- invoked exactly at the iterations divisible by the period
    simp [hJ, modelObs, hi, mcount]
  · -- … with the post-update parameters
    simp only [hJ, List.all_eq_true, List.mem_range]
    intro q hq
    rw [hcallget q hq]
    simp [modelObs, htr (c * q) (hlt_of q hq)]
  · simp [modelObs, hvs, hcrit]; omega
  · -- criterion recorded and carried forward
    simp only [List.all_eq_true, List.mem_range]
    intro i hiK
    have hiK' : i < K := by simp [modelObs, hi] at hiK; omega
    have hq : c * (i / c) < pg.solved.i := by
      have := Nat.div_add_mod i c
      rw [hi]; omega
    rw [houtc (i / c) hq]
    simp only [modelObs, hvs, if_true, Option.getD_some, hcrit]
    rw [List.getElem?_append_left (by simp; exact hiK')]
    simp [List.getElem?_range hiK']
  · -- untouched after the stop
    simp only [List.all_eq_true, List.mem_range, Bool.or_eq_true, decide_eq_true_eq]
    intro i hin
    by_cases hiK : i < K
    · left; simp [modelObs, hi, hiK]
    · right
      simp only [modelObs, hvs, if_true, Option.getD_some, hcrit]
      rw [List.getElem?_append_right (by simp; omega)]
      simp [List.getElem?_replicate]; omega
  · -- stops right after the first request
    rcases hstopK with ⟨j0, hKj, hm0, hst0, hfirst⟩ | ⟨hKn, hnone⟩
    · obtain ⟨q0, hq0, hq0j⟩ := hidx_of j0 (by omega) hm0
      have hmq : mcount c j0 = q0 := by rw [← hq0j, mcount_mul c q0 hc]
      have hfind : (List.range (pg.solved.calls.map (·.2)).length).find?
          (fun j => (outcomes.getD j (none, false, false)).2.2) =
          some q0 := by
        rw [hJ]
        apply find_range_eq_some _ _ _ hq0
        · rw [hout q0 hq0, ← hmq]; exact hst0
        · intro q hq
          rw [hout q (by omega)]
          have hlt : c * q < j0 := by
            have : c * q < c * q0 := Nat.mul_lt_mul_of_pos_left hq hc
            omega
          have := hfirst (c * q) hlt (Nat.mul_mod_right c q)
          rwa [mcount_mul c q hc] at this
      simp only [hfind, modelObs, hi]
      simp; omega
    · have hfind : (List.range (pg.solved.calls.map (·.2)).length).find?
          (fun j => (outcomes.getD j (none, false, false)).2.2) =
          none := by
        rw [hJ, List.find?_eq_none]
        intro q hq
        have hq' := List.mem_range.1 hq
        rw [hout q hq']
        have := hnone (c * q) (by have := hlt_of q hq'; omega) (Nat.mul_mod_right c q)
        rw [mcount_mul c q hc] at this
        simp [this]
      simp only [hfind, modelObs, hi]
      simp [hKn]
  · -- best parameters of the last improving invocation
    simp only [modelObs, hvs, if_true, hbest, hJ]
    have himp : ∀ q, (outAt pg.prog pg.θ0 pg.opt0 (0 : Nat) (stq 0) (c * q)).improved = (outq q).2.1 := by
      intro q; rw [hoA]
    cases hl : SolveAux.lastIdx
        (fun j => (outcomes.getD j (none, false, false)).2.1)
        (mcount c K) with
    | some q =>
      obtain ⟨h1, h2, h3⟩ := lastIdx_some _ _ _ hl
      rw [hout q h1] at h2
      have hb := bestRef_last_improving pg.prog pg.θ0 pg.opt0 (0 : Nat) (stq 0) K (c * q)
        (hlt_of q h1) (by rw [hce]; exact Nat.mul_mod_right c q)
        (by rw [himp]; exact h2)
        (by
          intro j' hj1 hj2 hm
          rw [hce] at hm
          obtain ⟨q', hq', he⟩ := hidx_of j' hj2 hm
          have hqq : q < q' := by
            rcases Nat.lt_or_ge q q' with h | h
            · exact h
            · have : c * q' ≤ c * q := Nat.mul_le_mul_left c h
              omega
          have := h3 q' hqq hq'
          rw [hout q' hq'] at this
          rw [← he, himp]; exact this)
      rw [hb]; dsimp only; rw [hcallget q h1]; simp
    | none =>
      have hno := lastIdx_none _ _ hl
      have hb := bestRef_none pg.prog pg.θ0 pg.opt0 (0 : Nat) (stq 0) K
        (by
          intro j hj hm
          rw [hce] at hm
          obtain ⟨q', hq', he⟩ := hidx_of j hj hm
          have := hno q' hq'
          rw [hout q' hq'] at this
          rw [← he, himp]; exact this)
      simp [hb]

/-- the same with the outcome list `[outq 0, …, outq n]` -/
theorem holdsC19_model_sched (pg : Program) (gens : List (List String)) (c : Nat)
    (stq : Nat → VState) (outq : Nat → Val × Bool × Bool)
    (hce : pg.prog.callEvery = c) (hc : 0 < c)
    (hvd : ∀ q, pg.prog.validate (stq q) (θseq pg.prog pg.θ0 pg.opt0 (0 : Nat) (c * q + 1)) =
      { vs := stq (q + 1), stop := (outq q).2.2, crit := (outq q).1, improved := (outq q).2.1 })
    (hinit : initVState pg.val = some (stq 0))
    (hnan : ∀ j, j ≤ pg.n → hasNaN (θseq pg.prog pg.θ0 pg.opt0 0 j) = false)
    (htrack : ∀ j, trackOf pg.spec (θseq pg.prog pg.θ0 pg.opt0 0 j) = θseq pg.prog pg.θ0 pg.opt0 0 j) :
    holdsC19 c pg.n pg.n pg.θ0 ((List.range (pg.n + 1)).map outq)
      (pg.solved.calls.map (·.2)) false (modelObs pg gens pg.solved) = none := by
  apply holdsC19_model_sched_gen pg gens c stq outq hce hc hvd hinit hnan htrack
  intro q hq
  have hle : pg.solved.i ≤ pg.n := solve_i_le pg.prog pg.n pg.θ0 pg.opt0 0 (initVState pg.val)
  have : q ≤ c * q := Nat.le_mul_of_pos_left q hc
  rw [List.getD_eq_getElem?_getD]
  simp [List.getElem?_range (by omega : q < pg.n + 1)]

/-- **`Holds.C19` is satisfied by every model trace with a scripted validation module**: every
    program, period `c ≥ 1`, outcome script (any length, criteria and flags) and `n`; all parameters
    tracked; no NaN parameter value. -/
theorem holdsC19_model (pg : Program) (gens : List (List String)) (c : Nat)
    (script : List (Val × Bool × Bool)) (hval : pg.val = some ⟨c, .scripted script⟩) (hc : 0 < c)
    (hnan : ∀ j, j ≤ pg.n → hasNaN (θseq pg.prog pg.θ0 pg.opt0 0 j) = false)
    (htrack : ∀ j, trackOf pg.spec (θseq pg.prog pg.θ0 pg.opt0 0 j) = θseq pg.prog pg.θ0 pg.opt0 0 j) :
    holdsC19 c pg.n pg.n pg.θ0 ((List.range (pg.n + 1)).map (scriptOut script))
      (pg.solved.calls.map (·.2)) false (modelObs pg gens pg.solved) = none := by
  apply holdsC19_model_sched pg gens c VState.scripted (scriptOut script) _ hc _ _ hnan htrack
  · simp [Program.prog, hval]
  · intro q; simp [Program.prog, hval, validateOf, scriptOut]
  · simp [hval, initVState]

theorem vlAfterV_snoc (s : VLCore) (l : List Val) (v : Val) :
    vlAfterV s (l ++ [v]) = vlNextV (vlAfterV s l) v := by
  induction l generalizing s with
  | nil => rfl
  | cons w l ih => simp [vlAfterV, ih]

/-- the criterion of the `q`-th invocation of the model of `ValidationLoss` inside the loop: its
    loss on the parameters after the update of iteration `c·q` and on the `q`-th batch of its own
    generators (possibly NaN) -/
def vlVal (pg : Program) (c : Nat) (L : LossDef) (bs : List Batch) (q : Nat) : Val :=
  lossTotal L (θseq pg.prog pg.θ0 pg.opt0 (0 : Nat) (c * q + 1)) (bs.getD q ⟨[]⟩)

/-- its scalar state before the `q`-th invocation -/
def vlCore (pg : Program) (c : Nat) (L : LossDef) (bs : List Batch) (q : Nat) : VLCore :=
  vlAfterV vlInit ((List.range q).map (vlVal pg c L bs))

/-- the outcome of its `q`-th invocation -/
def vlOut (pg : Program) (c : Nat) (L : LossDef) (bs : List Batch) (pat : Nat) (early : Bool) (q : Nat) :
    Val × Bool × Bool :=
  (vlVal pg c L bs q, vlImprovedV (vlCore pg c L bs q) (vlVal pg c L bs q),
    vlStop pat early (vlCore pg c L bs q))

/-- **`Holds.C19` is satisfied by every model trace with the model of `ValidationLoss`** as
    validation module, the outcomes being those of that model (`vlOut`: criterion = its loss on its
    own `q`-th batch; improved / stop as characterised in `C19.lean` by `vl_improved_iff_strict_min`,
    `vl_stop_iff`, `vl_first_stop`): every program, period, patience, early-stopping switch, `n`. -/
theorem holdsC19_model_vl (pg : Program) (gens : List (List String)) (c : Nat) (L : LossDef)
    (bs : List Batch) (pat : Nat) (early : Bool) (hval : pg.val = some ⟨c, .vloss L bs pat early⟩)
    (hc : 0 < c)
    (hnan : ∀ j, j ≤ pg.n → hasNaN (θseq pg.prog pg.θ0 pg.opt0 0 j) = false)
    (htrack : ∀ j, trackOf pg.spec (θseq pg.prog pg.θ0 pg.opt0 0 j) = θseq pg.prog pg.θ0 pg.opt0 0 j) :
    holdsC19 c pg.n pg.n pg.θ0 ((List.range (pg.n + 1)).map (vlOut pg c L bs pat early))
      (pg.solved.calls.map (·.2)) false (modelObs pg gens pg.solved) = none := by
  apply holdsC19_model_sched pg gens c (fun q => VState.vl ⟨q, vlCore pg c L bs q⟩)
    (vlOut pg c L bs pat early) _ hc _ _ hnan htrack
  · simp [Program.prog, hval]
  · intro q
    have hnext : vlCore pg c L bs (q + 1) = vlNextV (vlCore pg c L bs q) (vlVal pg c L bs q) := by
      unfold vlCore
      rw [List.range_succ, List.map_append, List.map_cons, List.map_nil, vlAfterV_snoc]
    simp [Program.prog, hval, validateOf, VL.call, vlConf, vlOut, hnext, vlVal]
  · simp [hval, initVState, vlCore, vlAfterV]

/-! ### the built-in `ValidationLoss`: what is proved, what is not -/

/-- The improvement flags that `Holds.C19` derives from a sequence of (NaN-free) criteria by the
    wording of the property (strict new minimum) are the flags of the model of `ValidationLoss` —
    for every sequence of values and every position (`improvedFn_some`, `vlOutcomes_improved`). -/
theorem improvedFn_some (vs : List Rat) (j : Nat) (hj : j < vs.length) :
    (match (vs.map some).getD j none with
      | none => false
      | some v => ((vs.map some).take j).all (fun x => match x with | none => true | some y => decide (v < y))) =
    vlImproved (vlAfter vlInit (vs.take j)) vs[j] := by
  have e1 : (vs.map some).getD j none = some vs[j] := by
    simp [List.getD_eq_getElem?_getD, List.getElem?_eq_getElem hj]
  rw [e1]
  simp only [← List.map_take, List.all_map]
  cases h : vlImproved (vlAfter vlInit (vs.take j)) vs[j] with
  | true =>
    have := (vl_improved_iff_strict_min (vs.take j) vs[j]).1 h
    simp only [List.all_eq_true, Function.comp, decide_eq_true_eq]
    exact this
  | false =>
    rw [Bool.eq_false_iff]
    intro h2
    have : vlImproved (vlAfter vlInit (vs.take j)) vs[j] = true := by
      apply (vl_improved_iff_strict_min (vs.take j) vs[j]).2
      simpa [List.all_eq_true, Function.comp] using h2
    rw [h] at this; exact Bool.noConfusion this

theorem vlOutcomes_improved (patience : Nat) (early : Bool) (vs : List Rat) (j : Nat) (hj : j < vs.length) :
    ((SolveAux.vlOutcomes patience early (vs.map some)).getD j (none, false, false)).2.1 =
      vlImproved (vlAfter vlInit (vs.take j)) (vs.getD j 0) := by
  have hj' : j < (vs.map some).length := by simpa using hj
  have e0 : vs.getD j 0 = vs[j] := by simp [List.getD_eq_getElem?_getD, List.getElem?_eq_getElem hj]
  rw [e0, ← improvedFn_some vs j hj]
  unfold SolveAux.vlOutcomes
  simp only [List.getD_eq_getElem?_getD, List.getElem?_map, List.getElem?_range hj', Option.map_some,
    Option.getD_some]
  rfl

/-- **Partial.**  Full statement wanted: for every program whose validation module is the model of
    `ValidationLoss`, `holdsC19VL c n θ0 patience early expected vbatches vbatches calls false
    (modelObs …) = none`, where `Holds.C19VL` re-derives the outcomes from the observed criteria by the
    wording of the property (`vlOutcomes`: improved = strict new minimum, stop = early ∧ `patience ≤`
    trailing run of non-improving invocations).
    Proved: `holdsC19_model_vl` — the model trace satisfies `Holds.C19` for the outcomes `vlOut` of the
    model itself (stop = early ∧ counter `==` patience); `holdsC19_model_sched_gen` — the same for *any*
    outcome list that agrees with `vlOut` on the invocations actually made; `vlOutcomes_improved` — the
    criterion and improvement components of `vlOutcomes` are the model's; and, below, the `==` and `≤`
    stop tests agree up to and including the first stop request (`vl_first_stop`).
    Missing: (i) the identification of `trailingFalse` of the derived improvement flags with the model's
    counter (`vl_counter_is_trailing_run` is stated on the reversed history `vlHist`), which with
    `vl_first_stop` gives the agreement of the *stop* component on the invocations made, hence the
    hypothesis `houtc` of `holdsC19_model_sched_gen` for `vlOutcomes`; (ii) the two preliminary clauses
    of `holdsC19VL` (validation batches / criterion values), equalities by construction of `vlOut`. -/
theorem holdsC19VL_model_partial (patience : Nat) (vs : List Rat)
    (hge : patience ≤ lead (vlHist vlInit [] vs))
    (hfirst : ∀ m, m < vs.length → lead (vlHist vlInit [] (vs.take m)) < patience) :
    vlStop patience true (vlAfter vlInit vs) = true ∧
    (∀ m, m < vs.length → vlStop patience true (vlAfter vlInit (vs.take m)) = false) ∧
    (∀ j, j < vs.length →
      ((SolveAux.vlOutcomes patience true (vs.map some)).getD j (none, false, false)).2.1 =
        vlImproved (vlAfter vlInit (vs.take j)) (vs.getD j 0)) :=
  ⟨(vl_first_stop patience vs hge hfirst).1, (vl_first_stop patience vs hge hfirst).2,
    fun j hj => vlOutcomes_improved patience true vs j hj⟩

end Jinns.SolveFamily

/-! ### non-vacuity -/
namespace Jinns.SolveFamily
open Jinns.Solve Jinns.SolveTrace Jinns.Holds

example : mcount 3 7 = 3 ∧ mcount 3 6 = 2 ∧ mcount 1 5 = 5 := by decide

/-- a scripted module (period 2, improve / worse+stop) on a program without trainable leaves: the
    hypotheses of `holdsC19_model` (no NaN, everything tracked) are met for every iteration.
    (Programs with parameters meet them on every correspondence run: the driver evaluates
    `Holds.C19` on observations that agree with the model.) -/
def exScripted : Program :=
  { n := 5, θ0 := [], opt0 := { count := 0, trace := [] },
    loss := { terms := [("dyn_loss", [⟨1, [], 1⟩])], mark := none, gradFault := [] },
    opt := { lr0 := 1/4, bounds := [], momentum := none, nanAt := none, hasCount := false },
    spec := [], batches := [⟨[[0]]⟩, ⟨[[1]]⟩, ⟨[[2]]⟩, ⟨[[3]]⟩, ⟨[[4]]⟩],
    val := some ⟨2, .scripted [(some 7, true, false), (some 8, false, true)]⟩ }

theorem exScripted_θ (j : Nat) : θseq exScripted.prog exScripted.θ0 exScripted.opt0 (0 : Nat) j = [] := by
  induction j with
  | zero => rfl
  | succ j ih =>
    unfold θseq at ih ⊢
    simp only [refLoop, refStep, ih]
    rfl

example : holdsC19 2 5 5 [] ((List.range 6).map (scriptOut [(some 7, true, false), (some 8, false, true)]))
    (exScripted.solved.calls.map (·.2)) false (modelObs exScripted [] exScripted.solved) = none :=
  holdsC19_model exScripted [] 2 _ rfl (by decide)
    (fun j _ => by rw [exScripted_θ]; rfl) (fun j => by rw [exScripted_θ]; rfl)

end Jinns.SolveFamily
