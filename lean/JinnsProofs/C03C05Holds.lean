/-
C03 / C05 — the decidable trace predicates `Holds.C03` and `Holds.C05` (which the correspondence
checks evaluate on the *implementation's* observations) are satisfied by the observations the
*model* (`JinnsModel/LossTerms.lean`) produces, for every residual map / network, every weight
(scalar or per-component), every batch (any size), every subset of configured terms and every
tolerance `0 ≤ tol` (`tol = 0`: the exact-equality branch).

The model's observation is built exactly as `harness/c03.py` / `harness/c05.py` build the
implementation's one (and as `JinnsDriver/C03.lean`, `C05.lean` parse it): same keys, same list of
configured terms, the same metamorphic re-evaluations (weight scaled by `c`, a second weight of the
same shape and the sum of the two, permuted batch, the two halves `[: n/2]`, `[n/2 :]` for even
`n ≥ 2`), each re-evaluation being a *full* run of the model's `evaluate` whose `dyn_loss` entry is
read.
-/
import JinnsProofs.C03
import JinnsProofs.C05

namespace Jinns.LossTerms
open Jinns.Holds

/-! ## C03 -/

/-! ### the predicate, clause by clause -/

theorem c03Abs_nonneg (x : ℚ) : 0 ≤ c03Abs x := by
  unfold c03Abs
  split <;> linarith

theorem c03Close_of_eq {tol a b : ℚ} (ht : 0 ≤ tol) (h : a = b) : c03Close tol a b = true := by
  subst h
  simp [c03Close, c03Abs, ht]

theorem c03First_eq_none (l : List (Bool × String)) (h : ∀ p ∈ l, p.1 = true) : c03First l = none := by
  induction l with
  | nil => rfl
  | cons p l ih =>
    obtain ⟨ok, clause⟩ := p
    have h1 : ok = true := h (ok, clause) (by simp)
    subst h1
    simp only [c03First, if_true]
    exact ih fun q hq => h q (by simp [hq])

/-- the five clauses of `Holds.C03` on the dynamic term `v` -/
def DynOK (tol v : ℚ) (d : Dyn03) : Prop :=
  c03Close tol v (c03Dyn d.w d.residuals) = true ∧
  c03Close (tol * (1 + c03Abs d.scale)) d.scaled (d.scale * v) = true ∧
  c03Close (2 * tol) d.withSum (v + d.withW2) = true ∧
  c03Close tol d.permuted v = true ∧
  (∀ a b, d.halves = some (a, b) → c03Close (2 * tol) v ((a + b) / 2) = true)

/-- `Holds.C03` returns `none` as soon as each of its clauses is true -/
theorem holdsC03_of (o : Obs03)
    (hkeys : (o.keys.all (fun k => (o.terms.lookup k).isSome) && o.terms.length == o.keys.length) = true)
    (hsum : c03Close o.tol o.total ((o.terms.map (·.2)).sum) = true)
    (hzero : o.terms.all (fun kv => o.configured.contains kv.1 || kv.2 == 0) = true)
    (hdyn : ∀ d, o.dyn = some d → DynOK o.tol ((o.terms.lookup "dyn_loss").getD 0) d) :
    holdsC03 o = none := by
  unfold holdsC03
  apply c03First_eq_none
  intro p hp
  simp only [List.mem_append, List.mem_cons, List.not_mem_nil, or_false] at hp
  rcases hp with (rfl | rfl | rfl) | hp
  · exact hkeys
  · exact hsum
  · exact hzero
  · cases hd : o.dyn with
    | none => simp [hd] at hp
    | some d =>
      obtain ⟨h1, h2, h3, h4, h5⟩ := hdyn d hd
      simp only [hd, List.mem_cons, List.not_mem_nil, or_false] at hp
      rcases hp with rfl | rfl | rfl | rfl | rfl
      · exact h1
      · exact h2
      · exact h3
      · exact h4
      · cases hh : d.halves with
        | none => rfl
        | some ab => exact h5 ab.1 ab.2 hh

/-! ### the observation produced by the model -/

def odeKeys : List String := ["dyn_loss", "initial_condition", "observations"]
def pdeKeys : List String :=
  ["dyn_loss", "norm_loss", "boundary_loss", "observations", "initial_condition"]

/-- the returned dictionary as a list of entries (same as `Jinns.Driver.odeTermsJ`) -/
def odeTermList (t : OdeTerms) : List (String × ℚ) :=
  [("dyn_loss", t.dyn), ("initial_condition", t.ic), ("observations", t.obs)]

/-- the returned dictionary as a list of entries (same as `Jinns.Driver.pdeTermsJ`) -/
def pdeTermList (t : PdeTerms) : List (String × ℚ) :=
  [("dyn_loss", t.dyn), ("norm_loss", t.norm), ("boundary_loss", t.boundary),
   ("observations", t.obs), ("initial_condition", t.ic)]

/-- names of the configured terms (`harness/c03.py`: `[TERM_OF[k] for k in … if case.get(k)]`) -/
def cfgNames (l : List (String × Bool)) : List String := (l.filter (·.2)).map (·.1)

/-- sum of two weights (`W_add` of the harness for two weights of the same kind; numpy broadcasting
    for a float and an array) -/
def Weight.add : Weight → Weight → Weight
  | .scalar a, .scalar b => .scalar (a + b)
  | .vec a, .vec b => .vec (List.zipWith (fun x y => x + y) a b)
  | .scalar a, .vec b => .vec (b.map fun y => a + y)
  | .vec a, .scalar b => .vec (a.map fun x => x + b)

/-- two floats, or two arrays of the same length: what the harness generates for `(w, w2)` (a float
    `w2` next to an array `w` is first broadcast to the length of `w`) -/
def Weight.SameShape : Weight → Weight → Prop
  | .scalar _, .scalar _ => True
  | .vec a, .vec b => a.length = b.length
  | _, _ => False

/-- **additivity of the dynamic term in its weight**, scalar or per-component -/
theorem dynTerm_add {α : Type} (w w2 : Weight) (h : w.SameShape w2) (r : α → List ℚ) (xs : List α) :
    dynTerm (w.add w2) r xs = dynTerm w r xs + dynTerm w2 r xs := by
  cases w with
  | scalar a =>
    cases w2 with
    | scalar b => exact dynTerm_add_scalar a b r xs
    | vec b => exact absurd h (by simp [Weight.SameShape])
  | vec a =>
    cases w2 with
    | scalar b => exact absurd h (by simp [Weight.SameShape])
    | vec b => exact dynTerm_add_vec a b h r xs

/-- What the harness records about the dynamic term, produced by the model.  `dynOf d` is the
    `dyn_loss` entry returned by a full run of the model's `evaluate` in which the dynamic term's
    own value is `d` (all other terms as in the base run); every re-evaluation goes through it. -/
def modelDyn03 {α : Type} (dynOf : Option ℚ → ℚ) (w : Weight) (r : α → List ℚ) (xs ys : List α)
    (c : ℚ) (w2 : Weight) : Dyn03 :=
  let ev (w' : Weight) (batch : List α) : ℚ := dynOf (some (dynTerm w' r batch))
  { w := toW03 w
    residuals := xs.map r
    scale := c
    scaled := ev (w.smul c) xs
    w2 := toW03 w2
    withW2 := ev w2 xs
    withSum := ev (w.add w2) xs
    permuted := ev w ys
    halves :=
      if xs.length % 2 = 0 ∧ 2 ≤ xs.length then
        some (ev w (xs.take (xs.length / 2)), ev w (xs.drop (xs.length / 2)))
      else none }

/-- the model's record of the dynamic term passes the five dynamic clauses of `Holds.C03` -/
theorem modelDyn03_ok {α : Type} (dynOf : Option ℚ → ℚ) (hd : ∀ v, dynOf (some v) = v) (w : Weight)
    (r : α → List ℚ) (xs ys : List α) (hp : xs.Perm ys) (c : ℚ) (w2 : Weight) (hs : w.SameShape w2)
    (tol : ℚ) (ht : 0 ≤ tol) :
    DynOK tol (dynTerm w r xs) (modelDyn03 dynOf w r xs ys c w2) := by
  refine ⟨?_, ?_, ?_, ?_, ?_⟩
  · apply c03Close_of_eq ht
    simp only [modelDyn03]
    exact (holds_closed_form_eq_dynTerm w r xs).symm
  · apply c03Close_of_eq (mul_nonneg ht (by have := c03Abs_nonneg c; simp only [modelDyn03]; linarith))
    simp only [modelDyn03, hd]
    exact dynTerm_smul c w r xs
  · apply c03Close_of_eq (by linarith)
    simp only [modelDyn03, hd]
    exact dynTerm_add w w2 hs r xs
  · apply c03Close_of_eq ht
    simp only [modelDyn03, hd]
    exact (dynTerm_perm w r hp).symm
  · intro a b hab
    apply c03Close_of_eq (by linarith)
    simp only [modelDyn03, hd] at hab
    split at hab
    · rename_i hev
      simp only [Option.some.injEq, Prod.mk.injEq] at hab
      obtain ⟨rfl, rfl⟩ := hab
      have hlen : (xs.take (xs.length / 2)).length = (xs.drop (xs.length / 2)).length := by
        simp only [List.length_take, List.length_drop]
        omega
      have := dynTerm_halves w r _ _ hlen
      rwa [List.take_append_drop] at this
    · exact absurd hab (by simp)

/-! ### structural clauses -/

theorem contains_cfgNames_cons_true (k : String) (l : List (String × Bool)) :
    (cfgNames ((k, true) :: l)).contains k = true := by
  simp [cfgNames]

theorem contains_cfgNames_cons_of (k k' : String) (b : Bool) (l : List (String × Bool))
    (h : (cfgNames l).contains k = true) : (cfgNames ((k', b) :: l)).contains k = true := by
  cases b
  · simpa [cfgNames] using h
  · simp only [cfgNames, List.filter_cons_of_pos, List.map_cons, List.contains_cons, Bool.or_eq_true]
    exact Or.inr (by simpa [cfgNames] using h)

theorem contains_cfgNames (k : String) (l : List (String × Bool)) (h : (k, true) ∈ l) :
    (cfgNames l).contains k = true := by
  simp only [cfgNames, List.contains_eq_mem, List.mem_map, List.mem_filter, decide_eq_true_eq]
  exact ⟨(k, true), ⟨h, rfl⟩, rfl⟩

/-- "configured, or the returned value is 0" for a term returned as `x.getD 0` -/
theorem cfg_or_zero (k : String) (x : Option ℚ) (l : List String)
    (h : x.isSome = true → l.contains k = true) : (l.contains k || x.getD 0 == 0) = true := by
  cases x with
  | none => simp
  | some a =>
    have := h rfl
    simp only [List.contains_eq_mem, decide_eq_true_eq] at this
    simp [this]

/-! ### `LossODE` -/

/-- the observation of `LossODE.evaluate` on the batch `ts` as the model produces it: `dyn` is the
    dynamic loss (weight, residual map) when configured, `ic` / `obs` the values of the
    initial-condition / observation terms when configured; `ts'` the permuted batch, `c` the scale,
    `w2` the second weight of the metamorphic re-evaluations. -/
def modelObs03ODE {T : Type} (dyn : Option (Weight × (T → List ℚ))) (ic obs : Option ℚ)
    (ts ts' : List T) (c : ℚ) (w2 : Weight) (tol : ℚ) : Obs03 :=
  let out := evalODE (dyn.map fun p => dynTerm p.1 p.2 ts) ic obs
  { keys := odeKeys
    total := out.1
    terms := odeTermList out.2
    configured := cfgNames [("dyn_loss", dyn.isSome), ("initial_condition", ic.isSome),
      ("observations", obs.isSome)]
    dyn := dyn.map fun p => modelDyn03 (fun d => (evalODE d ic obs).2.dyn) p.1 p.2 ts ts' c w2
    tol := tol }

/-- **`Holds.C03` holds on every observation of the model's `LossODE.evaluate`**: any residual
    map, any weight (scalar / per-component), any batch, any subset of configured terms, any
    permutation of the batch, any scale, any second weight of the same shape, any `0 ≤ tol`. -/
theorem holdsC03_model_ode {T : Type} (dyn : Option (Weight × (T → List ℚ))) (ic obs : Option ℚ)
    (ts ts' : List T) (hperm : ts.Perm ts') (c : ℚ) (w2 : Weight)
    (hw2 : ∀ p, dyn = some p → p.1.SameShape w2) (tol : ℚ) (htol : 0 ≤ tol) :
    holdsC03 (modelObs03ODE dyn ic obs ts ts' c w2 tol) = none := by
  apply holdsC03_of
  · simp [modelObs03ODE, odeKeys, odeTermList, List.lookup]
  · apply c03Close_of_eq htol
    simp only [modelObs03ODE, odeTermList, evalODE, List.map_cons, List.map_nil, List.sum_cons,
      List.sum_nil]
    ring
  · simp only [modelObs03ODE, odeTermList, evalODE, List.all_cons, List.all_nil, Bool.and_true,
      Bool.and_eq_true]
    refine ⟨?_, ?_, ?_⟩
    · apply cfg_or_zero
      intro h
      have : dyn.isSome = true := by simpa using h
      rw [this]
      exact contains_cfgNames_cons_true _ _
    · apply cfg_or_zero
      intro h
      rw [h]
      exact contains_cfgNames_cons_of _ _ _ _ (contains_cfgNames_cons_true _ _)
    · apply cfg_or_zero
      intro h
      rw [h]
      exact contains_cfgNames_cons_of _ _ _ _
        (contains_cfgNames_cons_of _ _ _ _ (contains_cfgNames_cons_true _ _))
  · intro d hd
    cases dyn with
    | none => simp [modelObs03ODE] at hd
    | some p =>
      simp only [modelObs03ODE, Option.map_some, Option.some.injEq] at hd
      subst hd
      have hv : ((modelObs03ODE (some p) ic obs ts ts' c w2 tol).terms.lookup "dyn_loss").getD 0 =
          dynTerm p.1 p.2 ts := by
        simp [modelObs03ODE, odeTermList, evalODE]
      rw [hv]
      exact modelDyn03_ok _ (fun v => by simp [evalODE]) p.1 p.2 ts ts' hperm c w2 (hw2 p rfl) tol htol

/-! ### `LossPDEStatio` -/

/-- the observation of `LossPDEStatio.evaluate` on the inside batch `xs` as the model produces it
    (`norm`, `boundary`, `obs`: the values of those terms when configured; the
    `initial_condition` entry is never configured). -/
def modelObs03Statio {X : Type} (dyn : Option (Weight × (X → List ℚ))) (norm boundary obs : Option ℚ)
    (xs xs' : List X) (c : ℚ) (w2 : Weight) (tol : ℚ) : Obs03 :=
  let out := evalStatio (dyn.map fun p => dynTerm p.1 p.2 xs) norm boundary obs
  { keys := pdeKeys
    total := out.1
    terms := pdeTermList out.2
    configured := cfgNames [("dyn_loss", dyn.isSome), ("norm_loss", norm.isSome),
      ("boundary_loss", boundary.isSome), ("observations", obs.isSome)]
    dyn := dyn.map fun p =>
      modelDyn03 (fun d => (evalStatio d norm boundary obs).2.dyn) p.1 p.2 xs xs' c w2
    tol := tol }

/-- **`Holds.C03` holds on every observation of the model's `LossPDEStatio.evaluate`**. -/
theorem holdsC03_model_statio {X : Type} (dyn : Option (Weight × (X → List ℚ)))
    (norm boundary obs : Option ℚ) (xs xs' : List X) (hperm : xs.Perm xs') (c : ℚ) (w2 : Weight)
    (hw2 : ∀ p, dyn = some p → p.1.SameShape w2) (tol : ℚ) (htol : 0 ≤ tol) :
    holdsC03 (modelObs03Statio dyn norm boundary obs xs xs' c w2 tol) = none := by
  apply holdsC03_of
  · simp [modelObs03Statio, pdeKeys, pdeTermList, List.lookup]
  · apply c03Close_of_eq htol
    simp only [modelObs03Statio, pdeTermList, evalStatio, List.map_cons, List.map_nil, List.sum_cons,
      List.sum_nil]
    ring
  · simp only [modelObs03Statio, pdeTermList, evalStatio, List.all_cons, List.all_nil, Bool.and_true,
      Bool.and_eq_true]
    refine ⟨?_, ?_, ?_, ?_, ?_⟩
    · apply cfg_or_zero
      intro h
      have : dyn.isSome = true := by simpa using h
      rw [this]
      exact contains_cfgNames _ _ (by simp)
    · apply cfg_or_zero
      intro h
      rw [h]
      exact contains_cfgNames _ _ (by simp)
    · apply cfg_or_zero
      intro h
      rw [h]
      exact contains_cfgNames _ _ (by simp)
    · apply cfg_or_zero
      intro h
      rw [h]
      exact contains_cfgNames _ _ (by simp)
    · simp
  · intro d hd
    cases dyn with
    | none => simp [modelObs03Statio] at hd
    | some p =>
      simp only [modelObs03Statio, Option.map_some, Option.some.injEq] at hd
      subst hd
      have hv : ((modelObs03Statio (some p) norm boundary obs xs xs' c w2 tol).terms.lookup
          "dyn_loss").getD 0 = dynTerm p.1 p.2 xs := by
        simp [modelObs03Statio, pdeTermList, evalStatio]
      rw [hv]
      exact modelDyn03_ok _ (fun v => by simp [evalStatio]) p.1 p.2 xs xs' hperm c w2 (hw2 p rfl) tol htol

/-! ### `LossPDENonStatio` -/

/-- the observation of `LossPDENonStatio.evaluate` on the inside batch `xs` (rows `(t, x)`) as the
    model produces it. -/
def modelObs03NonStatio {X : Type} (dyn : Option (Weight × (X → List ℚ)))
    (norm boundary obs ic : Option ℚ) (xs xs' : List X) (c : ℚ) (w2 : Weight) (tol : ℚ) : Obs03 :=
  let out := evalNonStatio (dyn.map fun p => dynTerm p.1 p.2 xs) norm boundary obs ic
  { keys := pdeKeys
    total := out.1
    terms := pdeTermList out.2
    configured := cfgNames [("dyn_loss", dyn.isSome), ("initial_condition", ic.isSome),
      ("norm_loss", norm.isSome), ("boundary_loss", boundary.isSome), ("observations", obs.isSome)]
    dyn := dyn.map fun p =>
      modelDyn03 (fun d => (evalNonStatio d norm boundary obs ic).2.dyn) p.1 p.2 xs xs' c w2
    tol := tol }

/-- **`Holds.C03` holds on every observation of the model's `LossPDENonStatio.evaluate`**. -/
theorem holdsC03_model_nonstatio {X : Type} (dyn : Option (Weight × (X → List ℚ)))
    (norm boundary obs ic : Option ℚ) (xs xs' : List X) (hperm : xs.Perm xs') (c : ℚ) (w2 : Weight)
    (hw2 : ∀ p, dyn = some p → p.1.SameShape w2) (tol : ℚ) (htol : 0 ≤ tol) :
    holdsC03 (modelObs03NonStatio dyn norm boundary obs ic xs xs' c w2 tol) = none := by
  apply holdsC03_of
  · simp [modelObs03NonStatio, pdeKeys, pdeTermList, List.lookup]
  · apply c03Close_of_eq htol
    simp only [modelObs03NonStatio, pdeTermList, evalNonStatio, evalStatio, List.map_cons,
      List.map_nil, List.sum_cons, List.sum_nil]
    ring
  · simp only [modelObs03NonStatio, pdeTermList, evalNonStatio, evalStatio, List.all_cons,
      List.all_nil, Bool.and_true, Bool.and_eq_true]
    refine ⟨?_, ?_, ?_, ?_, ?_⟩
    · apply cfg_or_zero
      intro h
      have : dyn.isSome = true := by simpa using h
      rw [this]
      exact contains_cfgNames _ _ (by simp)
    · apply cfg_or_zero
      intro h
      rw [h]
      exact contains_cfgNames _ _ (by simp)
    · apply cfg_or_zero
      intro h
      rw [h]
      exact contains_cfgNames _ _ (by simp)
    · apply cfg_or_zero
      intro h
      rw [h]
      exact contains_cfgNames _ _ (by simp)
    · apply cfg_or_zero
      intro h
      rw [h]
      exact contains_cfgNames _ _ (by simp)
  · intro d hd
    cases dyn with
    | none => simp [modelObs03NonStatio] at hd
    | some p =>
      simp only [modelObs03NonStatio, Option.map_some, Option.some.injEq] at hd
      subst hd
      have hv : ((modelObs03NonStatio (some p) norm boundary obs ic xs xs' c w2 tol).terms.lookup
          "dyn_loss").getD 0 = dynTerm p.1 p.2 xs := by
        simp [modelObs03NonStatio, pdeTermList, evalNonStatio, evalStatio]
      rw [hv]
      exact modelDyn03_ok _ (fun v => by simp [evalNonStatio, evalStatio]) p.1 p.2 xs xs' hperm c w2
        (hw2 p rfl) tol htol

/-! ### the observations above are read off full runs of the routed losses

Every field of `modelObs03ODE` / `…Statio` / `…NonStatio` is what `lossODE` / `lossStatio` /
`lossNonStatio` (the functions `JinnsDriver/C03.lean` runs) return: the base run for `total` and
`terms`, a run with the re-configured weight or on the re-arranged batch for each metamorphic
value (in the non-stationary loss the normalisation and initial-condition terms are re-evaluated
on the re-arranged batch too; only the `dyn_loss` entry is read). -/

/-- the five metamorphic values of `d` are the `dyn_loss` entries returned by `run w' batch` -/
def ReadsRuns {α : Type} (d : Dyn03) (run : Weight → List α → ℚ) (w w2 : Weight) (c : ℚ)
    (xs ys : List α) : Prop :=
  d.scaled = run (w.smul c) xs ∧ d.withW2 = run w2 xs ∧ d.withSum = run (w.add w2) xs ∧
  d.permuted = run w ys ∧
  d.halves = if xs.length % 2 = 0 ∧ 2 ≤ xs.length then
      some (run w (xs.take (xs.length / 2)), run w (xs.drop (xs.length / 2))) else none

theorem modelObs03ODE_reads_lossODE {T I κ : Type} [BEq κ] (w : Weight) (r : T → List ℚ)
    (ic : Option (ℚ × List (List ℚ) × List ℚ)) (obs : Option (ObsCfg I κ)) (ts ts' : List T) (c : ℚ)
    (w2 : Weight) (tol : ℚ) :
    let o := modelObs03ODE (some (w, r)) (ic.map fun (w, rows, u0) => icODE w rows u0)
      (obs.map ObsCfg.term) ts ts' c w2 tol
    o.total = (lossODE (some (w, r)) ic obs ts).1 ∧
    o.terms = odeTermList (lossODE (some (w, r)) ic obs ts).2 ∧
    ∃ d, o.dyn = some d ∧
      ReadsRuns d (fun w' b => (lossODE (some (w', r)) ic obs b).2.dyn) w w2 c ts ts' := by
  refine ⟨rfl, rfl, _, rfl, ?_⟩
  simp [ReadsRuns, modelDyn03, lossODE, evalODE]

theorem modelObs03Statio_reads_lossStatio {X S I κ : Type} [BEq κ] (w : Weight) (r : X → List ℚ)
    (norm : Option (ℚ × ℚ × Slice × (S → List ℚ) × List S)) (boundary : Option ℚ)
    (obs : Option (ObsCfg I κ)) (xs xs' : List X) (c : ℚ) (w2 : Weight) (tol : ℚ) :
    let o := modelObs03Statio (some (w, r))
      (norm.map fun (w, L, sl, u, samples) => normStatio w L sl u samples) boundary
      (obs.map ObsCfg.term) xs xs' c w2 tol
    o.total = (lossStatio (some (w, r)) norm boundary obs xs).1 ∧
    o.terms = pdeTermList (lossStatio (some (w, r)) norm boundary obs xs).2 ∧
    ∃ d, o.dyn = some d ∧
      ReadsRuns d (fun w' b => (lossStatio (some (w', r)) norm boundary obs b).2.dyn) w w2 c xs xs' := by
  refine ⟨rfl, rfl, _, rfl, ?_⟩
  simp [ReadsRuns, modelDyn03, lossStatio, evalStatio]

theorem modelObs03NonStatio_reads_lossNonStatio {T X S I κ : Type} [BEq κ] (w : Weight)
    (r : T × X → List ℚ) (norm : Option (ℚ × ℚ × Slice × (T → S → List ℚ) × List S))
    (boundary : Option ℚ) (obs : Option (ObsCfg I κ))
    (ic : Option (Weight × (X → List ℚ) × (X → List ℚ))) (xs xs' : List (T × X)) (c : ℚ)
    (w2 : Weight) (tol : ℚ) :
    let o := modelObs03NonStatio (some (w, r))
      (norm.map fun (w, L, sl, u, samples) => normNonStatio w L sl u (xs.map (·.1)) samples) boundary
      (obs.map ObsCfg.term) (ic.map fun (w, u0, uAt0) => icPDE w u0 uAt0 (xs.map (·.2))) xs xs' c w2 tol
    o.total = (lossNonStatio (some (w, r)) norm boundary obs ic xs).1 ∧
    o.terms = pdeTermList (lossNonStatio (some (w, r)) norm boundary obs ic xs).2 ∧
    ∃ d, o.dyn = some d ∧
      ReadsRuns d (fun w' b => (lossNonStatio (some (w', r)) norm boundary obs ic b).2.dyn)
        w w2 c xs xs' := by
  refine ⟨rfl, rfl, _, rfl, ?_⟩
  simp [ReadsRuns, modelDyn03, lossNonStatio, evalNonStatio, evalStatio]

/-! ### non-vacuity (C03): two residual components, a batch of four points, non-trivial weights -/

/-- per-component weight `[2, 1/2]`, second weight `[1, 3]`, scale `3/2`, residual `n ↦ [n, n + 1]`
    on the batch `[1, 2, 3, 4]` permuted to `[3, 1, 4, 2]`; initial condition configured,
    observations not: the hypotheses of `holdsC03_model_ode` are met -/
example :
    holdsC03 (modelObs03ODE (some (.vec [2, 1/2], fun n : Nat => [(n : ℚ), (n : ℚ) + 1])) (some 3) none
      [1, 2, 3, 4] [3, 1, 4, 2] (3/2) (.vec [1, 3]) 0) = none :=
  holdsC03_model_ode _ _ _ _ _ (by decide) _ _
    (by intro p hp; cases hp; simp [Weight.SameShape]) 0 (le_refl 0)

/-- … and that observation is not degenerate: the dynamic term is `87/4`, the total `99/4`, the
    two halves are recorded and differ -/
example :
    let o := modelObs03ODE (some (.vec [2, 1/2], fun n : Nat => [(n : ℚ), (n : ℚ) + 1])) (some 3) none
      [1, 2, 3, 4] [3, 1, 4, 2] (3/2) (.vec [1, 3]) 0
    o.total = 99 / 4 ∧ o.terms = [("dyn_loss", 87 / 4), ("initial_condition", 3), ("observations", 0)] ∧
    o.configured = ["dyn_loss", "initial_condition"] ∧
    (o.dyn.map (·.halves)) = some (some (33 / 4, 141 / 4)) ∧
    (o.dyn.map (·.scaled)) = some (261 / 8) ∧ (o.dyn.map (·.withSum)) = some (279 / 4) := by
  norm_num [modelObs03ODE, modelDyn03, evalODE, odeTermList, cfgNames, dynTerm, mean, wsq, sqr,
    Weight.smul, Weight.add]

/-- scalar weights, all five terms of the non-stationary loss configured, positive tolerance -/
example :
    holdsC03 (modelObs03NonStatio (some (.scalar (5/2), fun n : Nat => [(n : ℚ) - 2, 1])) (some 1) (some 2)
      (some 4) (some 8) [1, 2, 3, 4] [4, 3, 2, 1] (-1/2) (.scalar 3) (1 / 1024)) = none :=
  holdsC03_model_nonstatio _ _ _ _ _ _ _ (by decide) _ _
    (by intro p hp; cases hp; simp [Weight.SameShape]) _ (by norm_num)

/-- only the boundary term configured (no dynamic loss): the stationary hypotheses hold vacuously
    for `w2`, and the `dyn_loss`, `norm_loss`, `observations`, `initial_condition` entries are 0 -/
example :
    holdsC03 (modelObs03Statio (none : Option (Weight × (Nat → List ℚ))) none (some 7) none
      [1, 2, 3, 4] [2, 1, 4, 3] 2 (.scalar 1) 0) = none :=
  holdsC03_model_statio _ _ _ _ _ _ (by decide) _ _ (fun p hp => by simp at hp) 0 (le_refl 0)

/-! ## C05 -/

theorem c05Close_of_eq {tol a b : ℚ} (ht : 0 ≤ tol) (h : a = b) : c05Close tol a b = true := by
  subst h
  simp [c05Close, c05Abs, ht]

theorem holdsC05_of_clauses (tol : ℚ) (i1 : Option (ℚ × ℚ × List ℚ × List ℚ))
    (i2 : Option (ℚ × W05 × List (List ℚ × List ℚ))) (i3 : Option (ℚ × ℚ × ℚ × List ℚ))
    (i4 : Option (ℚ × ℚ × ℚ × List (List ℚ))) (i5 : Option (ℚ × W05 × List (List ℚ × List ℚ)))
    (c1 : (match i1 with
      | none => true
      | some (v, w, ut0, u0) => c05Close tol v (c05IcOde w ut0 u0)) = true)
    (c2 : (match i2 with
      | none => true
      | some (v, w, rows) => c05Close tol v (c05MeanRows w rows)) = true)
    (c3 : (match i3 with
      | none => true
      | some (v, w, L, us) => c05Close tol v (w * c05Dev L us)) = true)
    (c4 : (match i4 with
      | none => true
      | some (v, w, L, tbl) => c05Close tol v (w * c05Mean (tbl.map (c05Dev L)))) = true)
    (c5 : (match i5 with
      | none => true
      | some (v, w, rows) => c05Close tol v (c05MeanRows w rows)) = true) :
    holdsC05 { tol := tol, icOde := i1, icPde := i2, normStatio := i3, normNonStatio := i4, obs := i5 }
      = none := by
  unfold holdsC05
  simp only []
  split_ifs with g1 g2 g3 g4 g5
  · rcases i1 with _ | ⟨v, w, a, b⟩ <;> simp_all
  · rcases i2 with _ | ⟨v, w, rows⟩ <;> simp_all
  · rcases i3 with _ | ⟨v, w, L, us⟩ <;> simp_all
  · rcases i4 with _ | ⟨v, w, L, tbl⟩ <;> simp_all
  · rcases i5 with _ | ⟨v, w, rows⟩ <;> simp_all
  · rfl

/-- `Holds.C05` returns `none` as soon as the clause of each present entry is true -/
theorem holdsC05_of (o : Obs05)
    (h1 : ∀ v w a b, o.icOde = some (v, w, a, b) → c05Close o.tol v (c05IcOde w a b) = true)
    (h2 : ∀ v w rows, o.icPde = some (v, w, rows) → c05Close o.tol v (c05MeanRows w rows) = true)
    (h3 : ∀ v w L us, o.normStatio = some (v, w, L, us) → c05Close o.tol v (w * c05Dev L us) = true)
    (h4 : ∀ v w L tbl, o.normNonStatio = some (v, w, L, tbl) →
      c05Close o.tol v (w * c05Mean (tbl.map (c05Dev L))) = true)
    (h5 : ∀ v w rows, o.obs = some (v, w, rows) → c05Close o.tol v (c05MeanRows w rows) = true) :
    holdsC05 o = none := by
  obtain ⟨tol, i1, i2, i3, i4, i5⟩ := o
  apply holdsC05_of_clauses
  · cases i1 with
    | none => rfl
    | some p => exact h1 _ _ _ _ rfl
  · cases i2 with
    | none => rfl
    | some p => exact h2 _ _ _ rfl
  · cases i3 with
    | none => rfl
    | some p => exact h3 _ _ _ _ rfl
  · cases i4 with
    | none => rfl
    | some p => exact h4 _ _ _ _ rfl
  · cases i5 with
    | none => rfl
    | some p => exact h5 _ _ _ rfl

/-! ### the closed forms of `Holds.C05` are the model's terms -/

/-- a model weight as `Holds.C05` observes it -/
def toW05 : Weight → W05
  | .scalar a => { scalar := some a, vec := [] }
  | .vec ws => { scalar := none, vec := ws }

theorem c05Mean_eq_mean (l : List ℚ) : c05Mean l = mean l := rfl

theorem zipWith_sq_eq (a b : List ℚ) :
    List.zipWith (fun x y => (x - y) * (x - y)) a b = (sub a b).map sqr := by
  simp [sub, sqr, List.map_zipWith]

theorem zipWith_sq_comm (a b : List ℚ) :
    List.zipWith (fun x y => (x - y) * (x - y)) a b = List.zipWith (fun x y => (x - y) * (x - y)) b a := by
  rw [List.zipWith_comm]
  congr 1
  funext x y
  ring

/-- one row of `Holds.C05` = one row of the model: `Σ_c w_c (a − b)_c²` -/
theorem c05Row_eq_wsq (w : Weight) (a b : List ℚ) : c05Row (toW05 w) a b = wsq w (sub a b) := by
  cases w with
  | scalar s =>
    simp only [c05Row, toW05, wsq, zipWith_sq_eq, List.sum_map_mul_left]
  | vec ws =>
    simp only [c05Row, toW05, wsq, zipWith_sq_eq, List.zipWith_map_right]

/-- the row mean of `Holds.C05` over the pairs `(f x, g x)` = the model's mean of weighted squares -/
theorem c05MeanRows_eq {α : Type} (w : Weight) (f g : α → List ℚ) (xs : List α) :
    c05MeanRows (toW05 w) (xs.map fun x => (f x, g x)) = mean (xs.map fun x => wsq w (sub (f x) (g x))) := by
  simp only [c05MeanRows, c05Mean_eq_mean, List.map_map, Function.comp_def, c05Row_eq_wsq]

theorem c05IcOde_eq (w : ℚ) (ut0 u0 : List ℚ) : c05IcOde w ut0 u0 = icODE w [ut0] u0 := by
  rw [icODE_single, c05IcOde, zipWith_sq_eq]

/-- ODE initial condition under a parameter batch, recorded the PDE way (`harness/c05.py`): rows
    `(u0, u(t0; params_j))`, scalar weight -/
theorem c05MeanRows_icODE (w : ℚ) (rows : List (List ℚ)) (u0 : List ℚ) :
    c05MeanRows { scalar := some w, vec := [] } (rows.map fun ut0 => (u0, ut0)) = icODE w rows u0 := by
  simp only [c05MeanRows, c05Mean_eq_mean, List.map_map, Function.comp_def, c05Row, icODE]
  congr 2
  funext ut0
  rw [zipWith_sq_comm, zipWith_sq_eq]

theorem c05MeanRows_icPDE {X : Type} (w : Weight) (u0 uAt0 : X → List ℚ) (xs : List X) :
    c05MeanRows (toW05 w) (xs.map fun x => (u0 x, uAt0 x)) = icPDE w u0 uAt0 xs :=
  c05MeanRows_eq w u0 uAt0 xs

/-- the solution values `Holds.C05` is given for the normalisation term: the selected solution
    components at every sample, flattened (a vector-valued solution is averaged over its components
    too; for a scalar solution this is `samples.map v`) -/
def solValues {S : Type} (sliceSol : Slice) (u : S → List ℚ) (samples : List S) : List ℚ :=
  (samples.map fun s => sliceSol.apply (u s)).flatten

theorem solValues_scalar {S : Type} (sliceSol : Slice) (u : S → List ℚ) (v : S → ℚ) (samples : List S)
    (h : ∀ s ∈ samples, sliceSol.apply (u s) = [v s]) : solValues sliceSol u samples = samples.map v := by
  have e : (samples.map fun s => sliceSol.apply (u s)) = samples.map fun s => [v s] :=
    List.map_congr_left h
  rw [solValues, e, flatten_map_singleton]

theorem c05Dev_solValues {S : Type} (L : ℚ) (sliceSol : Slice) (u : S → List ℚ) (samples : List S) :
    c05Dev L (solValues sliceSol u samples) =
      sqr (meanAll (samples.map fun s => sliceSol.apply (u s)) * L - 1) := by
  rw [holds_dev_eq, solValues, meanAll, mul_comm]

theorem c05_normStatio_eq {S : Type} (w L : ℚ) (sliceSol : Slice) (u : S → List ℚ) (samples : List S) :
    w * c05Dev L (solValues sliceSol u samples) = normStatio w L sliceSol u samples := by
  rw [c05Dev_solValues, normStatio]

theorem c05_normNonStatio_eq {T S : Type} (w L : ℚ) (sliceSol : Slice) (u : T → S → List ℚ)
    (ts : List T) (samples : List S) :
    w * c05Mean ((ts.map fun t => solValues sliceSol (u t) samples).map (c05Dev L)) =
      normNonStatio w L sliceSol u ts samples := by
  simp only [c05Mean_eq_mean, List.map_map, Function.comp_def, c05Dev_solValues, normNonStatio]

/-- the rows `Holds.C05` is given for the observation term: for each observed row `i`, the selected
    solution components of the network at input `i` with the row-`i` parameters, and the observed
    values of row `i` -/
def ObsCfg.rows {I κ : Type} [BEq κ] (o : ObsCfg I κ) : List (List ℚ × List ℚ) :=
  (List.range o.n).map fun i =>
    (o.obsSlice.apply (o.sliceSol.apply (o.u (o.ins i) (obsRowParams o.caller o.pbatch o.observed i))),
      o.vals i)

theorem c05MeanRows_obs {I κ : Type} [BEq κ] (o : ObsCfg I κ) :
    c05MeanRows (toW05 o.w) o.rows = o.term := by
  simp only [ObsCfg.rows, ObsCfg.term, obsTerm]
  exact c05MeanRows_eq o.w _ _ _

/-! ### term by term: the model's value of each term satisfies `Holds.C05` -/

/-- an observation carrying nothing -/
def emptyObs05 (tol : ℚ) : Obs05 :=
  { tol := tol, icOde := none, icPde := none, normStatio := none, normNonStatio := none, obs := none }

/-- **ODE initial condition** (no parameter batch): the model's `icODE` with `u(t0)`, `u0`. -/
theorem holdsC05_model_icODE (w : ℚ) (ut0 u0 : List ℚ) (tol : ℚ) (ht : 0 ≤ tol) :
    holdsC05 { emptyObs05 tol with icOde := some (icODE w [ut0] u0, w, ut0, u0) } = none := by
  apply holdsC05_of
  · intro v w' a b h
    simp only [Option.some.injEq, Prod.mk.injEq] at h
    obtain ⟨rfl, rfl, rfl, rfl⟩ := h
    exact c05Close_of_eq ht (c05IcOde_eq _ _ _).symm
  · intro _ _ _ h; cases h
  · intro _ _ _ _ h; cases h
  · intro _ _ _ _ h; cases h
  · intro _ _ _ h; cases h

/-- **ODE initial condition under a parameter batch** (one row `u(t0; params_j)` per row of the
    parameter batch; recorded by the harness as rows `(u0, u(t0; params_j))` with a scalar weight). -/
theorem holdsC05_model_icODE_pbatch (w : ℚ) (rows : List (List ℚ)) (u0 : List ℚ) (tol : ℚ)
    (ht : 0 ≤ tol) :
    holdsC05 { emptyObs05 tol with
      icPde := some (icODE w rows u0, { scalar := some w, vec := [] }, rows.map fun ut0 => (u0, ut0)) }
      = none := by
  apply holdsC05_of
  · intro _ _ _ _ h; cases h
  · intro v w' r h
    simp only [Option.some.injEq, Prod.mk.injEq] at h
    obtain ⟨rfl, rfl, rfl⟩ := h
    exact c05Close_of_eq ht (c05MeanRows_icODE _ _ _).symm
  · intro _ _ _ _ h; cases h
  · intro _ _ _ _ h; cases h
  · intro _ _ _ h; cases h

/-- **PDE initial condition**: the model's `icPDE` over the spatial points `xs`, any weight. -/
theorem holdsC05_model_icPDE {X : Type} (w : Weight) (u0 uAt0 : X → List ℚ) (xs : List X) (tol : ℚ)
    (ht : 0 ≤ tol) :
    holdsC05 { emptyObs05 tol with
      icPde := some (icPDE w u0 uAt0 xs, toW05 w, xs.map fun x => (u0 x, uAt0 x)) } = none := by
  apply holdsC05_of
  · intro _ _ _ _ h; cases h
  · intro v w' r h
    simp only [Option.some.injEq, Prod.mk.injEq] at h
    obtain ⟨rfl, rfl, rfl⟩ := h
    exact c05Close_of_eq ht (c05MeanRows_icPDE _ _ _ _).symm
  · intro _ _ _ _ h; cases h
  · intro _ _ _ _ h; cases h
  · intro _ _ _ h; cases h

/-- **stationary normalisation**: the model's `normStatio`, any network, slice, sample set. -/
theorem holdsC05_model_normStatio {S : Type} (w L : ℚ) (sliceSol : Slice) (u : S → List ℚ)
    (samples : List S) (tol : ℚ) (ht : 0 ≤ tol) :
    holdsC05 { emptyObs05 tol with
      normStatio := some (normStatio w L sliceSol u samples, w, L, solValues sliceSol u samples) }
      = none := by
  apply holdsC05_of
  · intro _ _ _ _ h; cases h
  · intro _ _ _ h; cases h
  · intro v w' L' us h
    simp only [Option.some.injEq, Prod.mk.injEq] at h
    obtain ⟨rfl, rfl, rfl, rfl⟩ := h
    exact c05Close_of_eq ht (c05_normStatio_eq _ _ _ _ _).symm
  · intro _ _ _ _ h; cases h
  · intro _ _ _ h; cases h

/-- **non-stationary normalisation**: the model's `normNonStatio` over the batch times `ts`. -/
theorem holdsC05_model_normNonStatio {T S : Type} (w L : ℚ) (sliceSol : Slice) (u : T → S → List ℚ)
    (ts : List T) (samples : List S) (tol : ℚ) (ht : 0 ≤ tol) :
    holdsC05 { emptyObs05 tol with
      normNonStatio := some (normNonStatio w L sliceSol u ts samples, w, L,
        ts.map fun t => solValues sliceSol (u t) samples) } = none := by
  apply holdsC05_of
  · intro _ _ _ _ h; cases h
  · intro _ _ _ h; cases h
  · intro _ _ _ _ h; cases h
  · intro v w' L' tbl h
    simp only [Option.some.injEq, Prod.mk.injEq] at h
    obtain ⟨rfl, rfl, rfl, rfl⟩ := h
    exact c05Close_of_eq ht (c05_normNonStatio_eq _ _ _ _ _ _).symm
  · intro _ _ _ h; cases h

/-- **observations**: the model's `obsTerm` (row-aligned observed parameters, `slice_solution` then
    `obs_slice`), any weight. -/
theorem holdsC05_model_obs {I κ : Type} [BEq κ] (o : ObsCfg I κ) (tol : ℚ) (ht : 0 ≤ tol) :
    holdsC05 { emptyObs05 tol with obs := some (o.term, toW05 o.w, o.rows) } = none := by
  apply holdsC05_of
  · intro _ _ _ _ h; cases h
  · intro _ _ _ h; cases h
  · intro _ _ _ _ h; cases h
  · intro _ _ _ _ h; cases h
  · intro v w' r h
    simp only [Option.some.injEq, Prod.mk.injEq] at h
    obtain ⟨rfl, rfl, rfl⟩ := h
    exact c05Close_of_eq ht (c05MeanRows_obs o).symm

/-! ### loss by loss: every C05 entry of a full run of the model's `evaluate` at once -/

/-- what `harness/c05.py` records of `LossODE.evaluate` (no parameter batch), produced by the model:
    the `initial_condition` and `observations` entries of the run `lossODE dyn ic obs ts`. -/
def modelObs05ODE {T I κ : Type} [BEq κ] (dyn : Option (Weight × (T → List ℚ)))
    (ic : Option (ℚ × List ℚ × List ℚ)) (obs : Option (ObsCfg I κ)) (ts : List T) (tol : ℚ) : Obs05 :=
  let out := lossODE dyn (ic.map fun (w, ut0, u0) => (w, [ut0], u0)) obs ts
  { emptyObs05 tol with
    icOde := ic.map fun (w, ut0, u0) => (out.2.ic, w, ut0, u0)
    obs := obs.map fun o => (out.2.obs, toW05 o.w, o.rows) }

/-- the same under a parameter batch: `ic` carries one row `u(t0; params_j)` per row of the
    parameter batch, recorded the PDE way. -/
def modelObs05ODEpbatch {T I κ : Type} [BEq κ] (dyn : Option (Weight × (T → List ℚ)))
    (ic : Option (ℚ × List (List ℚ) × List ℚ)) (obs : Option (ObsCfg I κ)) (ts : List T) (tol : ℚ) :
    Obs05 :=
  let out := lossODE dyn ic obs ts
  { emptyObs05 tol with
    icPde := ic.map fun (w, rows, u0) =>
      (out.2.ic, { scalar := some w, vec := [] }, rows.map fun ut0 => (u0, ut0))
    obs := obs.map fun o => (out.2.obs, toW05 o.w, o.rows) }

/-- `LossPDEStatio.evaluate`: the `norm_loss` and `observations` entries of `lossStatio …`. -/
def modelObs05Statio {X S I κ : Type} [BEq κ] (dyn : Option (Weight × (X → List ℚ)))
    (norm : Option (ℚ × ℚ × Slice × (S → List ℚ) × List S)) (boundary : Option ℚ)
    (obs : Option (ObsCfg I κ)) (inside : List X) (tol : ℚ) : Obs05 :=
  let out := lossStatio dyn norm boundary obs inside
  { emptyObs05 tol with
    normStatio := norm.map fun (w, L, sl, u, samples) => (out.2.norm, w, L, solValues sl u samples)
    obs := obs.map fun o => (out.2.obs, toW05 o.w, o.rows) }

/-- `LossPDENonStatio.evaluate` on the batch `inside` of rows `(t, x)`: the `initial_condition`
    entry against the tables at the space column, the `norm_loss` entry against the tables at the
    time column × samples, the `observations` entry. -/
def modelObs05NonStatio {T X S I κ : Type} [BEq κ] (dyn : Option (Weight × (T × X → List ℚ)))
    (norm : Option (ℚ × ℚ × Slice × (T → S → List ℚ) × List S)) (boundary : Option ℚ)
    (obs : Option (ObsCfg I κ)) (ic : Option (Weight × (X → List ℚ) × (X → List ℚ)))
    (inside : List (T × X)) (tol : ℚ) : Obs05 :=
  let out := lossNonStatio dyn norm boundary obs ic inside
  { emptyObs05 tol with
    icPde := ic.map fun (w, u0, uAt0) =>
      (out.2.ic, toW05 w, (inside.map (·.2)).map fun x => (u0 x, uAt0 x))
    normNonStatio := norm.map fun (w, L, sl, u, samples) =>
      (out.2.norm, w, L, (inside.map (·.1)).map fun t => solValues sl (u t) samples)
    obs := obs.map fun o => (out.2.obs, toW05 o.w, o.rows) }

/-- **`Holds.C05` holds on every observation of the model's `LossODE.evaluate`** (any subset of
    configured terms, any network / initial state / observation table / weight, any `0 ≤ tol`). -/
theorem holdsC05_model_ode {T I κ : Type} [BEq κ] (dyn : Option (Weight × (T → List ℚ)))
    (ic : Option (ℚ × List ℚ × List ℚ)) (obs : Option (ObsCfg I κ)) (ts : List T) (tol : ℚ)
    (ht : 0 ≤ tol) : holdsC05 (modelObs05ODE dyn ic obs ts tol) = none := by
  apply holdsC05_of
  · intro v w a b h
    rcases ic with _ | ⟨w0, ut0, u0⟩
    · cases h
    · simp only [modelObs05ODE, Option.map_some, Option.some.injEq, Prod.mk.injEq] at h
      obtain ⟨rfl, rfl, rfl, rfl⟩ := h
      apply c05Close_of_eq ht
      simp only [lossODE, evalODE, Option.map_some, Option.getD_some]
      exact (c05IcOde_eq _ _ _).symm
  · intro _ _ _ h; cases h
  · intro _ _ _ _ h; cases h
  · intro _ _ _ _ h; cases h
  · intro v w r h
    rcases obs with _ | o
    · cases h
    · simp only [modelObs05ODE, Option.map_some, Option.some.injEq, Prod.mk.injEq] at h
      obtain ⟨rfl, rfl, rfl⟩ := h
      apply c05Close_of_eq ht
      simp only [lossODE, evalODE, Option.map_some, Option.getD_some]
      exact (c05MeanRows_obs o).symm

/-- **… under a parameter batch** (the initial-condition term is the mean over the rows). -/
theorem holdsC05_model_ode_pbatch {T I κ : Type} [BEq κ] (dyn : Option (Weight × (T → List ℚ)))
    (ic : Option (ℚ × List (List ℚ) × List ℚ)) (obs : Option (ObsCfg I κ)) (ts : List T) (tol : ℚ)
    (ht : 0 ≤ tol) : holdsC05 (modelObs05ODEpbatch dyn ic obs ts tol) = none := by
  apply holdsC05_of
  · intro _ _ _ _ h; cases h
  · intro v w r h
    rcases ic with _ | ⟨w0, rows, u0⟩
    · cases h
    · simp only [modelObs05ODEpbatch, Option.map_some, Option.some.injEq, Prod.mk.injEq] at h
      obtain ⟨rfl, rfl, rfl⟩ := h
      apply c05Close_of_eq ht
      simp only [lossODE, evalODE, Option.map_some, Option.getD_some]
      exact (c05MeanRows_icODE _ _ _).symm
  · intro _ _ _ _ h; cases h
  · intro _ _ _ _ h; cases h
  · intro v w r h
    rcases obs with _ | o
    · cases h
    · simp only [modelObs05ODEpbatch, Option.map_some, Option.some.injEq, Prod.mk.injEq] at h
      obtain ⟨rfl, rfl, rfl⟩ := h
      apply c05Close_of_eq ht
      simp only [lossODE, evalODE, Option.map_some, Option.getD_some]
      exact (c05MeanRows_obs o).symm

/-- **`Holds.C05` holds on every observation of the model's `LossPDEStatio.evaluate`**. -/
theorem holdsC05_model_statio {X S I κ : Type} [BEq κ] (dyn : Option (Weight × (X → List ℚ)))
    (norm : Option (ℚ × ℚ × Slice × (S → List ℚ) × List S)) (boundary : Option ℚ)
    (obs : Option (ObsCfg I κ)) (inside : List X) (tol : ℚ) (ht : 0 ≤ tol) :
    holdsC05 (modelObs05Statio dyn norm boundary obs inside tol) = none := by
  apply holdsC05_of
  · intro _ _ _ _ h; cases h
  · intro _ _ _ h; cases h
  · intro v w L us h
    rcases norm with _ | ⟨w0, L0, sl, u, samples⟩
    · cases h
    · simp only [modelObs05Statio, Option.map_some, Option.some.injEq, Prod.mk.injEq] at h
      obtain ⟨rfl, rfl, rfl, rfl⟩ := h
      apply c05Close_of_eq ht
      simp only [lossStatio, evalStatio, Option.map_some, Option.getD_some]
      exact (c05_normStatio_eq _ _ _ _ _).symm
  · intro _ _ _ _ h; cases h
  · intro v w r h
    rcases obs with _ | o
    · cases h
    · simp only [modelObs05Statio, Option.map_some, Option.some.injEq, Prod.mk.injEq] at h
      obtain ⟨rfl, rfl, rfl⟩ := h
      apply c05Close_of_eq ht
      simp only [lossStatio, evalStatio, Option.map_some, Option.getD_some]
      exact (c05MeanRows_obs o).symm

/-- **`Holds.C05` holds on every observation of the model's `LossPDENonStatio.evaluate`**: initial
    condition at `t = 0` over the space column, normalisation over the time column, observations. -/
theorem holdsC05_model_nonstatio {T X S I κ : Type} [BEq κ] (dyn : Option (Weight × (T × X → List ℚ)))
    (norm : Option (ℚ × ℚ × Slice × (T → S → List ℚ) × List S)) (boundary : Option ℚ)
    (obs : Option (ObsCfg I κ)) (ic : Option (Weight × (X → List ℚ) × (X → List ℚ)))
    (inside : List (T × X)) (tol : ℚ) (ht : 0 ≤ tol) :
    holdsC05 (modelObs05NonStatio dyn norm boundary obs ic inside tol) = none := by
  apply holdsC05_of
  · intro _ _ _ _ h; cases h
  · intro v w r h
    rcases ic with _ | ⟨w0, u0, uAt0⟩
    · cases h
    · simp only [modelObs05NonStatio, Option.map_some, Option.some.injEq, Prod.mk.injEq] at h
      obtain ⟨rfl, rfl, rfl⟩ := h
      apply c05Close_of_eq ht
      simp only [lossNonStatio, evalNonStatio, evalStatio, Option.map_some, Option.getD_some]
      exact (c05MeanRows_icPDE _ _ _ _).symm
  · intro _ _ _ _ h; cases h
  · intro v w L tbl h
    rcases norm with _ | ⟨w0, L0, sl, u, samples⟩
    · cases h
    · simp only [modelObs05NonStatio, Option.map_some, Option.some.injEq, Prod.mk.injEq] at h
      obtain ⟨rfl, rfl, rfl, rfl⟩ := h
      apply c05Close_of_eq ht
      simp only [lossNonStatio, evalNonStatio, evalStatio, Option.map_some, Option.getD_some]
      exact (c05_normNonStatio_eq _ _ _ _ _ _).symm
  · intro v w r h
    rcases obs with _ | o
    · cases h
    · simp only [modelObs05NonStatio, Option.map_some, Option.some.injEq, Prod.mk.injEq] at h
      obtain ⟨rfl, rfl, rfl⟩ := h
      apply c05Close_of_eq ht
      simp only [lossNonStatio, evalNonStatio, evalStatio, Option.map_some, Option.getD_some]
      exact (c05MeanRows_obs o).symm

/-! ### separable networks (SPINN) -/

theorem solValues_none {S : Type} (u : S → List ℚ) (samples : List S) :
    solValues none u samples = (samples.map u).flatten := by
  simp [solValues, Slice.apply]

/-- `LossPDEStatio` around a SPINN: the solution tables are those on the tensor grid of the sample
    coordinate columns. -/
def modelObs05StatioSpinn (d : Nat) (norm : Option (ℚ × ℚ × (List ℚ → List ℚ) × List (List ℚ)))
    (boundary : Option ℚ) (tol : ℚ) : Obs05 :=
  let out := lossStatioSpinn d norm boundary
  { emptyObs05 tol with
    normStatio := norm.map fun (w, L, u, samples) => (out.2.norm, w, L, solValues none u (gridPts d samples)) }

theorem holdsC05_model_statio_spinn (d : Nat)
    (norm : Option (ℚ × ℚ × (List ℚ → List ℚ) × List (List ℚ))) (boundary : Option ℚ) (tol : ℚ)
    (ht : 0 ≤ tol) : holdsC05 (modelObs05StatioSpinn d norm boundary tol) = none := by
  apply holdsC05_of
  · intro _ _ _ _ h; cases h
  · intro _ _ _ h; cases h
  · intro v w L us h
    rcases norm with _ | ⟨w0, L0, u, samples⟩
    · cases h
    · simp only [modelObs05StatioSpinn, Option.map_some, Option.some.injEq, Prod.mk.injEq] at h
      obtain ⟨rfl, rfl, rfl, rfl⟩ := h
      apply c05Close_of_eq ht
      simp only [lossStatioSpinn, evalStatio, Option.map_some, Option.getD_some]
      exact (c05_normStatio_eq _ _ _ _ _).symm
  · intro _ _ _ _ h; cases h
  · intro _ _ _ h; cases h

/-- `LossPDENonStatio` around a SPINN: initial condition on the tensor grid of the space columns of
    the batch; normalisation tables at the *batch* times (each once) × the sample grid, although
    the code evaluates the network at the times repeated `n_samples / n_times` times. -/
def modelObs05NonStatioSpinn (d : Nat)
    (norm : Option (ℚ × ℚ × (ℚ → List ℚ → List ℚ) × List (List ℚ))) (boundary : Option ℚ)
    (ic : Option (Weight × (List ℚ → List ℚ) × (List ℚ → List ℚ))) (inside : List (ℚ × List ℚ))
    (tol : ℚ) : Obs05 :=
  let out := lossNonStatioSpinn d norm boundary ic inside
  { emptyObs05 tol with
    icPde := ic.map fun (w, u0, uAt0) =>
      (out.2.ic, toW05 w, (gridPts d (inside.map (·.2))).map fun x => (u0 x, uAt0 x))
    normNonStatio := norm.map fun (w, L, u, samples) =>
      (out.2.norm, w, L, (inside.map (·.1)).map fun t => solValues none (u t) (gridPts d samples)) }

/-- hypothesis: when a normalisation is configured there are at least as many samples as batch
    times (the code asserts `n_samples % n_times == 0`, `normSpinnRejected`; with a non-empty sample
    set this gives `n_samples / n_times ≥ 1`). -/
theorem holdsC05_model_nonstatio_spinn (d : Nat)
    (norm : Option (ℚ × ℚ × (ℚ → List ℚ → List ℚ) × List (List ℚ))) (boundary : Option ℚ)
    (ic : Option (Weight × (List ℚ → List ℚ) × (List ℚ → List ℚ))) (inside : List (ℚ × List ℚ))
    (hrep : ∀ w L u samples, norm = some (w, L, u, samples) → 0 < samples.length / inside.length)
    (tol : ℚ) (ht : 0 ≤ tol) :
    holdsC05 (modelObs05NonStatioSpinn d norm boundary ic inside tol) = none := by
  apply holdsC05_of
  · intro _ _ _ _ h; cases h
  · intro v w r h
    rcases ic with _ | ⟨w0, u0, uAt0⟩
    · cases h
    · simp only [modelObs05NonStatioSpinn, Option.map_some, Option.some.injEq, Prod.mk.injEq] at h
      obtain ⟨rfl, rfl, rfl⟩ := h
      apply c05Close_of_eq ht
      rw [icSpinn_closed_form]
      exact (c05MeanRows_icPDE _ _ _ _).symm
  · intro _ _ _ _ h; cases h
  · intro v w L tbl h
    rcases norm with _ | ⟨w0, L0, u, samples⟩
    · cases h
    · simp only [modelObs05NonStatioSpinn, Option.map_some, Option.some.injEq, Prod.mk.injEq] at h
      obtain ⟨rfl, rfl, rfl, rfl⟩ := h
      apply c05Close_of_eq ht
      rw [normNonStatioSpinn_closed_form d w0 L0 u samples boundary ic inside (hrep _ _ _ _ rfl),
        c05_normNonStatio_eq]
      simp only [normNonStatio, Slice.apply]
  · intro _ _ _ h; cases h

/-! ### non-vacuity (C05): two components, four points, non-trivial weights -/

/-- a fully configured non-stationary loss on the batch `(0,1), (1,2), (0,3), (1,4)`:
    initial condition `u0(x) = [x, 1]` against `u(0, x) = [0, x]` with the per-component weight
    `[2, 1/2]`; normalisation of `u(t, s) = [t + s, 5]`, `slice_solution = [0:1]`, samples `0, 1`,
    `L = 2`, weight `3`; four observation rows with an observed parameter `theta` (rows 1 … 4,
    caller's value 5), `u(i; θ) = [θ · i, 1]`, weight `2`. -/
def exNonStatio : Obs05 :=
  modelObs05NonStatio (T := Nat) (X := Nat) (S := ℚ) (I := ℚ) (κ := String) none
    (some (3, 2, some (0, 1), fun t s => [(t : ℚ) + s, 5], [0, 1])) none
    (some { w := .scalar 2, u := fun i p => [((p.lookup "theta").getD 0) * i, 1], sliceSol := some (0, 1),
            obsSlice := none, caller := [("theta", 5)], pbatch := [], observed := [("theta", [1, 2, 3, 4])],
            ins := fun i => (i : ℚ) + 1, vals := fun _ => [0], n := 4 })
    (some (.vec [2, 1/2], fun x => [(x : ℚ), 1], fun x => [0, (x : ℚ)]))
    [(0, 1), (1, 2), (0, 3), (1, 4)] 0

example : holdsC05 exNonStatio = none := holdsC05_model_nonstatio _ _ _ _ _ _ 0 (le_refl 0)

/-- the three entries are present and non-zero: `67/4`, `6`, `177` -/
example : exNonStatio.icPde.map (·.1) = some (67 / 4) ∧ exNonStatio.normNonStatio.map (·.1) = some 6 ∧
    exNonStatio.obs.map (·.1) = some 177 := by
  norm_num [exNonStatio, modelObs05NonStatio, emptyObs05, lossNonStatio, evalNonStatio, evalStatio, icPDE,
    normNonStatio, ObsCfg.term, obsTerm, dynTerm, mean, meanAll, wsq, sqr, LossTerms.sub, Slice.apply,
    obsRowParams, rowParams, List.lookup, List.range_succ]

/-- ODE: two components, `u(t0) = [1, 2]`, `u0 = [0, 4]`, weight `3`: the entry is `15` -/
example : holdsC05 (modelObs05ODE (T := ℚ) (I := ℚ) (κ := String) none (some (3, [1, 2], [0, 4])) none [] 0)
    = none := holdsC05_model_ode _ _ _ _ 0 (le_refl 0)
example : (modelObs05ODE (T := ℚ) (I := ℚ) (κ := String) none (some (3, [1, 2], [0, 4])) none [] 0).icOde
    = some (15, 3, [1, 2], [0, 4]) := by
  norm_num [modelObs05ODE, emptyObs05, lossODE, evalODE, icODE, mean, LossTerms.sub, sqr]

/-- stationary normalisation of a two-component solution (both components averaged): samples
    `0, 1, 2, 3`, `u(s) = [s, 1]`, `L = 1/2`, weight `3` -/
example : holdsC05 { emptyObs05 0 with
    normStatio := some (normStatio 3 (1/2) none (fun s : ℚ => [s, 1]) [0, 1, 2, 3], 3, 1/2,
      solValues none (fun s : ℚ => [s, 1]) [0, 1, 2, 3]) } = none :=
  holdsC05_model_normStatio _ _ _ _ _ 0 (le_refl 0)
example : normStatio 3 (1/2) none (fun s : ℚ => [s, 1]) [0, 1, 2, 3] = 27 / 64 ∧
    solValues none (fun s : ℚ => [s, 1]) [0, 1, 2, 3] = [0, 1, 1, 1, 2, 1, 3, 1] := by
  norm_num [normStatio, solValues, meanAll, mean, sqr, Slice.apply]

/-- the hypothesis of `holdsC05_model_nonstatio_spinn`: 2 batch times, 4 samples -/
example : ∀ (w L : ℚ) (u : ℚ → List ℚ → List ℚ) (samples : List (List ℚ)),
    (some ((3 : ℚ), (2 : ℚ), (fun (t : ℚ) (s : List ℚ) => [t + s.sum]), [[(0 : ℚ)], [1], [2], [3]]) :
      Option (ℚ × ℚ × (ℚ → List ℚ → List ℚ) × List (List ℚ))) = some (w, L, u, samples) →
    0 < samples.length / ([((0 : ℚ), [(1 : ℚ)]), (1, [2])] : List (ℚ × List ℚ)).length := by
  intro w L u samples h
  simp only [Option.some.injEq, Prod.mk.injEq] at h
  obtain ⟨_, _, _, rfl⟩ := h
  decide

end Jinns.LossTerms
