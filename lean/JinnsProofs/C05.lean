/-
C05 — Initial-condition, normalisation and observation terms match their definitions.
Property theorems about `JinnsModel/LossTerms.lean`, for every network, initial state / function,
sample set, volume, observation table, slice and weight.
-/
import JinnsModel.LossTerms
import JinnsModel.HoldsC05
import JinnsProofs.C03
import Mathlib.Tactic.Ring
import Mathlib.Tactic.FieldSimp
import Mathlib.Tactic.Linarith
import Mathlib.Tactic.Positivity
import Mathlib.Tactic.NormNum
import Mathlib.Algebra.BigOperators.Group.List.Basic
import Mathlib.Algebra.BigOperators.Ring.List
import Mathlib.Algebra.Order.Field.Rat

namespace Jinns.LossTerms

/-! ### initial condition -/

/-- **ODE initial condition** (no parameter batch): `w · Σ_c (u(t0) − u0)_c²`. -/
theorem icODE_single (w : ℚ) (ut0 u0 : List ℚ) :
    icODE w [ut0] u0 = w * ((sub ut0 u0).map sqr).sum := by
  simp [icODE, mean]

/-- **PDE initial condition**: `(1/|xs|) Σ_{x ∈ xs} Σ_c w_c (u0(x) − u(0, x))_c²`; it is the
    dynamic-term aggregation of the residual map `x ↦ u0(x) − u(0, x)` (hence permutation
    invariant etc., by the C03 theorems). -/
theorem icPDE_closed_form {X : Type} (w : Weight) (u0 uAt0 : X → List ℚ) (xs : List X) :
    icPDE w u0 uAt0 xs = (xs.map fun x => wsq w (sub (u0 x) (uAt0 x))).sum / (xs.length : ℚ) ∧
    icPDE w u0 uAt0 xs = dynTerm w (fun x => sub (u0 x) (uAt0 x)) xs := by
  constructor
  · simp [icPDE, mean]
  · rfl

/-- **the initial condition is taken at `t = 0` over the spatial points of the batch**: the
    `initial_condition` entry of the non-stationary loss reads only the space column of the inside
    batch — two batches with the same spatial points and any times give the same entry. -/
theorem lossNonStatio_ic_ignores_times {T X S I κ : Type} [BEq κ]
    (dyn dyn' : Option (Weight × (T × X → List ℚ)))
    (norm norm' : Option (ℚ × ℚ × Slice × (T → S → List ℚ) × List S)) (boundary boundary' : Option ℚ)
    (obs obs' : Option (ObsCfg I κ)) (ic : Option (Weight × (X → List ℚ) × (X → List ℚ)))
    (inside inside' : List (T × X)) (h : inside.map (·.2) = inside'.map (·.2)) :
    (lossNonStatio dyn norm boundary obs ic inside).2.ic =
      (lossNonStatio dyn' norm' boundary' obs' ic inside').2.ic := by
  simp [lossNonStatio, evalNonStatio, evalStatio, h]

/-! ### normalisation -/

theorem flatten_map_singleton {α : Type} (v : α → ℚ) (l : List α) :
    (l.map fun s => [v s]).flatten = l.map v := by
  induction l with
  | nil => rfl
  | cons a l ih => simp [ih]

/-- **stationary normalisation, scalar solution**: `w · (L · mean_s u(s) − 1)²`, the squared
    deviation from 1 of the Monte-Carlo integral. -/
theorem normStatio_scalar {S : Type} (w L : ℚ) (sliceSol : Slice) (u : S → List ℚ) (v : S → ℚ)
    (samples : List S) (h : ∀ s ∈ samples, sliceSol.apply (u s) = [v s]) :
    normStatio w L sliceSol u samples = w * sqr (L * mean (samples.map v) - 1) := by
  have e : (samples.map fun s => sliceSol.apply (u s)) = samples.map fun s => [v s] :=
    List.map_congr_left h
  simp only [normStatio, meanAll, e, flatten_map_singleton, mul_comm]

/-- **non-stationary normalisation, scalar solution**: `w · mean_t (L · mean_s u(t, s) − 1)²`. -/
theorem normNonStatio_scalar {T S : Type} (w L : ℚ) (sliceSol : Slice) (u : T → S → List ℚ)
    (v : T → S → ℚ) (ts : List T) (samples : List S)
    (h : ∀ t ∈ ts, ∀ s ∈ samples, sliceSol.apply (u t s) = [v t s]) :
    normNonStatio w L sliceSol u ts samples =
      w * mean (ts.map fun t => sqr (L * mean (samples.map (v t)) - 1)) := by
  have e : (ts.map fun t => sqr (meanAll (samples.map fun s => sliceSol.apply (u t s)) * L - 1)) =
      ts.map fun t => sqr (L * mean (samples.map (v t)) - 1) := by
    apply List.map_congr_left
    intro t ht
    have e' : (samples.map fun s => sliceSol.apply (u t s)) = samples.map fun s => [v t s] :=
      List.map_congr_left (h t ht)
    simp only [meanAll, e', flatten_map_singleton, mul_comm]
  simp only [normNonStatio, e]

/-- the deviation `Holds.C05` compares the normalisation terms with is the one of the two theorems
    above -/
theorem holds_dev_eq (L : ℚ) (us : List ℚ) : Jinns.Holds.c05Dev L us = sqr (L * mean us - 1) := rfl

theorem sum_map_sq_sub (l : List ℚ) (m : ℚ) :
    (l.map fun a => sqr (a - m)).sum =
      (l.map fun a => sqr a).sum - 2 * m * l.sum + (l.length : ℚ) * sqr m := by
  induction l with
  | nil => simp [sqr]
  | cons a l ih =>
    simp only [List.map_cons, List.sum_cons, List.length_cons, Nat.cast_add, Nat.cast_one]
    rw [ih]
    simp only [sqr]
    ring

/-- **mean of squared deviations − squared deviation of the mean = `L²` · variance** -/
theorem mean_sq_dev_sub_sq_dev_mean (L : ℚ) (l : List ℚ) (hl : l ≠ []) :
    mean (l.map fun a => sqr (L * a - 1)) - sqr (L * mean l - 1) =
      sqr L * mean (l.map fun a => sqr (a - mean l)) := by
  have hn : (l.length : ℚ) ≠ 0 := by
    have : l.length ≠ 0 := by simpa using hl
    exact_mod_cast this
  have h1 : (l.map fun a => sqr (L * a - 1)).sum =
      sqr L * (l.map fun a => sqr a).sum - 2 * L * l.sum + (l.length : ℚ) := by
    clear hn hl
    induction l with
    | nil => simp
    | cons a l ih =>
      simp only [List.map_cons, List.sum_cons, List.length_cons, Nat.cast_add, Nat.cast_one]
      rw [ih]
      simp only [sqr]
      ring
  simp only [mean, List.length_map]
  rw [h1, sum_map_sq_sub]
  simp only [sqr]
  field_simp
  ring

theorem sum_map_sq_nonneg {α : Type} (f : α → ℚ) (l : List α) : 0 ≤ (l.map fun a => sqr (f a)).sum := by
  induction l with
  | nil => simp
  | cons a l ih =>
    simp only [List.map_cons, List.sum_cons, sqr] at ih ⊢
    have := mul_self_nonneg (f a)
    linarith

theorem sum_map_sq_pos {α : Type} (f : α → ℚ) (l : List α) (h : ∃ a ∈ l, f a ≠ 0) :
    0 < (l.map fun a => sqr (f a)).sum := by
  induction l with
  | nil => simp at h
  | cons b l ih =>
    obtain ⟨a, ha, hfa⟩ := h
    rcases List.mem_cons.1 ha with rfl | hmem
    · have h1 : 0 < f a * f a := mul_self_pos.2 hfa
      have h2 := sum_map_sq_nonneg f l
      simp only [List.map_cons, List.sum_cons, sqr] at h2 ⊢
      linarith
    · have h1 := mul_self_nonneg (f b)
      have h2 := ih ⟨a, hmem, hfa⟩
      simp only [List.map_cons, List.sum_cons, sqr] at h2 ⊢
      linarith

/-- a list that is not constant has an element different from its mean -/
theorem exists_ne_mean (l : List ℚ) (h : ∃ a ∈ l, ∃ b ∈ l, a ≠ b) : ∃ a ∈ l, a - mean l ≠ 0 := by
  by_contra hc
  push Not at hc
  obtain ⟨a, ha, b, hb, hab⟩ := h
  have h1 := hc a ha
  have h2 := hc b hb
  apply hab
  linarith

/-- **the distinction is not vacuous**: as soon as `u` is not constant on the samples (and `L ≠ 0`,
    `w ≠ 0`), the squared deviation of the mean `w (L·mean_s u(s) − 1)²` differs from the mean of the
    squared pointwise deviations `w · mean_s (L·u(s) − 1)²` — and is strictly smaller for `w > 0`. -/
theorem normStatio_ne_mean_of_sq_dev (w L : ℚ) (l : List ℚ) (hL : L ≠ 0)
    (h : ∃ a ∈ l, ∃ b ∈ l, a ≠ b) :
    sqr (L * mean l - 1) < mean (l.map fun a => sqr (L * a - 1)) ∧
    (w ≠ 0 → w * sqr (L * mean l - 1) ≠ w * mean (l.map fun a => sqr (L * a - 1))) := by
  have hl : l ≠ [] := by
    rintro rfl
    obtain ⟨a, ha, _⟩ := h
    simp at ha
  have hn : (0 : ℚ) < (l.length : ℚ) := by
    have : 0 < l.length := List.length_pos_iff.2 hl
    exact_mod_cast this
  have hvar : 0 < mean (l.map fun a => sqr (a - mean l)) := by
    unfold mean
    rw [List.length_map]
    exact div_pos (sum_map_sq_pos (fun a => a - (l.sum / (l.length : ℚ))) l
      (by simpa [mean] using exists_ne_mean l h)) hn
  have hL2 : 0 < sqr L := mul_self_pos.2 hL
  have key := mean_sq_dev_sub_sq_dev_mean L l hl
  have hlt : sqr (L * mean l - 1) < mean (l.map fun a => sqr (L * a - 1)) := by
    have := mul_pos hL2 hvar
    linarith
  refine ⟨hlt, fun hw heq => ?_⟩
  have := mul_left_cancel₀ hw heq
  linarith

/-! ### separable networks (SPINN): which grid, and how a vector-valued `u` is treated -/

/-- for an `m`-component `u` the mean over axes `(grid, components)` is the mean over the grid of
    the component means: a vector-valued `u` is averaged over its components as well -/
theorem meanAll_map_eq_mean_of_means {α : Type} (u : α → List ℚ) (pts : List α) (m : Nat)
    (h : ∀ p, (u p).length = m) : meanAll (pts.map u) = mean (pts.map fun p => mean (u p)) := by
  have : (pts.map u).flatten = pts.flatMap u := by
    induction pts with
    | nil => rfl
    | cons a l ih => simp [List.flatMap_cons, ih]
  rw [meanAll, this]
  exact mean_flatMap_const pts u m h

/-- **stationary SPINN normalisation**: `w (L · mean over the tensor grid of the sample coordinate
    columns (and over the components) of u − 1)²`. -/
theorem normStatioSpinn_closed_form (d : Nat) (w L : ℚ) (u : List ℚ → List ℚ) (samples : List (List ℚ))
    (boundary : Option ℚ) :
    (lossStatioSpinn d (some (w, L, u, samples)) boundary).2.norm =
      w * sqr (meanAll ((gridPts d samples).map u) * L - 1) := by
  simp [lossStatioSpinn, evalStatio, normStatio, Slice.apply]

theorem mean_repTimes {T : Type} (f : T → ℚ) (ts : List T) (ns : Nat) (h : 0 < ns / ts.length) :
    mean ((repTimes ts ns).map f) = mean (ts.map f) := by
  unfold repTimes
  rw [List.map_flatMap]
  rw [mean_flatMap_const ts _ (ns / ts.length) (by intro t; simp)]
  congr 1
  apply List.map_congr_left
  intro t _
  rw [List.map_replicate]
  have hpos : ns / ts.length ≠ 0 := by omega
  have hne : List.replicate (ns / ts.length) (f t) ≠ [] := by simpa using hpos
  have := mean_map_const (List.replicate (ns / ts.length) (f t)) (f t) hne
  simpa using this

/-- **non-stationary SPINN normalisation**: the times of the batch are repeated `n_samples / n_times`
    times to match the sample count; the term is nevertheless
    `w · mean over the batch times of (L · mean over the sample grid and components of u(t, ·) − 1)²`,
    whatever the ratio (1×, 2×, 3× …). -/
theorem normNonStatioSpinn_closed_form (d : Nat) (w L : ℚ) (u : ℚ → List ℚ → List ℚ)
    (samples : List (List ℚ)) (boundary : Option ℚ)
    (ic : Option (Weight × (List ℚ → List ℚ) × (List ℚ → List ℚ))) (inside : List (ℚ × List ℚ))
    (h : 0 < samples.length / inside.length) :
    (lossNonStatioSpinn d (some (w, L, u, samples)) boundary ic inside).2.norm =
      w * mean ((inside.map (·.1)).map fun t =>
        sqr (meanAll ((gridPts d samples).map (u t)) * L - 1)) := by
  have h' : 0 < samples.length / (inside.map (·.1)).length := by simpa using h
  simp only [lossNonStatioSpinn, evalNonStatio, evalStatio, Option.map_some, Option.getD_some,
    normNonStatio, Slice.apply]
  rw [mean_repTimes _ _ _ h']

/-- **SPINN initial condition**: the PDE initial-condition aggregation over the tensor grid of the
    space columns of the inside batch, at `t = 0`. -/
theorem icSpinn_closed_form (d : Nat)
    (norm : Option (ℚ × ℚ × (ℚ → List ℚ → List ℚ) × List (List ℚ))) (boundary : Option ℚ)
    (w : Weight) (u0 uAt0 : List ℚ → List ℚ) (inside : List (ℚ × List ℚ)) :
    (lossNonStatioSpinn d norm boundary (some (w, u0, uAt0)) inside).2.ic =
      icPDE w u0 uAt0 (gridPts d (inside.map (·.2))) := by
  simp [lossNonStatioSpinn, evalNonStatio, evalStatio]

/-- non-vacuity: 2 batch times, 4 samples: each time is repeated twice -/
example : repTimes [(5 : ℚ), 7] 4 = [5, 5, 7, 7] := by simp [repTimes]
example : (0 : Nat) < 4 / ([(5 : ℚ), 7] : List ℚ).length := by decide

/-! ### observations -/

theorem rowParams_lookup {κ : Type} [BEq κ] [LawfulBEq κ] (caller : List (κ × ℚ))
    (observed : List (κ × List ℚ)) (i : Nat) (k : κ) :
    (rowParams caller observed i).lookup k =
      (caller.lookup k).map fun v =>
        match observed.lookup k with
        | some col => col.getD i v
        | none => v := by
  induction caller with
  | nil => simp [rowParams]
  | cons kv rest ih =>
    obtain ⟨k', v'⟩ := kv
    unfold rowParams at ih ⊢
    rw [List.map_cons, List.lookup_cons, List.lookup_cons]
    by_cases hk : k = k'
    · subst hk
      cases ho : observed.lookup k <;> simp [ho]
    · have hne : (k == k') = false := by simpa using hk
      cases ho : observed.lookup k' <;> simp only [ho, hne] <;> exact ih

/-- **row alignment, observed keys**: for a key that is observed, row `i` sees row `i` of the
    observed table (the caller's value is not used as long as the table has a row `i`). -/
theorem rowParams_observed {κ : Type} [BEq κ] [LawfulBEq κ] (caller : List (κ × ℚ))
    (observed : List (κ × List ℚ)) (i : Nat) (k : κ) (v : ℚ) (col : List ℚ)
    (hc : caller.lookup k = some v) (ho : observed.lookup k = some col) (hi : i < col.length) :
    (rowParams caller observed i).lookup k = some col[i] := by
  rw [rowParams_lookup, hc, ho]
  simp [List.getD, hi]

/-- **row alignment, other keys**: every key that is not observed keeps the caller's value. -/
theorem rowParams_other {κ : Type} [BEq κ] [LawfulBEq κ] (caller : List (κ × ℚ))
    (observed : List (κ × List ℚ)) (i : Nat) (k : κ) (ho : observed.lookup k = none) :
    (rowParams caller observed i).lookup k = caller.lookup k := by
  rw [rowParams_lookup, ho]
  cases caller.lookup k <;> simp

/-- **an observed key wins over a generated one**: when a key is both in the parameter batch and in
    the observed parameters, observation row `i` sees row `i` of the *observed* table. -/
theorem obsRowParams_observed_wins {κ : Type} [BEq κ] [LawfulBEq κ] (caller : List (κ × ℚ))
    (pbatch observed : List (κ × List ℚ)) (i : Nat) (k : κ) (v : ℚ) (col : List ℚ)
    (hc : caller.lookup k = some v) (ho : observed.lookup k = some col) (hi : i < col.length) :
    (obsRowParams caller pbatch observed i).lookup k = some col[i] := by
  unfold obsRowParams
  have h1 : (rowParams caller pbatch i).lookup k = some
      (match pbatch.lookup k with
       | some c => c.getD i v
       | none => v) := by
    rw [rowParams_lookup, hc]; rfl
  exact rowParams_observed _ observed i k _ col h1 ho hi

/-- a key that is generated but not observed: row `i` of the generated table -/
theorem obsRowParams_generated_only {κ : Type} [BEq κ] [LawfulBEq κ] (caller : List (κ × ℚ))
    (pbatch observed : List (κ × List ℚ)) (i : Nat) (k : κ) (v : ℚ) (col : List ℚ)
    (hc : caller.lookup k = some v) (ho : observed.lookup k = none)
    (hp : pbatch.lookup k = some col) (hi : i < col.length) :
    (obsRowParams caller pbatch observed i).lookup k = some col[i] := by
  unfold obsRowParams
  rw [rowParams_other _ observed i k ho]
  exact rowParams_observed caller pbatch i k v col hc hp hi

/-- a key that is neither generated nor observed keeps the caller's value -/
theorem obsRowParams_other {κ : Type} [BEq κ] [LawfulBEq κ] (caller : List (κ × ℚ))
    (pbatch observed : List (κ × List ℚ)) (i : Nat) (k : κ)
    (ho : observed.lookup k = none) (hp : pbatch.lookup k = none) :
    (obsRowParams caller pbatch observed i).lookup k = caller.lookup k := by
  unfold obsRowParams
  rw [rowParams_other _ observed i k ho, rowParams_other caller pbatch i k hp]

/-- without a parameter batch the row parameters are those of `rowParams` -/
theorem obsRowParams_no_pbatch {κ : Type} [BEq κ] (caller : List (κ × ℚ))
    (observed : List (κ × List ℚ)) (i : Nat) :
    obsRowParams caller [] observed i = rowParams caller observed i := by
  have : rowParams caller ([] : List (κ × List ℚ)) i = caller := by
    simp [rowParams]
  simp [obsRowParams, this]

/-- **observation term, closed form**:
    `(1/n) Σ_{i<n} Σ_c w_c (u(in_i; params_i)[slice_solution][obs_slice] − val_i)_c²`. -/
theorem obsTerm_closed_form {I κ : Type} [BEq κ] (w : Weight) (u : I → List (κ × ℚ) → List ℚ)
    (sliceSol obsSlice : Slice) (caller : List (κ × ℚ)) (pbatch observed : List (κ × List ℚ))
    (ins : Nat → I) (vals : Nat → List ℚ) (n : Nat) :
    obsTerm w u sliceSol obsSlice caller pbatch observed ins vals n =
      ((List.range n).map fun i =>
        wsq w (sub (obsSlice.apply (sliceSol.apply (u (ins i) (obsRowParams caller pbatch observed i))))
          (vals i))).sum
        / (n : ℚ) := by
  simp [obsTerm, mean]

/-- **the observation term evaluates the network at the row-aligned pairs only**: two networks that
    agree at `(in_i, params_i)` for every row `i < n` give the same term, whatever they do at
    `(in_i, params_j)`, `j ≠ i`. -/
theorem obsTerm_row_alignment {I κ : Type} [BEq κ] (w : Weight) (u u' : I → List (κ × ℚ) → List ℚ)
    (sliceSol obsSlice : Slice) (caller : List (κ × ℚ)) (pbatch observed : List (κ × List ℚ))
    (ins : Nat → I) (vals : Nat → List ℚ) (n : Nat)
    (h : ∀ i, i < n → u (ins i) (obsRowParams caller pbatch observed i) =
      u' (ins i) (obsRowParams caller pbatch observed i)) :
    obsTerm w u sliceSol obsSlice caller pbatch observed ins vals n =
      obsTerm w u' sliceSol obsSlice caller pbatch observed ins vals n := by
  unfold obsTerm
  congr 1
  apply List.map_congr_left
  intro i hi
  rw [h i (List.mem_range.1 hi)]

/-- **`slice_solution` first, then `obs_slice`**: `obs_slice = [a:b]` is relative to the window
    `[c:d]` selected by `slice_solution`. -/
theorem slice_apply_apply (a b c d : Nat) (l : List ℚ) :
    Slice.apply (some (a, b)) (Slice.apply (some (c, d)) l) =
      (l.drop (c + a)).take (min (b - a) (d - c - a)) := by
  simp only [Slice.apply, List.drop_take, List.take_take, List.drop_drop]

/-! ### non-vacuity -/

/-- the order of the two slices matters: on `[10, 20, 30]`, `slice_solution = [1:3]` then
    `obs_slice = [0:1]` selects `20`; the other order selects nothing -/
example : Slice.apply (some (0, 1)) (Slice.apply (some (1, 3)) ([10, 20, 30] : List ℚ)) = [20] := rfl
example : Slice.apply (some (1, 3)) (Slice.apply (some (0, 1)) ([10, 20, 30] : List ℚ)) = [] := rfl

/-- a non-constant `u` on two samples: squared deviation of the mean is 0, mean of the squared
    deviations is 1 -/
example : sqr ((1 : ℚ) * mean [0, 2] - 1) = 0 ∧ mean (([0, 2] : List ℚ).map fun a => sqr (1 * a - 1)) = 1 := by
  norm_num [mean, sqr]
example : ∃ a ∈ ([0, 2] : List ℚ), ∃ b ∈ ([0, 2] : List ℚ), a ≠ b :=
  ⟨0, by simp, 2, by simp, by norm_num⟩

/-- row alignment on a concrete table: key "theta" observed, key "nu" not -/
example : rowParams [("theta", (5 : ℚ)), ("nu", 7)] [("theta", [10, 20, 30])] 1
    = [("theta", 20), ("nu", 7)] := by
  simp [rowParams, List.lookup]

/-- a concrete observation term: `u(i; θ) = [θ·i, 1]`, slice_solution `[0:1]`, rows aligned; θ is also
    generated by a parameter batch (rows 100, 200): the observed rows (1, 2) are the ones used -/
example :
    obsTerm (.scalar 2) (fun (i : ℚ) p => [((p.lookup "theta").getD 0) * i, 1]) (some (0, 1)) none
      [("theta", (5 : ℚ))] [("theta", [100, 200])] [("theta", [1, 2])] (fun i => (i : ℚ) + 1)
      (fun _ => [0]) 2 = 17 := by
  norm_num [obsTerm, mean, wsq, sqr, LossTerms.sub, Slice.apply, obsRowParams, rowParams, List.lookup,
    List.range_succ]

example : obsRowParams [("theta", (5 : ℚ)), ("nu", 7)] [("theta", [100, 200]), ("nu", [8, 9])]
    [("theta", [10, 20])] 1 = [("theta", 20), ("nu", 9)] := by
  simp [obsRowParams, rowParams, List.lookup]

example : icODE 3 [[1, 2]] [0, 4] = 15 := by norm_num [icODE, mean, LossTerms.sub, sqr]

end Jinns.LossTerms
